package main

// Oracle `c15search` (property C15): SEARCH / UID SEARCH on the real server, over mailboxes whose messages are
// known by construction, judged by the Lean model + RFC spec (dialect judge-c15-search, GluonModel/Driver/DSearch.lean).
//
// A "world" is a script (the replay format, one step per line):
//
//	par <0|1|2>                                 server built with (0) / without (1) gluon.WithDisableParallelism; 2: the whole
//	                                            script is run on both servers and the answers are compared search by search
//	msg <flags|-> <unix>/<off> <lit> <hdr> <body> <sent>
//	                                            APPEND by the writer W with that INTERNALDATE; lit/body hex, hdr = name=value,…
//	                                            (hex; the fields and their unfolded values as generated), sent = x | <unix>/<off>
//	                                            (what the generated Date header means; x = deliberately unparsable)
//	observe <select|examine>                    the observer O opens the mailbox (its view = everything appended so far)
//	mode <none|hold|barrier>                    hold: O's state gets no update (server.VerifHold) while W mutates;
//	                                            barrier: W mutates, then every queued update is applied to O (Sys.Barrier)
//	mut store <uid> <+|-> <flag> | mut expunge <uid> | mut msg …   W's changes after O opened the mailbox
//	search <seq|uid> <cs> <dectab> <keys> <seg|seg|…>
//	                                            one SEARCH by O: charset lookup outcome, decoder table, key tree (model
//	                                            encoding) and the wire text (hex segments, each but the last ends in {n}CRLF)
//
//	ident <seq|uid> <day>                       three searches by O: ON d | NOT BEFORE d BEFORE d+1 | SINCE d BEFORE d+1, each judged
//	                                            like a `search` line, and the three answers together by judge-c15-dayident
//
// Directed scenarios (harness/o_search_directed.go): internal dates / Date headers on and around midnight in several
// zones with keys derived from them; large mailboxes (sizes coprime to any worker count) on the parallel server.
// harness/o_search_folds.go: folded header fields (every generated message draws its folds from there) and the
// scenario `folds` (search strings that span / touch / imitate every fold of a Subject From To Cc Bcc HEADER field).
// The header claimed for each message (hdr) is checked against the Lean model's derivation from the stored literal
// (judge-c15-hdr: C13's entry parser + Search.unfold = mergeMultiline).
//
// O's view is what O itself reports (FETCH 1:* (UID FLAGS), asked twice so that pending updates are flushed, and once
// more at the end: a world whose view moved is discarded). With `hold`/`barrier` after an expunge by W the view still
// holds the messages expunged elsewhere (SEARCH never flushes EXPUNGEs).

import (
	"crypto/sha1"
	"encoding/hex"
	"encoding/json"
	"flag"
	"fmt"
	"os"
	"path/filepath"
	"regexp"
	"sort"
	"strconv"
	"strings"
	"time"

	"github.com/ProtonMail/gluon"
	"golang.org/x/text/encoding/ianaindex"
)

// ---- server ----------------------------------------------------------------------------------

// newSysC15: the whole-server harness with or without parallel evaluation.
func newSysC15(disablePar bool) (*Sys, error) {
	if disablePar {
		return NewSys(SysOpts{Extra: []gluon.Option{gluon.WithDisableParallelism()}})
	}
	return NewSys(SysOpts{})
}

// ---- world data --------------------------------------------------------------------------------

type c15Time struct{ Unix, Off int64 }

func (t c15Time) String() string { return fmt.Sprintf("%d/%d", t.Unix, t.Off) }
func (t c15Time) Go() time.Time {
	return time.Unix(t.Unix, 0).In(time.FixedZone("z", int(t.Off)))
}

func parseC15Time(s string) (c15Time, bool) {
	p := strings.Split(s, "/")
	if len(p) != 2 {
		return c15Time{}, false
	}
	u, e1 := strconv.ParseInt(p[0], 10, 64)
	o, e2 := strconv.ParseInt(p[1], 10, 64)
	return c15Time{u, o}, e1 == nil && e2 == nil
}

type c15Msg struct {
	Flags []string
	Date  c15Time
	Lit   []byte
	Hdr   [][2]string
	Body  []byte
	Sent  *c15Time
	// learnt from the server
	UID   int
	Gluon string
	// generation only (not part of the script line): where the values of Hdr stand for a line break of the literal
	folds []c15FoldRef
}

func c15HexOrTilde(b []byte) string {
	if len(b) == 0 {
		return "~"
	}
	return hex.EncodeToString(b)
}

func c15UnhexOrTilde(s string) []byte {
	if s == "~" {
		return nil
	}
	b, _ := hex.DecodeString(s)
	return b
}

func (m *c15Msg) hdrEnc(withGluon bool) string {
	var parts []string
	if withGluon {
		parts = append(parts, c15HexOrTilde([]byte("X-Pm-Gluon-Id"))+"="+c15HexOrTilde([]byte(m.Gluon)))
	}
	for _, f := range m.Hdr {
		parts = append(parts, c15HexOrTilde([]byte(f[0]))+"="+c15HexOrTilde([]byte(f[1])))
	}
	if len(parts) == 0 {
		return "-"
	}
	return strings.Join(parts, ",")
}

func (m *c15Msg) line() string {
	fl := "-"
	if len(m.Flags) > 0 {
		fl = strings.Join(m.Flags, ",")
	}
	sent := "x"
	if m.Sent != nil {
		sent = m.Sent.String()
	}
	return fmt.Sprintf("msg %s %s %s %s %s %s", fl, m.Date, c15HexOrTilde(m.Lit), m.hdrEnc(false), c15HexOrTilde(m.Body), sent)
}

func parseC15MsgLine(f []string) (*c15Msg, error) {
	if len(f) != 7 {
		return nil, fmt.Errorf("bad msg line")
	}
	m := &c15Msg{}
	if f[1] != "-" {
		m.Flags = strings.Split(f[1], ",")
	}
	d, ok := parseC15Time(f[2])
	if !ok {
		return nil, fmt.Errorf("bad date")
	}
	m.Date = d
	m.Lit = c15UnhexOrTilde(f[3])
	if f[4] != "-" {
		for _, it := range strings.Split(f[4], ",") {
			kv := strings.Split(it, "=")
			if len(kv) != 2 {
				return nil, fmt.Errorf("bad hdr")
			}
			m.Hdr = append(m.Hdr, [2]string{string(c15UnhexOrTilde(kv[0])), string(c15UnhexOrTilde(kv[1]))})
		}
	}
	m.Body = c15UnhexOrTilde(f[5])
	if f[6] != "x" {
		t, ok := parseC15Time(f[6])
		if !ok {
			return nil, fmt.Errorf("bad sent")
		}
		m.Sent = &t
	}
	return m, nil
}

// the stored literal: gluon puts its id header in front of the first header field
func (m *c15Msg) stored() []byte {
	return append([]byte("X-Pm-Gluon-Id: "+m.Gluon+"\r\n"), m.Lit...)
}

// data item of the judge line
func (m *c15Msg) dataEnc(id int) string {
	sent := "x"
	if m.Sent != nil {
		sent = m.Sent.String()
	}
	st := m.stored()
	return fmt.Sprintf("%d:%d:%d:%d:%s:%s:%s:%s", id, len(st), m.Date.Unix, m.Date.Off, sent, m.hdrEnc(true), c15HexOrTilde(m.Body), c15HexOrTilde(st))
}

// ---- wire helpers --------------------------------------------------------------------------------

// CmdSegs sends a command whose text contains synchronising literals: every segment but the last ends in "{n}\r\n".
func c15CmdSegs(c *Client, segs [][]byte) Reply {
	c.tagN++
	tag := fmt.Sprintf("%s%d", c.Name, c.tagN)
	rep := Reply{Tag: tag}
	for i, s := range segs {
		data := s
		if i == 0 {
			data = append([]byte(tag+" "), s...)
		}
		if i == len(segs)-1 {
			data = append(append([]byte{}, data...), '\r', '\n')
		}
		_ = c.conn.SetWriteDeadline(time.Now().Add(c.Timeout))
		if _, err := c.conn.Write(data); err != nil {
			rep.Err = err
			return rep
		}
		if i == len(segs)-1 {
			break
		}
		for {
			b, err := c.readLogical()
			if err != nil {
				rep.Err = err
				return rep
			}
			l := string(b)
			if strings.HasPrefix(l, "+") {
				break
			}
			if strings.HasPrefix(l, tag+" ") {
				rep.Tagged = l
				if f := strings.Fields(l); len(f) > 1 {
					rep.Status = f[1]
				}
				return rep
			}
			rep.Untagged = append(rep.Untagged, l)
		}
	}
	r2 := c.readReply(tag)
	r2.Untagged = append(rep.Untagged, r2.Untagged...)
	return r2
}

func c15SegsEnc(segs [][]byte) string {
	var p []string
	for _, s := range segs {
		p = append(p, c15HexOrTilde(s))
	}
	return strings.Join(p, "|")
}

func c15SegsDec(s string) [][]byte {
	var out [][]byte
	for _, p := range strings.Split(s, "|") {
		out = append(out, c15UnhexOrTilde(p))
	}
	return out
}

func c15SegsText(segs [][]byte) string {
	var b []byte
	for _, s := range segs {
		b = append(b, s...)
	}
	return strconv.Quote(string(b))
}

var (
	c15ReSearchLine = regexp.MustCompile(`^\* SEARCH( .*)?$`)
	c15ReGluonID    = regexp.MustCompile(`X-Pm-Gluon-Id: ([0-9a-fA-F-]{36})`)
	c15ReSize       = regexp.MustCompile(`RFC822\.SIZE (\d+)`)
	c15ReIntDate    = regexp.MustCompile(`INTERNALDATE "([^"]*)"`)
	c15ReAppendUID  = regexp.MustCompile(`\[APPENDUID \d+ (\d+)\]`)
)

// ---- executing a world ------------------------------------------------------------------------------

type c15SearchRun struct {
	line   string // the script line
	judge  string // judge op (without "=> impl")
	impl   string
	wire   string
	answer string // verdict of the Lean judge
}

// c15Ident: one `ident` line = the indices of its three searches in c15World.searches
type c15Ident struct {
	line       string
	mode       string
	day        int64
	on, nb, sb int
	answer     string
}

type c15World struct {
	lines        []string
	idents       []*c15Ident
	searches     []*c15SearchRun
	problems     []string // construction mismatches (harness or server disagreeing with what was generated)
	unstable     bool
	viewLen      int
	expunged     int      // EXPUNGE responses W received
	msgLits      []string // readable form of the appended messages (for reports)
	goneInView   int      // messages of O's view that are no longer in the mailbox
	msgs         []*c15Msg // the appended messages (header claims are checked by judge-c15-hdr)
	view         []FetchedMsg
	hdrAnswers   []string
	goneAnswered int      // answers that name such a message
}

type c15Exec struct {
	sys   *Sys
	mbox  string
	w, o  *Client
	oID   int64
	held  bool
	msgs  []*c15Msg // world messages in append order; id = index+1
	view  []FetchedMsg
	world *c15World
	gone  map[int]bool // uids expunged by W
}

func (x *c15Exec) problem(format string, a ...any) {
	x.world.problems = append(x.world.problems, fmt.Sprintf(format, a...))
}

func (x *c15Exec) appendMsg(m *c15Msg) error {
	head := "APPEND " + x.mbox
	if len(m.Flags) > 0 {
		head += " (" + strings.Join(m.Flags, " ") + ")"
	}
	head += " \"" + m.Date.Go().Format("02-Jan-2006 15:04:05 -0700") + "\""
	rep := x.w.CmdLiteral(head, m.Lit, "")
	if rep.Err != nil {
		return rep.Err
	}
	if rep.Status != "OK" {
		return fmt.Errorf("APPEND refused: %s", rep.Tagged)
	}
	u := c15ReAppendUID.FindStringSubmatch(rep.Tagged)
	if u == nil {
		return fmt.Errorf("no APPENDUID in %q", rep.Tagged)
	}
	m.UID = atoi(u[1])
	// what the server stored: its id header, size and internal date
	rep = x.w.Cmd(fmt.Sprintf("UID FETCH %d (UID RFC822.SIZE INTERNALDATE BODY.PEEK[HEADER.FIELDS (X-Pm-Gluon-Id)])", m.UID))
	if rep.Err != nil {
		return rep.Err
	}
	found := false
	for _, u := range rep.Untagged {
		if !strings.Contains(u, " FETCH (") || !strings.Contains(u, fmt.Sprintf("UID %d ", m.UID)) {
			continue
		}
		g := c15ReGluonID.FindStringSubmatch(u)
		if g == nil {
			continue
		}
		found = true
		m.Gluon = g[1]
		if s := c15ReSize.FindStringSubmatch(u); s == nil || atoi(s[1]) != len(m.stored()) {
			x.problem("uid %d: RFC822.SIZE %v, by construction %d", m.UID, s, len(m.stored()))
		}
		want := m.Date.Go().UTC().Format("02-Jan-2006 15:04:05 -0700")
		if d := c15ReIntDate.FindStringSubmatch(u); d == nil || d[1] != want {
			x.problem("uid %d: INTERNALDATE %v, by construction %s", m.UID, d, want)
		}
	}
	if !found {
		return fmt.Errorf("no X-Pm-Gluon-Id for uid %d: %v", m.UID, rep.Untagged)
	}
	x.msgs = append(x.msgs, m)
	x.world.msgs = x.msgs
	x.world.msgLits = append(x.world.msgLits, fmt.Sprintf("uid %d flags (%s) internaldate %q literal %s", m.UID, strings.Join(m.Flags, " "),
		m.Date.Go().Format("02-Jan-2006 15:04:05 -0700"), strconv.Quote(string(m.Lit))))
	return nil
}

func (x *c15Exec) byUID(uid int) (int, *c15Msg) {
	for i, m := range x.msgs {
		if m.UID == uid {
			return i + 1, m
		}
	}
	return 0, nil
}

func c15SameView(a, b []FetchedMsg) bool {
	if len(a) != len(b) {
		return false
	}
	for i := range a {
		if a[i].Seq != b[i].Seq || a[i].UID != b[i].UID || showFlags(a[i].Flags) != showFlags(b[i].Flags) {
			return false
		}
	}
	return true
}

// settle: probe O until two consecutive probes agree and carry no further announcements
func (x *c15Exec) settle() error {
	var last []FetchedMsg
	for k := 0; k < 4; k++ {
		v, rep := x.o.FetchAll()
		if rep.Err != nil {
			return rep.Err
		}
		if k > 0 && c15SameView(last, v) && len(rep.Untagged) == len(v) {
			x.view = v
			return nil
		}
		last = v
	}
	x.view = last
	x.world.unstable = true
	return nil
}

func (x *c15Exec) judgePrefix() (snap, data string) {
	var sp, dp []string
	for _, v := range x.view {
		id, m := x.byUID(v.UID)
		if m == nil {
			x.problem("view holds uid %d which was never appended", v.UID)
			continue
		}
		sp = append(sp, fmt.Sprintf("%d:%d:%s", id, v.UID, showFlags(v.Flags)))
		dp = append(dp, m.dataEnc(id))
	}
	if len(sp) == 0 {
		return "-", "-"
	}
	return strings.Join(sp, ";"), strings.Join(dp, ";")
}

func (x *c15Exec) search(f []string, line string) error {
	if len(f) != 6 {
		return fmt.Errorf("bad search line")
	}
	segs := c15SegsDec(f[5])
	rep := c15CmdSegs(x.o, segs)
	run := &c15SearchRun{line: line, wire: c15SegsText(segs)}
	panics := x.sys.Panics.Take()
	switch {
	case len(panics) > 0:
		run.impl = "panic"
	case rep.Err != nil:
		run.impl = "lost"
	case rep.Status == "OK":
		var nums []string
		seen := false
		for _, u := range rep.Untagged {
			if m := c15ReSearchLine.FindStringSubmatch(u); m != nil {
				seen = true
				nums = append(nums, strings.Fields(m[1])...)
			} else {
				// the view moved under the search
				x.world.unstable = true
			}
		}
		if !seen {
			run.impl = "ok-without-search-response"
		} else if len(nums) == 0 {
			run.impl = "ok:-"
		} else {
			run.impl = "ok:" + strings.Join(nums, ",")
			for _, ns := range nums {
				n := atoi(ns)
				for _, v := range x.view {
					if ((f[1] == "uid" && v.UID == n) || (f[1] != "uid" && v.Seq == n)) && x.gone[v.UID] {
						x.world.goneAnswered++
						n = -1
						break
					}
				}
				if n == -1 {
					break
				}
			}
		}
	case rep.Status == "NO" && strings.Contains(rep.Tagged, "[BADCHARSET]"):
		run.impl = "badcharset"
	case rep.Status == "NO":
		run.impl = "no"
	case rep.Status == "BAD":
		run.impl = "bad"
	default:
		run.impl = "lost"
	}
	snap, data := x.judgePrefix()
	run.judge = fmt.Sprintf("judge-c15-search %s %s %s %s %s %s", f[1], f[2], snap, data, f[3], f[4])
	x.world.searches = append(x.world.searches, run)
	if run.impl == "panic" || run.impl == "lost" {
		// the session is gone: give O a new connection on the same mailbox (view = current mailbox)
		return fmt.Errorf("session lost after %s", run.wire)
	}
	return nil
}

func (x *c15Exec) close() {
	if x.held && x.oID != 0 {
		x.sys.Server.VerifRelease(x.oID, -1, true)
	}
	if x.o != nil {
		x.o.Close()
	}
	if x.w != nil {
		x.w.Close()
	}
}

// runC15World executes a script on sys in mailbox mbox.
func runC15World(sys *Sys, mbox string, lines []string) (*c15World, error) {
	x := &c15Exec{sys: sys, mbox: mbox, world: &c15World{lines: lines}, gone: map[int]bool{}}
	defer x.close()
	var err error
	if x.w, err = sys.Dial("w"); err != nil {
		return x.world, err
	}
	if rep := x.w.Login("user"); rep.Status != "OK" {
		return x.world, fmt.Errorf("login: %v", rep)
	}
	if rep := x.w.Cmd("CREATE " + mbox); rep.Status != "OK" {
		return x.world, fmt.Errorf("create: %v", rep.Tagged)
	}
	if rep := x.w.Cmd("SELECT " + mbox); rep.Status != "OK" {
		return x.world, fmt.Errorf("select: %v", rep.Tagged)
	}
	mode := "none"
	searching := false
	// before the first search: apply what is queued (barrier), take O's view, see which of its messages are gone
	startSearching := func() error {
		if searching {
			return nil
		}
		searching = true
		if mode == "barrier" {
			if err := sys.Barrier(); err != nil {
				return err
			}
		}
		if err := x.settle(); err != nil {
			return err
		}
		x.world.viewLen = len(x.view)
		x.world.view = x.view
		// which messages of O's view are gone from the mailbox (W's view is current)
		wv, rep := x.w.FetchAll()
		if rep.Err != nil {
			return rep.Err
		}
		present := map[int]bool{}
		for _, m := range wv {
			present[m.UID] = true
		}
		for _, v := range x.view {
			if !present[v.UID] {
				x.gone[v.UID] = true
			}
		}
		x.world.goneInView = len(x.gone)
		return nil
	}
	for _, line := range lines {
		f := strings.Fields(line)
		if len(f) == 0 || strings.HasPrefix(line, "#") {
			continue
		}
		switch f[0] {
		case "oracle", "par":
		case "msg":
			m, err := parseC15MsgLine(f)
			if err != nil {
				return x.world, err
			}
			if err := x.appendMsg(m); err != nil {
				return x.world, err
			}
		case "observe":
			before := map[int64]bool{}
			for _, st := range sys.Server.VerifStates(sys.UserID) {
				before[int64(st.ID)] = true
			}
			if x.o, err = sys.Dial("o"); err != nil {
				return x.world, err
			}
			x.o.Timeout = 8 * time.Second
			if rep := x.o.Login("user"); rep.Status != "OK" {
				return x.world, fmt.Errorf("login: %v", rep)
			}
			for _, st := range sys.Server.VerifStates(sys.UserID) {
				if !before[int64(st.ID)] {
					x.oID = int64(st.ID)
				}
			}
			cmd := "SELECT "
			if f[1] == "examine" {
				cmd = "EXAMINE "
			}
			if rep := x.o.Cmd(cmd + mbox); rep.Status != "OK" {
				return x.world, fmt.Errorf("observer %s: %v", cmd, rep.Tagged)
			}
		case "mode":
			mode = f[1]
			if mode == "hold" && x.oID != 0 {
				sys.Server.VerifHold(x.oID)
				x.held = true
			}
		case "mut":
			if len(f) < 2 {
				return x.world, fmt.Errorf("bad mut")
			}
			switch f[1] {
			case "store":
				op := "+FLAGS"
				if f[3] == "-" {
					op = "-FLAGS"
				}
				if rep := x.w.Cmd(fmt.Sprintf("UID STORE %s %s (%s)", f[2], op, f[4])); rep.Err != nil {
					return x.world, rep.Err
				}
			case "expunge":
				if rep := x.w.Cmd(fmt.Sprintf("UID STORE %s +FLAGS (\\Deleted)", f[2])); rep.Err != nil {
					return x.world, rep.Err
				}
				rep := x.w.Cmd("EXPUNGE")
				if rep.Err != nil {
					return x.world, rep.Err
				}
				for _, u := range rep.Untagged {
					if strings.HasSuffix(u, " EXPUNGE") {
						x.world.expunged++
					}
				}
			case "msg":
				m, err := parseC15MsgLine(f[1:])
				if err != nil {
					return x.world, err
				}
				if err := x.appendMsg(m); err != nil {
					return x.world, err
				}
			}
		case "search":
			if x.o == nil {
				return x.world, fmt.Errorf("search before observe")
			}
			if err := startSearching(); err != nil {
				return x.world, err
			}
			if err := x.search(f, line); err != nil {
				// session lost (panic): nothing more can be asked in this world
				return x.world, nil
			}
		case "ident":
			if x.o == nil || len(f) != 3 {
				return x.world, fmt.Errorf("bad ident line")
			}
			if err := startSearching(); err != nil {
				return x.world, err
			}
			day, _ := strconv.ParseInt(f[2], 10, 64)
			id := &c15Ident{line: line, mode: f[1], day: day}
			for i, sl := range c15IdentSearches(f[1], day) {
				if err := x.search(strings.Fields(sl), sl); err != nil {
					return x.world, nil
				}
				switch i {
				case 0:
					id.on = len(x.world.searches) - 1
				case 1:
					id.nb = len(x.world.searches) - 1
				default:
					id.sb = len(x.world.searches) - 1
				}
			}
			x.world.idents = append(x.world.idents, id)
		default:
			return x.world, fmt.Errorf("bad script line %q", line)
		}
	}
	if searching {
		v, rep := x.o.FetchAll()
		if rep.Err != nil || !c15SameView(v, x.view) {
			x.world.unstable = true
		}
	}
	return x.world, nil
}

// ---- generation ----------------------------------------------------------------------------------------

var (
	c15Words = []string{"alpha", "Beta", "GAMMA", "delta", "Epsilon", "zeta", "hello", "World", "foo", "bar", "baz", "Quux",
		"café", "naïve", "日本", "straße", "x-ray", "re: plan", "50%", "a\"b", "back\\slash"}
	c15People = []string{"Alice <alice@example.com>", "bob@example.org", "Carol Q <carol@mail.test>", "dave@EXAMPLE.com", "\"Eve, X\" <eve@x.test>"}
	c15Flags  = []string{"\\Seen", "\\Answered", "\\Flagged", "\\Deleted", "\\Draft", "Foo", "bar", "$Label1"}
	c15Zones  = []int64{0, 3600, -7200, 19800, 43200, -39600, 50400, -3600}
	c15Hours  = []int{0, 0, 1, 12, 22, 23, 23}
	c15Base   = int64(1577836800) // 2020-01-01T00:00:00Z
)

type c15Gen struct {
	r      *Rng
	odd    bool // the world may hold the known oddities (unparsable Date, duplicated fields)
	zones  bool // internal dates / Date headers in zones other than +0000
	msgs   []*c15Msg
	nextID int
}

func (g *c15Gen) words(lo, hi int) []string {
	n := g.r.Range(lo, hi)
	var w []string
	for i := 0; i < n; i++ {
		w = append(w, Pick(g.r, c15Words))
	}
	return w
}

func (g *c15Gen) time() c15Time {
	day := int64(g.r.Range(0, 9))
	h := int64(Pick(g.r, c15Hours))
	off := int64(0)
	if g.zones {
		off = Pick(g.r, c15Zones)
	}
	switch g.r.Intn(8) {
	case 0:
		// on or next to a day boundary of the instant (midnight UTC, whatever the zone it is written in)
		return c15Time{Unix: c15Base + day*86400 + Pick(g.r, c15Edge), Off: off}
	case 1:
		// the wall clock of the zone reads midnight (or a second before / after)
		return c15Time{Unix: c15Base + day*86400 + Pick(g.r, c15Edge) - off, Off: off}
	}
	// the wall clock reads day/h:mm:ss in the zone
	local := c15Base + day*86400 + h*3600 + int64(g.r.Intn(3600))
	return c15Time{Unix: local - off, Off: off}
}

// seconds relative to a day boundary
var c15Edge = []int64{-1, 0, 0, 1}

func c15FloorDay(sec int64) int64 {
	d := sec / 86400
	if sec%86400 < 0 {
		d--
	}
	return d
}

func c15CaseMix(r *Rng, s string) string {
	b := []byte(s)
	for i, c := range b {
		if c >= 'a' && c <= 'z' && r.Chance(1, 3) {
			b[i] = c - 32
		} else if c >= 'A' && c <= 'Z' && r.Chance(1, 3) {
			b[i] = c + 32
		}
	}
	return string(b)
}

func (g *c15Gen) msg() *c15Msg {
	r := g.r
	m := &c15Msg{Date: g.time()}
	for _, f := range c15Flags {
		if r.Chance(1, 4) {
			m.Flags = append(m.Flags, f)
		}
	}
	// every field is a list of tokens; c15BuildValue (o_search_folds.go) decides where the value is folded and how
	// (CRLF + blanks / tabs, several folds, right after the colon, inside a word, white space around the break) and
	// knows by construction what Header.Get answers for it
	type field struct {
		name string
		v    c15Value
	}
	var fields []field
	add := func(name string, v c15Value) { fields = append(fields, field{name, v}) }
	tame := func(s string, pct int) c15Value { return c15BuildValue(r, strings.Split(s, " "), pct, false, false) }
	people := func(lo, hi int) c15Value {
		var toks []string
		n := r.Range(lo, hi)
		for i := 0; i < n; i++ {
			p := strings.Split(Pick(r, c15People), " ")
			if i < n-1 {
				p[len(p)-1] += ","
			}
			toks = append(toks, p...)
		}
		return c15BuildValue(r, toks, 30, true, false)
	}
	add("From", tame(Pick(r, c15People), 25))
	// Date
	sent := g.time()
	switch {
	case g.odd && r.Chance(1, 6):
		add("Date", tame(Pick(r, []string{"garbage", "yesterday at noon"}), 0))
	case r.Chance(1, 3):
		add("Date", tame(sent.Go().Format("02 Jan 2006 15:04:05 -0700"), 8))
		m.Sent = &sent
	default:
		add("Date", tame(sent.Go().Format("Mon, 02 Jan 2006 15:04:05 -0700"), 8))
		m.Sent = &sent
	}
	if r.Chance(4, 5) {
		add("To", people(1, 3))
		if g.odd && r.Chance(1, 5) {
			add("To", people(1, 2))
		}
	}
	if r.Chance(2, 5) {
		add("Cc", people(1, 3))
	}
	if r.Chance(1, 5) {
		add("Bcc", people(1, 2))
	}
	if r.Chance(9, 10) {
		w := g.words(1, 4)
		if r.Chance(1, 8) {
			// a long subject: far beyond the 78 columns at which mail software folds
			w = append(w, g.words(10, 24)...)
		}
		add("Subject", c15BuildValue(r, w, 35, true, true))
	}
	nrec := 0
	if r.Chance(1, 2) {
		nrec = 1
		if g.odd && r.Chance(1, 2) {
			nrec = 2
		}
	}
	for i := 0; i < nrec; i++ {
		add("Received", c15BuildValue(r, []string{"from", Pick(r, c15Words) + ".example", "by", "mx" + strconv.Itoa(i) + ".example;", Pick(r, c15Words)}, 50, true, false))
	}
	if r.Chance(1, 2) {
		add("X-Tag", c15BuildValue(r, g.words(1, 3), 30, true, true))
		if g.odd && r.Chance(1, 3) {
			add("X-Tag", c15BuildValue(r, g.words(1, 2), 30, true, false))
		}
	}
	// From stays first (gluon inserts its id header in front of the first field), the rest is shuffled
	for i := len(fields) - 1; i > 1; i-- {
		j := 1 + r.Intn(i)
		fields[i], fields[j] = fields[j], fields[i]
	}
	var lit []byte
	for i, f := range fields {
		name := f.name
		if r.Chance(1, 4) {
			name = c15CaseMix(r, name)
		}
		lit = append(lit, name+":"+f.v.raw...)
		m.Hdr = append(m.Hdr, [2]string{name, f.v.val})
		for j, o := range f.v.folds {
			m.folds = append(m.folds, c15FoldRef{hdr: i, off: o, raw: f.v.rawSeps[j], wid: f.v.widths[j]})
		}
	}
	lit = append(lit, "\r\n"...)
	if !r.Chance(1, 8) {
		nl := r.Range(1, 5)
		for i := 0; i < nl; i++ {
			m.Body = append(m.Body, strings.Join(g.words(1, 6), " ")+"\r\n"...)
		}
	}
	m.Lit = append(lit, m.Body...)
	return m
}

// ---- key trees ----------------------------------------------------------------------------------------

type c15KeyGen struct {
	r       *Rng
	g       *c15Gen
	n       int   // messages in the view (approximately: appended so far)
	uids    []int // uids 1..n (fresh mailbox)
	charset string
	enc     func(string) ([]byte, bool) // word -> raw key bytes in the command's charset
	dec     func([]byte) ([]byte, bool)
	dectab  map[string]string
	odd     bool
	stats   map[string]int
	keys    []string // model tokens
	segs    [][]byte
	cur     []byte
}

func (k *c15KeyGen) emit(s string) { k.cur = append(k.cur, s...) }

func c15IsAtomSafe(b []byte) bool {
	if len(b) == 0 {
		return false
	}
	for _, c := range b {
		// `[` is an ATOM-CHAR of RFC 3501 that gluon's parser refuses (known finding K-lbracket-atom, property C10): the
		// model starts behind the parser, so such a string is sent quoted or as a literal
		if c <= 0x20 || c >= 0x7f || strings.ContainsRune("(){%*\"\\][", rune(c)) {
			return false
		}
	}
	return true
}

func c15IsQuotedSafe(b []byte) bool {
	for _, c := range b {
		if c == '\r' || c == '\n' || c == 0 || c >= 0x7f {
			return false
		}
	}
	return true
}

// astring in one of its spellings
func (k *c15KeyGen) astring(b []byte) {
	switch {
	case c15IsAtomSafe(b) && k.r.Chance(1, 2):
		k.emit(string(b))
	case c15IsQuotedSafe(b) && k.r.Chance(3, 4):
		q := strings.ReplaceAll(strings.ReplaceAll(string(b), "\\", "\\\\"), "\"", "\\\"")
		k.emit("\"" + q + "\"")
	default:
		k.emit(fmt.Sprintf("{%d}\r\n", len(b)))
		k.segs = append(k.segs, k.cur)
		k.cur = append([]byte{}, b...)
	}
}

func (k *c15KeyGen) kw(s string) {
	if k.r.Chance(1, 3) {
		s = c15CaseMix(k.r, s)
	}
	k.emit(s)
}

// a string that has a fair chance to occur in some message
func (k *c15KeyGen) needle() string {
	r := k.r
	if k.odd && r.Chance(1, 12) {
		return ""
	}
	var s string
	switch r.Intn(6) {
	case 0:
		s = Pick(r, c15People)
		if i := strings.IndexAny(s, "<@"); i >= 0 && r.Bool() {
			s = s[i+1:]
		}
	case 1:
		s = Pick(r, c15Words) + " " + Pick(r, c15Words)
	default:
		s = Pick(r, c15Words)
	}
	rs := []rune(s)
	if len(rs) > 2 && r.Chance(1, 2) {
		a := r.Intn(len(rs) - 1)
		b := a + 1 + r.Intn(len(rs)-a-1)
		rs = rs[a : b+1]
	}
	s = string(rs)
	if r.Chance(1, 2) {
		s = c15CaseMix(r, s)
	}
	return s
}

// the string of a header-string / BODY / TEXT key: half of the time taken from the values of the generated messages
// (o_search_folds.go: spanning a fold, on its edge, look-alikes of the raw header block), else from the word lists
func (k *c15KeyGen) needleFor(field string) string {
	if len(k.g.msgs) > 0 && k.r.Chance(1, 2) {
		if s, ok := k.msgNeedle(field); ok {
			return s
		}
	}
	return k.needle()
}

// records what the command's decoder makes of the raw key bytes
func (k *c15KeyGen) noteDecoded(raw []byte) {
	d, dok := k.dec(raw)
	if !dok {
		k.dectab[c15HexOrTilde(raw)] = "!"
	} else if string(d) != string(raw) {
		k.dectab[c15HexOrTilde(raw)] = c15HexOrTilde(d)
	}
}

// BCC CC FROM SUBJECT TO BODY TEXT with the given raw key bytes
func (k *c15KeyGen) strKeyWith(name string, raw []byte) {
	k.noteDecoded(raw)
	k.kw(strings.ToUpper(name))
	k.emit(" ")
	k.astring(raw)
	k.keys = append(k.keys, name+":"+c15HexOrTilde(raw))
}

// HEADER <field> <raw>
func (k *c15KeyGen) headerKeyWith(field string, raw []byte) {
	k.noteDecoded(raw)
	k.kw("HEADER")
	k.emit(" ")
	k.astring([]byte(field))
	k.emit(" ")
	k.astring(raw)
	k.keys = append(k.keys, "header:"+c15HexOrTilde([]byte(field))+":"+c15HexOrTilde(raw))
}

func (k *c15KeyGen) strKey(name string) {
	field := name
	if name == "body" {
		field = "-" // no field of that name: the word lists
	} else if name == "text" {
		field = "" // any field: TEXT reads the raw literal, where the folds are line breaks
	}
	raw, ok := k.enc(k.needleFor(field))
	if !ok {
		raw = []byte("foo")
	}
	k.strKeyWith(name, raw)
}

func (k *c15KeyGen) dayKey(name string) {
	r := k.r
	day := int64(c15Base/86400) + int64(r.Range(-1, 10))
	if len(k.g.msgs) > 0 && r.Chance(3, 5) {
		// the day of some message (as the instant names it in UTC, or as its own zone names it), the day before, the day after
		m := Pick(r, k.g.msgs)
		t := m.Date
		if strings.HasPrefix(name, "sent") && m.Sent != nil {
			t = *m.Sent
		}
		day = c15FloorDay(t.Unix)
		if r.Bool() {
			day = c15FloorDay(t.Unix + t.Off)
		}
		day += Pick(r, []int64{-1, 0, 0, 1})
		k.stats["daykey.from-message"]++
	}
	t := time.Unix(day*86400, 0).UTC()
	txt := t.Format("2-Jan-2006")
	if r.Bool() {
		txt = t.Format("02-Jan-2006")
	}
	if r.Chance(1, 4) {
		txt = "\"" + txt + "\""
	}
	k.kw(strings.ToUpper(name))
	k.emit(" " + txt)
	k.keys = append(k.keys, fmt.Sprintf("%s:%d", name, day))
}

func (k *c15KeyGen) num() (string, int64) {
	r := k.r
	if k.odd && r.Chance(1, 40) {
		v := uint64(1)<<32 + uint64(r.Range(0, 3))
		return strconv.FormatUint(v, 10), int64(v)
	}
	v := r.Range(1, max(k.n, 1))
	if r.Chance(1, 10) {
		v = k.n + r.Range(1, 2)
	}
	return strconv.Itoa(v), int64(v)
}

func (k *c15KeyGen) setKey(uid bool) {
	r := k.r
	var txt, enc []string
	for i, cnt := 0, r.Range(1, 3); i < cnt; i++ {
		one := func() (string, int64) {
			if r.Chance(1, 6) {
				return "*", 0
			}
			return k.num()
		}
		a, av := one()
		if r.Chance(1, 2) {
			txt = append(txt, a)
			enc = append(enc, fmt.Sprintf("%d_%d", av, av))
		} else {
			b, bv := one()
			txt = append(txt, a+":"+b)
			enc = append(enc, fmt.Sprintf("%d_%d", av, bv))
		}
	}
	if uid {
		k.kw("UID")
		k.emit(" ")
		k.keys = append(k.keys, "uid:"+strings.Join(enc, "+"))
	} else {
		k.keys = append(k.keys, "seq:"+strings.Join(enc, "+"))
	}
	k.emit(strings.Join(txt, ","))
}

var c15FlagKeys = []string{"all", "answered", "deleted", "draft", "flagged", "new", "old", "recent", "seen",
	"unanswered", "undeleted", "undraft", "unflagged", "unseen"}

func (k *c15KeyGen) leaf() {
	r := k.r
	kind := r.Intn(100)
	var name string
	switch {
	case kind < 22:
		name = Pick(r, c15FlagKeys)
		k.kw(strings.ToUpper(name))
		k.keys = append(k.keys, name)
	case kind < 30:
		name = Pick(r, []string{"keyword", "unkeyword"})
		atom := Pick(r, []string{"Foo", "foo", "BAR", "$label1", "nope"})
		k.kw(strings.ToUpper(name))
		k.emit(" " + atom)
		k.keys = append(k.keys, name+":"+c15HexOrTilde([]byte(atom)))
	case kind < 52:
		name = Pick(r, []string{"bcc", "cc", "from", "subject", "to", "body", "text", "subject", "body", "text"})
		k.strKey(name)
	case kind < 60:
		name = "header"
		field := Pick(r, []string{"Subject", "subject", "X-Tag", "Received", "To", "X-Nope", "Date", "x-pm-gluon-id", "FROM"})
		raw, ok := k.enc(k.needleFor(field))
		if !ok {
			raw = []byte("foo")
		}
		k.headerKeyWith(field, raw)
	case kind < 74:
		name = Pick(r, []string{"before", "on", "since", "sentbefore", "senton", "sentsince"})
		k.dayKey(name)
	case kind < 82:
		name = Pick(r, []string{"larger", "smaller"})
		v := int64(0)
		if len(k.g.msgs) > 0 && r.Chance(3, 4) {
			v = int64(len(Pick(r, k.g.msgs).Lit)) + 53 + int64(r.Range(-1, 1))
		} else {
			v = int64(r.Range(0, 900))
		}
		k.kw(strings.ToUpper(name))
		k.emit(fmt.Sprintf(" %d", v))
		k.keys = append(k.keys, fmt.Sprintf("%s:%d", name, v))
	case kind < 91:
		name = "uid"
		k.setKey(true)
	default:
		name = "seq"
		k.setKey(false)
	}
	k.stats["key."+name]++
}

func (k *c15KeyGen) key(depth int) {
	r := k.r
	c := r.Intn(100)
	if depth <= 1 || c < 40 {
		k.leaf()
		return
	}
	switch {
	case c < 60:
		k.kw("NOT")
		k.emit(" ")
		k.keys = append(k.keys, "not")
		k.stats["key.not"]++
		k.key(depth - 1)
	case c < 80:
		k.kw("OR")
		k.emit(" ")
		k.keys = append(k.keys, "or")
		k.stats["key.or"]++
		k.key(depth - 1)
		k.emit(" ")
		k.key(depth - 1)
	default:
		n := r.Range(1, 3)
		k.emit("(")
		k.keys = append(k.keys, fmt.Sprintf("L%d", n))
		k.stats["key.list"]++
		for i := 0; i < n; i++ {
			if i > 0 {
				k.emit(" ")
			}
			k.key(depth - 1)
		}
		k.emit(")")
	}
}

type c15Charset struct {
	name string
	cs   string // absent | dec | unknown
}

// genSearch produces one `search` script line.
func (g *c15Gen) genSearch(stats map[string]int) string {
	r := g.r
	k := &c15KeyGen{r: r, g: g, n: len(g.msgs), dectab: map[string]string{}, odd: g.odd, stats: stats}
	ch := c15Charset{"", "absent"}
	switch c := r.Intn(20); {
	case c < 12:
	case c < 14:
		ch = c15Charset{"UTF-8", "dec"}
	case c < 15:
		ch = c15Charset{"us-ascii", "dec"}
	case c < 17:
		ch = c15Charset{"ISO-8859-1", "dec"}
	case c < 18:
		ch = c15Charset{"windows-1252", "dec"}
	case c < 19:
		ch = c15Charset{"UTF-16BE", "dec"}
	default:
		ch = c15Charset{"X-NO-SUCH-CHARSET", "unknown"}
	}
	stats["charset."+ch.cs+"."+ch.name]++
	k.enc = func(s string) ([]byte, bool) { return []byte(s), true }
	k.dec = func(b []byte) ([]byte, bool) { return b, true }
	if ch.cs == "dec" {
		e, err := ianaindex.IANA.Encoding(ch.name)
		if err != nil || e == nil {
			panic("charset table of the oracle: " + ch.name)
		}
		k.enc = func(s string) ([]byte, bool) {
			b, err := e.NewEncoder().Bytes([]byte(s))
			if err != nil {
				// not representable: send the UTF-8 bytes anyway (whatever the decoder makes of them is in the table)
				return []byte(s), true
			}
			return b, true
		}
		k.dec = func(b []byte) ([]byte, bool) {
			d, err := e.NewDecoder().Bytes(b)
			return d, err == nil
		}
	}
	uid := r.Chance(1, 3)
	if uid {
		k.kw("UID")
		k.emit(" ")
	}
	k.kw("SEARCH")
	if ch.name != "" {
		k.emit(" ")
		k.kw("CHARSET")
		k.emit(" " + ch.name)
	}
	depth := r.Range(1, 6)
	top := r.Range(1, 3)
	if depth >= 4 {
		top = r.Range(1, 2)
	}
	k.keys = append(k.keys, fmt.Sprintf("L%d", top))
	for i := 0; i < top; i++ {
		k.emit(" ")
		k.key(depth)
	}
	k.segs = append(k.segs, k.cur)
	stats[fmt.Sprintf("depth.%d", depth)]++
	mode := "seq"
	if uid {
		mode = "uid"
	}
	var dt []string
	for a, b := range k.dectab {
		dt = append(dt, a+"="+b)
	}
	sort.Strings(dt)
	dts := "-"
	if len(dt) > 0 {
		dts = strings.Join(dt, ",")
	}
	return fmt.Sprintf("search %s %s %s %s %s", mode, ch.cs, dts, strings.Join(k.keys, ","), c15SegsEnc(k.segs))
}

// genWorld produces a whole script with nSearch searches.
func genC15World(r *Rng, par int, nSearch int, stats map[string]int) []string {
	g := &c15Gen{r: r, odd: r.Chance(1, 3), zones: r.Chance(2, 5)}
	lines := []string{fmt.Sprintf("par %d", par)}
	n := Pick(r, []int{0, 1, 2, 3, 3, 5, 5, 8, 8, 12, 12, 12})
	stats[fmt.Sprintf("world.msgs.%d", n)]++
	if g.odd {
		stats["world.odd"]++
	}
	if g.zones {
		stats["world.zones"]++
	}
	for i := 0; i < n; i++ {
		m := g.msg()
		g.msgs = append(g.msgs, m)
		lines = append(lines, m.line())
	}
	lines = append(lines, "observe "+Pick(r, []string{"select", "select", "examine"}))
	mode := Pick(r, []string{"none", "hold", "barrier", "barrier"})
	if n == 0 {
		mode = "none"
	}
	lines = append(lines, "mode "+mode)
	stats["world.mode."+mode]++
	if mode != "none" {
		nm := r.Range(1, 4)
		for i := 0; i < nm; i++ {
			switch r.Intn(4) {
			case 0:
				lines = append(lines, fmt.Sprintf("mut store %d %s %s", r.Range(1, n), Pick(r, []string{"+", "-"}), Pick(r, c15Flags[:5])))
			case 1, 2:
				lines = append(lines, fmt.Sprintf("mut expunge %d", r.Range(1, n)))
			default:
				m := g.msg()
				g.msgs = append(g.msgs, m)
				lines = append(lines, "mut "+m.line())
			}
		}
	}
	for i := 0; i < nSearch; i++ {
		lines = append(lines, g.genSearch(stats))
	}
	return lines
}

// ---- witnesses: the deviations proved in Theorems/C15.lean, replayed on the real server ------------------------

type c15Witness struct {
	name  string
	class string // what the judge must answer (prefix)
	lines []string
}

func c15MkMsg(flags []string, date c15Time, fields [][2]string, body string, sent *c15Time) *c15Msg {
	m := &c15Msg{Flags: flags, Date: date, Sent: sent, Body: []byte(body)}
	var lit []byte
	for _, f := range fields {
		lit = append(lit, f[0]+": "+f[1]+"\r\n"...)
		m.Hdr = append(m.Hdr, f)
	}
	lit = append(lit, "\r\n"...)
	m.Lit = append(lit, body...)
	return m
}

func c15Search(mode, cs, keys, wire string) string {
	return fmt.Sprintf("search %s %s - %s %s", mode, cs, keys, c15SegsEnc([][]byte{[]byte(wire)}))
}

func c15hx(s string) string { return c15HexOrTilde([]byte(s)) }

func c15Witnesses() []c15Witness {
	utc := func(y int, mo time.Month, d, h int) c15Time {
		return c15Time{time.Date(y, mo, d, h, 0, 0, 0, time.UTC).Unix(), 0}
	}
	sent := utc(2020, 1, 5, 1)
	std := [][2]string{{"From", "a@example.com"}, {"Date", "Sun, 05 Jan 2020 01:00:00 +0000"}, {"Subject", "hello"}}
	day := func(y int, mo time.Month, d int) int64 {
		return time.Date(y, mo, d, 0, 0, 0, 0, time.UTC).Unix() / 86400
	}
	var ws []c15Witness
	// internal date 05-Jan-2020 01:00:00 +0500 = 04-Jan-2020 20:00 UTC
	z := c15Time{time.Date(2020, 1, 4, 20, 0, 0, 0, time.UTC).Unix(), 5 * 3600}
	ws = append(ws, c15Witness{"since-zone", "violation spec-mismatch classes=since-zone", []string{"par 0",
		c15MkMsg(nil, z, std, "body\r\n", &sent).line(), "observe select", "mode none",
		c15Search("seq", "absent", fmt.Sprintf("L1,since:%d", day(2020, 1, 5)), "SEARCH SINCE 5-Jan-2020"),
		c15Search("seq", "absent", fmt.Sprintf("L2,since:%d,before:%d", day(2020, 1, 5), day(2020, 1, 5)), "SEARCH SINCE 5-Jan-2020 BEFORE 5-Jan-2020")}})
	dup := [][2]string{{"From", "a@example.com"}, {"Date", "Sun, 05 Jan 2020 01:00:00 +0000"}, {"Received", "from first.example"}, {"Received", "from second.example"}}
	ws = append(ws, c15Witness{"header-dup", "violation spec-mismatch classes=header-dup", []string{"par 0",
		c15MkMsg(nil, sent, dup, "body\r\n", &sent).line(), "observe select", "mode none",
		c15Search("seq", "absent", "L1,header:"+c15hx("Received")+":"+c15hx("second"), "SEARCH HEADER Received second")}})
	ws = append(ws, c15Witness{"header-empty", "violation spec-mismatch classes=header-empty", []string{"par 0",
		c15MkMsg(nil, sent, std, "body\r\n", &sent).line(), "observe select", "mode none",
		c15Search("seq", "absent", "L1,header:"+c15hx("X-Nope")+":~", "SEARCH HEADER X-Nope \"\"")}})
	// the envelope keys are HEADER keys with a fixed name (theorem envelope_keys_are_header_keys): same two deviations
	dupTo := [][2]string{{"From", "a@example.com"}, {"Date", "Sun, 05 Jan 2020 01:00:00 +0000"}, {"To", "first@example.com"}, {"To", "second@example.com"}}
	ws = append(ws, c15Witness{"named-dup", "violation spec-mismatch classes=named-dup", []string{"par 0",
		c15MkMsg(nil, sent, dupTo, "body\r\n", &sent).line(), "observe select", "mode none",
		c15Search("seq", "absent", "L1,to:"+c15hx("second"), "SEARCH TO second")}})
	ws = append(ws, c15Witness{"named-empty", "violation spec-mismatch classes=named-empty", []string{"par 0",
		c15MkMsg(nil, sent, std, "body\r\n", &sent).line(), "observe select", "mode none",
		c15Search("seq", "absent", "L1,bcc:~", "SEARCH BCC \"\"")}})
	bad := [][2]string{{"From", "a@example.com"}, {"Date", "garbage"}, {"Subject", "two"}}
	ws = append(ws, c15Witness{"sent-unparsable", "violation spec-mismatch classes=sent-unparsable", []string{"par 0",
		c15MkMsg(nil, sent, std, "body\r\n", &sent).line(), c15MkMsg(nil, sent, bad, "body\r\n", nil).line(), "observe select", "mode none",
		c15Search("seq", "absent", fmt.Sprintf("L1,sentbefore:%d", day(2021, 1, 1)), "SEARCH SENTBEFORE 1-Jan-2021")}})
	ws = append(ws, c15Witness{"uid-empty-mailbox", "violation spec-mismatch classes=uid-empty-mailbox", []string{"par 0",
		"observe select", "mode none",
		c15Search("seq", "absent", "L1,not,uid:1_1", "SEARCH NOT UID 1")}})
	// regression of fix 3279020: a charset known by name only is refused, the session survives
	ws = append(ws, c15Witness{"charset-unsupported", "ok trivial badcharset", []string{"par 0",
		c15MkMsg(nil, sent, std, "body\r\n", &sent).line(), "observe select", "mode none",
		c15Search("seq", "unsupported", "L1,all", "SEARCH CHARSET UTF-7 ALL"),
		// the second command is answered on the same connection: the session survived the first
		c15Search("seq", "unsupported", "L1,all", "SEARCH CHARSET GB2312 ALL")}})
	ws = append(ws, c15Witness{"num-too-big", "ok trivial parser-rejects-number", []string{"par 0",
		c15MkMsg(nil, sent, std, "body\r\n", &sent).line(), "observe select", "mode none",
		c15Search("seq", "absent", "L1,seq:4294967297_4294967297", "SEARCH 4294967297")}})
	ws = append(ws, c15Witness{"uid-star-above", "ok unjudged uid-star-above", []string{"par 0",
		c15MkMsg(nil, sent, std, "body\r\n", &sent).line(), "observe select", "mode none",
		c15Search("seq", "absent", "L1,uid:9_0", "SEARCH UID 9:*")}})
	ws = append(ws, c15Witness{"seq-beyond-count", "ok unjudged seq-beyond-count", []string{"par 0",
		c15MkMsg(nil, sent, std, "body\r\n", &sent).line(), "observe select", "mode none",
		c15Search("seq", "absent", "L1,seq:7_7", "SEARCH 7")}})
	return ws
}

// ---- the oracle ------------------------------------------------------------------------------------------

var c15ReClasses = regexp.MustCompile(`classes=(\S+)`)

var c15ReNumList = regexp.MustCompile(`\d+(,\d+){12,}`)

// c15Short: long number lists of an answer written with runs (1,2,3,4,7 -> 1..4,7), for reports
func c15Short(s string) string {
	return c15ReNumList.ReplaceAllStringFunc(s, func(l string) string {
		var out []string
		nums := strings.Split(l, ",")
		for i := 0; i < len(nums); {
			j := i
			for j+1 < len(nums) && atoi(nums[j+1]) == atoi(nums[j])+1 {
				j++
			}
			if j > i+1 {
				out = append(out, nums[i]+".."+nums[j])
			} else {
				out = append(out, nums[i:j+1]...)
			}
			i = j + 1
		}
		return strings.Join(out, ",")
	})
}

var c15ReModelImpl = regexp.MustCompile(`model=ok:([0-9,]+|-) impl=ok:([0-9,]+|-)`)

// c15AnswerDiff: the numbers that are in exactly one of the model's and the server's answer (at most three)
func c15AnswerDiff(answer string) []int {
	m := c15ReModelImpl.FindStringSubmatch(answer)
	if m == nil {
		return nil
	}
	in := map[int]int{}
	for side, l := range m[1:] {
		if l == "-" {
			continue
		}
		for _, n := range strings.Split(l, ",") {
			if v, err := strconv.Atoi(n); err == nil {
				in[v] |= 1 << side
			}
		}
	}
	var out []int
	for n, sides := range in {
		if sides != 3 {
			out = append(out, n)
		}
	}
	sort.Ints(out)
	if len(out) > 3 {
		out = out[:3]
	}
	return out
}

func runC15SearchOracle(args []string) int {
	fs := flag.NewFlagSet("c15search", flag.ExitOnError)
	seed := fs.Uint64("seed", 1, "")
	out := fs.String("out", "", "")
	replayDir := fs.String("replaydir", ".", "")
	replay := fs.String("replay", "", "")
	n := fs.Int("n", 300, "searches")
	per := fs.Int("per", 30, "searches per world")
	dump := fs.Bool("dump", false, "print the first generated world script and exit")
	dumpFolds := fs.Bool("dumpfolds", false, "print the `folds` scenarios of this seed and exit")
	skipFolds := fs.Bool("skipfolds", false, "experiments: run without the directed `folds` scenarios (what do the generated worlds find alone?)")
	_ = fs.Parse(args)
	if *dumpFolds {
		fmt.Println("oracle c15search")
		// the same streams as in a run: the two `dates` worlds come first
		dr := NewRng(*seed).Fork()
		dr.Fork()
		dr.Fork()
		for k := 0; k < 2; k++ {
			fmt.Println(strings.Join(genC15FoldWorld(dr.Fork(), k%2, map[string]int{}), "\n"))
		}
		return 0
	}
	if *dump {
		fmt.Println("oracle c15search")
		fmt.Println(strings.Join(genC15World(NewRng(*seed).Fork(), 1, *per, map[string]int{}), "\n"))
		return 0
	}
	res := &OracleResult{Stats: map[string]int{}, Samples: []any{}, Violations: []OracleViol{}}
	finish := func() int {
		if *out != "" {
			writeResult(*out, res)
		}
		b, _ := json.Marshal(res.Stats)
		fmt.Fprintln(os.Stderr, string(b))
		for _, v := range res.Violations {
			fmt.Fprintln(os.Stderr, "VIOL", v.Desc, v.Replay)
		}
		return 0
	}
	if os.Getenv("VERIF_DRIVER") == "" {
		fmt.Fprintln(os.Stderr, "c15search: VERIF_DRIVER not set (the Lean judge decides)")
		return 1
	}
	servers := map[int]*Sys{}
	defer func() {
		for _, s := range servers {
			s.Close(true)
		}
	}()
	server := func(par int) (*Sys, error) {
		if s := servers[par]; s != nil {
			return s, nil
		}
		s, err := newSysC15(par == 0)
		if err == nil {
			servers[par] = s
		}
		return s, err
	}
	mboxN := 0
	// one report per deviation class: a combination of classes is reported only if one of its judged classes is new
	reported := map[string]int{}
	unjudged := map[string]bool{"uid-star-above": true, "seq-beyond-count": true}
	var reportIdent *c15Ident // set while an `ident` line is reported: only that one is kept in the replay
	report := func(w *c15World, s *c15SearchRun, kind string, note string) {
		fresh := false
		for _, c := range strings.Split(kind, ",") {
			if !unjudged[c] && reported[c] == 0 {
				fresh = true
			}
		}
		if !fresh {
			res.Stats["suppressed."+kind]++
			return
		}
		for _, c := range strings.Split(kind, ",") {
			reported[c]++
		}
		var keep []string
		keep = append(keep, "oracle c15search")
		for _, l := range w.lines {
			if strings.HasPrefix(l, "search ") || strings.HasPrefix(l, "ident ") || strings.HasPrefix(l, "oracle") || strings.HasPrefix(l, "#") || strings.TrimSpace(l) == "" {
				continue
			}
			keep = append(keep, l)
		}
		if reportIdent != nil {
			keep = append(keep, reportIdent.line, "# judge:   "+reportIdent.answer)
			for _, i := range []int{reportIdent.on, reportIdent.nb, reportIdent.sb} {
				keep = append(keep, fmt.Sprintf("# command: %s -> server %s", w.searches[i].wire, w.searches[i].impl))
			}
		}
		if nm := len(w.msgLits); nm > 0 && nm <= 4 {
			for i, l := range w.msgLits {
				keep = append(keep, fmt.Sprintf("# message %d: %s", i+1, l))
			}
		}
		if nm := len(w.msgLits); s != nil && nm > 4 {
			// a large mailbox: show the messages the server and the model disagree about
			f := strings.Fields(s.line)
			for _, n := range c15AnswerDiff(s.answer) {
				uid := n
				if len(f) > 1 && f[1] != "uid" {
					if n < 1 || n > len(w.view) {
						continue
					}
					uid = w.view[n-1].UID
				}
				for i, m := range w.msgs {
					if m.UID == uid && i < len(w.msgLits) {
						keep = append(keep, fmt.Sprintf("# message %d (number %d of the answer): %s", i+1, n, w.msgLits[i]))
					}
				}
			}
		}
		if s != nil {
			keep = append(keep, s.line)
			keep = append(keep, fmt.Sprintf("# command: %s", s.wire), fmt.Sprintf("# server:  %s", c15Short(s.impl)), fmt.Sprintf("# judge:   %s", c15Short(s.answer)))
		}
		keep = append(keep, "# "+note, "# replay: ./check C15 --replay <this file>")
		text := strings.Join(keep, "\n") + "\n"
		sum := sha1.Sum([]byte(text))
		name := fmt.Sprintf("C15-search-%s-%x.txt", strings.ReplaceAll(kind, ",", "+"), sum[:5])
		path := filepath.Join(*replayDir, name)
		_ = os.MkdirAll(*replayDir, 0o755)
		_ = os.WriteFile(path, []byte(text), 0o644)
		desc := "C15: " + note
		if s != nil {
			desc = fmt.Sprintf("C15: %s -> server %s; judge: %s (%s)", s.wire, c15Short(s.impl), c15Short(s.answer), note)
		}
		res.Violations = append(res.Violations, OracleViol{Desc: desc, Replay: path})
	}
	// runs a script on one server, judges it, books the verdicts; expect = required verdict prefix of every search
	// (witnesses). Returns the judged world (nil when it could not be run or judged, or its view moved).
	runOn := func(par int, lines []string, expect string, label string) *c15World {
		sys, err := server(par)
		if err != nil {
			res.Stats["setup-failed"]++
			fmt.Fprintln(os.Stderr, "server:", err)
			return nil
		}
		mboxN++
		w, err := runC15World(sys, fmt.Sprintf("w%d", mboxN), lines)
		if err == nil && len(w.searches) > 0 && w.searches[len(w.searches)-1].impl == "lost" {
			// a connection that went silent without a panic: a loaded machine or a hung server — the second run tells
			res.Stats["worlds.rerun-after-lost-connection"]++
			mboxN++
			w, err = runC15World(sys, fmt.Sprintf("w%d", mboxN), lines)
		}
		for _, p := range sys.Panics.Take() {
			res.Stats["stray-panic"]++
			fmt.Fprintln(os.Stderr, "panic outside a search:", p)
		}
		if err != nil {
			res.Stats["world-error"]++
			report(w, nil, "world-error", "world could not be built or run: "+err.Error())
			return nil
		}
		res.Stats["worlds"]++
		res.Stats[fmt.Sprintf("worlds.par%d", par)]++
		if w.viewLen >= 128 {
			res.Stats[fmt.Sprintf("worlds.par%d.view>=128", par)]++
		}
		if w.goneInView > 0 {
			res.Stats["worlds.view-holds-messages-expunged-elsewhere"]++
			res.Stats["answers.naming-a-message-expunged-elsewhere"] += w.goneAnswered
		}
		for _, p := range w.problems {
			res.Stats["construction-mismatch"]++
			report(w, nil, "construction", "server data differs from the generated message: "+p)
		}
		if w.unstable {
			res.Stats["worlds.unstable-view-discarded"]++
			return nil
		}
		var jl []string
		for _, s := range w.searches {
			jl = append(jl, s.judge+" => "+s.impl)
		}
		if len(jl) == 0 {
			return w
		}
		// the day identities: the three answers of an `ident` line, judged together
		for _, id := range w.idents {
			jf := strings.Fields(w.searches[id.on].judge)
			jl = append(jl, fmt.Sprintf("judge-c15-dayident %s %s %s %d %s %s %s", id.mode, jf[3], jf[4], id.day,
				w.searches[id.on].impl, w.searches[id.nb].impl, w.searches[id.sb].impl))
		}
		// the header every message is claimed to have (fields and unfolded values as generated) against the header the
		// Lean model derives from the stored literal (entry parser + mergeMultiline)
		for _, m := range w.msgs {
			jl = append(jl, fmt.Sprintf("judge-c15-hdr %s %s", m.hdrEnc(true), c15HexOrTilde(m.stored())))
		}
		ans, err := leanJudge(jl)
		if err != nil || len(ans) != len(jl) {
			res.Stats["judge-failed"]++
			report(w, nil, "judge-failed", fmt.Sprintf("Lean judge failed: %v (%d answers for %d lines)", err, len(ans), len(jl)))
			return nil
		}
		for i, s := range w.searches {
			s.answer = ans[i]
			res.Evaluations++
			f := strings.Fields(s.answer)
			head := strings.Join(f[:min(2, len(f))], " ")
			if len(f) > 2 && f[0] == "ok" && f[1] == "unjudged" {
				head += " " + f[2]
			}
			if m := c15ReClasses.FindStringSubmatch(s.answer); m != nil {
				head += " " + m[1]
			}
			res.Stats["verdict."+head]++
			res.Stats["impl."+strings.SplitN(s.impl, ":", 2)[0]]++
			if strings.HasPrefix(s.answer, "ok nontrivial") {
				res.DistinctNontrivial++
			}
			if len(res.Samples) < 3 && strings.HasPrefix(s.answer, "ok nontrivial") {
				res.Samples = append(res.Samples, map[string]any{"search": s.wire, "server": s.impl, "view": w.viewLen, "judge": s.answer})
			}
			if expect != "" {
				if strings.HasPrefix(s.answer, expect) {
					res.Stats["witness."+label+".reproduced"]++
				} else {
					res.Stats["witness."+label+".NOT-reproduced"]++
				}
			}
			if strings.HasPrefix(s.answer, "violation") {
				if histVerbose {
					fmt.Fprintf(os.Stderr, "V %s -> %s ; %s\n   %s\n", s.wire, s.impl, s.answer, s.judge)
				}
				kind := "model-mismatch"
				note := "the server's answer differs from the Lean model of Mailbox.Search (modelling error or a changed implementation)"
				if m := c15ReClasses.FindStringSubmatch(s.answer); m != nil {
					kind = m[1]
					note = "the server's answer differs from RFC 3501 (deviation class " + m[1] + "; the Lean model predicts the server's answer)"
				}
				report(w, s, kind, note)
			} else if expect != "" && !strings.HasPrefix(s.answer, expect) {
				report(w, s, "witness-"+label, "witness of Theorems/C15.lean no longer reproduces: expected "+expect)
			}
		}
		for i, m := range w.msgs {
			a := ans[len(w.searches)+len(w.idents)+i]
			f := strings.Fields(a)
			res.Stats["hdr-claim."+strings.Join(f[:min(2, len(f))], " ")]++
			if strings.HasPrefix(a, "ok nontrivial") {
				res.Evaluations++
			}
			if strings.HasPrefix(a, "violation") {
				report(w, nil, "hdr-derivation", fmt.Sprintf("message %d (uid %d): the header fields / unfolded values the generator claims %s differ from what the Lean model (Search.hdrOfLiteral) derives from the stored literal: %s",
					i+1, m.UID, m.hdrEnc(true), a))
			}
		}
		for i, id := range w.idents {
			id.answer = ans[len(w.searches)+i]
			res.Evaluations++
			f := strings.Fields(id.answer)
			res.Stats["dayident."+strings.Join(f[:min(2, len(f))], " ")]++
			if strings.HasPrefix(id.answer, "violation") {
				reportIdent = id
				report(w, nil, "day-identity", fmt.Sprintf("ON d, NOT BEFORE d BEFORE d+1 and SINCE d BEFORE d+1 (d = day %d) do not select the same messages: %s", id.day, id.answer))
				reportIdent = nil
			}
		}
		return w
	}
	runScript := func(lines []string, expect string, label string) {
		par := 1
		for _, l := range lines {
			if strings.HasPrefix(l, "par ") {
				par = atoi(strings.Fields(l)[1])
			}
		}
		if par != 2 {
			runOn(par, lines, expect, label)
			return
		}
		// the same script with parallel evaluation and without: the answers must be the same
		wp := runOn(1, lines, expect, label)
		ws := runOn(0, lines, expect, label)
		if wp == nil || ws == nil || len(wp.searches) != len(ws.searches) {
			res.Stats["serial-parallel.not-compared"]++
			return
		}
		for i, sp := range wp.searches {
			ss := ws.searches[i]
			if !c15Comparable(sp.line) {
				res.Stats["serial-parallel.search-not-comparable"]++
				continue
			}
			res.Evaluations++
			if sp.impl == ss.impl {
				res.Stats["serial-parallel.same-answer"]++
				continue
			}
			res.Stats["serial-parallel.DIFFERENT"]++
			sp.answer = fmt.Sprintf("with parallel evaluation %s (%s), without %s (%s)", sp.impl, sp.answer, ss.impl, ss.answer)
			report(wp, sp, "serial-parallel", fmt.Sprintf("the same SEARCH on the same mailbox (%d messages in the view) is answered differently with and without gluon.WithDisableParallelism", wp.viewLen))
		}
	}
	if *replay != "" {
		b, err := os.ReadFile(*replay)
		if err != nil {
			fmt.Println(err)
			return 1
		}
		runScript(strings.Split(string(b), "\n"), "", "replay")
		res.DistinctNontrivial = max(res.DistinctNontrivial, 2)
		return finish()
	}
	for _, w := range c15Witnesses() {
		runScript(w.lines, w.class, w.name)
	}
	// past failures / hand-written worlds first
	if dir := os.Getenv("VERIF_CORPUS"); dir != "" {
		files, _ := filepath.Glob(filepath.Join(dir, "*.world"))
		sort.Strings(files)
		for _, f := range files {
			if b, err := os.ReadFile(f); err == nil {
				res.Stats["corpus-worlds"]++
				runScript(strings.Split(string(b), "\n"), "", "corpus")
			}
		}
	}
	r := NewRng(*seed)
	// directed scenarios: day boundaries (both servers), large views on the parallel server compared with the serial one
	dr := r.Fork()
	for k := 0; k < 2; k++ {
		runScript(genC15DateWorld(dr.Fork(), k%2, res.Stats), "", "")
	}
	// folded header fields: every kind of search string for every fold, on both servers
	for k := 0; k < 2 && !*skipFolds; k++ {
		runScript(genC15FoldWorld(dr.Fork(), k%2, res.Stats), "", "")
	}
	sizes := []int{131, 257}
	if *n >= 3000 {
		sizes = append(sizes, 263, 521, 1031)
	}
	for _, size := range sizes {
		runScript(genC15BigWorld(dr.Fork(), size, res.Stats), "", "")
	}
	worlds := (*n + *per - 1) / *per
	for k := 0; k < worlds; k++ {
		wr := r.Fork()
		if k%10 == 9 {
			runScript(genC15DateWorld(wr.Fork(), (k/10)%2, res.Stats), "", "")
		}
		if k%10 == 4 && k > 10 && !*skipFolds {
			runScript(genC15FoldWorld(wr.Fork(), (k/10)%2, res.Stats), "", "")
		}
		runScript(genC15World(wr, k%2, *per, res.Stats), "", "")
	}
	return finish()
}

func init() { RegisterOracle(&Oracle{Name: "c15search", Run: runC15SearchOracle}) }
