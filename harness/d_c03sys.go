package main

// Dialect `c03-sys` (C03): histories in the vocabulary of the `sys` dialect, run by the `sys` runner on the real
// server (d_sys.go) and by the system model (Model/System.lean), judged by the REFERENCE (judge-c03-sys,
// Driver/DC03Sys.lean).  What the generator aims at: \Deleted is kept per MAILBOX, every other flag per MESSAGE, so
// a STORE made in one mailbox is broadcast to the sessions that have ANOTHER mailbox of the same message selected
// and must leave their \Deleted alone — whether it adds, removes or replaces flags.  The same messages are put
// into two or three mailboxes (COPY), every session selects its own mailbox and stays there, STOREs naming \Deleted
// (alone and with other flags, all six modes) come from every mailbox, and the sessions that were selected all along
// EXPUNGE.  Discipline (what the judge relies on): no X / C steps, and every STORE / EXPUNGE / COPY / MOVE of a session
// is directly preceded by a NOOP of that session, so its view is the authoritative mailbox.

import (
	"fmt"
	"io"
	"strconv"
	"strings"
)

type c03sysRow struct {
	id  int
	del bool
}

// the generator's own book-keeping of the mailboxes (only to pick sequence numbers that exist; never a verdict)
type c03sysGenState struct {
	boxes  [][]c03sysRow
	nextID int
}

func (g *c03sysGenState) resolve(mb int, seqs []int) ([]int, bool) {
	var ids []int
	seen := map[int]bool{}
	for _, q := range seqs {
		if q < 1 || q > len(g.boxes[mb]) {
			return nil, false
		}
		id := g.boxes[mb][q-1].id
		if !seen[id] {
			seen[id] = true
			ids = append(ids, id)
		}
	}
	return ids, true
}

func (g *c03sysGenState) remove(mb int, ids []int) {
	drop := map[int]bool{}
	for _, id := range ids {
		drop[id] = true
	}
	var keep []c03sysRow
	for _, r := range g.boxes[mb] {
		if !drop[r.id] {
			keep = append(keep, r)
		}
	}
	g.boxes[mb] = keep
}

func (g *c03sysGenState) add(mb int, ids []int) {
	g.remove(mb, ids)
	for _, id := range ids {
		g.boxes[mb] = append(g.boxes[mb], c03sysRow{id: id})
	}
}

func c03sysGenHistory(r *Rng, st *Stats) string {
	n := r.Range(2, 3)
	nbox := r.Range(2, 3)
	steps := r.Range(16, 34)
	g := &c03sysGenState{boxes: make([][]c03sysRow, 3), nextID: 1}
	home := make([]int, n)
	var out []string
	add := func(s string) { out = append(out, s) }
	flagPool := []string{`\seen`, `\flagged`, `\answered`, `\draft`, `kw1`}
	flags := func(delNum int) string {
		var fl []string
		for _, f := range flagPool {
			if r.Chance(1, 5) {
				fl = append(fl, f)
			}
		}
		if r.Chance(delNum, 8) {
			fl = append(fl, `\deleted`)
		}
		for i := len(fl) - 1; i > 0; i-- {
			j := r.Intn(i + 1)
			fl[i], fl[j] = fl[j], fl[i]
		}
		if len(fl) == 0 {
			return "-"
		}
		return strings.Join(fl, ",")
	}
	seqsOf := func(mb int) ([]int, string) {
		k := len(g.boxes[mb])
		var l []int
		switch {
		case k == 0 || r.Chance(1, 15):
			l = []int{k + 1 + r.Intn(2)} // beyond the count: refused
		case r.Chance(1, 3):
			for q := 1; q <= k; q++ {
				l = append(l, q)
			}
		case r.Chance(1, 3) && k >= 2:
			l = []int{r.Range(1, k), r.Range(1, k)}
		default:
			l = []int{r.Range(1, k)}
		}
		p := make([]string, len(l))
		for i, v := range l {
			p[i] = strconv.Itoa(v)
		}
		return l, strings.Join(p, ",")
	}
	// prefix: messages in mailbox a, copied to b (and some to c); every session in its own mailbox
	perm := []int{0, 1, 2}
	for i := nbox - 1; i > 0; i-- {
		j := r.Intn(i + 1)
		perm[i], perm[j] = perm[j], perm[i]
	}
	a, b := perm[0], perm[1]
	add(fmt.Sprintf("S0 SELECT %s", sysmMboxNames[a]))
	home[0] = a
	k := r.Range(2, 4)
	for q := 0; q < k; q++ {
		fl := flags(2)
		add(fmt.Sprintf("S0 APPEND %s %s", sysmMboxNames[a], fl))
		g.boxes[a] = append(g.boxes[a], c03sysRow{id: g.nextID, del: strings.Contains(fl, `\deleted`)})
		g.nextID++
	}
	add("S0 NOOP")
	{
		var l []int
		var p []string
		for q := 1; q <= k; q++ {
			l = append(l, q)
			p = append(p, strconv.Itoa(q))
		}
		add(fmt.Sprintf("S0 COPY %s %s", strings.Join(p, ","), sysmMboxNames[b]))
		ids, _ := g.resolve(a, l)
		g.add(b, ids)
	}
	if nbox == 3 && r.Bool() {
		add("S0 NOOP")
		l, txt := seqsOf(a)
		add(fmt.Sprintf("S0 COPY %s %s", txt, sysmMboxNames[perm[2]]))
		if ids, ok := g.resolve(a, l); ok {
			g.add(perm[2], ids)
		}
	}
	for i := 1; i < n; i++ {
		home[i] = perm[i%nbox]
		if i == 1 {
			home[i] = b
		}
		add(fmt.Sprintf("S%d SELECT %s", i, sysmMboxNames[home[i]]))
	}
	cross := 0
	for len(out) < steps {
		i := r.Intn(n)
		mb := home[i]
		c := r.Intn(100)
		if len(g.boxes[mb]) == 0 && c < 86 {
			c = 99
		}
		switch {
		case c < 52:
			l, txt := seqsOf(mb)
			op := Pick(r, []string{"+", "-", "=", "+s", "-s", "=s"})
			fl := flags(6)
			add(fmt.Sprintf("S%d NOOP", i))
			add(fmt.Sprintf("S%d STORE %s %s %s", i, txt, op, fl))
			if ids, ok := g.resolve(mb, l); ok {
				named := map[int]bool{}
				for _, id := range ids {
					named[id] = true
				}
				hasDel := strings.Contains(fl, `\deleted`)
				for q := range g.boxes[mb] {
					if !named[g.boxes[mb][q].id] {
						continue
					}
					switch op[0] {
					case '+':
						g.boxes[mb][q].del = g.boxes[mb][q].del || hasDel
					case '-':
						g.boxes[mb][q].del = g.boxes[mb][q].del && !hasDel
					default:
						g.boxes[mb][q].del = hasDel
					}
				}
				if hasDel {
					cross++
				}
			}
		case c < 70:
			add(fmt.Sprintf("S%d NOOP", i))
			add(fmt.Sprintf("S%d EXPUNGE", i))
			var keep []c03sysRow
			for _, row := range g.boxes[mb] {
				if !row.del {
					keep = append(keep, row)
				}
			}
			g.boxes[mb] = keep
		case c < 80:
			l, txt := seqsOf(mb)
			dest := perm[r.Intn(nbox)]
			add(fmt.Sprintf("S%d NOOP", i))
			add(fmt.Sprintf("S%d COPY %s %s", i, txt, sysmMboxNames[dest]))
			if ids, ok := g.resolve(mb, l); ok {
				g.add(dest, ids) // order inside the destination does not matter for picking sequence numbers
			}
		case c < 84:
			l, txt := seqsOf(mb)
			dest := perm[r.Intn(nbox)]
			add(fmt.Sprintf("S%d NOOP", i))
			add(fmt.Sprintf("S%d MOVE %s %s", i, txt, sysmMboxNames[dest]))
			if ids, ok := g.resolve(mb, l); ok {
				if dest != mb {
					g.remove(mb, ids)
				}
				g.add(dest, ids)
			}
		case c < 92:
			add(fmt.Sprintf("S%d PROBE", i))
		default:
			dest := perm[r.Intn(nbox)]
			fl := flags(2)
			add(fmt.Sprintf("S%d APPEND %s %s", i, sysmMboxNames[dest], fl))
			g.boxes[dest] = append(g.boxes[dest], c03sysRow{id: g.nextID, del: strings.Contains(fl, `\deleted`)})
			g.nextID++
		}
	}
	// the sessions that were selected all along expunge at the end
	for i := 0; i < n; i++ {
		if r.Chance(2, 3) {
			add(fmt.Sprintf("S%d NOOP", i))
			add(fmt.Sprintf("S%d EXPUNGE", i))
		}
	}
	st.Inc(fmt.Sprintf("sessions.%d", n))
	st.Inc(fmt.Sprintf("mailboxes.%d", nbox))
	st.Add("steps", len(out))
	st.Add("stores-naming-deleted", cross)
	for _, o := range out {
		st.Inc("step." + strings.Fields(o)[1])
	}
	return fmt.Sprintf("c03-sys N=%d ; %s", n, strings.Join(out, " ; "))
}

func c03sysGen(r *Rng, n int, w io.Writer, st *Stats) {
	for k := 0; k < n; k++ {
		fmt.Fprintln(w, c03sysGenHistory(r.Fork(), st))
	}
}

func init() { Register(&Dialect{Name: "c03-sys", Impl: sysmImpl, Gen: c03sysGen}) }
