package main

// Dialect `c07trace` (property C07): the storage-step trace of a marked operation on the real server
// (recorded by the interposers of interpose.go) must equal the step list of the Lean model
// (GluonModel/Model/Crash.lean, `stepsOf`): then the theorems' quantifier "every step boundary"
// ranges over the real boundaries.
//
//	c07trace <op> <inst>   ->   <step> <step> ...

import (
	"fmt"
	"io"
	"os"
	"strconv"
	"strings"
	"time"
)

func c07Trace(op string, inst int, seed uint64) (string, error) {
	if err := c07CheckInterfaces(); err != nil {
		return "", err
	}
	dir, err := os.MkdirTemp("", "vh-c07t-")
	if err != nil {
		return "", err
	}
	defer os.RemoveAll(dir)
	env, err := newC07Sys(dir, "", 1000, Fault{})
	if err != nil {
		return "", err
	}
	if op != "startup" {
		defer env.sys.Close(false)
	}
	env.seed, env.inst = seed, inst
	env.conn.serve = op == "redownload"
	if op == "startup" {
		// a message marked deleted by the connector while a session is open, clean shutdown, start-up
		if err := env.prefix("cdeleted"); err != nil {
			return "", err
		}
		// no session is open when the message is marked: nothing releases it before the shutdown
		_ = env.c.Cmd("LOGOUT")
		for k := 0; k < 2000 && len(env.sys.Server.VerifStates(env.sys.UserID)) > 0; k++ {
			time.Sleep(2 * time.Millisecond)
		}
		time.Sleep(30 * time.Millisecond)
		if _, err := env.runOp("cdeleted"); err != nil {
			return "", err
		}
		uid := env.sys.UserID
		env.c.Close()
		env.sys.Close(false)
		env2, err := newC07Sys(dir, uid, 900000, Fault{EarlyArm: true})
		if err != nil {
			return "", err
		}
		steps := env2.ip.Disarm()
		env2.sys.Close(false)
		return "started " + strings.Join(steps, " "), nil
	}
	if err := env.prefix(op); err != nil {
		return "", err
	}
	if err := env.ip.Arm(); err != nil {
		return "", err
	}
	outcome, oerr := env.runOp(op)
	steps := env.ip.Disarm()
	if oerr != nil {
		return "", oerr
	}
	return outcome + " " + strings.Join(steps, " "), nil
}

func init() {
	Register(&Dialect{
		Name: "c07trace",
		Impl: func(args []string) string {
			if len(args) != 2 {
				return "bad-op"
			}
			inst, err := strconv.Atoi(args[1])
			if err != nil {
				return "bad-op"
			}
			s, err := c07Trace(args[0], inst, 1)
			if err != nil {
				return "err " + strings.ReplaceAll(err.Error(), " ", "_")
			}
			return s
		},
		Gen: func(r *Rng, n int, w io.Writer, st *Stats) {
			k := 0
			if n > 0 {
				fmt.Fprintln(w, "c07trace startup 0")
				st.Inc("op.startup")
				k++
			}
			for inst := 0; inst < 3 && k < n; inst++ {
				for _, op := range c07Ops {
					if k >= n {
						break
					}
					fmt.Fprintf(w, "c07trace %s %d\n", op, inst)
					st.Inc("op." + op)
					k++
				}
			}
		},
	})
}
