package main

// Facts/Ack.lean (C06): where connector updates are acknowledged and how the update loop is shaped.
//
//   * every `<x>.Done(<one argument>)` call in internal/backend (WaitGroup.Done / ctx.Done take none);
//   * `user.apply`: the statements of its body by kind, the Done statements at the top level of the
//     body, whether a `return`/`panic` can run before them, the cases of its type switch;
//   * the goroutine of `newUser`: calls of user.apply per received update, whether the error branch
//     leaves the loop, the conditions that guard `return` in the receive case;
//   * imap/update_waiter.go: buffer size of the channel and the body of Done;
//   * sqlite3 write_ops.go `UpdateRemoteMessageID`: the expression used as table name.
//
// Whatever has an unexpected shape is emitted as `none` / "unknown…" and fails the decided theorems.

import (
	"fmt"
	"go/ast"
	"go/token"
	"sort"
	"strings"
)

func ackContainsExit(c *factsCtx, n ast.Node) bool {
	found := false
	ast.Inspect(n, func(x ast.Node) bool {
		switch y := x.(type) {
		case *ast.FuncLit:
			return false
		case *ast.ReturnStmt:
			found = true
		case *ast.BranchStmt:
			if y.Tok == token.BREAK || y.Tok == token.GOTO {
				found = true
			}
		case *ast.CallExpr:
			switch calleeQualified(y) {
			case "panic", "os.Exit", "log.Fatal", "log.Fatalf", "runtime.Goexit":
				found = true
			}
		}
		return true
	})
	return found
}

func factsAck(c *factsCtx, outdir string) error {
	backend := c.parseDir("internal/backend")
	// 1. Done(<1 arg>) sites
	type site struct {
		file string
		fn   string
		recv string
		arg  string
	}
	var sites []site
	for _, f := range backend {
		for _, d := range f.Decls {
			fd, ok := d.(*ast.FuncDecl)
			if !ok || fd.Body == nil {
				continue
			}
			ast.Inspect(fd.Body, func(n ast.Node) bool {
				call, ok := n.(*ast.CallExpr)
				if !ok || calleeName(call) != "Done" || len(call.Args) != 1 {
					return true
				}
				file, _ := c.pos(call.Pos())
				recv := "?"
				if sel, ok := call.Fun.(*ast.SelectorExpr); ok {
					recv = c.render(sel.X)
				}
				sites = append(sites, site{file, funcQualName(fd), recv, c.render(call.Args[0])})
				return true
			})
		}
	}
	sort.Slice(sites, func(i, j int) bool {
		if sites[i].file != sites[j].file {
			return sites[i].file < sites[j].file
		}
		return sites[i].fn < sites[j].fn
	})

	// 2. user.apply
	var bodyKinds []string
	doneTop := 0
	exitBeforeDone := "none"
	var dispatch [][2]string
	defaultErrors := "none"
	if fd := ackFindMethod(backend, "user", "apply"); fd != nil {
		exitBeforeDone = "(some false)"
		seenDone := false
		for _, st := range fd.Body.List {
			kind := fmt.Sprintf("%T", st)
			kind = strings.TrimPrefix(kind, "*ast.")
			if es, ok := st.(*ast.ExprStmt); ok {
				if call, ok := es.X.(*ast.CallExpr); ok {
					if calleeName(call) == "Done" && len(call.Args) == 1 {
						kind = "Done"
						doneTop++
						seenDone = true
					} else {
						kind = "Call"
						if q := calleeQualified(call); q == "panic" || q == "os.Exit" {
							kind = "Exit"
						}
					}
				}
			}
			if as, ok := st.(*ast.AssignStmt); ok && len(as.Rhs) == 1 {
				if call, ok := as.Rhs[0].(*ast.CallExpr); ok {
					if _, ok := call.Fun.(*ast.FuncLit); ok {
						kind = "AssignFromClosure"
					}
				}
			}
			if !seenDone {
				switch st.(type) {
				case *ast.ExprStmt, *ast.AssignStmt:
					if kind == "Exit" {
						exitBeforeDone = "(some true)"
					}
				case *ast.ReturnStmt:
					exitBeforeDone = "(some true)"
				default:
					// any compound statement before Done could hide an exit: look inside (closures excluded)
					if ackContainsExit(c, st) {
						exitBeforeDone = "(some true)"
					}
				}
			}
			bodyKinds = append(bodyKinds, kind)
		}
		// the type switch inside the closure
		ast.Inspect(fd.Body, func(n ast.Node) bool {
			ts, ok := n.(*ast.TypeSwitchStmt)
			if !ok {
				return true
			}
			for _, cl := range ts.Body.List {
				cc := cl.(*ast.CaseClause)
				ret := "unknown"
				if len(cc.Body) == 1 {
					if rs, ok := cc.Body[0].(*ast.ReturnStmt); ok && len(rs.Results) == 1 {
						switch x := rs.Results[0].(type) {
						case *ast.CallExpr:
							ret = calleeQualified(x)
						case *ast.Ident:
							ret = x.Name
						}
					}
				}
				if cc.List == nil {
					if ret == "fmt.Errorf" {
						defaultErrors = "(some true)"
					} else {
						defaultErrors = "(some false)"
					}
					continue
				}
				for _, t := range cc.List {
					dispatch = append(dispatch, [2]string{c.render(t), ret})
				}
			}
			return false
		})
	} else {
		bodyKinds = []string{"unknown: method user.apply not found"}
	}

	// 3. the loop in newUser
	applyCalls := 0
	errBranchExits := "none"
	var returnGuards []string
	loopFound := false
	if fd := findFunc(backend, "newUser", false); fd != nil {
		ast.Inspect(fd.Body, func(n ast.Node) bool {
			fs, ok := n.(*ast.ForStmt)
			if !ok || fs.Cond != nil || len(fs.Body.List) != 1 {
				return true
			}
			sel, ok := fs.Body.List[0].(*ast.SelectStmt)
			if !ok {
				return true
			}
			for _, cl := range sel.Body.List {
				cc := cl.(*ast.CommClause)
				as, ok := cc.Comm.(*ast.AssignStmt)
				if !ok || len(as.Lhs) != 2 || identLit(as.Lhs[0]) != "update" {
					continue
				}
				loopFound = true
				for _, st := range cc.Body {
					ifs, isIf := st.(*ast.IfStmt)
					if isIf && ifs.Init != nil {
						// if err := user.apply(...); err != nil { … }
						if ias, ok := ifs.Init.(*ast.AssignStmt); ok && len(ias.Rhs) == 1 {
							if call, ok := ias.Rhs[0].(*ast.CallExpr); ok && calleeQualified(call) == "user.apply" {
								applyCalls++
								if c.render(ifs.Cond) == "err != nil" && ifs.Else == nil {
									if ackContainsExit(c, ifs.Body) {
										errBranchExits = "(some true)"
									} else if errBranchExits == "none" {
										errBranchExits = "(some false)"
									}
								} else {
									errBranchExits = "none"
								}
								continue
							}
						}
					}
					if isIf && ifs.Init == nil && ackContainsExit(c, ifs.Body) {
						returnGuards = append(returnGuards, c.render(ifs.Cond))
						continue
					}
					if ackContainsExit(c, st) {
						returnGuards = append(returnGuards, "unguarded:"+c.render(st))
					}
					ast.Inspect(st, func(x ast.Node) bool {
						if call, ok := x.(*ast.CallExpr); ok && calleeQualified(call) == "user.apply" {
							applyCalls++
						}
						return true
					})
				}
			}
			return false
		})
	}
	if !loopFound {
		errBranchExits = "none"
		returnGuards = []string{"unknown: receive case not found"}
	}

	// 4. the waiter
	imapFiles := c.parseDir("imap")
	buffer := "none"
	doneBody := "unknown"
	if fd := findFunc(imapFiles, "newUpdateWaiter", false); fd != nil {
		ast.Inspect(fd.Body, func(n ast.Node) bool {
			if call, ok := n.(*ast.CallExpr); ok && calleeQualified(call) == "make" && len(call.Args) == 2 {
				if _, ok := call.Args[0].(*ast.ChanType); ok {
					if bl, ok := call.Args[1].(*ast.BasicLit); ok {
						buffer = "(some " + bl.Value + ")"
					}
				}
			}
			return true
		})
	}
	if fd := ackFindMethod(imapFiles, "updateWaiter", "Done"); fd != nil {
		doneBody = c.render(fd.Body)
	}

	// 5. UpdateRemoteMessageID's table expression
	tableExpr := "unknown"
	if fd := ackFindMethod(c.parseDir("internal/db_impl/sqlite3"), "writeOps", "UpdateRemoteMessageID"); fd != nil {
		ast.Inspect(fd.Body, func(n ast.Node) bool {
			if call, ok := n.(*ast.CallExpr); ok && calleeQualified(call) == "fmt.Sprintf" && len(call.Args) >= 2 && tableExpr == "unknown" {
				tableExpr = c.render(call.Args[1])
			}
			return true
		})
	}

	var b strings.Builder
	b.WriteString("namespace Gluon.Facts.Ack\n\n")
	b.WriteString("/-- every `<x>.Done(<one argument>)` call in internal/backend: (file, function, receiver, argument) -/\n")
	b.WriteString("def doneSites : List (String × String × String × String) := [")
	for i, s := range sites {
		if i > 0 {
			b.WriteString(", ")
		}
		fmt.Fprintf(&b, "(%s, %s, %s, %s)", leanStr(s.file), leanStr(s.fn), leanStr(s.recv), leanStr(s.arg))
	}
	b.WriteString("]\n\n")
	b.WriteString("/-- kinds of the top-level statements of `user.apply` in order -/\n")
	fmt.Fprintf(&b, "def applyBody : List String := %s\n\n", leanStrList(bodyKinds))
	fmt.Fprintf(&b, "/-- `update.Done(…)` statements at the top level of that body (executed on every path) -/\ndef applyDoneCount : Nat := %d\n\n", doneTop)
	fmt.Fprintf(&b, "/-- a `return` / `panic` at the top level of the body can run before the first Done -/\ndef applyExitBeforeDone : Option Bool := %s\n\n", exitBeforeDone)
	b.WriteString("/-- the type switch of `user.apply`: case type → what the clause returns -/\ndef applyDispatch : List (String × String) := [\n")
	for i, d := range dispatch {
		sep := ","
		if i == len(dispatch)-1 {
			sep = ""
		}
		fmt.Fprintf(&b, "  (%s, %s)%s\n", leanStr(d[0]), leanStr(d[1]), sep)
	}
	b.WriteString("]\n\n")
	fmt.Fprintf(&b, "/-- the `default:` clause returns an error -/\ndef applyDefaultErrors : Option Bool := %s\n\n", defaultErrors)
	fmt.Fprintf(&b, "/-- calls of `user.apply` per update received in the loop of `newUser` -/\ndef loopApplyCalls : Nat := %d\n\n", applyCalls)
	fmt.Fprintf(&b, "/-- the `if err := user.apply(…); err != nil { … }` branch contains return / break / goto / panic -/\ndef loopErrorBranchExits : Option Bool := %s\n\n", errBranchExits)
	fmt.Fprintf(&b, "/-- conditions guarding the other exits of the receive case -/\ndef loopReturnGuards : List String := %s\n\n", leanStrList(returnGuards))
	fmt.Fprintf(&b, "/-- `make(chan error, n)` in newUpdateWaiter -/\ndef waiterBuffer : Option Nat := %s\n\n", buffer)
	fmt.Fprintf(&b, "/-- body of `(*updateWaiter).Done` -/\ndef waiterDoneBody : String := %s\n\n", leanStr(doneBody))
	fmt.Fprintf(&b, "/-- the expression `UpdateRemoteMessageID` puts where the table name belongs -/\ndef updateRemoteMessageIDTableExpr : String := %s\n\n", leanStr(tableExpr))
	fmt.Fprintf(&b, "def updateRemoteMessageIDOnMessagesTable : Bool := %v\n\nend Gluon.Facts.Ack\n", tableExpr == "v1.MessagesTableName")
	return writeLean(outdir, "Ack.lean", b.String())
}

func ackFindMethod(files []*ast.File, recv, name string) *ast.FuncDecl {
	for _, f := range files {
		for _, d := range f.Decls {
			if fd, ok := d.(*ast.FuncDecl); ok && fd.Body != nil && fd.Recv != nil && funcQualName(fd) == recv+"."+name {
				return fd
			}
		}
	}
	return nil
}

func init() { factGens = append(factGens, factGen{"Ack", factsAck}) }
