package main

// Oracle `c09store`, cases about TIME (C09): what a call returned must stay what it was, and List must be right at
// every moment, also while other calls are in progress or after a call was cut short.
//
//   lifetime         directed: messages on both sides of plausible buffer pooling / reuse thresholds (64 KiB LZ4 piece,
//                    256 KiB store block, 1 MiB, 4 MiB; -1/0/+1; random, text, mixed). Every slice Get returned is KEPT
//                    and compared again after each later operation: Get of a small message, of another message of the
//                    same size (two large ones in a row), of the same id again, of a larger one, Set of a new id,
//                    overwrite of the id itself, Delete, List (Lean: C09.get_result_stable - results are values)
//   lifetime-random  seeded random Get/Set/Delete/List over six ids with such sizes, the last results kept and re-compared
//   lifetime-conc    four goroutines Get large messages, keep two results each and compare them after the other's Gets
//   listflight       a Set is HELD in progress (its reader delivers k bytes and waits; k around the LZ4 piece and store
//                    block boundaries; new id / overwrite; through WriteControlledStore.Set, SetUnchecked, the bare
//                    onDiskStore): List must hold every stored id, nothing that was never given to Set (no temporary
//                    name, no zero id), no id twice; Get/Set/Delete of other ids work meanwhile; then the Set completes, or
//                    its reader fails (interrupted Set): Set must report the error, List stays within the ids given to
//                    Set, Get of the id is an error or exactly the previous / the new content, never other bytes
//                    (Lean: C09.list_exact_in_flight, C09.interrupted_set_reads_as_truncation)
//   listconc         goroutines Set/Delete a pool of ids continuously while another one calls List: every answer holds
//                    the untouched ids, only ids ever given to Set, no id twice
//   multidelete      Delete(a, b, c) as one call (bare store, DeleteUnchecked) with a missing id first / in the middle / last:
//                    nil => all gone; List is exactly what Get still finds
//   crash            a child process is killed in the middle of a Set (after k bytes): a fresh store on that directory
//                    must List only ids given to Set, Get of the id is an error or exact bytes, a new Set of it works
//
// Stray files in the store directory (names that are not ids given to Set) are counted in the stats (informational);
// judged is what List and Get answer.

import (
	"bufio"
	"bytes"
	"errors"
	"fmt"
	"io"
	"io/fs"
	"os"
	"os/exec"
	"runtime"
	"sort"
	"strings"
	"sync"
	"sync/atomic"
	"time"

	"github.com/ProtonMail/gluon/imap"
	"github.com/ProtonMail/gluon/store"
)

type c09StoreSet struct {
	dir  string
	disk store.Store
	wcs  *store.WriteControlledStore
	st   store.Store                                   // what Get/Delete/List go through
	set  func(imap.InternalMessageID, io.Reader) error // what Set goes through
	mode string
}

// c09OpenMode: mode wcs (everything through WriteControlledStore), unchecked (Set through SetUnchecked), direct (bare onDiskStore).
func c09OpenMode(dir, mode string) *c09StoreSet {
	disk, err := store.NewOnDiskStore(dir, storePass(0))
	if err != nil {
		panic(err)
	}
	wcs := store.NewWriteControlledStore(disk)
	s := &c09StoreSet{dir: dir, disk: disk, wcs: wcs, st: wcs, set: wcs.Set, mode: mode}
	switch mode {
	case "unchecked":
		s.set = wcs.SetUnchecked
	case "direct":
		s.st = disk
		s.set = disk.Set
	}
	return s
}

func c09TempDir(tag string) string {
	dir, err := os.MkdirTemp("", "vh-c09-"+tag+"-")
	if err != nil {
		panic(err)
	}
	return dir
}

// ---- lifetime ---------------------------------------------------------------------------------

type c09KeptResult struct {
	id         int
	what       string
	got, want  []byte
	reportedAt bool
}

type c09Keeper struct {
	o     *c09Run
	args  string
	kept  []*c09KeptResult
	limit int
	bad   bool
}

func c09FirstDiff(a, b []byte) int {
	n := len(a)
	if len(b) < n {
		n = len(b)
	}
	for i := 0; i < n; i++ {
		if a[i] != b[i] {
			return i
		}
	}
	return n
}

// keep records a slice Get returned together with the bytes it must hold (our own, never handed to the store).
func (k *c09Keeper) keep(id int, what string, got, want []byte) {
	k.kept = append(k.kept, &c09KeptResult{id: id, what: what, got: got, want: want})
	if k.limit > 0 && len(k.kept) > k.limit {
		k.kept = k.kept[len(k.kept)-k.limit:]
	}
}

// check compares every kept slice again; `after` says which operation has just been done.
func (k *c09Keeper) check(after string) {
	for _, h := range k.kept {
		k.o.res.Evaluations++
		if h.reportedAt || bytes.Equal(h.got, h.want) {
			continue
		}
		h.reportedAt = true
		k.bad = true
		d := c09FirstDiff(h.got, h.want)
		end := d + 24
		if end > len(h.got) {
			end = len(h.got)
		}
		k.o.violate("C09-returned-bytes-changed-later",
			fmt.Sprintf("cause=returned-bytes-changed-later: Get(id %d) (%s) returned exactly the %d stored bytes - compared at that moment - and no error; after %s "+
				"that same returned slice differs from what was stored from offset %d on (there now: %q): Get handed out memory that a later call writes to "+
				"(Lean: C09.get_result_stable - what a call returned is not changed by later calls)", h.id, h.what, len(h.want), after, d, h.got[d:end]), k.args)
	}
}

func c09SizeKB(n int) string {
	switch {
	case n >= 3<<20:
		return "4MiB"
	case n >= 768<<10:
		return "1MiB"
	case n >= 192<<10:
		return "256KiB"
	case n >= 48<<10:
		return "64KiB"
	}
	return "small"
}

func (o *c09Run) lifetimeDirected(threshold, delta int, kind, mode string, seed uint64) {
	args := fmt.Sprintf("-case lifetime -threshold %d -delta %d -kind %s -mode %s -cseed %d", threshold, delta, kind, mode, seed)
	dir := c09TempDir("life")
	defer os.RemoveAll(dir)
	s := c09OpenMode(dir, mode)
	n := threshold + delta
	if n < 0 {
		n = 0
	}
	larger := 2*threshold + delta
	contents := map[int][]byte{
		1: c09Content(kind, n, seed),
		2: c09Content(kind, n, seed+1),
		3: c09Content("t", 100, 0),
		4: c09Content(kind, larger, seed+2),
	}
	for id := 1; id <= 4; id++ {
		if err := s.set(storeID(id), bytes.NewReader(contents[id])); err != nil {
			o.violate("roundtrip-set-error", fmt.Sprintf("Set of %d bytes failed: %v", len(contents[id]), err), args)
			return
		}
	}
	k := &c09Keeper{o: o, args: args}
	get := func(id int, what string) bool {
		b, err := s.st.Get(storeID(id))
		if err != nil {
			o.violate("roundtrip-get-error", fmt.Sprintf("Get of id %d (%d bytes, %s) failed: %v", id, len(contents[id]), what, err), args)
			return false
		}
		o.res.Evaluations++
		if !bytes.Equal(b, contents[id]) {
			o.violate("roundtrip-different-bytes", fmt.Sprintf("Get of id %d (%s) returned %d bytes, stored %d, first difference at %d",
				id, what, len(b), len(contents[id]), c09FirstDiff(b, contents[id])), args)
			return false
		}
		k.keep(id, fmt.Sprintf("%d bytes, kind %s", len(b), kind), b, contents[id])
		k.check(fmt.Sprintf("Get(id %d): %s, %d bytes", id, what, len(b)))
		return !k.bad
	}
	steps := []func() bool{
		func() bool { return get(1, "the message itself") },
		func() bool { return get(3, "a small message") },
		func() bool { return get(2, "another message of the same size") },
		func() bool { return get(1, "the same id again") },
		func() bool { return get(4, "a larger message") },
		func() bool {
			contents[5] = c09Content(kind, n, seed+3)
			if err := s.set(storeID(5), bytes.NewReader(contents[5])); err != nil {
				o.violate("roundtrip-set-error", fmt.Sprintf("Set failed: %v", err), args)
				return false
			}
			k.check("Set of a new id with a message of the same size")
			return !k.bad
		},
		func() bool {
			// overwrite id 1: what was returned for it before stays the old message
			c := c09Content(kind, n, seed+4)
			if err := s.set(storeID(1), bytes.NewReader(c)); err != nil {
				o.violate("roundtrip-set-error", fmt.Sprintf("Set failed: %v", err), args)
				return false
			}
			k.check("overwriting id 1 with another message of the same size")
			contents[1] = c
			return !k.bad
		},
		func() bool { return get(1, "the overwritten id") },
		func() bool {
			if err := s.st.Delete(storeID(2)); err != nil {
				o.violate("delete-error", fmt.Sprintf("Delete of a stored id failed: %v", err), args)
				return false
			}
			k.check("Delete(id 2)")
			return !k.bad
		},
		func() bool { return get(3, "a small message") },
		func() bool {
			if _, err := s.st.List(); err != nil {
				o.violate("list-error", fmt.Sprintf("List failed: %v", err), args)
				return false
			}
			k.check("List")
			return !k.bad
		},
	}
	for _, f := range steps {
		if !f() {
			return
		}
	}
	o.res.DistinctNontrivial++
	o.inc("lifetime.directed." + c09SizeKB(n) + "." + kind + "." + mode)
}

func (o *c09Run) lifetimes(seed uint64, thorough bool) {
	type th struct {
		t      int
		deltas []int
		kinds  []string
	}
	ths := []th{
		{64 << 10, []int{-1, 0, 1}, []string{"r", "t"}},
		{256 << 10, []int{-1, 0, 1}, []string{"r", "m"}},
		{1 << 20, []int{-1, 0, 1, 4097}, []string{"r", "t", "m"}},
		{4 << 20, []int{-1, 1}, []string{"r", "t"}},
	}
	if thorough {
		ths = append(ths, th{512 << 10, []int{-1, 0, 1}, []string{"r", "m"}}, th{2 << 20, []int{-1, 0, 1}, []string{"r", "t", "m"}},
			th{8 << 20, []int{0}, []string{"r", "m"}})
	}
	i := 0
	for _, x := range ths {
		for _, d := range x.deltas {
			for _, kind := range x.kinds {
				mode := []string{"wcs", "direct"}[i%2]
				o.lifetimeDirected(x.t, d, kind, mode, seed*100+uint64(i))
				i++
			}
		}
	}
	nops := 60
	if thorough {
		nops = 400
	}
	o.lifetimeRandom(seed, nops, "wcs")
	o.lifetimeRandom(seed+1, nops, "direct")
	o.lifetimeConc(seed, 4, 20)
}

var c09LifetimeSizes = []int{100, 4096, 65535, 65536, 65537, 262144, 262145, 300000, 1<<20 - 1, 1 << 20, 1<<20 + 1, 1500000, 2<<20 + 1}

func (o *c09Run) lifetimeRandom(seed uint64, nops int, mode string) {
	args := fmt.Sprintf("-case lifetime-random -cseed %d -ops %d -mode %s", seed, nops, mode)
	dir := c09TempDir("liferand")
	defer os.RemoveAll(dir)
	s := c09OpenMode(dir, mode)
	r := NewRng(seed*7919 + 13)
	model := map[int][]byte{}
	k := &c09Keeper{o: o, args: args, limit: 12}
	for i := 0; i < nops && !k.bad; i++ {
		id := r.Range(1, 6)
		switch c := r.Intn(10); {
		case c < 3 || len(model) < 3:
			n := Pick(r, c09LifetimeSizes)
			if r.Chance(1, 25) {
				n = 4<<20 + 1
			}
			b := c09Content(Pick(r, []string{"r", "r", "t", "m"}), n, r.U64())
			if err := s.set(storeID(id), bytes.NewReader(b)); err != nil {
				o.violate("roundtrip-set-error", fmt.Sprintf("Set of %d bytes failed: %v", n, err), args)
				return
			}
			model[id] = b
			k.check(fmt.Sprintf("op %d: Set(id %d, %d bytes)", i, id, n))
		case c < 8:
			b, err := s.st.Get(storeID(id))
			want, stored := model[id]
			o.res.Evaluations++
			switch {
			case !stored && err == nil:
				o.violate("get-of-missing-id", fmt.Sprintf("op %d: Get of id %d, which is not stored, returned %d bytes", i, id, len(b)), args)
				return
			case !stored:
			case err != nil:
				o.violate("roundtrip-get-error", fmt.Sprintf("op %d: Get of id %d failed: %v", i, id, err), args)
				return
			case !bytes.Equal(b, want):
				o.violate("roundtrip-different-bytes", fmt.Sprintf("op %d: Get of id %d returned %d bytes, stored %d, first difference at %d", i, id, len(b), len(want), c09FirstDiff(b, want)), args)
				return
			default:
				k.keep(id, fmt.Sprintf("op %d, %d bytes", i, len(b)), b, want)
				o.inc("lifetime.random.gets." + c09SizeKB(len(b)))
			}
			k.check(fmt.Sprintf("op %d: Get(id %d)", i, id))
		case c < 9:
			_ = s.st.Delete(storeID(id))
			delete(model, id)
			k.check(fmt.Sprintf("op %d: Delete(id %d)", i, id))
		default:
			ids, err := s.st.List()
			if err != nil {
				o.violate("list-error", fmt.Sprintf("List failed: %v", err), args)
				return
			}
			var want []int
			for id := range model {
				want = append(want, id)
			}
			sort.Ints(want)
			if got := c09RenderList(ids); got != c09RenderInts(want) {
				o.violate("list-not-exact", fmt.Sprintf("op %d: List answered %s, stored %s", i, got, c09RenderInts(want)), args)
				return
			}
			k.check(fmt.Sprintf("op %d: List", i))
		}
	}
	if !k.bad {
		o.res.DistinctNontrivial++
		o.inc("lifetime.random.histories")
	}
}

func c09RenderInts(ns []int) string {
	if len(ns) == 0 {
		return "ids:-"
	}
	var ss []string
	for _, n := range ns {
		ss = append(ss, fmt.Sprint(n))
	}
	return "ids:" + strings.Join(ss, ",")
}

func (o *c09Run) lifetimeConc(seed uint64, goroutines, rounds int) {
	args := fmt.Sprintf("-case lifetime-conc -cseed %d -goroutines %d -ops %d", seed, goroutines, rounds)
	dir := c09TempDir("lifeconc")
	defer os.RemoveAll(dir)
	s := c09OpenMode(dir, "wcs")
	contents := map[int][]byte{}
	for id, n := range []int{1<<20 + 1, 1200000, 300000, 65537, 2<<20 + 5} {
		contents[id+1] = c09Content([]string{"r", "m", "t"}[id%3], n, seed*10+uint64(id))
		if err := s.set(storeID(id+1), bytes.NewReader(contents[id+1])); err != nil {
			o.violate("roundtrip-set-error", fmt.Sprintf("Set failed: %v", err), args)
			return
		}
	}
	var wg sync.WaitGroup
	var bad int32
	for g := 0; g < goroutines; g++ {
		wg.Add(1)
		go func(g int) {
			defer wg.Done()
			r := NewRng(seed*131 + uint64(g))
			for k := 0; k < rounds && atomic.LoadInt32(&bad) == 0; k++ {
				ida, idb := r.Range(1, 5), r.Range(1, 5)
				a, err := s.st.Get(storeID(ida))
				if err != nil || !bytes.Equal(a, contents[ida]) {
					if atomic.CompareAndSwapInt32(&bad, 0, 1) {
						o.violate("conc-get-different-bytes", fmt.Sprintf("Get of id %d under concurrent Gets (no writer): err=%v, %d bytes, stored %d (the slice may already have been written to by a concurrent Get; cause=returned-bytes-changed-later)",
							ida, err, len(a), len(contents[ida])), args)
					}
					return
				}
				runtime.Gosched()
				b, err := s.st.Get(storeID(idb))
				okB := err == nil && bytes.Equal(b, contents[idb])
				if !bytes.Equal(a, contents[ida]) || !okB {
					if atomic.CompareAndSwapInt32(&bad, 0, 1) {
						o.violate("C09-returned-bytes-changed-later",
							fmt.Sprintf("cause=returned-bytes-changed-later: goroutine %d: Get(id %d) returned the %d stored bytes; after its next Get (id %d, err=%v, exact=%v) while %d other goroutines also call Get, "+
								"the first returned slice differs from offset %d on", g, ida, len(contents[ida]), idb, err, okB, goroutines-1, c09FirstDiff(a, contents[ida])), args)
					}
					return
				}
				o.mu.Lock()
				o.res.Evaluations += 2
				o.mu.Unlock()
			}
		}(g)
	}
	wg.Wait()
	if bad == 0 {
		o.res.DistinctNontrivial++
		o.inc("lifetime.conc.histories")
	}
}

// ---- listflight -------------------------------------------------------------------------------

// c09JudgeList: List must answer only ids of `allowed`, all of `required`, none twice. Returns false on a violation.
func (o *c09Run) c09JudgeList(s *c09StoreSet, required, allowed map[int]bool, when, args string) bool {
	return o.c09JudgeListRacing(s, required, allowed, when, args, false)
}

// racingDelete: other goroutines Delete ids meanwhile. Then List may fail with "no such file" (filepath.Walk reads
// the names and lstats each one; a name deleted in between is reported as that error): an error, not a wrong answer -
// counted, not judged.
func (o *c09Run) c09JudgeListRacing(s *c09StoreSet, required, allowed map[int]bool, when, args string, racingDelete bool) bool {
	ids, err := s.st.List()
	o.res.Evaluations++
	if err != nil && racingDelete && errors.Is(err, fs.ErrNotExist) {
		o.inc("listconc.list-failed-with-not-exist-while-another-id-was-deleted")
		return true
	}
	if err != nil {
		o.violate("list-error", fmt.Sprintf("List %s failed: %v", when, err), args)
		return false
	}
	var req []int
	for id := range required {
		req = append(req, id)
	}
	sort.Ints(req)
	seen := map[int]bool{}
	for _, id := range ids {
		n, foreign := c09ListItem(id)
		switch {
		case foreign != "" || !allowed[n]:
			o.violate("C09-list-id-never-stored", fmt.Sprintf("cause=list-id-never-stored: List %s answered %s: %s was never given to Set (stored and complete: %s)",
				when, c09RenderList(ids), id.String(), c09RenderInts(req)), args)
			return false
		case seen[n]:
			o.violate("C09-list-id-twice", fmt.Sprintf("List %s answered %s: id %d twice", when, c09RenderList(ids), n), args)
			return false
		}
		seen[n] = true
	}
	for _, n := range req {
		if !seen[n] {
			o.violate("C09-list-misses-stored-id", fmt.Sprintf("List %s answered %s: the stored id %d is missing (stored and complete: %s)", when, c09RenderList(ids), n, c09RenderInts(req)), args)
			return false
		}
	}
	return true
}

// c09StrayFiles: names in the store directory that are not the file of one of the ids (informational).
func c09StrayFiles(dir string, allowed map[int]bool) []string {
	ents, err := os.ReadDir(dir)
	if err != nil {
		return nil
	}
	names := map[string]bool{}
	for id := range allowed {
		names[storeID(id).String()] = true
	}
	var out []string
	for _, e := range ents {
		if !names[e.Name()] {
			out = append(out, e.Name())
		}
	}
	return out
}

func c09CopySet(m map[int][]byte, extra ...int) map[int]bool {
	out := map[int]bool{}
	for id := range m {
		out[id] = true
	}
	for _, id := range extra {
		out[id] = true
	}
	return out
}

// c09JudgeAfterInterruption: Get(target) after a Set of `content` over `prev` (nil: new id) was cut short.
func (o *c09Run) c09JudgeAfterInterruption(s *c09StoreSet, target int, content, prev []byte, how, args string) bool {
	got, err := s.st.Get(storeID(target))
	o.res.Evaluations++
	switch {
	case err != nil:
		o.inc("interrupted.get.error")
		o.res.DistinctNontrivial++
	case prev != nil && bytes.Equal(got, prev):
		o.inc("interrupted.get.previous-content")
		o.res.DistinctNontrivial++
	case bytes.Equal(got, content):
		o.inc("interrupted.get.new-content")
	default:
		class := "C09-interrupted-set-different-bytes"
		fm := c09Fmt()
		if fi, serr := os.Stat(filepathJoin(s.dir, storeID(target).String())); serr == nil && len(got) > 0 && len(got) < len(content) && bytes.HasPrefix(content, got) &&
			fi.Size() > int64(fm.headerLen+fm.nonceLen) && (int(fi.Size())-fm.headerLen-fm.nonceLen)%(fm.blockSize+fm.overhead) == 0 {
			// the file left behind ends on a sealed-block boundary that is also an LZ4 data-block boundary: the known truncation finding
			class = "C09-F2 truncate-at-lz4-block-boundary"
		}
		o.violate(class, fmt.Sprintf("%s; afterwards Get(id %d) returned %d bytes %s and no error (being stored: %d bytes, stored before: %d bytes): neither an error nor the exact previous or new bytes",
			how, target, len(got), c09Relation(got, content), len(content), len(prev)), args)
		return false
	}
	return true
}

func filepathJoin(dir, name string) string { return dir + string(os.PathSeparator) + name }

func (o *c09Run) listflight(mode string, k int, overwrite, abort bool, seed uint64) {
	args := fmt.Sprintf("-case listflight -mode %s -k %d -overwrite=%v -abort=%v -cseed %d", mode, k, overwrite, abort, seed)
	dir := c09TempDir("flight")
	defer os.RemoveAll(dir)
	s := c09OpenMode(dir, mode)
	model := map[int][]byte{}
	put := func(id int, b []byte) bool {
		if err := s.set(storeID(id), bytes.NewReader(b)); err != nil {
			o.violate("roundtrip-set-error", fmt.Sprintf("Set failed: %v", err), args)
			return false
		}
		model[id] = b
		return true
	}
	for id, n := range []int{1000, 70000, 10} {
		if !put(id+1, c09Content([]string{"t", "r", "r"}[id], n, seed+uint64(id))) {
			return
		}
	}
	target := 4
	var prev []byte
	if overwrite {
		target = 1
		prev = model[1]
	}
	content := c09Content("r", 700000, seed+9)
	fl, early, err := c09BeginSet(func(r io.Reader) error { return s.set(storeID(target), r) }, content, k)
	if early {
		o.violate("set-ended-early", fmt.Sprintf("Set returned (%v) before its reader reached the end of the data (%d of %d bytes delivered)", err, k, len(content)), args)
		return
	}
	ended := false
	defer func() {
		if !ended {
			_ = fl.end(false)
		}
	}()
	when := fmt.Sprintf("while Set(id %d, %d bytes, %s) is in progress (%d bytes delivered, %s id)", target, len(content), mode, k, map[bool]string{true: "overwriting a stored", false: "a new"}[overwrite])
	if !o.c09JudgeList(s, c09CopySet(model), c09CopySet(model, target), when, args) {
		return
	}
	if stray := c09StrayFiles(dir, c09CopySet(model, target)); len(stray) > 0 {
		o.inc("listflight.stray-file-names-during-set")
	}
	// other ids are usable meanwhile
	if b, err := s.st.Get(storeID(2)); err != nil || !bytes.Equal(b, model[2]) {
		o.violate("get-other-id-during-set", fmt.Sprintf("Get(id 2) %s: err=%v, %d bytes, stored %d", when, err, len(b), len(model[2])), args)
		return
	}
	if !put(5, c09Content("m", 5000, seed+5)) {
		return
	}
	if err := s.st.Delete(storeID(3)); err != nil {
		o.violate("delete-error", fmt.Sprintf("Delete(id 3) %s failed: %v", when, err), args)
		return
	}
	delete(model, 3)
	if !o.c09JudgeList(s, c09CopySet(model), c09CopySet(model, target), when+", after Set(id 5) and Delete(id 3)", args) {
		return
	}
	err = fl.end(!abort)
	ended = true
	if !abort {
		if err != nil {
			o.violate("roundtrip-set-error", fmt.Sprintf("the held Set failed: %v", err), args)
			return
		}
		model[target] = content
		if !o.c09JudgeList(s, c09CopySet(model), c09CopySet(model), "after the Set completed", args) {
			return
		}
		if b, err := s.st.Get(storeID(target)); err != nil || !bytes.Equal(b, content) {
			o.violate("roundtrip-different-bytes", fmt.Sprintf("Get after the held Set completed: err=%v, %d bytes, stored %d", err, len(b), len(content)), args)
			return
		}
		o.res.DistinctNontrivial++
		o.inc("listflight.completed." + mode)
		return
	}
	how := fmt.Sprintf("the reader of Set(id %d, %d bytes, %s) failed after %d bytes", target, len(content), mode, k)
	if err == nil {
		o.violate("C09-interrupted-set-reported-success", how+", but Set returned nil", args)
		return
	}
	required := c09CopySet(model)
	delete(required, target) // an implementation may remove what the failed Set left
	if !o.c09JudgeList(s, required, c09CopySet(model, target), "after "+how, args) {
		return
	}
	if stray := c09StrayFiles(dir, c09CopySet(model, target)); len(stray) > 0 {
		o.inc("listflight.stray-file-names-after-interrupted-set")
	}
	if !o.c09JudgeAfterInterruption(s, target, content, prev, how, args) {
		return
	}
	// the id is usable again
	if !put(target, c09Content("t", 3000, seed+11)) {
		return
	}
	if b, err := s.st.Get(storeID(target)); err != nil || !bytes.Equal(b, model[target]) {
		o.violate("roundtrip-different-bytes", fmt.Sprintf("Get after a new Set of the id whose Set had been interrupted: err=%v, %d bytes", err, len(b)), args)
		return
	}
	if !o.c09JudgeList(s, c09CopySet(model), c09CopySet(model), "after a new Set of the id whose Set had been interrupted", args) {
		return
	}
	o.inc("listflight.interrupted." + mode)
}

func (o *c09Run) listflights(seed uint64, thorough bool) {
	fm := c09Fmt()
	ks := []int{0, 1, 65536, 131072, 4*65536 + 4096, fm.blockSize + 70000, 2*fm.blockSize + 70000, 700000}
	i := 0
	for _, k := range ks {
		for _, abort := range []bool{false, true} {
			mode := []string{"wcs", "direct", "unchecked"}[i%3]
			o.listflight(mode, k, i%4 >= 2, abort, seed*50+uint64(i))
			if thorough {
				o.listflight([]string{"direct", "unchecked", "wcs"}[i%3], k, i%4 < 2, abort, seed*50+uint64(i)+1000)
			}
			i++
		}
	}
	dur := 250
	if thorough {
		dur = 1500
	}
	o.listConc("wcs", dur, seed)
	o.listConc("direct", dur, seed+1)
}

// listConc: writers Set/Delete the ids 10..13 continuously, ids 1..3 are never touched; a lister calls List all the time.
func (o *c09Run) listConc(mode string, millis int, seed uint64) {
	args := fmt.Sprintf("-case listconc -mode %s -ms %d -cseed %d", mode, millis, seed)
	dir := c09TempDir("listconc")
	defer os.RemoveAll(dir)
	s := c09OpenMode(dir, mode)
	stable := map[int]bool{}
	allowed := map[int]bool{}
	for id := 1; id <= 3; id++ {
		if err := s.set(storeID(id), bytes.NewReader(c09Content("r", 100*id, seed))); err != nil {
			o.violate("roundtrip-set-error", fmt.Sprintf("Set failed: %v", err), args)
			return
		}
		stable[id], allowed[id] = true, true
	}
	for id := 10; id <= 13; id++ {
		allowed[id] = true
	}
	var stop int32
	var wg sync.WaitGroup
	start := make(chan struct{})
	for w := 0; w < 4; w++ {
		wg.Add(1)
		go func(w int) {
			defer wg.Done()
			r := NewRng(seed*977 + uint64(w))
			id := 10 + w // one writer per id: also right for the bare onDiskStore, which has no per-id lock
			<-start
			for atomic.LoadInt32(&stop) == 0 {
				b := c09Content("r", Pick(r, []int{10, 70000, 300000}), r.U64())
				if err := s.set(storeID(id), bytes.NewReader(b)); err != nil {
					o.violate("conc-set-error", fmt.Sprintf("Set failed: %v", err), args)
					return
				}
				if r.Chance(1, 2) {
					_ = s.st.Delete(storeID(id))
				}
			}
		}(w)
	}
	close(start)
	lists := 0
	deadline := time.Now().Add(time.Duration(millis) * time.Millisecond)
	ok := true
	for ok && time.Now().Before(deadline) {
		ok = o.c09JudgeListRacing(s, stable, allowed, "while four goroutines Set and Delete the ids 10..13 ("+mode+")", args, true)
		lists++
	}
	atomic.StoreInt32(&stop, 1)
	wg.Wait()
	o.res.Stats["listconc."+mode+".lists"] += lists
	if ok {
		o.res.DistinctNontrivial++
	}
}

// ---- multidelete ------------------------------------------------------------------------------

// multidelete: Delete with several ids as ONE call of the implementation (bare onDiskStore.Delete, DeleteUnchecked) and
// through WriteControlledStore.Delete (one call per id), with an id that has no file in first / middle / last position.
// Delete returned nil => every id of the call is gone; whatever it returned: List is exactly the ids Get still finds,
// and what is still there reads back exactly.
func (o *c09Run) multidelete(mode string, missingAt int, seed uint64) {
	args := fmt.Sprintf("-case multidelete -mode %s -k %d -cseed %d", mode, missingAt, seed)
	dir := c09TempDir("multidel")
	defer os.RemoveAll(dir)
	s := c09OpenMode(dir, mode)
	del := s.st.Delete
	if mode == "unchecked" {
		del = s.wcs.DeleteUnchecked
	}
	model := map[int][]byte{}
	for id := 1; id <= 5; id++ {
		b := c09Content("r", 50*id, seed+uint64(id))
		if err := s.set(storeID(id), bytes.NewReader(b)); err != nil {
			o.violate("roundtrip-set-error", fmt.Sprintf("Set failed: %v", err), args)
			return
		}
		model[id] = b
	}
	call := []int{1, 2, 3}
	if missingAt >= 0 && missingAt < 3 {
		call[missingAt] = 9 // never stored
	}
	var ids []imap.InternalMessageID
	for _, id := range call {
		ids = append(ids, storeID(id))
	}
	err := del(ids...)
	o.res.Evaluations++
	gone := func(id int) bool {
		_, gerr := s.st.Get(storeID(id))
		return gerr != nil && errors.Is(gerr, fs.ErrNotExist)
	}
	if err == nil {
		for _, id := range call {
			if !gone(id) {
				o.violate("C09-delete-reported-success-id-still-there", fmt.Sprintf("Delete%v (%s; id 9 was never stored) returned nil, but id %d can still be read", call, mode, id), args)
				return
			}
		}
	} else if missingAt < 0 || missingAt > 2 {
		o.violate("delete-error", fmt.Sprintf("Delete%v of stored ids (%s) failed: %v", call, mode, err), args)
		return
	}
	left := map[int]bool{}
	for id, want := range model {
		if gone(id) {
			continue
		}
		left[id] = true
		if b, gerr := s.st.Get(storeID(id)); gerr != nil || !bytes.Equal(b, want) {
			o.violate("roundtrip-different-bytes", fmt.Sprintf("after Delete%v (%s, returned %v) Get(id %d): err=%v, %d bytes, stored %d", call, mode, err, id, gerr, len(b), len(want)), args)
			return
		}
	}
	for _, id := range []int{4, 5} {
		if !left[id] {
			o.violate("C09-delete-removed-other-id", fmt.Sprintf("after Delete%v (%s) id %d, which was not in the call, is gone", call, mode, id), args)
			return
		}
	}
	if !o.c09JudgeList(s, left, left, fmt.Sprintf("after Delete%v (%s, returned %v)", call, mode, err), args) {
		return
	}
	o.res.DistinctNontrivial++
	o.inc(fmt.Sprintf("multidelete.%s.missing-at=%d.err=%v", mode, missingAt, err != nil))
}

func (o *c09Run) multideletes(seed uint64) {
	for _, mode := range []string{"direct", "unchecked", "wcs"} {
		for _, at := range []int{-1, 0, 1, 2} {
			o.multidelete(mode, at, seed)
		}
	}
}

// ---- crash ------------------------------------------------------------------------------------

// c09CrashChild: (child process) begin Set(id, content) on the store in dir, say READY once k bytes are delivered, wait to be killed.
func c09CrashChild(dir string, id, n int, seed uint64, k int) int {
	s := c09OpenMode(dir, "wcs")
	content := c09Content("r", n, seed)
	_, early, err := c09BeginSet(func(r io.Reader) error { return s.set(storeID(id), r) }, content, k)
	if early {
		fmt.Printf("EARLY %v\n", err)
		return 3
	}
	fmt.Println("READY")
	_ = os.Stdout.Sync()
	select {}
}

func (o *c09Run) crash(k int, overwrite bool, seed uint64) {
	args := fmt.Sprintf("-case crash -k %d -overwrite=%v -cseed %d", k, overwrite, seed)
	dir := c09TempDir("crash")
	defer os.RemoveAll(dir)
	s := c09OpenMode(dir, "wcs")
	model := map[int][]byte{}
	for id, n := range []int{1000, 70000} {
		b := c09Content("r", n, seed+uint64(id))
		if err := s.set(storeID(id+1), bytes.NewReader(b)); err != nil {
			o.violate("roundtrip-set-error", fmt.Sprintf("Set failed: %v", err), args)
			return
		}
		model[id+1] = b
	}
	target := 3
	var prev []byte
	if overwrite {
		target = 1
		prev = model[1]
	}
	const n = 700000
	content := c09Content("r", n, seed+9)
	cmd := exec.Command(os.Args[0], "oracle", "c09store", "-case", "crashchild", "-dir", dir, "-id", fmt.Sprint(target), "-len", fmt.Sprint(n),
		"-cseed", fmt.Sprint(seed+9), "-k", fmt.Sprint(k))
	stdout, err := cmd.StdoutPipe()
	if err != nil {
		o.inc("crash.harness-error")
		return
	}
	if err := cmd.Start(); err != nil {
		o.inc("crash.harness-error")
		return
	}
	ready := make(chan string, 1)
	go func() {
		line, _ := bufio.NewReader(stdout).ReadString('\n')
		ready <- strings.TrimSpace(line)
	}()
	var line string
	select {
	case line = <-ready:
	case <-time.After(30 * time.Second):
		line = "TIMEOUT"
	}
	_ = cmd.Process.Kill()
	_ = cmd.Wait()
	if line != "READY" {
		o.inc("crash.child-not-ready")
		o.violate("crash-child-not-ready", fmt.Sprintf("the child process did not get its Set into progress: %q", line), args)
		return
	}
	how := fmt.Sprintf("a process was killed during Set(id %d, %d bytes) after %d bytes had been delivered", target, n, k)
	s2 := c09OpenMode(dir, "wcs")
	required := c09CopySet(model)
	delete(required, target)
	if !o.c09JudgeList(s2, required, c09CopySet(model, target), "of a fresh store after "+how, args) {
		return
	}
	if stray := c09StrayFiles(dir, c09CopySet(model, target)); len(stray) > 0 {
		o.inc("crash.stray-file-names-after-kill")
	}
	if !o.c09JudgeAfterInterruption(s2, target, content, prev, how, args) {
		return
	}
	for id, want := range model {
		if id == target {
			continue
		}
		if b, err := s2.st.Get(storeID(id)); err != nil || !bytes.Equal(b, want) {
			o.violate("roundtrip-different-bytes", fmt.Sprintf("Get of the untouched id %d after %s: err=%v, %d bytes, stored %d", id, how, err, len(b), len(want)), args)
			return
		}
	}
	nb := c09Content("t", 3000, seed+11)
	if err := s2.st.Set(storeID(target), bytes.NewReader(nb)); err != nil {
		o.violate("roundtrip-set-error", fmt.Sprintf("Set after %s failed: %v", how, err), args)
		return
	}
	model[target] = nb
	if b, err := s2.st.Get(storeID(target)); err != nil || !bytes.Equal(b, nb) {
		o.violate("roundtrip-different-bytes", fmt.Sprintf("Get after a new Set following the kill: err=%v, %d bytes", err, len(b)), args)
		return
	}
	if !o.c09JudgeList(s2, c09CopySet(model), c09CopySet(model), "after a new Set of the id following the kill", args) {
		return
	}
	o.inc("crash.killed-during-set")
}

func (o *c09Run) crashes(seed uint64, thorough bool) {
	fm := c09Fmt()
	ks := []int{0, 70000, fm.blockSize + 70000}
	if thorough {
		ks = append(ks, 1, 65536, 2*fm.blockSize+70000, 700000)
	}
	for i, k := range ks {
		o.crash(k, i%2 == 1, seed*30+uint64(i))
		if thorough {
			o.crash(k, i%2 == 0, seed*30+uint64(i)+500)
		}
	}
}
