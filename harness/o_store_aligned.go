package main

// Oracle `c09store`, case `aligned` (C09), and what it shares with the `store` dialect generator:
// contents built so that a sealed-block boundary of the stored file coincides with an LZ4 data-block
// boundary of the compressed stream, after 1, 2 or 3 sealed blocks.
//
// Why: the LZ4 reader cannot tell "the source ends where a data block would start" from the end mark.
// On such a file the only thing that makes a damaged LATER sealed block (flipped bit, cut inside the
// block, garbage) an error is that the reader goroutine of Get ends the stream with the decrypt
// error and not with a plain end of file (Lean: C09.alteration_detected_partial rests on `Term.fail`,
// C09.open_failure_is_pipe_error ties it to the source).  Random, all-zero and text contents never
// have such a boundary (7 + k*65540 is odd), so the ordinary corruption sweep cannot see the
// difference.  A cut exactly ON the coinciding boundary damages no block at all and reads back as a
// strict prefix on the unchanged tree: finding C09-F2, labelled separately.
//
// Construction (nothing is searched blindly): chunks of one LZ4 block (64 KiB) each of known
// compressed size (zeros, text, pseudo-random) are laid down until one more chunk has to absorb the
// distance to the target offset good*blockSize; that chunk is `p` pseudo-random bytes followed by
// zeros, and p is solved for with the real compressor (compressed size grows with p by 1 per byte,
// apart from the length-extension bytes).  blockSize and the header length come from the source
// (c09ParseStoreSource, the translator of Facts/Store.lean), nonce size and overhead from crypto/cipher.

import (
	"bytes"
	"crypto/aes"
	"crypto/cipher"
	"fmt"
	"go/token"
	"os"
	"strings"
	"sync"
)

type c09Format struct {
	headerLen, nonceLen, overhead, blockSize int
	fromSource                               bool
}

var (
	c09FmtOnce sync.Once
	c09FmtVal  c09Format
)

// c09Fmt: the sizes the structural sweeps are laid out with.
func c09Fmt() c09Format {
	c09FmtOnce.Do(func() {
		f := c09Format{headerLen: storeHeaderLen, nonceLen: storeNonceLen, overhead: storeOverhead, blockSize: storeBlockSize}
		if blk, err := aes.NewCipher(make([]byte, 32)); err == nil {
			if g, err := cipher.NewGCM(blk); err == nil {
				f.nonceLen, f.overhead = g.NonceSize(), g.Overhead()
			}
		}
		repo := os.Getenv("VERIF_REPO")
		if repo == "" {
			repo = "/repo"
		}
		src := c09ParseStoreSource(&factsCtx{repo: repo, fset: token.NewFileSet(), typedCache: map[string]*typedPkg{}})
		if src.okBS && src.blockSize > 0 && len(src.header) > 0 {
			f.blockSize, f.headerLen, f.fromSource = int(src.blockSize), len(src.header), true
		}
		c09FmtVal = f
	})
	return c09FmtVal
}

const c09Lz4Chunk = 65536 // lz4.Block64Kb: the option Set (Facts.Store.lz4Options) and c09Lz4Frame apply

// c09Part: one piece of a composite content; kind r (pseudo-random), z (zeros), t (text).
type c09Part struct {
	kind string
	n    int
	seed uint64
}

func (p c09Part) bytes() []byte {
	switch p.kind {
	case "z":
		return make([]byte, p.n)
	case "t":
		return storeTextBytes(p.n)
	}
	return storeRandBytes(p.seed, p.n)
}

func (p c09Part) spec() string {
	if p.kind == "r" {
		return fmt.Sprintf("r%d.%d", p.n, p.seed)
	}
	return fmt.Sprintf("%s%d", p.kind, p.n)
}

func c09PartsBytes(parts []c09Part) []byte {
	var out []byte
	for _, p := range parts {
		out = append(out, p.bytes()...)
	}
	return out
}

// c09PartsSpec: the content spec of the `store` dialect for a composite content: c<part>+<part>+…
func c09PartsSpec(parts []c09Part) string {
	ss := make([]string, len(parts))
	for i, p := range parts {
		ss[i] = p.spec()
	}
	return "c" + strings.Join(ss, "+")
}

// c09ChunkCLen: size of the one LZ4 data block the writer emits for a chunk of at most 64 KiB
// (blocks are compressed independently of each other).
func c09ChunkCLen(chunk []byte) int {
	bs := c09Lz4Boundaries(c09Lz4Frame(chunk)) // data block, [an empty block the writer's ReadFrom adds], end mark
	if len(bs) < 2 || len(chunk) == 0 || len(chunk) > c09Lz4Chunk {
		return -1
	}
	return bs[1] - bs[0] - 4
}

func c09TunedChunk(seed uint64, p int) []c09Part {
	return []c09Part{{"r", p, seed}, {"z", c09Lz4Chunk - p, 0}}
}

// c09TuneChunk solves for p: p pseudo-random bytes + (64 KiB - p) zeros compress to exactly `want` bytes.
func c09TuneChunk(seed uint64, want int) (int, bool) {
	clamp := func(p int) int {
		if p < 0 {
			return 0
		}
		if p > c09Lz4Chunk-16 {
			return c09Lz4Chunk - 16
		}
		return p
	}
	clen := func(p int) int { return c09ChunkCLen(c09PartsBytes(c09TunedChunk(seed, p))) }
	p := clamp(want - want/255 - 8)
	for try := 0; try < 16; try++ {
		got := clen(p)
		if got == want {
			return p, true
		}
		q := clamp(p + want - got)
		if q == p {
			break
		}
		p = q
	}
	for d := -48; d <= 48; d++ {
		if q := clamp(p + d); clen(q) == want {
			return q, true
		}
	}
	return 0, false
}

var c09AlignedLayouts = []string{"tuned-first", "tuned-last", "mixed"}

// c09AlignedParts builds a content whose LZ4 frame has a data-block boundary exactly at frame offset
// good*blockSize (= where sealed block `good` starts), followed by `tail` pseudo-random bytes.
// prefixLen = number of content bytes in front of that boundary.
func c09AlignedParts(seed uint64, good, layout, tail int) (parts []c09Part, prefixLen int, ok bool) {
	fm := c09Fmt()
	target := good * fm.blockSize
	pattern := []string{"r"}
	if layout == 2 {
		pattern = []string{"z", "t", "r", "r", "r", "z", "r", "r", "t", "r"}
	}
	sum := c09Lz4Boundaries(c09Lz4Frame(nil))[0] // frame header (magic + descriptor): where the first data block starts
	var chunks [][]c09Part
	var tuned []c09Part
	for i := 0; i < 64 && tuned == nil; i++ {
		need := target - sum - 4 // size the data block of the last chunk must have
		if need < 16 {
			return nil, 0, false
		}
		part := c09Part{pattern[i%len(pattern)], c09Lz4Chunk, seed*1000 + uint64(i)}
		if c := c09ChunkCLen(part.bytes()); c >= 0 && need-(4+c) >= 2000 {
			chunks = append(chunks, []c09Part{part})
			sum += 4 + c
			continue
		}
		if need <= c09Lz4Chunk {
			if p, found := c09TuneChunk(seed*1000+500, need); found {
				tuned = c09TunedChunk(seed*1000+500, p)
				break
			}
		}
		// out of the reach of one tuned chunk: lay down a half-compressible chunk first
		half := c09TunedChunk(seed*1000+uint64(i), 30000)
		c := c09ChunkCLen(c09PartsBytes(half))
		if c < 0 || need-(4+c) < 2000 {
			return nil, 0, false
		}
		chunks = append(chunks, half)
		sum += 4 + c
	}
	if tuned == nil {
		return nil, 0, false
	}
	if layout == 0 {
		chunks = append([][]c09Part{tuned}, chunks...)
	} else {
		chunks = append(chunks, tuned)
	}
	for _, ch := range chunks {
		parts = append(parts, ch...)
	}
	prefixLen = len(chunks) * c09Lz4Chunk
	parts = append(parts, c09Part{"r", tail, seed*1000 + 999})
	// the construction is checked on the frame of the whole content
	frame := c09Lz4Frame(c09PartsBytes(parts))
	hit := false
	for _, b := range c09Lz4Boundaries(frame) {
		if b == target && b+4 < len(frame)-4 {
			hit = true
		}
	}
	return parts, prefixLen, hit
}

// c09AlignedBuild tries a few content seeds (deterministically) until the construction succeeds.
func c09AlignedBuild(seed uint64, good, layout, tail int) (parts []c09Part, prefixLen int, used uint64, ok bool) {
	for k := uint64(0); k < 4; k++ {
		if parts, prefixLen, ok = c09AlignedParts(seed+k*7919, good, layout, tail); ok {
			return parts, prefixLen, seed + k*7919, true
		}
	}
	return nil, 0, seed, false
}

// alignedSweep: the whole corruption sweep on one aligned content (or one mutation of it, for replays).
func (o *c09Run) alignedSweep(seed uint64, good, layout, tail int, onlyMut string) {
	fm := c09Fmt()
	parts, prefixLen, used, ok := c09AlignedBuild(seed, good, layout, tail)
	if !ok {
		o.inc(fmt.Sprintf("aligned.construction-failed.good=%d.layout=%d", good, layout))
		return
	}
	b := c09PartsBytes(parts)
	env := newC09Env(0)
	defer env.close()
	id := storeID(1)
	baseArgs := fmt.Sprintf("-case aligned -good %d -layout %d -tail %d -cseed %d", good, layout, tail, seed)
	if err := env.st.Set(id, bytes.NewReader(b)); err != nil {
		o.violate("roundtrip-set-error", fmt.Sprintf("Set failed: %v", err), baseArgs)
		return
	}
	orig, err := os.ReadFile(env.path(id))
	if err != nil {
		panic(err)
	}
	_, blocks := c09SplitBlocks(orig)
	if len(blocks) <= good {
		o.inc("aligned.too-few-blocks")
		return
	}
	o.inc(fmt.Sprintf("aligned.base.good=%d.layout=%s.blocks=%d", good, c09AlignedLayouts[layout], len(blocks)))
	what := fmt.Sprintf("aligned content %s (content seed %d): %d chunks of 64 KiB then %d pseudo-random bytes; its LZ4 frame has a data-block boundary at offset %d = %d x blockSize, "+
		"i.e. sealed block %d of the file starts where an LZ4 data block starts (%d content bytes in front of it)",
		c09AlignedLayouts[layout], used, prefixLen/c09Lz4Chunk, tail, good*fm.blockSize, good, good, prefixLen)
	muts := c09MutationsFor(orig)
	if onlyMut != "" {
		muts = []string{onlyMut}
	}
	for _, m := range muts {
		o.corruptBytes(env, b, what, baseArgs+" -mut "+m, "aligned", m, orig)
	}
}

func (o *c09Run) alignedSweeps(seed uint64, thorough bool) {
	fm := c09Fmt()
	rounds := 1
	if thorough {
		rounds = 3
	}
	for r := 0; r < rounds; r++ {
		for good := 1; good <= 3; good++ {
			for layout := range c09AlignedLayouts {
				// one or two sealed blocks behind the coinciding boundary
				tail := 90000 + int((seed*31+uint64(good*7+layout+r*3))%60000)
				if (layout+good+r)%2 == 1 {
					tail += fm.blockSize
				}
				o.alignedSweep(seed*10+uint64(r), good, layout, tail, "")
			}
		}
	}
}
