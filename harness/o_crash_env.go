package main

// C07 scenario engine: a whole server on a given directory with the recording / fault-injecting
// interposers, a connector whose message literals survive a process restart (files under <dir>/remote),
// the scripted prefix, the marked operations, and the canonical IMAP-level view of the account.

import (
	"context"
	"crypto/sha256"
	"encoding/base64"
	"encoding/hex"
	"fmt"
	"net"
	"os"
	"path/filepath"
	"regexp"
	"sort"
	"strconv"
	"strings"
	"sync/atomic"
	"time"

	"github.com/ProtonMail/gluon"
	"github.com/ProtonMail/gluon/connector"
	"github.com/ProtonMail/gluon/db"
	"github.com/ProtonMail/gluon/imap"
)

// ---- connector with durable literals --------------------------------------------------------

// c07Conn is connector.Dummy plus a "remote" that survives the death of the process: every literal the
// connector has seen (created through IMAP or announced by the remote) is kept in <dir>/remote/<id>,
// so that a restarted server can re-download it through GetMessageLiteral.
type c07Conn struct {
	*connector.Dummy
	dir string
	// serve: answer GetMessageLiteral (re-download of a lost cache file). Only the `redownload` scenario needs it;
	// everywhere else the remote side has NOTHING to offer, so that a cache file gluon has lost or removed although
	// its message is still listed shows up as a message that cannot be fetched (live and after the restart).
	serve bool
}

func (c *c07Conn) remotePath(id imap.MessageID) string {
	return filepath.Join(c.dir, "remote", hex.EncodeToString([]byte(id)))
}

func (c *c07Conn) persist(id imap.MessageID, literal []byte) {
	_ = os.MkdirAll(filepath.Join(c.dir, "remote"), 0o755)
	_ = os.WriteFile(c.remotePath(id), literal, 0o644)
}

func (c *c07Conn) CreateMessage(ctx context.Context, w connector.IMAPStateWrite, mboxID imap.MailboxID, literal []byte, flags imap.FlagSet, date time.Time) (imap.Message, []byte, error) {
	m, l, err := c.Dummy.CreateMessage(ctx, w, mboxID, literal, flags, date)
	if err == nil {
		c.persist(m.ID, l)
	}
	return m, l, err
}

func (c *c07Conn) GetMessageLiteral(ctx context.Context, id imap.MessageID) ([]byte, error) {
	if !c.serve {
		return nil, connector.ErrNoSuchMessage
	}
	if b, err := c.Dummy.GetMessageLiteral(ctx, id); err == nil {
		return b, nil
	}
	b, err := os.ReadFile(c.remotePath(id))
	if err != nil {
		return nil, connector.ErrNoSuchMessage
	}
	return b, nil
}

type c07UIDGen struct{ n uint32 }

func (g *c07UIDGen) Generate() (imap.UID, error) { return imap.UID(atomic.AddUint32(&g.n, 1)), nil }

// ---- environment ---------------------------------------------------------------------------

type c07Env struct {
	sys  *Sys
	ip   *Interposer
	conn *c07Conn
	c    *Client // main session (selected on mb1 after the prefix)
	seed uint64
	inst int
}

var c07Flags = imap.NewFlagSet(imap.FlagSeen, imap.FlagFlagged, imap.FlagDeleted, imap.FlagAnswered, imap.FlagDraft)

// newC07Sys is NewSys (sys.go) with the interposers and the durable connector. userID == "" creates the user.
func newC07Sys(dir, userID string, uidBase uint32, fault Fault) (*c07Env, error) {
	ip := NewInterposer(fault)
	rec := &panicRecorder{}
	srv, err := gluon.New(
		gluon.WithDataDir(filepath.Join(dir, "store")),
		gluon.WithDatabaseDir(filepath.Join(dir, "db")),
		gluon.WithDelimiter("/"),
		gluon.WithPanicHandler(rec),
		gluon.WithDBClient(NewIPDB(ip)),
		gluon.WithStoreBuilder(NewIPStoreBuilder(ip)),
		gluon.WithUIDValidityGenerator(&c07UIDGen{n: uidBase}),
	)
	if err != nil {
		return nil, err
	}
	dummy := connector.NewDummy([]string{"user"}, []byte(sysPassword), time.Hour, c07Flags, c07Flags, imap.NewFlagSet())
	dummy.SetUpdatesAllowedToFail(true)
	conn := &c07Conn{Dummy: dummy, dir: dir}
	ctx, cancel := context.WithCancel(context.Background())
	if userID == "" {
		userID, err = srv.AddUser(ctx, conn, []byte("passphrase"))
	} else {
		_, err = srv.LoadUser(ctx, conn, userID, []byte("passphrase"))
	}
	if err != nil {
		cancel()
		return nil, fmt.Errorf("add/load user: %w", err)
	}
	if err := dummy.Sync(ctx); err != nil {
		cancel()
		return nil, err
	}
	ln, err := net.Listen("tcp", "127.0.0.1:0")
	if err != nil {
		cancel()
		return nil, err
	}
	if err := srv.Serve(ctx, ln); err != nil {
		cancel()
		return nil, err
	}
	go func() {
		for range srv.GetErrorCh() {
		}
	}()
	sys := &Sys{Server: srv, Conn: dummy, UserID: userID, Addr: ln.Addr().String(), Dir: dir, cancel: cancel, ln: ln, Panics: rec}
	return &c07Env{sys: sys, ip: ip, conn: conn}, nil
}

// ---- messages ------------------------------------------------------------------------------

// c07Body: deterministic text of about n bytes (base64 of splitmix64 output: compresses to ~3/4).
func c07Body(seed uint64, marker string, n int) string {
	if n <= 0 {
		return "body of " + marker
	}
	h := sha256.Sum256([]byte(marker))
	r := NewRng(seed ^ uint64(h[0])<<8 ^ uint64(h[1]))
	raw := make([]byte, n*3/4+3)
	for i := 0; i+8 <= len(raw); i += 8 {
		x := r.U64()
		for k := 0; k < 8; k++ {
			raw[i+k] = byte(x >> (8 * k))
		}
	}
	s := base64.StdEncoding.EncodeToString(raw)
	var b strings.Builder
	for i := 0; i < len(s) && b.Len() < n; i += 76 {
		j := i + 76
		if j > len(s) {
			j = len(s)
		}
		b.WriteString(s[i:j])
		b.WriteString("\r\n")
	}
	return b.String()
}

func (e *c07Env) msg(marker string, size int) []byte {
	return SimpleMessage(marker, c07Body(e.seed, marker, size))
}

// sizes per instance: 0 small, 1 a few LZ4 blocks, 2.. around the store block size (64*4096 bytes of compressed data)
func c07Size(inst int) int {
	switch inst {
	case 0:
		return 0
	case 1:
		return 70_000
	case 2:
		return 262_144*4/3 + 2000 // compressed size just above one store block
	case 3:
		return 262_144*4/3 - 6000 // just below
	default:
		return 700_000
	}
}

func c07Mailbox(id string) imap.Mailbox {
	return imap.Mailbox{ID: imap.MailboxID(id), Name: strings.Split(id, "/"), Flags: c07Flags, PermanentFlags: c07Flags, Attributes: imap.NewFlagSet()}
}

func (e *c07Env) must(rep Reply, what string) error {
	if rep.Err != nil || rep.Status != "OK" {
		return fmt.Errorf("%s: status=%q err=%v tagged=%q", what, rep.Status, rep.Err, rep.Tagged)
	}
	return nil
}

func (e *c07Env) connCreate(id string, marker string, size int, flags imap.FlagSet, mboxes ...imap.MailboxID) error {
	lit := e.msg(marker, size)
	e.conn.persist(imap.MessageID(id), lit)
	return e.sys.Conn.MessageCreated(imap.Message{ID: imap.MessageID(id), Flags: flags, Date: time.Date(2020, 1, 2, 3, 4, 5, 0, time.UTC)}, lit, mboxes)
}

// prefix: the acknowledged history every scenario starts from.
func (e *c07Env) prefix(op string) error {
	for _, m := range []string{"mb1", "mb2"} {
		if err := e.sys.Conn.MailboxCreated(c07Mailbox(m)); err != nil {
			return err
		}
	}
	if err := e.sys.Barrier(); err != nil {
		return err
	}
	c, err := e.sys.Dial("A")
	if err != nil {
		return err
	}
	e.c = c
	if err := e.must(c.Login("user"), "login"); err != nil {
		return err
	}
	for _, cmd := range []string{"CREATE p/q", "UNSUBSCRIBE mb2"} {
		if err := e.must(c.Cmd(cmd), cmd); err != nil {
			return err
		}
	}
	type ap struct {
		mbox, flags, marker string
		size                int
	}
	for _, a := range []ap{{"INBOX", `\Seen`, "m1", 0}, {"mb1", `\Flagged`, "m2", 0}, {"mb1", "", "m3", 0}, {"mb1", `\Answered`, "m4", c07Size(e.inst)}, {"mb2", "", "m5", 0}} {
		if err := e.must(c.Append(a.mbox, a.flags, e.msg(a.marker, a.size)), "append "+a.marker); err != nil {
			return err
		}
	}
	if err := e.connCreate("c1", "c1", 0, imap.NewFlagSet(imap.FlagFlagged), "0"); err != nil {
		return err
	}
	if err := e.sys.Barrier(); err != nil {
		return err
	}
	for _, cmd := range []string{"SELECT mb1", `STORE 2 +FLAGS (\Deleted)`} {
		if err := e.must(c.Cmd(cmd), cmd); err != nil {
			return err
		}
	}
	// per-operation extensions of the prefix
	switch op {
	case "expunge":
		if e.inst == 1 {
			if err := e.must(c.Cmd(`STORE 1:3 +FLAGS (\Deleted)`), "store deleted"); err != nil {
				return err
			}
		}
	case "cdeleted":
		if e.inst >= 1 {
			if err := e.sys.Conn.MessageAdded("c1", "mb1"); err != nil {
				return err
			}
		}
	case "logout":
		if err := e.sys.Conn.MessageDeleted("c1"); err != nil {
			return err
		}
		if e.inst >= 1 {
			if err := e.connCreate("c9", "c9", c07Size(e.inst), imap.NewFlagSet(), "mb2"); err != nil {
				return err
			}
			if err := e.sys.Barrier(); err != nil {
				return err
			}
			if err := e.sys.Conn.MessageDeleted("c9"); err != nil {
				return err
			}
		}
	case "dupcopy":
		// c1 is in INBOX and in mb1 (there: sequence number 4): COPY / MOVE towards a mailbox that already holds it
		if err := e.sys.Conn.MessageAdded("c1", "mb1"); err != nil {
			return err
		}
	case "rename2", "delete2":
		// inferiors WITH messages: mb1/kid below the selected mailbox, INBOX/kid below INBOX (not for rename2 0:
		// RENAME INBOX without inferiors)
		kids := []string{"mb1/kid", "INBOX/kid"}
		if op == "rename2" && e.inst == 0 {
			kids = kids[:1]
		}
		for k, kid := range kids {
			if err := e.must(c.Cmd("CREATE "+kid), "create "+kid); err != nil {
				return err
			}
			if err := e.must(c.Append(kid, `\Flagged`, e.msg(fmt.Sprintf("k%d", k), 0)), "append to "+kid); err != nil {
				return err
			}
		}
	case "redownload":
		// the cache loses the file of the first message of mb1 (m2), or of the big one (m4)
		seq := 1
		if e.inst >= 1 {
			seq = 3
		}
		rep := c.Cmd(fmt.Sprintf("FETCH %d BODY.PEEK[HEADER.FIELDS (X-Pm-Gluon-Id)]", seq))
		if err := e.must(rep, "fetch id"); err != nil {
			return err
		}
		m := regexp.MustCompile(`(?i)X-Pm-Gluon-Id: *([0-9a-f-]+)`).FindStringSubmatch(strings.Join(rep.Untagged, "\n"))
		if m == nil {
			return fmt.Errorf("no internal id in %q", rep.Untagged)
		}
		if err := os.Remove(filepath.Join(e.ip.StorePath, m[1])); err != nil {
			return err
		}
	}
	if err := e.sys.Barrier(); err != nil {
		return err
	}
	return e.must(c.Cmd("NOOP"), "noop")
}

var c07Ops = []string{"append", "copy", "move", "expunge", "create", "delete", "rename", "store", "subscribe",
	"ccreate", "cflags", "cmailboxes", "cdeleted", "cupdated", "logout", "redownload",
	// operations on objects the server ALREADY HAS (a message named again by the connector, a message copied /
	// moved into a mailbox that holds it), and mailbox operations on non-empty hierarchies
	"cknown", "dupcopy", "rename2", "delete2"}

// c07OpText: what the marked operation of (op, inst) is, for replay files and reports.
func c07OpText(op string, inst int) string {
	i := inst
	if i > 2 {
		i = 2
	}
	t := map[string][3]string{
		"append":     {`APPEND mb1 (\Seen) <mA>`, `APPEND mb2 <mA 70kB>`, `APPEND INBOX (\Draft) <mA, store-block sized>`},
		"copy":       {"COPY 1 mb2", "COPY 1:3 INBOX", "UID COPY 3 mb2"},
		"move":       {"MOVE 1 mb2", "MOVE 1:3 INBOX", "UID MOVE 3 mb2"},
		"expunge":    {"EXPUNGE (1 message)", "EXPUNGE (3 messages)", "CLOSE"},
		"create":     {"CREATE newbox", "CREATE x/y/z", "CREATE p/q/r"},
		"delete":     {"DELETE mb2", "DELETE p/q", "DELETE mb1 (selected, subscribed)"},
		"rename":     {"RENAME mb2 mb3", "RENAME p x", "RENAME INBOX old/inbox"},
		"store":      {`STORE 1 +FLAGS (\Answered)`, `STORE 1:3 FLAGS (\Seen \Draft)`, `STORE 1 -FLAGS (\Flagged)`},
		"subscribe":  {"SUBSCRIBE mb2", "UNSUBSCRIBE mb1", "UNSUBSCRIBE INBOX"},
		"ccreate":    {"connector MessagesCreated c2 -> mb1", "connector MessagesCreated c2 -> mb1,mb2", "connector MessagesCreated c2 (big) -> INBOX"},
		"cflags":     {"connector MessageFlagsUpdated c1 +seen", "connector MessageFlagsUpdated c1 -flagged", "connector MessageFlagsUpdated c1 +seen"},
		"cmailboxes": {"connector MessageMailboxesUpdated c1 +mb2", "connector MessageMailboxesUpdated c1 -INBOX", "connector MessageMailboxesUpdated c1 +mb1"},
		"cdeleted":   {"connector MessageDeleted c1", "connector MessageDeleted c1 (in INBOX and mb1)", "connector MessageDeleted c1 (in INBOX and mb1)"},
		"cupdated":   {"connector MessageUpdated c1 new literal -> INBOX", "connector MessageUpdated c1 new literal -> INBOX,mb1", "connector MessageUpdated c1 new big literal -> INBOX"},
		"logout":     {"LOGOUT after connector MessageDeleted c1", "LOGOUT after MessageDeleted c1,c9", "LOGOUT after MessageDeleted c1,c9"},
		"startup":    {"start-up of the user (one row marked deleted, one stale cache file)", "start-up of the user (marked row was in two mailboxes, one stale cache file)", "start-up of the user (marked row was in two mailboxes, one stale cache file)"},
		"cknown":     {"connector MessagesCreated c1 (already known, in INBOX) -> mb2", "connector MessagesCreated batch [c1 known, c2 new, c2 again, c1 again] -> mb1", "connector MessagesCreated c1 (already known) -> INBOX (where it already is)"},
		"dupcopy":    {"COPY 4 INBOX (c1 is already in INBOX)", "MOVE 4 INBOX (c1 is already in INBOX)", "COPY 1:4 INBOX (one of four already there)"},
		"rename2":    {"RENAME INBOX arch (INBOX not empty, no inferiors)", "RENAME mb1 mbx (selected, holds messages, inferior mb1/kid holds a message)", "RENAME INBOX arch (INBOX not empty, inferior INBOX/kid holds a message)"},
		"delete2":    {"DELETE mb1/kid (holds a message)", "DELETE mb1 (selected, holds messages, has the inferior mb1/kid)", "DELETE INBOX/kid (holds a message)"},
		"redownload": {"FETCH 1 BODY.PEEK[] (cache file lost)", "FETCH 3 BODY.PEEK[] (cache file lost, 70kB)", "FETCH 3 BODY.PEEK[] (cache file lost, big)"},
	}
	return t[op][i]
}

// runOp performs the marked operation; returns its outcome word (OK/NO/BAD/err...).
func (e *c07Env) runOp(op string) (string, error) {
	i := e.inst
	if i > 2 {
		i = 2
	}
	c := e.c
	cmd := func(s ...string) (string, error) {
		rep := c.Cmd(s[i])
		if rep.Err != nil {
			return "lost", rep.Err
		}
		return rep.Status, nil
	}
	flush := func(err error) (string, error) {
		if err != nil {
			return "err", err
		}
		e.sys.Conn.Flush()
		// the open session applies the resulting state updates in its own goroutine (State.ApplyUpdate: one more
		// transaction per update that passes its filter): wait for it, so that these steps belong to the operation
		ctx, cancel := context.WithTimeout(context.Background(), 10*time.Second)
		defer cancel()
		_ = e.sys.Server.VerifBarrier(ctx, e.sys.UserID)
		return "flushed", nil
	}
	switch op {
	case "append":
		var rep Reply
		switch i {
		case 0:
			rep = c.Append("mb1", `\Seen`, e.msg("mA", 0))
		case 1:
			rep = c.Append("mb2", "", e.msg("mA", 70_000))
		default:
			rep = c.Append("INBOX", `\Draft`, e.msg("mA", c07Size(e.inst)))
		}
		if rep.Err != nil {
			return "lost", rep.Err
		}
		return rep.Status, nil
	case "copy":
		return cmd("COPY 1 mb2", "COPY 1:3 INBOX", "UID COPY 3 mb2")
	case "move":
		return cmd("MOVE 1 mb2", "MOVE 1:3 INBOX", "UID MOVE 3 mb2")
	case "expunge":
		return cmd("EXPUNGE", "EXPUNGE", "CLOSE")
	case "create":
		return cmd("CREATE newbox", "CREATE x/y/z", "CREATE p/q/r")
	case "delete":
		return cmd("DELETE mb2", "DELETE p/q", "DELETE mb1")
	case "rename":
		return cmd("RENAME mb2 mb3", "RENAME p x", "RENAME INBOX old/inbox")
	case "store":
		return cmd(`STORE 1 +FLAGS (\Answered)`, `STORE 1:3 FLAGS (\Seen \Draft)`, `STORE 1 -FLAGS (\Flagged)`)
	case "subscribe":
		return cmd("SUBSCRIBE mb2", "UNSUBSCRIBE mb1", "UNSUBSCRIBE INBOX")
	case "ccreate":
		switch i {
		case 0:
			return flush(e.connCreate("c2", "c2", 0, imap.NewFlagSet(imap.FlagSeen), "mb1"))
		case 1:
			return flush(e.connCreate("c2", "c2", 70_000, imap.NewFlagSet(), "mb1", "mb2"))
		default:
			return flush(e.connCreate("c2", "c2", c07Size(e.inst), imap.NewFlagSet(), "0"))
		}
	case "cknown":
		date := time.Date(2020, 1, 2, 3, 4, 5, 0, time.UTC)
		c1 := imap.Message{ID: "c1", Flags: imap.NewFlagSet(imap.FlagFlagged), Date: date}
		l1 := e.msg("c1", 0)
		switch i {
		case 0:
			return flush(e.sys.Conn.MessageCreated(c1, l1, []imap.MailboxID{"mb2"}))
		case 1:
			c2 := imap.Message{ID: "c2", Flags: imap.NewFlagSet(imap.FlagSeen), Date: date}
			l2 := e.msg("c2", 0)
			e.conn.persist("c2", l2)
			mb := []imap.MailboxID{"mb1"}
			return flush(e.sys.Conn.MessagesCreated([]imap.Message{c1, c2, c2, c1}, [][]byte{l1, l2, l2, l1}, [][]imap.MailboxID{mb, mb, mb, mb}))
		default:
			return flush(e.sys.Conn.MessageCreated(c1, l1, []imap.MailboxID{"0"}))
		}
	case "dupcopy":
		return cmd("COPY 4 INBOX", "MOVE 4 INBOX", "COPY 1:4 INBOX")
	case "rename2":
		return cmd("RENAME INBOX arch", "RENAME mb1 mbx", "RENAME INBOX arch")
	case "delete2":
		return cmd("DELETE mb1/kid", "DELETE mb1", "DELETE INBOX/kid")
	case "cflags":
		if i == 1 {
			return flush(e.sys.Conn.MessageFlagged("c1", false))
		}
		return flush(e.sys.Conn.MessageSeen("c1", true))
	case "cmailboxes":
		switch i {
		case 0:
			return flush(e.sys.Conn.MessageAdded("c1", "mb2"))
		case 1:
			return flush(e.sys.Conn.MessageRemoved("c1", "0"))
		default:
			return flush(e.sys.Conn.MessageAdded("c1", "mb1"))
		}
	case "cdeleted":
		return flush(e.sys.Conn.MessageDeleted("c1"))
	case "cupdated":
		size := 0
		if i == 2 {
			size = c07Size(e.inst)
		}
		lit := e.msg("c1-new", size)
		e.conn.persist("c1", lit)
		mb := []imap.MailboxID{"0"}
		if i == 1 {
			mb = append(mb, "mb1")
		}
		return flush(e.sys.Conn.MessageUpdated(imap.Message{ID: "c1", Flags: imap.NewFlagSet(imap.FlagFlagged), Date: time.Date(2020, 1, 2, 3, 4, 5, 0, time.UTC)}, lit, mb))
	case "logout":
		rep := c.Cmd("LOGOUT")
		// the state is released after the connection is gone: wait until the server has dropped it
		_ = rep
		deadline := time.Now().Add(10 * time.Second)
		for time.Now().Before(deadline) {
			if len(e.sys.Server.VerifStates(e.sys.UserID)) == 0 {
				break
			}
			time.Sleep(2 * time.Millisecond)
		}
		// removeState drops the state from the user's table first and deletes rows and files afterwards:
		// wait until no storage step has been recorded for a while
		last, since := e.ip.StepCount(), time.Now()
		for time.Now().Before(deadline) && time.Since(since) < 150*time.Millisecond {
			time.Sleep(5 * time.Millisecond)
			if n := e.ip.StepCount(); n != last {
				last, since = n, time.Now()
			}
		}
		return "OK", nil
	case "redownload":
		return cmd("FETCH 1 BODY.PEEK[]", "FETCH 3 BODY.PEEK[]", "FETCH 3 BODY.PEEK[]")
	}
	return "", fmt.Errorf("unknown op %q", op)
}

// ---- the IMAP-level view --------------------------------------------------------------------

type c07Msg struct {
	UID   int    `json:"uid"`
	Flags string `json:"flags"`
	Size  int    `json:"size"`
	Hash  string `json:"hash"` // sha256 of the literal without the X-Pm-Gluon-Id line; "ERR ..." if it cannot be fetched
}

type c07Mbox struct {
	Attrs       string   `json:"attrs"`
	UIDValidity int      `json:"uidvalidity"`
	UIDNext     int      `json:"uidnext"`
	Msgs        []c07Msg `json:"msgs"`
	Err         string   `json:"err,omitempty"`
}

type c07View struct {
	Mailboxes map[string]*c07Mbox `json:"mailboxes"`
	Subs      []string            `json:"subs"`
}

var (
	reList        = regexp.MustCompile(`^\* (?:LIST|LSUB) \(([^)]*)\) (?:"[^"]*"|NIL) (.*)$`)
	reUIDValidity = regexp.MustCompile(`\[UIDVALIDITY (\d+)\]`)
	reUIDNext     = regexp.MustCompile(`\[UIDNEXT (\d+)\]`)
	reGluonID     = regexp.MustCompile(`(?im)^X-Pm-Gluon-Id:[^\r\n]*\r?\n`)
	reBodyLit     = regexp.MustCompile(`BODY\[\] \{(\d+)\}\r\n`)
)

func unquoteMbox(s string) string {
	s = strings.TrimSpace(s)
	if len(s) >= 2 && s[0] == '"' && s[len(s)-1] == '"' {
		s = strings.ReplaceAll(strings.ReplaceAll(s[1:len(s)-1], `\"`, `"`), `\\`, `\`)
	}
	return s
}

func quoteMbox(s string) string {
	return `"` + strings.ReplaceAll(strings.ReplaceAll(s, `\`, `\\`), `"`, `\"`) + `"`
}

func stripGluonID(lit []byte) []byte {
	// only in the header
	s := string(lit)
	end := strings.Index(s, "\r\n\r\n")
	if end < 0 {
		end = len(s)
	} else {
		end += 2
	}
	return []byte(reGluonID.ReplaceAllString(s[:end], "") + s[end:])
}

func c07Hash(lit []byte) string {
	h := sha256.Sum256(stripGluonID(lit))
	return hex.EncodeToString(h[:8])
}

// observe reads the whole account through a fresh session.
func (e *c07Env) observe() (*c07View, error) {
	c, err := e.sys.Dial("V")
	if err != nil {
		return nil, err
	}
	defer c.Close()
	c.Timeout = 20 * time.Second
	if err := e.must(c.Login("user"), "login"); err != nil {
		return nil, err
	}
	v := &c07View{Mailboxes: map[string]*c07Mbox{}}
	rep := c.Cmd(`LIST "" "*"`)
	if err := e.must(rep, "list"); err != nil {
		return nil, err
	}
	for _, u := range rep.Untagged {
		if m := reList.FindStringSubmatch(u); m != nil {
			var attrs []string
			for _, a := range strings.Fields(m[1]) {
				// \Marked / \Unmarked only reflect \Recent (session bookkeeping, not acknowledged state)
				if !strings.EqualFold(a, `\Marked`) && !strings.EqualFold(a, `\Unmarked`) {
					attrs = append(attrs, a)
				}
			}
			sort.Strings(attrs)
			v.Mailboxes[unquoteMbox(m[2])] = &c07Mbox{Attrs: strings.Join(attrs, " "), UIDValidity: -1, UIDNext: -1}
		}
	}
	rep = c.Cmd(`LSUB "" "*"`)
	if err := e.must(rep, "lsub"); err != nil {
		return nil, err
	}
	for _, u := range rep.Untagged {
		if m := reList.FindStringSubmatch(u); m != nil {
			v.Subs = append(v.Subs, unquoteMbox(m[2]))
		}
	}
	sort.Strings(v.Subs)
	for _, name := range c07Keys(v.Mailboxes) {
		mb := v.Mailboxes[name]
		if strings.Contains(strings.ToLower(mb.Attrs), `\noselect`) {
			continue
		}
		rep := c.Cmd("EXAMINE " + quoteMbox(name))
		if rep.Err != nil {
			return nil, rep.Err
		}
		if rep.Status != "OK" {
			mb.Err = "examine: " + rep.Tagged
			continue
		}
		all := strings.Join(rep.Untagged, "\n") + "\n" + rep.Tagged
		if m := reUIDValidity.FindStringSubmatch(all); m != nil {
			mb.UIDValidity, _ = strconv.Atoi(m[1])
		}
		if m := reUIDNext.FindStringSubmatch(all); m != nil {
			mb.UIDNext, _ = strconv.Atoi(m[1])
		}
		msgs, rep2 := c.FetchAll()
		if rep2.Err != nil {
			return nil, rep2.Err
		}
		if rep2.Status != "OK" && len(msgs) == 0 && !strings.Contains(all, " 0 EXISTS") {
			mb.Err = "fetch: " + rep2.Tagged
		}
		for _, fm := range msgs {
			var fl []string
			for _, f := range fm.Flags {
				if !strings.EqualFold(f, `\Recent`) {
					fl = append(fl, strings.ToLower(f))
				}
			}
			sort.Strings(fl)
			cm := c07Msg{UID: fm.UID, Flags: strings.Join(fl, " ")}
			// one message at a time: a literal that cannot be loaded fails only its own FETCH
			r3 := c.Cmd(fmt.Sprintf("UID FETCH %d (BODY.PEEK[])", fm.UID))
			if r3.Err != nil {
				return nil, r3.Err
			}
			got := false
			for _, u := range r3.Untagged {
				if loc := reBodyLit.FindStringSubmatchIndex(u); loc != nil {
					n, _ := strconv.Atoi(u[loc[2]:loc[3]])
					if loc[1]+n <= len(u) {
						lit := []byte(u[loc[1] : loc[1]+n])
						cm.Size, cm.Hash, got = n, c07Hash(lit), true
					}
				} else if strings.Contains(u, `BODY[] ""`) || strings.Contains(u, "BODY[] NIL") {
					cm.Size, cm.Hash, got = 0, c07Hash(nil), true
				}
			}
			if !got {
				cm.Hash = "ERR " + r3.Status
			}
			mb.Msgs = append(mb.Msgs, cm)
		}
		sort.Slice(mb.Msgs, func(i, j int) bool { return mb.Msgs[i].UID < mb.Msgs[j].UID })
	}
	_ = c.Cmd("LOGOUT")
	return v, nil
}

func (v *c07View) canon() string {
	var b strings.Builder
	for _, name := range c07Keys(v.Mailboxes) {
		mb := v.Mailboxes[name]
		fmt.Fprintf(&b, "%s [%s] uv=%d next=%d", name, mb.Attrs, mb.UIDValidity, mb.UIDNext)
		if mb.Err != "" {
			fmt.Fprintf(&b, " ERR(%s)", mb.Err)
		}
		for _, m := range mb.Msgs {
			fmt.Fprintf(&b, " {%d (%s) %d %s}", m.UID, m.Flags, m.Size, m.Hash)
		}
		b.WriteString("\n")
	}
	fmt.Fprintf(&b, "subs: %s\n", strings.Join(v.Subs, ","))
	return b.String()
}

// ---- audit of the durable state (after start-up) ------------------------------------------------

type c07Audit struct {
	StoreFiles    []string `json:"store_files"`
	Rows          []string `json:"rows"`
	MarkedDeleted []string `json:"marked_deleted"`
	Unreferenced  []string `json:"unreferenced"` // cache files without a message row
	NoFile        []string `json:"no_file"`      // rows without a cache file (must be re-downloadable)
}

func (e *c07Env) audit() (*c07Audit, error) {
	a := &c07Audit{}
	ents, err := os.ReadDir(e.ip.StorePath)
	if err != nil && !os.IsNotExist(err) {
		return nil, err
	}
	files := map[string]bool{}
	for _, en := range ents {
		if !en.IsDir() {
			a.StoreFiles = append(a.StoreFiles, en.Name())
			files[en.Name()] = true
		}
	}
	rows := map[string]bool{}
	if err := e.ip.RealRead(func(ctx context.Context, rd db.ReadOnly) error {
		ids, err := rd.GetAllMessagesIDsAsMap(ctx)
		if err != nil {
			return err
		}
		for id := range ids {
			a.Rows = append(a.Rows, id.String())
			rows[id.String()] = true
		}
		del, err := rd.GetMessageIDsMarkedAsDelete(ctx)
		if err != nil {
			return err
		}
		for _, id := range del {
			a.MarkedDeleted = append(a.MarkedDeleted, id.String())
		}
		return nil
	}); err != nil {
		return nil, err
	}
	sort.Strings(a.StoreFiles)
	sort.Strings(a.Rows)
	sort.Strings(a.MarkedDeleted)
	for _, f := range a.StoreFiles {
		if !rows[f] {
			a.Unreferenced = append(a.Unreferenced, f)
		}
	}
	for _, r := range a.Rows {
		if !files[r] {
			a.NoFile = append(a.NoFile, r)
		}
	}
	return a, nil
}

func c07Keys(m map[string]*c07Mbox) []string {
	var k []string
	for x := range m {
		k = append(k, x)
	}
	sort.Strings(k)
	return k
}
