package main

// Scenario `idle order` of oracle c11session (C11, "exactly one completion result per line", seen from the
// client that has to attribute what it reads): session A is idling on INBOX; session B appends a message;
// the EXISTS for A sits in the IDLE sender's bulk buffer (gluon's default bulk time, 500 ms); A sends DONE.
// Everything the server has buffered for A must be written BEFORE `<tag> OK IDLE`; after the completion
// nothing may arrive until A sends its next command (/repo 072b3ea; before it the buffered responses were
// flushed by a goroutine racing the completion and could land behind it, in the middle of the next
// command's responses). `cause=idle-response-after-completion`.

import (
	"bufio"
	"fmt"
	"net"
	"strings"
	"time"
)

type c11sLineConn struct {
	c net.Conn
	r *bufio.Reader
}

func c11sDialLines(addr string) (*c11sLineConn, error) {
	c, err := net.DialTimeout("tcp", addr, 2*time.Second)
	if err != nil {
		return nil, err
	}
	lc := &c11sLineConn{c: c, r: bufio.NewReader(c)}
	if _, err := lc.line(2 * time.Second); err != nil {
		c.Close()
		return nil, err
	}
	return lc, nil
}

func (lc *c11sLineConn) line(d time.Duration) (string, error) {
	_ = lc.c.SetReadDeadline(time.Now().Add(d))
	l, err := lc.r.ReadString('\n')
	return strings.TrimRight(l, "\r\n"), err
}

func (lc *c11sLineConn) send(s string) error {
	_ = lc.c.SetWriteDeadline(time.Now().Add(2 * time.Second))
	_, err := lc.c.Write([]byte(s))
	return err
}

// until reads lines until one starts with prefix; returns the lines before it and that line.
func (lc *c11sLineConn) until(prefix string, d time.Duration) (before []string, hit string, err error) {
	for {
		l, err := lc.line(d)
		if err != nil {
			return before, "", err
		}
		if strings.HasPrefix(l, prefix) {
			return before, l, nil
		}
		before = append(before, l)
	}
}

// c11sIdleOrder runs the scenario once; "" = fine, otherwise what was wrong. stats gets idle.* counters.
func c11sIdleOrder(addr string, round int, stats map[string]int) (cause, desc string) {
	fail := func(what string, err error) (string, string) {
		stats["idle.scenario-incomplete"]++
		return "", fmt.Sprintf("%s: %v", what, err)
	}
	a, err := c11sDialLines(addr)
	if err != nil {
		return fail("A connect", err)
	}
	defer a.c.Close()
	b, err := c11sDialLines(addr)
	if err != nil {
		return fail("B connect", err)
	}
	defer b.c.Close()
	for _, lc := range []*c11sLineConn{a, b} {
		_ = lc.send("l LOGIN user " + sysPassword + "\r\n")
		if _, _, err := lc.until("l OK", 2*time.Second); err != nil {
			return fail("LOGIN", err)
		}
	}
	_ = a.send("s SELECT INBOX\r\n")
	if _, _, err := a.until("s OK", 2*time.Second); err != nil {
		return fail("A SELECT", err)
	}
	_ = a.send("i IDLE\r\n")
	if _, _, err := a.until("+", 2*time.Second); err != nil {
		return fail("A IDLE", err)
	}
	msg := SimpleMessage(fmt.Sprintf("c11s-idle-%d", round), "x")
	_ = b.send(fmt.Sprintf("p APPEND INBOX {%d}\r\n", len(msg)))
	if _, _, err := b.until("+", 2*time.Second); err != nil {
		return fail("B APPEND continuation", err)
	}
	_ = b.send(string(msg) + "\r\n")
	if _, _, err := b.until("p OK", 5*time.Second); err != nil {
		return fail("B APPEND", err)
	}
	// the update reaches A's state and its EXISTS the sender's buffer; well inside the bulk time A ends the IDLE
	time.Sleep(100 * time.Millisecond)
	_ = a.send("DONE\r\n")
	before, hit, err := a.until("i ", 2*time.Second)
	if err != nil {
		return "cause=hang", fmt.Sprintf("idle order scenario: DONE was not answered within 2 s (%v); read so far %q", err, before)
	}
	if !strings.HasPrefix(hit, "i OK") {
		return "cause=model-mismatch", fmt.Sprintf("idle order scenario: DONE answered %q", hit)
	}
	existsBefore := false
	for _, l := range before {
		if strings.HasSuffix(l, " EXISTS") {
			existsBefore = true
		}
	}
	// nothing may follow the completion while A is silent: two bulk periods and a bit
	var trailing []string
	for {
		l, err := a.line(1200 * time.Millisecond)
		if err != nil {
			break
		}
		trailing = append(trailing, l)
	}
	stats["idle.scenarios"]++
	if len(trailing) > 0 {
		return "cause=idle-response-after-completion", fmt.Sprintf("idle order scenario: A idles on INBOX, B appends a message, 100 ms later A sends DONE: the server wrote %q, then `%s`, and AFTER that completion, with A silent, %q — responses buffered during IDLE must precede the completion that ends it", before, hit, trailing)
	}
	if existsBefore {
		stats["idle.exists-before-completion"]++
	} else {
		// the update had not reached the session before DONE: it must come with the next command
		_ = a.send("n NOOP\r\n")
		bf, _, err := a.until("n OK", 2*time.Second)
		if err != nil {
			return "cause=hang", fmt.Sprintf("idle order scenario: NOOP after IDLE not answered (%v)", err)
		}
		for _, l := range bf {
			if strings.HasSuffix(l, " EXISTS") {
				stats["idle.exists-with-next-command"]++
			}
		}
	}
	return "", ""
}
