package main

// Facts/DbClient.lean (C08): how the SQLite client is put together around the statements the model describes.
//
//   conn        what every connection of the database/sql pool is opened with: the options in the connection string
//               of getDatabaseConn (`_fk`, `_journal`, ...), the driver name and data source of sql.Open in NewClient,
//               the PRAGMAs Client.Init sends THROUGH THE POOL (they reach one connection), a SetMaxOpenConns on the
//               pool, PRAGMAs of a per-connection ConnectHook.  The model's FOREIGN KEY semantics (reference checks,
//               ON DELETE CASCADE / SET NULL) hold on a connection only if foreign keys are switched on for it.
//   delegations every method of the wrapper types of internal/db_impl/sqlite3/utils (ReadTracer, WriteTracer, DBWrapper,
//               TXWrapper, DebugQueryWrapper, DebugStmtWrapper): which method of which receiver field it calls, with
//               which arguments, and how the results come back.  A body of any other shape has no entry (`none`).
//   wirings     where client.go puts a wrapper around something: variable assigned, wrapper type, field, what goes in.

import (
	"fmt"
	"go/ast"
	"go/token"
	"strconv"
	"strings"
)

func init() { factGens = append(factGens, factGen{"DbClient", factsDbClient}) }

const dbcfPkg = "internal/db_impl/sqlite3"

type dbcfDeleg struct {
	recv, method string
	params       []string
	ok           bool
	field        string
	callee       string
	args         []string
	result       string
	file         string
	line         int
}

type dbcfWiring struct {
	fn, target, typ, field, value string
	line                          int
}

func dbcfStringLit(e ast.Expr) (string, bool) {
	if l, ok := e.(*ast.BasicLit); ok && l.Kind == token.STRING {
		if s, err := strconv.Unquote(l.Value); err == nil {
			return s, true
		}
	}
	return "", false
}

// dbcfTextOf: the text of a string expression: a literal, a `+` of texts, or fmt.Sprintf(literal, ...) with every
// verb replaced by `%`; ok=false for anything else.
func dbcfTextOf(e ast.Expr) (string, bool) {
	switch x := e.(type) {
	case *ast.BasicLit:
		return dbcfStringLit(x)
	case *ast.ParenExpr:
		return dbcfTextOf(x.X)
	case *ast.BinaryExpr:
		if x.Op == token.ADD {
			a, ok1 := dbcfTextOf(x.X)
			b, ok2 := dbcfTextOf(x.Y)
			if !ok1 {
				a = "%"
			}
			if !ok2 {
				b = "%"
			}
			return a + b, ok1 || ok2
		}
	case *ast.CallExpr:
		if sel, ok := x.Fun.(*ast.SelectorExpr); ok && sel.Sel.Name == "Sprintf" && len(x.Args) >= 1 {
			if f, ok := dbcfStringLit(x.Args[0]); ok {
				var b strings.Builder
				for i := 0; i < len(f); i++ {
					if f[i] == '%' && i+1 < len(f) {
						if f[i+1] == '%' {
							b.WriteString("%25")
						} else {
							b.WriteByte('%')
						}
						i++
						continue
					}
					b.WriteByte(f[i])
				}
				return b.String(), true
			}
		}
	}
	return "", false
}

func dbcfRecvName(fd *ast.FuncDecl) (typ, ident string) {
	if fd.Recv == nil || len(fd.Recv.List) != 1 {
		return "", ""
	}
	f := fd.Recv.List[0]
	t := f.Type
	if s, ok := t.(*ast.StarExpr); ok {
		t = s.X
	}
	if id, ok := t.(*ast.Ident); ok {
		typ = id.Name
	}
	if len(f.Names) == 1 {
		ident = f.Names[0].Name
	}
	return
}

// ---- conn ------------------------------------------------------------------------------------------------

type dbcfConn struct {
	dsnKnown     bool
	dsnText      string
	dsnOptions   [][2]string
	openDriver   string
	openUsesDsn  bool
	initPragmas  []string
	maxOpenConns string // Lean Option Nat
	connectHooks []string
}

func (c *factsCtx) dbcfConn(files []*ast.File) dbcfConn {
	out := dbcfConn{maxOpenConns: "none"}
	dsnFn := "getDatabaseConn"
	if fd := findFunc(files, dsnFn, false); fd != nil && fd.Body != nil {
		var rets []*ast.ReturnStmt
		ast.Inspect(fd.Body, func(n ast.Node) bool {
			if _, ok := n.(*ast.FuncLit); ok {
				return false
			}
			if r, ok := n.(*ast.ReturnStmt); ok {
				rets = append(rets, r)
			}
			return true
		})
		if len(rets) == 1 && len(rets[0].Results) == 1 {
			e := rets[0].Results[0]
			// a local variable assigned once: follow it
			if id, ok := e.(*ast.Ident); ok {
				var defs []ast.Expr
				ast.Inspect(fd.Body, func(n ast.Node) bool {
					if a, ok := n.(*ast.AssignStmt); ok {
						for i, l := range a.Lhs {
							if li, ok := l.(*ast.Ident); ok && li.Name == id.Name && i < len(a.Rhs) && len(a.Lhs) == len(a.Rhs) {
								defs = append(defs, a.Rhs[i])
							}
						}
					}
					return true
				})
				if len(defs) == 1 {
					e = defs[0]
				}
			}
			if txt, ok := dbcfTextOf(e); ok {
				out.dsnText = txt
				out.dsnKnown = true
				if i := strings.Index(txt, "?"); i >= 0 {
					for _, kv := range strings.Split(txt[i+1:], "&") {
						if kv == "" {
							continue
						}
						k, v, _ := strings.Cut(kv, "=")
						if strings.Contains(k, "%") {
							out.dsnKnown = false // an option whose name is computed
						}
						out.dsnOptions = append(out.dsnOptions, [2]string{k, v})
					}
				}
			}
		}
	}
	for _, f := range files {
		for _, d := range f.Decls {
			fd, ok := d.(*ast.FuncDecl)
			if !ok || fd.Body == nil {
				continue
			}
			recv, _ := dbcfRecvName(fd)
			ast.Inspect(fd.Body, func(n ast.Node) bool {
				switch x := n.(type) {
				case *ast.CallExpr:
					sel, ok := x.Fun.(*ast.SelectorExpr)
					if !ok {
						return true
					}
					switch {
					case fd.Name.Name == "NewClient" && recv == "" && sel.Sel.Name == "Open" && len(x.Args) == 2:
						if pk, ok := sel.X.(*ast.Ident); ok && pk.Name == "sql" {
							out.openDriver, _ = dbcfStringLit(x.Args[0])
							if call, ok := x.Args[1].(*ast.CallExpr); ok {
								if id, ok := call.Fun.(*ast.Ident); ok && id.Name == dsnFn {
									out.openUsesDsn = true
								}
							}
						}
					case fd.Name.Name == "NewClient" && recv == "" && sel.Sel.Name == "SetMaxOpenConns" && len(x.Args) == 1:
						if l, ok := x.Args[0].(*ast.BasicLit); ok && l.Kind == token.INT {
							out.maxOpenConns = "(some " + l.Value + ")"
						}
					case fd.Name.Name == "Init" && recv == "Client" && strings.HasPrefix(sel.Sel.Name, "Exec") && len(x.Args) >= 2:
						// c.db.ExecContext(ctx, "PRAGMA ...") - through the pool, not through a transaction
						if inner, ok := sel.X.(*ast.SelectorExpr); ok {
							if _, ok := inner.X.(*ast.Ident); ok {
								for _, a := range x.Args {
									if s, ok := dbcfStringLit(a); ok && strings.HasPrefix(strings.ToUpper(strings.TrimSpace(s)), "PRAGMA") {
										out.initPragmas = append(out.initPragmas, s)
									}
								}
							}
						}
					}
				case *ast.KeyValueExpr:
					// sqlite3.SQLiteDriver{ConnectHook: func(conn) error { conn.Exec("PRAGMA ...") }}
					if k, ok := x.Key.(*ast.Ident); ok && k.Name == "ConnectHook" {
						ast.Inspect(x.Value, func(m ast.Node) bool {
							if l, ok := m.(*ast.BasicLit); ok {
								if s, ok := dbcfStringLit(l); ok && strings.HasPrefix(strings.ToUpper(strings.TrimSpace(s)), "PRAGMA") {
									out.connectHooks = append(out.connectHooks, s)
								}
							}
							return true
						})
					}
				}
				return true
			})
		}
	}
	return out
}

// ---- delegations ---------------------------------------------------------------------------------------

// dbcfStructFields: field name -> type text, for every struct type of the files (embedded fields under their type name)
func (c *factsCtx) dbcfStructFields(files []*ast.File) map[string]map[string]string {
	out := map[string]map[string]string{}
	embedded := map[string][]string{}
	for _, f := range files {
		for _, d := range f.Decls {
			gd, ok := d.(*ast.GenDecl)
			if !ok || gd.Tok != token.TYPE {
				continue
			}
			for _, s := range gd.Specs {
				ts := s.(*ast.TypeSpec)
				st, ok := ts.Type.(*ast.StructType)
				if !ok {
					continue
				}
				m := map[string]string{}
				for _, fl := range st.Fields.List {
					t := exprText(c.fset, fl.Type)
					if len(fl.Names) == 0 {
						n := t
						if i := strings.LastIndex(n, "."); i >= 0 {
							n = n[i+1:]
						}
						m[strings.TrimPrefix(n, "*")] = t
						embedded[ts.Name.Name] = append(embedded[ts.Name.Name], strings.TrimPrefix(n, "*"))
					}
					for _, n := range fl.Names {
						m[n.Name] = t
					}
				}
				out[ts.Name.Name] = m
			}
		}
	}
	// fields promoted from embedded structs of the same package (one level is what the wrappers use; repeat to a fixpoint)
	for changed := true; changed; {
		changed = false
		for name, embs := range embedded {
			for _, e := range embs {
				for f, t := range out[e] {
					if _, have := out[name][f]; !have {
						out[name][f] = t
						changed = true
					}
				}
			}
		}
	}
	return out
}

func dbcfIsLogType(t string) bool { return strings.Contains(t, "logrus.") }

// dbcfFieldCall: recv.F.M(args) with F a field of the receiver's struct
func dbcfFieldCall(e ast.Expr, recvIdent string, fields map[string]string) (call *ast.CallExpr, field, method string, ok bool) {
	call, ok = e.(*ast.CallExpr)
	if !ok {
		return nil, "", "", false
	}
	sel, ok := call.Fun.(*ast.SelectorExpr)
	if !ok {
		return nil, "", "", false
	}
	inner, ok := sel.X.(*ast.SelectorExpr)
	if !ok {
		return nil, "", "", false
	}
	id, ok := inner.X.(*ast.Ident)
	if !ok || id.Name != recvIdent || recvIdent == "" {
		return nil, "", "", false
	}
	if _, known := fields[inner.Sel.Name]; !known {
		return nil, "", "", false
	}
	return call, inner.Sel.Name, sel.Sel.Name, true
}

func dbcfIdents(l []ast.Expr) ([]string, bool) {
	var out []string
	for _, e := range l {
		id, ok := e.(*ast.Ident)
		if !ok {
			return nil, false
		}
		out = append(out, id.Name)
	}
	return out, true
}

func (c *factsCtx) dbcfDelegation(fd *ast.FuncDecl, file string, structs map[string]map[string]string) dbcfDeleg {
	recv, rid := dbcfRecvName(fd)
	d := dbcfDeleg{recv: recv, method: fd.Name.Name, file: file, line: c.fset.Position(fd.Pos()).Line}
	for _, p := range fd.Type.Params.List {
		_, variadic := p.Type.(*ast.Ellipsis)
		if len(p.Names) == 0 {
			d.params = append(d.params, "_")
		}
		for _, n := range p.Names {
			if variadic {
				d.params = append(d.params, n.Name+"...")
			} else {
				d.params = append(d.params, n.Name)
			}
		}
	}
	fields := structs[recv]
	isLog := func(e ast.Expr) bool {
		_, f, _, ok := dbcfFieldCall(e, rid, fields)
		return ok && dbcfIsLogType(fields[f])
	}
	isInner := func(e ast.Expr) (*ast.CallExpr, string, string, bool) {
		call, f, m, ok := dbcfFieldCall(e, rid, fields)
		if !ok || dbcfIsLogType(fields[f]) {
			return nil, "", "", false
		}
		return call, f, m, true
	}
	// every call through a non-logging receiver field, anywhere in the body: there must be exactly one
	n := 0
	ast.Inspect(fd.Body, func(k ast.Node) bool {
		if e, ok := k.(ast.Expr); ok {
			if _, _, _, ok := isInner(e); ok {
				n++
			}
		}
		return true
	})
	if n != 1 {
		return d
	}
	var call *ast.CallExpr
	var vars []string
	result := ""
	stmts := fd.Body.List
	for i, s := range stmts {
		last := i == len(stmts)-1
		switch x := s.(type) {
		case *ast.ExprStmt:
			if !isLog(x.X) {
				return d
			}
		case *ast.AssignStmt:
			if call != nil || x.Tok != token.DEFINE || len(x.Rhs) != 1 {
				return d
			}
			cl, f, m, ok := isInner(x.Rhs[0])
			if !ok {
				return d
			}
			ids, ok := dbcfIdents(x.Lhs)
			if !ok {
				return d
			}
			call, d.field, d.callee, vars = cl, f, m, ids
		case *ast.IfStmt:
			// if err != nil { return nil, err }   (after the assignment; err = its last variable)
			if call == nil || len(vars) < 2 || x.Init != nil || x.Else != nil || len(x.Body.List) != 1 {
				return d
			}
			be, ok := x.Cond.(*ast.BinaryExpr)
			if !ok || be.Op != token.NEQ || exprText(c.fset, be.X) != vars[len(vars)-1] || exprText(c.fset, be.Y) != "nil" {
				return d
			}
			r, ok := x.Body.List[0].(*ast.ReturnStmt)
			if !ok || len(r.Results) != len(vars) || exprText(c.fset, r.Results[len(vars)-1]) != vars[len(vars)-1] {
				return d
			}
			for _, z := range r.Results[:len(vars)-1] {
				if exprText(c.fset, z) != "nil" {
					return d
				}
			}
		case *ast.ReturnStmt:
			if !last {
				return d
			}
			if call == nil {
				if len(x.Results) != 1 {
					return d
				}
				cl, f, m, ok := isInner(x.Results[0])
				if !ok {
					return d
				}
				call, d.field, d.callee, result = cl, f, m, "direct"
				break
			}
			if ids, ok := dbcfIdents(x.Results); ok && strings.Join(ids, ",") == strings.Join(vars, ",") {
				result = "vars"
				break
			}
			// return &W{..., f: v, ...}, nil
			if len(x.Results) == 2 && len(vars) == 2 && exprText(c.fset, x.Results[1]) == "nil" {
				e := x.Results[0]
				if u, ok := e.(*ast.UnaryExpr); ok && u.Op == token.AND {
					e = u.X
				}
				if cl, ok := e.(*ast.CompositeLit); ok {
					uses := 0
					for _, el := range cl.Elts {
						if kv, ok := el.(*ast.KeyValueExpr); ok {
							if id, ok := kv.Value.(*ast.Ident); ok && id.Name == vars[0] {
								uses++
							}
						}
					}
					if uses == 1 {
						result = "wrapped:" + strings.TrimPrefix(exprText(c.fset, cl.Type), "utils.")
					}
				}
			}
			if result == "" {
				return d
			}
		default:
			return d
		}
	}
	if call == nil || result == "" {
		return d
	}
	for i, a := range call.Args {
		id, ok := a.(*ast.Ident)
		switch {
		case !ok:
			d.args = append(d.args, "?")
		case i == len(call.Args)-1 && call.Ellipsis.IsValid():
			d.args = append(d.args, id.Name+"...")
		default:
			d.args = append(d.args, id.Name)
		}
	}
	d.result = result
	d.ok = true
	return d
}

// ---- wirings -----------------------------------------------------------------------------------------------

func (c *factsCtx) dbcfWirings(files []*ast.File) []dbcfWiring {
	var out []dbcfWiring
	var lit func(fn, target, prefix string, e ast.Expr)
	lit = func(fn, target, prefix string, e ast.Expr) {
		if u, ok := e.(*ast.UnaryExpr); ok && u.Op == token.AND {
			e = u.X
		}
		cl, ok := e.(*ast.CompositeLit)
		if !ok {
			return
		}
		t := exprText(c.fset, cl.Type)
		if !strings.HasPrefix(t, "utils.") {
			return
		}
		typ := prefix + strings.TrimPrefix(t, "utils.")
		for _, el := range cl.Elts {
			kv, ok := el.(*ast.KeyValueExpr)
			if !ok {
				out = append(out, dbcfWiring{fn, target, typ, "?", "?", c.fset.Position(el.Pos()).Line})
				continue
			}
			k := exprText(c.fset, kv.Key)
			if _, nested := kv.Value.(*ast.CompositeLit); nested {
				lit(fn, target, typ+".", kv.Value)
				continue
			}
			out = append(out, dbcfWiring{fn, target, typ, k, exprText(c.fset, kv.Value), c.fset.Position(kv.Pos()).Line})
		}
	}
	for _, f := range files {
		if !strings.HasSuffix(c.fset.Position(f.Pos()).Filename, "client.go") {
			continue
		}
		for _, d := range f.Decls {
			fd, ok := d.(*ast.FuncDecl)
			if !ok || fd.Body == nil {
				continue
			}
			recv, _ := dbcfRecvName(fd)
			fn := fd.Name.Name
			if recv != "" {
				fn = recv + "." + fn
			}
			ast.Inspect(fd.Body, func(n ast.Node) bool {
				switch x := n.(type) {
				case *ast.AssignStmt:
					if len(x.Lhs) == len(x.Rhs) {
						for i := range x.Lhs {
							lit(fn, exprText(c.fset, x.Lhs[i]), "", x.Rhs[i])
						}
					}
				case *ast.ValueSpec:
					if len(x.Names) == len(x.Values) {
						for i := range x.Names {
							lit(fn, x.Names[i].Name, "", x.Values[i])
						}
					}
				}
				return true
			})
		}
	}
	return out
}

// ---- driver ------------------------------------------------------------------------------------------------

func dbcfPairs(l [][2]string) string {
	var out []string
	for _, p := range l {
		out = append(out, "("+leanStr(p[0])+", "+leanStr(p[1])+")")
	}
	return "[" + strings.Join(out, ", ") + "]"
}

func factsDbClient(c *factsCtx, outdir string) error {
	files := c.parseDir(dbcfPkg)
	conn := c.dbcfConn(files)
	wir := c.dbcfWirings(files)
	ufiles := c.parseDir(dbcfPkg + "/utils")
	structs := c.dbcfStructFields(ufiles)
	var dels []dbcfDeleg
	for _, f := range ufiles {
		name := c.fset.Position(f.Pos()).Filename
		if i := strings.Index(name, dbcfPkg); i >= 0 {
			name = name[i:]
		}
		for _, d := range f.Decls {
			fd, ok := d.(*ast.FuncDecl)
			if !ok || fd.Body == nil || fd.Recv == nil {
				continue
			}
			dels = append(dels, c.dbcfDelegation(fd, name, structs))
		}
	}
	var b strings.Builder
	b.WriteString("import GluonModel.Model.DBClientSite\n\nnamespace Gluon.Facts\nopen Gluon.DB\n\n")
	b.WriteString("/-- how every connection of the pool is opened (" + dbcfPkg + "/client.go: getDatabaseConn, NewClient, Client.Init) -/\n")
	fmt.Fprintf(&b, "def dbConn : ConnFacts := {\n  dsnKnown := %v,\n  dsnText := %s,\n  dsnOptions := %s,\n  openDriver := %s,\n  openUsesDsn := %v,\n  initPragmas := %s,\n  maxOpenConns := %s,\n  connectHookPragmas := %s }\n\n",
		conn.dsnKnown, leanStr(conn.dsnText), dbcfPairs(conn.dsnOptions), leanStr(conn.openDriver), conn.openUsesDsn, leanStrList(conn.initPragmas), conn.maxOpenConns, leanStrList(conn.connectHooks))
	b.WriteString("/-- every method of the wrapper types of " + dbcfPkg + "/utils; `inner := none`: the body is not of a shape the translator understands -/\n")
	b.WriteString("def dbDelegations : List Delegation := [\n")
	for i, d := range dels {
		sep := ","
		if i == len(dels)-1 {
			sep = ""
		}
		inner := "none"
		if d.ok {
			inner = fmt.Sprintf("some { field := %s, callee := %s, args := %s, result := %s }", leanStr(d.field), leanStr(d.callee), leanStrList(d.args), leanStr(d.result))
		}
		fmt.Fprintf(&b, "  { recv := %s, method := %s, params := %s, inner := %s, file := %s, line := %d }%s\n",
			leanStr(d.recv), leanStr(d.method), leanStrList(d.params), inner, leanStr(d.file), d.line, sep)
	}
	b.WriteString("]\n\n")
	var recvs []string
	seenRecv := map[string]bool{}
	for _, d := range dels {
		if !seenRecv[d.recv] {
			seenRecv[d.recv] = true
			recvs = append(recvs, d.recv)
		}
	}
	b.WriteString("/-- the receiver types of `dbDelegations` -/\n")
	fmt.Fprintf(&b, "def dbWrapperTypes : List String := %s\n\n", leanStrList(recvs))
	b.WriteString("/-- every wrapper literal of " + dbcfPkg + "/client.go: function, variable it is assigned to, wrapper type (nested: Outer.Inner), field, value -/\n")
	b.WriteString("def dbWirings : List Wiring := [\n")
	for i, w := range wir {
		sep := ","
		if i == len(wir)-1 {
			sep = ""
		}
		fmt.Fprintf(&b, "  { fn := %s, target := %s, type := %s, field := %s, value := %s, line := %d }%s\n", leanStr(w.fn), leanStr(w.target), leanStr(w.typ), leanStr(w.field), leanStr(w.value), w.line, sep)
	}
	b.WriteString("]\n\nend Gluon.Facts\n")
	return writeLean(outdir, "DbClient.lean", b.String())
}
