package main

// Facts/MsgSet.lean (C16): every place in internal/session and internal/state (production build)
// where a value of type []command.SeqRange — a parsed message set — is USED, found with go/types:
// as an argument of a call (which callee, which position) or in any other way (ranged over,
// indexed, assigned, returned …).  The theorem Gluon.C16.message_sets_reach_only_modelled_functions
// decides that the sets flow from the session handlers through the Mailbox methods into
// snapshot.getMessagesInRange / resolveSeqInterval / resolveUIDInterval and are taken apart only
// inside the functions the Lean model covers.  A handler that walks a set itself, or a new
// consumer, changes the table and breaks the obligation.

import (
	"fmt"
	"go/ast"
	"go/types"
	"sort"
	"strings"
)

func init() { factGens = append(factGens, factGen{"MsgSet", factsMsgSet}) }

type msgSetUse struct {
	pkg, fn, kind, callee string
	arg                   int
	expr                  string
}

func msIsSeqSetType(t types.Type) bool {
	sl, ok := t.(*types.Slice)
	if !ok {
		return false
	}
	n, ok := sl.Elem().(*types.Named)
	if !ok || n.Obj() == nil || n.Obj().Pkg() == nil {
		return false
	}
	return n.Obj().Name() == "SeqRange" && strings.HasSuffix(n.Obj().Pkg().Path(), "/imap/command")
}

func msRecvName(t types.Type) string {
	if p, ok := t.(*types.Pointer); ok {
		t = p.Elem()
	}
	if n, ok := t.(*types.Named); ok {
		return n.Obj().Name()
	}
	return "?"
}

// msCallee names the function a call goes to: "Recv.method", "pkg.Func", "func" or "builtin.x".
func msCallee(info *types.Info, call *ast.CallExpr) string {
	switch f := call.Fun.(type) {
	case *ast.SelectorExpr:
		if sel, ok := info.Selections[f]; ok {
			return msRecvName(sel.Recv()) + "." + f.Sel.Name
		}
		if id, ok := f.X.(*ast.Ident); ok {
			if _, isPkg := info.Uses[id].(*types.PkgName); isPkg {
				return id.Name + "." + f.Sel.Name
			}
		}
		return "?." + f.Sel.Name
	case *ast.Ident:
		if _, ok := info.Uses[f].(*types.Builtin); ok {
			return "builtin." + f.Name
		}
		return f.Name
	}
	return "?"
}

func factsMsgSet(c *factsCtx, outdir string) error {
	var uses []msgSetUse
	var problems []string
	for _, rel := range []string{"internal/session", "internal/state"} {
		tp, err := c.typed(rel)
		if err != nil {
			problems = append(problems, fmt.Sprintf("%s: %v", rel, err))
			continue
		}
		pkgName := rel[strings.LastIndex(rel, "/")+1:]
		for _, f := range tp.files {
			for _, d := range f.Decls {
				fd, ok := d.(*ast.FuncDecl)
				if !ok || fd.Body == nil {
					continue
				}
				fn := funcQualName(fd)
				lfWalkStack(fd.Body, func(n ast.Node, stack []ast.Node) {
					e, ok := n.(ast.Expr)
					if !ok {
						return
					}
					tv, ok := tp.info.Types[e]
					if !ok || tv.IsType() || tv.Type == nil || !msIsSeqSetType(tv.Type) {
						return
					}
					var parent ast.Node
					if len(stack) > 0 {
						parent = stack[len(stack)-1]
					}
					if _, isParen := parent.(*ast.ParenExpr); isParen {
						return // the parenthesised expression is visited as well
					}
					u := msgSetUse{pkg: pkgName, fn: fn, kind: "other", callee: "-", expr: c.render(e)}
					if call, ok := parent.(*ast.CallExpr); ok {
						for i, a := range call.Args {
							if a == e {
								u.kind, u.callee, u.arg = "arg", msCallee(tp.info, call), i
							}
						}
						if u.kind != "arg" {
							u.callee = "called-as-function"
						}
					} else if be, ok := parent.(*ast.BinaryExpr); ok {
						u.callee = "test:" + c.render(be) // e.g. the `seq != nil` of Mailbox.Expunge
					} else {
						u.callee = fmt.Sprintf("%T", parent)
					}
					uses = append(uses, u)
				})
			}
		}
	}
	sort.SliceStable(uses, func(i, j int) bool {
		a, b := uses[i], uses[j]
		if a.pkg != b.pkg {
			return a.pkg < b.pkg
		}
		if a.fn != b.fn {
			return a.fn < b.fn
		}
		if a.callee != b.callee {
			return a.callee < b.callee
		}
		return a.arg < b.arg
	})
	var b strings.Builder
	b.WriteString("namespace Gluon.Facts\n\n")
	b.WriteString("/-- one use of a `[]command.SeqRange` value: package, enclosing function, `arg` (argument number\n    `arg` of a call to `callee`) or `other` (then `callee` is the Go AST node it sits in) -/\n")
	b.WriteString("structure MsgSetUse where\n  pkg : String\n  fn : String\n  kind : String\n  callee : String\n  arg : Nat\n  expr : String\nderiving DecidableEq, Repr\n\n")
	b.WriteString("/-- every use of a parsed message set in internal/session and internal/state -/\n")
	b.WriteString("def msgSetUses : List MsgSetUse := [\n")
	for i, u := range uses {
		sep := ","
		if i == len(uses)-1 {
			sep = ""
		}
		fmt.Fprintf(&b, "  ⟨%s, %s, %s, %s, %d, %s⟩%s\n", leanStr(u.pkg), leanStr(u.fn), leanStr(u.kind), leanStr(u.callee), u.arg, leanStr(u.expr), sep)
	}
	b.WriteString("]\n\n")
	b.WriteString("/-- packages that could not be type-checked (must be empty) -/\n")
	fmt.Fprintf(&b, "def msgSetProblems : List String := %s\n\nend Gluon.Facts\n", leanStrList(problems))
	return writeLean(outdir, "MsgSet.lean", b.String())
}
