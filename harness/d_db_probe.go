package main

// Dialect `db` (C08), generator part 2: "change, look it up, abort, look it up again" sessions.
//
// The relational model has no state but the tables: what a lookup answers depends on the committed
// rows (plus the rows of the running transaction) and on nothing else.  An implementation that keeps
// anything next to the SQL transaction - a resolved id, a name, a count, an existence bit - breaks
// that in two ways which random sessions hardly ever reach, because both need the SAME identifier on
// both sides of a transaction boundary:
//
//   (a) the transaction that made the thing visible is rolled back, the remembered answer stays;
//   (b) the answer was remembered in an earlier transaction and a later COMMITTED change makes it stale.
//
// A probe round therefore takes one change (any db.Transaction method, identifier-introducing ones
// preferred), collects every identifier the change mentions or touches (remote ids, names, internal
// ids - the one the next AUTOINCREMENT will hand out included -, message ids, message remote ids; old
// and new), and issues every db.ReadOnly method keyed by those identifiers
//
//   before the change          (Read or Write transaction; fills whatever could be remembered),
//   inside the transaction     after the change (the calls that fail there are found by a trial run on the
//                              scratch database; one of them may end the transaction, which is how a
//                              transaction is aborted in real life),
//   after the rollback/commit  in a Read AND in a Write transaction (calls that fail get a transaction
//                              of their own, since a failed call ends its transaction),
//
// optionally followed by a committed change of the same kind (so that the internal id the aborted
// transaction had used is handed out again) and one more look.  Everything is compared with the
// model call by call, as in every other session.

import (
	"sort"
	"strconv"
	"strings"
)

// identifiers a probe round is about (argument spelling of the line protocol)
type dbxpIdents struct {
	mb, mrid, name, msg, xrid []string
}

func dbxpAdd(l *[]string, v string, cap int) {
	if v == "" || len(*l) >= cap {
		return
	}
	for _, x := range *l {
		if x == v {
			return
		}
	}
	*l = append(*l, v)
}

// read methods by the kind of their key; a method of db.ReadOnly that is in none of the tables is
// still issued (with the random arguments of callTok)
var dbxpByMbox = []string{"MailboxExistsWithID", "GetMailboxName", "GetMailboxMessageIDPairs", "GetMailboxByID", "GetMailboxRecentCount",
	"GetMailboxMessageCount", "GetMailboxFlags", "GetMailboxPermanentFlags", "GetMailboxAttributes", "GetMailboxUID",
	"GetMailboxMessageCountAndUID", "GetMailboxMessageForNewSnapshot"}
var dbxpByMboxRid = []string{"MailboxExistsWithRemoteID", "GetMailboxIDFromRemoteID", "GetMailboxNameWithRemoteID", "GetMailboxByRemoteID",
	"GetMailboxMessageCountWithRemoteID"}
var dbxpByName = []string{"MailboxExistsWithName", "GetMailboxByName"}
var dbxpNoKey = []string{"GetAllMailboxesWithAttr", "GetAllMailboxesAsRemoteIDs", "GetMailboxCount", "GetAllMailboxesNameAndRemoteID",
	"GetTotalMessageCount", "GetMessageIDsMarkedAsDelete", "GetAllMessagesIDsAsMap", "GetDeletedSubscriptionSet", "GetConnectorSettings"}
var dbxpByMsg = []string{"MessageExists", "GetMessageNoEdges", "GetMessageRemoteID", "GetImportedMessageData", "GetMessageDateAndSize",
	"GetMessageMailboxIDs", "GetMessageDeletedFlag"}
var dbxpByMsgRid = []string{"MessageExistsWithRemoteID", "GetMessageIDFromRemoteID"}
var dbxpByList = []string{"MailboxTranslateRemoteIDs", "MailboxFilterContains", "GetMessagesFlags"}

// methods that introduce, replace or remove an identifier (picked three times as often as the others)
var dbxpIntroducing = []string{"CreateMailbox", "GetOrCreateMailbox", "GetOrCreateMailboxAlt", "CreateMailboxIfNotExists",
	"UpdateRemoteMailboxID", "RenameMailboxWithRemoteID", "DeleteMailboxWithRemoteID", "CreateMessages", "CreateMessageAndAddToMailbox",
	"UpdateRemoteMessageID", "AddMessagesToMailbox", "RemoveMessagesFromMailbox", "DeleteMessages",
	"MarkMessageAsDeletedAndAssignRandomRemoteID", "MarkMessageAsDeletedWithRemoteID", "AddDeletedSubscription"}

// what the mirror does not keep: message -> remote id, and the id the next created mailbox gets
func (g *dbxGenState) dbxpMsgRids() map[string]string {
	out := map[string]string{}
	_ = g.s.query("SELECT id, remote_id FROM messages_v2", 2, func(v []any) {
		if rid := dbxVal(v[1]); !strings.HasPrefix(rid, "DELETED-") { // made-up remote ids differ from run to run
			out[dbxMsgNum(dbxVal(v[0]))] = dbxShowStr(rid)
		}
	})
	return out
}

func (g *dbxGenState) dbxpNextMbox() string {
	next := 1
	_ = g.s.query("SELECT seq FROM sqlite_sequence WHERE name = 'mailboxes_v2'", 1, func(v []any) {
		if n, err := strconv.Atoi(dbxVal(v[0])); err == nil {
			next = n + 1
		}
	})
	return strconv.Itoa(next)
}

// dbxpIdentsOf: the identifiers a call token mentions, closed under "the rows they name before the call"
func (g *dbxGenState) dbxpIdentsOf(I *dbxpIdents, tok string) {
	p := strings.Split(tok, ":")
	name, a := p[0], p[1:]
	arg := func(i int) string {
		if i < len(a) {
			return a[i]
		}
		return ""
	}
	const own = 2 // identifiers taken from one token, per kind
	var t dbxpIdents
	ids := func(s string) {
		l := dbxIDs(s)
		if len(l) > 0 {
			dbxpAdd(&t.msg, strconv.Itoa(l[0]), own)
			dbxpAdd(&t.msg, strconv.Itoa(l[len(l)-1]), own)
		}
	}
	switch name {
	case "CreateMailbox", "GetOrCreateMailbox":
		dbxpAdd(&t.mrid, arg(0), own)
		dbxpAdd(&t.name, arg(1), own)
		dbxpAdd(&t.mb, g.dbxpNextMbox(), own)
	case "GetOrCreateMailboxAlt", "CreateMailboxIfNotExists":
		dbxpAdd(&t.mrid, arg(0), own)
		dbxpAdd(&t.name, dbxShowStr(strings.Join(dbxStrs(arg(1)), dbxStr(arg(2)))), own)
		dbxpAdd(&t.mb, g.dbxpNextMbox(), own)
	case "RenameMailboxWithRemoteID":
		dbxpAdd(&t.mrid, arg(0), own)
		dbxpAdd(&t.name, arg(1), own)
	case "DeleteMailboxWithRemoteID":
		dbxpAdd(&t.mrid, arg(0), own)
	case "UpdateRemoteMailboxID":
		dbxpAdd(&t.mb, arg(0), own)
		dbxpAdd(&t.mrid, arg(1), own)
	case "SetMailboxSubscribed", "SetMailboxUIDValidity", "ClearRecentFlagsInMailbox":
		dbxpAdd(&t.mb, arg(0), own)
	case "AddMessagesToMailbox":
		dbxpAdd(&t.mb, arg(0), own)
		for _, q := range dbxPairs(arg(1)) {
			dbxpAdd(&t.msg, strconv.Itoa(q.id), own)
			dbxpAdd(&t.xrid, dbxShowStr(q.rid), own)
		}
	case "RemoveMessagesFromMailbox", "SetMailboxMessagesDeletedFlag":
		dbxpAdd(&t.mb, arg(0), own)
		ids(arg(1))
	case "ClearRecentFlagInMailboxOnMessage":
		dbxpAdd(&t.mb, arg(0), own)
		dbxpAdd(&t.msg, arg(1), own)
	case "AddFlagsToAllMailboxes", "AddPermFlagsToAllMailboxes":
		for _, m := range g.m.mboxes {
			dbxpAdd(&t.mb, strconv.Itoa(m.id), own)
		}
	case "CreateMessages", "CreateMessageAndAddToMailbox":
		reqs := arg(0)
		if name == "CreateMessageAndAddToMailbox" {
			dbxpAdd(&t.mb, arg(0), own)
			reqs = arg(1)
		}
		for _, q := range dbxReqs(reqs) {
			dbxpAdd(&t.msg, strconv.Itoa(q.id), own)
			dbxpAdd(&t.xrid, dbxShowStr(q.rid), own)
		}
	case "MarkMessageAsDeleted", "MarkMessageAsDeletedAndAssignRandomRemoteID":
		dbxpAdd(&t.msg, arg(0), own)
	case "MarkMessageAsDeletedWithRemoteID":
		dbxpAdd(&t.xrid, arg(0), own)
	case "DeleteMessages", "AddFlagToMessages", "RemoveFlagFromMessages", "SetFlagsOnMessages":
		ids(arg(0))
	case "UpdateRemoteMessageID":
		dbxpAdd(&t.msg, arg(0), own)
		dbxpAdd(&t.xrid, arg(1), own)
	case "AddDeletedSubscription":
		dbxpAdd(&t.name, arg(0), own)
		dbxpAdd(&t.mrid, arg(1), own)
	case "RemoveDeletedSubscriptionWithName":
		dbxpAdd(&t.name, arg(0), own)
	}
	// the rows these identifiers name now: their other identifiers are what the change replaces
	const all = 4
	rids := g.dbxpMsgRids()
	for pass := 0; pass < 2; pass++ {
		for _, m := range g.m.mboxes {
			id, rid, nm := strconv.Itoa(m.id), dbxShowStr(m.rid), dbxShowStr(m.name)
			hit := false
			for _, x := range t.mb {
				hit = hit || x == id
			}
			for _, x := range t.mrid {
				hit = hit || x == rid
			}
			for _, x := range t.name {
				hit = hit || x == nm
			}
			if hit {
				dbxpAdd(&t.mb, id, all)
				dbxpAdd(&t.mrid, rid, all)
				dbxpAdd(&t.name, nm, all)
			}
		}
	}
	for _, x := range append([]string{}, t.msg...) {
		if r, ok := rids[x]; ok {
			dbxpAdd(&t.xrid, r, all)
		}
		n, _ := strconv.Atoi(x)
		var in []int
		for mb, l := range g.m.member {
			for _, y := range l {
				if y == n {
					in = append(in, mb)
				}
			}
		}
		sort.Ints(in)
		if len(in) > 0 {
			dbxpAdd(&t.mb, strconv.Itoa(in[0]), all)
		}
	}
	var nums []string
	for n := range rids {
		nums = append(nums, n)
	}
	sort.Strings(nums)
	for _, x := range append([]string{}, t.xrid...) {
		for _, n := range nums {
			if rids[n] == x {
				dbxpAdd(&t.msg, n, all)
			}
		}
	}
	for _, x := range t.mb {
		dbxpAdd(&I.mb, x, all)
	}
	for _, x := range t.mrid {
		dbxpAdd(&I.mrid, x, all)
	}
	for _, x := range t.name {
		dbxpAdd(&I.name, x, all)
	}
	for _, x := range t.msg {
		dbxpAdd(&I.msg, x, all)
	}
	for _, x := range t.xrid {
		dbxpAdd(&I.xrid, x, all)
	}
}

// every read method keyed by the identifiers
func (g *dbxGenState) dbxpProbes(I *dbxpIdents) []string {
	var out []string
	known := map[string]bool{}
	each := func(methods, keys []string) {
		for _, m := range methods {
			known[m] = true
			for _, k := range keys {
				out = append(out, m+":"+k)
			}
		}
	}
	each(dbxpByMbox, I.mb)
	each(dbxpByMboxRid, I.mrid)
	each(dbxpByName, I.name)
	each(dbxpByMsg, I.msg)
	each(dbxpByMsgRid, I.xrid)
	for _, m := range dbxpNoKey {
		known[m] = true
		out = append(out, m)
	}
	for _, m := range dbxpByList {
		known[m] = true
	}
	if len(I.mrid) > 0 {
		out = append(out, "MailboxTranslateRemoteIDs:"+dbxShowList(I.mrid))
	}
	if len(I.msg) > 0 {
		out = append(out, "GetMessagesFlags:"+dbxShowList(I.msg))
		for _, mb := range I.mb {
			out = append(out, "MailboxFilterContains:"+mb+":"+dbxShowList(I.msg))
		}
	}
	var rest []string
	for m := range g.reads {
		if !known[m] {
			rest = append(rest, m)
		}
	}
	sort.Strings(rest)
	for _, m := range rest {
		out = append(out, g.callTok(m))
	}
	return out
}

func (g *dbxGenState) dbxpSample(l []string, num, den int) []string {
	var out []string
	for _, x := range l {
		if g.r.Chance(num, den) {
			out = append(out, x)
		}
	}
	for i := len(out) - 1; i > 0; i-- {
		j := g.r.Intn(i + 1)
		out[i], out[j] = out[j], out[i]
	}
	return out
}

// dbxpTrial runs the calls in one transaction on the scratch database and rolls it back (a Read
// transaction has nothing to roll back); the session's statistics and numbering are left alone.
func (g *dbxGenState) dbxpTrial(write bool, calls []string) []string {
	s := g.s
	pos, counts, rnd := s.pos, s.counts, s.randIDs
	s.counts = map[string]int{}
	s.randIDs = map[string]string{}
	for k, v := range rnd {
		s.randIDs[k] = v
	}
	open := "R["
	if write {
		open = "W["
	}
	res := s.run(append(append([]string{open}, calls...), "]a"))
	s.pos, s.counts, s.randIDs = pos, counts, rnd
	if len(res) < 1+len(calls) {
		return nil
	}
	return res[1 : 1+len(calls)]
}

func dbxpFailed(w string) bool { return strings.HasPrefix(w, "err:") || w == "panic" || w == "bad" }

// dbxpSplit: the probes that succeed when issued in this order after `head` inside one transaction, and
// those that fail there; headOK=false if a call of head itself fails (then no probe can follow it)
func (g *dbxGenState) dbxpSplit(write bool, head, probes []string) (ok, fail []string, headOK bool) {
	cur := append([]string{}, probes...)
	for iter := 0; iter < 80; iter++ {
		res := g.dbxpTrial(write, append(append([]string{}, head...), cur...))
		idx := -1
		for i, w := range res {
			if dbxpFailed(w) {
				idx = i
				break
			}
		}
		switch {
		case res == nil:
			return nil, nil, false
		case idx < 0:
			return cur, fail, true
		case idx < len(head):
			return nil, nil, false
		}
		i := idx - len(head)
		fail = append(fail, cur[i])
		cur = append(cur[:i], cur[i+1:]...)
	}
	return nil, fail, true
}

// dbxpLookups: the probes in one transaction of the given kind; those that fail there, one transaction each
func (g *dbxGenState) dbxpLookups(write bool, probes []string) {
	if len(probes) == 0 {
		return
	}
	ok, fail, _ := g.dbxpSplit(write, nil, probes)
	if len(ok) > 0 {
		g.tx(write, ok, true)
	}
	for _, p := range fail {
		g.tx(write, []string{p}, true)
	}
	g.st.Add("probe.lookups", len(ok)+len(fail))
	g.st.Add("probe.lookups.failing", len(fail))
}

func (g *dbxGenState) dbxpPickMethod(writes []string) string {
	if g.r.Chance(3, 4) {
		return Pick(g.r, dbxpIntroducing)
	}
	return Pick(g.r, writes)
}

// one round: [lookups] W[ change lookups [change lookups] [failing lookup] ]a|c  lookups(R) lookups(W) [redo + lookups]
func (g *dbxGenState) dbxpRound(writes []string) {
	r := g.r
	method := g.dbxpPickMethod(writes)
	g.st.Inc("probe.change." + method)
	change := g.callTok(method)
	var I dbxpIdents
	g.dbxpIdentsOf(&I, change)
	all := g.dbxpProbes(&I)
	if r.Chance(1, 2) {
		g.st.Inc("probe.pre")
		g.dbxpLookups(r.Bool(), g.dbxpSample(all, 1, 3))
	}
	commit := r.Chance(1, 3)
	calls := []string{change}
	var failing []string
	inside := 0
	headOK := true
	if !r.Chance(1, 6) {
		var ok, fail []string
		ok, fail, headOK = g.dbxpSplit(true, calls, g.dbxpSample(all, 1, 2))
		calls = append(calls, ok...)
		failing = append(failing, fail...)
		inside += len(ok)
	}
	if headOK && r.Chance(1, 3) {
		// a second change in the same transaction, looked up as well
		m2 := g.dbxpPickMethod(writes)
		c2 := g.callTok(m2)
		g.st.Inc("probe.change2." + m2)
		g.dbxpIdentsOf(&I, c2)
		all = g.dbxpProbes(&I)
		calls = append(calls, c2)
		ok, fail, h2 := g.dbxpSplit(true, calls, g.dbxpSample(all, 1, 3))
		if h2 {
			calls = append(calls, ok...)
			failing = append(failing, fail...)
			inside += len(ok)
		}
		headOK = h2
	}
	if headOK && !commit && len(failing) > 0 && r.Chance(1, 2) {
		// the transaction ends the way transactions are abandoned in gluon: a lookup fails
		calls = append(calls, Pick(r, failing))
		g.st.Inc("probe.abort.by-failing-lookup")
	}
	g.st.Add("probe.inside", inside)
	switch {
	case !headOK:
		g.st.Inc("probe.tx.change-fails")
	case commit:
		g.st.Inc("probe.tx.commit")
	default:
		g.st.Inc("probe.tx.abort")
	}
	g.tx(true, calls, commit)
	first := r.Bool()
	g.dbxpLookups(first, g.dbxpSample(all, 1, 1))
	g.dbxpLookups(!first, g.dbxpSample(all, 1, 2))
	if r.Chance(1, 3) {
		// the same kind of change again, committed: internal ids the aborted transaction saw are handed out again
		redo := g.callTok(method)
		g.st.Inc("probe.redo")
		g.dbxpIdentsOf(&I, redo)
		all = g.dbxpProbes(&I)
		g.tx(true, []string{redo}, true)
		g.dbxpLookups(r.Bool(), g.dbxpSample(all, 2, 3))
	}
	g.between()
}

// dbxpDirected: every identifier-introducing method once, with a call that succeeds (a few attempts), ALL lookups
// before, inside and after (Read and Write); the transaction is aborted (commit=false) or committed.
// Unlike the random rounds this does not depend on the seed for which methods are reached.
func (g *dbxGenState) dbxpDirected(commit bool) {
	g.setup()
	if len(g.m.mboxes) == 0 {
		g.tx(true, []string{"CreateMailbox:" + g.freshRid() + ":D0:~:~:~:5"}, true)
	}
	for _, method := range dbxpIntroducing {
		change := g.callTok(method)
		for try := 0; try < 6; try++ {
			if res := g.dbxpTrial(true, []string{change}); len(res) == 1 && !dbxpFailed(res[0]) {
				break
			}
			change = g.callTok(method)
		}
		g.st.Inc("probe.directed." + method)
		var I dbxpIdents
		g.dbxpIdentsOf(&I, change)
		all := g.dbxpProbes(&I)
		g.dbxpLookups(g.r.Bool(), g.dbxpSample(all, 1, 1))
		calls := []string{change}
		ok, fail, headOK := g.dbxpSplit(true, calls, g.dbxpSample(all, 1, 1))
		calls = append(calls, ok...)
		if headOK && !commit && len(fail) > 0 && g.r.Bool() {
			calls = append(calls, Pick(g.r, fail))
		}
		g.tx(true, calls, commit)
		first := g.r.Bool()
		g.dbxpLookups(first, g.dbxpSample(all, 1, 1))
		g.dbxpLookups(!first, g.dbxpSample(all, 1, 1))
		g.toks = append(g.toks, "dump")
	}
}

// a probe session: set-up, then rounds with a random transaction in between now and then
func (g *dbxGenState) dbxpSession(rounds int) {
	g.setup()
	var writes, reads []string
	for _, m := range g.all {
		if g.reads[m] {
			reads = append(reads, m)
		} else {
			writes = append(writes, m)
		}
	}
	for i := 0; i < rounds; i++ {
		g.dbxpRound(writes)
		if g.r.Chance(1, 3) {
			var calls []string
			for j, k := 0, g.r.Range(1, 4); j < k; j++ {
				if g.r.Chance(2, 3) {
					calls = append(calls, g.callTok(Pick(g.r, writes)))
				} else {
					calls = append(calls, g.callTok(Pick(g.r, reads)))
				}
			}
			g.tx(true, calls, !g.r.Chance(1, 4))
		}
	}
	g.toks = append(g.toks, "dump")
}
