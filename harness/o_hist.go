package main

// Oracle `hist`: random multi-session histories against a whole server; wire-level oracles for
// C01 (client mirror vs FETCH 1:* probes), C02 (convergence at quiescence), C05 (no EXPUNGE while
// answering FETCH/STORE/SEARCH).

import (
	"encoding/json"
	"flag"
	"fmt"
	"os"
	"path/filepath"
	"sort"
	"strings"
)

type OracleResult struct {
	Evaluations        int            `json:"evaluations"`
	DistinctNontrivial int            `json:"distinct_nontrivial"`
	Stats              map[string]int `json:"stats"`
	Samples            []any          `json:"samples"`
	Violations         []OracleViol   `json:"violations"`
}

type OracleViol struct {
	Desc   string `json:"desc"`
	Replay string `json:"replay"`
}

func writeResult(path string, res *OracleResult) {
	b, _ := json.MarshalIndent(res, "", " ")
	_ = os.WriteFile(path, b, 0o644)
}

type histCfg struct {
	props   map[string]bool
	steps   int
	nsess   int
	profile string
}

// runHistory executes either generated steps (replaySteps == nil) or the given steps.
func runHistory(r *Rng, cfg histCfg, replaySteps []string) (h *HistRunner, err error) {
	sys, err := NewSys(SysOpts{})
	if err != nil {
		return nil, err
	}
	defer sys.Close(true)
	h = NewHistRunner(sys)
	defer h.CloseSessions()
	if err := h.setupMailboxes(); err != nil {
		return h, err
	}
	if replaySteps != nil {
		for _, st := range replaySteps {
			if err := h.Exec(st); err != nil {
				return h, fmt.Errorf("step %q: %w", st, err)
			}
		}
	} else {
		for k := 0; k < cfg.steps; k++ {
			st := h.GenStep(r, cfg.nsess, cfg.profile)
			if err := h.Exec(st); err != nil {
				return h, fmt.Errorf("step %q: %w", st, err)
			}
			// probe: every point between two commands is a candidate; sample a session
			if cfg.props["C01"] && r.Chance(1, 2) {
				if err := h.Exec(fmt.Sprintf("S%d PROBE", r.Intn(cfg.nsess))); err != nil {
					return h, err
				}
			}
		}
		if err := h.Exec("X CONVERGE"); err != nil {
			return h, err
		}
	}
	// the Lean spec judges the traces
	if os.Getenv("VERIF_DRIVER") != "" {
		lines := h.traceLines()
		if len(lines) > 0 {
			ans, jerr := leanJudge(lines)
			if jerr != nil {
				return h, fmt.Errorf("lean judge: %w", jerr)
			}
			goFound := false
			for _, v := range h.violations {
				if v.Prop == "C01" {
					goFound = true
				}
			}
			for k, a := range ans {
				if !strings.HasPrefix(a, "ok") && !goFound {
					h.violate("C01", fmt.Sprintf("Lean mirror judge on session trace %d: %s", k, a))
				}
				if strings.HasPrefix(a, "ok") && goFound {
					h.stats["judge.go-only"]++
				}
			}
		}
	}
	return h, nil
}

func (cfg histCfg) relevant(h *HistRunner) []Violation {
	var out []Violation
	for _, v := range h.violations {
		if cfg.props[v.Prop] {
			out = append(out, v)
		} else if v.Prop == "PANIC" {
			// a server panic is a violation of whichever property is being checked (the view can no longer
			// be served at all) and of C11/C19
			for p := range cfg.props {
				out = append(out, Violation{Prop: p, Desc: v.Desc})
				break
			}
		}
	}
	return out
}

// shrink: greedy chunk removal while a violation of the same property persists.
func shrinkHistory(cfg histCfg, steps []string, prop string, budget int) []string {
	fails := func(st []string) bool {
		h, err := runHistory(nil, cfg, st)
		if h == nil {
			return false
		}
		if err != nil {
			return false
		}
		for _, v := range cfg.relevant(h) {
			if v.Prop == prop {
				return true
			}
		}
		return false
	}
	cur := steps
	for chunk := len(cur) / 2; chunk >= 1 && budget > 0; {
		removed := false
		for i := 0; i+chunk <= len(cur) && budget > 0; {
			cand := append(append([]string{}, cur[:i]...), cur[i+chunk:]...)
			budget--
			if fails(cand) {
				cur = cand
				removed = true
			} else {
				i += chunk
			}
		}
		if !removed || chunk > 1 {
			chunk /= 2
		}
	}
	return cur
}

func runHistOracle(args []string) int {
	fs := flag.NewFlagSet("hist", flag.ExitOnError)
	seed := fs.Uint64("seed", 1, "")
	out := fs.String("out", "", "")
	replayDir := fs.String("replaydir", ".", "")
	replay := fs.String("replay", "", "")
	n := fs.Int("n", 20, "histories")
	steps := fs.Int("steps", 40, "steps per history")
	props := fs.String("props", "C01,C02,C05", "")
	profile := fs.String("profile", "", "generator profile (noclose: no CLOSE commands)")
	_ = fs.Parse(args)
	cfg := histCfg{props: map[string]bool{}, steps: *steps, profile: *profile}
	for _, p := range strings.Split(*props, ",") {
		cfg.props[p] = true
	}
	res := &OracleResult{Stats: map[string]int{}}
	report := func(h *HistRunner, steps []string, v Violation, note string) {
		text := fmt.Sprintf("oracle hist -props %s\n", *props)
		text += strings.Join(steps, "\n") + "\n"
		text += fmt.Sprintf("# property %s: %s\n# %s\n# replay: ./check %s --replay <this file>\n", v.Prop, v.Desc, note, v.Prop)
		name := fmt.Sprintf("%s-hist-%d-%d.txt", v.Prop, *seed, len(res.Violations))
		path := filepath.Join(*replayDir, name)
		_ = os.MkdirAll(*replayDir, 0o755)
		_ = os.WriteFile(path, []byte(text), 0o644)
		res.Violations = append(res.Violations, OracleViol{Desc: v.Prop + ": " + v.Desc, Replay: path})
	}
	if *replay != "" {
		b, err := os.ReadFile(*replay)
		if err != nil {
			fmt.Println(err)
			return 1
		}
		var st []string
		for i, l := range strings.Split(string(b), "\n") {
			if i == 0 || l == "" || strings.HasPrefix(l, "#") {
				continue
			}
			st = append(st, l)
		}
		h, err := runHistory(nil, cfg, st)
		res.Evaluations = 1
		if err != nil {
			fmt.Fprintln(os.Stderr, "replay error:", err)
		}
		if h != nil {
			for _, v := range cfg.relevant(h) {
				report(h, st, v, "replayed")
			}
		}
		res.DistinctNontrivial = 2
		if *out != "" {
			writeResult(*out, res)
		}
		for _, v := range res.Violations {
			fmt.Fprintln(os.Stderr, "VIOL", v.Desc, v.Replay)
		}
		return 0
	}
	// corpus first: directed histories (minimised past failures, known findings) from $VERIF_CORPUS/*.hist
	if dir := os.Getenv("VERIF_CORPUS"); dir != "" {
		files, _ := filepath.Glob(filepath.Join(dir, "*.hist"))
		sort.Strings(files)
		for _, f := range files {
			b, err := os.ReadFile(f)
			if err != nil {
				continue
			}
			var st []string
			for i, l := range strings.Split(string(b), "\n") {
				if i == 0 || l == "" || strings.HasPrefix(l, "#") {
					continue
				}
				st = append(st, l)
			}
			h, err := runHistory(nil, cfg, st)
			res.Evaluations++
			res.Stats["corpus"]++
			if h == nil {
				continue
			}
			if err != nil {
				h.violate("PANIC", "corpus history aborted: "+err.Error())
			}
			seen := map[string]bool{}
			for _, v := range cfg.relevant(h) {
				if seen[v.Prop] {
					continue
				}
				seen[v.Prop] = true
				report(h, st, v, "corpus history "+filepath.Base(f))
			}
		}
	}
	r := NewRng(*seed)
	reported := map[string]int{}
	for k := 0; k < *n; k++ {
		hr := r.Fork()
		cfg.nsess = hr.Range(1, 4)
		h, err := runHistory(hr, cfg, nil)
		if h == nil {
			fmt.Fprintln(os.Stderr, "history setup failed:", err)
			res.Stats["setup-failed"]++
			continue
		}
		res.Evaluations++
		res.Stats["steps"] += len(h.steps)
		for _, key := range sortedKeys(h.stats) {
			res.Stats[key] += h.stats[key]
		}
		for _, key := range sortedKeys(h.expungeDuring) {
			res.Stats["expunge.during."+key] += h.expungeDuring[key]
		}
		for _, st := range h.steps {
			f := strings.Fields(st)
			kind := f[0][:1] + "." + f[1]
			if f[1] == "CMD" {
				kind = "S." + f[2]
			}
			res.Stats["step."+kind]++
		}
		nontrivial := false
		for _, s := range h.sess {
			if s != nil && len(s.trace) > 4 {
				nontrivial = true
			}
		}
		if nontrivial {
			res.DistinctNontrivial++
		}
		if len(res.Samples) < 2 {
			res.Samples = append(res.Samples, map[string]any{"history": h.steps})
		}
		if err != nil {
			// the server stopped answering or dropped a connection mid-history: report as crash/hang finding
			v := Violation{Prop: "C01", Desc: "history aborted: " + err.Error()}
			if cfg.props["C01"] && reported["abort"] < 2 {
				reported["abort"]++
				report(h, h.steps, v, "history aborted (server error, dropped connection or timeout)")
			}
			continue
		}
		seen := map[string]bool{}
		for _, v := range cfg.relevant(h) {
			if seen[v.Prop] || reported[v.Prop] >= 3 {
				continue
			}
			seen[v.Prop] = true
			reported[v.Prop]++
			small := shrinkHistory(cfg, h.steps, v.Prop, 40)
			hs, _ := runHistory(nil, cfg, small)
			vv := v
			if hs != nil {
				for _, x := range hs.violations {
					if x.Prop == v.Prop {
						vv = x
						break
					}
				}
			}
			report(h, small, vv, fmt.Sprintf("minimised from %d steps (seed %d, history %d)", len(h.steps), *seed, k))
		}
	}
	if *out != "" {
		writeResult(*out, res)
	}
	b, _ := json.Marshal(res.Stats)
	fmt.Fprintln(os.Stderr, string(b))
	for _, v := range res.Violations {
		fmt.Fprintln(os.Stderr, "VIOL", v.Desc, v.Replay)
	}
	return 0
}

func init() { RegisterOracle(&Oracle{Name: "hist", Run: runHistOracle}) }
