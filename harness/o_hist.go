package main

// Oracle `hist`: random multi-session histories against a whole server; wire-level oracles for
// C01 (client mirror vs FETCH 1:* probes), C02 (convergence at quiescence), C05 (no EXPUNGE while
// answering FETCH/STORE/SEARCH).

import (
	"encoding/json"
	"flag"
	"fmt"
	"os"
	"path/filepath"
	"regexp"
	"sort"
	"strings"
	"time"
)

type OracleResult struct {
	Evaluations        int            `json:"evaluations"`
	DistinctNontrivial int            `json:"distinct_nontrivial"`
	Stats              map[string]int `json:"stats"`
	Samples            []any          `json:"samples"`
	Violations         []OracleViol   `json:"violations"`
}

type OracleViol struct {
	Desc   string `json:"desc"`
	Replay string `json:"replay"`
}

func writeResult(path string, res *OracleResult) {
	b, _ := json.MarshalIndent(res, "", " ")
	_ = os.WriteFile(path, b, 0o644)
}

type histCfg struct {
	props   map[string]bool
	steps   int
	nsess   int
	profile string
}

// runHistory executes either generated steps (replaySteps == nil) or the given steps.
func runHistory(r *Rng, cfg histCfg, replaySteps []string) (h *HistRunner, err error) {
	// IDLE pushes are sent at once (bulk time 0) or buffered and merged (gluon's default is 500 ms): the choice is the
	// first step of the history so that a replay starts the server the same way
	bulk := 0
	if replaySteps != nil {
		for _, st := range replaySteps {
			if f := strings.Fields(st); len(f) == 3 && f[0] == "X" && f[1] == "IDLEBULK" {
				bulk = atoi(f[2])
			}
		}
	} else if r.Chance(1, 3) {
		bulk = 250
	}
	// error paths (hfc_hist.go): the history runs against a connector whose calls can be made to fail; like the bulk
	// time it is a property of the server, recorded as a step in front of the history
	failConn := strings.Contains(cfg.profile, "failconn")
	if replaySteps != nil {
		failConn = hfcWantsFailConn(replaySteps)
	}
	var (
		sys *Sys
		hfc *hfcFailConn
	)
	if failConn {
		dummy := c20NewSysDummy([]string{"user"})
		hfc = hfcNewFailConn(dummy)
		sys, err = c20NewSysConn(SysOpts{IdleBulk: time.Duration(bulk) * time.Millisecond, Conn: dummy}, hfc)
	} else {
		sys, err = NewSys(SysOpts{IdleBulk: time.Duration(bulk) * time.Millisecond})
	}
	if err != nil {
		return nil, err
	}
	defer sys.Close(true)
	h = NewHistRunner(sys)
	h.hfc = hfc
	defer h.CloseSessions()
	if err := h.setupMailboxes(); err != nil {
		return h, err
	}
	if replaySteps == nil && bulk != 0 {
		if err := h.Exec(fmt.Sprintf("X IDLEBULK %d", bulk)); err != nil {
			return h, err
		}
	}
	if replaySteps == nil && failConn {
		if err := h.Exec("X FAILCONN"); err != nil {
			return h, err
		}
	}
	if replaySteps != nil {
		for _, st := range replaySteps {
			if err := h.Exec(st); err != nil {
				return h, fmt.Errorf("step %q: %w", st, err)
			}
		}
	} else {
		for k := 0; k < cfg.steps || ((h.pattern != nil || h.hfcPending()) && k < cfg.steps+600); k++ {
			st := h.GenStep(r, cfg.nsess, cfg.profile)
			if err := h.Exec(st); err != nil {
				return h, fmt.Errorf("step %q: %w", st, err)
			}
			// probe: every point between two commands is a candidate; sample a session
			if cfg.props["C01"] && r.Chance(1, 2) {
				if err := h.Exec(fmt.Sprintf("S%d PROBE", r.Intn(cfg.nsess))); err != nil {
					return h, err
				}
			}
		}
		if err := h.Exec("X CONVERGE"); err != nil {
			return h, err
		}
	}
	// the Lean spec judges the traces
	if os.Getenv("VERIF_DRIVER") != "" {
		lines := h.traceLines()
		if len(lines) > 0 {
			ans, jerr := leanJudge(lines)
			if jerr != nil {
				return h, fmt.Errorf("lean judge: %w", jerr)
			}
			goFound := false
			for _, v := range h.violations {
				if v.Prop == "C01" {
					goFound = true
				}
			}
			for k, a := range ans {
				if !strings.HasPrefix(a, "ok") && !goFound {
					h.violate("C01", fmt.Sprintf("Lean mirror judge on session trace %d: %s", k, a))
				}
				if strings.HasPrefix(a, "ok") && goFound {
					h.stats["judge.go-only"]++
				}
			}
		}
	}
	return h, nil
}

func (cfg histCfg) relevant(h *HistRunner) []Violation {
	var out []Violation
	for _, v := range h.violations {
		if cfg.props[v.Prop] {
			out = append(out, v)
		} else if v.Prop == "PANIC" {
			// a server panic is a violation of whichever property is being checked (the view can no longer
			// be served at all) and of C11/C19
			for p := range cfg.props {
				out = append(out, Violation{Prop: p, Desc: v.Desc, Step: v.Step})
				break
			}
		}
	}
	return out
}

// ---- violation signatures ---------------------------------------------------------------
//
// Two violations of one property can have unrelated root causes; a shrinker that only asks "does
// some violation of Cxx persist" drifts from one cause to another and ends with a mixture. The
// signature abstracts a violation to its kind (and, for flag differences, which flag differs in
// which direction); the shrinker only accepts candidates that still show the same signature.

var (
	reSigNum   = regexp.MustCompile(`[0-9]+`)
	reSigViews = regexp.MustCompile(`view is \[(.*)\] but a fresh session sees \[(.*)\]`)
	reSigFlags = regexp.MustCompile(`answered with flags (\S+) but the client was last told (\S+)`)
)

func flagSetDiff(a, b string) (onlyA, onlyB []string) {
	set := func(x string) map[string]bool {
		m := map[string]bool{}
		for _, f := range strings.Split(x, ",") {
			if f != "" && f != "-" && f != `\recent` {
				m[f] = true
			}
		}
		return m
	}
	ma, mb := set(a), set(b)
	for f := range ma {
		if !mb[f] {
			onlyA = append(onlyA, f)
		}
	}
	for f := range mb {
		if !ma[f] {
			onlyB = append(onlyB, f)
		}
	}
	sort.Strings(onlyA)
	sort.Strings(onlyB)
	return
}

// violSig: property + kind of disagreement.
func violSig(v Violation) string {
	d := v.Desc
	if i := strings.Index(d, ": "); i >= 0 && i < 12 && strings.HasPrefix(d, "S") {
		d = d[i+2:] // drop the "S<i>: " prefix
	}
	switch v.Prop {
	case "C02":
		if m := reSigViews.FindStringSubmatch(d); m != nil {
			a, b := strings.Fields(m[1]), strings.Fields(m[2])
			if len(a) != len(b) {
				if len(a) > len(b) {
					return "C02:count:session-has-more"
				}
				return "C02:count:session-has-fewer"
			}
			var parts []string
			for k := range a {
				pa, pb := strings.SplitN(a[k], ":", 2), strings.SplitN(b[k], ":", 2)
				if pa[0] != pb[0] {
					return "C02:uids-differ"
				}
				oa, ob := flagSetDiff(pa[1], pb[1])
				for _, f := range oa {
					parts = append(parts, "session-only"+f)
				}
				for _, f := range ob {
					parts = append(parts, "fresh-only"+f)
				}
			}
			sort.Strings(parts)
			uniq := parts[:0]
			for k, x := range parts {
				if k == 0 || x != parts[k-1] {
					uniq = append(uniq, x)
				}
			}
			return "C02:flags:" + strings.Join(uniq, "+")
		}
	case "C01":
		if m := reSigFlags.FindStringSubmatch(d); m != nil {
			oa, ob := flagSetDiff(m[1], m[2])
			return "C01:flags:answered-only" + strings.Join(oa, "") + ":told-only" + strings.Join(ob, "")
		}
	case "PANIC":
		if i := strings.Index(d, "\": "); i >= 0 {
			d = d[i+3:]
		}
	}
	d = reSigNum.ReplaceAllString(d, "N")
	if i := strings.Index(d, "(during"); i >= 0 {
		d = strings.TrimSpace(d[:i])
	}
	if len(d) > 90 {
		d = d[:90]
	}
	return v.Prop + ":" + d
}

// primaryViolations drops follow-on reports: once the client's numbering is off (a structural C01
// violation), every later flag comparison of that session compares different messages.
func primaryViolations(vs []Violation) []Violation {
	structural := map[string]int{} // session prefix -> first step with a structural C01 violation
	for _, v := range vs {
		if v.Prop == "C01" && !strings.HasPrefix(violSig(v), "C01:flags:") {
			sess := strings.SplitN(v.Desc, ":", 2)[0]
			if st, ok := structural[sess]; !ok || v.Step < st {
				structural[sess] = v.Step
			}
		}
	}
	var out []Violation
	for _, v := range vs {
		if v.Prop == "C01" && strings.HasPrefix(violSig(v), "C01:flags:") {
			sess := strings.SplitN(v.Desc, ":", 2)[0]
			if st, ok := structural[sess]; ok && v.Step >= st {
				continue
			}
		}
		out = append(out, v)
	}
	return out
}

// ---- shrinker -------------------------------------------------------------------------------
//
// Strategy (each candidate = one fresh server + replay, ~0.1 s):
//  0. determinise: put an X BARRIER after every step; if the violation persists the rest works on
//     a history whose outcome does not depend on goroutine scheduling (otherwise every candidate is
//     tried up to `tries` times);
//  1. truncate after the step at which the violation was detected (C01/C05/PANIC);
//  2. structural removals: all steps of one session, all steps mentioning one marker, all barriers;
//  3. ddmin-style chunk removal down to single steps, repeated to a fixpoint (1-minimal);
//  4. step simplification: sequence sets to a single number, two-flag stores to one flag.
type shrinker struct {
	cfg    histCfg
	sig    string
	budget int
	tries  int
	runs   int
}

func (sh *shrinker) failsOnce(st []string) (bool, *HistRunner) {
	if sh.budget <= 0 {
		return false, nil
	}
	sh.budget--
	sh.runs++
	h, err := runHistory(nil, sh.cfg, st)
	if h == nil || err != nil {
		return false, h
	}
	for _, v := range sh.cfg.relevant(h) {
		if violSig(v) == sh.sig {
			return true, h
		}
	}
	return false, h
}

func (sh *shrinker) fails(st []string) bool {
	for k := 0; k < sh.tries; k++ {
		if ok, _ := sh.failsOnce(st); ok {
			return true
		}
	}
	return false
}

func withoutIdx(st []string, drop func(i int, s string) bool) []string {
	out := make([]string, 0, len(st))
	for i, s := range st {
		if !drop(i, s) {
			out = append(out, s)
		}
	}
	return out
}

var (
	reMarker   = regexp.MustCompile(`\bm[0-9]+\b`)
	reSeqRange = regexp.MustCompile(`^(\d+)[:,](\d+|\*)$`)
)

func simplifyStep(s string) []string {
	f := strings.Fields(s)
	var out []string
	if len(f) >= 5 && f[1] == "CMD" {
		// S<i> CMD <kind> <verb> <set> ...
		if m := reSeqRange.FindStringSubmatch(f[4]); m != nil {
			for _, one := range []string{m[1], m[2]} {
				if one == "*" {
					continue
				}
				g := append([]string{}, f...)
				g[4] = one
				out = append(out, strings.Join(g, " "))
			}
		}
		if f[2] == "STORE" && len(f) == 8 { // two flags: (\A \B)
			for _, one := range []string{strings.Trim(f[6], "()"), strings.Trim(f[7], "()")} {
				g := append([]string{}, f[:6]...)
				g = append(g, "("+one+")")
				out = append(out, strings.Join(g, " "))
			}
		}
	}
	return out
}

func shrinkHistory(cfg histCfg, steps []string, sig string, budget int) (best []string, runs int, deterministic bool) {
	sh := &shrinker{cfg: cfg, sig: sig, budget: budget, tries: 3}
	cur := append([]string{}, steps...)

	// 0. determinise
	var sat []string
	for _, s := range cur {
		sat = append(sat, s)
		if !strings.HasPrefix(s, "X ") {
			sat = append(sat, "X BARRIER")
		}
	}
	if ok, _ := sh.failsOnce(sat); ok {
		if ok2, _ := sh.failsOnce(sat); ok2 {
			cur, deterministic = sat, true
			sh.tries = 1
		}
	}

	// 1. truncate at the detecting step
	if ok, h := sh.failsOnce(cur); ok && h != nil {
		for _, v := range cfg.relevant(h) {
			if violSig(v) == sig && v.Step >= 0 && v.Step+1 < len(cur) {
				cand := append([]string{}, cur[:v.Step+1]...)
				if sh.fails(cand) {
					cur = cand
				}
				break
			}
		}
	}

	for round := 0; round < 4 && sh.budget > 0; round++ {
		before := len(cur)
		// 2. structural removals
		for i := 0; i < 4; i++ {
			pfx := fmt.Sprintf("S%d ", i)
			cand := withoutIdx(cur, func(_ int, s string) bool { return strings.HasPrefix(s, pfx) })
			if len(cand) < len(cur) && sh.fails(cand) {
				cur = cand
			}
		}
		seenM := map[string]bool{}
		for _, s := range cur {
			for _, m := range reMarker.FindAllString(s, -1) {
				seenM[m] = true
			}
		}
		for _, m := range sortedKeys2(seenM) {
			re := regexp.MustCompile(`\b` + m + `\b`)
			cand := withoutIdx(cur, func(_ int, s string) bool { return re.MatchString(s) })
			if len(cand) < len(cur) && sh.fails(cand) {
				cur = cand
			}
		}
		// 3. ddmin chunks
		for chunk := len(cur) / 2; chunk >= 1 && sh.budget > 0; {
			removed := false
			for i := 0; i+chunk <= len(cur) && sh.budget > 0; {
				cand := append(append([]string{}, cur[:i]...), cur[i+chunk:]...)
				if sh.fails(cand) {
					cur = cand
					removed = true
				} else {
					i += chunk
				}
			}
			if chunk == 1 && !removed {
				break
			}
			if !removed || chunk > 1 {
				chunk /= 2
			}
			if chunk == 0 && removed {
				chunk = 1
			}
		}
		// 4. simplify steps
		for i := 0; i < len(cur) && sh.budget > 0; i++ {
			for _, alt := range simplifyStep(cur[i]) {
				cand := append([]string{}, cur...)
				cand[i] = alt
				if sh.fails(cand) {
					cur = cand
					break
				}
			}
		}
		if len(cur) == before {
			break
		}
	}
	return cur, sh.runs, deterministic
}

func sortedKeys2(m map[string]bool) []string {
	var k []string
	for x := range m {
		k = append(k, x)
	}
	sort.Strings(k)
	return k
}

func runHistOracle(args []string) int {
	fs := flag.NewFlagSet("hist", flag.ExitOnError)
	seed := fs.Uint64("seed", 1, "")
	out := fs.String("out", "", "")
	replayDir := fs.String("replaydir", ".", "")
	replay := fs.String("replay", "", "")
	n := fs.Int("n", 20, "histories")
	steps := fs.Int("steps", 40, "steps per history")
	props := fs.String("props", "C01,C02,C05", "")
	profile := fs.String("profile", "", "generator profile: noclose (no CLOSE), hold (X HOLD/RELEASE), samebox (COPY/MOVE onto the selected mailbox), race (free-running sessions, see hist.go)")
	shrinkBudget := fs.Int("shrink", 250, "replays the shrinker may spend per reported violation")
	perSig := fs.Int("persig", 2, "reports per violation signature")
	minimise := fs.Bool("minimise", false, "with -replay: shrink the replayed history once per violation signature")
	_ = fs.Parse(args)
	cfg := histCfg{props: map[string]bool{}, steps: *steps, profile: *profile}
	for _, p := range strings.Split(*props, ",") {
		cfg.props[p] = true
	}
	res := &OracleResult{Stats: map[string]int{}}
	report := func(h *HistRunner, steps []string, v Violation, note string) {
		text := fmt.Sprintf("oracle hist -props %s\n", *props)
		text += strings.Join(steps, "\n") + "\n"
		text += fmt.Sprintf("# property %s: %s\n# %s\n# replay: ./check %s --replay <this file>\n", v.Prop, v.Desc, note, v.Prop)
		name := fmt.Sprintf("%s-hist-%d-%d.txt", v.Prop, *seed, len(res.Violations))
		path := filepath.Join(*replayDir, name)
		_ = os.MkdirAll(*replayDir, 0o755)
		_ = os.WriteFile(path, []byte(text), 0o644)
		res.Violations = append(res.Violations, OracleViol{Desc: v.Prop + ": " + v.Desc + " {" + violSig(v) + "}", Replay: path})
	}
	if *replay != "" {
		b, err := os.ReadFile(*replay)
		if err != nil {
			fmt.Println(err)
			return 1
		}
		var st []string
		for i, l := range strings.Split(string(b), "\n") {
			if i == 0 || l == "" || strings.HasPrefix(l, "#") {
				continue
			}
			st = append(st, l)
		}
		h, err := runHistory(nil, cfg, st)
		res.Evaluations = 1
		if err != nil {
			fmt.Fprintln(os.Stderr, "replay error:", err)
		}
		if h != nil {
			seen := map[string]bool{}
			for _, v := range primaryViolations(cfg.relevant(h)) {
				if !*minimise {
					report(h, st, v, "replayed; signature "+violSig(v))
					continue
				}
				sig := violSig(v)
				if seen[sig] {
					continue
				}
				seen[sig] = true
				small, runs, det := shrinkHistory(cfg, st, sig, *shrinkBudget)
				report(h, small, v, fmt.Sprintf("signature %s; minimised from %d to %d steps in %d replays (schedule-independent: %v)", sig, len(st), len(small), runs, det))
			}
		}
		res.DistinctNontrivial = 2
		if *out != "" {
			writeResult(*out, res)
		}
		for _, v := range res.Violations {
			fmt.Fprintln(os.Stderr, "VIOL", v.Desc, v.Replay)
		}
		return 0
	}
	// corpus first: directed histories (minimised past failures, known findings) from $VERIF_CORPUS/*.hist
	if dir := os.Getenv("VERIF_CORPUS"); dir != "" {
		files, _ := filepath.Glob(filepath.Join(dir, "*.hist"))
		sort.Strings(files)
		for _, f := range files {
			b, err := os.ReadFile(f)
			if err != nil {
				continue
			}
			var st []string
			for i, l := range strings.Split(string(b), "\n") {
				if i == 0 || l == "" || strings.HasPrefix(l, "#") {
					continue
				}
				st = append(st, l)
			}
			h, err := runHistory(nil, cfg, st)
			res.Evaluations++
			res.Stats["corpus"]++
			if h == nil {
				continue
			}
			if err != nil {
				h.violate("PANIC", "corpus history aborted: "+err.Error())
			}
			seen := map[string]bool{}
			for _, v := range cfg.relevant(h) {
				if seen[v.Prop] {
					continue
				}
				seen[v.Prop] = true
				report(h, st, v, "corpus history "+filepath.Base(f))
			}
		}
	}
	r := NewRng(*seed)
	reported := map[string]int{}
	for k := 0; k < *n; k++ {
		hr := r.Fork()
		cfg.nsess = hr.Range(1, 4)
		cfg.profile = *profile
		if cfg.props["C02"] {
			// C02: every fourth history holds a burst against a stalled observer, every fourth a batch creation
			// followed by an in-place change of one member, every fourth up to three stale-view STOREs (hist_c02.go)
			switch k % 4 {
			case 1:
				cfg.profile += ",burst"
			case 2:
				cfg.profile += ",stale"
			case 3:
				cfg.profile += ",batch"
			}
		}
		if k%4 == 0 {
			// error paths: the history runs against a connector whose calls fail on request, and every command kind goes
			// once through the pattern [changes of other sessions delivered, not flushed -> the session's own command,
			// answered NO -> probe] (hfc_hist.go)
			cfg.profile += ",failconn"
		}
		h, err := runHistory(hr, cfg, nil)
		if h == nil {
			fmt.Fprintln(os.Stderr, "history setup failed:", err)
			res.Stats["setup-failed"]++
			continue
		}
		res.Evaluations++
		res.Stats["steps"] += len(h.steps)
		for _, key := range sortedKeys(h.stats) {
			res.Stats[key] += h.stats[key]
		}
		for _, key := range sortedKeys(h.expungeDuring) {
			res.Stats["expunge.during."+key] += h.expungeDuring[key]
		}
		for _, st := range h.steps {
			f := strings.Fields(st)
			kind := f[0][:1] + "." + f[1]
			if f[1] == "CMD" {
				kind = "S." + f[2]
			}
			res.Stats["step."+kind]++
		}
		nontrivial := false
		for _, s := range h.sess {
			if s != nil && len(s.trace) > 4 {
				nontrivial = true
			}
		}
		if nontrivial {
			res.DistinctNontrivial++
		}
		if len(res.Samples) < 2 {
			res.Samples = append(res.Samples, map[string]any{"history": h.steps})
		}
		if err != nil {
			// the server stopped answering or dropped a connection mid-history: report as crash/hang finding
			v := Violation{Prop: "C01", Desc: "history aborted: " + err.Error()}
			if cfg.props["C01"] && reported["abort"] < 2 {
				reported["abort"]++
				report(h, h.steps, v, "history aborted (server error, dropped connection or timeout)")
			}
			continue
		}
		seen := map[string]bool{}
		for _, v := range primaryViolations(cfg.relevant(h)) {
			sig := violSig(v)
			if seen[sig] || reported[sig] >= *perSig {
				continue
			}
			seen[sig] = true
			reported[sig]++
			small, runs, det := shrinkHistory(cfg, h.steps, sig, *shrinkBudget)
			hs, _ := runHistory(nil, cfg, small)
			vv := v
			if hs != nil {
				for _, x := range cfg.relevant(hs) {
					if violSig(x) == sig {
						vv = x
						break
					}
				}
			}
			report(h, small, vv, fmt.Sprintf("signature %s; minimised from %d to %d steps in %d replays (seed %d, history %d, schedule-independent: %v)", sig, len(h.steps), len(small), runs, *seed, k, det))
		}
	}
	if *out != "" {
		writeResult(*out, res)
	}
	b, _ := json.Marshal(res.Stats)
	fmt.Fprintln(os.Stderr, string(b))
	for _, v := range res.Violations {
		fmt.Fprintln(os.Stderr, "VIOL", v.Desc, v.Replay)
	}
	return 0
}

func init() { RegisterOracle(&Oracle{Name: "hist", Run: runHistOracle}) }
