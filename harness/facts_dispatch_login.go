package main

// Facts/Dispatch.lean (C18), second part: WHERE the user of a session comes from.
//
// The model (`Gluon.Auth.step`, `chosen`) binds an accepted LOGIN to one of the users whose connector
// accepted the presented credentials.  That rests on the shape of
//
//   handleLogin  -> s.backend.GetState(ctx, cmd.UserID, []byte(cmd.Password), …)
//   GetState     -> userID, err := b.getUserID(ctx, username, password) … state, err := b.users[userID].newState() … return state, nil
//   getUserID    -> every `return <id>, nil` is `return user.userID, nil` directly inside
//                   `if user.connector.Authorize(ctx, username, password) {` directly inside `for _, user := range b.users {`
//   b.users      -> only ever stored as `b.users[userID] = user` with `user` built by `newUser(ctx, userID, …, conn, …)`,
//                   whose literal sets `userID: userID` and `connector: conn`; those two fields are never assigned again
//
// i.e. there is no other source of a user id (a map, a cache, a remembered previous login, a default) on any
// path that returns without an error.  Every return statement of getUserID is listed with its classification;
// anything of another shape is "unknown" and makes `facts.userFromAuthorize` false.

import (
	"fmt"
	"go/ast"
	"go/token"
	"go/types"
	"strings"
)

// dfRootIdent: the identifier an assignable expression is rooted in (x, x.f, x[i], *x, x[i:j], (x)).
func dfRootIdent(e ast.Expr) string {
	for {
		switch x := e.(type) {
		case *ast.Ident:
			return x.Name
		case *ast.SelectorExpr:
			e = x.X
		case *ast.IndexExpr:
			e = x.X
		case *ast.StarExpr:
			e = x.X
		case *ast.ParenExpr:
			e = x.X
		case *ast.SliceExpr:
			e = x.X
		default:
			return ""
		}
	}
}

// dfWrites counts, per root identifier, the statements of fd that (re)define, assign, increment or take the
// address of it (function literals included: a closure can assign a captured variable).
func dfWrites(fd *ast.FuncDecl) map[string]int {
	w := map[string]int{}
	ast.Inspect(fd.Body, func(n ast.Node) bool {
		switch x := n.(type) {
		case *ast.AssignStmt:
			for _, l := range x.Lhs {
				if r := dfRootIdent(l); r != "" {
					w[r]++
				}
			}
		case *ast.IncDecStmt:
			if r := dfRootIdent(x.X); r != "" {
				w[r]++
			}
		case *ast.RangeStmt:
			for _, e := range []ast.Expr{x.Key, x.Value} {
				if e != nil {
					if r := dfRootIdent(e); r != "" {
						w[r]++
					}
				}
			}
		case *ast.UnaryExpr:
			if x.Op == token.AND {
				if r := dfRootIdent(x.X); r != "" {
					w[r]++
				}
			}
		case *ast.ValueSpec:
			for _, id := range x.Names {
				w[id.Name]++
			}
		case *ast.FuncLit:
			for _, p := range x.Type.Params.List {
				for _, id := range p.Names {
					w[id.Name]++
				}
			}
		case *ast.TypeSwitchStmt:
			if as, ok := x.Assign.(*ast.AssignStmt); ok {
				for _, l := range as.Lhs {
					if r := dfRootIdent(l); r != "" {
						w[r]++
					}
				}
			}
		}
		return true
	})
	return w
}

func dfParamNames(fd *ast.FuncDecl) []string {
	var out []string
	for _, p := range fd.Type.Params.List {
		if len(p.Names) == 0 {
			out = append(out, "_")
		}
		for _, id := range p.Names {
			out = append(out, id.Name)
		}
	}
	return out
}

func dfRecvName(fd *ast.FuncDecl) string {
	if fd.Recv != nil && len(fd.Recv.List) == 1 && len(fd.Recv.List[0].Names) == 1 {
		return fd.Recv.List[0].Names[0].Name
	}
	return ""
}

// dfPackageErrVars: package-level `var ErrX = errors.New(…)` / fmt.Errorf names
func dfPackageErrVars(files []*ast.File) map[string]bool {
	out := map[string]bool{}
	for _, f := range files {
		for _, d := range f.Decls {
			gd, ok := d.(*ast.GenDecl)
			if !ok || gd.Tok != token.VAR {
				continue
			}
			for _, sp := range gd.Specs {
				vs := sp.(*ast.ValueSpec)
				for i, n := range vs.Names {
					if i < len(vs.Values) {
						if call, ok := vs.Values[i].(*ast.CallExpr); ok {
							switch types.ExprString(call.Fun) {
							case "errors.New", "fmt.Errorf":
								out[n.Name] = true
							}
						}
					}
				}
			}
		}
	}
	return out
}

// dfIsNonNilError: the expression is certainly a non-nil error value
func dfIsNonNilError(e ast.Expr, errVars map[string]bool) bool {
	switch x := e.(type) {
	case *ast.Ident:
		return errVars[x.Name]
	case *ast.CallExpr:
		switch types.ExprString(x.Fun) {
		case "errors.New", "fmt.Errorf":
			return true
		}
	}
	return false
}

// dfReturnsOutsideClosures: the return statements of fd that return from fd itself, with their ancestors below fd.Body
func dfReturnsOutsideClosures(fd *ast.FuncDecl) (rets []*ast.ReturnStmt, stacks [][]ast.Node) {
	lfWalkStack(fd.Body, func(n ast.Node, stack []ast.Node) {
		ret, ok := n.(*ast.ReturnStmt)
		if !ok {
			return
		}
		for _, a := range stack {
			if _, ok := a.(*ast.FuncLit); ok {
				return
			}
		}
		rets = append(rets, ret)
		stacks = append(stacks, append([]ast.Node{}, stack...))
	})
	return
}

func dfLoginSourceFacts(sess, back []*ast.File) string {
	var b strings.Builder
	errVars := dfPackageErrVars(back)

	// ---- getUserID: every return
	var rows [][2]string
	if fd := dfFindFunc(back, "Backend.getUserID"); fd == nil {
		rows = append(rows, [2]string{"no-such-function", "unknown"})
	} else {
		named := false
		if fd.Type.Results != nil {
			for _, r := range fd.Type.Results.List {
				if len(r.Names) > 0 {
					named = true
				}
			}
		}
		params := dfParamNames(fd)
		recv := dfRecvName(fd)
		writes := dfWrites(fd)
		rets, stacks := dfReturnsOutsideClosures(fd)
		for i, ret := range rets {
			if named || len(ret.Results) != 2 || len(params) != 3 || recv == "" {
				rows = append(rows, [2]string{"?", "unknown"})
				continue
			}
			r0 := types.ExprString(ret.Results[0])
			kind := "unknown"
			if id, ok := ret.Results[1].(*ast.Ident); ok && id.Name == "nil" {
				// a user id is handed out: it must be the range user whose connector has just accepted (username, password)
				st := stacks[i] // fd.Body, RangeStmt, its Body, IfStmt, its Body
				if len(st) == 5 {
					rng, ok1 := st[1].(*ast.RangeStmt)
					ifs, ok2 := st[3].(*ast.IfStmt)
					if ok1 && ok2 && st[0] == ast.Node(fd.Body) && st[2] == ast.Node(rng.Body) && st[4] == ast.Node(ifs.Body) &&
						ifs.Init == nil && rng.Tok == token.DEFINE && types.ExprString(rng.X) == recv+".users" &&
						(rng.Key == nil || identLit(rng.Key) == "_") && identLit(rng.Value) != "" && identLit(rng.Value) != "_" {
						v := identLit(rng.Value)
						user, pass := params[1], params[2]
						cond := types.ExprString(ifs.Cond)
						want := fmt.Sprintf("%s.connector.Authorize(%s, %s, %s)", v, params[0], user, pass)
						// v is defined by this range only; the presented credentials are never written
						if cond == want && r0 == v+".userID" && writes[v] == 1 && writes[user] == 0 && writes[pass] == 0 &&
							v != user && v != pass && v != recv {
							kind = "authorized"
						}
					}
				}
			} else if dfIsNonNilError(ret.Results[1], errVars) {
				kind = "error"
			}
			rows = append(rows, [2]string{r0, kind})
		}
		if len(rets) == 0 {
			rows = append(rows, [2]string{"no-return", "unknown"})
		}
	}
	b.WriteString("/-- every `return` of `Backend.getUserID` (closures excluded), in source order: (first result, kind).\n")
	b.WriteString("    \"authorized\" = `return user.userID, nil` directly in `if user.connector.Authorize(ctx, username, password) {` directly in\n")
	b.WriteString("    `for _, user := range b.users {` of the function body, `username` / `password` being the function's own parameters and\n")
	b.WriteString("    neither they nor `user` written anywhere in the function; \"error\" = the second result is a package-level\n")
	b.WriteString("    `Err… = errors.New(…)` or an `errors.New` / `fmt.Errorf` call; anything else (a user id from a map, a cache, a field …) \"unknown\" -/\n")
	b.WriteString("def getUserIDReturns : List (String × String) := " + dfLeanPairs(rows) + "\n\n")

	// ---- GetState: the state comes from b.users[<the id getUserID returned for the presented credentials>]
	binds := "unknown"
	if fd := dfFindFunc(back, "Backend.GetState"); fd != nil {
		binds = "false"
		params := dfParamNames(fd)
		recv := dfRecvName(fd)
		writes := dfWrites(fd)
		uVar, sVar := "", ""
		calls := 0
		ast.Inspect(fd.Body, func(n ast.Node) bool {
			if call, ok := n.(*ast.CallExpr); ok && calleeName(call) == "getUserID" {
				calls++
			}
			return true
		})
		for _, s := range fd.Body.List {
			as, ok := s.(*ast.AssignStmt)
			if !ok || len(as.Rhs) != 1 || len(as.Lhs) != 2 || as.Tok != token.DEFINE {
				continue
			}
			rhs := types.ExprString(as.Rhs[0])
			if len(params) >= 3 && uVar == "" && rhs == fmt.Sprintf("%s.getUserID(%s, %s, %s)", recv, params[0], params[1], params[2]) {
				uVar = identLit(as.Lhs[0])
			} else if uVar != "" && sVar == "" && rhs == fmt.Sprintf("%s.users[%s].newState()", recv, uVar) {
				sVar = identLit(as.Lhs[0])
			}
		}
		if uVar != "" && sVar != "" && calls == 1 && len(params) >= 3 &&
			writes[uVar] == 1 && writes[sVar] == 1 && writes[params[1]] == 0 && writes[params[2]] == 0 && writes[recv] == 0 {
			rets, _ := dfReturnsOutsideClosures(fd)
			good, okAll := 0, true
			for _, ret := range rets {
				if len(ret.Results) != 2 {
					okAll = false
					continue
				}
				r0, r1 := types.ExprString(ret.Results[0]), types.ExprString(ret.Results[1])
				switch {
				case r0 == sVar && r1 == "nil":
					good++
				case r0 == "nil" && r1 != "nil":
				default:
					okAll = false
				}
			}
			if okAll && good >= 1 {
				binds = "true"
			}
		}
	}
	b.WriteString("/-- `Backend.GetState`: `userID, err := b.getUserID(ctx, username, password)` on its own parameters (the only call),\n")
	b.WriteString("    `state, err := b.users[userID].newState()`, every return is `nil, <error>` or `state, nil`; none of these variables is written again -/\n")
	b.WriteString("def getStateBindsAuthorizedUser : Option Bool := " + leanOptBool(binds) + "\n\n")

	// ---- handleLogin: the credentials handed to GetState are the ones of the LOGIN command
	passes := "unknown"
	if fd := dfFindFunc(sess, "Session.handleLogin"); fd != nil {
		passes = "false"
		params := dfParamNames(fd)
		writes := dfWrites(fd)
		n, good := 0, 0
		ast.Inspect(fd.Body, func(x ast.Node) bool {
			if call, ok := x.(*ast.CallExpr); ok && calleeName(call) == "GetState" {
				n++
				if len(params) >= 3 && len(call.Args) >= 3 &&
					types.ExprString(call.Args[1]) == params[2]+".UserID" &&
					types.ExprString(call.Args[2]) == "[]byte("+params[2]+".Password)" {
					good++
				}
			}
			return true
		})
		if n == 1 && good == 1 && writes[params[2]] == 0 {
			passes = "true"
		}
	}
	b.WriteString("/-- `handleLogin` calls `GetState` once, with `cmd.UserID` and `[]byte(cmd.Password)` of its own command, which it never writes -/\n")
	b.WriteString("def loginPassesPresentedCredentials : Option Bool := " + leanOptBool(passes) + "\n\n")

	// ---- b.users: keyed by the user's own id, user.connector is the connector the user was added with
	keyed := "unknown"
	{
		stores, goodStores := 0, 0
		fieldWrites := 0
		for _, f := range back {
			for _, d := range f.Decls {
				fd, ok := d.(*ast.FuncDecl)
				if !ok || fd.Body == nil {
					continue
				}
				ast.Inspect(fd.Body, func(n ast.Node) bool {
					as, ok := n.(*ast.AssignStmt)
					if !ok {
						return true
					}
					for _, l := range as.Lhs {
						if sel, ok := l.(*ast.SelectorExpr); ok && (sel.Sel.Name == "userID" || sel.Sel.Name == "connector") {
							fieldWrites++
						}
						ix, ok := l.(*ast.IndexExpr)
						if !ok || !strings.HasSuffix(types.ExprString(ix.X), ".users") {
							continue
						}
						stores++
						// b.users[K] = V   with   V, err := newUser(ctx, K, …) earlier in the same function, V and K written once / never
						if len(as.Lhs) == 1 && len(as.Rhs) == 1 && as.Tok == token.ASSIGN {
							k, v := identLit(ix.Index), identLit(as.Rhs[0])
							w := dfWrites(fd)
							found := false
							ast.Inspect(fd.Body, func(m ast.Node) bool {
								if a2, ok := m.(*ast.AssignStmt); ok && a2.Tok == token.DEFINE && len(a2.Rhs) == 1 && len(a2.Lhs) == 2 && identLit(a2.Lhs[0]) == v && a2.Pos() < as.Pos() {
									if call, ok := a2.Rhs[0].(*ast.CallExpr); ok && calleeName(call) == "newUser" && len(call.Args) >= 4 && identLit(call.Args[1]) == k {
										// the connector handed to newUser is a parameter of this function, never written
										for _, pn := range dfParamNames(fd) {
											if pn == identLit(call.Args[3]) && w[pn] == 0 {
												found = true
											}
										}
									}
								}
								return true
							})
							if k != "" && v != "" && found && w[v] == 1 && w[k] == 0 {
								goodStores++
							}
						}
					}
					return true
				})
			}
		}
		lit := false
		if fd := dfFindFunc(back, "newUser"); fd != nil {
			params := dfParamNames(fd)
			w := dfWrites(fd)
			ast.Inspect(fd.Body, func(n ast.Node) bool {
				cl, ok := n.(*ast.CompositeLit)
				if !ok || types.ExprString(cl.Type) != "user" {
					return true
				}
				idOK, connOK := false, false
				for _, el := range cl.Elts {
					kv, ok := el.(*ast.KeyValueExpr)
					if !ok {
						continue
					}
					switch identLit(kv.Key) {
					case "userID":
						idOK = len(params) >= 2 && identLit(kv.Value) == params[1] && w[params[1]] == 0
					case "connector":
						connOK = len(params) >= 4 && identLit(kv.Value) == params[3] && w[params[3]] == 0
					}
				}
				if idOK && connOK {
					lit = true
				}
				return true
			})
		}
		if stores >= 1 && stores == goodStores && fieldWrites == 0 && lit {
			keyed = "true"
		} else {
			keyed = "false"
		}
	}
	b.WriteString("/-- every store into `b.users` is `b.users[userID] = user` with `user, err := newUser(ctx, userID, …)`; `newUser`'s literal sets\n")
	b.WriteString("    `userID: userID` and `connector: conn` from its parameters; no other assignment to a `.userID` / `.connector` field in internal/backend -/\n")
	b.WriteString("def usersKeyedByOwnID : Option Bool := " + leanOptBool(keyed) + "\n\n")
	return b.String()
}
