package main

// Folded header fields for the oracle `c15search` (property C15).
//
// The header-string keys of SEARCH (BCC CC FROM SUBJECT TO HEADER) test the value Header.Get answers: the UNFOLDED
// value, in which a line break with the white space around it reads as one space (rfc822.mergeMultiline; Lean:
// Search.unfold, Model/SearchHeader.lean).  A string that spans a fold occurs in the value and not in the raw header
// block; a string that holds the raw form of the fold (CRLF, doubled blanks, a tab) occurs in the block and not in
// the value.  This file has
//
//   c15BuildValue     the value generator of every generated message (o_search.go msg()): tokens, where the value is
//                     folded, in which of the ways mail software and careless software fold (CRLF + one or several
//                     blanks / tabs, white space BEFORE the break, a break right after the colon, a break inside a word,
//                     a continuation line of white space only, U+00A0 at the line end, several folds, long fields),
//                     and the value Header.Get answers BY CONSTRUCTION (every message's claim is checked against the
//                     Lean model's derivation from the stored literal: judge-c15-hdr)
//   msgNeedle         search strings derived from the values of the generated messages: spanning a fold point,
//                     starting / ending on it, one character on each side, the whole value, case-flipped, and the
//                     look-alikes that must NOT match (raw separator, two blanks, a tab, no blank)
//   genC15FoldWorld   directed scenario `folds`: for each of Subject From To Cc Bcc and three HEADER names a message with
//                     that field folded, a twin with the same text on one line, a look-alike with the raw white space,
//                     and every kind of search string for every fold — alone, under NOT, in OR / lists with keys that
//                     match nothing, and next to keys that hit the same message (other header-string keys, SENT*,
//                     TEXT), SEARCH and UID SEARCH, with and without CHARSET.

import (
	"fmt"
	"strconv"
	"strings"
	"unicode/utf8"
)

type c15Sep struct{ raw, val string }

var (
	// a line break inside a value, with what stands around it
	c15FoldSeps = []c15Sep{
		{"\r\n ", " "}, {"\r\n ", " "}, {"\r\n\t", " "}, {"\r\n   ", " "}, {" \r\n ", " "}, {"\t\r\n \t ", " "}, {"  \r\n\t", " "},
		{"\r\n \r\n ", "  "},    // a continuation line of white space only: an empty piece between two single spaces
		{"\u00a0\r\n ", " "}, // U+00A0 is white space for bytes.TrimSpace
	}
	c15TameSeps  = []c15Sep{{"\r\n ", " "}, {"\r\n ", " "}, {"\r\n\t", " "}, {"\r\n  ", " "}}
	c15PlainSeps = []c15Sep{{" ", " "}, {" ", " "}, {" ", " "}, {" ", " "}, {" ", " "}, {"  ", "  "}, {"\t", "\t"}}
	// between the colon and the first piece (nothing of it is part of the value)
	c15Leads = []string{" ", " ", " ", " ", " ", "", "  ", "\t", "\r\n ", "\r\n\t", " \r\n ", " \r\n \t"}
	// between the last piece and the closing CRLF
	c15Tails = []c15Sep{{"", ""}, {"", ""}, {"", ""}, {"", ""}, {"", ""}, {" ", ""}, {"\t ", ""}, {"\r\n ", " "}}
)

// c15Value: one header field value as generated
type c15Value struct {
	raw     string   // what follows "name:" in the literal, the closing CRLF included
	val     string   // what Header.Get answers, by construction
	folds   []int    // offsets in val of the white space that stands for a line break
	widths  []int    // its width in val (1; 2 for a white-space-only continuation line)
	rawSeps []string // the raw text of that break
	nbreaks int      // line breaks in raw, the closing one not counted
}

type c15FoldRef struct {
	hdr, off, wid int
	raw           string
}

// c15BuildValue: tokens (non-empty, no white space at their ends) -> a field value. foldPct = chance of a line break
// between two tokens; wild = all the separators above (else: plain CRLF + blank/tab folds at token boundaries, one blank
// after the colon — for fields the server parses on APPEND: From, Date); split = a token may be broken in two by a fold.
func c15BuildValue(r *Rng, tokens []string, foldPct int, wild, split bool) c15Value {
	type tok struct {
		s    string
		fold bool
	}
	var toks []tok
	for _, t := range tokens {
		if t == "" {
			continue
		}
		if split && len(t) >= 4 && r.Chance(1, 6) {
			// break inside a word, at a rune boundary
			i := r.Range(1, len(t)-1)
			for i < len(t) && !utf8.RuneStart(t[i]) {
				i++
			}
			if i < len(t) && !strings.ContainsAny(t[i-1:i+1], " \t") {
				toks = append(toks, tok{t[:i], false}, tok{t[i:], true})
				continue
			}
		}
		toks = append(toks, tok{t, false})
	}
	var v c15Value
	lead := " "
	if wild {
		lead = Pick(r, c15Leads)
	}
	v.raw = lead
	v.nbreaks += strings.Count(lead, "\n")
	for i, t := range toks {
		if i > 0 {
			var sep c15Sep
			switch {
			case t.fold || r.Intn(100) < foldPct:
				if wild {
					sep = Pick(r, c15FoldSeps)
				} else {
					sep = Pick(r, c15TameSeps)
				}
				v.folds = append(v.folds, len(v.val))
				v.widths = append(v.widths, len(sep.val))
				v.rawSeps = append(v.rawSeps, sep.raw)
				v.nbreaks += strings.Count(sep.raw, "\n")
			case wild:
				sep = Pick(r, c15PlainSeps)
			default:
				sep = c15Sep{" ", " "}
			}
			v.raw += sep.raw
			v.val += sep.val
		}
		v.raw += t.s
		v.val += t.s
	}
	if wild && len(toks) > 0 {
		tail := Pick(r, c15Tails)
		v.raw += tail.raw
		v.val += tail.val
		v.nbreaks += strings.Count(tail.raw, "\n")
	}
	v.raw += "\r\n"
	return v
}

// ---- search strings derived from the messages ------------------------------------------------------------------

func c15RuneFloor(s string, i int) int {
	for i > 0 && i < len(s) && !utf8.RuneStart(s[i]) {
		i--
	}
	return i
}

func c15RuneCeil(s string, i int) int {
	for i < len(s) && !utf8.RuneStart(s[i]) {
		i++
	}
	return i
}

// c15FoldNeedle: a search string around the fold at val[off:off+wid]. kind:
//
//	0 span (some characters on each side)   1 one character on each side   2 starts on the fold's blank
//	3 ends on it   4 the whole value   5 from the start of the value across the fold   6 across the fold to the end
//
// look: 0 as the value has it; the look-alikes that are NOT in the value: 1 the raw separator, 2 two blanks (three when
// the value has two), 3 a tab, 4 nothing
func c15FoldNeedle(r *Rng, val string, off, wid int, rawSep string, kind, look int) string {
	a := c15RuneFloor(val, max(0, off-r.Range(2, 9)))
	b := c15RuneCeil(val, min(len(val), off+wid+r.Range(2, 9)))
	switch kind {
	case 1:
		a, b = c15RuneFloor(val, max(0, off-1)), c15RuneCeil(val, min(len(val), off+wid+1))
	case 2:
		a = off
	case 3:
		b = off + wid
	case 4:
		a, b = 0, len(val)
	case 5:
		a = 0
	case 6:
		b = len(val)
	}
	mid := val[off : off+wid]
	switch look {
	case 1:
		mid = rawSep
	case 2:
		mid += " "
	case 3:
		mid = "\t"
	case 4:
		mid = ""
	}
	return val[a:off] + mid + val[off+wid:b]
}

// msgNeedle: a search string taken from the value of a field named `field` ("" = any field) of some generated message
func (k *c15KeyGen) msgNeedle(field string) (string, bool) {
	r := k.r
	type cand struct {
		m   *c15Msg
		hdr int
	}
	var all, folded []cand
	for _, m := range k.g.msgs {
		for i, h := range m.Hdr {
			if h[1] == "" || (field != "" && !strings.EqualFold(h[0], field)) {
				continue
			}
			all = append(all, cand{m, i})
			for _, f := range m.folds {
				if f.hdr == i {
					folded = append(folded, cand{m, i})
					break
				}
			}
		}
	}
	if len(all) == 0 {
		return "", false
	}
	if len(folded) > 0 && r.Chance(3, 4) {
		c := Pick(r, folded)
		var fs []c15FoldRef
		for _, f := range c.m.folds {
			if f.hdr == c.hdr {
				fs = append(fs, f)
			}
		}
		f := Pick(r, fs)
		kind, look := Pick(r, []int{0, 0, 0, 0, 1, 1, 2, 3, 4, 5, 6}), Pick(r, []int{0, 0, 0, 0, 0, 0, 1, 2, 3, 4})
		k.stats[fmt.Sprintf("needle.fold.kind%d.look%d", kind, look)]++
		s := c15FoldNeedle(r, c.m.Hdr[c.hdr][1], f.off, f.wid, f.raw, kind, look)
		if r.Chance(1, 3) {
			s = c15CaseMix(r, s)
		}
		return s, true
	}
	k.stats["needle.from-value"]++
	val := Pick(r, all)
	v := val.m.Hdr[val.hdr][1]
	a := c15RuneFloor(v, r.Intn(len(v)))
	b := c15RuneCeil(v, min(len(v), a+1+r.Intn(12)))
	s := v[a:b]
	if r.Chance(1, 3) {
		s = c15CaseMix(r, s)
	}
	return s, true
}

// ---- directed scenario `folds` -------------------------------------------------------------------------------------

var c15FoldVocab = []string{"quarterly", "report", "for", "the", "northern", "region", "minutes", "of", "Monday", "budget", "review",
	"draft", "v2", "please", "read", "before", "Friday", "invoice", "4711", "overdue", "reminder", "travel", "plans", "summer",
	"release", "notes", "candidate", "build", "failed", "again", "café", "straße", "=?UTF-8?Q?caf=C3=A9?=", "naïve", "re:", "[list]"}

type c15FoldTarget struct {
	key, field string // model key name (subject from to cc bcc header) and the field it reads
	msg        int    // index of the folded message (1-based, as appended)
	v          c15Value
	first      string // first token of the value (a string that does occur in the raw header block)
}

func genC15FoldWorld(r *Rng, par int, stats map[string]int) []string {
	stats["world.folds"]++
	g := &c15Gen{r: r}
	lines := []string{fmt.Sprintf("par %d", par)}
	kinds := []struct{ key, field string }{{"subject", "Subject"}, {"from", "From"}, {"to", "To"}, {"cc", "Cc"}, {"bcc", "Bcc"},
		{"header", "X-Tag"}, {"header", "Received"}, {"header", "References"}}
	c15Shuffle(r, kinds)
	day := func(d, h int64) c15Time { return c15Time{c15Base + d*86400 + h*3600, 0} }
	vocab := append([]string{}, c15FoldVocab...)
	c15Shuffle(r, vocab)
	nextWord := 0
	word := func() string { nextWord++; return vocab[(nextWord-1)%len(vocab)] + Pick(r, []string{"", "", "", strconv.Itoa(nextWord)}) }
	var targets []c15FoldTarget
	addMsg := func(field string, v c15Value, seen bool) int {
		t := day(int64(r.Range(1, 6)), int64(r.Range(0, 23)))
		m := &c15Msg{Date: t, Sent: &t, Body: []byte("fold body\r\n")}
		if seen {
			m.Flags = []string{"\\Seen"}
		}
		var lit []byte
		put := func(name string, v c15Value) {
			lit = append(lit, name+":"+v.raw...)
			m.Hdr = append(m.Hdr, [2]string{name, v.val})
			for j, o := range v.folds {
				m.folds = append(m.folds, c15FoldRef{hdr: len(m.Hdr) - 1, off: o, raw: v.rawSeps[j], wid: v.widths[j]})
			}
		}
		if field != "From" {
			put("From", c15Value{raw: " sender@fold.example\r\n", val: "sender@fold.example"})
		} else {
			put("From", v)
		}
		put("Date", c15Value{raw: " " + t.Go().Format("Mon, 02 Jan 2006 15:04:05 -0700") + "\r\n", val: t.Go().Format("Mon, 02 Jan 2006 15:04:05 -0700")})
		if field != "From" && field != "" {
			name := field
			if r.Chance(1, 4) {
				name = c15CaseMix(r, name)
			}
			put(name, v)
		}
		lit = append(lit, "\r\n"...)
		m.Lit = append(lit, m.Body...)
		g.msgs = append(g.msgs, m)
		lines = append(lines, m.line())
		return len(g.msgs)
	}
	for _, kd := range kinds {
		var toks []string
		wild, split := true, true
		switch kd.field {
		case "From":
			// parsed on APPEND (rfcvalidation): display name words and the address, folded at the blanks only
			atom := func(w string) string {
				w = strings.Trim(w, "=?[]:<>")
				for _, c := range []byte(w) {
					if !(c >= 'a' && c <= 'z' || c >= 'A' && c <= 'Z' || c >= '0' && c <= '9') {
						return "Name" + strconv.Itoa(nextWord)
					}
				}
				if w == "" {
					return "Name" + strconv.Itoa(nextWord)
				}
				return w
			}
			toks = []string{atom(word()), atom(word()), "<" + strings.ToLower(atom(word())) + "@fold.example>"}
			wild, split = false, false
		case "To", "Cc", "Bcc":
			for i, n := 0, r.Range(2, 4); i < n; i++ {
				toks = append(toks, word(), "<"+word()+"@fold.example>"+Pick(r, []string{",", ",", ";"}))
			}
		case "References":
			for i, n := 0, r.Range(2, 5); i < n; i++ {
				toks = append(toks, "<"+word()+"."+strconv.Itoa(r.Range(100, 999))+"@fold.example>")
			}
			split = false
		case "Received":
			toks = []string{"from", word() + ".example", "by", "mx." + word() + ".example", "with", "ESMTPS", "id", word() + ";", "Mon,", "6", "Jan", "2020"}
		default:
			n := r.Range(3, 7)
			if r.Chance(1, 4) {
				n = r.Range(14, 26) // a long field
			}
			for i := 0; i < n; i++ {
				toks = append(toks, word())
			}
		}
		// the folded message: at least one line break inside the value
		var v c15Value
		for try := 0; ; try++ {
			v = c15BuildValue(r, toks, 30+10*try, wild, split)
			if len(v.folds) > 0 {
				break
			}
		}
		first := toks[0]
		idx := addMsg(kd.field, v, r.Bool())
		targets = append(targets, c15FoldTarget{key: kd.key, field: kd.field, msg: idx, v: v, first: first})
		// the twin: the same tokens on one line
		addMsg(kd.field, c15Value{raw: " " + strings.Join(toks, " ") + "\r\n", val: strings.Join(toks, " ")}, r.Bool())
		// the look-alike: what a reader of the raw block sees (two blanks / a tab where the first message is folded)
		if kd.field != "From" && r.Bool() {
			sep := Pick(r, []string{"  ", "\t", "   "})
			addMsg(kd.field, c15Value{raw: " " + strings.Join(toks, sep) + "\r\n", val: strings.Join(toks, sep)}, r.Bool())
		}
	}
	addMsg("", c15Value{}, false)
	lines = append(lines, "observe "+Pick(r, []string{"select", "examine"}), "mode none")

	// one `search` line: build emits the keys (wire text and model tokens) of a command
	type leafFn func(k *c15KeyGen)
	emitSearch := func(top int, parts ...leafFn) {
		k := &c15KeyGen{r: r, g: g, n: len(g.msgs), dectab: map[string]string{}, stats: stats}
		k.enc = func(s string) ([]byte, bool) { return []byte(s), true }
		k.dec = func(b []byte) ([]byte, bool) { return b, true }
		mode := Pick(r, []string{"seq", "seq", "uid"})
		if mode == "uid" {
			k.emit("UID ")
		}
		k.emit("SEARCH")
		k.keys = append(k.keys, fmt.Sprintf("L%d", top))
		for _, p := range parts {
			p(k)
		}
		k.segs = append(k.segs, k.cur)
		lines = append(lines, fmt.Sprintf("search %s absent - %s %s", mode, strings.Join(k.keys, ","), c15SegsEnc(k.segs)))
	}
	sp := func(k *c15KeyGen) { k.emit(" ") }
	tokn := func(wire, model string) leafFn {
		return func(k *c15KeyGen) {
			if wire != "" {
				k.kw(wire)
			}
			k.keys = append(k.keys, model)
		}
	}
	hdrKey := func(t c15FoldTarget, needle string) leafFn {
		return func(k *c15KeyGen) {
			if t.key == "header" {
				k.headerKeyWith(t.field, []byte(needle))
			} else {
				k.strKeyWith(t.key, []byte(needle))
			}
			stats["key."+t.key]++
		}
	}
	noMatch := func(k *c15KeyGen) {
		// header-string keys that match nothing in this mailbox
		switch r.Intn(3) {
		case 0:
			k.strKeyWith("from", []byte("no-such-sender"))
		case 1:
			k.headerKeyWith("X-Absent", []byte("nothing"))
		default:
			k.strKeyWith("subject", []byte("zzz-not-a-subject"))
		}
	}
	for _, t := range targets {
		val := t.v.val
		type nd struct{ fold, kind, look int }
		var nds []nd
		for f := range t.v.folds {
			// every fold: the spanning string as the value has it and one look-alike; plus a sample of the other shapes
			nds = append(nds, nd{f, 0, 0}, nd{f, 1, 0}, nd{f, 0, r.Range(1, 4)})
			nds = append(nds, nd{f, r.Range(2, 6), 0})
			if r.Chance(1, 3) {
				nds = append(nds, nd{f, r.Range(1, 6), r.Range(1, 4)})
			}
		}
		c15Shuffle(r, nds)
		if len(nds) > 14 {
			nds = nds[:14]
		}
		for _, n := range nds {
			s := c15FoldNeedle(r, val, t.v.folds[n.fold], t.v.widths[n.fold], t.v.rawSeps[n.fold], n.kind, n.look)
			if r.Chance(1, 3) {
				s = c15CaseMix(r, s)
			}
			stats[fmt.Sprintf("needle.fold.kind%d.look%d", n.kind, n.look)]++
			key := hdrKey(t, s)
			// alone, and under NOT
			emitSearch(1, sp, key)
			emitSearch(1, sp, tokn("NOT", "not"), sp, key)
			stats["key.not"]++
			// in a tree with keys that do not touch the message's header / that match nothing
			switch r.Intn(6) {
			case 0:
				emitSearch(1, sp, tokn("OR", "or"), sp, key, sp, noMatch)
			case 1:
				emitSearch(1, sp, tokn("OR", "or"), sp, noMatch, sp, tokn("NOT", "not"), sp, key)
			case 2:
				emitSearch(2, sp, key, sp, tokn("UNDELETED", "undeleted"))
			case 3:
				emitSearch(1, sp, tokn("", "L2"), func(k *c15KeyGen) { k.emit("(") }, tokn("NOT", "not"), sp, key, sp, tokn("ALL", "all"), func(k *c15KeyGen) { k.emit(")") })
			case 4:
				emitSearch(2, sp, tokn("NOT", "not"), sp, tokn("NOT", "not"), sp, key, sp, tokn("SEEN", "seen"))
			default:
				emitSearch(1, sp, tokn("OR", "or"), sp, tokn("DELETED", "deleted"), sp, key)
			}
			// next to keys that read the same message's header anyway
			switch r.Intn(8) {
			case 0:
				emitSearch(2, sp, key, sp, hdrKey(t, t.first))
			case 1:
				emitSearch(2, sp, tokn("NOT", "not"), sp, key, sp, func(k *c15KeyGen) { k.strKeyWith("from", []byte("fold.example")) })
			case 2:
				d := c15Base/86400 - 30
				emitSearch(2, sp, key, sp, func(k *c15KeyGen) {
					k.emit("SENTSINCE " + c15DayText(d))
					k.keys = append(k.keys, fmt.Sprintf("sentsince:%d", d))
				})
			case 3:
				emitSearch(2, sp, tokn("NOT", "not"), sp, key, sp, func(k *c15KeyGen) { k.strKeyWith("text", []byte("fold body")) })
			}
		}
		// the same string searched in the wrong field, and in the entire text (which is the raw literal)
		s := c15FoldNeedle(r, val, t.v.folds[0], t.v.widths[0], t.v.rawSeps[0], 0, 0)
		emitSearch(1, sp, func(k *c15KeyGen) { k.headerKeyWith("X-Other", []byte(s)) })
		emitSearch(1, sp, func(k *c15KeyGen) { k.strKeyWith("text", []byte(s)) })
		raw := c15FoldNeedle(r, val, t.v.folds[0], t.v.widths[0], t.v.rawSeps[0], 0, 1)
		emitSearch(1, sp, func(k *c15KeyGen) { k.strKeyWith("text", []byte(raw)) })
	}
	// generated trees over the same mailbox (their strings come from these values too)
	for i := 0; i < 12; i++ {
		lines = append(lines, g.genSearch(stats))
	}
	return lines
}
