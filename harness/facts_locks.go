package main

// Facts/Locks.lean (C19, C09): lock events, calls made while holding, guarded-field accesses.
//
// The gluon packages internal/backend, store, async, internal/db_impl/sqlite3 and everything of
// gluon they import are type-checked with go/types (standard library from source, third-party
// imports replaced by empty packages: their types are not needed to resolve mutex fields and
// gluon's own calls). Every declared function and every function literal becomes one entry with
// its events in source order (deferred calls at the end, last first):
//
//	acq/rel   Lock/RLock/Unlock/RUnlock on a mutex reached through named fields (`b.usersLock`,
//	          `q.cond.L`, `syncRef.lock`); lock identity = declaring type + field path (lock classes)
//	call      synchronous call of gluon functions (interface calls: every implementing method)
//	lit       a function literal runs here (called directly, deferred, or handed to a helper that is
//	          known to run it before returning: juniper xslices/xmaps, x/exp slices/maps, sort, sync.Once)
//	pass      a literal / function value handed to a gluon function
//	passParam an own function-typed parameter handed on to a gluon function
//	cb        a function-typed parameter of the enclosing declared function is invoked
//	spawn     go statement (also time.AfterFunc)
//	acc       access to one of the guarded fields
//	dyn       call of a function value of unknown origin (struct field, literal's own parameter, ...)
//	unknown   a Lock/Unlock whose mutex is not reached through named fields
//
// Only entries that matter (transitively reach one of the above) are written. The summaries
// (entry/exit lock sets, mayAcq, cbI/cbU) and the lock ranks are computed here and emitted as
// *certificates*: GluonModel/Model/ConcFacts.lean re-checks them against the events, nothing is
// taken on trust except the events themselves.

import (
	"fmt"
	"go/ast"
	"go/build"
	"go/importer"
	"go/parser"
	"go/token"
	"go/types"
	"path/filepath"
	"sort"
	"strings"
)

const gluonMod = "github.com/ProtonMail/gluon"

var lkRoots = []string{"internal/backend", "store", "async", "internal/db_impl/sqlite3"}

// guarded fields: declaring type (package-qualified by last path element), field, guarding lock
var lkGuards = []struct{ typ, field, lock string }{
	{"backend.user", "states", "backend.user.statesLock"},
	{"backend.Backend", "users", "backend.Backend.usersLock"},
	{"store.WriteControlledStore", "entryTable", "store.WriteControlledStore.lock"},
	{"async.QueuedChannel", "items", "async.QueuedChannel.cond.L"},
}

// packages whose higher-order helpers run their function argument before returning
var lkSyncHelpers = []string{"github.com/bradenaw/juniper/", "golang.org/x/exp/slices", "golang.org/x/exp/maps", "sort", "slices", "maps", "strings", "bytes"}

type lkImporter struct {
	fset  *token.FileSet
	repo  string
	std   types.Importer
	cache map[string]*types.Package
	infos map[string]*types.Info
	files map[string][]*ast.File
	order []string
}

func (m *lkImporter) Import(path string) (*types.Package, error) {
	if p, ok := m.cache[path]; ok {
		return p, nil
	}
	if path == gluonMod || strings.HasPrefix(path, gluonMod+"/") {
		return m.load(path)
	}
	if !strings.Contains(strings.Split(path, "/")[0], ".") {
		if p, err := m.std.Import(path); err == nil {
			m.cache[path] = p
			return p, nil
		}
	}
	p := types.NewPackage(path, path[strings.LastIndex(path, "/")+1:])
	p.MarkComplete()
	m.cache[path] = p
	return p, nil
}

func (m *lkImporter) load(path string) (*types.Package, error) {
	dir := filepath.Join(m.repo, strings.TrimPrefix(strings.TrimPrefix(path, gluonMod), "/"))
	bp, err := build.Default.ImportDir(dir, 0)
	if err != nil {
		return nil, err
	}
	var files []*ast.File
	for _, n := range bp.GoFiles {
		f, err := parser.ParseFile(m.fset, filepath.Join(dir, n), nil, 0)
		if err != nil {
			return nil, err
		}
		files = append(files, f)
	}
	info := &types.Info{Uses: map[*ast.Ident]types.Object{}, Defs: map[*ast.Ident]types.Object{}, Selections: map[*ast.SelectorExpr]*types.Selection{}, Types: map[ast.Expr]types.TypeAndValue{}}
	conf := types.Config{Importer: m, Error: func(error) {}, FakeImportC: true}
	p, _ := conf.Check(path, m.fset, files, info)
	m.cache[path] = p
	m.infos[path] = info
	m.files[path] = files
	m.order = append(m.order, path)
	return p, nil
}

// ---- events ---------------------------------------------------------------------------------

type lkEv struct {
	kind string // acq rel call lit pass passParam cb spawn acc dyn unknown
	lock string
	w    bool
	fs   []*lkUnit
	f    *lkUnit
	fld  int
	note string
	line int
}

type lkUnit struct {
	name     string
	pkg      string
	exported bool
	isLit    bool
	body     *ast.BlockStmt
	obj      *types.Func
	parent   *lkUnit // enclosing declared function (for literals)
	sig      *types.Signature
	file     string
	line     int
	events   []lkEv
	syncSite bool // literal: every use is a synchronous invocation at one site
	uses     int  // literal: number of use sites
	// summaries
	relevant  bool
	entry     []lkHeld
	exit      []lkHeld
	mayAcq    map[string]bool
	cbI       bool
	cbU       map[string]bool
	allCalls  bool // declared function: every reference to it is a call that is in the table
	id        int
	localLits map[types.Object]*lkUnit
	via       map[string]*lkUnit // mayAcq provenance: through which callee (nil = own acq)
}

type lkHeld struct {
	lock string
	w    bool
}

type lkCtx struct {
	decorators map[string]*lkUnit
	callPos    map[*ast.Ident]bool
	c          *factsCtx
	imp        *lkImporter
	units      []*lkUnit
	byObj      map[*types.Func]*lkUnit
	byLit      map[*ast.FuncLit]*lkUnit
	named      []*types.Named // all named types of the loaded gluon packages
	guardVar   map[*types.Var]int
}

func lkUnparen(e ast.Expr) ast.Expr {
	for {
		p, ok := e.(*ast.ParenExpr)
		if !ok {
			return e
		}
		e = p.X
	}
}

func lkShortPkg(p string) string { return p[strings.LastIndex(p, "/")+1:] }

func lkTypeName(t types.Type) string {
	for {
		if p, ok := t.(*types.Pointer); ok {
			t = p.Elem()
			continue
		}
		break
	}
	if n, ok := t.(*types.Named); ok && n.Obj() != nil {
		if n.Obj().Pkg() != nil {
			return lkShortPkg(n.Obj().Pkg().Path()) + "." + n.Obj().Name()
		}
		return n.Obj().Name()
	}
	return ""
}

func lkIsGluon(p *types.Package) bool {
	return p != nil && (p.Path() == gluonMod || strings.HasPrefix(p.Path(), gluonMod+"/"))
}

func (lc *lkCtx) collect() {
	for _, path := range lc.imp.order {
		info := lc.imp.infos[path]
		pkg := lc.imp.cache[path]
		for _, name := range pkg.Scope().Names() {
			if tn, ok := pkg.Scope().Lookup(name).(*types.TypeName); ok {
				if n, ok := tn.Type().(*types.Named); ok {
					lc.named = append(lc.named, n)
					if st, ok := n.Underlying().(*types.Struct); ok {
						for i := 0; i < st.NumFields(); i++ {
							for gi, g := range lkGuards {
								if g.typ == lkShortPkg(path)+"."+name && g.field == st.Field(i).Name() {
									lc.guardVar[st.Field(i)] = gi
								}
							}
						}
					}
				}
			}
		}
		for _, f := range lc.imp.files[path] {
			for _, d := range f.Decls {
				fd, ok := d.(*ast.FuncDecl)
				if !ok || fd.Body == nil {
					continue
				}
				obj, _ := info.Defs[fd.Name].(*types.Func)
				if obj == nil {
					continue
				}
				name := lkShortPkg(path) + "."
				sig := obj.Type().(*types.Signature)
				if sig.Recv() != nil {
					tn := lkTypeName(sig.Recv().Type())
					name = tn + "."
				}
				name += fd.Name.Name
				file, line := lc.c.pos(fd.Pos())
				u := &lkUnit{name: name, pkg: path, exported: fd.Name.IsExported(), body: fd.Body, obj: obj, sig: sig, file: file, line: line}
				lc.units = append(lc.units, u)
				lc.byObj[obj] = u
				k := 0
				ast.Inspect(fd.Body, func(n ast.Node) bool {
					if fl, ok := n.(*ast.FuncLit); ok {
						k++
						_, ln := lc.c.pos(fl.Pos())
						lu := &lkUnit{name: fmt.Sprintf("%s$%d", name, k), pkg: path, isLit: true, body: fl.Body, parent: u, file: file, line: ln, syncSite: true}
						if tv, ok := info.Types[fl]; ok {
							lu.sig, _ = tv.Type.(*types.Signature)
						}
						lc.units = append(lc.units, lu)
						lc.byLit[fl] = lu
					}
					return true
				})
			}
		}
	}
}

// ---- walking one body -----------------------------------------------------------------------

type lkWalker struct {
	lc       *lkCtx
	u        *lkUnit
	info     *types.Info
	events   []lkEv
	deferred [][]lkEv
	localLit map[types.Object]*lkUnit
	writeSel map[*ast.SelectorExpr]bool
}

func (w *lkWalker) emit(e lkEv, pos token.Pos) {
	_, e.line = w.lc.c.pos(pos)
	w.events = append(w.events, e)
}

// lockID names the mutex denoted by e: <type of the base variable>.<field path>, or "".
func (w *lkWalker) lockID(e ast.Expr) string {
	var path []string
	for {
		switch x := e.(type) {
		case *ast.ParenExpr:
			e = x.X
			continue
		case *ast.SelectorExpr:
			sel := w.info.Selections[x]
			if sel == nil || sel.Kind() != types.FieldVal {
				return ""
			}
			path = append([]string{x.Sel.Name}, path...)
			if tn := lkTypeName(sel.Recv()); tn != "" && lkIsGluonTypeName(sel.Recv()) {
				return tn + "." + strings.Join(path, ".")
			}
			e = x.X
			continue
		}
		return ""
	}
}

func lkIsGluonTypeName(t types.Type) bool {
	for {
		if p, ok := t.(*types.Pointer); ok {
			t = p.Elem()
			continue
		}
		break
	}
	n, ok := t.(*types.Named)
	return ok && n.Obj() != nil && lkIsGluon(n.Obj().Pkg())
}

// implementations of an interface method among the loaded gluon types
func (lc *lkCtx) impls(iface *types.Interface, method string) []*lkUnit {
	var out []*lkUnit
	for _, n := range lc.named {
		if _, isIface := n.Underlying().(*types.Interface); isIface {
			continue
		}
		var t types.Type = n
		if !types.Implements(t, iface) {
			t = types.NewPointer(n)
			if !types.Implements(t, iface) {
				continue
			}
		}
		obj, _, _ := types.LookupFieldOrMethod(types.NewPointer(n), true, n.Obj().Pkg(), method)
		if f, ok := obj.(*types.Func); ok {
			if u := lc.byObj[f]; u != nil {
				out = append(out, u)
			}
		}
	}
	return out
}

func (w *lkWalker) isOuterParam(obj types.Object) bool {
	d := w.u
	if d.isLit {
		d = d.parent
	}
	if d.sig == nil {
		return false
	}
	ps := d.sig.Params()
	for i := 0; i < ps.Len(); i++ {
		if ps.At(i) == obj {
			return true
		}
	}
	return false
}

func lkIsFuncType(t types.Type) bool {
	if t == nil {
		return false
	}
	_, ok := t.Underlying().(*types.Signature)
	return ok
}

// callee resolution: gluon units, or external function name
func (w *lkWalker) callees(call *ast.CallExpr) (units []*lkUnit, ext string, fv types.Object, lit *ast.FuncLit, skip bool) {
	fun := lkUnparen(call.Fun)
	if tv, ok := w.info.Types[fun]; ok && tv.IsType() {
		return nil, "", nil, nil, true
	}
	if ix, ok := fun.(*ast.IndexExpr); ok { // explicit generic instantiation
		fun = ix.X
	}
	if ix, ok := fun.(*ast.IndexListExpr); ok {
		fun = ix.X
	}
	switch f := fun.(type) {
	case *ast.FuncLit:
		return nil, "", nil, f, false
	case *ast.Ident:
		switch o := w.info.Uses[f].(type) {
		case *types.Builtin, *types.TypeName, nil:
			return nil, "", nil, nil, true
		case *types.Func:
			if u := w.lc.byObj[o]; u != nil {
				return []*lkUnit{u}, "", nil, nil, false
			}
			return nil, lkFuncFull(o), nil, nil, false
		case *types.Var:
			return nil, "", o, nil, false
		}
	case *ast.SelectorExpr:
		if sel := w.info.Selections[f]; sel != nil {
			switch o := sel.Obj().(type) {
			case *types.Func:
				if iface, ok := sel.Recv().Underlying().(*types.Interface); ok && lkIsGluon(o.Pkg()) {
					return w.dropSelfDecorator(f, w.lc.impls(iface, o.Name())), "", nil, nil, false
				}
				o = o.Origin()
				if u := w.lc.byObj[o]; u != nil {
					return []*lkUnit{u}, "", nil, nil, false
				}
				return nil, lkFuncFull(o), nil, nil, false
			case *types.Var:
				return nil, "", o, nil, false
			}
		}
		// package-qualified
		switch o := w.info.Uses[f.Sel].(type) {
		case *types.Func:
			o = o.Origin()
			if u := w.lc.byObj[o]; u != nil {
				return []*lkUnit{u}, "", nil, nil, false
			}
			return nil, lkFuncFull(o), nil, nil, false
		case *types.Var:
			return nil, "", o, nil, false
		case *types.TypeName:
			return nil, "", nil, nil, true
		}
		// unresolved (third-party fake package): external by spelling
		if x, ok := f.X.(*ast.Ident); ok {
			if pn, ok := w.info.Uses[x].(*types.PkgName); ok {
				return nil, pn.Imported().Path() + "." + f.Sel.Name, nil, nil, false
			}
		}
		return nil, "?." + f.Sel.Name, nil, nil, false
	}
	return nil, "?", nil, nil, false
}

// dropSelfDecorator: `recv.field.M()` inside a method of T, dispatched through an interface, is not
// resolved to T.M itself: a decorator wraps another, already constructed instance (wrapping is
// acyclic), so the nested lock of the same class belongs to a different, inner instance.
func (w *lkWalker) dropSelfDecorator(f *ast.SelectorExpr, cands []*lkUnit) []*lkUnit {
	d := w.u
	if d.isLit {
		d = d.parent
	}
	if d.sig == nil || d.sig.Recv() == nil {
		return cands
	}
	inner, ok := lkUnparen(f.X).(*ast.SelectorExpr)
	if !ok {
		return cands
	}
	id, ok := lkUnparen(inner.X).(*ast.Ident)
	if !ok || w.info.Uses[id] != d.sig.Recv() {
		return cands
	}
	self := lkTypeName(d.sig.Recv().Type())
	var out []*lkUnit
	for _, c := range cands {
		if c.sig != nil && c.sig.Recv() != nil && lkTypeName(c.sig.Recv().Type()) == self {
			w.lc.decorators[fmt.Sprintf("%s: %s.%s() not resolved to %s", d.name, inner.Sel.Name, f.Sel.Name, c.name)] = c
			continue
		}
		out = append(out, c)
	}
	return out
}

func lkFuncFull(o *types.Func) string {
	if o.Pkg() == nil {
		return o.Name()
	}
	if sig, ok := o.Type().(*types.Signature); ok && sig.Recv() != nil {
		return o.Pkg().Path() + "." + lkTypeName(sig.Recv().Type()) + "." + o.Name()
	}
	return o.Pkg().Path() + "." + o.Name()
}

func lkIsSyncHelper(ext string) bool {
	if ext == "sync.sync.Once.Do" {
		return true
	}
	for _, p := range lkSyncHelpers {
		if strings.HasPrefix(ext, p) {
			return true
		}
	}
	return false
}

// funcValue classifies an expression used as a function value (argument position)
func (w *lkWalker) funcValue(e ast.Expr) (u *lkUnit, isParam bool) {
	e = lkUnparen(e)
	switch x := e.(type) {
	case *ast.FuncLit:
		return w.lc.byLit[x], false
	case *ast.Ident:
		o := w.info.Uses[x]
		if lu := w.localLit[o]; lu != nil {
			return lu, false
		}
		if f, ok := o.(*types.Func); ok {
			return w.lc.byObj[f], false
		}
		if v, ok := o.(*types.Var); ok && lkIsFuncType(v.Type()) && w.isOuterParam(v) {
			return nil, true
		}
	case *ast.SelectorExpr:
		if sel := w.info.Selections[x]; sel != nil && sel.Kind() == types.MethodVal {
			if f, ok := sel.Obj().(*types.Func); ok {
				return w.lc.byObj[f.Origin()], false
			}
		}
	}
	return nil, false
}

func (w *lkWalker) call(call *ast.CallExpr, mode string) {
	// receiver expression and arguments are evaluated first
	if sel, ok := lkUnparen(call.Fun).(*ast.SelectorExpr); ok {
		w.node(sel.X)
	}
	var fargs []*lkUnit
	paramArg := false
	for _, a := range call.Args {
		if u, isParam := w.funcValue(a); u != nil {
			fargs = append(fargs, u)
			continue
		} else if isParam {
			paramArg = true
			continue
		}
		w.node(a)
	}
	var out []lkEv
	add := func(e lkEv) { _, e.line = w.lc.c.pos(call.Pos()); out = append(out, e) }
	units, ext, fv, lit, skip := w.callees(call)
	if mode != "go" {
		switch f := lkUnparen(call.Fun).(type) {
		case *ast.Ident:
			w.lc.callPos[f] = true
		case *ast.SelectorExpr:
			w.lc.callPos[f.Sel] = true
		}
	}
	switch {
	case skip:
	case lit != nil:
		lu := w.lc.byLit[lit]
		lu.uses++
		if mode == "go" {
			lu.syncSite = false
			add(lkEv{kind: "spawn", fs: []*lkUnit{lu}})
		} else {
			add(lkEv{kind: "lit", f: lu})
		}
	case fv != nil:
		if lu := w.localLit[fv]; lu != nil {
			lu.uses++
			if mode == "go" {
				lu.syncSite = false
				add(lkEv{kind: "spawn", fs: []*lkUnit{lu}})
			} else {
				add(lkEv{kind: "lit", f: lu})
			}
		} else if w.isOuterParam(fv) {
			if mode == "go" {
				add(lkEv{kind: "dyn", note: "go " + fv.Name()})
			} else {
				add(lkEv{kind: "cb"})
			}
		} else if lkTypeName(fv.Type()) == "context.CancelFunc" {
			// standard library leaf: takes context-internal locks only, never calls back into gluon
		} else {
			add(lkEv{kind: "dyn", note: fv.Name()})
		}
	case len(units) > 0:
		// lock wrappers and ordinary gluon calls
		if mode == "go" {
			add(lkEv{kind: "spawn", fs: units})
			for _, fu := range fargs {
				fu.uses++
				fu.syncSite = false
				add(lkEv{kind: "spawn", fs: []*lkUnit{fu}})
			}
		} else {
			add(lkEv{kind: "call", fs: units})
			for _, fu := range fargs {
				fu.uses++
				fu.syncSite = false
				add(lkEv{kind: "pass", fs: units, f: fu})
			}
			if paramArg {
				add(lkEv{kind: "passParam", fs: units})
			}
		}
	default:
		// external callee
		name := ""
		if sel, ok := lkUnparen(call.Fun).(*ast.SelectorExpr); ok {
			name = sel.Sel.Name
			if strings.HasPrefix(ext, "sync.sync.Mutex.") || strings.HasPrefix(ext, "sync.sync.RWMutex.") || strings.HasPrefix(ext, "sync.sync.Locker.") {
				id := w.lockID(sel.X)
				switch name {
				case "Lock", "RLock", "Unlock", "RUnlock":
					k := "acq"
					if strings.HasSuffix(name, "Unlock") {
						k = "rel"
					}
					if id == "" {
						add(lkEv{kind: "unknown", note: name + " on a mutex that is not a named field"})
					} else {
						add(lkEv{kind: k, lock: id, w: !strings.HasPrefix(name, "R")})
					}
				case "TryLock", "TryRLock", "RLocker":
					add(lkEv{kind: "unknown", note: name})
				}
				break
			}
		}
		async := ext == "time.AfterFunc" || mode == "go"
		for _, fu := range fargs {
			fu.uses++
			if async {
				fu.syncSite = false
				add(lkEv{kind: "spawn", fs: []*lkUnit{fu}})
			} else {
				if !lkIsSyncHelper(ext) {
					fu.syncSite = false
				}
				add(lkEv{kind: "lit", f: fu})
			}
		}
		if paramArg {
			// own callback handed to code we do not see: it may be run right here
			add(lkEv{kind: "cb"})
		}
	}
	if mode == "defer" {
		w.deferred = append(w.deferred, out)
	} else {
		w.events = append(w.events, out...)
	}
}

func (w *lkWalker) markWrites(lhs ast.Expr) {
	for {
		switch x := lkUnparen(lhs).(type) {
		case *ast.IndexExpr:
			lhs = x.X
			continue
		case *ast.StarExpr:
			lhs = x.X
			continue
		case *ast.SelectorExpr:
			w.writeSel[x] = true
		}
		return
	}
}

func (w *lkWalker) node(n ast.Node) {
	if n == nil {
		return
	}
	ast.Inspect(n, func(c ast.Node) bool {
		switch x := c.(type) {
		case *ast.FuncLit:
			// a literal used as a plain value (stored, returned, ...): it may run any time
			if lu := w.lc.byLit[x]; lu != nil {
				lu.uses++
				lu.syncSite = false
				w.emit(lkEv{kind: "lit", f: lu}, x.Pos())
			}
			return false
		case *ast.DeferStmt:
			w.call(x.Call, "defer")
			return false
		case *ast.GoStmt:
			w.call(x.Call, "go")
			return false
		case *ast.CallExpr:
			if id, ok := lkUnparen(x.Fun).(*ast.Ident); ok && id.Name == "delete" && len(x.Args) > 0 {
				if _, isB := w.info.Uses[id].(*types.Builtin); isB {
					w.markWrites(x.Args[0])
				}
			}
			w.call(x, "")
			return false
		case *ast.AssignStmt:
			// `fn := func() {...}` binds a local function variable
			if len(x.Lhs) == 1 && len(x.Rhs) == 1 {
				if fl, ok := lkUnparen(x.Rhs[0]).(*ast.FuncLit); ok {
					if id, ok := x.Lhs[0].(*ast.Ident); ok {
						o := w.info.Defs[id]
						if o == nil {
							o = w.info.Uses[id]
						}
						if o != nil {
							w.localLit[o] = w.lc.byLit[fl]
							return false
						}
					}
				}
			}
			for _, l := range x.Lhs {
				w.markWrites(l)
			}
		case *ast.IncDecStmt:
			w.markWrites(x.X)
		case *ast.SelectorExpr:
			if sel := w.info.Selections[x]; sel != nil && sel.Kind() == types.FieldVal {
				if v, ok := sel.Obj().(*types.Var); ok {
					if v0 := lkOriginVar(v); v0 != nil {
						v = v0
					}
					if gi, ok := w.lc.guardVar[v]; ok {
						w.node(x.X)
						w.emit(lkEv{kind: "acc", fld: gi, w: w.writeSel[x]}, x.Pos())
						return false
					}
				}
			}
		}
		return true
	})
}

func lkOriginVar(v *types.Var) *types.Var { return v.Origin() }

func (lc *lkCtx) walkAll() {
	for _, u := range lc.units {
		w := &lkWalker{lc: lc, u: u, info: lc.imp.infos[u.pkg], localLit: map[types.Object]*lkUnit{}, writeSel: map[*ast.SelectorExpr]bool{}}
		if u.isLit {
			// local function variables of the enclosing function are visible inside the literal
			w.localLit = u.parent.localLits
		}
		if !u.isLit {
			u.localLits = w.localLit
		}
		w.node(u.body)
		for i := len(w.deferred) - 1; i >= 0; i-- {
			w.events = append(w.events, w.deferred[i]...)
		}
		u.events = w.events
	}
}

// ---- summaries (certificates) ---------------------------------------------------------------

type lkHeldSet []lkHeld

func (h lkHeldSet) has(l string) bool {
	for _, x := range h {
		if x.lock == l {
			return true
		}
	}
	return false
}

func (h lkHeldSet) remove(l string, w bool) (lkHeldSet, bool) {
	for i := len(h) - 1; i >= 0; i-- {
		if h[i].lock == l && h[i].w == w {
			out := append(lkHeldSet{}, h[:i]...)
			return append(out, h[i+1:]...), true
		}
	}
	return h, false
}

func lkMeet(a, b lkHeldSet) lkHeldSet {
	var out lkHeldSet
	for _, x := range a {
		for _, y := range b {
			if x.lock == y.lock && !out.has(x.lock) {
				out = append(out, lkHeld{x.lock, x.w && y.w})
			}
		}
	}
	return out
}

func lkSameSet(a, b lkHeldSet) bool {
	if len(a) != len(b) {
		return false
	}
	for _, x := range a {
		ok := false
		for _, y := range b {
			if x == y {
				ok = true
			}
		}
		if !ok {
			return false
		}
	}
	return true
}

func lkSortedKeys(m map[string]bool) []string {
	var xs []string
	for k := range m {
		xs = append(xs, k)
	}
	sort.Strings(xs)
	return xs
}

func lkChain(g *lkUnit, l string) string {
	s := g.name
	for i := 0; i < 12 && g != nil && g.via != nil && g.via[l] != nil; i++ {
		g = g.via[l]
		s += " -> " + g.name
	}
	return s
}

type lkEdge struct {
	from, to string
	why      string
}

// simulate walks the events of u from `entry`; it grows the summaries of u and reports the held set
// at the sites of literals / callees (for their entry certificate) and the lock-order edges.
func (lc *lkCtx) simulate(u *lkUnit, sites map[*lkUnit][]lkHeldSet, edges *[]lkEdge) (changed bool) {
	var viaUnit *lkUnit
	addAcq := func(l string) {
		if !u.mayAcq[l] {
			u.mayAcq[l] = true
			if u.via == nil {
				u.via = map[string]*lkUnit{}
			}
			u.via[l] = viaUnit
			changed = true
		}
	}
	addCbU := func(l string) {
		if !u.cbU[l] {
			u.cbU[l] = true
			changed = true
		}
	}
	setCbI := func() {
		if !u.cbI {
			u.cbI = true
			changed = true
		}
	}
restart:
	held := append(lkHeldSet{}, u.entry...)
	edge := func(to string, why string) {
		if edges == nil {
			return
		}
		for _, h := range held {
			*edges = append(*edges, lkEdge{h.lock, to, fmt.Sprintf("%s:%d %s", u.file, 0, why)})
		}
	}
	for _, e := range u.events {
		why := fmt.Sprintf("%s (line %d)", u.name, e.line)
		switch e.kind {
		case "acq":
			edge(e.lock, why)
			addAcq(e.lock)
			held = append(held, lkHeld{e.lock, e.w})
		case "rel":
			var ok bool
			held, ok = held.remove(e.lock, e.w)
			if !ok {
				// releases what it did not take: the caller must hold it
				u.entry = append(u.entry, lkHeld{e.lock, e.w})
				changed = true
				goto restart
			}
		case "call", "lit":
			fs := e.fs
			if e.kind == "lit" {
				fs = []*lkUnit{e.f}
			}
			for _, g := range fs {
				viaUnit = g
				for _, l := range lkSortedKeys(g.mayAcq) {
					edge(l, why+" -> "+lkChain(g, l))
					addAcq(l)
				}
				viaUnit = nil
				if sites != nil {
					sites[g] = append(sites[g], append(lkHeldSet{}, held...))
				}
				if e.kind == "lit" && g.cbI {
					setCbI()
					for _, h := range held {
						addCbU(h.lock)
					}
					for l := range g.cbU {
						addCbU(l)
					}
				}
			}
			if len(fs) > 0 {
				g := fs[0]
				for _, x := range g.entry {
					var ok bool
					held, ok = held.remove(x.lock, x.w)
					if !ok && g != u {
						// the callee expects a lock that is not held here: this function's callers must hold it
						u.entry = append(u.entry, x)
						changed = true
						goto restart
					}
				}
				held = append(held, g.exit...)
			}
		case "pass":
			viaUnit = e.f
			for _, l := range lkSortedKeys(e.f.mayAcq) {
				edge(l, why+" -> "+lkChain(e.f, l))
				addAcq(l)
				for _, g := range e.fs {
					for _, cl := range lkSortedKeys(g.cbU) {
						if edges != nil {
							*edges = append(*edges, lkEdge{cl, l, why + " -> " + lkChain(e.f, l) + " run by " + g.name})
						}
					}
				}
			}
			if e.f.cbI {
				setCbI()
				for _, h := range held {
					addCbU(h.lock)
				}
				for l := range e.f.cbU {
					addCbU(l)
				}
				for _, g := range e.fs {
					for l := range g.cbU {
						addCbU(l)
					}
				}
			}
		case "passParam":
			setCbI()
			for _, h := range held {
				addCbU(h.lock)
			}
			for _, g := range e.fs {
				for l := range g.cbU {
					addCbU(l)
				}
			}
		case "cb":
			setCbI()
			for _, h := range held {
				addCbU(h.lock)
			}
		case "spawn":
			for _, g := range e.fs {
				for _, x := range g.entry {
					held, _ = held.remove(x.lock, x.w)
				}
			}
		}
	}
	if !lkSameSet(held, u.exit) {
		u.exit = append(lkHeldSet{}, held...)
		changed = true
	}
	return changed
}

func (lc *lkCtx) summarize() []lkEdge {
	// which declared functions have all their references in call position?
	uses := map[*types.Func][]*ast.Ident{}
	ifaceMethods := map[string]bool{}
	for _, path := range lc.imp.order {
		for id, o := range lc.imp.infos[path].Uses {
			if f, ok := o.(*types.Func); ok {
				uses[f.Origin()] = append(uses[f.Origin()], id)
			}
		}
	}
	for _, n := range lc.named {
		if it, ok := n.Underlying().(*types.Interface); ok {
			for i := 0; i < it.NumMethods(); i++ {
				ifaceMethods[it.Method(i).Name()] = true
			}
		}
	}
	for _, u := range lc.units {
		u.mayAcq = map[string]bool{}
		u.cbU = map[string]bool{}
		if u.isLit || u.exported {
			continue
		}
		u.allCalls = len(uses[u.obj]) > 0
		for _, id := range uses[u.obj] {
			if !lc.callPos[id] {
				u.allCalls = false
			}
		}
		if u.sig != nil && u.sig.Recv() != nil && ifaceMethods[u.obj.Name()] {
			u.allCalls = false
		}
	}
	for round := 0; round < 60; round++ {
		changed := false
		sites := map[*lkUnit][]lkHeldSet{}
		for _, u := range lc.units {
			if lc.simulate(u, sites, nil) {
				changed = true
			}
		}
		// entry certificates from the call sites
		for _, u := range lc.units {
			ok := (u.isLit && u.syncSite && u.uses == 1) || (!u.isLit && u.allCalls)
			ss := sites[u]
			if !ok || len(ss) == 0 {
				continue
			}
			m := ss[0]
			for _, s := range ss[1:] {
				m = lkMeet(m, s)
			}
			for _, x := range m {
				if !lkHeldSet(u.entry).has(x.lock) {
					u.entry = append(u.entry, x)
					u.exit = append(u.exit, x)
					changed = true
				}
			}
		}
		if !changed {
			break
		}
	}
	var edges []lkEdge
	for _, u := range lc.units {
		lc.simulate(u, nil, &edges)
	}
	return edges
}

// ---- output ---------------------------------------------------------------------------------

func factsLocks(c *factsCtx, outdir string) error {
	fset := c.fset
	imp := &lkImporter{fset: fset, repo: c.repo, std: importer.ForCompiler(fset, "source", nil), cache: map[string]*types.Package{}, infos: map[string]*types.Info{}, files: map[string][]*ast.File{}}
	for _, r := range lkRoots {
		if _, err := imp.Import(gluonMod + "/" + r); err != nil {
			return fmt.Errorf("load %s: %w", r, err)
		}
	}
	lc := &lkCtx{c: c, imp: imp, byObj: map[*types.Func]*lkUnit{}, byLit: map[*ast.FuncLit]*lkUnit{}, guardVar: map[*types.Var]int{}, callPos: map[*ast.Ident]bool{}, decorators: map[string]*lkUnit{}}
	lc.collect()
	lc.walkAll()
	edges := lc.summarize()

	// relevance
	for _, u := range lc.units {
		for _, e := range u.events {
			switch e.kind {
			case "acq", "rel", "acc", "cb", "unknown", "passParam":
				u.relevant = true
			}
		}
		if len(u.entry) > 0 {
			u.relevant = true
		}
	}
	for changed := true; changed; {
		changed = false
		for _, u := range lc.units {
			if u.relevant {
				continue
			}
			for _, e := range u.events {
				for _, g := range append(append([]*lkUnit{}, e.fs...), e.f) {
					if g != nil && g.relevant && e.kind != "spawn" {
						u.relevant = true
					}
				}
				// calling unknown code matters only where a lock can be held
				if e.kind == "dyn" && len(u.entry) > 0 {
					u.relevant = true
				}
			}
			if u.relevant {
				changed = true
			}
		}
	}
	// a function that holds a lock (acq) is relevant already; `dyn` inside it is kept by the writer below
	var tab []*lkUnit
	for _, u := range lc.units {
		if u.relevant {
			u.id = len(tab)
			tab = append(tab, u)
		}
	}

	// locks and ranks
	lockSet := map[string]bool{}
	for _, g := range lkGuards {
		lockSet[g.lock] = true
	}
	for _, u := range tab {
		for _, e := range u.events {
			if e.kind == "acq" || e.kind == "rel" {
				lockSet[e.lock] = true
			}
		}
	}
	var locks []string
	for l := range lockSet {
		locks = append(locks, l)
	}
	sort.Strings(locks)
	lockID := map[string]int{}
	for i, l := range locks {
		lockID[l] = i
	}
	succ := map[string]map[string]string{}
	for _, e := range edges {
		if succ[e.from] == nil {
			succ[e.from] = map[string]string{}
		}
		if _, ok := succ[e.from][e.to]; !ok {
			succ[e.from][e.to] = e.why
		}
	}
	// rank = length of the longest path ending in the lock (bounded iteration; a cycle never settles)
	rank := map[string]int{}
	cyclic := false
	for round := 0; round <= len(locks)+1; round++ {
		changed := false
		for _, a := range locks {
			for b := range succ[a] {
				if rank[b] < rank[a]+1 {
					rank[b] = rank[a] + 1
					changed = true
				}
			}
		}
		if !changed {
			break
		}
		if round == len(locks)+1 {
			cyclic = true
		}
	}

	var b strings.Builder
	b.WriteString("import GluonModel.Model.ConcFacts\n\nnamespace Gluon.Facts\nopen Gluon.Conc.LF\n\n")
	b.WriteString("/-- lock classes: declaring type + field path; index = lock id -/\ndef lockNames : List String := [")
	for i, l := range locks {
		if i > 0 {
			b.WriteString(", ")
		}
		b.WriteString(leanStr(l))
	}
	b.WriteString("]\n\n")
	{
		var ds []string
		for d, c := range lc.decorators {
			if c.relevant {
				ds = append(ds, d)
			}
		}
		sort.Strings(ds)
		b.WriteString("/- ASSUMPTION decorators wrap a different instance (interface calls through an own field are not resolved to the own type):\n")
		for _, d := range ds {
			b.WriteString("   " + d + "\n")
		}
		b.WriteString("-/\n")
	}
	if cyclic {
		b.WriteString("-- LOCK ORDER CYCLE: no rank assignment exists; the ranks below are not a certificate\n")
	}
	b.WriteString("/- lock-order edges found (from -> to : first site)\n")
	for _, a := range locks {
		var tos []string
		for t := range succ[a] {
			tos = append(tos, t)
		}
		sort.Strings(tos)
		for _, t := range tos {
			fmt.Fprintf(&b, "   %s -> %s : %s\n", a, t, succ[a][t])
		}
	}
	b.WriteString("-/\n\n/-- certificate: a rank per lock id; every edge must go up -/\ndef lockRank : List Nat := [")
	for i, l := range locks {
		if i > 0 {
			b.WriteString(", ")
		}
		fmt.Fprintf(&b, "%d", rank[l])
	}
	b.WriteString("]\n\n/-- guarded fields: (name, id of the guarding lock); index = field id -/\ndef guards : List (String × Nat) := [")
	for i, g := range lkGuards {
		if i > 0 {
			b.WriteString(", ")
		}
		fmt.Fprintf(&b, "(%s, %d)", leanStr(g.typ+"."+g.field), lockID[g.lock])
	}
	b.WriteString("]\n\n")
	ids := func(us []*lkUnit) string {
		var xs []string
		for _, g := range us {
			if g != nil && g.relevant {
				xs = append(xs, fmt.Sprint(g.id))
			}
		}
		return "[" + strings.Join(xs, ", ") + "]"
	}
	heldStr := func(h []lkHeld) string {
		var xs []string
		for _, x := range h {
			xs = append(xs, fmt.Sprintf("(%d, %v)", lockID[x.lock], x.w))
		}
		return "[" + strings.Join(xs, ", ") + "]"
	}
	setStr := func(m map[string]bool) string {
		var xs []int
		for l := range m {
			xs = append(xs, lockID[l])
		}
		sort.Ints(xs)
		var ss []string
		for _, x := range xs {
			ss = append(ss, fmt.Sprint(x))
		}
		return "[" + strings.Join(ss, ", ") + "]"
	}
	b.WriteString("def fns : List Fn := [\n")
	for i, u := range tab {
		var evs []string
		holdsSomething := len(u.entry) > 0
		for _, e := range u.events {
			switch e.kind {
			case "acq":
				holdsSomething = true
				evs = append(evs, fmt.Sprintf(".acq %d %v", lockID[e.lock], e.w))
			case "rel":
				evs = append(evs, fmt.Sprintf(".rel %d %v", lockID[e.lock], e.w))
			case "call":
				if s := ids(e.fs); s != "[]" {
					evs = append(evs, ".call "+s)
				}
			case "lit":
				if e.f.relevant {
					evs = append(evs, fmt.Sprintf(".lit %d", e.f.id))
				}
			case "pass":
				if e.f.relevant {
					evs = append(evs, fmt.Sprintf(".pass %s %d", ids(e.fs), e.f.id))
				}
			case "passParam":
				evs = append(evs, ".passParam "+ids(e.fs))
			case "cb":
				evs = append(evs, ".cb")
			case "spawn":
				if s := ids(e.fs); s != "[]" {
					evs = append(evs, ".spawn "+s)
				}
			case "acc":
				evs = append(evs, fmt.Sprintf(".acc %d %v", e.fld, e.w))
			case "dyn":
				if holdsSomething {
					evs = append(evs, ".dyn")
				}
			case "unknown":
				evs = append(evs, ".unknown")
			}
		}
		sep := ","
		if i == len(tab)-1 {
			sep = ""
		}
		fmt.Fprintf(&b, "  /- %d %s:%d -/\n  { name := %s, exported := %v, isLit := %v, events := [%s], entry := %s, exit := %s, mayAcq := %s, cbI := %v, cbU := %s }%s\n",
			i, u.file, u.line, leanStr(u.name), u.exported, u.isLit, strings.Join(evs, ", "), heldStr(u.entry), heldStr(u.exit), setStr(u.mayAcq), u.cbI, setStr(u.cbU), sep)
	}
	b.WriteString("]\n\ndef lockTab : Tab := { rank := lockRank, fns := fns, guards := guards.map (·.2) }\n\nend Gluon.Facts\n")
	return writeLean(outdir, "Locks.lean", b.String())
}

func init() {
	factGens = append(factGens, factGen{"Locks", factsLocks})
}

// ---- Facts/CloseVariant.lean ----------------------------------------------------------------
// Which QueuedChannel close the code uses: State.Close -> closeUpdateQueue -> updatesQueue.<M>() and
// Server.Close -> serveErrCh.<M>(). `some true` = exactly one call, CloseAndDiscardQueued; `some
// false` = exactly one call, Close; anything else = none (never defaults to the good case).

func lkQueueCalls(files []*ast.File, recvType, method, field string) (names []string, found bool) {
	for _, f := range files {
		for _, d := range f.Decls {
			fd, ok := d.(*ast.FuncDecl)
			if !ok || fd.Body == nil || fd.Name.Name != method || fd.Recv == nil || len(fd.Recv.List) != 1 {
				continue
			}
			t := fd.Recv.List[0].Type
			if st, ok := t.(*ast.StarExpr); ok {
				t = st.X
			}
			if id, ok := t.(*ast.Ident); !ok || id.Name != recvType {
				continue
			}
			found = true
			ast.Inspect(fd.Body, func(n ast.Node) bool {
				call, ok := n.(*ast.CallExpr)
				if !ok {
					return true
				}
				if sel, ok := call.Fun.(*ast.SelectorExpr); ok {
					if field == "" {
						names = append(names, sel.Sel.Name)
					} else if inner, ok := sel.X.(*ast.SelectorExpr); ok && inner.Sel.Name == field {
						names = append(names, sel.Sel.Name)
					}
				}
				return true
			})
		}
	}
	return names, found
}

func lkDiscards(names []string) string {
	if len(names) == 1 && names[0] == "CloseAndDiscardQueued" {
		return "true"
	}
	if len(names) == 1 && names[0] == "Close" {
		return "false"
	}
	return "unknown"
}

func factsCloseVariant(c *factsCtx, outdir string) error {
	stateFiles := c.parseDir("internal/state")
	rootFiles := c.parseDir(".")
	all, _ := lkQueueCalls(stateFiles, "State", "Close", "")
	viaHelper := false
	for _, n := range all {
		if n == "closeUpdateQueue" {
			viaHelper = true
		}
	}
	// direct calls on updatesQueue inside State.Close count as well
	direct, _ := lkQueueCalls(stateFiles, "State", "Close", "updatesQueue")
	helper, _ := lkQueueCalls(stateFiles, "State", "closeUpdateQueue", "updatesQueue")
	calls := append([]string{}, direct...)
	if viaHelper {
		calls = append(calls, helper...)
	}
	errch, _ := lkQueueCalls(rootFiles, "Server", "Close", "serveErrCh")
	list := func(xs []string) string {
		var ys []string
		for _, x := range xs {
			ys = append(ys, leanStr(x))
		}
		return "[" + strings.Join(ys, ", ") + "]"
	}
	var b strings.Builder
	b.WriteString("namespace Gluon.Facts\n\n")
	b.WriteString("/-- methods that State.Close (internal/state/state.go), directly or through closeUpdateQueue, calls on state.updatesQueue -/\n")
	fmt.Fprintf(&b, "def stateCloseQueueCalls : List String := %s\n\n", list(calls))
	b.WriteString("/-- some true: exactly CloseAndDiscardQueued; some false: exactly Close; none: anything else -/\n")
	fmt.Fprintf(&b, "def stateCloseDiscards : Option Bool := %s\n\n", leanOptBool(lkDiscards(calls)))
	b.WriteString("/-- methods that Server.Close (server.go) calls on s.serveErrCh -/\n")
	fmt.Fprintf(&b, "def serverCloseErrChCalls : List String := %s\n\n", list(errch))
	fmt.Fprintf(&b, "def serverErrChDiscards : Option Bool := %s\n\nend Gluon.Facts\n", leanOptBool(lkDiscards(errch)))
	return writeLean(outdir, "CloseVariant.lean", b.String())
}

func init() {
	factGens = append(factGens, factGen{"CloseVariant", factsCloseVariant})
}
