package main

// Facts/Store.lean (C09): constants and switches of store/disk.go the store model is stated over.
// Everything the translator cannot recognise is emitted as `none` / `false` / empty, never as the
// value the theorems hope for.

import (
	"fmt"
	"go/ast"
	"go/token"
	"strconv"
	"strings"
)

// c09ConstInt evaluates an integer constant expression made of literals, + - * / << >>, parentheses,
// a conversion like uint32(1), and previously evaluated constants.
func c09ConstInt(e ast.Expr, env map[string]int64) (int64, bool) {
	switch x := e.(type) {
	case *ast.BasicLit:
		if x.Kind != token.INT {
			return 0, false
		}
		v, err := strconv.ParseInt(x.Value, 0, 64)
		return v, err == nil
	case *ast.ParenExpr:
		return c09ConstInt(x.X, env)
	case *ast.Ident:
		v, ok := env[x.Name]
		return v, ok
	case *ast.CallExpr: // conversion
		if id, ok := x.Fun.(*ast.Ident); ok && len(x.Args) == 1 {
			switch id.Name {
			case "uint32", "int", "int64", "uint64", "uint", "int32":
				return c09ConstInt(x.Args[0], env)
			}
		}
		return 0, false
	case *ast.BinaryExpr:
		a, ok1 := c09ConstInt(x.X, env)
		b, ok2 := c09ConstInt(x.Y, env)
		if !ok1 || !ok2 {
			return 0, false
		}
		switch x.Op {
		case token.ADD:
			return a + b, true
		case token.SUB:
			return a - b, true
		case token.MUL:
			return a * b, true
		case token.QUO:
			if b == 0 {
				return 0, false
			}
			return a / b, true
		case token.SHL:
			return a << uint(b), true
		case token.SHR:
			return a >> uint(b), true
		}
	}
	return 0, false
}

func c09ExprString(e ast.Expr) string {
	switch x := e.(type) {
	case *ast.Ident:
		return x.Name
	case *ast.BasicLit:
		return x.Value
	case *ast.SelectorExpr:
		return c09ExprString(x.X) + "." + x.Sel.Name
	case *ast.CallExpr:
		var args []string
		for _, a := range x.Args {
			args = append(args, c09ExprString(a))
		}
		return c09ExprString(x.Fun) + "(" + strings.Join(args, ", ") + ")"
	case *ast.UnaryExpr:
		return x.Op.String() + c09ExprString(x.X)
	case *ast.BinaryExpr:
		return c09ExprString(x.X) + " " + x.Op.String() + " " + c09ExprString(x.Y)
	case *ast.ParenExpr:
		return "(" + c09ExprString(x.X) + ")"
	case *ast.ArrayType:
		return "[]" + c09ExprString(x.Elt)
	case *ast.SliceExpr:
		return c09ExprString(x.X) + "[:]"
	}
	return "?"
}

func c09StmtExprString(s ast.Stmt) string {
	if es, ok := s.(*ast.ExprStmt); ok {
		return c09ExprString(es.X)
	}
	return ""
}

func c09LeanOptB(known, v bool) string {
	if !known {
		return "none"
	}
	if v {
		return "(some true)"
	}
	return "(some false)"
}

// c09Src: what both the facts translator and the oracle `c09store` read from store/*.go (the oracle takes
// blockSize and the header length from here, so that its structural sweeps follow the source).
type c09Src struct {
	env      map[string]int64
	where    map[string]string
	strConst map[string]string
	funcs    map[string]*ast.FuncDecl

	blockSize, version int64
	okBS, okV, okID    bool
	headerID           string
	shape              bool
	header             []int
}

func c09ParseStoreSource(c *factsCtx) *c09Src {
	files := c.parseDir("store")
	env := map[string]int64{}
	where := map[string]string{}
	strConst := map[string]string{}
	funcs := map[string]*ast.FuncDecl{}
	for _, f := range files {
		for _, d := range f.Decls {
			switch dd := d.(type) {
			case *ast.FuncDecl:
				if dd.Body != nil {
					name := dd.Name.Name
					if dd.Recv != nil && len(dd.Recv.List) == 1 {
						t := dd.Recv.List[0].Type
						if st, ok := t.(*ast.StarExpr); ok {
							t = st.X
						}
						name = c09ExprString(t) + "." + name
					}
					funcs[name] = dd
				}
			case *ast.GenDecl:
				if dd.Tok != token.CONST {
					continue
				}
				for _, sp := range dd.Specs {
					vs := sp.(*ast.ValueSpec)
					for i, n := range vs.Names {
						if i < len(vs.Values) {
							if v, ok := c09ConstInt(vs.Values[i], env); ok {
								env[n.Name] = v
								file, line := c.pos(n.Pos())
								where[n.Name] = fmt.Sprintf("%s:%d `%s`", file, line, c09ExprString(vs.Values[i]))
							}
						}
					}
				}
			}
		}
	}
	// constants declared inside function bodies (StoreHeaderID)
	for _, fd := range funcs {
		ast.Inspect(fd.Body, func(n ast.Node) bool {
			if gd, ok := n.(*ast.GenDecl); ok && gd.Tok == token.CONST {
				for _, sp := range gd.Specs {
					vs := sp.(*ast.ValueSpec)
					for i, nm := range vs.Names {
						if i < len(vs.Values) {
							if bl, ok := vs.Values[i].(*ast.BasicLit); ok && bl.Kind == token.STRING {
								if s, err := strconv.Unquote(bl.Value); err == nil {
									strConst[nm.Name] = s
								}
							}
						}
					}
				}
			}
			return true
		})
	}

	blockSize, okBS := env["blockSize"]
	version, okV := env["storeVersion"]
	headerID, okID := strConst["StoreHeaderID"]

	// shape of makeGluonHeaderBytes: version := make([]byte, 4); binary.LittleEndian.PutUint32(version, storeVersion);
	// return append([]byte(StoreHeaderID), version...)
	shape := false
	if fd := funcs["makeGluonHeaderBytes"]; fd != nil {
		var mk4, putLE, ret bool
		ast.Inspect(fd.Body, func(n ast.Node) bool {
			switch x := n.(type) {
			case *ast.AssignStmt:
				if len(x.Lhs) == 1 && identLit(x.Lhs[0]) == "version" && len(x.Rhs) == 1 && c09ExprString(x.Rhs[0]) == "make([]byte, 4)" {
					mk4 = true
				}
			case *ast.ExprStmt:
				if c09ExprString(x.X) == "binary.LittleEndian.PutUint32(version, storeVersion)" {
					putLE = true
				}
			case *ast.ReturnStmt:
				if len(x.Results) == 1 {
					if call, ok := x.Results[0].(*ast.CallExpr); ok && call.Ellipsis != token.NoPos &&
						c09ExprString(call) == "append([]byte(StoreHeaderID), version)" {
						ret = true
					}
				}
			}
			return true
		})
		shape = mk4 && putLE && ret
	}
	var header []int
	if shape && okV && okID {
		for _, b := range []byte(headerID) {
			header = append(header, int(b))
		}
		for i := 0; i < 4; i++ {
			header = append(header, int((version>>(8*uint(i)))&0xff))
		}
	}

	return &c09Src{env: env, where: where, strConst: strConst, funcs: funcs, blockSize: blockSize, version: version,
		okBS: okBS, okV: okV, okID: okID, headerID: headerID, shape: shape, header: header}
}

func factsStore(c *factsCtx, outdir string) error {
	src := c09ParseStoreSource(c)
	where, funcs := src.where, src.funcs
	blockSize, okBS, version, okV, headerID, okID, shape, header := src.blockSize, src.okBS, src.version, src.okV, src.headerID, src.okID, src.shape, src.header

	// getEncryptedBlockSize returns blockSize + aead.Overhead()
	pieceKnown, pieceOK := false, false
	if fd := funcs["getEncryptedBlockSize"]; fd != nil && len(fd.Body.List) == 1 {
		if r, ok := fd.Body.List[0].(*ast.ReturnStmt); ok && len(r.Results) == 1 {
			pieceKnown = true
			pieceOK = c09ExprString(r.Results[0]) == "blockSize + aead.Overhead()"
		}
	}

	// Set: Seal's additional data, the cut size, the LZ4 options
	sealKnown, sealNil, cutKnown, cutOK := false, false, false, false
	var lz4opts []string
	if fd := funcs["onDiskStore.Set"]; fd != nil {
		ast.Inspect(fd.Body, func(n ast.Node) bool {
			call, ok := n.(*ast.CallExpr)
			if !ok {
				return true
			}
			switch c09ExprString(call.Fun) {
			case "c.gcm.Seal":
				if len(call.Args) == 4 {
					sealKnown = true
					sealNil = identLit(call.Args[3]) == "nil" && identLit(call.Args[1]) == "nonce"
				}
			case "io.ReadAtLeast":
				if len(call.Args) == 3 {
					cutKnown = true
					cutOK = identLit(call.Args[2]) == "blockSize" && identLit(call.Args[1]) == "compressedBlock"
				}
			case "compressor.Apply":
				for _, a := range call.Args {
					lz4opts = append(lz4opts, c09ExprString(a))
				}
			}
			return true
		})
	}

	// Get: Open's additional data; whether io.EOF from WriteTo is swallowed
	openKnown, openNil, eofKnown, eofSwallowed := false, false, false, false
	if fd := funcs["onDiskStore.Get"]; fd != nil {
		ast.Inspect(fd.Body, func(n ast.Node) bool {
			switch x := n.(type) {
			case *ast.CallExpr:
				if c09ExprString(x.Fun) == "c.gcm.Open" && len(x.Args) == 4 {
					openKnown = true
					openNil = identLit(x.Args[3]) == "nil" && identLit(x.Args[1]) == "nonce"
				}
			case *ast.IfStmt:
				as, ok := x.Init.(*ast.AssignStmt)
				if !ok || len(as.Rhs) != 1 {
					return true
				}
				call, ok := as.Rhs[0].(*ast.CallExpr)
				if !ok || !strings.HasSuffix(c09ExprString(call.Fun), ".WriteTo") {
					return true
				}
				if c09ExprString(x.Cond) != "err != nil" || len(x.Body.List) != 1 {
					return true // unknown shape
				}
				switch s := x.Body.List[0].(type) {
				case *ast.ReturnStmt:
					eofKnown, eofSwallowed = true, false
				case *ast.IfStmt:
					if s.Init == nil && c09ExprString(s.Cond) == "!errors.Is(err, io.EOF)" && s.Else == nil && len(s.Body.List) == 1 {
						if _, ok := s.Body.List[0].(*ast.ReturnStmt); ok {
							eofKnown, eofSwallowed = true, true
						}
					}
				}
			}
			return true
		})
	}

	// Get, reader goroutine: a piece that does not open must end the plain-text stream with an ERROR
	// (`writer.CloseWithError(<non-nil error built from the err of that very Open>)` then `return`), directly in the
	// `if err != nil` that follows `decrypted, err := c.gcm.Open(...)` - the model's `Term.fail`.  Anything else
	// (a deferred close reading some other variable, an assignment to a shadowed err, …) is not recognised.
	openFailKnown, openFailErr := false, false
	if fd := funcs["onDiskStore.Get"]; fd != nil {
		ast.Inspect(fd.Body, func(n ast.Node) bool {
			blk, ok := n.(*ast.BlockStmt)
			if !ok {
				return true
			}
			for i := 0; i+1 < len(blk.List); i++ {
				as, ok := blk.List[i].(*ast.AssignStmt)
				if !ok || len(as.Rhs) != 1 || len(as.Lhs) != 2 || identLit(as.Lhs[1]) != "err" {
					continue
				}
				call, ok := as.Rhs[0].(*ast.CallExpr)
				if !ok || c09ExprString(call.Fun) != "c.gcm.Open" {
					continue
				}
				openFailKnown = true
				ifs, ok := blk.List[i+1].(*ast.IfStmt)
				if !ok || ifs.Init != nil || c09ExprString(ifs.Cond) != "err != nil" || ifs.Else != nil || len(ifs.Body.List) != 2 {
					continue
				}
				es, ok1 := ifs.Body.List[0].(*ast.ExprStmt)
				_, ok2 := ifs.Body.List[1].(*ast.ReturnStmt)
				if !ok1 || !ok2 {
					continue
				}
				cw, ok := es.X.(*ast.CallExpr)
				if !ok || c09ExprString(cw.Fun) != "writer.CloseWithError" || len(cw.Args) != 1 {
					continue
				}
				switch a := cw.Args[0].(type) {
				case *ast.Ident:
					openFailErr = a.Name == "err"
				case *ast.CallExpr: // fmt.Errorf("…%w", …, err): never nil
					openFailErr = c09ExprString(a.Fun) == "fmt.Errorf" && len(a.Args) >= 2 && identLit(a.Args[len(a.Args)-1]) == "err"
				}
			}
			return true
		})
	}

	// write_controlled_store.go: the shape of acquireSyncRef / releaseSyncRef / the wrappers, as the
	// transition system Model/StoreLock.lean has it
	relShape := "unknown"
	if fd := funcs["WriteControlledStore.releaseSyncRef"]; fd != nil && len(fd.Body.List) >= 1 {
		isLock := func(s ast.Stmt) bool {
			es, ok := s.(*ast.ExprStmt)
			return ok && c09ExprString(es.X) == "w.lock.Lock()"
		}
		if ifs, ok := fd.Body.List[0].(*ast.IfStmt); ok && len(fd.Body.List) == 1 &&
			c09ExprString(ifs.Cond) == "atomic.AddInt32(&ref.counter, -1) <= 0" && len(ifs.Body.List) == 3 && isLock(ifs.Body.List[0]) {
			if inner, ok := ifs.Body.List[2].(*ast.IfStmt); ok && c09ExprString(inner.Cond) == "atomic.LoadInt32(&ref.counter) <= 0" && len(inner.Body.List) == 2 &&
				c09StmtExprString(inner.Body.List[0]) == "delete(w.entryTable, id)" &&
				c09StmtExprString(inner.Body.List[1]) == "w.lockPool.Put(ref)" {
				relShape = "decrement; if <= 0 { lock; if counter <= 0 { delete; Put } }"
			}
		} else if isLock(fd.Body.List[0]) {
			relShape = "lock first"
		}
	}
	acqKnown, acqLocked := false, false
	if fd := funcs["WriteControlledStore.acquireSyncRef"]; fd != nil && len(fd.Body.List) >= 2 {
		acqKnown = true
		es, ok1 := fd.Body.List[0].(*ast.ExprStmt)
		ds, ok2 := fd.Body.List[1].(*ast.DeferStmt)
		acqLocked = ok1 && ok2 && c09ExprString(es.X) == "w.lock.Lock()" && c09ExprString(ds.Call) == "w.lock.Unlock()"
	}
	wrapKnown, wrapOK := false, true
	for name, lock := range map[string][2]string{"WriteControlledStore.Get": {"syncRef.lock.RLock()", "syncRef.lock.RUnlock()"}, "WriteControlledStore.Set": {"syncRef.lock.Lock()", "syncRef.lock.Unlock()"}} {
		fd := funcs[name]
		if fd == nil || len(fd.Body.List) != 5 {
			wrapOK = false
			continue
		}
		wrapKnown = true
		as, ok0 := fd.Body.List[0].(*ast.AssignStmt)
		d1, ok1 := fd.Body.List[1].(*ast.DeferStmt)
		e2, ok2 := fd.Body.List[2].(*ast.ExprStmt)
		d3, ok3 := fd.Body.List[3].(*ast.DeferStmt)
		if !(ok0 && ok1 && ok2 && ok3 && len(as.Rhs) == 1 && c09ExprString(as.Rhs[0]) == "w.acquireSyncRef(messageID)" &&
			c09ExprString(d1.Call) == "w.releaseSyncRef(messageID, syncRef)" && c09ExprString(e2.X) == lock[0] && c09ExprString(d3.Call) == lock[1]) {
			wrapOK = false
		}
	}

	var b strings.Builder
	b.WriteString("namespace Gluon.Facts.Store\n\n")
	fmt.Fprintf(&b, "/-- shape of WriteControlledStore.releaseSyncRef (\"unknown\" if not recognised) -/\ndef releaseShape : String := %s\n\n", leanStr(relShape))
	fmt.Fprintf(&b, "/-- acquireSyncRef runs entirely under `w.lock` (Lock; defer Unlock first) -/\ndef acquireUnderTableLock : Option Bool := %s\n\n", c09LeanOptB(acqKnown, acqLocked))
	fmt.Fprintf(&b, "/-- Get/Set: acquire; defer release; RLock/Lock; defer RUnlock/Unlock (so the unlock runs before the release) -/\ndef wrappersUnlockBeforeRelease : Option Bool := %s\n\n", c09LeanOptB(wrapKnown, wrapKnown && wrapOK))
	if okBS {
		fmt.Fprintf(&b, "/-- %s -/\ndef blockSize : Nat := %d\n\n", where["blockSize"], blockSize)
	} else {
		b.WriteString("/-- `blockSize` not found or not a constant integer expression -/\ndef blockSize : Nat := 0\n\n")
	}
	if okV {
		fmt.Fprintf(&b, "/-- %s -/\ndef storeVersion : Nat := %d\n\n", where["storeVersion"], version)
	} else {
		b.WriteString("def storeVersion : Nat := 0\n\n")
	}
	fmt.Fprintf(&b, "/-- `StoreHeaderID` in makeGluonHeaderBytes -/\ndef headerID : String := %s\n\n", leanStr(headerID))
	fmt.Fprintf(&b, "/-- makeGluonHeaderBytes is `append([]byte(StoreHeaderID), <little-endian uint32 storeVersion>...)` -/\ndef headerShapeKnown : Bool := %v\n\n", shape && okV && okID)
	b.WriteString("/-- `storeHeaderBytes`, computed from the above (empty when the shape was not recognised) -/\ndef headerBytes : List Nat := [")
	for i, x := range header {
		if i > 0 {
			b.WriteString(", ")
		}
		fmt.Fprintf(&b, "%d", x)
	}
	b.WriteString("]\n\n")
	fmt.Fprintf(&b, "/-- `Set` cuts the compressed stream with `io.ReadAtLeast(reader, compressedBlock, blockSize)` -/\ndef setCutsAtBlockSize : Option Bool := %s\n\n", c09LeanOptB(cutKnown, cutOK))
	fmt.Fprintf(&b, "/-- `getEncryptedBlockSize` is `blockSize + aead.Overhead()` (size of the pieces `Get` reads) -/\ndef pieceIsBlockPlusOverhead : Option Bool := %s\n\n", c09LeanOptB(pieceKnown, pieceOK))
	fmt.Fprintf(&b, "/-- `c.gcm.Seal(_, nonce, _, nil)`: the file's one nonce, no additional data (no block index) -/\ndef sealAADNil : Option Bool := %s\n\n", c09LeanOptB(sealKnown, sealNil))
	fmt.Fprintf(&b, "/-- `c.gcm.Open(_, nonce, _, nil)` -/\ndef openAADNil : Option Bool := %s\n\n", c09LeanOptB(openKnown, openNil))
	fmt.Fprintf(&b, "/-- `Get`, reader goroutine: `decrypted, err := c.gcm.Open(…); if err != nil { writer.CloseWithError(<that err, wrapped>); return }` - a piece that does not open ends the stream handed to the LZ4 reader with an error, not with end of file (`Term.fail`) -/\ndef openFailureFailsPipe : Option Bool := %s\n\n", c09LeanOptB(openFailKnown, openFailErr))
	fmt.Fprintf(&b, "/-- `Get`: `if _, err := decompressor.WriteTo(&b); err != nil { if !errors.Is(err, io.EOF) { return nil, err } }` -/\ndef getSwallowsEOF : Option Bool := %s\n\n", c09LeanOptB(eofKnown, eofSwallowed))
	b.WriteString("/-- options applied to the lz4.Writer in `Set` -/\ndef lz4Options : List String := [")
	for i, o := range lz4opts {
		if i > 0 {
			b.WriteString(", ")
		}
		b.WriteString(leanStr(o))
	}
	b.WriteString("]\n\nend Gluon.Facts.Store\n")
	return writeLean(outdir, "Store.lean", b.String())
}

func init() {
	factGens = append(factGens, factGen{"Store", factsStore})
}
