package main

// Oracle `c13wire` (C13): FETCH is byte-exact on the IMAP wire, over STORAGE STATES.
//
// A whole server over TCP (public API), the dummy connector behind a wrapper whose Close is a no-op (so the
// same connector survives a server restart) and which counts GetMessageLiteral calls.  Every case is the life
// of ONE message:
//
//	way     APPEND   the client appends <lit>
//	        CONN     the connector announces it (Dummy.MessageCreated + Flush)
//	steps   F        session A: UID FETCH <uid> (<all items>)            -> one observation phase
//	        FI       session A: one UID FETCH per item                    -> one phase (first command restores, the rest read back)
//	        FB       a second session (EXAMINE) fetches all items         -> one phase
//	        FH       session A: UID FETCH <uid> (BODY.PEEK[HEADER]) only  -> one phase with that item
//	        SRCH     session A: UID SEARCH BODY <word> (needs every literal of the mailbox; no observation)
//	        RM       the message's cache file is removed behind the server's back
//	        CORRUPT  the cache file is overwritten with its own bytes, two of them flipped (does not decrypt)
//	        TRUNC    the cache file is cut to its 27-byte prefix (header + nonce, what a killed writer leaves);
//	                 TRUNC0: to zero bytes; TRUNCHALF: to half of its length
//	        RMDIR    the user's whole cache directory is removed
//	        RESTART  the server is closed and started again on the same directories
//	        COPY / MOVE   UID COPY / UID MOVE into the other mailbox; the following steps work there
//	        REAPPEND the last BODY[] answer of the message's CURRENT internal id (answers fetched before a connector
//	                 update re-created the message are not used: their id line is superseded) is appended to a third
//	                 mailbox (gluon recognises its own id line and adds the existing message); the following steps work there
//	        UPDATE / UPDATESAME   (way CONN) the connector sends MessageUpdated with <lit2> / with the same literal
//
// Items: RFC822.SIZE, BODY[], RFC822, RFC822.HEADER, RFC822.TEXT, BODY[HEADER], BODY[TEXT], HEADER.FIELDS /
// HEADER.FIELDS.NOT with the id key, the parts the message has (BODY[1], BODY[1.MIME], BODY[2.HEADER] …) and
// partials <o.n> around the boundaries 0, the length of the id line, the length of the message.
//
// The message's internal id is the name of the cache file that appears when the message is created (not taken
// from any answer).  Verdicts (Lean, Driver/DC13Wire.lean):
//
//	judge-c13-wire   every item answered and framed; the answers to one item are the same bytes in every
//	                 phase; RFC822.SIZE = |BODY[]|, RFC822 = BODY[], HEADER ++ TEXT = BODY[], partial = slice;
//	                 every answer = the model's section of (<lit> + exactly one id line)
//	c13-wire-model   Model/LitCache.lean (getLiteral / create / update) over the same steps: which bytes
//	                 every fetch phase works on; compared with the BODY[] the wire returned
//
// Harness-side bookkeeping that is reported as well: a RM/CORRUPT/TRUNC/RMDIR followed by a fetch must make the
// server ask the connector exactly once (the restore happened — otherwise the case did not test what it says).
//
//	vh oracle c13wire -seed S -out result.json -replaydir DIR [-n N] [-big K]
//	vh oracle c13wire -replay FILE        (lines `case <way> <lit hex> <lit2 hex|-> <items> <steps>`)

import (
	"bytes"
	"context"
	"encoding/hex"
	"flag"
	"fmt"
	"net"
	"os"
	"os/exec"
	"path/filepath"
	"regexp"
	"sort"
	"strconv"
	"strings"
	"sync/atomic"
	"time"

	"github.com/ProtonMail/gluon"
	"github.com/ProtonMail/gluon/connector"
	"github.com/ProtonMail/gluon/imap"
)

// ---- connector wrapper ------------------------------------------------------------------------

type c13wConn struct {
	*connector.Dummy
	literalCalls int64
}

func (c *c13wConn) Close(ctx context.Context) error { return nil }

func (c *c13wConn) GetMessageLiteral(ctx context.Context, id imap.MessageID) ([]byte, error) {
	atomic.AddInt64(&c.literalCalls, 1)
	return c.Dummy.GetMessageLiteral(ctx, id)
}

// c13wNewSys: NewSys with the wrapped connector; a restart (userID != "") loads the user and does not Sync.
func c13wNewSys(conn *c13wConn, dir, userID string) (*Sys, error) {
	if dir == "" {
		d, err := os.MkdirTemp("", "vh-c13w-")
		if err != nil {
			return nil, err
		}
		dir = d
	}
	rec := &panicRecorder{}
	srv, err := gluon.New(
		gluon.WithDataDir(filepath.Join(dir, "store")),
		gluon.WithDatabaseDir(filepath.Join(dir, "db")),
		gluon.WithDelimiter("/"),
		gluon.WithPanicHandler(rec),
	)
	if err != nil {
		return nil, err
	}
	ctx, cancel := context.WithCancel(context.Background())
	if userID == "" {
		userID, err = srv.AddUser(ctx, conn, []byte("passphrase"))
		if err == nil {
			err = conn.Dummy.Sync(ctx)
		}
	} else {
		_, err = srv.LoadUser(ctx, conn, userID, []byte("passphrase"))
	}
	if err != nil {
		cancel()
		return nil, err
	}
	ln, err := net.Listen("tcp", "127.0.0.1:0")
	if err != nil {
		cancel()
		return nil, err
	}
	if err := srv.Serve(ctx, ln); err != nil {
		cancel()
		return nil, err
	}
	go func() {
		for range srv.GetErrorCh() {
		}
	}()
	return &Sys{Server: srv, Conn: conn.Dummy, UserID: userID, Addr: ln.Addr().String(), Dir: dir, cancel: cancel, ln: ln, Panics: rec}, nil
}

// ---- items ------------------------------------------------------------------------------------

type c13wItem struct {
	kind  string // SIZE - MIME HEADER TEXT FIELDS FIELDS.NOT RFC822 RFC822.HEADER RFC822.TEXT
	path  []int
	names []string
	has   bool
	b, c  int64
}

func (it c13wItem) spec() string {
	names := "-"
	if len(it.names) > 0 {
		var l [][]byte
		for _, n := range it.names {
			l = append(l, []byte(n))
		}
		names = r8hexList(l)
	}
	b, c := "~", "~"
	if it.has {
		b, c = strconv.FormatInt(it.b, 10), strconv.FormatInt(it.c, 10)
	}
	return strings.Join([]string{it.kind, r8showPath(it.path), names, b, c}, "/")
}

func c13wParseItem(s string) (c13wItem, error) {
	f := strings.Split(s, "/")
	if len(f) != 5 {
		return c13wItem{}, fmt.Errorf("bad item %q", s)
	}
	it := c13wItem{kind: f[0], path: r8path(f[1])}
	for _, n := range r8unhexList(f[2]) {
		it.names = append(it.names, string(n))
	}
	if f[3] != "~" {
		it.has = true
		it.b, _ = strconv.ParseInt(f[3], 10, 64)
		it.c, _ = strconv.ParseInt(f[4], 10, 64)
	}
	return it, nil
}

// wire: what the client asks for
func (it c13wItem) wire() string {
	switch it.kind {
	case "SIZE":
		return "RFC822.SIZE"
	case "RFC822", "RFC822.HEADER", "RFC822.TEXT":
		return it.kind
	}
	var p []string
	for _, x := range it.path {
		p = append(p, strconv.Itoa(x))
	}
	sec := strings.Join(p, ".")
	text := ""
	switch it.kind {
	case "MIME", "HEADER", "TEXT":
		text = it.kind
	case "FIELDS":
		text = "HEADER.FIELDS (" + strings.Join(it.names, " ") + ")"
	case "FIELDS.NOT":
		text = "HEADER.FIELDS.NOT (" + strings.Join(it.names, " ") + ")"
	}
	if sec != "" && text != "" {
		sec += "."
	}
	out := "BODY.PEEK[" + sec + text + "]"
	if it.has {
		out += fmt.Sprintf("<%d.%d>", it.b, it.c)
	}
	return out
}

func c13wItemsSpec(items []c13wItem) string {
	s := make([]string, len(items))
	for i, it := range items {
		s[i] = it.spec()
	}
	return strings.Join(s, ";")
}

// ---- FETCH response parser --------------------------------------------------------------------

type c13wResp struct {
	name string
	raw  []byte // the whole item as sent (name SP value)
	num  int64  // value if it is a number, else -1
}

// c13wParseFetch splits `* n FETCH (item item …)` into its items.  A value is a literal, a number, a quoted
// string, NIL or a parenthesised list.
func c13wParseFetch(line []byte) ([]c13wResp, error) {
	i := bytes.Index(line, []byte(" FETCH ("))
	if !bytes.HasPrefix(line, []byte("* ")) || i < 0 {
		return nil, fmt.Errorf("not a FETCH response")
	}
	p := i + len(" FETCH (")
	var out []c13wResp
	for {
		if p >= len(line) {
			return nil, fmt.Errorf("unterminated FETCH response")
		}
		if line[p] == ')' {
			if p != len(line)-1 {
				return nil, fmt.Errorf("bytes after the closing parenthesis")
			}
			return out, nil
		}
		if line[p] == ' ' {
			p++
			continue
		}
		start := p
		depth := 0
		for p < len(line) && !(line[p] == ' ' && depth == 0) {
			switch line[p] {
			case '[':
				depth++
			case ']':
				depth--
			}
			p++
		}
		name := string(line[start:p])
		if p >= len(line) {
			return nil, fmt.Errorf("item %s without value", name)
		}
		p++ // the space
		r := c13wResp{name: name, num: -1}
		switch {
		case line[p] == '{':
			e := bytes.Index(line[p:], []byte("}\r\n"))
			if e < 0 {
				return nil, fmt.Errorf("item %s: broken literal header", name)
			}
			n, err := strconv.Atoi(string(line[p+1 : p+e]))
			if err != nil || p+e+3+n > len(line) {
				return nil, fmt.Errorf("item %s: literal of %q bytes does not fit", name, line[p+1:p+e])
			}
			p += e + 3 + n
		case line[p] == '(':
			d := 0
			inq := false
			for ; p < len(line); p++ {
				c := line[p]
				if inq {
					if c == '\\' {
						p++
					} else if c == '"' {
						inq = false
					}
					continue
				}
				if c == '"' {
					inq = true
				} else if c == '(' {
					d++
				} else if c == ')' {
					d--
					if d == 0 {
						p++
						break
					}
				}
			}
		case line[p] == '"':
			p++
			for p < len(line) && line[p] != '"' {
				if line[p] == '\\' {
					p++
				}
				p++
			}
			p++
		default:
			vs := p
			for p < len(line) && line[p] != ' ' && line[p] != ')' {
				p++
			}
			if n, err := strconv.ParseInt(string(line[vs:p]), 10, 64); err == nil {
				r.num = n
			}
		}
		if p > len(line) {
			return nil, fmt.Errorf("item %s: value runs past the end", name)
		}
		r.raw = append([]byte{}, line[start:p]...)
		out = append(out, r)
	}
}

// ---- message builder --------------------------------------------------------------------------

var c13wShapes = []string{"plain", "multipart", "nested", "embedded", "headeronly", "eightbit", "folded", "barelf", "big"}

func c13wBody(r *Rng, nl string, lines int) string {
	words := []string{"the", "quick", "brown", "fox", "jumps", "over", "lazy", "dog", "--", "--b", "From ", ".", "", "=20"}
	var sb strings.Builder
	for i := 0; i < lines; i++ {
		n := r.Range(0, 8)
		for j := 0; j < n; j++ {
			if j > 0 {
				sb.WriteByte(' ')
			}
			sb.WriteString(Pick(r, words))
		}
		sb.WriteString(nl)
	}
	return sb.String()
}

// c13wBuildMsg: a message gluon accepts (From and Date present) of the given shape; the marker makes it unique.
func c13wBuildMsg(r *Rng, shape, marker string, bigSize int) []byte {
	nl := "\r\n"
	if shape == "barelf" {
		nl = "\n"
	}
	hdr := func(extra ...string) string {
		h := []string{"From: Alice <alice@example.com>", "To: bob@example.com", "Date: Mon, 02 Jan 2006 15:04:05 +0000",
			"Subject: " + marker, "Message-Id: <" + marker + "@example.com>"}
		h = append(h, extra...)
		if r.Chance(1, 2) { // field order varies; the id line goes in front of whatever comes first
			h[0], h[2] = h[2], h[0]
		}
		return strings.Join(h, nl) + nl + nl
	}
	leaf := func(ct string) string {
		return "Content-Type: " + ct + nl + "Content-Transfer-Encoding: 7bit" + nl + nl + c13wBody(r, nl, r.Range(1, 4))
	}
	switch shape {
	case "multipart":
		b := "c13w-" + marker
		return []byte(hdr("MIME-Version: 1.0", "Content-Type: multipart/mixed; boundary=\""+b+"\"") +
			"preamble" + nl + "--" + b + nl + leaf("text/plain; charset=utf-8") + "--" + b + nl + leaf("text/html") + "--" + b + "--" + nl + "epilogue" + nl)
	case "nested":
		b, bi := "outer-"+marker, "inner-"+marker
		switch r.Intn(3) { // boundary relations: one boundary a proper prefix of the other (neither is a delimiter of the other)
		case 0:
			b = "rel-" + marker
			bi = b + "-alt"
		case 1:
			bi = "rel-" + marker
			b = bi + "x"
		}
		inner := "Content-Type: multipart/alternative; boundary=" + bi + nl + nl +
			"--" + bi + nl + leaf("text/plain") + "--" + bi + nl + leaf("text/html") + "--" + bi + "--" + nl
		return []byte(hdr("Content-Type: multipart/mixed; boundary="+b) +
			"--" + b + nl + inner + "--" + b + nl + "Content-Type: application/octet-stream" + nl + "Content-Disposition: attachment; filename=a.bin" + nl + nl +
			"AAECAwQFBgcICQ==" + nl + "--" + b + "--" + nl)
	case "embedded":
		b := "emb-" + marker
		em := "From: carol@example.com" + nl + "Date: Tue, 03 Jan 2006 10:00:00 +0000" + nl + "Subject: inner " + marker + nl + nl + c13wBody(r, nl, 2)
		return []byte(hdr("Content-Type: multipart/mixed; boundary="+b) +
			"--" + b + nl + leaf("text/plain") + "--" + b + nl + "Content-Type: message/rfc822" + nl + nl + em + "--" + b + "--" + nl)
	case "headeronly":
		return []byte(hdr())
	case "eightbit":
		return []byte(hdr("X-Note: caf\xc3\xa9 \xe2\x82\xac", "Content-Type: text/plain; charset=iso-8859-1", "Content-Transfer-Encoding: 8bit") +
			"na\xefve \xe9t\xe9 \xff\x00\x01 end" + nl + c13wBody(r, nl, 2))
	case "folded":
		h := "Received: from a.example.com" + nl + "\tby b.example.com;" + nl + " Mon, 02 Jan 2006 15:04:05 +0000" + nl + "X-Empty:" + nl
		return []byte(h + hdr("X-Long: one"+nl+"  two"+nl+"\tthree") + c13wBody(r, nl, 3))
	case "big":
		line := "0123456789abcdefghijklmnopqrstuvwxyzABCDEFGHIJKLMNOPQRSTUVWXYZ0123456789ab" + nl
		var sb strings.Builder
		sb.WriteString(hdr("Content-Type: text/plain"))
		for sb.Len() < bigSize {
			sb.WriteString(line)
		}
		return []byte(sb.String())
	}
	return []byte(hdr("X-Marker: "+marker) + c13wBody(r, nl, r.Range(1, 5)))
}

const c13wIDLineLen int64 = int64(len("X-Pm-Gluon-Id: ") + 36 + 2)

// c13wGenItems: the core items, the parts this message has (asked of the real section code on the bare
// literal: only existing sections are requested, a NO would hide every other item), boundary partials.
func c13wGenItems(r *Rng, lit, lit2 []byte) []c13wItem {
	items := []c13wItem{
		{kind: "SIZE"}, {kind: "-"}, {kind: "RFC822"}, {kind: "RFC822.HEADER"}, {kind: "RFC822.TEXT"},
		{kind: "HEADER"}, {kind: "TEXT"},
		{kind: "FIELDS", names: []string{"X-Pm-Gluon-Id", "Subject"}},
		{kind: "FIELDS", names: []string{"x-pm-gluon-id"}},
		{kind: "FIELDS.NOT", names: []string{"X-Pm-Gluon-Id"}},
		{kind: "FIELDS.NOT", names: []string{"Subject", "From"}},
	}
	exists := func(it c13wItem) bool {
		for _, l := range [][]byte{lit, lit2} {
			if l == nil {
				continue
			}
			if w := r8fetch(l, it.path, it.kind, it.names, false, 0, 0); w == "panic" || strings.HasPrefix(w, "err:") {
				return false
			}
		}
		return true
	}
	var parts []c13wItem
	for _, p := range [][]int{{1}, {2}, {1, 1}, {1, 2}, {2, 1}} {
		for _, k := range []string{"-", "MIME", "HEADER", "TEXT"} {
			it := c13wItem{kind: k, path: p}
			if exists(it) {
				parts = append(parts, it)
			}
		}
	}
	// at most five part items per case
	for len(parts) > 5 {
		i := r.Intn(len(parts))
		parts = append(parts[:i], parts[i+1:]...)
	}
	items = append(items, parts...)
	total := int64(len(lit)) + c13wIDLineLen
	bounds := []int64{0, 1, c13wIDLineLen - 1, c13wIDLineLen, c13wIDLineLen + 1, int64(len(lit)), total - 1, total, total + 1, 4294967295}
	counts := []int64{1, 2, c13wIDLineLen, c13wIDLineLen + 1, 100, total, 4294967295}
	for _, k := range []string{"-", "-", "HEADER", "TEXT"} {
		items = append(items, c13wItem{kind: k, has: true, b: Pick(r, bounds), c: Pick(r, counts)})
	}
	items = append(items, c13wItem{kind: "-", has: true, b: 0, c: c13wIDLineLen})
	if len(parts) > 0 {
		p := Pick(r, parts)
		items = append(items, c13wItem{kind: p.kind, path: p.path, has: true, b: Pick(r, []int64{0, 1, 5}), c: Pick(r, []int64{1, 7, 4294967295})})
	}
	return items
}

// ---- runner -----------------------------------------------------------------------------------

type c13wCase struct {
	way   string
	lit   []byte
	lit2  []byte
	items []c13wItem
	steps []string
}

func (c c13wCase) line() string {
	l2 := "-"
	if c.lit2 != nil {
		l2 = r8hex(c.lit2)
	}
	return fmt.Sprintf("case %s %s %s %s %s", c.way, r8hex(c.lit), l2, c13wItemsSpec(c.items), strings.Join(c.steps, ","))
}

func c13wParseCase(l string) (c13wCase, error) {
	f := strings.Split(strings.TrimSpace(l), " ")
	if len(f) != 6 || f[0] != "case" {
		return c13wCase{}, fmt.Errorf("bad case line")
	}
	c := c13wCase{way: f[1], lit: r8unhex(f[2])}
	if f[3] != "-" {
		c.lit2 = r8unhex(f[3])
	}
	for _, s := range strings.Split(f[4], ";") {
		it, err := c13wParseItem(s)
		if err != nil {
			return c, err
		}
		c.items = append(c.items, it)
	}
	c.steps = strings.Split(f[5], ",")
	return c, nil
}

type c13wPhase struct {
	label string
	ans   []string // per item: table index, n<k>, -, x
	body  []byte   // data of BODY[] in this phase (nil if not answered)
}

type c13wEpoch struct {
	lit    []byte
	id     string
	phases []c13wPhase
}

type c13wObs struct {
	status  string // ok, refused (creation refused), or a harness note
	epochs  []c13wEpoch
	table   [][]byte
	index   map[string]int
	steps   []string // the steps that were carried out
	ids     []string // id1, id2
	notes   []string // harness-side findings `kind|text` (restore not requested from the connector …)
	lit2    []byte
}

type c13wRunner struct {
	conn   *c13wConn
	sys    *Sys
	a, b   *Client
	aSel   string
	nCase  int
	lastNo string
}

var c13wMailboxes = []string{"c13a", "c13b", "c13c"}

func c13wNewRunner() (*c13wRunner, error) {
	fl := imap.NewFlagSet(imap.FlagSeen, imap.FlagFlagged, imap.FlagDeleted, imap.FlagAnswered, imap.FlagDraft)
	d := connector.NewDummy([]string{"user"}, []byte(sysPassword), time.Hour, fl, fl, imap.NewFlagSet())
	d.SetUpdatesAllowedToFail(true)
	w := &c13wRunner{conn: &c13wConn{Dummy: d}}
	sys, err := c13wNewSys(w.conn, "", "")
	if err != nil {
		return nil, err
	}
	w.sys = sys
	for _, m := range c13wMailboxes {
		if err := d.MailboxCreated(imap.Mailbox{ID: imap.MailboxID(m), Name: []string{m}, Flags: fl, PermanentFlags: fl, Attributes: imap.NewFlagSet()}); err != nil {
			return nil, err
		}
	}
	if err := sys.Barrier(); err != nil {
		return nil, err
	}
	return w, nil
}

func (w *c13wRunner) close() {
	if w.a != nil {
		w.a.Close()
	}
	if w.b != nil {
		w.b.Close()
	}
	if w.sys != nil {
		w.sys.Close(true)
	}
	_ = w.conn.Dummy.Close(context.Background())
}

func (w *c13wRunner) sessA(mbox string) (*Client, error) {
	if w.a == nil {
		c, err := w.sys.Dial("a")
		if err != nil {
			return nil, err
		}
		if rep := c.Login("user"); rep.Status != "OK" {
			return nil, fmt.Errorf("login: %v %s", rep.Err, rep.Tagged)
		}
		w.a, w.aSel = c, ""
	}
	if w.aSel != mbox {
		if rep := w.a.Cmd("SELECT " + mbox); rep.Status != "OK" {
			return nil, fmt.Errorf("select %s: %v %s", mbox, rep.Err, rep.Tagged)
		}
		w.aSel = mbox
	}
	return w.a, nil
}

func (w *c13wRunner) sessB(mbox string) (*Client, error) {
	if w.b == nil {
		c, err := w.sys.Dial("b")
		if err != nil {
			return nil, err
		}
		if rep := c.Login("user"); rep.Status != "OK" {
			return nil, fmt.Errorf("login: %v %s", rep.Err, rep.Tagged)
		}
		w.b = c
	}
	if rep := w.b.Cmd("EXAMINE " + mbox); rep.Status != "OK" {
		return nil, fmt.Errorf("examine %s: %v %s", mbox, rep.Err, rep.Tagged)
	}
	return w.b, nil
}

func (w *c13wRunner) restart() error {
	if w.a != nil {
		w.a.Close()
		w.a = nil
	}
	if w.b != nil {
		w.b.Close()
		w.b = nil
	}
	dir, uid := w.sys.Dir, w.sys.UserID
	w.sys.Close(false)
	sys, err := c13wNewSys(w.conn, dir, uid)
	if err != nil {
		return err
	}
	w.sys = sys
	return nil
}

func (w *c13wRunner) storeDir() string { return filepath.Join(w.sys.Dir, "store", w.sys.UserID) }

func (w *c13wRunner) listFiles() map[string]bool {
	out := map[string]bool{}
	es, _ := os.ReadDir(w.storeDir())
	for _, e := range es {
		out[e.Name()] = true
	}
	return out
}

func c13wNewFiles(before, after map[string]bool) []string {
	var out []string
	for n := range after {
		if !before[n] {
			out = append(out, n)
		}
	}
	sort.Strings(out)
	return out
}

var (
	c13wReAppendUID = regexp.MustCompile(`\[APPENDUID \d+ (\d+)\]`)
	c13wReCopyUID   = regexp.MustCompile(`\[COPYUID \d+ (\d+) (\d+)\]`)
	c13wReSearch    = regexp.MustCompile(`^\* SEARCH(.*)$`)
)

func c13wMaxUID(c *Client) (int, error) {
	rep := c.Cmd("UID SEARCH ALL")
	if rep.Status != "OK" {
		return 0, fmt.Errorf("uid search: %v %s", rep.Err, rep.Tagged)
	}
	max := 0
	for _, u := range rep.Untagged {
		if m := c13wReSearch.FindStringSubmatch(u); m != nil {
			for _, f := range strings.Fields(m[1]) {
				if v, _ := strconv.Atoi(f); v > max {
					max = v
				}
			}
		}
	}
	return max, nil
}

func (o *c13wObs) intern(raw []byte) string {
	k := string(raw)
	if i, ok := o.index[k]; ok {
		return strconv.Itoa(i)
	}
	o.index[k] = len(o.table)
	o.table = append(o.table, raw)
	return strconv.Itoa(len(o.table) - 1)
}

// fetchInto: one UID FETCH for the items with the given indices; answers go to ph.ans
func (w *c13wRunner) fetchInto(c *Client, uid int, items []c13wItem, idx []int, o *c13wObs, ph *c13wPhase) error {
	want := make([]string, len(idx))
	for k, i := range idx {
		want[k] = items[i].wire()
	}
	rep := c.Cmd(fmt.Sprintf("UID FETCH %d (%s)", uid, strings.Join(want, " ")))
	if rep.Err != nil {
		return fmt.Errorf("connection lost in FETCH: %v", rep.Err)
	}
	for _, i := range idx {
		ph.ans[i] = "x"
	}
	if rep.Status != "OK" {
		w.lastNo = rep.Tagged
		return nil
	}
	var got []c13wResp
	for _, u := range rep.Untagged {
		if !strings.Contains(u, " FETCH (") {
			continue
		}
		rs, err := c13wParseFetch([]byte(u))
		if err != nil {
			return fmt.Errorf("FETCH response: %v", err)
		}
		for _, r := range rs {
			if r.name == "UID" || r.name == "FLAGS" {
				continue
			}
			got = append(got, r)
		}
	}
	// the server answers the items in the order they were asked
	for k, i := range idx {
		if k >= len(got) {
			break
		}
		if items[i].kind == "SIZE" {
			if got[k].name == "RFC822.SIZE" && got[k].num >= 0 {
				ph.ans[i] = "n" + strconv.FormatInt(got[k].num, 10)
			}
			continue
		}
		ph.ans[i] = o.intern(got[k].raw)
		if items[i].kind == "-" && len(items[i].path) == 0 && !items[i].has {
			if j := bytes.Index(got[k].raw, []byte("}\r\n")); j >= 0 {
				ph.body = got[k].raw[j+3:]
			}
		}
	}
	return nil
}

func c13wIsDrop(s string) bool {
	return s == "RM" || s == "CORRUPT" || strings.HasPrefix(s, "TRUNC") || s == "RMDIR"
}
func c13wIsFetch(s string) bool {
	return s == "F" || s == "FI" || s == "FB" || s == "FH"
}

// run one case; the returned error is a harness problem, not a verdict
func (w *c13wRunner) run(cs c13wCase) (*c13wObs, error) {
	w.nCase++
	w.lastNo = ""
	o := &c13wObs{status: "ok", index: map[string]int{}, ids: []string{"-", "-"}}
	a, err := w.sessA("c13a")
	if err != nil {
		return nil, err
	}
	before := w.listFiles()
	uid := 0
	remoteID := imap.MessageID(fmt.Sprintf("c13w-%d-%d", os.Getpid(), w.nCase))
	date := time.Unix(1136214245, 0).UTC()
	switch cs.way {
	case "APPEND":
		rep := a.Append("c13a", "", cs.lit)
		if rep.Err != nil {
			return nil, fmt.Errorf("append: %v", rep.Err)
		}
		if rep.Status != "OK" {
			o.status = "refused"
			return o, nil
		}
		if m := c13wReAppendUID.FindStringSubmatch(rep.Tagged); m != nil {
			uid, _ = strconv.Atoi(m[1])
		}
	case "CONN":
		if err := w.conn.Dummy.MessageCreated(imap.Message{ID: remoteID, Flags: imap.NewFlagSet(), Date: date}, cs.lit, []imap.MailboxID{"c13a"}); err != nil {
			o.status = "refused"
			return o, nil
		}
		if err := w.sys.Barrier(); err != nil {
			return nil, err
		}
		a.Cmd("NOOP")
		if uid, err = c13wMaxUID(a); err != nil {
			return nil, err
		}
	default:
		return nil, fmt.Errorf("unknown way %s", cs.way)
	}
	nf := c13wNewFiles(before, w.listFiles())
	if len(nf) != 1 || uid == 0 {
		return nil, fmt.Errorf("creation: %d new cache files, uid %d", len(nf), uid)
	}
	o.ids[0] = nf[0]
	cur := "c13a"
	epoch := &c13wEpoch{lit: cs.lit, id: nf[0]}
	curID := nf[0]
	pendingDrop := false
	var lastBody []byte
	nPhase := 0
	finish := func() {
		o.epochs = append(o.epochs, *epoch)
	}
	for _, st := range cs.steps {
		switch {
		case c13wIsFetch(st):
			nPhase++
			ph := c13wPhase{label: fmt.Sprintf("%d%s", nPhase, st), ans: make([]string, len(cs.items))}
			for i := range ph.ans {
				ph.ans[i] = "-"
			}
			callsBefore := atomic.LoadInt64(&w.conn.literalCalls)
			var c *Client
			if st == "FB" {
				c, err = w.sessB(cur)
			} else {
				c, err = w.sessA(cur)
			}
			if err != nil {
				return nil, err
			}
			all := make([]int, len(cs.items))
			for i := range all {
				all[i] = i
			}
			switch st {
			case "F", "FB":
				err = w.fetchInto(c, uid, cs.items, all, o, &ph)
			case "FI":
				for _, i := range all {
					if err = w.fetchInto(c, uid, cs.items, []int{i}, o, &ph); err != nil {
						break
					}
				}
			case "FH":
				for i, it := range cs.items {
					if it.kind == "HEADER" && len(it.path) == 0 && !it.has {
						err = w.fetchInto(c, uid, cs.items, []int{i}, o, &ph)
						break
					}
				}
			}
			if err != nil {
				return nil, err
			}
			calls := atomic.LoadInt64(&w.conn.literalCalls) - callsBefore
			if pendingDrop && calls != 1 {
				o.notes = append(o.notes, fmt.Sprintf("restore-count|phase %s after a lost cache file: the connector was asked for the literal %d times (expected once)", ph.label, calls))
			}
			if !pendingDrop && calls != 0 {
				o.notes = append(o.notes, fmt.Sprintf("unexpected-download|phase %s: the cache file was in place, yet the connector was asked for the literal %d times", ph.label, calls))
			}
			pendingDrop = false
			if ph.body != nil {
				lastBody = ph.body
			}
			epoch.phases = append(epoch.phases, ph)
		case st == "SRCH":
			c, err := w.sessA(cur)
			if err != nil {
				return nil, err
			}
			if rep := c.Cmd("UID SEARCH UID " + strconv.Itoa(uid) + " BODY c13w-no-such-word"); rep.Err != nil {
				return nil, fmt.Errorf("search: %v", rep.Err)
			}
			pendingDrop = false
		case st == "RM":
			if err := os.Remove(filepath.Join(w.storeDir(), curID)); err != nil && !os.IsNotExist(err) {
				return nil, fmt.Errorf("RM: %v", err)
			}
			pendingDrop = true
		case st == "CORRUPT" || strings.HasPrefix(st, "TRUNC"):
			p := filepath.Join(w.storeDir(), curID)
			b, err := os.ReadFile(p)
			if os.IsNotExist(err) { // already gone: stays gone
				o.steps = append(o.steps, st)
				continue
			}
			if err != nil {
				return nil, fmt.Errorf("%s: %v", st, err)
			}
			if st == "TRUNC" {
				if len(b) > storeHeaderAndNonce {
					b = b[:storeHeaderAndNonce]
				}
			} else if st == "TRUNC0" {
				b = nil
			} else if st == "TRUNCHALF" {
				b = b[:len(b)/2]
			} else if pendingDrop {
				// already unreadable: flipping the same bits again would repair it
			} else if len(b) > storeHeaderAndNonce+2 {
				b[storeHeaderAndNonce+(len(b)-storeHeaderAndNonce)/2] ^= 0x5a
				b[len(b)-1] ^= 0x01
			}
			if err := os.WriteFile(p, b, 0o600); err != nil {
				return nil, err
			}
			pendingDrop = true
		case st == "RMDIR":
			if err := os.RemoveAll(w.storeDir()); err != nil {
				return nil, err
			}
			pendingDrop = true
		case st == "RESTART":
			if err := w.restart(); err != nil {
				return nil, fmt.Errorf("restart: %v", err)
			}
		case st == "COPY" || st == "MOVE":
			c, err := w.sessA(cur)
			if err != nil {
				return nil, err
			}
			dst := "c13b"
			if cur == "c13b" {
				dst = "c13a"
			}
			rep := c.Cmd(fmt.Sprintf("UID %s %d %s", st, uid, dst))
			if rep.Err != nil {
				return nil, fmt.Errorf("%s: %v", st, rep.Err)
			}
			m := c13wReCopyUID.FindStringSubmatch(rep.Tagged)
			if m == nil {
				for _, u := range rep.Untagged {
					if m = c13wReCopyUID.FindStringSubmatch(u); m != nil {
						break
					}
				}
			}
			if rep.Status != "OK" || m == nil {
				return nil, fmt.Errorf("%s: %s", st, rep.Tagged)
			}
			uid, _ = strconv.Atoi(m[2])
			cur = dst
		case st == "REAPPEND":
			if lastBody == nil {
				continue
			}
			c, err := w.sessA(cur)
			if err != nil {
				return nil, err
			}
			bf := w.listFiles()
			rep := c.Append("c13c", "", lastBody)
			if rep.Err != nil {
				return nil, fmt.Errorf("reappend: %v", rep.Err)
			}
			m := c13wReAppendUID.FindStringSubmatch(rep.Tagged)
			if rep.Status != "OK" || m == nil {
				return nil, fmt.Errorf("reappend: %s", rep.Tagged)
			}
			if added := c13wNewFiles(bf, w.listFiles()); len(added) != 0 {
				// not recognised as the existing message: a new message; the observation of this one ends here
				o.notes = append(o.notes, "reappend-new-message|REAPPEND of the BODY[] answer created a new message (its id line was not recognised)")
				o.steps = append(o.steps, st)
				finish()
				return o, nil
			}
			uid, _ = strconv.Atoi(m[1])
			cur = "c13c"
		case st == "UPDATE" || st == "UPDATESAME":
			if cs.way != "CONN" {
				continue
			}
			l2 := cs.lit2
			if st == "UPDATESAME" || l2 == nil {
				l2 = epoch.lit
			}
			bf := w.listFiles()
			if err := w.conn.Dummy.MessageUpdated(imap.Message{ID: remoteID, Flags: imap.NewFlagSet(), Date: date}, l2, []imap.MailboxID{imap.MailboxID(cur)}); err != nil {
				return nil, fmt.Errorf("MessageUpdated: %v", err)
			}
			if err := w.sys.Barrier(); err != nil {
				return nil, err
			}
			c, err := w.sessA(cur)
			if err != nil {
				return nil, err
			}
			c.Cmd("NOOP")
			o.lit2 = l2
			if added := c13wNewFiles(bf, w.listFiles()); len(added) == 1 {
				finish()
				epoch = &c13wEpoch{lit: l2, id: added[0]}
				curID = added[0]
				o.ids[1] = added[0]
				pendingDrop = false
				// the message was re-created under a new internal id: a BODY[] answer fetched before carries the
				// superseded id line, which legitimately names no live message any more (REAPPEND of it would be a
				// new message); only an answer fetched from here on may be re-appended
				lastBody = nil
				if uid, err = c13wMaxUID(c); err != nil {
					return nil, err
				}
			} else if len(added) > 1 {
				return nil, fmt.Errorf("update: %d new cache files", len(added))
			}
		default:
			return nil, fmt.Errorf("unknown step %s", st)
		}
		o.steps = append(o.steps, st)
	}
	finish()
	return o, nil
}

// ---- judge lines ------------------------------------------------------------------------------

func c13wJudgeLine(cs c13wCase, o *c13wObs, e c13wEpoch) string {
	tab := "-"
	if len(o.table) > 0 {
		h := make([]string, len(o.table))
		for i, t := range o.table {
			h[i] = r8hex(t)
		}
		tab = strings.Join(h, ",")
	}
	ph := "-"
	if len(e.phases) > 0 {
		p := make([]string, len(e.phases))
		for i, x := range e.phases {
			p[i] = x.label + "/" + strings.Join(x.ans, ",")
		}
		ph = strings.Join(p, ";")
	}
	steps := "-"
	if len(o.steps) > 0 {
		steps = strings.Join(o.steps, ",")
	}
	return fmt.Sprintf("judge-c13-wire %s %s %s %s %s %s => %s %s", cs.way, r8hex(e.lit), hex.EncodeToString([]byte(e.id)),
		r8ctTable(e.lit), c13wItemsSpec(cs.items), steps, tab, ph)
}

func c13wModelLine(cs c13wCase, o *c13wObs) string {
	l2 := "~"
	if o.lit2 != nil {
		l2 = r8hex(o.lit2)
	}
	id2 := "-"
	if o.ids[1] != "-" {
		id2 = hex.EncodeToString([]byte(o.ids[1]))
	}
	steps := "-"
	if len(o.steps) > 0 {
		steps = strings.Join(o.steps, ",")
	}
	return fmt.Sprintf("c13-wire-model %s %s %s %s %s", r8hex(cs.lit), l2, hex.EncodeToString([]byte(o.ids[0])), id2, steps)
}

// what the wire says for the model comparison: per fetch phase which reference its BODY[] equals
func c13wWireReads(o *c13wObs, r1, r2 []byte) string {
	var out []string
	for _, e := range o.epochs {
		for _, ph := range e.phases {
			switch {
			case ph.body == nil:
				continue // BODY[] not asked in this phase (FH): nothing to compare
			case bytes.Equal(ph.body, r1):
				out = append(out, "1")
			case r2 != nil && bytes.Equal(ph.body, r2):
				out = append(out, "2")
			default:
				out = append(out, "o")
			}
		}
	}
	if len(out) == 0 {
		return "-"
	}
	return strings.Join(out, ",")
}

// ---- generation -------------------------------------------------------------------------------

var c13wDirected = [][]string{
	{"F", "F"},
	{"F", "RM", "F", "F"},
	{"RM", "F", "F"},
	{"F", "CORRUPT", "F", "F"},
	{"F", "TRUNC", "F", "FB"},
	{"F", "TRUNC0", "F", "F"},
	{"F", "TRUNCHALF", "F", "F"},
	{"F", "RMDIR", "F", "F"},
	{"F", "RM", "RESTART", "F", "F"},
	{"F", "RM", "F", "RESTART", "F"},
	{"F", "RESTART", "F"},
	{"F", "RM", "FB", "F"},
	{"F", "RM", "FH", "F"},
	{"F", "RM", "SRCH", "F"},
	{"F", "RM", "FI"},
	{"F", "RM", "COPY", "F", "F"},
	{"F", "COPY", "RM", "F", "F"},
	{"F", "RM", "MOVE", "F", "F"},
	{"F", "RM", "F", "REAPPEND", "F"},
	{"F", "UPDATE", "F", "RM", "F", "F"},
	{"F", "RM", "UPDATE", "F", "F"},
	{"F", "UPDATESAME", "F", "RM", "F", "F"},
	{"F", "RM", "UPDATESAME", "F", "F"},
}

func c13wGenSteps(r *Rng, way string) []string {
	n := r.Range(3, 9)
	var out []string
	fetches := []string{"F", "F", "F", "FI", "FB", "FH"}
	others := []string{"RM", "RM", "CORRUPT", "TRUNC", "TRUNC0", "TRUNCHALF", "RMDIR", "RESTART", "COPY", "MOVE", "REAPPEND", "SRCH"}
	if way == "CONN" {
		others = append(others, "UPDATE", "UPDATESAME")
	}
	moved, updated := false, false
	for len(out) < n {
		if r.Chance(3, 5) {
			out = append(out, Pick(r, fetches))
			continue
		}
		s := Pick(r, others)
		if s == "COPY" || s == "MOVE" || s == "REAPPEND" {
			if moved {
				continue
			}
			moved = true
		}
		if strings.HasPrefix(s, "UPDATE") {
			if updated {
				continue
			}
			updated = true
		}
		if s == "RMDIR" && r.Chance(2, 3) {
			continue
		}
		out = append(out, s)
	}
	// a case ends with two fetches: what a lost file was restored to is read back
	return append(out, "F", Pick(r, fetches))
}

func c13wGenCases(r *Rng, n, big int) []c13wCase {
	var cases []c13wCase
	k := 0
	mk := func(way, shape string, steps []string, bigSize int) {
		k++
		marker := fmt.Sprintf("m%d", k)
		lit := c13wBuildMsg(r, shape, marker, bigSize)
		cs := c13wCase{way: way, lit: lit, steps: steps}
		for _, s := range steps {
			if s == "UPDATE" {
				cs.lit2 = c13wBuildMsg(r, Pick(r, []string{shape, shape, "plain", "multipart"}), marker+"u", 0)
			}
		}
		cs.items = c13wGenItems(r, lit, cs.lit2)
		cases = append(cases, cs)
	}
	for i, st := range c13wDirected {
		way := "APPEND"
		for _, s := range st {
			if strings.HasPrefix(s, "UPDATE") {
				way = "CONN"
			}
		}
		mk(way, c13wShapes[i%8], st, 0)
		if way == "APPEND" && i%3 == 1 {
			mk("CONN", c13wShapes[(i+3)%8], st, 0)
		}
	}
	for i := 0; i < big; i++ {
		mk(Pick(r, []string{"APPEND", "CONN"}), "big", Pick(r, [][]string{{"F", "RM", "F", "F"}, {"F", "CORRUPT", "F", "RESTART", "F"}, {"F", "TRUNCHALF", "FB", "F"}}),
			[]int{70_000, 262_144 - 200, 262_144 + 100}[i%3])
	}
	for len(cases) < n {
		way := Pick(r, []string{"APPEND", "APPEND", "CONN"})
		mk(way, Pick(r, c13wShapes[:8]), c13wGenSteps(r, way), 0)
	}
	return cases
}

// ---- oracle -----------------------------------------------------------------------------------

func runC13WireOracle(args []string) int {
	fs := flag.NewFlagSet("c13wire", flag.ExitOnError)
	seed := fs.Uint64("seed", 1, "")
	out := fs.String("out", "", "")
	replayDir := fs.String("replaydir", ".", "")
	replay := fs.String("replay", "", "")
	n := fs.Int("n", 60, "cases")
	big := fs.Int("big", 2, "cases with a large message")
	driver := fs.String("driver", os.Getenv("VERIF_DRIVER"), "model driver")
	_ = fs.Parse(args)
	if *driver == "" {
		if exe, err := os.Executable(); err == nil {
			p := filepath.Join(filepath.Dir(filepath.Dir(exe)), "lean", ".lake", "build", "bin", "gluon_model_driver")
			if _, err := os.Stat(p); err == nil {
				*driver = p
			}
		}
	}
	res := &OracleResult{Stats: map[string]int{}}
	fail := func(msg string) int {
		fmt.Fprintln(os.Stderr, "c13wire:", msg)
		if *out != "" {
			name := filepath.Join(*replayDir, fmt.Sprintf("C13-wire-harness-%d.txt", *seed))
			_ = os.MkdirAll(*replayDir, 0o755)
			_ = os.WriteFile(name, []byte("oracle c13wire\n# harness problem, no verdict: "+msg+"\n"), 0o644)
			res.Violations = append(res.Violations, OracleViol{Desc: "C13 wire oracle could not run: " + msg, Replay: name})
			writeResult(*out, res)
		}
		return 0
	}

	var cases []c13wCase
	if *replay != "" {
		b, err := os.ReadFile(*replay)
		if err != nil {
			fmt.Fprintln(os.Stderr, err)
			return 2
		}
		for _, l := range strings.Split(string(b), "\n") {
			if strings.HasPrefix(l, "case ") {
				cs, err := c13wParseCase(l)
				if err != nil {
					return fail("replay file: " + err.Error())
				}
				cases = append(cases, cs)
			}
		}
	} else {
		cases = c13wGenCases(NewRng(*seed).Fork(), *n, *big)
	}

	w, err := c13wNewRunner()
	if err != nil {
		return fail("start: " + err.Error())
	}
	defer w.close()

	type judged struct {
		cs    c13wCase
		obs   *c13wObs
		epoch int
	}
	var jl, ml []string
	var jmeta []judged
	var mmeta []judged
	for _, cs := range cases {
		obs, err := w.run(cs)
		if err != nil {
			return fail(fmt.Sprintf("%s: %v", c13wTrunc(cs.line(), 300), err))
		}
		res.Stats["way."+cs.way]++
		res.Stats["status."+obs.status]++
		if obs.status != "ok" {
			continue
		}
		for _, s := range obs.steps {
			res.Stats["step."+s]++
		}
		if p := w.sys.Panics.Take(); len(p) > 0 {
			obs.notes = append(obs.notes, "server-panic|server panic: "+p[0])
		}
		for i, e := range obs.epochs {
			jl = append(jl, c13wJudgeLine(cs, obs, e))
			jmeta = append(jmeta, judged{cs, obs, i})
		}
		ml = append(ml, c13wModelLine(cs, obs))
		mmeta = append(mmeta, judged{cs, obs, 0})
	}
	ans, err := c13wLean(*driver, jl)
	if err != nil {
		return fail("lean judge: " + err.Error())
	}
	mans, err := c13wLean(*driver, ml)
	if err != nil {
		return fail("lean storage model: " + err.Error())
	}

	seenClass := map[string]bool{}
	distinct := map[string]bool{}
	report := func(kind string, cs c13wCase, obs *c13wObs, class, detail string) {
		if seenClass[class] {
			res.Stats["violations-not-reported-same-class"]++
			return
		}
		seenClass[class] = true
		text := "oracle c13wire\n" + cs.line() + "\n"
		text += fmt.Sprintf("# way %s, steps carried out: %s\n# message (%d bytes): %s\n", cs.way, strings.Join(obs.steps, ","), len(cs.lit), strconv.Quote(c13wTrunc(string(cs.lit), 400)))
		text += fmt.Sprintf("# cache file / internal id: %s %s\n", obs.ids[0], obs.ids[1])
		for ei, e := range obs.epochs {
			for _, ph := range e.phases {
				size := "-"
				for i, it := range cs.items {
					if it.kind == "SIZE" {
						size = ph.ans[i]
					}
				}
				b := "not asked"
				if ph.body != nil {
					b = fmt.Sprintf("%d bytes, starts %s", len(ph.body), strconv.Quote(c13wTrunc(string(ph.body), 70)))
				}
				text += fmt.Sprintf("# epoch %d phase %-6s RFC822.SIZE %-8s BODY[] %s\n", ei+1, ph.label, size, b)
			}
		}
		if w.lastNo != "" {
			text += "# last failed FETCH: " + w.lastNo + "\n"
		}
		text += "# " + detail + "\n# replay: ./check C13 --replay <this file>\n"
		name := filepath.Join(*replayDir, fmt.Sprintf("C13-wire-%s-%d-%d.txt", kind, *seed, len(res.Violations)))
		_ = os.MkdirAll(*replayDir, 0o755)
		_ = os.WriteFile(name, []byte(text), 0o644)
		res.Violations = append(res.Violations, OracleViol{Desc: "C13 wire: " + detail, Replay: name})
	}

	// (1) the property judge
	for i, a := range ans {
		res.Evaluations++
		f := strings.Fields(a)
		key := f[0]
		if len(f) > 1 {
			key += ":" + f[1]
		}
		res.Stats["judge."+key]++
		m := jmeta[i]
		if strings.HasPrefix(a, "ok nontrivial") {
			distinct[jl[i]] = true
		}
		if len(res.Samples) < 3 {
			res.Samples = append(res.Samples, map[string]string{"oracle": "c13wire", "case": fmt.Sprintf("%s %s (%d bytes, %d items)", m.cs.way, strings.Join(m.obs.steps, ","), len(m.cs.lit), len(m.cs.items)), "judge": a})
		}
		if strings.HasPrefix(a, "ok") {
			continue
		}
		report("judge", m.cs, m.obs, key, fmt.Sprintf("property judge (judge-c13-wire), epoch %d: %s", m.epoch+1, a))
	}
	// (2) the storage model over the same steps
	for i, a := range mans {
		m := mmeta[i]
		f := strings.Fields(a)
		get := func(k string) string {
			for _, w := range f {
				if strings.HasPrefix(w, k+"=") {
					return w[len(k)+1:]
				}
			}
			return ""
		}
		if len(f) == 0 || f[0] != "ok" {
			report("model", m.cs, m.obs, "model-refused", "storage model (c13-wire-model) answered "+c13wTrunc(a, 200)+" for a message the server accepted")
			continue
		}
		var r1, r2 []byte
		r1 = r8unhex(get("R1"))
		if get("R2") != "-" {
			r2 = r8unhex(get("R2"))
		}
		// phases without BODY[] (FH) are not compared: drop the model's reads at those positions
		mreads := strings.Split(get("reads"), ",")
		var keep []string
		k := 0
		for _, e := range m.obs.epochs {
			for _, ph := range e.phases {
				if k < len(mreads) && ph.body != nil {
					keep = append(keep, mreads[k])
				}
				k++
			}
		}
		want := "-"
		if len(keep) > 0 {
			want = strings.Join(keep, ",")
		}
		got := c13wWireReads(m.obs, r1, r2)
		wantID2 := "1"
		if m.obs.ids[1] != "-" {
			wantID2 = "2"
		}
		if got == want && get("cur") == wantID2 {
			res.Stats["model.agree"]++
		} else {
			res.Stats["model.disagree"]++
			report("model", m.cs, m.obs, "model-disagree", fmt.Sprintf("wire and storage model (Model/LitCache.lean, dialect c13-wire-model) disagree on which bytes the fetch phases work on: wire %s (message id generation %s), model %s (generation %s); 1 = the created literal with its id line, 2 = the updated literal with its id line, o = other bytes", got, wantID2, want, get("cur")))
		}
		for _, note := range m.obs.notes {
			res.Stats["notes"]++
			kt := strings.SplitN(note, "|", 2)
			report("note", m.cs, m.obs, "note:"+kt[0], kt[1])
		}
	}
	res.DistinctNontrivial = len(distinct)
	res.Stats["connector.GetMessageLiteral"] = int(atomic.LoadInt64(&w.conn.literalCalls))
	if *out != "" {
		writeResult(*out, res)
	} else {
		for i, a := range ans {
			fmt.Println(jmeta[i].cs.way, strings.Join(jmeta[i].obs.steps, ","), "->", a)
		}
		for i, a := range mans {
			fmt.Println("model:", strings.Join(mmeta[i].obs.steps, ","), "->", c13wTrunc(a, 60), a[strings.LastIndex(a, " cur="):])
		}
		for _, v := range res.Violations {
			fmt.Println("VIOLATION", v.Desc, v.Replay)
		}
	}
	return 0
}

func c13wLean(driver string, lines []string) ([]string, error) {
	if len(lines) == 0 {
		return nil, nil
	}
	if driver == "" {
		return nil, fmt.Errorf("no model driver (VERIF_DRIVER)")
	}
	cmd := exec.Command(driver)
	cmd.Stdin = strings.NewReader(strings.Join(lines, "\n") + "\n")
	out, err := cmd.Output()
	if err != nil {
		return nil, err
	}
	ans := strings.Split(strings.TrimRight(string(out), "\n"), "\n")
	if len(ans) != len(lines) {
		return nil, fmt.Errorf("driver answered %d lines for %d", len(ans), len(lines))
	}
	return ans, nil
}

func c13wTrunc(s string, n int) string {
	if len(s) > n {
		return s[:n] + "…"
	}
	return s
}

func init() {
	RegisterOracle(&Oracle{Name: "c13wire", Run: runC13WireOracle})
}
