package main

// Facts/Rfc822.lean (C13): the value of ids.InternalIDKey and every call site of
// rfc822.SetHeaderValue / SetHeaderValueNoMemCopy outside the rfc822 package with the key it passes; the
// parsers of a partial's numbers; the functions rfc822.NewHeader / Header.Fields / Header.FieldsNot
// normalise field names with, and the shape of rfc822.foldKey.

import (
	"fmt"
	"go/ast"
	"go/printer"
	"go/token"
	"io/fs"
	"path/filepath"
	"reflect"
	"sort"
	"strconv"
	"strings"
)

func factsRfc822(c *factsCtx, outdir string) error {
	key := ""
	known := false
	for _, f := range c.parseDir("internal/ids") {
		for _, d := range f.Decls {
			gd, ok := d.(*ast.GenDecl)
			if !ok || gd.Tok != token.CONST {
				continue
			}
			for _, sp := range gd.Specs {
				vs, ok := sp.(*ast.ValueSpec)
				if !ok {
					continue
				}
				for i, n := range vs.Names {
					if n.Name != "InternalIDKey" || i >= len(vs.Values) {
						continue
					}
					if bl, ok := vs.Values[i].(*ast.BasicLit); ok && bl.Kind == token.STRING {
						if s, err := strconv.Unquote(bl.Value); err == nil {
							key, known = s, true
						}
					}
				}
			}
		}
	}
	type site struct {
		file string
		line int
		fn   string
		key  string
	}
	var sites []site
	var dirs []string
	_ = filepath.WalkDir(c.repo, func(path string, d fs.DirEntry, err error) error {
		if err != nil || !d.IsDir() {
			return nil
		}
		rel, _ := filepath.Rel(c.repo, path)
		base := filepath.Base(path)
		if rel != "." && (strings.HasPrefix(base, ".") || rel == "rfc822" || rel == "tests" || rel == "benchmarks" || rel == "verifhooks") {
			return filepath.SkipDir
		}
		dirs = append(dirs, rel)
		return nil
	})
	sort.Strings(dirs)
	for _, dir := range dirs {
		eachFuncCall(c.parseDir(dir), func(fn string, call *ast.CallExpr) {
			q := calleeQualified(call)
			if q != "rfc822.SetHeaderValue" && q != "rfc822.SetHeaderValueNoMemCopy" {
				return
			}
			k := "unknown"
			if len(call.Args) == 3 {
				if se, ok := call.Args[1].(*ast.SelectorExpr); ok {
					if x, ok := se.X.(*ast.Ident); ok {
						k = x.Name + "." + se.Sel.Name
					}
				}
			}
			file, line := c.pos(call.Pos())
			sites = append(sites, site{file, line, fn, k})
		})
	}
	sort.Slice(sites, func(i, j int) bool {
		if sites[i].file != sites[j].file {
			return sites[i].file < sites[j].file
		}
		return sites[i].line < sites[j].line
	})
	// --- numbers of a partial: rfcparser.ParseNumber rejects values above math.MaxUint32 inside its digit
	// loop, handleBodyFetchAttribute reads `offset` with ParseNumber and `count` with ParseNZNumber, and
	// ParseNZNumber is ParseNumber plus a `num <= 0` rejection.
	numberMax := "none"
	for _, f := range c.parseDir("rfcparser") {
		for _, d := range f.Decls {
			fd, ok := d.(*ast.FuncDecl)
			if !ok || fd.Name.Name != "ParseNumber" || fd.Body == nil {
				continue
			}
			ast.Inspect(fd.Body, func(n ast.Node) bool {
				is, ok := n.(*ast.IfStmt)
				if !ok {
					return true
				}
				be, ok := is.Cond.(*ast.BinaryExpr)
				if !ok || be.Op != token.GTR || identLit(be.X) != "number" {
					return true
				}
				se, ok := be.Y.(*ast.SelectorExpr)
				if !ok || identLit(se.X) != "math" || se.Sel.Name != "MaxUint32" {
					return true
				}
				// the guarded block must leave the function with an error
				if len(is.Body.List) == 1 {
					if rs, ok := is.Body.List[0].(*ast.ReturnStmt); ok && len(rs.Results) == 2 && identLit(rs.Results[1]) != "nil" {
						numberMax = "(some 4294967295)"
					}
				}
				return true
			})
		}
	}
	offsetParser, countParser := "unknown", "unknown"
	nzUsesParseNumber, nzRejectsZero := false, false
	for _, f := range c.parseDir("imap/command") {
		for _, d := range f.Decls {
			fd, ok := d.(*ast.FuncDecl)
			if !ok || fd.Body == nil {
				continue
			}
			switch fd.Name.Name {
			case "handleBodyFetchAttribute":
				ast.Inspect(fd.Body, func(n ast.Node) bool {
					as, ok := n.(*ast.AssignStmt)
					if !ok || len(as.Lhs) < 1 || len(as.Rhs) != 1 {
						return true
					}
					call, ok := as.Rhs[0].(*ast.CallExpr)
					if !ok {
						return true
					}
					switch identLit(as.Lhs[0]) {
					case "offset":
						offsetParser = calleeName(call)
					case "count":
						countParser = calleeName(call)
					}
					return true
				})
			case "ParseNZNumber":
				ast.Inspect(fd.Body, func(n ast.Node) bool {
					switch x := n.(type) {
					case *ast.CallExpr:
						if calleeName(x) == "ParseNumber" {
							nzUsesParseNumber = true
						}
					case *ast.IfStmt:
						if be, ok := x.Cond.(*ast.BinaryExpr); ok && be.Op == token.LEQ && identLit(be.X) == "num" {
							if bl, ok := be.Y.(*ast.BasicLit); ok && bl.Value == "0" {
								nzRejectsZero = true
							}
						}
					}
					return true
				})
			}
		}
	}
	// --- how header field names are normalised for comparison: the standard-library string functions called in
	// rfc822.NewHeader (the key of the `keys` index / mapKey), Header.Fields and Header.FieldsNot (the requested names)
	type foldSite struct {
		fn    string
		calls []string
	}
	var foldSites []foldSite
	rfc822Files := c.parseDir("rfc822")
	localFuncs := map[string]bool{} // the package's own top-level functions (foldKey, newHeaderParser, ...)
	for _, f := range rfc822Files {
		for _, d := range f.Decls {
			if fd, ok := d.(*ast.FuncDecl); ok && fd.Recv == nil {
				localFuncs[fd.Name.Name] = true
			}
		}
	}
	// --- the shape of rfc822.foldKey (the normal form of a field name since fix 047f712): its loops, the
	// conditions of its if statements, its simple statements, and the byte range / offset it maps
	show := func(n ast.Node) string {
		if n == nil || (func() bool { v := reflect.ValueOf(n); return v.Kind() == reflect.Ptr && v.IsNil() })() {
			return ""
		}
		var sb strings.Builder
		_ = printer.Fprint(&sb, c.fset, n)
		return strings.Join(strings.Fields(sb.String()), " ")
	}
	charVal := func(e ast.Expr) (int, bool) {
		if bl, ok := e.(*ast.BasicLit); ok && bl.Kind == token.CHAR {
			if r, _, _, err := strconv.UnquoteChar(strings.Trim(bl.Value, "'"), '\''); err == nil {
				return int(r), true
			}
		}
		return 0, false
	}
	var fkLoops, fkConds, fkStmts []string
	fkLo, fkHi, fkDelta, fkConsistent, fkFound := -1, -1, -1, true, false
	setOnce := func(dst *int, v int) {
		if *dst == -1 {
			*dst = v
		} else if *dst != v {
			fkConsistent = false
		}
	}
	for _, f := range rfc822Files {
		for _, d := range f.Decls {
			fd, ok := d.(*ast.FuncDecl)
			if !ok || fd.Body == nil || fd.Recv != nil || fd.Name.Name != "foldKey" {
				continue
			}
			fkFound = true
			ast.Inspect(fd.Body, func(n ast.Node) bool {
				switch x := n.(type) {
				case *ast.ForStmt:
					fkLoops = append(fkLoops, show(x.Init)+"; "+show(x.Cond)+"; "+show(x.Post))
				case *ast.RangeStmt:
					fkLoops = append(fkLoops, "range "+show(x.X))
				case *ast.IfStmt:
					cond := show(x.Cond)
					if x.Init != nil {
						cond = show(x.Init) + "; " + cond
					}
					if x.Else != nil {
						cond += " (else)"
					}
					fkConds = append(fkConds, cond)
				case *ast.BlockStmt:
					for _, st := range x.List {
						switch st.(type) {
						case *ast.AssignStmt, *ast.IncDecStmt, *ast.ReturnStmt, *ast.ExprStmt, *ast.BranchStmt, *ast.GoStmt, *ast.DeferStmt, *ast.SwitchStmt:
							fkStmts = append(fkStmts, show(st))
						}
					}
				case *ast.BinaryExpr:
					if x.Op == token.LEQ {
						if v, ok := charVal(x.X); ok {
							setOnce(&fkLo, v)
						}
						if v, ok := charVal(x.Y); ok {
							setOnce(&fkHi, v)
						}
					} else if x.Op != token.LAND && x.Op != token.SUB && x.Op != token.LSS {
						fkConsistent = false // any other comparison / arithmetic is not the shape this fact describes
					}
				case *ast.AssignStmt:
					if x.Tok == token.ADD_ASSIGN && len(x.Rhs) == 1 {
						if be, ok := x.Rhs[0].(*ast.BinaryExpr); ok && be.Op == token.SUB {
							a, ok1 := charVal(be.X)
							b, ok2 := charVal(be.Y)
							if ok1 && ok2 {
								setOnce(&fkDelta, a-b)
							}
						}
					} else if x.Tok != token.DEFINE && x.Tok != token.ASSIGN {
						fkConsistent = false
					}
				}
				return true
			})
		}
	}
	for _, f := range rfc822Files {
		for _, d := range f.Decls {
			fd, ok := d.(*ast.FuncDecl)
			if !ok || fd.Body == nil {
				continue
			}
			name := fd.Name.Name
			recv := ""
			if fd.Recv != nil && len(fd.Recv.List) == 1 {
				t := fd.Recv.List[0].Type
				if st, ok := t.(*ast.StarExpr); ok {
					t = st.X
				}
				recv = identLit(t)
			}
			if !((recv == "" && name == "NewHeader") || (recv == "Header" && (name == "Fields" || name == "FieldsNot"))) {
				continue
			}
			seen := map[string]bool{}
			ast.Inspect(fd.Body, func(n ast.Node) bool {
				if call, ok := n.(*ast.CallExpr); ok {
					q := calleeQualified(call)
					for _, pkg := range []string{"strings.", "bytes.", "textproto.", "unicode.", "cases.", "mime."} {
						if strings.HasPrefix(q, pkg) {
							seen[q] = true
						}
					}
					if id, ok := call.Fun.(*ast.Ident); ok && localFuncs[id.Name] {
						seen[id.Name] = true
					}
				}
				return true
			})
			var calls []string
			for q := range seen {
				calls = append(calls, q)
			}
			sort.Strings(calls)
			foldSites = append(foldSites, foldSite{name, calls})
		}
	}
	sort.Slice(foldSites, func(i, j int) bool { return foldSites[i].fn < foldSites[j].fn })
	var b strings.Builder
	b.WriteString("namespace Gluon.Facts\n\n")
	leanStrList := func(xs []string) string {
		var qs []string
		for _, x := range xs {
			qs = append(qs, leanStr(x))
		}
		return "[" + strings.Join(qs, ", ") + "]"
	}
	b.WriteString("/-- rfc822.foldKey, the normal form field names are compared in: the headers of its loops, the conditions of\n    its if statements, its simple statements (source order), and the byte range [lo, hi] it shifts by delta\n    (`none` = foldKey not found, or it has comparisons / arithmetic of another shape) -/\n")
	fmt.Fprintf(&b, "def foldKeyLoops : List String := %s\n", leanStrList(fkLoops))
	fmt.Fprintf(&b, "def foldKeyConds : List String := %s\n", leanStrList(fkConds))
	fmt.Fprintf(&b, "def foldKeyStmts : List String := %s\n", leanStrList(fkStmts))
	if fkFound && fkConsistent && fkLo >= 0 && fkHi >= 0 && fkDelta >= 0 {
		fmt.Fprintf(&b, "def foldKeyRange : Option (Nat × Nat × Nat) := some (%d, %d, %d)\n\n", fkLo, fkHi, fkDelta)
	} else {
		b.WriteString("def foldKeyRange : Option (Nat × Nat × Nat) := none\n\n")
	}
	b.WriteString("/-- the strings / bytes / textproto / unicode functions and the package's own functions called in\n    rfc822.NewHeader, Header.Fields and Header.FieldsNot (how field names are normalised for comparison) -/\n")
	b.WriteString("def headerNameCalls : List (String × List String) := [")
	for i, fsite := range foldSites {
		if i > 0 {
			b.WriteString(", ")
		}
		var qs []string
		for _, q := range fsite.calls {
			qs = append(qs, leanStr(q))
		}
		fmt.Fprintf(&b, "(%s, [%s])", leanStr(fsite.fn), strings.Join(qs, ", "))
	}
	b.WriteString("]\n\n")
	fmt.Fprintf(&b, "/-- largest value rfcparser.ParseNumber accepts (`none` = no `number > math.MaxUint32` rejection found) -/\ndef parseNumberMax : Option Nat := %s\n\n", numberMax)
	fmt.Fprintf(&b, "/-- the functions handleBodyFetchAttribute reads `<offset.count>` with -/\ndef partialOffsetParser : String := %s\ndef partialCountParser : String := %s\n\n", leanStr(offsetParser), leanStr(countParser))
	fmt.Fprintf(&b, "/-- ParseNZNumber calls ParseNumber / rejects `num <= 0` -/\ndef nzNumberUsesParseNumber : Bool := %v\ndef nzNumberRejectsZero : Bool := %v\n\n", nzUsesParseNumber, nzRejectsZero)
	b.WriteString("/-- the string constant `ids.InternalIDKey` (`none` = not found as a string literal) -/\n")
	if known {
		var bs []string
		for _, x := range []byte(key) {
			bs = append(bs, strconv.Itoa(int(x)))
		}
		fmt.Fprintf(&b, "def internalIDKey : Option (List UInt8) := some [%s]  -- %s\n\n", strings.Join(bs, ", "), leanStr(key))
	} else {
		b.WriteString("def internalIDKey : Option (List UInt8) := none\n\n")
	}
	b.WriteString("structure SpliceSite where\n  file : String\n  line : Nat\n  func : String\n  key : String\nderiving DecidableEq, Repr\n\n")
	b.WriteString("/-- every call of rfc822.SetHeaderValue / SetHeaderValueNoMemCopy outside package rfc822 -/\n")
	b.WriteString("def spliceSites : List SpliceSite := [\n")
	for i, s := range sites {
		sep := ","
		if i == len(sites)-1 {
			sep = ""
		}
		fmt.Fprintf(&b, "  { file := %s, line := %d, func := %s, key := %s }%s\n", leanStr(s.file), s.line, leanStr(s.fn), leanStr(s.key), sep)
	}
	b.WriteString("]\n\nend Gluon.Facts\n")
	return writeLean(outdir, "Rfc822.lean", b.String())
}

func init() {
	factGens = append(factGens, factGen{"Rfc822", factsRfc822})
}
