package main

// Facts/Rfc822.lean (C13): the value of ids.InternalIDKey and every call site of
// rfc822.SetHeaderValue / SetHeaderValueNoMemCopy outside the rfc822 package with the key it passes.

import (
	"fmt"
	"go/ast"
	"go/token"
	"io/fs"
	"path/filepath"
	"sort"
	"strconv"
	"strings"
)

func factsRfc822(c *factsCtx, outdir string) error {
	key := ""
	known := false
	for _, f := range c.parseDir("internal/ids") {
		for _, d := range f.Decls {
			gd, ok := d.(*ast.GenDecl)
			if !ok || gd.Tok != token.CONST {
				continue
			}
			for _, sp := range gd.Specs {
				vs, ok := sp.(*ast.ValueSpec)
				if !ok {
					continue
				}
				for i, n := range vs.Names {
					if n.Name != "InternalIDKey" || i >= len(vs.Values) {
						continue
					}
					if bl, ok := vs.Values[i].(*ast.BasicLit); ok && bl.Kind == token.STRING {
						if s, err := strconv.Unquote(bl.Value); err == nil {
							key, known = s, true
						}
					}
				}
			}
		}
	}
	type site struct {
		file string
		line int
		fn   string
		key  string
	}
	var sites []site
	var dirs []string
	_ = filepath.WalkDir(c.repo, func(path string, d fs.DirEntry, err error) error {
		if err != nil || !d.IsDir() {
			return nil
		}
		rel, _ := filepath.Rel(c.repo, path)
		base := filepath.Base(path)
		if rel != "." && (strings.HasPrefix(base, ".") || rel == "rfc822" || rel == "tests" || rel == "benchmarks" || rel == "verifhooks") {
			return filepath.SkipDir
		}
		dirs = append(dirs, rel)
		return nil
	})
	sort.Strings(dirs)
	for _, dir := range dirs {
		eachFuncCall(c.parseDir(dir), func(fn string, call *ast.CallExpr) {
			q := calleeQualified(call)
			if q != "rfc822.SetHeaderValue" && q != "rfc822.SetHeaderValueNoMemCopy" {
				return
			}
			k := "unknown"
			if len(call.Args) == 3 {
				if se, ok := call.Args[1].(*ast.SelectorExpr); ok {
					if x, ok := se.X.(*ast.Ident); ok {
						k = x.Name + "." + se.Sel.Name
					}
				}
			}
			file, line := c.pos(call.Pos())
			sites = append(sites, site{file, line, fn, k})
		})
	}
	sort.Slice(sites, func(i, j int) bool {
		if sites[i].file != sites[j].file {
			return sites[i].file < sites[j].file
		}
		return sites[i].line < sites[j].line
	})
	var b strings.Builder
	b.WriteString("namespace Gluon.Facts\n\n")
	b.WriteString("/-- the string constant `ids.InternalIDKey` (`none` = not found as a string literal) -/\n")
	if known {
		var bs []string
		for _, x := range []byte(key) {
			bs = append(bs, strconv.Itoa(int(x)))
		}
		fmt.Fprintf(&b, "def internalIDKey : Option (List UInt8) := some [%s]  -- %s\n\n", strings.Join(bs, ", "), leanStr(key))
	} else {
		b.WriteString("def internalIDKey : Option (List UInt8) := none\n\n")
	}
	b.WriteString("structure SpliceSite where\n  file : String\n  line : Nat\n  func : String\n  key : String\nderiving DecidableEq, Repr\n\n")
	b.WriteString("/-- every call of rfc822.SetHeaderValue / SetHeaderValueNoMemCopy outside package rfc822 -/\n")
	b.WriteString("def spliceSites : List SpliceSite := [\n")
	for i, s := range sites {
		sep := ","
		if i == len(sites)-1 {
			sep = ""
		}
		fmt.Fprintf(&b, "  { file := %s, line := %d, func := %s, key := %s }%s\n", leanStr(s.file), s.line, leanStr(s.fn), leanStr(s.key), sep)
	}
	b.WriteString("]\n\nend Gluon.Facts\n")
	return writeLean(outdir, "Rfc822.lean", b.String())
}

func init() {
	factGens = append(factGens, factGen{"Rfc822", factsRfc822})
}
