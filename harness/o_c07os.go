package main

// Oracle `c07os` (property C07): OS-LEVEL write failures of cache files, under the REAL onDiskStore.
//
// The fault enumeration of `c07crash` injects errors AT the store.Store interface (Set / Get / Delete return an error
// the interposer made up).  What the store does with an error the OPERATING SYSTEM reports - a full disk, an I/O error,
// a quota - is below that interface: if onDiskStore.Set swallows a failing write(2) it returns nil, the command's
// transaction commits and the command is acknowledged although the bytes are not in the file.
//
// Here the store is the real one (store.OnDiskStoreBuilder) behind a thin builder wrapper (gluon.WithStoreBuilder) that
// only ARRANGES for the kernel to fail the writes of the next cache files and then calls the real Set - the whole real
// write path runs:
//
//	full       the path of the cache file (gluon chooses the internal id; Set is handed it) is pre-created as a symlink
//	           to /dev/full: open(2) succeeds, EVERY write(2) fails with ENOSPC - a full disk
//	fsize:<k>  RLIMIT_FSIZE = k bytes while the real Set runs (SIGXFSZ ignored): the write that crosses offset k is cut
//	           short / fails with EFBIG - a disk that fills up in the middle of the file.  k = -1: one byte less than the
//	           complete file (only the LAST write fails), k = -2: half of it; other k absolute (0, inside the header,
//	           header+nonce, …)
//
// (tried, not usable here: a store directory made read-only fails open(2), not write(2) - and this sandbox runs as root,
// which ignores directory modes; a full tmpfs needs mount(2).)
//
// Operations: APPEND; connector MessageCreated; connector MessagesCreated (batch of three, the fault hits the second or
// all); connector MessageUpdated of an existing message.  Literal sizes are chosen so that the CACHE FILE (header 15 +
// nonce 12 + LZ4-compressed, encrypted blocks) lands on and next to the sizes a buffered or block-wise writer cares
// about: tiny, 4 KiB, 64 KiB -1/0/+1, one store block (64*4096 compressed bytes) -1/0/+1, 1 MiB.
//
// Verdict (Lean judge `judge-c07os`, Driver/DC07OS.lean = the named hypothesis `SetFaithful` of Theorems/C07SetOS.lean and
// its conclusion): after the operation (live) and after a restart on the same directories with a connector that serves
// nothing, EVERY message listed in EVERY mailbox is fetched with its exact bytes; and component-wise: a real Set that
// returned nil has left a file from which the real Get returns exactly the bytes it was given
// (`cause=os-write-error-swallowed` otherwise).  An operation that is refused (APPEND NO, update dropped) is fine.
//
//	vh oracle c07os -seed S -out result.json -replaydir DIR [-tier quick|thorough]
//	vh oracle c07os -replay FILE          (lines: case <op> <size> <mode>)

import (
	"bytes"
	"flag"
	"fmt"
	"io"
	"os"
	"os/signal"
	"path/filepath"
	"regexp"
	"sort"
	"strconv"
	"strings"
	"sync"
	"syscall"
	"time"

	"github.com/ProtonMail/gluon/connector"
	"github.com/ProtonMail/gluon/imap"
	"github.com/ProtonMail/gluon/store"
)

// ---- the store builder wrapper ---------------------------------------------------------------

type c07osSetEvent struct {
	faulted bool
	ret     string // nil | err
	errText string
	file    string // complete | partial | absent | devfull
	size    int    // bytes handed to Set
}

type c07osBuilder struct {
	real store.Builder
	mu   sync.Mutex
	st   *c07osStore
}

func (b *c07osBuilder) New(dir, userID string, passphrase []byte) (store.Store, error) {
	st, err := b.real.New(dir, userID, passphrase)
	if err != nil {
		return nil, err
	}
	b.mu.Lock()
	defer b.mu.Unlock()
	b.st = &c07osStore{real: st, path: filepath.Join(dir, userID), b: b}
	return b.st, nil
}

func (b *c07osBuilder) Delete(dir, userID string) error { return b.real.Delete(dir, userID) }

var c07osLimitMu sync.Mutex

type c07osStore struct {
	real store.Store
	path string
	b    *c07osBuilder

	mu     sync.Mutex
	mode   string // "" = healthy
	skip   int    // Set calls to let through before the fault
	only   int    // > 0: number of Set calls the fault hits, then healthy again; 0 = all while armed
	events []c07osSetEvent
}

func (s *c07osStore) arm(mode string, skip, only int) {
	s.mu.Lock()
	defer s.mu.Unlock()
	s.mode, s.skip, s.only, s.events = mode, skip, only, nil
}

func (s *c07osStore) disarm() []c07osSetEvent {
	s.mu.Lock()
	defer s.mu.Unlock()
	s.mode = ""
	ev := s.events
	s.events = nil
	return ev
}

func (s *c07osStore) classify(id imap.InternalMessageID, want []byte) string {
	p := filepath.Join(s.path, id.String())
	fi, err := os.Lstat(p)
	if err != nil {
		return "absent"
	}
	if fi.Mode()&os.ModeSymlink != 0 {
		return "devfull" // the bytes went to /dev/full: there is no file
	}
	got, err := s.real.Get(id)
	if err == nil && bytes.Equal(got, want) {
		return "complete"
	}
	return "partial"
}

// fileSize: the size of the complete cache file of these bytes (a healthy Set into a scratch name, removed again)
func (s *c07osStore) fileSize(data []byte) (int64, error) {
	id := imap.NewInternalMessageID()
	if err := s.real.Set(id, bytes.NewReader(data)); err != nil {
		return 0, err
	}
	fi, err := os.Stat(filepath.Join(s.path, id.String()))
	_ = s.real.Delete(id)
	if err != nil {
		return 0, err
	}
	return fi.Size(), nil
}

func (s *c07osStore) Set(id imap.InternalMessageID, in io.Reader) error {
	data, rerr := io.ReadAll(in)
	if rerr != nil {
		return rerr
	}
	s.mu.Lock()
	mode := s.mode
	if mode != "" && s.skip > 0 {
		s.skip--
		mode = ""
	}
	s.mu.Unlock()
	ev := c07osSetEvent{faulted: mode != "", size: len(data)}
	// RLIMIT_FSIZE is the process's limit: one Set at a time, the limit is back before the next storage call
	c07osLimitMu.Lock()
	defer c07osLimitMu.Unlock()
	var err error
	switch {
	case mode == "":
		err = s.real.Set(id, bytes.NewReader(data))
	case mode == "full":
		p := filepath.Join(s.path, id.String())
		_ = os.MkdirAll(s.path, 0o700)
		_ = os.Remove(p)
		if lerr := os.Symlink("/dev/full", p); lerr != nil {
			return fmt.Errorf("c07os: cannot arrange the fault: %w", lerr)
		}
		err = s.real.Set(id, bytes.NewReader(data))
	case strings.HasPrefix(mode, "fsize:"):
		k, _ := strconv.ParseInt(strings.TrimPrefix(mode, "fsize:"), 10, 64)
		if k < 0 {
			full, ferr := s.fileSize(data)
			if ferr != nil {
				return fmt.Errorf("c07os: cannot measure the cache file: %w", ferr)
			}
			if k == -1 {
				k = full - 1
			} else {
				k = full / 2
			}
		}
		var old syscall.Rlimit
		if lerr := syscall.Getrlimit(syscall.RLIMIT_FSIZE, &old); lerr != nil {
			return fmt.Errorf("c07os: getrlimit: %w", lerr)
		}
		if lerr := syscall.Setrlimit(syscall.RLIMIT_FSIZE, &syscall.Rlimit{Cur: uint64(k), Max: old.Max}); lerr != nil {
			return fmt.Errorf("c07os: setrlimit: %w", lerr)
		}
		err = s.real.Set(id, bytes.NewReader(data))
		_ = syscall.Setrlimit(syscall.RLIMIT_FSIZE, &old)
	default:
		return fmt.Errorf("c07os: unknown fault mode %q", mode)
	}
	ev.ret = "nil"
	if err != nil {
		ev.ret, ev.errText = "err", err.Error()
	}
	ev.file = s.classify(id, data)
	s.mu.Lock()
	if mode != "" {
		if s.only > 0 {
			s.only--
			if s.only == 0 {
				s.mode = ""
			}
		}
	}
	s.events = append(s.events, ev)
	s.mu.Unlock()
	return err
}

func (s *c07osStore) Get(id imap.InternalMessageID) ([]byte, error) {
	// never read through a symlink to /dev/full (an endless file of zeros)
	if fi, err := os.Lstat(filepath.Join(s.path, id.String())); err == nil && fi.Mode()&os.ModeSymlink != 0 {
		return nil, fmt.Errorf("c07os: cache file of %s is not a regular file", id.ShortID())
	}
	return s.real.Get(id)
}
func (s *c07osStore) Delete(ids ...imap.InternalMessageID) error { return s.real.Delete(ids...) }
func (s *c07osStore) List() ([]imap.InternalMessageID, error)    { return s.real.List() }
func (s *c07osStore) Close() error                               { return s.real.Close() }

// ---- literals whose cache file has a given size -------------------------------------------------

// c07osText: n bytes of text LZ4 finds nothing in (characters drawn independently from 64 symbols), CRLF every 76
func c07osText(r *Rng, n int) string {
	const alpha = "ABCDEFGHIJKLMNOPQRSTUVWXYZabcdefghijklmnopqrstuvwxyz0123456789+/"
	b := make([]byte, 0, n)
	col := 0
	for len(b) < n {
		if col == 76 && len(b)+2 <= n {
			b = append(b, '\r', '\n')
			col = 0
			continue
		}
		b = append(b, alpha[r.Intn(64)])
		col++
	}
	return string(b)
}

type c07osSize struct {
	name   string
	target int64 // size of the cache file; 0 = whatever a tiny message gives
}

const c07osBlock = 64 * 4096 // store.blockSize: compressed bytes per encrypted block

var c07osSizes = []c07osSize{
	{"tiny", 0}, {"4k", 4096},
	{"64k-1", 65535}, {"64k", 65536}, {"64k+1", 65537},
	{"blk-1", 27 + c07osBlock + 16 - 1}, {"blk", 27 + c07osBlock + 16}, {"blk+1", 27 + c07osBlock + 16 + 1 + 16},
	{"1m", 1 << 20},
}

// c07osLiteral: a message (marker in the Subject) whose cache file is exactly `target` bytes long, found by measuring the
// real store (a few healthy Sets into scratch names); the gluon id header line the server adds is accounted for
func c07osLiteral(st *c07osStore, seed uint64, marker string, target int64) ([]byte, int64, error) {
	r := NewRng(seed ^ 0xc0705).Fork()
	mk := func(n int) []byte {
		rr := *r
		return SimpleMessage(marker, c07osText(&rr, n))
	}
	idLine := int64(len("X-Pm-Gluon-Id: 00000000-0000-0000-0000-000000000000\r\n"))
	if target == 0 {
		lit := mk(0)
		sz, err := st.fileSize(append([]byte(strings.Repeat("x", int(idLine))), lit...))
		return lit, sz, err
	}
	n := int(target) - 300
	if n < 0 {
		n = 0
	}
	var lit []byte
	var sz int64
	for it := 0; it < 12; it++ {
		lit = mk(n)
		var err error
		// what gluon stores is the literal with the id header line in front
		probe := append([]byte("X-Pm-Gluon-Id: 00000000-0000-0000-0000-000000000000\r\n"), lit...)
		if sz, err = st.fileSize(probe); err != nil {
			return nil, 0, err
		}
		if sz == target {
			return lit, sz, nil
		}
		n += int(target - sz)
		if n < 0 {
			n = 0
		}
	}
	return lit, sz, nil // as close as the compressor allows
}

// ---- one case -----------------------------------------------------------------------------------

type c07osCase struct {
	op, size, mode string
}

func (c c07osCase) String() string { return fmt.Sprintf("case %s %s %s", c.op, c.size, c.mode) }

type c07osOutcome struct {
	c       c07osCase
	harness string
	word    string // the judge line
	judge   string
	detail  []string
}

var c07osReSubject = regexp.MustCompile(`(?m)^Subject: ([^\r\n]*)\r?$`)

// c07osObserve: every message of every mailbox, fetched with BODY.PEEK[]; returns the number of listed messages and the
// problems (a message that cannot be fetched, bytes that differ from what was acknowledged)
func c07osObserve(sys *Sys, expect map[string][]byte) (int, []string, error) {
	c, err := sys.Dial("obs")
	if err != nil {
		return 0, nil, err
	}
	defer c.Close()
	c.Timeout = 60 * time.Second
	if rep := c.Login("user"); rep.Status != "OK" {
		return 0, nil, fmt.Errorf("login: %s %v", rep.Tagged, rep.Err)
	}
	rep := c.Cmd(`LIST "" "*"`)
	if rep.Status != "OK" {
		return 0, nil, fmt.Errorf("LIST: %s %v", rep.Tagged, rep.Err)
	}
	var boxes []string
	for _, u := range rep.Untagged {
		atts, name, ok := awParseListLine(u)
		if ok && !strings.Contains(strings.ToLower(atts), `\noselect`) {
			boxes = append(boxes, name)
		}
	}
	sort.Strings(boxes)
	listed := 0
	var bad []string
	for _, mb := range boxes {
		rep := c.Cmd("EXAMINE " + quoteMbox(mb))
		if rep.Status != "OK" {
			return listed, bad, fmt.Errorf("EXAMINE %s: %s %v", mb, rep.Tagged, rep.Err)
		}
		exists := 0
		for _, u := range rep.Untagged {
			if m := c03ReExists.FindStringSubmatch(u); m != nil {
				exists, _ = strconv.Atoi(m[1])
			}
		}
		listed += exists
		for seq := 1; seq <= exists; seq++ {
			rep := c.Cmd(fmt.Sprintf("FETCH %d (UID BODY.PEEK[])", seq))
			if rep.Err != nil {
				return listed, bad, rep.Err
			}
			if rep.Status != "OK" {
				bad = append(bad, fmt.Sprintf("%s seq %d listed but FETCH BODY.PEEK[] answered %.100s", mb, seq, rep.Tagged))
				continue
			}
			var lit []byte
			for _, u := range rep.Untagged {
				if loc := c03ReLit.FindStringSubmatchIndex(u); loc != nil {
					n, _ := strconv.Atoi(u[loc[2]:loc[3]])
					if loc[1]+n <= len(u) {
						lit = []byte(u[loc[1] : loc[1]+n])
					}
				}
			}
			if lit == nil {
				bad = append(bad, fmt.Sprintf("%s seq %d listed but FETCH returned no literal", mb, seq))
				continue
			}
			lit = stripGluonID(lit)
			m := c07osReSubject.FindSubmatch(lit)
			if m == nil {
				bad = append(bad, fmt.Sprintf("%s seq %d: fetched bytes have no Subject line (%d bytes)", mb, seq, len(lit)))
				continue
			}
			want, ok := expect[string(m[1])]
			if !ok {
				bad = append(bad, fmt.Sprintf("%s seq %d: unknown message %q", mb, seq, m[1]))
			} else if !bytes.Equal(want, lit) {
				bad = append(bad, fmt.Sprintf("%s seq %d (%s): fetched %d bytes differ from the %d bytes acknowledged", mb, seq, m[1], len(lit), len(want)))
			}
		}
		c.Cmd("UNSELECT")
	}
	c.Cmd("LOGOUT")
	return listed, bad, nil
}

func c07osRunCase(seed uint64, cs c07osCase) c07osOutcome {
	out := c07osOutcome{c: cs}
	fail := func(f string, a ...any) c07osOutcome { out.harness = fmt.Sprintf(f, a...); return out }
	var target int64 = -1
	for _, s := range c07osSizes {
		if s.name == cs.size {
			target = s.target
		}
	}
	if target < 0 {
		return fail("unknown size %q", cs.size)
	}
	b := &c07osBuilder{real: &store.OnDiskStoreBuilder{}}
	sys, err := NewSys(SysOpts{StoreBuilder: b})
	if err != nil {
		return fail("NewSys: %v", err)
	}
	dir, userID := sys.Dir, sys.UserID
	closed := false
	defer func() {
		if !closed {
			sys.Close(false)
		}
		_ = os.RemoveAll(dir)
	}()
	st := b.st
	if st == nil {
		return fail("the store builder was not used")
	}
	expect := map[string][]byte{}
	c, err := sys.Dial("A")
	if err != nil {
		return fail("dial: %v", err)
	}
	defer c.Close()
	c.Timeout = 60 * time.Second
	if rep := c.Login("user"); rep.Status != "OK" {
		return fail("login: %s", rep.Tagged)
	}
	// acknowledged prefix on a healthy disk: one appended, one created by the connector
	base := SimpleMessage("base1", "acknowledged before the fault")
	expect["base1"] = base
	if rep := c.Append("INBOX", `\Seen`, base); rep.Status != "OK" {
		return fail("prefix append: %s", rep.Tagged)
	}
	base2 := SimpleMessage("base2", "created by the connector before the fault")
	expect["base2"] = base2
	if err := sys.Conn.MessageCreated(imap.Message{ID: "r-base2", Flags: imap.NewFlagSet(), Date: time.Unix(1136214245, 0).UTC()}, base2, []imap.MailboxID{"0"}); err != nil {
		return fail("prefix connector create: %v", err)
	}
	if err := sys.Barrier(); err != nil {
		return fail("barrier: %v", err)
	}
	lit, fsz, err := c07osLiteral(st, seed, "m-"+cs.op, target)
	if err != nil {
		return fail("literal: %v", err)
	}
	ack := "no"
	skip, only := 0, 0
	var altBase2 []byte // cupdated: the literal base2 has if the update was applied
	switch cs.op {
	case "append":
		st.arm(cs.mode, 0, 0)
		rep := c.Append("INBOX", "", lit)
		if rep.Err != nil {
			return fail("append: %v", rep.Err)
		}
		if rep.Status == "OK" {
			ack = "ok"
			expect["m-append"] = lit
		}
	case "append1":
		// only the first Set fails (the disk has room again for what the error handling stores)
		st.arm(cs.mode, 0, 1)
		rep := c.Append("INBOX", "", lit)
		if rep.Err != nil {
			return fail("append: %v", rep.Err)
		}
		if rep.Status == "OK" {
			ack = "ok"
		}
		expect["m-append1"] = lit // may be kept in the recovery mailbox: then with these bytes
	case "ccreate":
		st.arm(cs.mode, 0, 0)
		expect["m-ccreate"] = lit
		if err := sys.Conn.MessageCreated(imap.Message{ID: "r-new", Flags: imap.NewFlagSet(), Date: time.Unix(1136214245, 0).UTC()}, lit, []imap.MailboxID{"0"}); err != nil {
			return fail("connector create: %v", err)
		}
		_ = sys.Barrier()
		ack = "update"
	case "cbatch", "cbatchall":
		if cs.op == "cbatch" {
			skip, only = 1, 1 // the second of the three
		}
		st.arm(cs.mode, skip, only)
		var msgs []imap.Message
		var lits [][]byte
		var mbs [][]imap.MailboxID
		for k := 0; k < 3; k++ {
			l := lit
			marker := "m-" + cs.op
			if k != 1 {
				marker = fmt.Sprintf("m-%s-%d", cs.op, k)
				l = SimpleMessage(marker, "small neighbour in the batch")
			}
			expect[marker] = l
			msgs = append(msgs, imap.Message{ID: imap.MessageID(fmt.Sprintf("r-b%d", k)), Flags: imap.NewFlagSet(), Date: time.Unix(1136214245, 0).UTC()})
			lits = append(lits, l)
			mbs = append(mbs, []imap.MailboxID{"0"})
		}
		if err := sys.Conn.MessagesCreated(msgs, lits, mbs); err != nil {
			return fail("connector batch: %v", err)
		}
		_ = sys.Barrier()
		ack = "update"
	case "cupdated":
		// the connector replaces the literal of base2
		st.arm(cs.mode, 0, 0)
		m := c07osReSubject.ReplaceAll(lit, []byte("Subject: base2"))
		if err := sys.Conn.MessageUpdated(imap.Message{ID: "r-base2", Flags: imap.NewFlagSet(), Date: time.Unix(1136214245, 0).UTC()}, m, []imap.MailboxID{"0"}); err != nil {
			return fail("connector update: %v", err)
		}
		_ = sys.Barrier()
		ack = "update"
		// either literal is an acknowledged one: the old (update refused) or the new
		altBase2 = m
	default:
		return fail("unknown operation %q", cs.op)
	}
	events := st.disarm()
	observe := func(s *Sys) (int, []string, error) {
		n, bad, err := c07osObserve(s, expect)
		if err != nil || len(bad) == 0 || altBase2 == nil {
			return n, bad, err
		}
		e1 := map[string][]byte{}
		for k, v := range expect {
			e1[k] = v
		}
		e1["base2"] = altBase2
		return c07osObserve(s, e1)
	}
	nLive, badLive, err := observe(sys)
	if err != nil {
		return fail("live view: %v", err)
	}
	if p := sys.Panics.Take(); len(p) > 0 {
		badLive = append(badLive, "server goroutine panicked: "+p[0])
	}
	c.Cmd("LOGOUT")
	sys.Close(false)
	closed = true
	// restart on the same directories; the connector has nothing to serve
	dummy := connector.NewDummy([]string{"user"}, []byte(sysPassword), time.Hour, c07Flags, c07Flags, imap.NewFlagSet())
	dummy.SetUpdatesAllowedToFail(true)
	b2 := &c07osBuilder{real: &store.OnDiskStoreBuilder{}}
	sys2, err := NewSys(SysOpts{StoreBuilder: b2, Dir: dir, UserID: userID, Conn: dummy})
	if err != nil {
		return fail("restart: %v", err)
	}
	nRe, badRe, err := observe(sys2)
	sys2.Close(false)
	if err != nil {
		return fail("view after restart: %v", err)
	}
	var evw []string
	for _, e := range events {
		f := "healthy"
		if e.faulted {
			f = "faulted"
		}
		evw = append(evw, fmt.Sprintf("%s/%s/%s", f, e.ret, e.file))
		if e.errText != "" {
			out.detail = append(out.detail, "Set error: "+c03Truncate(e.errText, 160))
		}
	}
	if len(evw) == 0 {
		evw = []string{"-"}
	}
	res := func(bad []string) string {
		if len(bad) == 0 {
			return "ok"
		}
		return fmt.Sprintf("bad%d", len(bad))
	}
	out.detail = append(out.detail, badLive...)
	for _, x := range badRe {
		out.detail = append(out.detail, "after restart: "+x)
	}
	out.detail = append(out.detail, fmt.Sprintf("cache file of the operation's message: %d bytes; listed live %d, after restart %d", fsz, nLive, nRe))
	out.word = fmt.Sprintf("judge-c07os %s %s %s sets=%s ack=%s live=%s restart=%s cachefile=%d", cs.op, cs.size, cs.mode, strings.Join(evw, ","), ack, res(badLive), res(badRe), fsz)
	ans, err := leanJudge([]string{out.word})
	if err != nil || len(ans) != 1 {
		return fail("lean driver: %v (%d answers)", err, len(ans))
	}
	out.judge = ans[0]
	return out
}

// ---- the case lists -----------------------------------------------------------------------------

func c07osCases(tier string, seed uint64) []c07osCase {
	var l []c07osCase
	if tier == "thorough" {
		for _, op := range []string{"append", "append1", "ccreate", "cbatch", "cbatchall", "cupdated"} {
			for _, s := range c07osSizes {
				for _, m := range []string{"full", "fsize:-1", "fsize:-2", "fsize:0", "fsize:20", "fsize:27"} {
					l = append(l, c07osCase{op, s.name, m})
				}
			}
		}
		return l
	}
	// quick: every size with a full disk and with a disk that fills up at the last byte, for APPEND; the other
	// operations on both sides of 64 KiB; a few more chosen by the seed
	for _, s := range c07osSizes {
		l = append(l, c07osCase{"append", s.name, "full"})
	}
	for _, s := range []string{"tiny", "64k+1", "blk+1"} {
		l = append(l, c07osCase{"append", s, "fsize:-1"})
	}
	for _, op := range []string{"ccreate", "cbatch", "cupdated", "append1"} {
		l = append(l, c07osCase{op, "tiny", "full"})
	}
	l = append(l, c07osCase{"ccreate", "64k+1", "fsize:-1"}, c07osCase{"cbatchall", "4k", "full"})
	r := NewRng(seed ^ 0x0c07).Fork()
	for k := 0; k < 4; k++ {
		l = append(l, c07osCase{
			Pick(r, []string{"append", "append1", "ccreate", "cbatch", "cbatchall", "cupdated"}),
			c07osSizes[r.Intn(len(c07osSizes))].name,
			Pick(r, []string{"full", "fsize:-1", "fsize:-2", "fsize:0", "fsize:20", "fsize:27"}),
		})
	}
	return l
}

func runC07OS(args []string) int {
	fs := flag.NewFlagSet("c07os", flag.ExitOnError)
	seed := fs.Uint64("seed", 1, "")
	outp := fs.String("out", "", "")
	replayDir := fs.String("replaydir", ".", "")
	replay := fs.String("replay", "", "")
	tier := fs.String("tier", "quick", "")
	_ = fs.Parse(args)
	signal.Ignore(syscall.SIGXFSZ) // a write beyond RLIMIT_FSIZE returns EFBIG instead of killing the process
	if os.Getenv("VERIF_DRIVER") == "" {
		if exe, err := os.Executable(); err == nil {
			p := filepath.Join(filepath.Dir(filepath.Dir(exe)), "lean", ".lake", "build", "bin", "gluon_model_driver")
			if _, err := os.Stat(p); err == nil {
				os.Setenv("VERIF_DRIVER", p)
			}
		}
	}
	res := &OracleResult{Stats: map[string]int{}}
	var cases []c07osCase
	if *replay != "" {
		b, err := os.ReadFile(*replay)
		if err != nil {
			fmt.Fprintln(os.Stderr, err)
			return 2
		}
		for _, l := range strings.Split(string(b), "\n") {
			f := strings.Fields(l)
			if len(f) == 4 && f[0] == "case" {
				cases = append(cases, c07osCase{f[1], f[2], f[3]})
			}
			if len(f) == 2 && f[0] == "seed" {
				*seed, _ = strconv.ParseUint(f[1], 10, 64)
			}
		}
	} else {
		if _, err := os.Stat("/dev/full"); err != nil {
			res.Stats["no-dev-full"]++
		}
		cases = c07osCases(*tier, *seed)
	}
	seen := map[string]bool{}
	nontrivial := 0
	for _, cs := range cases {
		out := c07osRunCase(*seed, cs)
		res.Evaluations++
		res.Stats["op."+cs.op]++
		res.Stats["size."+cs.size]++
		res.Stats["mode."+cs.mode]++
		desc, note := "", ""
		switch {
		case out.harness != "":
			desc, note = "cause=harness oracle could not run "+cs.String()+": "+out.harness, "no verdict"
		case strings.HasPrefix(out.judge, "ok"):
			w := strings.Fields(out.judge)
			if len(w) > 1 {
				res.Stats["judge."+w[0]+":"+w[1]]++
			}
			if strings.HasPrefix(out.judge, "ok nontrivial") {
				nontrivial++
			}
			if len(res.Samples) < 3 {
				res.Samples = append(res.Samples, map[string]string{"oracle": "c07os", "case": cs.String(), "line": out.word, "judge": out.judge})
			}
			if *replay != "" && *outp == "" {
				fmt.Println(cs.String(), "=>", out.judge, "|", out.word)
			}
			continue
		default:
			cause := "violation"
			for _, w := range strings.Fields(out.judge) {
				if strings.HasPrefix(w, "cause=") {
					cause = w
				}
			}
			desc = cause + " (" + cs.String() + ")"
			note = "judge-c07os: " + out.judge + "\n# " + out.word + "\n# " + strings.Join(out.detail, "\n# ")
		}
		class := desc
		if i := strings.Index(class, " ("); i >= 0 {
			class = class[:i]
		}
		res.Stats["viol."+class]++
		if seen[class] {
			continue
		}
		seen[class] = true
		text := fmt.Sprintf("oracle c07os\nseed %d\n%s\n# property C07: %s\n# %s\n# replay: ./check C07 --replay <this file>\n", *seed, cs.String(), desc, note)
		name := filepath.Join(*replayDir, fmt.Sprintf("C07-os-%d-%d.txt", *seed, len(res.Violations)))
		_ = os.MkdirAll(*replayDir, 0o755)
		_ = os.WriteFile(name, []byte(text), 0o644)
		res.Violations = append(res.Violations, OracleViol{Desc: "C07 os-level write failure: " + desc, Replay: name})
	}
	res.DistinctNontrivial = nontrivial
	if *outp != "" {
		writeResult(*outp, res)
	} else {
		for _, v := range res.Violations {
			fmt.Println("VIOL", v.Desc, v.Replay)
		}
		fmt.Println("evaluations", res.Evaluations, "nontrivial", nontrivial, res.Stats)
	}
	return 0
}

func init() { RegisterOracle(&Oracle{Name: "c07os", Run: runC07OS}) }
