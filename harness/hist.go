package main

// Multi-session history runner: online generation (each step is chosen knowing what the sessions
// have seen so far) with every concrete step logged, so that a history replays verbatim.
//
// Step syntax (one per line in a replay file):
//   S<i> LOGIN | S<i> SELECT <mbox> | S<i> EXAMINE <mbox> | S<i> CMD <kind> <imap command...>
//   S<i> APPEND <mbox> <flags|-> <marker> | S<i> IDLE | S<i> DONE | S<i> PROBE
//   C CREATE <marker> <mboxID> <flags|-> | C ADD <marker> <mboxID> | C REMOVE <marker> <mboxID>
//   C SEEN <marker> <0|1> | C FLAGGED <marker> <0|1> | C DELETE <marker>
//   X BARRIER | X HOLD <i> | X RELEASE <i> <k> | X CONVERGE | X RACY
//   S<i> STALL <imap command...> | S<i> UNSTALL          (hist_c02.go: the command is sent and its answer is not read,
//                                                          so the session stays inside the command and takes no update)
//   C BULK <id> <mbox> <count> <flags|-> [<KiB>]         (hist_c02.go: one connector MessagesCreated batch)
//   X FAILCONN | X FAILNEXT <kind> [n] | X FAILCLEAR     (hfc_hist.go: error paths - the connector's next call of a
//                                                          kind fails, the command is answered NO)
//
// Scheduling: unless the history starts with `X RACY`, every session step first waits until all
// sessions have applied the state updates queued so far (a barrier on the states only; the connector
// is NOT flushed). Updates are then applied-but-unflushed when the command runs, which is the case
// the flush logic has to get right; what is excluded is a command overtaking an update that is
// still in flight to its own session. That interleaving is a genuine but narrow race on the real
// server (it made ~1 of 500 histories fail non-reproducibly); `X HOLD` produces it deterministically
// and is the way to test it (profile `hold`), `X RACY` (profile `race`) restores free running.

import (
	"context"
	"fmt"
	"os"
	"os/exec"
	"regexp"
	"sort"
	"strconv"
	"strings"
	"time"

	"github.com/ProtonMail/gluon/imap"
)

type goEntry struct {
	uid   int // -1 unknown
	flags []string
	known bool // flags known
}

// goMirror mirrors GluonModel/Spec/Mirror.lean (plus probe checks); used to steer generation and for
// fast detection. The verdict that counts is the Lean judge's on the same event trace.
type goMirror struct {
	msgs     []goEntry
	recentLB int
}

func canonFlagList(f []string) string { return showFlags(f) }

type HistSession struct {
	idx      int
	c        *Client
	mirror   *goMirror
	selected string // mailbox name, "" if none
	readOnly bool
	idle     bool
	idleTag  string
	stateID  int64
	held     bool
	trace    []string // event trace for the Lean judge
	n0       int
	// a command whose answer the client has not read yet (S<i> STALL, hist_c02.go)
	stalled   bool
	stallTag  string
	stallKind string
	// X HOLD since the mailbox was selected: the session's view is outside the hypothesis NoOvertake (hfc_hist.go)
	everHeld bool
}

type Violation struct {
	Prop string
	Desc string
	Step int // index (into HistRunner.steps) of the step during which it was detected
}

type HistRunner struct {
	sys        *Sys
	sess       []*HistSession
	steps      []string
	violations []Violation
	markerN    int
	markers    []string            // all markers created
	where      map[string][]string // marker -> mailbox ids (connector's view; best effort)
	dead       map[string]bool     // markers deleted through the connector (no further connector ops on them)
	cmarkers   []string            // markers created through the connector
	stats      map[string]int
	mboxes     []string // names == remote ids except INBOX ("0")
	// per history
	expungeDuring map[string]int
	followUp      []string // steps the generator has committed to emit next (multi-step patterns)
	racy          bool     // X RACY seen: session commands do not wait for in-flight updates
	// online multi-step pattern (hist_c02.go): returns the next step, "" when it is finished
	pattern     func(r *Rng) string
	patternsRun map[string]int
	// error paths (hfc_hist.go): the failing connector when the history runs against one (X FAILCONN), the command
	// kinds the generator still has to run through the error-path pattern
	hfc     *hfcFailConn
	hfcTodo []string
}

func mboxID(name string) imap.MailboxID {
	if strings.EqualFold(name, "INBOX") {
		return "0"
	}
	return imap.MailboxID(name)
}

func NewHistRunner(sys *Sys) *HistRunner {
	return &HistRunner{sys: sys, dead: map[string]bool{}, where: map[string][]string{}, stats: map[string]int{}, mboxes: []string{"INBOX", "mb1", "mb2"}, expungeDuring: map[string]int{}}
}

func (h *HistRunner) violate(prop, desc string) {
	h.violations = append(h.violations, Violation{prop, desc, len(h.steps) - 1})
}

func (h *HistRunner) setupMailboxes() error {
	for _, m := range h.mboxes[1:] {
		if err := h.sys.Conn.MailboxCreated(imap.Mailbox{ID: imap.MailboxID(m), Name: []string{m},
			Flags:          imap.NewFlagSet(imap.FlagSeen, imap.FlagFlagged, imap.FlagDeleted, imap.FlagAnswered, imap.FlagDraft),
			PermanentFlags: imap.NewFlagSet(imap.FlagSeen, imap.FlagFlagged, imap.FlagDeleted, imap.FlagAnswered, imap.FlagDraft),
			Attributes:     imap.NewFlagSet()}); err != nil {
			return err
		}
	}
	return h.sys.Barrier()
}

// ---- applying untagged responses to a session's mirror ---------------------------------------

var reExpungeIssued = regexp.MustCompile(`\[EXPUNGEISSUED\]`)

func (s *HistSession) ev(e string) { s.trace = append(s.trace, e) }

// feed processes the untagged responses of one command. kind = command kind in progress
// ("FETCH","STORE","SEARCH","NOOP",...,"PROBE","IDLE"). Returns a violation description or "".
func (h *HistRunner) feed(s *HistSession, kind string, untagged []string) {
	for _, u := range untagged {
		vlog("   S%d <%s> %s", s.idx, kind, u)
		c := canonResp(u)
		switch {
		case strings.HasPrefix(c, "E"):
			n, _ := strconv.Atoi(c[1:])
			s.ev(c)
			if n < len(s.mirror.msgs) {
				h.violate("C01", fmt.Sprintf("S%d: EXISTS %d below the announced count %d (during %s)", s.idx, n, len(s.mirror.msgs), kind))
				s.mirror.msgs = s.mirror.msgs[:n]
			}
			for len(s.mirror.msgs) < n {
				s.mirror.msgs = append(s.mirror.msgs, goEntry{uid: -1})
			}
		case strings.HasPrefix(c, "R"):
			s.ev(c)
		case strings.HasPrefix(c, "X"):
			n, _ := strconv.Atoi(c[1:])
			s.ev(c)
			if kind == "FETCH" || kind == "STORE" || kind == "SEARCH" || kind == "PROBE" {
				h.violate("C05", fmt.Sprintf("S%d: untagged EXPUNGE %d while answering %s", s.idx, n, kind))
			}
			h.expungeDuring[kind]++
			if n < 1 || n > len(s.mirror.msgs) {
				h.violate("C01", fmt.Sprintf("S%d: EXPUNGE %d beyond the announced count %d (during %s)", s.idx, n, len(s.mirror.msgs), kind))
			} else {
				s.mirror.msgs = append(s.mirror.msgs[:n-1], s.mirror.msgs[n:]...)
			}
		case strings.HasPrefix(c, "F"):
			p := strings.Split(c[1:], ":")
			seq, _ := strconv.Atoi(p[0])
			isProbe := kind == "PROBE"
			if isProbe {
				s.ev("Q" + c[1:])
			} else {
				s.ev(c)
			}
			if seq < 1 || seq > len(s.mirror.msgs) {
				h.violate("C01", fmt.Sprintf("S%d: FETCH %d beyond the announced count %d (during %s)", s.idx, seq, len(s.mirror.msgs), kind))
				continue
			}
			e := &s.mirror.msgs[seq-1]
			if p[2] != "~" {
				uid, _ := strconv.Atoi(p[2])
				if e.uid >= 0 && e.uid != uid {
					h.violate("C01", fmt.Sprintf("S%d: sequence number %d was UID %d, now reported as UID %d with no EXPUNGE in between (during %s)", s.idx, seq, e.uid, uid, kind))
				}
				e.uid = uid
			}
			if p[1] != "~" {
				if isProbe && e.known && canonFlagList(e.flags) != p[1] {
					h.violate("C01", fmt.Sprintf("S%d: message %d (UID %d) answered with flags %s but the client was last told %s (during %s)", s.idx, seq, e.uid, p[1], canonFlagList(e.flags), kind))
				}
				e.flags = parseFlags(p[1])
				e.known = true
			}
		}
	}
}

// ---- executing steps ---------------------------------------------------------------------

// quiesceStates: every session has applied every state update queued so far. Unlike Sys.Barrier the
// connector is not flushed, so the timing of connector events stays under the history's control.
func (h *HistRunner) quiesceStates() error {
	ctx, c := context.WithTimeout(context.Background(), 20*time.Second)
	defer c()
	return h.sys.Server.VerifBarrier(ctx, h.sys.UserID)
}

func (h *HistRunner) session(i int) *HistSession {
	for len(h.sess) <= i {
		h.sess = append(h.sess, nil)
	}
	return h.sess[i]
}

var reSelExists = regexp.MustCompile(`^\* (\d+) EXISTS$`)

func cmdKind(line string) string {
	f := strings.Fields(strings.ToUpper(line))
	if len(f) == 0 {
		return ""
	}
	if f[0] == "UID" && len(f) > 1 {
		return f[1]
	}
	return f[0]
}

func (h *HistRunner) drainIdle(s *HistSession, wait time.Duration) {
	// read whatever the IDLE sender has written so far
	for {
		_ = s.c.conn.SetReadDeadline(time.Now().Add(wait))
		if _, err := s.c.r.Peek(1); err != nil {
			return
		}
		old := s.c.Timeout
		s.c.Timeout = 2 * time.Second
		b, err := s.c.readLogical()
		s.c.Timeout = old
		if err != nil {
			return
		}
		h.feed(s, "IDLE", []string{string(b)})
	}
}

var histVerbose = os.Getenv("VERIF_VERBOSE") != ""

func vlog(format string, a ...any) {
	if histVerbose {
		fmt.Fprintf(os.Stderr, format+"\n", a...)
	}
}

func (h *HistRunner) Exec(step string) error {
	err := h.exec1(step)
	for _, p := range h.sys.Panics.Take() {
		h.violate("PANIC", fmt.Sprintf("server goroutine panicked (fatal for the whole process with the default panic handler) at step %q: %s", step, p))
	}
	return err
}

func (h *HistRunner) exec1(step string) error {
	h.steps = append(h.steps, step)
	vlog("STEP %s", step)
	f := strings.Fields(step)
	if len(f) < 2 {
		return fmt.Errorf("bad step %q", step)
	}
	switch {
	case f[0] == "X":
		switch f[1] {
		case "BARRIER":
			if h.c02AnyStalled() {
				// a session that is kept inside a command takes no update (and no barrier) until its client reads on
				h.sys.Conn.Flush()
				return nil
			}
			if err := h.sys.Barrier(); err != nil {
				return err
			}
			for _, s := range h.sess {
				if s != nil && s.idle {
					h.drainIdle(s, 15*time.Millisecond)
				}
			}
		case "HOLD":
			i := atoi(f[2])
			if s := h.session(i); s != nil && s.stateID != 0 {
				h.sys.Server.VerifHold(s.stateID)
				s.held = true
				s.everHeld = true
			}
		case "RELEASE":
			i, k := atoi(f[2]), atoi(f[3])
			if s := h.session(i); s != nil && s.held {
				h.sys.Server.VerifRelease(s.stateID, k, k < 0)
				if k < 0 {
					s.held = false
				}
			}
		case "CONVERGE":
			return h.converge()
		case "RACY":
			h.racy = true
		case "IDLEBULK":
			// server option, read by runHistory before the server is started; a no-op as a step
		default:
			if handled, err := h.hfcExecX(f); handled {
				return err
			}
		}
		return nil
	case f[0] == "C":
		return h.execConn(f)
	case strings.HasPrefix(f[0], "S"):
		i := atoi(f[0][1:])
		return h.execSession(i, f[1], f[2:], step)
	}
	return fmt.Errorf("bad step %q", step)
}

func (h *HistRunner) execConn(f []string) (err error) {
	conn := h.sys.Conn
	// the dummy connector is a test fixture: it dereferences unknown message ids; such a step is a no-op
	defer func() {
		if p := recover(); p != nil {
			h.stats["connector.fixture-panic"]++
			err = nil
		}
	}()
	switch f[1] {
	case "BULK":
		return h.c02ExecBulk(f)
	case "CREATE":
		marker, mb := f[2], f[3]
		flags := imap.NewFlagSet()
		if f[4] != "-" {
			flags = imap.NewFlagSet(strings.Split(f[4], ",")...)
		}
		err := conn.MessageCreated(imap.Message{ID: imap.MessageID(marker), Flags: flags, Date: time.Unix(1136214245, 0).UTC()},
			SimpleMessage(marker, "body of "+marker), []imap.MailboxID{mboxID(mb)})
		h.where[marker] = []string{mb}
		h.cmarkers = append(h.cmarkers, marker)
		conn.Flush()
		return err
	case "ADD":
		err := conn.MessageAdded(imap.MessageID(f[2]), mboxID(f[3]))
		conn.Flush()
		return ignoreConnErr(err)
	case "REMOVE":
		err := conn.MessageRemoved(imap.MessageID(f[2]), mboxID(f[3]))
		conn.Flush()
		return ignoreConnErr(err)
	case "SEEN":
		err := conn.MessageSeen(imap.MessageID(f[2]), f[3] == "1")
		conn.Flush()
		return ignoreConnErr(err)
	case "FLAGGED":
		err := conn.MessageFlagged(imap.MessageID(f[2]), f[3] == "1")
		conn.Flush()
		return ignoreConnErr(err)
	case "DELETE":
		h.dead[f[2]] = true
		err := conn.MessageDeleted(imap.MessageID(f[2]))
		conn.Flush()
		return ignoreConnErr(err)
	}
	return fmt.Errorf("bad connector step %v", f)
}

// the dummy connector refuses operations on messages it does not know; that is not a finding
func ignoreConnErr(err error) error { return nil }

func (h *HistRunner) execSession(i int, op string, args []string, step string) error {
	s := h.session(i)
	if op == "LOGIN" {
		c, err := h.sys.Dial(fmt.Sprintf("s%dx", i))
		if err != nil {
			return err
		}
		before := map[int64]bool{}
		for _, st := range h.sys.Server.VerifStates(h.sys.UserID) {
			before[int64(st.ID)] = true
		}
		rep := c.Login("user")
		if rep.Status != "OK" {
			return fmt.Errorf("login failed: %v", rep)
		}
		ns := &HistSession{idx: i, c: c, mirror: &goMirror{}}
		for _, st := range h.sys.Server.VerifStates(h.sys.UserID) {
			if !before[int64(st.ID)] {
				ns.stateID = int64(st.ID)
			}
		}
		h.sess[i] = ns
		return nil
	}
	if s == nil {
		return nil
	}
	if op == "STALL" || op == "UNSTALL" || s.stalled {
		if done, err := h.c02ExecStall(s, op, args); done || err != nil {
			return err
		}
	}
	if !h.racy && !h.c02AnyStalled() {
		if err := h.quiesceStates(); err != nil {
			return err
		}
	}
	switch op {
	case "SELECT", "EXAMINE":
		if s.idle {
			return nil
		}
		rep := s.c.Cmd(op + " " + args[0])
		if rep.Err != nil {
			return rep.Err
		}
		if rep.Status != "OK" {
			s.selected = ""
			s.mirror = &goMirror{}
			s.trace = append(s.trace, "RESET0")
			return nil
		}
		n := 0
		for _, u := range rep.Untagged {
			if m := reSelExists.FindStringSubmatch(u); m != nil {
				n, _ = strconv.Atoi(m[1])
			}
		}
		s.selected = args[0]
		s.readOnly = op == "EXAMINE"
		s.everHeld = s.held
		s.mirror = &goMirror{}
		for k := 0; k < n; k++ {
			s.mirror.msgs = append(s.mirror.msgs, goEntry{uid: -1})
		}
		s.trace = append(s.trace, fmt.Sprintf("RESET%d", n))
		return nil
	case "APPEND":
		if s.idle {
			return nil
		}
		flags := ""
		if args[1] != "-" {
			flags = strings.ReplaceAll(args[1], ",", " ")
		}
		rep := s.c.Append(args[0], flags, SimpleMessage(args[2], "appended "+args[2]))
		if rep.Err != nil {
			return rep.Err
		}
		h.hfcAfterCommand("APPEND", rep)
		h.feed(s, "APPEND", rep.Untagged)
		return nil
	case "CMD":
		if s.idle {
			return nil
		}
		kind := args[0]
		line := strings.Join(args[1:], " ")
		nBefore := len(s.mirror.msgs)
		rep := s.c.Cmd(line)
		if rep.Err != nil {
			return fmt.Errorf("S%d %s: %w", i, line, rep.Err)
		}
		defer vlog("   S%d => %s", s.idx, rep.Tagged)
		h.hfcAfterCommand(kind, rep)
		if kind == "CLOSE" || kind == "UNSELECT" {
			if rep.Status == "OK" {
				s.selected = ""
				s.mirror = &goMirror{}
				s.trace = append(s.trace, "RESET0")
				return nil
			}
			// answered NO / BAD: the mailbox stays selected, and what the server sent before the tagged answer (the flush
			// after a failed command) is what the client was told
			h.stats["close.refused"]++
			h.feed(s, kind, rep.Untagged)
			return nil
		}
		h.feed(s, kind, rep.Untagged)
		if kind == "STORE" && strings.Contains(strings.ToUpper(line), ".SILENT") {
			h.forgetSilent(s, line, nBefore)
		}
		if (kind == "FETCH" || kind == "STORE" || kind == "SEARCH") && reExpungeIssued.MatchString(rep.Tagged) {
			h.stats["expungeissued"]++
		}
		return nil
	case "ISSUED":
		// C05: after a barrier, a FETCH/STORE/SEARCH that holds back removals must say [EXPUNGEISSUED], and
		// only then: run the command, then NOOP at once; NOOP announces a removal iff the command said so.
		if s.idle || s.selected == "" || s.held || h.c02AnyStalled() {
			return nil
		}
		if err := h.sys.Barrier(); err != nil {
			return err
		}
		kind := args[0]
		line := strings.Join(args[1:], " ")
		nBefore := len(s.mirror.msgs)
		rep := s.c.Cmd(line)
		if rep.Err != nil {
			return rep.Err
		}
		h.feed(s, kind, rep.Untagged)
		if kind == "STORE" && strings.Contains(strings.ToUpper(line), ".SILENT") {
			h.forgetSilent(s, line, nBefore)
		}
		said := reExpungeIssued.MatchString(rep.Tagged)
		before := h.expungeDuring["NOOP"]
		rep2 := s.c.Cmd("NOOP")
		if rep2.Err != nil {
			return rep2.Err
		}
		h.feed(s, "NOOP", rep2.Untagged)
		announced := h.expungeDuring["NOOP"] - before
		h.stats["issued.checked"]++
		if said {
			h.stats["issued.said"]++
		}
		if rep.Status == "OK" && said != (announced > 0) {
			h.violate("C05", fmt.Sprintf("S%d: %s answered %q and the NOOP right after announced %d removals ([EXPUNGEISSUED] must be present iff removals were held back)", s.idx, kind, rep.Tagged, announced))
		}
		return nil
	case "PROBE":
		if s.idle || s.selected == "" {
			return nil
		}
		rep := s.c.Cmd("FETCH 1:* (UID FLAGS)")
		if rep.Err != nil {
			return fmt.Errorf("S%d probe: %w", i, rep.Err)
		}
		// results of the probe itself come first (one per message), later responses are announcements
		h.feedProbe(s, rep)
		return nil
	case "IDLE":
		if s.idle || s.selected == "" {
			return nil
		}
		s.c.tagN++
		s.idleTag = fmt.Sprintf("%s%d", s.c.Name, s.c.tagN)
		if _, err := s.c.conn.Write([]byte(s.idleTag + " IDLE\r\n")); err != nil {
			return err
		}
		// responses up to and after the continuation
		for {
			b, err := s.c.readLogical()
			if err != nil {
				return err
			}
			if strings.HasPrefix(string(b), "+") {
				break
			}
			if strings.HasPrefix(string(b), s.idleTag+" ") {
				return nil // IDLE refused
			}
			h.feed(s, "IDLE", []string{string(b)})
		}
		s.idle = true
		h.drainIdle(s, 15*time.Millisecond)
		return nil
	case "DONE":
		if !s.idle {
			return nil
		}
		h.drainIdle(s, 15*time.Millisecond)
		if _, err := s.c.conn.Write([]byte("DONE\r\n")); err != nil {
			return err
		}
		rep := s.c.readReply(s.idleTag)
		if rep.Err != nil {
			return rep.Err
		}
		h.feed(s, "IDLE", rep.Untagged)
		s.idle = false
		h.drainIdle(s, 15*time.Millisecond)
		return nil
	}
	return fmt.Errorf("bad session step %q", step)
}

// forgetSilent: after its own `STORE <set> ….SILENT` the client no longer trusts the flags it had cached for the
// messages the set named when the command was sent (the server sends nothing for the store itself; other
// messages' flags stay known, so an unannounced change of those is still caught). UID STORE: all are forgotten.
func (h *HistRunner) forgetSilent(s *HistSession, line string, nBefore int) {
	f := strings.Fields(line)
	var seqs []int
	all := false
	if len(f) < 2 || !strings.EqualFold(f[0], "STORE") {
		all = true
	} else {
		for _, item := range strings.Split(f[1], ",") {
			lohi := strings.SplitN(item, ":", 2)
			num := func(x string) int {
				if x == "*" {
					return nBefore
				}
				n, err := strconv.Atoi(x)
				if err != nil {
					all = true
				}
				return n
			}
			lo := num(lohi[0])
			hi := lo
			if len(lohi) == 2 {
				hi = num(lohi[1])
			}
			if lo > hi {
				lo, hi = hi, lo
			}
			for k := lo; k <= hi && k <= nBefore+1; k++ {
				seqs = append(seqs, k)
			}
		}
	}
	if all {
		for k := range s.mirror.msgs {
			s.mirror.msgs[k].known = false
		}
		s.ev("Z")
		return
	}
	var parts []string
	for _, k := range seqs {
		if k >= 1 && k <= len(s.mirror.msgs) {
			s.mirror.msgs[k-1].known = false
		}
		parts = append(parts, strconv.Itoa(k))
	}
	s.ev("Z" + strings.Join(parts, ","))
}

// feedProbe: a FETCH 1:* (UID FLAGS) answer. The command's own results are the first FETCH responses
// with consecutive sequence numbers 1..n; anything after them comes from the trailing flush.
func (h *HistRunner) feedProbe(s *HistSession, rep Reply) {
	// FETCH results are produced in parallel and may arrive in any order: a result of the probe is a
	// FETCH carrying both UID and FLAGS (announcements from the trailing flush carry FLAGS only).
	type res struct {
		seq int
		u   string
	}
	var results []res
	var rest []string
	for _, u := range rep.Untagged {
		c := canonResp(u)
		if strings.HasPrefix(c, "F") {
			p := strings.Split(c[1:], ":")
			if p[1] != "~" && p[2] != "~" {
				seq, _ := strconv.Atoi(p[0])
				results = append(results, res{seq, u})
				continue
			}
		}
		rest = append(rest, u)
	}
	sort.SliceStable(results, func(i, j int) bool { return results[i].seq < results[j].seq })
	shown := map[int]bool{}
	for _, r := range results {
		if p := strings.Split(canonResp(r.u)[1:], ":"); len(p) == 3 && p[2] != "~" {
			shown[atoi(p[2])] = true
		}
	}
	h.hfcRemovalAnnounced(s, shown)
	for k, r := range results {
		if r.seq != k+1 {
			h.violate("C01", fmt.Sprintf("S%d: FETCH 1:* results do not cover sequence numbers 1..%d exactly once (got %d at position %d)", s.idx, len(results), r.seq, k+1))
			break
		}
	}
	for _, r := range results {
		h.feed(s, "PROBE", []string{r.u})
	}
	s.ev(fmt.Sprintf("P%d", len(results)))
	if len(results) != len(s.mirror.msgs) {
		h.violate("C01", fmt.Sprintf("S%d: FETCH 1:* answered %d messages but %d were announced", s.idx, len(results), len(s.mirror.msgs)))
	}
	for _, u := range rest {
		h.feed(s, "FETCH", []string{u})
	}
}

// converge: C02. Barrier, NOOP in every session, then the long-lived view must equal a fresh EXAMINE.
func (h *HistRunner) converge() error {
	if err := h.c02UnstallAll(); err != nil {
		return err
	}
	for _, s := range h.sess {
		if s != nil && s.held {
			h.sys.Server.VerifRelease(s.stateID, -1, true)
			s.held = false
		}
	}
	if err := h.sys.Barrier(); err != nil {
		return err
	}
	for _, s := range h.sess {
		if s == nil || s.selected == "" {
			continue
		}
		if s.idle {
			if err := h.execSession(s.idx, "DONE", nil, ""); err != nil {
				return err
			}
		}
		rep := s.c.Cmd("NOOP")
		if rep.Err != nil {
			return rep.Err
		}
		h.feed(s, "NOOP", rep.Untagged)
		msgs, rep2 := s.c.FetchAll()
		if rep2.Err != nil {
			return rep2.Err
		}
		h.feedProbe(s, rep2)
		nStates := len(h.sys.Server.VerifStates(h.sys.UserID))
		fresh, err := h.sys.Dial("fresh")
		if err != nil {
			return err
		}
		fresh.Login("user")
		r := fresh.Cmd("EXAMINE " + s.selected)
		var want []FetchedMsg
		if r.Status == "OK" {
			want, _ = fresh.FetchAll()
		}
		fresh.Cmd("LOGOUT")
		fresh.Close()
		// the server removes the state of a finished session asynchronously; a state barrier taken meanwhile
		// would wait for a session that no longer reads its queue
		for k := 0; k < 400 && len(h.sys.Server.VerifStates(h.sys.UserID)) > nStates; k++ {
			time.Sleep(5 * time.Millisecond)
		}
		if r.Status != "OK" {
			continue // mailbox gone
		}
		a, b := viewString(msgs), viewString(want)
		h.stats["converge"]++
		if len(msgs) > 0 {
			h.stats["converge.nonempty"]++
		}
		if a != b {
			h.violate("C02", fmt.Sprintf("S%d (%s): after quiescence + NOOP the session's view is [%s] but a fresh session sees [%s]", s.idx, s.selected, a, b))
		}
	}
	return nil
}

// viewString: UID:flags list without \Recent.
func viewString(ms []FetchedMsg) string {
	var parts []string
	for _, m := range ms {
		var fl []string
		for _, f := range m.Flags {
			if !strings.EqualFold(f, `\Recent`) {
				fl = append(fl, f)
			}
		}
		parts = append(parts, fmt.Sprintf("%d:%s", m.UID, showFlags(fl)))
	}
	return strings.Join(parts, " ")
}

func (h *HistRunner) CloseSessions() {
	for _, s := range h.sess {
		if s != nil {
			s.c.Close()
		}
	}
}

// ---- online generator --------------------------------------------------------------------

var storeFlagPool = []string{`\Seen`, `\Flagged`, `\Deleted`, `\Answered`, `\Draft`}

func (h *HistRunner) genSeqSet(r *Rng, n int) string {
	if n == 0 {
		return "1"
	}
	switch r.Intn(5) {
	case 0:
		return "1:*"
	case 1:
		a, b := r.Range(1, n), r.Range(1, n)
		return fmt.Sprintf("%d:%d", a, b)
	case 2:
		return fmt.Sprintf("%d,%d", r.Range(1, n), r.Range(1, n))
	default:
		return strconv.Itoa(r.Range(1, n))
	}
}

func (h *HistRunner) newMarker() string {
	h.markerN++
	m := fmt.Sprintf("m%d", h.markerN)
	h.markers = append(h.markers, m)
	return m
}

// GenStep picks the next step given the current state.
func (h *HistRunner) GenStep(r *Rng, nsess int, profile string) string {
	if len(h.followUp) > 0 {
		st := h.followUp[0]
		h.followUp = h.followUp[1:]
		return st
	}
	if st := h.c02PatternStep(r, nsess, profile); st != "" {
		return st
	}
	if st := h.hfcPatternStep(r, nsess, profile); st != "" {
		return st
	}
	if strings.Contains(profile, "race") && !h.racy && len(h.steps) == 0 {
		return "X RACY"
	}
	// make sure sessions exist and have a mailbox selected most of the time
	for i := 0; i < nsess; i++ {
		if h.session(i) == nil {
			return fmt.Sprintf("S%d LOGIN", i)
		}
	}
	i := r.Intn(nsess)
	s := h.sess[i]
	if s.selected == "" && !s.idle && r.Chance(4, 5) {
		mb := "INBOX"
		if r.Chance(1, 4) {
			mb = Pick(r, h.mboxes)
		}
		if r.Chance(1, 8) {
			return fmt.Sprintf("S%d EXAMINE %s", i, mb)
		}
		return fmt.Sprintf("S%d SELECT %s", i, mb)
	}
	c := r.Intn(100)
	switch {
	case c < 8:
		return "X BARRIER"
	case c < 12:
		if !strings.Contains(profile, "hold") {
			return "X BARRIER"
		}
		if s.held {
			return fmt.Sprintf("X RELEASE %d %d", i, Pick(r, []int{1, 2, -1}))
		}
		return fmt.Sprintf("X HOLD %d", i)
	case c < 30: // connector activity
		mb := "INBOX"
		if r.Chance(1, 4) {
			mb = Pick(r, h.mboxes)
		}
		var live []string
		for _, m := range h.cmarkers {
			if !h.dead[m] {
				live = append(live, m)
			}
		}
		switch k := r.Intn(10); {
		case k < 3 || len(live) == 0:
			fl := "-"
			if r.Chance(1, 3) {
				fl = Pick(r, []string{`\Seen`, `\Flagged`, `\Seen,\Flagged`})
			}
			return fmt.Sprintf("C CREATE %s %s %s", h.newMarker(), mb, fl)
		case k < 5:
			return fmt.Sprintf("C REMOVE %s %s", Pick(r, live), mb)
		case k < 7:
			return fmt.Sprintf("C ADD %s %s", Pick(r, live), mb)
		case k < 9:
			step := fmt.Sprintf("C SEEN %s %d", Pick(r, live), r.Intn(2))
			if k == 8 {
				step = fmt.Sprintf("C FLAGGED %s %d", Pick(r, live), r.Intn(2))
			}
			if s.selected != "" && !s.idle && len(s.mirror.msgs) >= 2 && r.Chance(1, 2) {
				// pattern: the observer knows all flags, a foreign flag change is delivered, and the observer's next
				// flushing command is its own .SILENT store on some message: the foreign change must still be announced
				h.followUp = append(h.followUp, step, "X BARRIER",
					fmt.Sprintf("S%d CMD STORE STORE %d +FLAGS.SILENT (\\Draft)", i, r.Range(1, len(s.mirror.msgs))),
					fmt.Sprintf("S%d PROBE", i))
				return fmt.Sprintf("S%d PROBE", i)
			}
			return step
		default:
			return fmt.Sprintf("C DELETE %s", Pick(r, live))
		}
	}
	if s.idle {
		if r.Chance(1, 3) {
			return fmt.Sprintf("S%d DONE", i)
		}
		return "X BARRIER"
	}
	if s.selected == "" {
		return fmt.Sprintf("S%d CMD NOOP NOOP", i)
	}
	n := len(s.mirror.msgs)
	set := h.genSeqSet(r, n)
	other := Pick(r, h.mboxes)
	if !strings.Contains(profile, "samebox") {
		// COPY/MOVE onto the selected mailbox itself only in the adversarial profile
		for other == s.selected {
			other = Pick(r, h.mboxes)
		}
	}
	switch {
	case c < 38:
		return fmt.Sprintf("S%d PROBE", i)
	case c < 46:
		fl := "-"
		if r.Chance(1, 3) {
			fl = Pick(r, storeFlagPool)
		}
		mb := s.selected
		if r.Chance(1, 3) {
			mb = other
		}
		return fmt.Sprintf("S%d APPEND %s %s %s", i, mb, fl, h.newMarker())
	case c < 58:
		if n == 0 {
			return fmt.Sprintf("S%d CMD NOOP NOOP", i)
		}
		op := Pick(r, []string{"+FLAGS", "-FLAGS", "FLAGS", "+FLAGS.SILENT", "-FLAGS.SILENT", "FLAGS.SILENT"})
		fl := Pick(r, storeFlagPool)
		if r.Chance(1, 3) {
			fl += " " + Pick(r, storeFlagPool)
		}
		if j := r.Intn(nsess); j != i && r.Chance(1, 4) && h.sess[j] != nil && h.sess[j].selected == s.selected && !h.sess[j].idle && !h.sess[j].readOnly && len(h.sess[j].mirror.msgs) > 0 {
			// pattern: both views are brought up to date, another session changes a message (often its \Deleted state), the
			// change is delivered to this session but not yet flushed into its view, and this session's next command is a
			// STORE on the same message decided from the stale view: what is written to the index must not depend on it
			k := r.Range(1, min(n, len(h.sess[j].mirror.msgs)))
			fop := Pick(r, []string{"+FLAGS", "-FLAGS", "+FLAGS.SILENT", "-FLAGS.SILENT"})
			ffl := Pick(r, []string{`\Deleted`, `\Deleted`, `\Seen`, `\Flagged \Deleted`})
			h.followUp = append(h.followUp,
				fmt.Sprintf("S%d CMD NOOP NOOP", i), fmt.Sprintf("S%d CMD NOOP NOOP", j),
				fmt.Sprintf("S%d CMD STORE STORE %d %s (%s)", j, k, fop, ffl), "X BARRIER",
				fmt.Sprintf("S%d CMD STORE STORE %d %s (%s)", i, k, op, fl),
				"X BARRIER", fmt.Sprintf("S%d PROBE", i), fmt.Sprintf("S%d PROBE", j))
			return "X BARRIER"
		}
		if op == "FLAGS" && n >= 2 && r.Chance(1, 2) {
			// pattern: replace the flags of several messages at once, then read one body (\Seen side effect) and probe:
			// catches flag sets shared by reference between messages or sessions
			h.followUp = append(h.followUp,
				fmt.Sprintf("S%d CMD FETCH FETCH %d (BODY[])", i, r.Range(1, n)),
				fmt.Sprintf("S%d PROBE", i), fmt.Sprintf("S%d PROBE", r.Intn(nsess)))
			return fmt.Sprintf("S%d CMD STORE STORE 1:* FLAGS (%s)", i, Pick(r, []string{`\Flagged`, `\Answered`, `\Draft`}))
		}
		return fmt.Sprintf("S%d CMD STORE STORE %s %s (%s)", i, set, op, fl)
	case c < 64:
		return fmt.Sprintf("S%d CMD EXPUNGE EXPUNGE", i)
	case c < 70:
		if n == 0 {
			return fmt.Sprintf("S%d CMD NOOP NOOP", i)
		}
		return fmt.Sprintf("S%d CMD COPY COPY %s %s", i, set, other)
	case c < 76:
		if n == 0 {
			return fmt.Sprintf("S%d CMD NOOP NOOP", i)
		}
		return fmt.Sprintf("S%d CMD MOVE MOVE %s %s", i, set, other)
	case c < 84:
		if n == 0 {
			return fmt.Sprintf("S%d CMD NOOP NOOP", i)
		}
		item := Pick(r, []string{"(FLAGS)", "(UID FLAGS)", "(BODY[])", "(BODY.PEEK[])", "(RFC822.SIZE)", "(UID BODY[TEXT])"})
		if r.Chance(1, 6) {
			// pattern: a non-PEEK body fetch that FAILS (the messages have one part): whatever the failed command did to the
			// view (\Seen) was never announced, so the probe must still agree with what the client knows
			h.followUp = append(h.followUp, fmt.Sprintf("S%d PROBE", i))
			return fmt.Sprintf("S%d CMD FETCH FETCH %s %s", i, set, Pick(r, []string{"(BODY[2])", "(BODY[1.2])", "(FLAGS BODY[3.TEXT])", "(BODY[2]<0.10>)"}))
		}
		if r.Chance(1, 3) {
			return fmt.Sprintf("S%d ISSUED FETCH FETCH %s %s", i, set, item)
		}
		return fmt.Sprintf("S%d CMD FETCH FETCH %s %s", i, set, item)
	case c < 88:
		if r.Chance(1, 3) {
			return fmt.Sprintf("S%d ISSUED SEARCH SEARCH %s", i, Pick(r, []string{"ALL", "SEEN", "UNSEEN", "DELETED", "FLAGGED"}))
		}
		return fmt.Sprintf("S%d CMD SEARCH SEARCH %s", i, Pick(r, []string{"ALL", "SEEN", "UNSEEN", "DELETED", "1:*", "FLAGGED"}))
	case c < 92:
		return fmt.Sprintf("S%d CMD NOOP NOOP", i)
	case c < 94:
		return fmt.Sprintf("S%d CMD CHECK CHECK", i)
	case c < 96:
		if strings.Contains(profile, "noclose") {
			return fmt.Sprintf("S%d CMD NOOP NOOP", i)
		}
		return fmt.Sprintf("S%d CMD CLOSE CLOSE", i)
	case c < 98:
		if r.Chance(1, 2) {
			// pattern: a change arrives while the session idles and DONE follows at once (well inside the bulk period when
			// the server buffers IDLE pushes): whatever was buffered must be announced before the view is used again
			var change string
			switch r.Intn(3) {
			case 0:
				change = fmt.Sprintf("C CREATE %s %s -", h.newMarker(), s.selected)
			case 1:
				change = fmt.Sprintf("S%d APPEND %s - %s", (i+1)%nsess, s.selected, h.newMarker())
			}
			if j := (i + 1) % nsess; n > 0 && j != i && h.sess[j] != nil && h.sess[j].selected == s.selected && !h.sess[j].idle && !h.sess[j].readOnly && len(h.sess[j].mirror.msgs) > 0 {
				k := r.Range(1, min(n, len(h.sess[j].mirror.msgs)))
				change = fmt.Sprintf("S%d CMD STORE STORE %d %s (%s)", j, k, Pick(r, []string{"+FLAGS", "-FLAGS"}), Pick(r, []string{`\Deleted`, `\Flagged`, `\Seen`}))
				if r.Chance(1, 3) {
					h.followUp = append(h.followUp, change, fmt.Sprintf("S%d CMD EXPUNGE EXPUNGE", j))
					change = ""
				}
			}
			if change != "" {
				h.followUp = append(h.followUp, change)
			}
			h.followUp = append(h.followUp, "X BARRIER", fmt.Sprintf("S%d DONE", i), fmt.Sprintf("S%d PROBE", i))
		}
		return fmt.Sprintf("S%d IDLE", i)
	default:
		return fmt.Sprintf("S%d SELECT %s", i, Pick(r, h.mboxes))
	}
}

// ---- Lean judge on the traces ------------------------------------------------------------

// leanJudge pipes judge lines to the model driver ($VERIF_DRIVER) and returns its answers.
func leanJudge(lines []string) ([]string, error) {
	drv := os.Getenv("VERIF_DRIVER")
	if drv == "" {
		return nil, fmt.Errorf("VERIF_DRIVER not set")
	}
	cmd := exec.Command(drv)
	cmd.Stdin = strings.NewReader(strings.Join(lines, "\n") + "\n")
	out, err := cmd.Output()
	if err != nil {
		return nil, err
	}
	return strings.Split(strings.TrimRight(string(out), "\n"), "\n"), nil
}

func (h *HistRunner) traceLines() []string {
	var lines []string
	for _, s := range h.sess {
		if s != nil && len(s.trace) > 0 {
			lines = append(lines, fmt.Sprintf("judge-c01-trace S%d %s", s.idx, strings.Join(s.trace, ";")))
		}
	}
	return lines
}

func sortedKeys(m map[string]int) []string {
	var k []string
	for x := range m {
		k = append(k, x)
	}
	sort.Strings(k)
	return k
}
