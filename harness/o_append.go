package main

// Oracle `c20append` (property C20: a message handed to APPEND is never silently lost).
//
// A whole server over TCP with a connector and a message store that fail on a script
// (conn_fail.go); one client runs a sequence of steps; after every step the complete observable
// state (every mailbox: UID -> message bytes, and what LIST shows) is read back.  Three things are
// checked on it:
//
//  1. directly in Go, on the bytes: an APPEND answered OK put exactly the bytes handed over (modulo
//     the X-Pm-Gluon-Id header line gluon inserts) under the announced UID; every message found
//     anywhere is byte-for-byte one of the messages handed over;
//  2. the Lean property judge `judge-c20-append` (Driver/DAppend.lean) on the abstracted
//     observations: OK => present; rejected (not size) => in "Recovered Messages", once per
//     distinct message; recovery mailbox listed iff non-empty; protected; move/copy out;
//  3. the Lean model `c20-append` (Model/Append.lean, the model the theorems of Theorems/C20.lean
//     are about) predicts the same results and states (the tie of the model to the real code).
//
// Step language (names: '+' stands for a space, %XX for a separator byte; an optional tag `@l@` /
// `@u@` in front of a name makes it travel as an IMAP literal / with its first character as a
// modified-UTF-7 escape - see c20SplitTag):
//
//	CREATE <name> | DELETE <name> | RENAME <old> <new>
//	SELECT <name> | EXAMINE <name> | STATUS <name> | SUBSCRIBE <name> | UNSUBSCRIBE <name>
//	APPEND <mbox> <hv> <uv> <gid>     hv: hashed part (Subject, To, MIME shape = hv/100 - c20Shapes -,
//	                                  body; 0 = a message without From/Date, refused BAD), uv:
//	                                  unhashed part (Date, Message-Id); gid: - | bad | <mbox>:<uid>
//	                                  (carry the X-Pm-Gluon-Id header of that stored message)
//	COPY <src> <uid,..> <dst> | MOVE <src> <uid,..> <dst> | EXPUNGE <mbox> <uid,..>
//	LIST | RESTART
//
// Sequences: random walks (genStep) and the directed themes of o_append_directed.go (message shapes x
// remote decision x destination; name spellings).
//
// Replay file: line 1 `oracle c20append`, then `script <create>,<add>,<remove>,<move>,<store>`,
// `limit <n>|-`, then steps.

import (
	"encoding/base64"
	"encoding/json"
	"flag"
	"fmt"
	"math"
	"os"
	"path/filepath"
	"regexp"
	"sort"
	"strconv"
	"strings"

	"github.com/ProtonMail/gluon/connector"
	"github.com/ProtonMail/gluon/imap"
	"github.com/ProtonMail/gluon/limits"
	"github.com/ProtonMail/gluon/store"
)

const c20Recovery = "Recovered Messages"

type c20Runner struct {
	sys    *Sys
	dummy  *connector.Dummy
	conn   *c20FailConn
	cur    *c20ScriptCursor
	sb     *c20FailStoreBuilder
	limit  int // 0 = default limits
	cl     *Client
	script c20FailScript

	results []string // canonical result per step
	states  []string // canonical state after each step
	viol    []string // direct (Go) findings
	stats   map[string]int
	aborted error
	lastObs map[string]map[int][]byte
	steps   []string
	// the outcomes each step consumed from the failure script, per kind (for shrinking: a dropped
	// step takes its outcomes with it)
	stepCalls [][5]string
}

// Name words.  `+` stands for a space, `%XX` for a byte that would collide with the separators of
// the step / state syntax (`/` inside the *state* line, `= , : | ~ %`); an optional leading tag
// `@l@` / `@u@` says how the name travels on the wire (IMAP literal / with its first character
// written as a modified-UTF-7 escape): the tag is not part of the name (c20Name drops it).
func c20SplitTag(w string) (byte, string) {
	if len(w) >= 3 && w[0] == '@' && w[2] == '@' {
		return w[1], w[3:]
	}
	return 'q', w
}

func c20Name(w string) string {
	_, w = c20SplitTag(w)
	w = strings.ReplaceAll(w, "+", " ")
	if !strings.Contains(w, "%") {
		return w
	}
	var b strings.Builder
	for i := 0; i < len(w); i++ {
		if w[i] == '%' && i+2 < len(w) {
			if v, err := strconv.ParseUint(w[i+1:i+3], 16, 8); err == nil {
				b.WriteByte(byte(v))
				i += 2
				continue
			}
		}
		b.WriteByte(w[i])
	}
	return b.String()
}

func c20Unname(n string) string {
	var b strings.Builder
	for i := 0; i < len(n); i++ {
		c := n[i]
		switch {
		case c == ' ':
			b.WriteByte('+')
		case c == '/' || c == '=' || c == ',' || c == ':' || c == '|' || c == '~' || c == '%' || c == '+' || c == '@' || c < 0x21 || c > 0x7e:
			fmt.Fprintf(&b, "%%%02X", c)
		default:
			b.WriteByte(c)
		}
	}
	return b.String()
}

// c20WireName: the mailbox argument as sent (quoted string, or the modified-UTF-7 spelling quoted).
func c20WireName(w string) string {
	tag, _ := c20SplitTag(w)
	n := c20Name(w)
	if tag == 'u' && len(n) > 0 && n[0] < 0x80 {
		// modified UTF-7: UTF-16BE of the first character, modified base64, between & and -
		e := base64.StdEncoding.WithPadding(base64.NoPadding).EncodeToString([]byte{0, n[0]})
		n = "&" + strings.ReplaceAll(e, "/", ",") + "-" + n[1:]
	}
	return c20Quote(n)
}

// nameCmd sends `<head> <name><tail>`; a name tagged @l@ goes as a literal.
func (r *c20Runner) nameCmd(head, w, tail string) Reply {
	if tag, _ := c20SplitTag(w); tag == 'l' {
		return c20Dbg(r.cl.CmdLiteral(head, []byte(c20Name(w)), tail))
	}
	return c20Dbg(r.cl.Cmd(head + " " + c20WireName(w) + tail))
}

func c20Dbg(rep Reply) Reply {
	if os.Getenv("C20_DEBUG") != "" {
		fmt.Fprintf(os.Stderr, "    [wire] %q %s\n", rep.Untagged, rep.Tagged)
	}
	return rep
}
func c20Quote(n string) string {
	return `"` + strings.ReplaceAll(strings.ReplaceAll(n, `\`, `\\`), `"`, `\"`) + `"`
}

// c20Message builds the message for (hv, uv): hv feeds only fields the recovered-message hash reads
// (Subject, To address, MIME shape, body), uv only fields it ignores (Date, Message-Id, an X- header).
// hv = 100*shape + n: the MIME shape of the message (c20Shapes), chosen to cover every branch of
// rfc822.GetMessageHash / hashBody — in particular the ones on which hashing FAILS although the
// literal passes rfcvalidation and imap.NewParsedMessage.
func c20Message(hv, uv int, gidLine string) []byte {
	if hv == 0 {
		// hv 0: a message rfcvalidation.ValidateMessageHeaderFields refuses (no From, no Date): BAD, nothing kept
		return []byte(fmt.Sprintf("To: b@example.com\r\nSubject: invalid %d\r\n%s\r\nbody\r\n", uv, gidLine))
	}
	date := fmt.Sprintf("Mon, %02d Jan 2006 15:04:%02d +0000", 1+uv%28, uv%60)
	mime, body := c20ShapeOf(hv)
	s := "From: a@example.com\r\n" +
		fmt.Sprintf("To: b%d@example.com\r\n", hv) +
		"Date: " + date + "\r\n" +
		fmt.Sprintf("Message-Id: <m%d@example.com>\r\n", uv) +
		fmt.Sprintf("Subject: subject %d\r\n", hv) +
		fmt.Sprintf("X-Unhashed: %d\r\n", uv) +
		gidLine +
		mime +
		"\r\n" +
		body
	return []byte(s)
}

// c20Shape: extra header lines and the body of MIME shape hv/100.
type c20Shape struct {
	name string
	mime string                   // header lines after the common ones
	body func(text string) string // text = "body of message <hv>"
}

func c20B64(t string) string { return base64.StdEncoding.EncodeToString([]byte(t)) }

var c20Shapes = []c20Shape{
	0: {"plain", "", func(t string) string { return t + "\r\n" }},
	1: {"text-b64-valid", "Content-Type: text/plain; charset=utf-8\r\nContent-Transfer-Encoding: base64\r\n", func(t string) string { return c20B64(t) + "\r\n" }},
	2: {"text-b64-invalid", "Content-Type: text/plain\r\nContent-Transfer-Encoding: base64\r\n", func(t string) string { return t + " (not base64!)\r\n" }},
	3: {"html-qp-valid", "Content-Type: text/html\r\nContent-Transfer-Encoding: quoted-printable\r\n", func(t string) string { return "<p>" + t + " a=3Db soft=\r\nbreak</p>\r\n" }},
	4: {"text-qp-control-byte", "Content-Type: text/plain\r\nContent-Transfer-Encoding: quoted-printable\r\n", func(t string) string { return t + "\x0cpage two\r\n" }},
	5: {"text-unknown-charset-8bit", "Content-Type: text/plain; charset=x-unknown-42\r\nContent-Transfer-Encoding: 8bit\r\n", func(t string) string { return t + " \xe9\xff\x80\r\n" }},
	6: {"text-unknown-cte", "Content-Type: text/plain\r\nContent-Transfer-Encoding: x-rot13\r\n", func(t string) string { return t + " !!==\r\n" }},
	7: {"multipart-ok", "Content-Type: multipart/mixed; boundary=c20b\r\n", func(t string) string {
		return "--c20b\r\nContent-Type: text/plain\r\nContent-Transfer-Encoding: base64\r\n\r\n" + c20B64(t) + "\r\n--c20b\r\nContent-Type: application/octet-stream\r\nContent-Transfer-Encoding: base64\r\n\r\n!!not base64!!\r\n--c20b--\r\n"
	}},
	8: {"multipart-inner-html-b64-invalid", "Content-Type: multipart/alternative; boundary=c20b\r\n", func(t string) string {
		return "--c20b\r\nContent-Type: text/plain\r\n\r\n" + t + "\r\n--c20b\r\nContent-Type: text/html\r\nContent-Transfer-Encoding: base64\r\n\r\n<b>" + t + "</b>\r\n--c20b--\r\n"
	}},
	9: {"multipart-truncated", "Content-Type: multipart/mixed; boundary=c20b\r\n", func(t string) string {
		return "--c20b\r\nContent-Type: text/plain\r\n\r\n" + t + "\r\n"
	}},
	10: {"empty-body", "", func(t string) string { return "" }},
	11: {"binary-b64-invalid", "Content-Type: application/pdf\r\nContent-Transfer-Encoding: base64\r\n", func(t string) string { return t + " (not base64!)\r\n" }},
	12: {"default-type-b64-truncated", "Content-Transfer-Encoding: base64\r\n", func(t string) string { b := c20B64(t + "!"); return b[:len(b)-3] + "\r\n" }},
	13: {"text-B64-uppercase-invalid", "Content-Type: TEXT/PLAIN\r\nContent-Transfer-Encoding: BASE64\r\n", func(t string) string { return "~~" + t + "~~\r\n" }},
}

func c20ShapeOf(hv int) (string, string) {
	sh := hv / 100
	if sh < 0 || sh >= len(c20Shapes) {
		sh = 0
	}
	return c20Shapes[sh].mime, c20Shapes[sh].body(fmt.Sprintf("body of message %d", hv))
}

var (
	c20ReGidLine   = regexp.MustCompile(`(?im)^X-Pm-Gluon-Id: ([^\r\n]*)\r\n`)
	c20ReSubjectHV = regexp.MustCompile(`(?m)^Subject: subject (\d+)\r\n`)
	c20ReUnhashed  = regexp.MustCompile(`(?m)^X-Unhashed: (\d+)\r\n`)
	c20ReLit       = regexp.MustCompile(`\{(\d+)\}\r\n`)
	c20ReAppendUID = regexp.MustCompile(`\[APPENDUID (\d+) (\d+)\]`)
	c20ReCopyUID   = regexp.MustCompile(`\[COPYUID (\d+) ([0-9:,]*) ([0-9:,]+)\]`) // tolerant of an empty source set (seen before fix afeb569; today it would be a disagreement with the model)
	c20ReListLine  = regexp.MustCompile(`^\* LIST \(([^)]*)\) (?:"[^"]*"|NIL) (.*)$`)
)

// c20Decode: which (hv, uv) is this stored literal, byte for byte (modulo the gluon id line)?
func c20Decode(b []byte) (string, string) {
	gid := ""
	if m := c20ReGidLine.FindSubmatch(b); m != nil {
		gid = string(m[1])
	}
	stripped := c20ReGidLine.ReplaceAll(b, nil)
	mh := c20ReSubjectHV.FindSubmatch(stripped)
	mu := c20ReUnhashed.FindSubmatch(stripped)
	if mh == nil || mu == nil {
		return "?", gid
	}
	hv, _ := strconv.Atoi(string(mh[1]))
	uv, _ := strconv.Atoi(string(mu[1]))
	if string(c20Message(hv, uv, "")) != string(stripped) {
		return "?", gid
	}
	return fmt.Sprintf("%d.%d", hv, uv), gid
}

func c20NewRunner(script c20FailScript, limit int) (*c20Runner, error) {
	r := &c20Runner{script: script, limit: limit, stats: map[string]int{}}
	r.cur = c20NewScriptCursor(script)
	r.dummy = c20NewSysDummy([]string{"user"})
	r.conn = c20NewFailConn(r.dummy, r.cur)
	r.sb = &c20FailStoreBuilder{inner: &store.OnDiskStoreBuilder{}, cur: r.cur}
	if err := r.start("", ""); err != nil {
		return nil, err
	}
	return r, nil
}

func (r *c20Runner) start(dir, userID string) error {
	o := SysOpts{Conn: r.dummy, StoreBuilder: r.sb, Dir: dir, UserID: userID}
	if r.limit > 0 {
		l := limits.NewIMAPLimits(math.MaxUint32, uint32(r.limit), imap.UID(math.MaxUint32), imap.UID(math.MaxUint32))
		o.Limits = &l
	}
	sys, err := c20NewSysConn(o, r.conn)
	if err != nil {
		return err
	}
	r.sys = sys
	cl, err := sys.Dial("a")
	if err != nil {
		return err
	}
	if rep := cl.Login("user"); rep.Status != "OK" {
		return fmt.Errorf("login: %v %v", rep.Tagged, rep.Err)
	}
	r.cl = cl
	return nil
}

func (r *c20Runner) close() {
	if r.cl != nil {
		r.cl.Close()
	}
	if r.sys != nil {
		r.sys.Close(true)
	}
	_ = r.dummy.Close(nil)
}

func (r *c20Runner) restart() error {
	r.cl.Close()
	r.cl = nil
	dir, uid := r.sys.Dir, r.sys.UserID
	r.sys.Close(false)
	return r.start(dir, uid)
}

func c20Status(rep Reply) string {
	if rep.Err != nil && rep.Status == "" {
		return "lost"
	}
	return strings.ToLower(rep.Status)
}

// fetchMailbox: EXAMINE + UID FETCH 1:* (UID BODY.PEEK[]) -> uid -> literal
func (r *c20Runner) fetchMailbox(name string) (map[int][]byte, error) {
	rep := r.cl.Cmd("EXAMINE " + c20Quote(name))
	if rep.Status != "OK" {
		return nil, fmt.Errorf("EXAMINE %q: %s %v", name, rep.Tagged, rep.Err)
	}
	out := map[int][]byte{}
	exists := 0
	for _, u := range rep.Untagged {
		f := strings.Fields(u)
		if len(f) == 3 && f[2] == "EXISTS" {
			exists, _ = strconv.Atoi(f[1])
		}
	}
	if exists == 0 {
		return out, nil
	}
	rep = r.cl.Cmd("UID FETCH 1:* (UID BODY.PEEK[])")
	if rep.Status != "OK" {
		return nil, fmt.Errorf("FETCH in %q: %s %v", name, rep.Tagged, rep.Err)
	}
	for _, u := range rep.Untagged {
		if !strings.Contains(u, " FETCH (") {
			continue
		}
		loc := c20ReLit.FindStringSubmatchIndex(u)
		if loc == nil {
			continue
		}
		n, _ := strconv.Atoi(u[loc[2]:loc[3]])
		if loc[1]+n > len(u) {
			continue
		}
		lit := []byte(u[loc[1] : loc[1]+n])
		rest := u[:loc[0]] + u[loc[1]+n:]
		m := reUID.FindStringSubmatch(rest)
		if m == nil {
			continue
		}
		uid, _ := strconv.Atoi(m[1])
		out[uid] = lit
	}
	if len(out) != exists {
		return out, fmt.Errorf("mailbox %q: EXISTS %d but %d messages fetched", name, exists, len(out))
	}
	return out, nil
}

func (r *c20Runner) list() ([]string, error) {
	names, _, err := r.listAttrs()
	return names, err
}

// listAttrs: the names LIST "" "*" shows (sorted) and which of them are \Noselect.
func (r *c20Runner) listAttrs() ([]string, map[string]bool, error) {
	rep := r.cl.Cmd(`LIST "" "*"`)
	if rep.Status != "OK" {
		return nil, nil, fmt.Errorf("LIST: %s %v", rep.Tagged, rep.Err)
	}
	var names []string
	nosel := map[string]bool{}
	for _, u := range rep.Untagged {
		m := c20ReListLine.FindStringSubmatch(u)
		if m == nil {
			continue
		}
		n := m[2]
		if strings.HasPrefix(n, `"`) && strings.HasSuffix(n, `"`) && len(n) >= 2 {
			n = strings.ReplaceAll(strings.ReplaceAll(n[1:len(n)-1], `\"`, `"`), `\\`, `\`)
		}
		names = append(names, n)
		if strings.Contains(strings.ToLower(m[1]), `\noselect`) {
			nosel[n] = true
		}
	}
	sort.Strings(names)
	return names, nosel, nil
}

// observe: the complete state, canonical: `listed=<0|1>/<mbox>=<uid>:<hv>.<uv>,…/…`
func (r *c20Runner) observe() (string, map[string]map[int][]byte, error) {
	names, nosel, err := r.listAttrs()
	if err != nil {
		return "", nil, err
	}
	listed := "0"
	for _, n := range names {
		if n == c20Recovery {
			listed = "1"
		}
	}
	if listed == "0" {
		names = append(names, c20Recovery)
		sort.Strings(names)
	}
	parts := []string{"listed=" + listed}
	all := map[string]map[int][]byte{}
	for _, n := range names {
		if nosel[n] {
			// a \Noselect name holds no messages; it is part of the state as an (empty) name
			parts = append(parts, c20Unname(n)+"=-")
			continue
		}
		if n == c20Recovery && listed == "0" {
			// not listed: does it exist at all?  (a missing recovery mailbox is a state of its own:
			// the state line then has no part for it and the judge says recovery-mailbox-missing)
			if rep := r.cl.Cmd("EXAMINE " + c20Quote(n)); rep.Status == "NO" {
				continue
			}
		}
		msgs, err := r.fetchMailbox(n)
		if err != nil {
			return "", nil, err
		}
		all[n] = msgs
		var uids []int
		for u := range msgs {
			uids = append(uids, u)
		}
		sort.Ints(uids)
		var ms []string
		for _, u := range uids {
			key, _ := c20Decode(msgs[u])
			if key == "?" {
				r.viol = append(r.viol, fmt.Sprintf("mailbox %q UID %d holds bytes that are not (modulo the X-Pm-Gluon-Id line) any message handed to APPEND: %q", n, u, c20Truncate(string(msgs[u]), 200)))
			}
			ms = append(ms, fmt.Sprintf("%d:%s", u, key))
		}
		s := "-"
		if len(ms) > 0 {
			s = strings.Join(ms, ",")
		}
		parts = append(parts, c20Unname(n)+"="+s)
	}
	_ = r.cl.Cmd("UNSELECT")
	r.lastObs = all
	sort.Strings(parts[1:]) // the order of the Lean side: by the encoded `name=content` words
	return strings.Join(parts, "/"), all, nil
}

func c20Truncate(s string, n int) string {
	if len(s) > n {
		return s[:n] + "…"
	}
	return s
}

func (r *c20Runner) selectMbox(name string) bool {
	rep := r.cl.Cmd("SELECT " + c20Quote(name))
	return rep.Status == "OK"
}

func c20UidSet(w string) string { return w }

// expandSet: "1:3,5" -> "1,2,3,5"
func c20ExpandSet(w string) string {
	var out []string
	for _, p := range strings.Split(w, ",") {
		if i := strings.Index(p, ":"); i >= 0 {
			a, _ := strconv.Atoi(p[:i])
			b, _ := strconv.Atoi(p[i+1:])
			if a > b {
				a, b = b, a
			}
			for k := a; k <= b && k-a < 10000; k++ {
				out = append(out, strconv.Itoa(k))
			}
		} else {
			out = append(out, p)
		}
	}
	return strings.Join(out, ",")
}

// exec runs one step, returns its canonical result.
func (r *c20Runner) exec(step string) (string, error) {
	f := strings.Fields(step)
	if len(f) == 0 {
		return "", fmt.Errorf("empty step")
	}
	switch f[0] {
	case "CREATE", "DELETE", "SUBSCRIBE", "UNSUBSCRIBE":
		if len(f) != 2 {
			return "", fmt.Errorf("bad step %q", step)
		}
		rep := r.nameCmd(f[0], f[1], "")
		return c20Status(rep), rep.Err
	case "SELECT", "EXAMINE", "STATUS":
		if len(f) != 2 {
			return "", fmt.Errorf("bad step %q", step)
		}
		tail := ""
		if f[0] == "STATUS" {
			tail = " (MESSAGES UIDNEXT)"
		}
		rep := r.nameCmd(f[0], f[1], tail)
		if f[0] != "STATUS" && rep.Status == "OK" {
			_ = r.cl.Cmd("UNSELECT")
		}
		return c20Status(rep), rep.Err
	case "RENAME":
		if len(f) != 3 {
			return "", fmt.Errorf("bad step %q", step)
		}
		var rep Reply
		if t2, _ := c20SplitTag(f[2]); t2 == 'l' {
			rep = r.cl.CmdLiteral("RENAME "+c20WireName(f[1]), []byte(c20Name(f[2])), "")
		} else {
			rep = r.nameCmd("RENAME", f[1], " "+c20WireName(f[2]))
		}
		return c20Status(rep), rep.Err
	case "LIST":
		names, err := r.list()
		if err != nil {
			return "", err
		}
		for i := range names {
			names[i] = c20Unname(names[i])
		}
		return "list:" + strings.Join(names, ","), nil
	case "RESTART":
		if err := r.restart(); err != nil {
			return "", err
		}
		return "ok", nil
	case "APPEND":
		if len(f) != 5 {
			return "", fmt.Errorf("bad step %q", step)
		}
		hv, _ := strconv.Atoi(f[2])
		uv, _ := strconv.Atoi(f[3])
		gidLine := ""
		switch {
		case f[4] == "-":
		case f[4] == "bad":
			gidLine = "X-Pm-Gluon-Id: not-a-uuid\r\n"
		default:
			i := strings.LastIndex(f[4], ":")
			if i < 0 {
				return "", fmt.Errorf("bad gid ref %q", f[4])
			}
			u, _ := strconv.Atoi(f[4][i+1:])
			msgs, err := r.fetchMailbox(c20Name(f[4][:i]))
			if err != nil {
				return "", err
			}
			lit, ok := msgs[u]
			if !ok {
				return "", fmt.Errorf("gid ref %q: no such message", f[4])
			}
			_, gid := c20Decode(lit)
			if gid == "" {
				// a recovered message carries no gluon id: the client has none to send
				gidLine = ""
			} else {
				gidLine = "X-Pm-Gluon-Id: " + gid + "\r\n"
			}
		}
		lit := c20Message(hv, uv, gidLine)
		rep := r.cl.Append(c20WireName(f[1]), "", lit)
		st := c20Status(rep)
		if st == "ok" {
			m := c20ReAppendUID.FindStringSubmatch(rep.Tagged)
			if m == nil {
				return "ok ?", nil
			}
			return "ok " + m[2], nil
		}
		if st == "no" && strings.Contains(rep.Tagged, "known recovered message") {
			return "no known", rep.Err
		}
		if st == "no" && strings.Contains(rep.Tagged, "[TRYCREATE]") {
			return "no trycreate", rep.Err
		}
		return st, rep.Err
	case "COPY", "MOVE":
		if len(f) != 4 {
			return "", fmt.Errorf("bad step %q", step)
		}
		if !r.selectMbox(c20Name(f[1])) {
			return "nosel", nil
		}
		rep := r.nameCmd("UID "+f[0]+" "+c20UidSet(f[2]), f[3], "")
		st := c20Status(rep)
		res := st
		if st == "ok" {
			text := rep.Tagged + "\n" + strings.Join(rep.Untagged, "\n")
			if m := c20ReCopyUID.FindStringSubmatch(text); m != nil {
				src := ""
				if m[2] != "" {
					src = c20ExpandSet(m[2])
				}
				res = "ok " + src + ">" + c20ExpandSet(m[3])
			} else {
				res = "ok -"
			}
		}
		_ = r.cl.Cmd("UNSELECT")
		return res, rep.Err
	case "EXPUNGE":
		if len(f) != 3 {
			return "", fmt.Errorf("bad step %q", step)
		}
		if !r.selectMbox(c20Name(f[1])) {
			return "nosel", nil
		}
		rep := r.cl.Cmd("UID STORE " + f[2] + ` +FLAGS.SILENT (\Deleted)`)
		if rep.Status != "OK" {
			_ = r.cl.Cmd("UNSELECT")
			return "store-" + c20Status(rep), rep.Err
		}
		rep = r.cl.Cmd("UID EXPUNGE " + f[2])
		_ = r.cl.Cmd("UNSELECT")
		return c20Status(rep), rep.Err
	}
	return "", fmt.Errorf("unknown step %q", step)
}

// runOne executes one step and observes the state.
func (r *c20Runner) runOne(st string) bool {
	before := r.cur.positions()
	res, err := r.exec(st)
	r.stepCalls = append(r.stepCalls, r.cur.consumedSince(before))
	if err != nil {
		r.stepCalls = r.stepCalls[:len(r.stepCalls)-1]
		r.aborted = fmt.Errorf("step %q: %w", st, err)
		return false
	}
	state, all, err := r.observe()
	if err != nil {
		r.stepCalls = r.stepCalls[:len(r.stepCalls)-1]
		r.aborted = fmt.Errorf("observation after %q: %w", st, err)
		return false
	}
	r.steps = append(r.steps, st)
	r.results = append(r.results, res)
	r.states = append(r.states, state)
	f := strings.Fields(st)
	r.stats["step."+f[0]]++
	if f[0] != "LIST" {
		r.stats["res."+f[0]+"."+strings.Fields(res + " x")[0]]++
	}
	if f[0] == "APPEND" && res == "no known" {
		r.stats["res.APPEND.no-known"]++
	}
	r.directChecks(st, res, all)
	if p := r.sys.Panics.Take(); len(p) > 0 {
		r.viol = append(r.viol, fmt.Sprintf("server-panic@%d during %q: %s", len(r.steps), st, c20Truncate(strings.Join(p, " | "), 300)))
	}
	return true
}

func (r *c20Runner) runSteps(steps []string) {
	for _, st := range steps {
		if !r.runOne(st) {
			return
		}
	}
}

// directChecks: what can be said on the bytes alone, without any model.
func (r *c20Runner) directChecks(step, res string, all map[string]map[int][]byte) {
	f := strings.Fields(step)
	if f[0] != "APPEND" {
		return
	}
	k := len(r.steps)
	want := fmt.Sprintf("%s.%s", f[2], f[3])
	if strings.HasPrefix(res, "ok ") {
		uid, err := strconv.Atoi(strings.TrimPrefix(res, "ok "))
		if err != nil {
			r.viol = append(r.viol, fmt.Sprintf("ok-without-appenduid@%d %q", k, step))
			return
		}
		lit, ok := all[c20Name(f[1])][uid]
		if !ok {
			r.viol = append(r.viol, fmt.Sprintf("ok-but-not-present@%d %q answered OK [APPENDUID %d] but mailbox %q has no message with UID %d", k, step, uid, c20Name(f[1]), uid))
			return
		}
		if key, _ := c20Decode(lit); key != want {
			r.viol = append(r.viol, fmt.Sprintf("ok-but-other-bytes-under-uid@%d %q answered OK [APPENDUID %d] but UID %d of %q holds message %s, not the bytes handed over (%s)", k, step, uid, uid, c20Name(f[1]), key, want))
		}
	}
}

// ---- generator (adaptive: the next step is drawn knowing the observed state) ---------------

var c20RecVariants = []string{"Recovered+Messages", "recovered+messages", "RECOVERED+MESSAGES", "ReCoVeReD+mEsSaGeS", "@l@Recovered+Messages", "@u@recovered+messages"}

// ... and near-spellings that do not denote it but that a normalising code path could turn into it
var c20RecNear = []string{"Recovered+Messages/", "recovered+messages/", "Recovered+Messages+", "Recovered+Messages//", "@l@Recovered+Messages/"}
var c20CreateProbes = []string{"Recovered+Messages", "recovered+messages", "RECOVERED+MESSAGES", "Recovered+MessagesX", "recovered+messages/sub", "RECOVERED+MESSAGES+2"}
var c20Pool = []string{"mA", "mB", "mC", "mD"}

type c20Box struct {
	name string
	uids []int
}

func (r *c20Runner) boxes() (normal []c20Box, rec c20Box) {
	var names []string
	for n := range r.lastObs {
		names = append(names, n)
	}
	sort.Strings(names)
	for _, n := range names {
		var uids []int
		for u := range r.lastObs[n] {
			uids = append(uids, u)
		}
		sort.Ints(uids)
		b := c20Box{name: c20Unname(n), uids: uids}
		if n == c20Recovery {
			rec = b
		} else {
			normal = append(normal, b)
		}
	}
	if rec.name == "" {
		rec.name = c20Unname(c20Recovery)
	}
	return
}

func c20PickUids(g *Rng, uids []int) string {
	var out []string
	for _, u := range uids {
		if g.Chance(1, 2) {
			out = append(out, strconv.Itoa(u))
		}
	}
	if len(out) == 0 && len(uids) > 0 {
		out = append(out, strconv.Itoa(Pick(g, uids)))
	}
	if len(out) == 0 || g.Chance(1, 12) {
		out = append(out, "99")
	}
	return strings.Join(out, ",")
}

func (r *c20Runner) genStep(g *Rng) string {
	normal, rec := r.boxes()
	pickNormal := func() string {
		if len(normal) == 0 {
			return "INBOX"
		}
		return Pick(g, normal).name
	}
	var withMsgs []c20Box
	for _, b := range normal {
		if len(b.uids) > 0 {
			withMsgs = append(withMsgs, b)
		}
	}
	freeName := func() string {
		var free []string
		for _, n := range c20Pool {
			used := false
			for _, b := range normal {
				if b.name == n {
					used = true
				}
			}
			if !used {
				free = append(free, n)
			}
		}
		if len(free) == 0 || g.Chance(1, 8) {
			return Pick(g, c20Pool)
		}
		return Pick(g, free)
	}
	for {
		x := g.Intn(100)
		switch {
		case x < 42: // APPEND
			mbox := pickNormal()
			if y := g.Intn(20); y == 0 {
				mbox = "nosuch"
			} else if y <= 2 {
				mbox = Pick(g, c20RecVariants)
			}
			gid := "-"
			if y := g.Intn(20); y == 0 {
				gid = "bad"
			} else if y <= 3 {
				var cands []string
				for _, b := range append(append([]c20Box{}, normal...), rec) {
					for _, u := range b.uids {
						cands = append(cands, fmt.Sprintf("%s:%d", b.name, u))
					}
				}
				if len(cands) > 0 {
					gid = Pick(g, cands)
				}
			}
			hv := g.Range(1, 4)
			if g.Chance(1, 30) {
				hv = 0
			} else if g.Chance(1, 4) {
				hv = c20PickHV(g, g.Bool()) // another MIME shape, half of the time one whose hash fails
			}
			return fmt.Sprintf("APPEND %s %d %d %s", mbox, hv, g.Range(1, 3), gid)
		case x < 66: // COPY / MOVE
			op := "COPY"
			if g.Bool() {
				op = "MOVE"
			}
			var src c20Box
			switch {
			case len(rec.uids) > 0 && g.Chance(3, 5):
				src = rec
			case len(withMsgs) > 0:
				src = Pick(g, withMsgs)
			case g.Chance(1, 4):
				src = rec
			default:
				continue
			}
			dst := pickNormal()
			switch g.Intn(20) {
			case 0:
				dst = "nosuch"
			case 1:
				dst = Pick(g, c20RecVariants)
			case 2:
				dst = src.name
			case 3:
				dst = Pick(g, c20RecNear)
			}
			return fmt.Sprintf("%s %s %s %s", op, src.name, c20PickUids(g, src.uids), dst)
		case x < 71: // EXPUNGE
			var src c20Box
			if len(rec.uids) > 0 && g.Bool() {
				src = rec
			} else if len(withMsgs) > 0 {
				src = Pick(g, withMsgs)
			} else {
				continue
			}
			return fmt.Sprintf("EXPUNGE %s %s", src.name, c20PickUids(g, src.uids))
		case x < 78: // CREATE
			if g.Chance(2, 5) {
				return "CREATE " + Pick(g, c20CreateProbes)
			}
			return "CREATE " + freeName()
		case x < 82: // DELETE
			if g.Chance(1, 2) {
				if g.Chance(1, 3) {
					return "DELETE " + Pick(g, c20RecNear)
				}
				return "DELETE " + Pick(g, c20RecVariants)
			}
			var cands []string
			for _, b := range normal {
				if b.name != "INBOX" {
					cands = append(cands, b.name)
				}
			}
			if len(cands) < 2 {
				continue
			}
			return "DELETE " + Pick(g, cands)
		case x < 86: // RENAME
			var cands []string
			for _, b := range normal {
				if b.name != "INBOX" {
					cands = append(cands, b.name)
				}
			}
			if len(cands) == 0 {
				continue
			}
			switch g.Intn(3) {
			case 0:
				return "RENAME " + Pick(g, c20RecVariants) + " " + freeName()
			case 1:
				return "RENAME " + Pick(g, cands) + " " + Pick(g, c20RecVariants)
			}
			return "RENAME " + Pick(g, cands) + " " + freeName()
		case x < 92:
			return "LIST"
		default:
			return "RESTART"
		}
	}
}

func c20GenScript(g *Rng) (c20FailScript, int) {
	letters := func(n int, table string) string {
		b := make([]byte, n)
		for i := range b {
			b[i] = table[g.Intn(len(table))]
		}
		return string(b)
	}
	var sc c20FailScript
	if !g.Chance(1, 8) {
		sc.Create = letters(g.Range(2, 14), "ooooooooeeeeeeeesd")
		sc.Add = letters(g.Range(0, 6), "ooooooeees")
		sc.Remove = letters(g.Range(0, 4), "oooooees")
		sc.Move = letters(g.Range(0, 4), "oooooees")
		if g.Chance(1, 3) {
			sc.Store = letters(g.Range(1, 8), "oooooe")
		}
	}
	limit := 0
	if g.Chance(1, 6) {
		limit = g.Range(1, 3)
	}
	return sc, limit
}

// ---- Lean side ------------------------------------------------------------------------------

func c20Words(steps []string) string {
	w := make([]string, len(steps))
	for i, s := range steps {
		w[i] = strings.Join(strings.Fields(s), "~")
	}
	return strings.Join(w, " ")
}

func (r *c20Runner) observedWords() []string {
	out := make([]string, len(r.results))
	for i := range r.results {
		out[i] = strings.ReplaceAll(r.results[i], " ", "_") + "|" + r.states[i]
	}
	return out
}

type c20Verdict struct {
	classes []string // violation classes (class@step …), tie breaks as "model-disagreement@k"
	detail  map[string]string
	judge   string
	// steps on which the judge had something of C20 to decide
	nontrivial int
}

// evaluate: direct findings + Lean judge + Lean model comparison.
func (r *c20Runner) evaluate(limit int) (*c20Verdict, error) {
	v := &c20Verdict{detail: map[string]string{}}
	for _, d := range r.viol {
		cls := strings.Fields(d)[0]
		v.classes = append(v.classes, cls)
		v.detail[cls] = d
	}
	if len(r.steps) == 0 {
		return v, nil
	}
	if os.Getenv("VERIF_DRIVER") == "" {
		return v, nil
	}
	lim := "-"
	if limit > 0 {
		lim = strconv.Itoa(limit)
	}
	prefix := r.cur.current().String() + " " + lim + " " + c20Words(r.steps)
	obs := r.observedWords()
	ans, err := leanJudge([]string{"c20-append " + prefix, "judge-c20-append " + prefix + " => " + strings.Join(obs, " ")})
	if err != nil {
		return v, err
	}
	if len(ans) != 2 {
		return v, fmt.Errorf("driver answered %d lines", len(ans))
	}
	model := strings.Split(ans[0], " ")
	if len(model) != len(obs) {
		v.classes = append(v.classes, "model-disagreement@0")
		v.detail["model-disagreement@0"] = "model-disagreement@0 the Lean model answered " + c20Truncate(ans[0], 200)
	} else {
		for i := range obs {
			if strings.HasPrefix(model[i], "unsupported|") {
				// outside the modelled fragment (hierarchical names): the model cannot follow from
				// here on; the judge still decides every step
				r.stats["model-comparison-cut"]++
				break
			}
			if strings.HasPrefix(model[i], "*|") {
				// an answer the model leaves open (SELECT / STATUS / SUBSCRIBE ...): the state must agree
				if j := strings.Index(obs[i], "|"); j >= 0 && obs[i][j:] == model[i][1:] {
					continue
				}
			}
			if obs[i] != model[i] {
				cls := fmt.Sprintf("model-disagreement@%d", i+1)
				v.classes = append(v.classes, cls)
				v.detail[cls] = fmt.Sprintf("%s step %q: real server %s, Lean model %s", cls, r.steps[i], obs[i], model[i])
				break
			}
		}
	}
	v.judge = ans[1]
	if f := strings.Fields(ans[1]); len(f) >= 2 {
		v.nontrivial, _ = strconv.Atoi(f[len(f)-1])
	}
	if strings.HasPrefix(ans[1], "violation ") {
		for _, c := range strings.Split(strings.Fields(ans[1])[1], ",") {
			if _, dup := v.detail[c]; dup {
				continue
			}
			v.classes = append(v.classes, c)
			k := 0
			if i := strings.LastIndex(c, "@"); i >= 0 {
				k, _ = strconv.Atoi(c[i+1:])
			}
			d := c + " (Lean judge judge-c20-append)"
			if k >= 1 && k <= len(r.steps) {
				d += fmt.Sprintf(" at step %q answered %q, state after it %s", r.steps[k-1], r.results[k-1], r.states[k-1])
			}
			v.detail[c] = d
		}
	} else if !strings.HasPrefix(ans[1], "ok") {
		v.classes = append(v.classes, "judge-error@0")
		v.detail["judge-error@0"] = "judge-error@0 " + ans[1]
	}
	return v, nil
}

func c20Fnv32(s string) uint32 {
	h := uint32(2166136261)
	for i := 0; i < len(s); i++ {
		h = (h ^ uint32(s[i])) * 16777619
	}
	return h
}

func c20ClassOf(c string) string {
	if i := strings.LastIndex(c, "@"); i >= 0 {
		return c[:i]
	}
	return c
}

func (v *c20Verdict) has(class string) bool {
	for _, c := range v.classes {
		if c20ClassOf(c) == class {
			return true
		}
	}
	return false
}

func c20ParseReplay(text string) (c20FailScript, int, []string, error) {
	var sc c20FailScript
	limit := 0
	var steps []string
	for i, l := range strings.Split(text, "\n") {
		l = strings.TrimSpace(l)
		if i == 0 || l == "" || strings.HasPrefix(l, "#") {
			continue
		}
		switch {
		case strings.HasPrefix(l, "script "):
			s, err := c20ParseFailScript(strings.TrimPrefix(l, "script "))
			if err != nil {
				return sc, 0, nil, err
			}
			sc = s
		case strings.HasPrefix(l, "limit "):
			if w := strings.TrimPrefix(l, "limit "); w != "-" {
				limit, _ = strconv.Atoi(w)
			}
		default:
			steps = append(steps, l)
		}
	}
	return sc, limit, steps, nil
}

func c20ReplayText(sc c20FailScript, limit int, steps []string) string {
	lim := "-"
	if limit > 0 {
		lim = strconv.Itoa(limit)
	}
	return "oracle c20append\nscript " + sc.String() + "\nlimit " + lim + "\n" + strings.Join(steps, "\n") + "\n"
}

// c20RunSequence: fixed steps (replay / shrinking) or, with g != nil, generated ones: theme ""
// = nsteps independent random steps, "life" / "names" = the directed themes of o_append_directed.go.
func c20RunSequence(sc c20FailScript, limit int, steps []string, g *Rng, nsteps int, theme string) (*c20Runner, *c20Verdict, error) {
	r, err := c20NewRunner(sc, limit)
	if err != nil {
		return nil, nil, err
	}
	defer r.close()
	switch {
	case g == nil:
		r.runSteps(steps)
	case theme == "life":
		r.c20Life(g, nsteps)
	case theme == "names":
		r.c20Names(g, nsteps)
	default:
		for _, st := range []string{"CREATE mA", "CREATE mB"} {
			if !r.runOne(st) {
				break
			}
		}
		for k := 0; k < nsteps && r.aborted == nil; k++ {
			if !r.runOne(r.genStep(g)) {
				break
			}
		}
	}
	v, err := r.evaluate(limit)
	if r.aborted != nil {
		v.classes = append(v.classes, "sequence-aborted@0")
		v.detail["sequence-aborted@0"] = "sequence-aborted@0 " + r.aborted.Error()
	}
	return r, v, err
}

// c20ScriptOf: the failure script made of the outcomes the given steps consumed
func c20ScriptOf(calls [][5]string) c20FailScript {
	var k [5]string
	for _, c := range calls {
		for i := range k {
			k[i] += c[i]
		}
	}
	return c20FailScript{k[0], k[1], k[2], k[3], k[4]}
}

// shrink: drop steps - together with the remote outcomes they consumed - while a violation of the
// same class remains.
func c20Shrink(limit int, steps []string, calls [][5]string, class string, budget int) ([]string, c20FailScript) {
	cur, curCalls := steps, calls
	for chunk := len(cur) / 2; chunk >= 1 && budget > 0; chunk /= 2 {
		for i := 0; i+chunk <= len(cur) && budget > 0; {
			cand := append(append([]string{}, cur[:i]...), cur[i+chunk:]...)
			candCalls := append(append([][5]string{}, curCalls[:i]...), curCalls[i+chunk:]...)
			budget--
			r2, v, err := c20RunSequence(c20ScriptOf(candCalls), limit, cand, nil, 0, "")
			if err == nil && v != nil && v.has(class) && !v.has("sequence-aborted") && len(r2.steps) == len(cand) {
				cur, curCalls = cand, r2.stepCalls
			} else {
				i += chunk
			}
		}
	}
	return cur, c20ScriptOf(curCalls)
}

func c20RunOracle(args []string) int {
	fs := flag.NewFlagSet("c20append", flag.ExitOnError)
	seed := fs.Uint64("seed", 1, "")
	out := fs.String("out", "", "")
	replayDir := fs.String("replaydir", ".", "")
	replay := fs.String("replay", "", "")
	n := fs.Int("n", 20, "sequences")
	nsteps := fs.Int("steps", 25, "steps per sequence")
	nLife := fs.Int("life", 0, "directed sequences: message shapes x remote decision x destination")
	nNames := fs.Int("names", 0, "directed sequences: name spellings of the recovery mailbox")
	verbose := fs.Bool("v", false, "print results and states")
	noShrink := fs.Bool("noshrink", false, "")
	_ = fs.Parse(args)
	res := &OracleResult{Stats: map[string]int{}, Samples: []any{}, Violations: []OracleViol{}}
	reported := map[string]int{}
	_ = os.MkdirAll(*replayDir, 0o755)
	report := func(sc c20FailScript, limit int, steps []string, calls [][5]string, v *c20Verdict, origin string, shrink bool) {
		seen := map[string]bool{}
		for _, c := range v.classes {
			class := c20ClassOf(c)
			if seen[class] {
				continue
			}
			seen[class] = true
			res.Stats["class."+class]++
			if reported[class] >= 2 {
				continue
			}
			reported[class]++
			st, vv, ssc := steps, v, sc
			if shrink && !*noShrink && class != "sequence-aborted" && len(calls) == len(steps) {
				st2, sc2 := c20Shrink(limit, steps, calls, class, 64)
				if _, v2, err := c20RunSequence(sc2, limit, st2, nil, 0, ""); err == nil && v2 != nil && v2.has(class) {
					st, vv, ssc = st2, v2, sc2
				}
			}
			desc := ""
			for _, c2 := range vv.classes {
				if c20ClassOf(c2) == class {
					desc = vv.detail[c2]
					break
				}
			}
			text := c20ReplayText(ssc, limit, st)
			text += fmt.Sprintf("# property C20, class %s: %s\n# %s\n# replay: ./check C20 --replay <this file>\n", class, desc, origin)
			path := filepath.Join(*replayDir, fmt.Sprintf("C20-%s-%d-%d.txt", class, *seed, reported[class]))
			if !shrink { // a replayed file or a corpus file: never overwrite a generated reproducer
				path = filepath.Join(*replayDir, fmt.Sprintf("C20-%s-%s-%08x.txt", class, strings.Fields(origin)[0], c20Fnv32(text)))
			}
			_ = os.WriteFile(path, []byte(text), 0o644)
			res.Violations = append(res.Violations, OracleViol{Desc: "C20 " + class + ": " + desc, Replay: path})
		}
	}
	account := func(r *c20Runner, v *c20Verdict) {
		res.Evaluations += len(r.steps)
		for _, k := range sortedKeys(r.stats) {
			res.Stats[k] += r.stats[k]
		}
		for _, c := range r.cur.TakeCalls() {
			res.Stats["call."+c]++
		}
		res.DistinctNontrivial += v.nontrivial
	}
	runFile := func(path string, origin string) {
		b, err := os.ReadFile(path)
		if err != nil {
			fmt.Fprintln(os.Stderr, err)
			return
		}
		sc, limit, steps, err := c20ParseReplay(string(b))
		if err != nil {
			fmt.Fprintln(os.Stderr, err)
			return
		}
		r, v, err := c20RunSequence(sc, limit, steps, nil, 0, "")
		if r == nil {
			fmt.Fprintln(os.Stderr, "setup failed:", err)
			res.Stats["setup-failed"]++
			return
		}
		if err != nil {
			fmt.Fprintln(os.Stderr, "lean driver:", err)
			res.Stats["driver-failed"]++
		}
		if *verbose {
			for i := range r.results {
				fmt.Printf("%-44s => %-14s %s\n", r.steps[i], r.results[i], r.states[i])
			}
			fmt.Println("calls:", strings.Join(r.cur.Calls, " "))
			fmt.Println("judge:", v.judge, " classes:", v.classes)
		}
		account(r, v)
		report(sc, limit, steps, nil, v, origin, false)
	}
	if *replay != "" {
		runFile(*replay, "replayed")
		if res.DistinctNontrivial == 0 {
			res.DistinctNontrivial = 1
		}
	} else {
		if dir := os.Getenv("VERIF_CORPUS"); dir != "" {
			files, _ := filepath.Glob(filepath.Join(dir, "*.txt"))
			sort.Strings(files)
			for _, f := range files {
				if b, err := os.ReadFile(f); err == nil && strings.HasPrefix(string(b), "oracle c20append") {
					res.Stats["corpus-files"]++
					runFile(f, "corpus "+filepath.Base(f))
				}
			}
		}
		for _, d := range c20ShapeTie() {
			res.Stats["class.shape-table-mismatch"]++
			path := filepath.Join(*replayDir, fmt.Sprintf("C20-shape-table-mismatch-%d-%08x.txt", *seed, c20Fnv32(d)))
			_ = os.WriteFile(path, []byte("oracle c20append\nscript -,-,-,-,-\nlimit -\nLIST\n# property C20, class shape-table-mismatch: "+d+"\n"), 0o644)
			res.Violations = append(res.Violations, OracleViol{Desc: "C20 " + d, Replay: path})
		}
		res.Evaluations += len(c20Shapes)
		g := NewRng(*seed)
		total := *n + *nLife + *nNames
		for k := 0; k < total; k++ {
			sg := g.Fork()
			// the themes are interleaved evenly (a run that is cut off has seen all of them)
			theme, best := "", -1.0
			for _, t := range []struct {
				name string
				n    int
			}{{"", *n}, {"life", *nLife}, {"names", *nNames}} {
				key := "sequences." + t.name
				if t.name == "" {
					key = "sequences.random"
				}
				if left := t.n - res.Stats[key]; left > 0 {
					if f := float64(left) / float64(t.n); f > best {
						theme, best = t.name, f
					}
				}
			}
			var sc c20FailScript
			limit := 0
			if theme == "" {
				sc, limit = c20GenScript(sg)
			}
			r, v, err := c20RunSequence(sc, limit, nil, sg, *nsteps, theme)
			if r == nil {
				fmt.Fprintln(os.Stderr, "setup failed:", err)
				res.Stats["setup-failed"]++
				continue
			}
			if err != nil {
				fmt.Fprintln(os.Stderr, "lean driver:", err)
				res.Stats["driver-failed"]++
			}
			res.Stats["sequences"]++
			if theme == "" {
				res.Stats["sequences.random"]++
			} else {
				res.Stats["sequences."+theme]++
			}
			if sc.Store != "" {
				res.Stats["sequences.store-faults"]++
			}
			if limit > 0 {
				res.Stats["sequences.limit"]++
			}
			account(r, v)
			if len(res.Samples) < 3 && (theme != "" || len(res.Samples) < 1) {
				res.Samples = append(res.Samples, map[string]any{"theme": theme, "script": r.cur.current().String(), "steps": r.steps, "results": r.results})
			}
			if *verbose {
				fmt.Printf("--- sequence %d theme %q script %s\n", k, theme, r.cur.current().String())
				for i := range r.results {
					fmt.Printf("%-44s => %-14s %s\n", r.steps[i], r.results[i], r.states[i])
				}
				fmt.Println("judge:", v.judge, " classes:", v.classes)
			}
			report(r.cur.current(), limit, r.steps, r.stepCalls, v, fmt.Sprintf("generated (seed %d, sequence %d, theme %q), minimised from %d steps", *seed, k, theme, len(r.steps)), true)
		}
	}
	if *out != "" {
		writeResult(*out, res)
	}
	b, _ := json.Marshal(res.Stats)
	fmt.Fprintln(os.Stderr, string(b))
	for _, v := range res.Violations {
		fmt.Fprintln(os.Stderr, "VIOL", v.Desc, v.Replay)
	}
	return 0
}

func init() { RegisterOracle(&Oracle{Name: "c20append", Run: c20RunOracle}) }
