package main

// Facts/Limits.lean (C17): every limits.IMAP Check* call in internal/state and internal/backend
// with its enclosing function and the kind of database handle the checked value was read from;
// every mailbox / message insert call with whether the same function checks first; and the shape
// of State.Create (one check of the bare count, then a loop creating the missing superiors).

import (
	"fmt"
	"go/ast"
	"go/token"
	"go/types"
	"sort"
	"strings"
)

var limitCheckMethods = map[string]string{
	"CheckMailBoxCount":        "mailbox",
	"CheckMailBoxMessageCount": "message",
	"CheckUIDCount":            "uid",
	"CheckUIDValidity":         "uidvalidity",
}

// calls on a transaction handle that add mailboxes / messages to a mailbox
var limitInsertCalls = map[string]string{
	"CreateMailbox":                "mailbox",
	"CreateMailboxIfNotExists":     "mailbox",
	"GetOrCreateMailbox":           "mailbox",
	"AddMessagesToMailbox":         "message",
	"CreateMessageAndAddToMailbox": "message",
}

func lfFuncDeclName(fd *ast.FuncDecl) string {
	if fd.Recv != nil && len(fd.Recv.List) == 1 {
		t := fd.Recv.List[0].Type
		if s, ok := t.(*ast.StarExpr); ok {
			t = s.X
		}
		if id, ok := t.(*ast.Ident); ok {
			return id.Name + "." + fd.Name.Name
		}
	}
	return fd.Name.Name
}

// lfWalkStack calls visit(node, stack-of-ancestors) for every node below root.
func lfWalkStack(root ast.Node, visit func(n ast.Node, stack []ast.Node)) {
	var stack []ast.Node
	ast.Inspect(root, func(n ast.Node) bool {
		if n == nil {
			stack = stack[:len(stack)-1]
			return true
		}
		visit(n, stack)
		stack = append(stack, n)
		return true
	})
}

// lfParamType finds the declared type of a parameter called name in the innermost enclosing function.
func lfParamType(name string, stack []ast.Node) string {
	for i := len(stack) - 1; i >= 0; i-- {
		var ft *ast.FuncType
		switch f := stack[i].(type) {
		case *ast.FuncLit:
			ft = f.Type
		case *ast.FuncDecl:
			ft = f.Type
		}
		if ft == nil || ft.Params == nil {
			continue
		}
		for _, p := range ft.Params.List {
			for _, n := range p.Names {
				if n.Name == name {
					return types.ExprString(p.Type)
				}
			}
		}
	}
	return ""
}

// lfHandleKind classifies the receiver of a db call: tx (db.Transaction parameter), read (db.ReadOnly
// parameter), tx-field (a struct field called tx), or "".
func lfHandleKind(recv ast.Expr, stack []ast.Node) string {
	switch r := recv.(type) {
	case *ast.Ident:
		switch lfParamType(r.Name, stack) {
		case "db.Transaction":
			return "tx"
		case "db.ReadOnly":
			return "read"
		}
	case *ast.SelectorExpr:
		if r.Sel.Name == "tx" {
			return "tx-field"
		}
	}
	return ""
}

func factsLimits(c *factsCtx, outdir string) error {
	type checkSite struct {
		file, fn, method, ctx string
		line                  int
		args                  []string
		pos                   token.Pos
		lit                   ast.Node // innermost enclosing function literal / declaration
	}
	type insertSite struct {
		file, fn, call, kind, handle string
		line                         int
		localCheck                   bool
	}
	var checks []checkSite
	var inserts []insertSite
	create := struct {
		found                                bool
		checkCalls                           int
		checkArgBare, createInLoop, checkInLoop string
	}{checkArgBare: "unknown", createInLoop: "unknown", checkInLoop: "unknown"}

	for _, rel := range []string{"internal/state", "internal/backend"} {
		for _, f := range c.parseDir(rel) {
			for _, d := range f.Decls {
				fd, ok := d.(*ast.FuncDecl)
				if !ok || fd.Body == nil {
					continue
				}
				fn := lfFuncDeclName(fd)
				// definitions `x, ... := recv.M(...)` in this function: name -> (pos, handle kind)
				type def struct {
					pos  token.Pos
					kind string
					call string
				}
				defs := map[string][]def{}
				lfWalkStack(fd, func(n ast.Node, stack []ast.Node) {
					as, ok := n.(*ast.AssignStmt)
					if !ok || len(as.Rhs) != 1 {
						return
					}
					call, ok := as.Rhs[0].(*ast.CallExpr)
					if !ok {
						return
					}
					sel, ok := call.Fun.(*ast.SelectorExpr)
					if !ok {
						return
					}
					k := lfHandleKind(sel.X, append(stack, n))
					for _, l := range as.Lhs {
						if id, ok := l.(*ast.Ident); ok && id.Name != "_" && id.Name != "err" {
							defs[id.Name] = append(defs[id.Name], def{as.Pos(), k, sel.Sel.Name})
						}
					}
				})
				var fnChecks []checkSite
				lfWalkStack(fd, func(n ast.Node, stack []ast.Node) {
					call, ok := n.(*ast.CallExpr)
					if !ok {
						return
					}
					sel, ok := call.Fun.(*ast.SelectorExpr)
					if !ok {
						return
					}
					if _, ok := limitCheckMethods[sel.Sel.Name]; ok && strings.Contains(strings.ToLower(types.ExprString(sel.X)), "limits") {
						file, line := c.pos(call.Pos())
						s := checkSite{file: file, line: line, fn: fn, method: sel.Sel.Name, ctx: "unknown", pos: call.Pos()}
						for _, a := range call.Args {
							s.args = append(s.args, types.ExprString(a))
						}
						for i := len(stack) - 1; i >= 0; i-- {
							if _, ok := stack[i].(*ast.FuncLit); ok {
								s.lit = stack[i]
								break
							}
							if _, ok := stack[i].(*ast.FuncDecl); ok {
								s.lit = stack[i]
								break
							}
						}
						// where does the checked value come from?
						if len(call.Args) > 0 {
							// the first identifier of the checked expression that is defined from a call
							var id *ast.Ident
							ast.Inspect(call.Args[0], func(n ast.Node) bool {
								if x, ok := n.(*ast.Ident); ok && id == nil && len(defs[x.Name]) > 0 {
									id = x
								}
								return id == nil
							})
							if id != nil {
								var best *def
								for i := range defs[id.Name] {
									dd := defs[id.Name][i]
									if dd.pos < call.Pos() && (best == nil || dd.pos > best.pos) {
										best = &dd
									}
								}
								if best != nil {
									switch {
									case best.kind != "":
										s.ctx = best.kind
									case best.call == "Generate" || best.call == "GenerateUIDValidity":
										s.ctx = "none" // not a database value
									}
								}
							}
						}
						checks = append(checks, s)
						fnChecks = append(fnChecks, s)
					}
				})
				lfWalkStack(fd, func(n ast.Node, stack []ast.Node) {
					call, ok := n.(*ast.CallExpr)
					if !ok {
						return
					}
					sel, ok := call.Fun.(*ast.SelectorExpr)
					if !ok {
						return
					}
					kind, ok := limitInsertCalls[sel.Sel.Name]
					if !ok {
						return
					}
					h := lfHandleKind(sel.X, append(stack, n))
					if h == "" {
						return // connector / remote calls of the same name
					}
					file, line := c.pos(call.Pos())
					is := insertSite{file: file, line: line, fn: fn, call: sel.Sel.Name, kind: kind, handle: h}
					for _, cs := range fnChecks {
						if limitCheckMethods[cs.method] == kind && cs.pos < call.Pos() && cs.ctx != "read" && cs.ctx != "unknown" {
							is.localCheck = true
						}
					}
					inserts = append(inserts, is)
				})

				// shape of State.Create
				if rel == "internal/state" && fn == "State.Create" {
					create.found = true
					var loops []*ast.RangeStmt
					lfWalkStack(fd, func(n ast.Node, stack []ast.Node) {
						if rs, ok := n.(*ast.RangeStmt); ok {
							loops = append(loops, rs)
						}
					})
					inLoop := func(p token.Pos, onlyCreating bool) bool {
						for _, rs := range loops {
							if p >= rs.Body.Pos() && p <= rs.Body.End() {
								if !onlyCreating {
									return true
								}
								creating := false
								ast.Inspect(rs.Body, func(n ast.Node) bool {
									if call, ok := n.(*ast.CallExpr); ok && calleeName(call) == "actionCreateMailbox" {
										creating = true
									}
									return true
								})
								if creating {
									return true
								}
							}
						}
						return false
					}
					nCreate := 0
					lfWalkStack(fd, func(n ast.Node, stack []ast.Node) {
						call, ok := n.(*ast.CallExpr)
						if !ok {
							return
						}
						switch calleeName(call) {
						case "CheckMailBoxCount":
							create.checkCalls++
							if len(call.Args) == 1 {
								if _, ok := call.Args[0].(*ast.Ident); ok {
									create.checkArgBare = "true"
								} else {
									create.checkArgBare = "false"
								}
							}
							if inLoop(call.Pos(), true) {
								create.checkInLoop = "true"
							} else {
								create.checkInLoop = "false"
							}
						case "actionCreateMailbox":
							nCreate++
							if inLoop(call.Pos(), false) {
								create.createInLoop = "true"
							} else if create.createInLoop == "unknown" {
								create.createInLoop = "false"
							}
						}
					})
					if nCreate == 0 {
						create.createInLoop = "unknown"
					}
				}
			}
		}
	}
	sort.Slice(checks, func(i, j int) bool {
		if checks[i].file != checks[j].file {
			return checks[i].file < checks[j].file
		}
		return checks[i].line < checks[j].line
	})
	sort.Slice(inserts, func(i, j int) bool {
		if inserts[i].file != inserts[j].file {
			return inserts[i].file < inserts[j].file
		}
		return inserts[i].line < inserts[j].line
	})

	var b strings.Builder
	b.WriteString("namespace Gluon.Facts\n\n")
	b.WriteString("structure LimitCheckSite where\n  file : String\n  line : Nat\n  func : String\n  method : String\n  /-- handle the checked value was read from: \"tx\" (db.Transaction parameter), \"tx-field\" (transaction held in a struct),\n      \"read\" (db.ReadOnly parameter: a read transaction), \"none\" (not a database value), \"unknown\" -/\n  ctx : String\n  args : List String\nderiving DecidableEq, Repr\n\n")
	b.WriteString("/-- every `limits.IMAP.Check*` call in internal/state and internal/backend -/\ndef limitCheckSites : List LimitCheckSite := [\n")
	for i, s := range checks {
		sep := ","
		if i == len(checks)-1 {
			sep = ""
		}
		var as []string
		for _, a := range s.args {
			as = append(as, leanStr(a))
		}
		fmt.Fprintf(&b, "  { file := %s, line := %d, func := %s, method := %s, ctx := %s, args := [%s] }%s\n",
			leanStr(s.file), s.line, leanStr(s.fn), leanStr(s.method), leanStr(s.ctx), strings.Join(as, ", "), sep)
	}
	b.WriteString("]\n\n")
	b.WriteString("structure LimitInsertSite where\n  file : String\n  line : Nat\n  func : String\n  call : String\n  kind : String\n  handle : String\n  /-- a Check* call of the same kind, on a value read from a write transaction, precedes it in the same function -/\n  localCheck : Bool\nderiving DecidableEq, Repr\n\n")
	b.WriteString("/-- every call on a transaction handle that adds a mailbox or adds messages to a mailbox -/\ndef limitInsertSites : List LimitInsertSite := [\n")
	for i, s := range inserts {
		sep := ","
		if i == len(inserts)-1 {
			sep = ""
		}
		fmt.Fprintf(&b, "  { file := %s, line := %d, func := %s, call := %s, kind := %s, handle := %s, localCheck := %v }%s\n",
			leanStr(s.file), s.line, leanStr(s.fn), leanStr(s.call), leanStr(s.kind), leanStr(s.handle), s.localCheck, sep)
	}
	b.WriteString("]\n\n")
	b.WriteString("structure CreateShape where\n  found : Bool\n  checkCalls : Nat\n  /-- the checked value is the bare `GetMailboxCount()` result (nothing added for the mailboxes about to be created) -/\n  checkArgBare : Option Bool\n  /-- `actionCreateMailbox` is called in a loop (missing superiors + the named mailbox) -/\n  createInLoop : Option Bool\n  /-- the check is repeated inside that loop -/\n  checkInLoop : Option Bool\nderiving DecidableEq, Repr\n\n")
	fmt.Fprintf(&b, "/-- shape of `State.Create` (internal/state/state.go) -/\ndef stateCreateShape : CreateShape :=\n  { found := %v, checkCalls := %d, checkArgBare := %s, createInLoop := %s, checkInLoop := %s }\n\n",
		create.found, create.checkCalls, leanOptBool(create.checkArgBare), leanOptBool(create.createInLoop), leanOptBool(create.checkInLoop))
	b.WriteString("end Gluon.Facts\n")
	return writeLean(outdir, "Limits.lean", b.String())
}

func init() {
	factGens = append(factGens, factGen{"Limits", factsLimits})
}
