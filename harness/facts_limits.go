package main

// Facts/Limits.lean (C17): every limits.IMAP Check* call in internal/state and internal/backend
// with its enclosing function and the kind of database handle the checked value was read from;
// every mailbox / message insert call with whether the same function checks first; and the shape
// of State.Create (a check of the bare count, the list of missing superiors + the named mailbox, a check of
// count + len(list) - 1 after the list is complete and before the loop that creates them).
// For every Check* call also: which limits value it is called on (a configured `…imapLimits` field, a
// limits.IMAP parameter, or something else) and which quantity its second argument is (the literal 1, the
// length of a slice parameter of the function — the list that is then inserted —, or anything else =
// "unknown"); every argument passed for a limits.IMAP parameter of a function of these packages (the shared
// insertion helpers AddMessagesToMailbox / MoveMessagesFromMailbox, NewState, newUser …): a configured field,
// a pass-through parameter, limits.DefaultLimits() or something else; and per Mailbox method the number of
// write transactions it opens itself (a limit-checked multi-message operation is all-or-nothing because it is
// ONE transaction that is rolled back on refusal).

import (
	"fmt"
	"go/ast"
	"go/token"
	"go/types"
	"sort"
	"strings"
)

var limitCheckMethods = map[string]string{
	"CheckMailBoxCount":        "mailbox",
	"CheckMailBoxMessageCount": "message",
	"CheckUIDCount":            "uid",
	"CheckUIDValidity":         "uidvalidity",
}

// calls on a transaction handle that add mailboxes / messages to a mailbox
var limitInsertCalls = map[string]string{
	"CreateMailbox":                "mailbox",
	"CreateMailboxIfNotExists":     "mailbox",
	"GetOrCreateMailbox":           "mailbox",
	"AddMessagesToMailbox":         "message",
	"CreateMessageAndAddToMailbox": "message",
}

func lfFuncDeclName(fd *ast.FuncDecl) string {
	if fd.Recv != nil && len(fd.Recv.List) == 1 {
		t := fd.Recv.List[0].Type
		if s, ok := t.(*ast.StarExpr); ok {
			t = s.X
		}
		if id, ok := t.(*ast.Ident); ok {
			return id.Name + "." + fd.Name.Name
		}
	}
	return fd.Name.Name
}

// lfWalkStack calls visit(node, stack-of-ancestors) for every node below root.
func lfWalkStack(root ast.Node, visit func(n ast.Node, stack []ast.Node)) {
	var stack []ast.Node
	ast.Inspect(root, func(n ast.Node) bool {
		if n == nil {
			stack = stack[:len(stack)-1]
			return true
		}
		visit(n, stack)
		stack = append(stack, n)
		return true
	})
}

// lfParamType finds the declared type of a parameter called name in the innermost enclosing function.
func lfParamType(name string, stack []ast.Node) string {
	for i := len(stack) - 1; i >= 0; i-- {
		var ft *ast.FuncType
		switch f := stack[i].(type) {
		case *ast.FuncLit:
			ft = f.Type
		case *ast.FuncDecl:
			ft = f.Type
		}
		if ft == nil || ft.Params == nil {
			continue
		}
		for _, p := range ft.Params.List {
			for _, n := range p.Names {
				if n.Name == name {
					return types.ExprString(p.Type)
				}
			}
		}
	}
	return ""
}

// lfHandleKind classifies the receiver of a db call: tx (db.Transaction parameter), read (db.ReadOnly
// parameter), tx-field (a struct field called tx), or "".
func lfHandleKind(recv ast.Expr, stack []ast.Node) string {
	switch r := recv.(type) {
	case *ast.Ident:
		switch lfParamType(r.Name, stack) {
		case "db.Transaction":
			return "tx"
		case "db.ReadOnly":
			return "read"
		}
	case *ast.SelectorExpr:
		if r.Sel.Name == "tx" {
			return "tx-field"
		}
	}
	return ""
}

func factsLimits(c *factsCtx, outdir string) error {
	type checkSite struct {
		file, fn, method, ctx  string
		line                   int
		args                   []string
		pos                    token.Pos
		lit                    ast.Node // innermost enclosing function literal / declaration
		limitsExpr, limitsKind string
		quantity, quantityOf   string
	}
	type argSite struct {
		file, fn, callee, arg, kind string
		line                        int
	}
	type txShape struct {
		file, fn      string
		line          int
		writes, reads int
	}
	var argSites []argSite
	var txShapes []txShape
	// functions of the scanned packages with a limits.IMAP parameter: name -> (index of that parameter, number of parameters)
	type limParam struct{ idx, n int }
	limFuncs := map[string][]limParam{}
	scanDirs := []string{"internal/state", "internal/backend", "internal/session", "."}
	for _, rel := range scanDirs {
		for _, f := range c.parseDir(rel) {
			for _, d := range f.Decls {
				fd, ok := d.(*ast.FuncDecl)
				if !ok || fd.Type.Params == nil {
					continue
				}
				i := 0
				idx := -1
				for _, p := range fd.Type.Params.List {
					k := len(p.Names)
					if k == 0 {
						k = 1
					}
					if types.ExprString(p.Type) == "limits.IMAP" && idx < 0 {
						idx = i
					}
					i += k
				}
				if idx >= 0 {
					limFuncs[f.Name.Name+"."+fd.Name.Name] = append(limFuncs[f.Name.Name+"."+fd.Name.Name], limParam{idx, i})
				}
			}
		}
	}
	// classification of an expression that denotes a limits.IMAP value
	limitsKindOf := func(e ast.Expr, stack []ast.Node) string {
		switch x := e.(type) {
		case *ast.SelectorExpr:
			if x.Sel.Name == "imapLimits" {
				return "configured"
			}
		case *ast.Ident:
			if lfParamType(x.Name, stack) == "limits.IMAP" {
				return "param"
			}
		case *ast.CallExpr:
			if calleeName(x) == "DefaultLimits" {
				return "default"
			}
		}
		return "unknown"
	}
	for _, rel := range scanDirs {
		for _, f := range c.parseDir(rel) {
			for _, d := range f.Decls {
				fd, ok := d.(*ast.FuncDecl)
				if !ok || fd.Body == nil {
					continue
				}
				fn := lfFuncDeclName(fd)
				lfWalkStack(fd, func(n ast.Node, stack []ast.Node) {
					call, ok := n.(*ast.CallExpr)
					if !ok {
						return
					}
					// package-qualified callee: `F(…)` inside the package, `pkg.F(…)` from outside
					callee := ""
					switch fun := call.Fun.(type) {
					case *ast.Ident:
						callee = f.Name.Name + "." + fun.Name
					case *ast.SelectorExpr:
						if x, ok := fun.X.(*ast.Ident); ok {
							callee = x.Name + "." + fun.Sel.Name
						}
					}
					for _, lp := range limFuncs[callee] {
						if len(call.Args) != lp.n {
							continue
						}
						file, line := c.pos(call.Pos())
						a := call.Args[lp.idx]
						argSites = append(argSites, argSite{file: file, line: line, fn: fn, callee: callee, arg: types.ExprString(a), kind: limitsKindOf(a, append(stack, n))})
						break
					}
				})
				if rel == "internal/state" && strings.HasPrefix(fn, "Mailbox.") {
					ts := txShape{fn: fn}
					ts.file, ts.line = c.pos(fd.Pos())
					ast.Inspect(fd, func(n ast.Node) bool {
						if call, ok := n.(*ast.CallExpr); ok {
							switch calleeName(call) {
							case "stateDBWrite", "stateDBWriteResult":
								ts.writes++
							case "stateDBRead", "stateDBReadResult":
								ts.reads++
							}
						}
						return true
					})
					if ts.writes > 0 {
						txShapes = append(txShapes, ts)
					}
				}
			}
		}
	}
	sort.Slice(argSites, func(i, j int) bool {
		if argSites[i].file != argSites[j].file {
			return argSites[i].file < argSites[j].file
		}
		return argSites[i].line < argSites[j].line
	})
	sort.Slice(txShapes, func(i, j int) bool {
		if txShapes[i].file != txShapes[j].file {
			return txShapes[i].file < txShapes[j].file
		}
		return txShapes[i].line < txShapes[j].line
	})
	type insertSite struct {
		file, fn, call, kind, handle string
		line                         int
		localCheck                   bool
		what                         string // the last argument: the thing inserted
	}
	var checks []checkSite
	var inserts []insertSite
	create := struct {
		found                                   bool
		checkCalls                              int
		bareChecks, wholeListChecks         int
		createsOutsideLoop                  int
		createsBeforeWholeCheck             int
		countVar, loopOver                  string
		wholePlaced, createInLoop, checkInLoop string
	}{wholePlaced: "unknown", createInLoop: "unknown", checkInLoop: "unknown"}
	rename := lfRename{}

	for _, rel := range []string{"internal/state", "internal/backend"} {
		for _, f := range c.parseDir(rel) {
			for _, d := range f.Decls {
				fd, ok := d.(*ast.FuncDecl)
				if !ok || fd.Body == nil {
					continue
				}
				fn := lfFuncDeclName(fd)
				// definitions `x, ... := recv.M(...)` in this function: name -> (pos, handle kind)
				type def struct {
					pos  token.Pos
					kind string
					call string
				}
				defs := map[string][]def{}
				lfWalkStack(fd, func(n ast.Node, stack []ast.Node) {
					as, ok := n.(*ast.AssignStmt)
					if !ok || len(as.Rhs) != 1 {
						return
					}
					call, ok := as.Rhs[0].(*ast.CallExpr)
					if !ok {
						return
					}
					sel, ok := call.Fun.(*ast.SelectorExpr)
					if !ok {
						return
					}
					k := lfHandleKind(sel.X, append(stack, n))
					for _, l := range as.Lhs {
						if id, ok := l.(*ast.Ident); ok && id.Name != "_" && id.Name != "err" {
							defs[id.Name] = append(defs[id.Name], def{as.Pos(), k, sel.Sel.Name})
						}
					}
				})
				var fnChecks []checkSite
				lfWalkStack(fd, func(n ast.Node, stack []ast.Node) {
					call, ok := n.(*ast.CallExpr)
					if !ok {
						return
					}
					sel, ok := call.Fun.(*ast.SelectorExpr)
					if !ok {
						return
					}
					if _, ok := limitCheckMethods[sel.Sel.Name]; ok && strings.Contains(strings.ToLower(types.ExprString(sel.X)), "limits") {
						file, line := c.pos(call.Pos())
						s := checkSite{file: file, line: line, fn: fn, method: sel.Sel.Name, ctx: "unknown", pos: call.Pos()}
						for _, a := range call.Args {
							s.args = append(s.args, types.ExprString(a))
						}
						s.limitsExpr = types.ExprString(sel.X)
						s.limitsKind = limitsKindOf(sel.X, append(stack, n))
						s.quantity = "n/a"
						if sel.Sel.Name == "CheckMailBoxCount" && len(call.Args) == 1 {
							// the check refuses when its argument is >= the maximum: a bare count asks for room for one
							// more mailbox, `count + len(L) - 1` for room for len(L) more
							s.quantity = "unknown"
							if _, ok := call.Args[0].(*ast.Ident); ok {
								s.quantity = "one-more"
							} else if _, l, ok := lfCountPlusLenMinusOne(call.Args[0]); ok {
								s.quantity, s.quantityOf = "len-of-list-more", l
							} else if _, q, ok := lfCountPlusVarMinusOne(call.Args[0]); ok {
								// room for q more, q a local variable (State.Rename: see RenameShape for what q is)
								s.quantity, s.quantityOf = "var-more", q
							}
						}
						if len(call.Args) == 2 {
							s.quantity = "unknown"
							switch q := call.Args[1].(type) {
							case *ast.BasicLit:
								if q.Kind == token.INT && q.Value == "1" {
									s.quantity = "one"
								}
							case *ast.CallExpr:
								if id, ok := q.Fun.(*ast.Ident); ok && id.Name == "len" && len(q.Args) == 1 {
									if x, ok := q.Args[0].(*ast.Ident); ok && strings.HasPrefix(lfParamType(x.Name, append(stack, n)), "[]") {
										s.quantity, s.quantityOf = "len-of-param", x.Name
									}
								}
							}
						}
						for i := len(stack) - 1; i >= 0; i-- {
							if _, ok := stack[i].(*ast.FuncLit); ok {
								s.lit = stack[i]
								break
							}
							if _, ok := stack[i].(*ast.FuncDecl); ok {
								s.lit = stack[i]
								break
							}
						}
						// where does the checked value come from?
						if len(call.Args) > 0 {
							// the first identifier of the checked expression that is defined from a call
							var id *ast.Ident
							ast.Inspect(call.Args[0], func(n ast.Node) bool {
								if x, ok := n.(*ast.Ident); ok && id == nil && len(defs[x.Name]) > 0 {
									id = x
								}
								return id == nil
							})
							if id != nil {
								var best *def
								for i := range defs[id.Name] {
									dd := defs[id.Name][i]
									if dd.pos < call.Pos() && (best == nil || dd.pos > best.pos) {
										best = &dd
									}
								}
								if best != nil {
									switch {
									case best.kind != "":
										s.ctx = best.kind
									case best.call == "Generate" || best.call == "GenerateUIDValidity":
										s.ctx = "none" // not a database value
									}
								}
							}
						}
						checks = append(checks, s)
						fnChecks = append(fnChecks, s)
					}
				})
				lfWalkStack(fd, func(n ast.Node, stack []ast.Node) {
					call, ok := n.(*ast.CallExpr)
					if !ok {
						return
					}
					sel, ok := call.Fun.(*ast.SelectorExpr)
					if !ok {
						return
					}
					kind, ok := limitInsertCalls[sel.Sel.Name]
					if !ok {
						return
					}
					h := lfHandleKind(sel.X, append(stack, n))
					if h == "" {
						return // connector / remote calls of the same name
					}
					file, line := c.pos(call.Pos())
					is := insertSite{file: file, line: line, fn: fn, call: sel.Sel.Name, kind: kind, handle: h}
					if len(call.Args) > 0 {
						is.what = types.ExprString(call.Args[len(call.Args)-1])
					}
					for _, cs := range fnChecks {
						if limitCheckMethods[cs.method] == kind && cs.pos < call.Pos() && cs.ctx != "read" && cs.ctx != "unknown" {
							is.localCheck = true
						}
					}
					inserts = append(inserts, is)
				})

				// shape of State.Rename
				if rel == "internal/state" && fn == "State.Rename" {
					lfRenameShape(fd, &rename)
				}

				// shape of State.Create
				if rel == "internal/state" && fn == "State.Create" {
					create.found = true
					var loops []*ast.RangeStmt
					lfWalkStack(fd, func(n ast.Node, stack []ast.Node) {
						if rs, ok := n.(*ast.RangeStmt); ok {
							loops = append(loops, rs)
						}
					})
					inLoop := func(p token.Pos, onlyCreating bool) bool {
						for _, rs := range loops {
							if p >= rs.Body.Pos() && p <= rs.Body.End() {
								if !onlyCreating {
									return true
								}
								creating := false
								ast.Inspect(rs.Body, func(n ast.Node) bool {
									if call, ok := n.(*ast.CallExpr); ok && calleeName(call) == "actionCreateMailbox" {
										creating = true
									}
									return true
								})
								if creating {
									return true
								}
							}
						}
						return false
					}
					// the variable holding tx.GetMailboxCount(), the slice the creating loop ranges over, the last
					// statement that appends to that slice
					var creatingLoop *ast.RangeStmt
					for _, rs := range loops {
						creating := false
						ast.Inspect(rs.Body, func(n ast.Node) bool {
							if call, ok := n.(*ast.CallExpr); ok && calleeName(call) == "actionCreateMailbox" {
								creating = true
							}
							return true
						})
						if creating && creatingLoop == nil {
							creatingLoop = rs
							if id, ok := rs.X.(*ast.Ident); ok {
								create.loopOver = id.Name
							}
						}
					}
					var lastAppend token.Pos
					ast.Inspect(fd, func(n ast.Node) bool {
						as, ok := n.(*ast.AssignStmt)
						if !ok || len(as.Lhs) == 0 || len(as.Rhs) != 1 {
							return true
						}
						lhs, ok := as.Lhs[0].(*ast.Ident)
						if !ok {
							return true
						}
						if call, ok := as.Rhs[0].(*ast.CallExpr); ok {
							if calleeName(call) == "GetMailboxCount" {
								create.countVar = lhs.Name
							}
							if id, ok := call.Fun.(*ast.Ident); ok && id.Name == "append" && create.loopOver != "" && lhs.Name == create.loopOver && as.End() > lastAppend {
								lastAppend = as.End()
							}
						}
						return true
					})
					var wholeCheckPos token.Pos
					nCreate := 0
					lfWalkStack(fd, func(n ast.Node, stack []ast.Node) {
						call, ok := n.(*ast.CallExpr)
						if !ok {
							return
						}
						switch calleeName(call) {
						case "CheckMailBoxCount":
							create.checkCalls++
							if len(call.Args) == 1 {
								if id, ok := call.Args[0].(*ast.Ident); ok && id.Name == create.countVar {
									create.bareChecks++
								} else if cv, l, ok := lfCountPlusLenMinusOne(call.Args[0]); ok && cv == create.countVar && l == create.loopOver && l != "" {
									create.wholeListChecks++
									wholeCheckPos = call.Pos()
									if creatingLoop != nil && lastAppend != token.NoPos && call.Pos() > lastAppend && call.End() < creatingLoop.Pos() {
										create.wholePlaced = "true"
									} else {
										create.wholePlaced = "false"
									}
								}
							}
							if inLoop(call.Pos(), true) {
								create.checkInLoop = "true"
							} else {
								create.checkInLoop = "false"
							}
						case "actionCreateMailbox":
							nCreate++
							if creatingLoop == nil || call.Pos() < creatingLoop.Body.Pos() || call.Pos() > creatingLoop.Body.End() {
								create.createsOutsideLoop++
							}
							if wholeCheckPos == token.NoPos || call.Pos() < wholeCheckPos {
								create.createsBeforeWholeCheck++
							}
							if inLoop(call.Pos(), false) {
								create.createInLoop = "true"
							} else if create.createInLoop == "unknown" {
								create.createInLoop = "false"
							}
						}
					})
					if nCreate == 0 {
						create.createInLoop = "unknown"
					}
				}
			}
		}
	}
	sort.Slice(checks, func(i, j int) bool {
		if checks[i].file != checks[j].file {
			return checks[i].file < checks[j].file
		}
		return checks[i].line < checks[j].line
	})
	sort.Slice(inserts, func(i, j int) bool {
		if inserts[i].file != inserts[j].file {
			return inserts[i].file < inserts[j].file
		}
		return inserts[i].line < inserts[j].line
	})

	var b strings.Builder
	b.WriteString("namespace Gluon.Facts\n\n")
	b.WriteString("structure LimitCheckSite where\n  file : String\n  line : Nat\n  func : String\n  method : String\n  /-- handle the checked value was read from: \"tx\" (db.Transaction parameter), \"tx-field\" (transaction held in a struct),\n      \"read\" (db.ReadOnly parameter: a read transaction), \"none\" (not a database value), \"unknown\" -/\n  ctx : String\n  args : List String\n  /-- the limits value the check is called on, and its kind: \"configured\" (a field `….imapLimits`, set from gluon.WithIMAPLimits),\n      \"param\" (a limits.IMAP parameter of the function), \"default\" (limits.DefaultLimits()), \"unknown\" -/\n  limits : String\n  limitsKind : String\n  /-- how many are about to be added.  Two-argument checks: \"one\" (the literal 1), \"len-of-param\" (`len(p)` of the slice\n      parameter `quantityOf` of the function).  `CheckMailBoxCount(x)` (refuses when x >= maximum): \"one-more\" (x is a bare count),\n      \"len-of-list-more\" (x is `count + len(L) - 1`, L = `quantityOf`).  \"n/a\" (CheckUIDValidity), \"unknown\" (anything else) -/\n  quantity : String\n  quantityOf : String\nderiving DecidableEq, Repr\n\n")
	b.WriteString("/-- every `limits.IMAP.Check*` call in internal/state and internal/backend -/\ndef limitCheckSites : List LimitCheckSite := [\n")
	for i, s := range checks {
		sep := ","
		if i == len(checks)-1 {
			sep = ""
		}
		var as []string
		for _, a := range s.args {
			as = append(as, leanStr(a))
		}
		fmt.Fprintf(&b, "  { file := %s, line := %d, func := %s, method := %s, ctx := %s, args := [%s],\n    limits := %s, limitsKind := %s, quantity := %s, quantityOf := %s }%s\n",
			leanStr(s.file), s.line, leanStr(s.fn), leanStr(s.method), leanStr(s.ctx), strings.Join(as, ", "),
			leanStr(s.limitsExpr), leanStr(s.limitsKind), leanStr(s.quantity), leanStr(s.quantityOf), sep)
	}
	b.WriteString("]\n\n")
	b.WriteString("structure LimitInsertSite where\n  file : String\n  line : Nat\n  func : String\n  call : String\n  kind : String\n  handle : String\n  /-- a Check* call of the same kind, on a value read from a write transaction, precedes it in the same function -/\n  localCheck : Bool\n  /-- the last argument of the call: what is inserted -/\n  what : String\nderiving DecidableEq, Repr\n\n")
	b.WriteString("/-- every call on a transaction handle that adds a mailbox or adds messages to a mailbox -/\ndef limitInsertSites : List LimitInsertSite := [\n")
	for i, s := range inserts {
		sep := ","
		if i == len(inserts)-1 {
			sep = ""
		}
		fmt.Fprintf(&b, "  { file := %s, line := %d, func := %s, call := %s, kind := %s, handle := %s, localCheck := %v, what := %s }%s\n",
			leanStr(s.file), s.line, leanStr(s.fn), leanStr(s.call), leanStr(s.kind), leanStr(s.handle), s.localCheck, leanStr(s.what), sep)
	}
	b.WriteString("]\n\n")
	b.WriteString("structure CreateShape where\n  found : Bool\n  checkCalls : Nat\n  /-- the variable holding `tx.GetMailboxCount()` and the slice the creating loop ranges over -/\n  countVar : String\n  loopOver : String\n  /-- checks of the bare count (room for one more mailbox) -/\n  bareChecks : Nat\n  /-- checks of `countVar + len(loopOver) - 1` (room for every mailbox of the list) -/\n  wholeListChecks : Nat\n  /-- that check stands after the last `append` to the list and before the creating loop -/\n  wholeCheckAfterListBeforeLoop : Option Bool\n  /-- `actionCreateMailbox` calls (they tell the connector) outside the creating loop / textually before the whole-list check -/\n  createsOutsideLoop : Nat\n  createsBeforeWholeCheck : Nat\n  /-- `actionCreateMailbox` is called in a loop (missing superiors + the named mailbox) -/\n  createInLoop : Option Bool\n  /-- the check is repeated inside that loop -/\n  checkInLoop : Option Bool\nderiving DecidableEq, Repr\n\n")
	fmt.Fprintf(&b, "/-- shape of `State.Create` (internal/state/state.go) -/\ndef stateCreateShape : CreateShape :=\n  { found := %v, checkCalls := %d, countVar := %s, loopOver := %s, bareChecks := %d, wholeListChecks := %d,\n    wholeCheckAfterListBeforeLoop := %s, createsOutsideLoop := %d, createsBeforeWholeCheck := %d,\n    createInLoop := %s, checkInLoop := %s }\n\n",
		create.found, create.checkCalls, leanStr(create.countVar), leanStr(create.loopOver), create.bareChecks, create.wholeListChecks,
		leanOptBool(create.wholePlaced), create.createsOutsideLoop, create.createsBeforeWholeCheck,
		leanOptBool(create.createInLoop), leanOptBool(create.checkInLoop))
	b.WriteString("structure RenameShape where\n  found : Bool\n  checkCalls : Nat\n  /-- the variable holding `tx.GetMailboxCount()`, the slice of missing superiors the creating loop ranges over, the variable counting the mailboxes about to be created -/\n  countVar : String\n  loopOver : String\n  quantityVar : String\n  /-- `quantityVar := len(loopOver)` -/\n  quantityIsLenOfList : Bool\n  /-- `if oldName == imap.Inbox { quantityVar++ }` (renameInbox creates one mailbox more), and nothing else assigns to quantityVar -/\n  inboxCountsOneMore : Bool\n  otherQuantityWrites : Nat\n  /-- the one check is `CheckMailBoxCount(countVar + quantityVar - 1)` -/\n  checkArgIsCountPlusQuantityMinusOne : Bool\n  /-- it stands inside `if quantityVar > 0 { … }` -/\n  guardedByQuantityPositive : Bool\n  /-- after the last `append` to the list and before the creating loop -/\n  checkAfterListBeforeLoop : Bool\n  /-- calls that create or rename something or tell the connector (CreateMailbox, CreateMailboxIfNotExists, renameInbox, actionUpdateMailbox, RenameMailboxWithRemoteID) textually before the check -/\n  effectsBeforeCheck : Nat\n  /-- such calls in total (non-zero: the function was understood) -/\n  effects : Nat\nderiving DecidableEq, Repr\n\n")
	fmt.Fprintf(&b, "/-- shape of `State.Rename` (internal/state/state.go) -/\ndef stateRenameShape : RenameShape :=\n  { found := %v, checkCalls := %d, countVar := %s, loopOver := %s, quantityVar := %s, quantityIsLenOfList := %v,\n    inboxCountsOneMore := %v, otherQuantityWrites := %d, checkArgIsCountPlusQuantityMinusOne := %v, guardedByQuantityPositive := %v,\n    checkAfterListBeforeLoop := %v, effectsBeforeCheck := %d, effects := %d }\n\n",
		rename.found, rename.checkCalls, leanStr(rename.countVar), leanStr(rename.loopOver), leanStr(rename.quantityVar), rename.qIsLen,
		rename.inboxInc, rename.otherWrites, rename.argOK, rename.guarded, rename.placed, rename.effectsBefore, rename.effects)
	b.WriteString("structure LimitArgSite where\n  file : String\n  line : Nat\n  func : String\n  callee : String\n  arg : String\n  /-- \"configured\" (a field `….imapLimits`), \"param\" (passed through), \"default\" (limits.DefaultLimits()), \"unknown\" -/\n  kind : String\nderiving DecidableEq, Repr\n\n")
	b.WriteString("/-- every argument passed for a `limits.IMAP` parameter of a function of internal/state, internal/backend,\n    internal/session and the root package -/\ndef limitArgSites : List LimitArgSite := [\n")
	for i, s := range argSites {
		sep := ","
		if i == len(argSites)-1 {
			sep = ""
		}
		fmt.Fprintf(&b, "  { file := %s, line := %d, func := %s, callee := %s, arg := %s, kind := %s }%s\n",
			leanStr(s.file), s.line, leanStr(s.fn), leanStr(s.callee), leanStr(s.arg), leanStr(s.kind), sep)
	}
	b.WriteString("]\n\n")
	b.WriteString("structure MailboxTxShape where\n  file : String\n  line : Nat\n  func : String\n  /-- `stateDBWrite` / `stateDBWriteResult` calls in the method's own body -/\n  writes : Nat\n  /-- `stateDBRead` / `stateDBReadResult` calls -/\n  reads : Nat\nderiving DecidableEq, Repr\n\n")
	b.WriteString("/-- the `Mailbox` methods (internal/state) that open a write transaction -/\ndef mailboxTxShapes : List MailboxTxShape := [\n")
	for i, s := range txShapes {
		sep := ","
		if i == len(txShapes)-1 {
			sep = ""
		}
		fmt.Fprintf(&b, "  { file := %s, line := %d, func := %s, writes := %d, reads := %d }%s\n", leanStr(s.file), s.line, leanStr(s.fn), s.writes, s.reads, sep)
	}
	b.WriteString("]\n\n")
	b.WriteString("end Gluon.Facts\n")
	return writeLean(outdir, "Limits.lean", b.String())
}

func init() {
	factGens = append(factGens, factGen{"Limits", factsLimits})
}

// lfCountPlusLenMinusOne recognises `c + len(L) - 1` (c, L identifiers) and returns c and L.
func lfCountPlusLenMinusOne(e ast.Expr) (string, string, bool) {
	sub, ok := e.(*ast.BinaryExpr)
	if !ok || sub.Op != token.SUB {
		return "", "", false
	}
	if one, ok := sub.Y.(*ast.BasicLit); !ok || one.Kind != token.INT || one.Value != "1" {
		return "", "", false
	}
	add, ok := sub.X.(*ast.BinaryExpr)
	if !ok || add.Op != token.ADD {
		return "", "", false
	}
	c, ok := add.X.(*ast.Ident)
	if !ok {
		return "", "", false
	}
	ln, ok := add.Y.(*ast.CallExpr)
	if !ok || len(ln.Args) != 1 {
		return "", "", false
	}
	if id, ok := ln.Fun.(*ast.Ident); !ok || id.Name != "len" {
		return "", "", false
	}
	l, ok := ln.Args[0].(*ast.Ident)
	if !ok {
		return "", "", false
	}
	return c.Name, l.Name, true
}

// lfCountPlusVarMinusOne recognises `c + q - 1` (c, q identifiers) and returns c and q.
func lfCountPlusVarMinusOne(e ast.Expr) (string, string, bool) {
	sub, ok := e.(*ast.BinaryExpr)
	if !ok || sub.Op != token.SUB {
		return "", "", false
	}
	if one, ok := sub.Y.(*ast.BasicLit); !ok || one.Kind != token.INT || one.Value != "1" {
		return "", "", false
	}
	add, ok := sub.X.(*ast.BinaryExpr)
	if !ok || add.Op != token.ADD {
		return "", "", false
	}
	c, ok1 := add.X.(*ast.Ident)
	q, ok2 := add.Y.(*ast.Ident)
	if !ok1 || !ok2 {
		return "", "", false
	}
	return c.Name, q.Name, true
}

type lfRename struct {
	found                                  bool
	checkCalls, otherWrites                int
	effectsBefore, effects                 int
	countVar, loopOver, quantityVar        string
	qIsLen, inboxInc, argOK, guarded, placed bool
}

var lfRenameEffects = map[string]bool{"CreateMailbox": true, "CreateMailboxIfNotExists": true, "renameInbox": true,
	"actionUpdateMailbox": true, "RenameMailboxWithRemoteID": true}

// lfRenameShape reads the shape of State.Rename: the list of missing superiors, the loop creating them, the
// quantity variable (len of the list, one more for INBOX) and the one CheckMailBoxCount call.
func lfRenameShape(fd *ast.FuncDecl, r *lfRename) {
	r.found = true
	// the creating loop: a range loop whose body calls CreateMailboxIfNotExists
	var loop *ast.RangeStmt
	ast.Inspect(fd, func(n ast.Node) bool {
		if rs, ok := n.(*ast.RangeStmt); ok && loop == nil {
			creating := false
			ast.Inspect(rs.Body, func(m ast.Node) bool {
				if call, ok := m.(*ast.CallExpr); ok && calleeName(call) == "CreateMailboxIfNotExists" {
					creating = true
				}
				return true
			})
			if creating {
				loop = rs
				if id, ok := rs.X.(*ast.Ident); ok {
					r.loopOver = id.Name
				}
			}
		}
		return true
	})
	// the check and its argument
	var check *ast.CallExpr
	ast.Inspect(fd, func(n ast.Node) bool {
		if call, ok := n.(*ast.CallExpr); ok && calleeName(call) == "CheckMailBoxCount" {
			r.checkCalls++
			check = call
		}
		return true
	})
	if check != nil && len(check.Args) == 1 {
		if c, q, ok := lfCountPlusVarMinusOne(check.Args[0]); ok {
			r.countVar, r.quantityVar, r.argOK = c, q, true
		}
	}
	var lastAppend token.Pos
	countFromDB := false
	ast.Inspect(fd, func(n ast.Node) bool {
		switch x := n.(type) {
		case *ast.AssignStmt:
			if len(x.Lhs) == 0 || len(x.Rhs) != 1 {
				return true
			}
			lhs, ok := x.Lhs[0].(*ast.Ident)
			if !ok {
				return true
			}
			call, isCall := x.Rhs[0].(*ast.CallExpr)
			if isCall && calleeName(call) == "GetMailboxCount" && lhs.Name == r.countVar {
				countFromDB = true
			}
			if isCall {
				if id, ok := call.Fun.(*ast.Ident); ok && id.Name == "append" && r.loopOver != "" && lhs.Name == r.loopOver && x.End() > lastAppend {
					lastAppend = x.End()
				}
			}
			if r.quantityVar != "" && lhs.Name == r.quantityVar {
				isLen := false
				if isCall {
					if id, ok := call.Fun.(*ast.Ident); ok && id.Name == "len" && len(call.Args) == 1 {
						if a, ok := call.Args[0].(*ast.Ident); ok && a.Name == r.loopOver && r.loopOver != "" && x.Tok == token.DEFINE {
							isLen = true
						}
					}
				}
				if isLen && !r.qIsLen {
					r.qIsLen = true
				} else {
					r.otherWrites++
				}
			}
		case *ast.IfStmt:
			// if oldName == imap.Inbox { q++ }
			if x.Init == nil && x.Else == nil && len(x.Body.List) == 1 && types.ExprString(x.Cond) == "oldName == imap.Inbox" {
				if inc, ok := x.Body.List[0].(*ast.IncDecStmt); ok && inc.Tok == token.INC {
					if id, ok := inc.X.(*ast.Ident); ok && id.Name == r.quantityVar && r.quantityVar != "" {
						r.inboxInc = true
						return false
					}
				}
			}
			// if q > 0 { ... check ... }
			if check != nil && x.Init == nil && x.Else == nil && r.quantityVar != "" && types.ExprString(x.Cond) == r.quantityVar+" > 0" &&
				check.Pos() >= x.Body.Pos() && check.End() <= x.Body.End() {
				r.guarded = true
			}
		case *ast.IncDecStmt:
			if id, ok := x.X.(*ast.Ident); ok && id.Name == r.quantityVar && r.quantityVar != "" {
				r.otherWrites++
			}
		}
		return true
	})
	if !countFromDB {
		r.countVar = ""
	}
	if check != nil && loop != nil && lastAppend != token.NoPos && check.Pos() > lastAppend && check.End() < loop.Pos() {
		r.placed = true
	}
	ast.Inspect(fd, func(n ast.Node) bool {
		if call, ok := n.(*ast.CallExpr); ok && lfRenameEffects[calleeName(call)] {
			r.effects++
			if check == nil || call.Pos() < check.Pos() {
				r.effectsBefore++
			}
		}
		return true
	})
}
