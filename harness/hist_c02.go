package main

// C02 additions to the history runner (hist.go): steps and online patterns for two classes of histories the
// plain random generator practically never produces.
//
// BURST / STALL. A session takes updates from its queue (async.QueuedChannel: a slice of queued items, a consumer
// goroutine, a channel with a buffer of 32) only between two commands. `S<i> STALL <command>` sends a command whose
// answer is larger than what the socket buffers take (a FETCH of some MiB) and does not read it: the session sits
// in conn.Write inside the command, the channel buffer fills up, the consumer goroutine blocks with the rest in its
// hands, and everything committed meanwhile piles up behind. Other sessions then commit WAVES of changes of
// growing size (sizes around the channel buffer 32 and the initial queue capacity 128 and their multiples: mass
// EXPUNGE / MOVE = one Enqueue call with k updates, k single STOREs / APPENDs = k Enqueue calls with one update),
// `S<i> UNSTALL` reads the answer, and at quiescence the view must equal a fresh session's. (The hold hook X HOLD
// cannot produce this: it diverts updates BEFORE they reach the queue, so the queue never holds more than one
// released batch, and a replay with X HOLD is classified as the known own-update-overtakes finding.)
//
// BATCH (shared objects). Several messages created by ONE operation with identical flags (COPY n:m onto the
// selected or another mailbox, MOVE n:m, a connector MessagesCreated batch), then ONE of them is changed in place
// in ONE session (a non-PEEK body fetch sets \Seen in the fetching session's snapshot; a STORE), while other
// sessions still have the batch's EXISTS pending and flush it only afterwards; then every view is compared with a
// fresh session's. This generalises the `STORE 1:* FLAGS` + FETCH BODY[] pattern of GenStep to every operation
// that creates more than one message.

import (
	"fmt"
	"strings"
	"time"

	"github.com/ProtonMail/gluon/imap"
)

// ---- steps ----------------------------------------------------------------------------------

func (h *HistRunner) c02AnyStalled() bool {
	for _, s := range h.sess {
		if s != nil && s.stalled {
			return true
		}
	}
	return false
}

func (h *HistRunner) c02Unstall(s *HistSession) error {
	if !s.stalled {
		return nil
	}
	rep := s.c.readReply(s.stallTag)
	s.stalled = false
	if rep.Err != nil {
		return fmt.Errorf("S%d UNSTALL: %w", s.idx, rep.Err)
	}
	h.feed(s, s.stallKind, rep.Untagged)
	return nil
}

func (h *HistRunner) c02UnstallAll() error {
	for _, s := range h.sess {
		if s != nil && s.stalled {
			if err := h.c02Unstall(s); err != nil {
				return err
			}
		}
	}
	return nil
}

// c02ExecStall handles STALL / UNSTALL and the implicit UNSTALL in front of any other step of a stalled session.
// done = the step is finished.
func (h *HistRunner) c02ExecStall(s *HistSession, op string, args []string) (done bool, err error) {
	if s.stalled {
		if err := h.c02Unstall(s); err != nil {
			return true, err
		}
	}
	switch op {
	case "UNSTALL":
		return true, nil
	case "STALL":
		if s.idle || s.selected == "" || len(args) == 0 {
			return true, nil
		}
		// the session's view is brought up to date with what is queued so far: what the stalled command holds back
		// is exactly what is committed from now on
		if !h.racy && !h.c02AnyStalled() {
			if err := h.quiesceStates(); err != nil {
				return true, err
			}
		}
		line := strings.Join(args, " ")
		s.c.tagN++
		tag := fmt.Sprintf("%s%d", s.c.Name, s.c.tagN)
		_ = s.c.conn.SetWriteDeadline(time.Now().Add(s.c.Timeout))
		if _, err := s.c.conn.Write([]byte(tag + " " + line + "\r\n")); err != nil {
			return true, err
		}
		// the first byte of the answer: the command is being executed (from here until its last byte is written the
		// session does not look at its update channel)
		_ = s.c.conn.SetReadDeadline(time.Now().Add(5 * time.Second))
		_, _ = s.c.r.Peek(1)
		s.stalled, s.stallTag, s.stallKind = true, tag, cmdKind(line)
		h.stats["c02.stall"]++
		return true, nil
	}
	return false, nil
}

// c02ExecBulk: `C BULK <id> <mbox> <count> <flags|-> [<KiB>]`: one connector MessagesCreated batch of <count> messages
// b<id>x<k> (every message with its own flag set object), each padded to <KiB> KiB.
func (h *HistRunner) c02ExecBulk(f []string) error {
	if len(f) < 6 {
		return fmt.Errorf("bad connector step %v", f)
	}
	id, mb, count := f[2], f[3], atoi(f[4])
	kib := 0
	if len(f) > 6 {
		kib = atoi(f[6])
	}
	var pad string
	if kib > 0 {
		line := strings.Repeat("0123456789abcdefghijklmnopqrstuvwxyzABCDEFGHIJKLMNOPQRSTUVWXYZ.,", 1) + "\r\n"
		pad = strings.Repeat(line, kib*1024/len(line))
	}
	var (
		msgs  []imap.Message
		lits  [][]byte
		boxes [][]imap.MailboxID
	)
	for k := 0; k < count; k++ {
		marker := fmt.Sprintf("b%sx%d", id, k)
		flags := imap.NewFlagSet()
		if f[5] != "-" {
			flags = imap.NewFlagSet(strings.Split(f[5], ",")...)
		}
		msgs = append(msgs, imap.Message{ID: imap.MessageID(marker), Flags: flags, Date: time.Unix(1136214245, 0).UTC()})
		lits = append(lits, SimpleMessage(marker, "body of "+marker+"\r\n"+pad))
		boxes = append(boxes, []imap.MailboxID{mboxID(mb)})
		h.where[marker] = []string{mb}
		if k < 3 {
			h.cmarkers = append(h.cmarkers, marker) // later connector steps may change single members of the batch
		}
	}
	err := h.sys.Conn.MessagesCreated(msgs, lits, boxes)
	h.sys.Conn.Flush()
	h.stats["c02.bulk"]++
	return err
}

// ---- patterns ---------------------------------------------------------------------------------

// c02WaveSizes: boundary values around the update channel's buffer (32), the queue's initial capacity (128) and the
// sizes a Go slice grows through; a wave is committed while the observer is stalled.
var c02WaveSizes = []int{1, 2, 3, 8, 16, 31, 32, 33, 34, 40, 48, 63, 64, 65, 66, 80, 96, 100, 127, 128, 129, 130, 160, 200}

const (
	c02BigCount = 16  // messages of the stalled FETCH
	c02BigKiB   = 512 // 8 MiB in all: a loopback socket pair takes ~4 MiB (tcp_wmem max) before the writer blocks
)

func (h *HistRunner) c02PatternStep(r *Rng, nsess int, profile string) string {
	if h.pattern != nil {
		if st := h.pattern(r); st != "" {
			return st
		}
		h.pattern = nil
	}
	for i := 0; i < nsess; i++ {
		if h.session(i) == nil {
			return ""
		}
	}
	if h.patternsRun == nil {
		h.patternsRun = map[string]int{}
	}
	start := func(name string, p func(r *Rng) string) string {
		h.patternsRun[name]++
		h.stats["c02.pattern."+name]++
		h.pattern = p
		if st := h.pattern(r); st != "" {
			return st
		}
		h.pattern = nil
		return ""
	}
	// profile tokens burst / batch: once per history, early enough to finish within the step budget; without a token
	// the cheap batch pattern still turns up now and then in every history
	if strings.Contains(profile, "burst") && h.patternsRun["burst"] == 0 && (len(h.steps) >= 6+nsess*2 && r.Chance(1, 6) || len(h.steps) >= 30) {
		return start("burst", h.c02BurstPattern(r, nsess))
	}
	if strings.Contains(profile, "batch") && h.patternsRun["batch"] < 2 && (len(h.steps) >= 4+nsess*2 && r.Chance(1, 8) || len(h.steps) >= 30 && h.patternsRun["batch"] == 0) {
		return start("batch", h.c02BatchPattern(r, nsess))
	}
	if strings.Contains(profile, "stale") && h.patternsRun["stale"] < 4 && (len(h.steps) >= 4+nsess*2 && r.Chance(1, 5) || len(h.steps) >= 30 && h.patternsRun["stale"] == 0) {
		return start("stale", h.c02StalePattern(r, nsess))
	}
	if !strings.Contains(profile, "burst") && len(h.steps) >= 8 && r.Chance(1, 90) {
		return start("batch", h.c02BatchPattern(r, nsess))
	}
	return ""
}

// c02Ready: steps that bring session i into the state "mailbox mb selected read-write, not idling, not held".
func (h *HistRunner) c02Ready(i int, mb string, rw bool) []string {
	s := h.session(i)
	var out []string
	if s == nil {
		out = append(out, fmt.Sprintf("S%d LOGIN", i))
		return append(out, fmt.Sprintf("S%d SELECT %s", i, mb))
	}
	if s.held {
		out = append(out, fmt.Sprintf("X RELEASE %d -1", i))
	}
	if s.idle {
		out = append(out, fmt.Sprintf("S%d DONE", i))
	}
	if s.selected != mb || (rw && s.readOnly) {
		out = append(out, fmt.Sprintf("S%d SELECT %s", i, mb))
	}
	return out
}

// c02Seq runs a list of stages; a stage is called when the steps of the previous one have been executed, so it
// sees the sessions' mirrors as they are then, and returns the next steps (empty: skip the stage, nil: give up).
func c02Seq(stages ...func(r *Rng) []string) func(r *Rng) string {
	var queue []string
	k := 0
	return func(r *Rng) string {
		for len(queue) == 0 {
			if k >= len(stages) {
				return ""
			}
			queue = stages[k](r)
			k++
			if queue == nil {
				k = len(stages)
			}
		}
		st := queue[0]
		queue = queue[1:]
		return st
	}
}

func (h *HistRunner) c02OtherMailbox(r *Rng, not string) string {
	for {
		if mb := Pick(r, h.mboxes); mb != not {
			return mb
		}
	}
}

// c02BurstPattern: observer stalled inside a large FETCH, 2..3 waves of growing size committed by another session,
// observer released, quiescence, comparison with a fresh session.
func (h *HistRunner) c02BurstPattern(r *Rng, nsess int) func(r *Rng) string {
	o := r.Intn(nsess)
	total := max(nsess, 2) // nsess == 1: an extra session S1 is the actor
	a := (o + 1 + r.Intn(total-1)) % total
	mb := "INBOX"
	if s := h.session(o); s != nil && s.selected != "" && r.Chance(2, 3) {
		mb = s.selected
	}
	type wave struct {
		kind string
		k    int
	}
	var waves []wave
	nw := r.Range(2, 3)
	lo := 0
	for w := 0; w < nw; w++ {
		var cand []int
		for _, x := range c02WaveSizes {
			// growing; the first wave mostly just beyond the channel buffer, the whole thing bounded
			if x > lo && (w > 0 || x <= 130) && x <= 200 {
				cand = append(cand, x)
			}
		}
		if len(cand) == 0 {
			break
		}
		if len(cand) > 8 {
			cand = cand[:8]
		}
		k := Pick(r, cand)
		if w == 0 && r.Chance(1, 2) {
			k = Pick(r, []int{33, 34, 40, 48, 63, 64, 65})
		}
		lo = k
		kind := Pick(r, []string{"EXPUNGE", "EXPUNGE", "EXPUNGE", "MOVE", "MOVE", "STORES", "APPENDS", "COPY"})
		waves = append(waves, wave{kind, k})
	}
	need := 4
	for _, w := range waves {
		if w.kind == "EXPUNGE" || w.kind == "MOVE" {
			need += w.k
		} else if w.k > need {
			need = w.k
		}
	}
	h.markerN++
	bulkID := h.markerN
	below, lastLen := 0, 0 // the actor's messages below the large ones; the length of its view expected after the last wave
	stages := []func(r *Rng) []string{
		func(r *Rng) []string {
			var out []string
			out = append(out, h.c02Ready(o, mb, false)...)
			out = append(out, h.c02Ready(a, mb, true)...)
			out = append(out,
				fmt.Sprintf("C BULK %ds %s %d %s", bulkID, mb, need, Pick(r, []string{"-", "-", `\Seen`, `\Flagged`})),
				fmt.Sprintf("C BULK %db %s %d - %d", bulkID, mb, c02BigCount, c02BigKiB),
				"X BARRIER", fmt.Sprintf("S%d CMD NOOP NOOP", o), fmt.Sprintf("S%d CMD NOOP NOOP", a))
			return out
		},
		func(r *Rng) []string {
			n := len(h.sess[o].mirror.msgs)
			if n < c02BigCount {
				return nil
			}
			lastLen = len(h.sess[a].mirror.msgs)
			below = lastLen - c02BigCount
			item := Pick(r, []string{"(BODY.PEEK[])", "(BODY.PEEK[])", "(UID FLAGS BODY.PEEK[])", "(BODY[])"})
			return []string{fmt.Sprintf("S%d STALL FETCH %d:%d %s", o, n-c02BigCount+1, n, item)}
		},
	}
	for _, w := range waves {
		w := w
		stages = append(stages, func(r *Rng) []string {
			if !h.sess[o].stalled {
				return nil
			}
			// the actor's view: everything below the large messages may be touched (what the waves add sits above them,
			// what they remove was below them)
			cur := len(h.sess[a].mirror.msgs)
			below -= lastLen - cur
			lastLen = cur
			n := below
			k := min(w.k, n)
			if k < 1 {
				return []string{}
			}
			first := r.Range(1, n-k+1)
			last := first + k - 1
			var out []string
			switch w.kind {
			case "EXPUNGE":
				out = append(out, fmt.Sprintf("S%d CMD STORE STORE %d:%d +FLAGS.SILENT (\\Deleted)", a, first, last),
					fmt.Sprintf("S%d CMD EXPUNGE EXPUNGE", a))
			case "MOVE":
				out = append(out, fmt.Sprintf("S%d CMD MOVE MOVE %d:%d %s", a, first, last, h.c02OtherMailbox(r, mb)))
			case "COPY":
				out = append(out, fmt.Sprintf("S%d CMD COPY COPY %d:%d %s", a, first, last, mb))
				lastLen += k
			case "STORES":
				op := Pick(r, []string{"+FLAGS", "+FLAGS.SILENT", "FLAGS"})
				fl := Pick(r, []string{`\Flagged`, `\Answered`, `\Draft`})
				for j := first; j <= last; j++ {
					out = append(out, fmt.Sprintf("S%d CMD STORE STORE %d %s (%s)", a, j, op, fl))
				}
			case "APPENDS":
				for j := 0; j < w.k; j++ {
					out = append(out, fmt.Sprintf("S%d APPEND %s - %s", a, mb, h.newMarker()))
				}
				lastLen += w.k
			}
			return out
		})
	}
	stages = append(stages, func(r *Rng) []string {
		return []string{fmt.Sprintf("S%d UNSTALL", o), "X BARRIER", "X CONVERGE"}
	})
	return c02Seq(stages...)
}

// c02BatchPattern: one operation creates k >= 2 messages with identical flags in a mailbox several sessions have
// selected; some sessions flush the EXISTS and change ONE of the new messages each (body fetch / STORE), the others
// flush only later; all views are compared with a fresh session's.
func (h *HistRunner) c02BatchPattern(r *Rng, nsess int) func(r *Rng) string {
	a := r.Intn(nsess)
	src := "INBOX"
	if s := h.session(a); s != nil && s.selected != "" && !s.readOnly && r.Chance(2, 3) {
		src = s.selected
	}
	op := Pick(r, []string{"COPYSAME", "COPYSAME", "COPY", "MOVE", "BULK", "BULK"})
	dest := src
	if op == "COPY" || op == "MOVE" {
		dest = h.c02OtherMailbox(r, src)
	}
	k := Pick(r, []int{2, 2, 3, 3, 4, 5, 8})
	h.markerN++
	bulkID := h.markerN
	total := max(nsess, 2)
	var watchers []int // sessions that have dest selected
	var first, last int
	return c02Seq(
		func(r *Rng) []string {
			out := h.c02Ready(a, src, true)
			for j := 0; j < total; j++ {
				if j == a {
					continue
				}
				// at least one other session watches dest; further ones now and then
				if len(watchers) == 0 && j == total-1-boolInt(a == total-1) || r.Chance(1, 2) {
					out = append(out, h.c02Ready(j, dest, !r.Chance(1, 6))...)
					watchers = append(watchers, j)
				}
			}
			if dest == src {
				watchers = append(watchers, a)
			}
			if n := 0; op != "BULK" {
				if s := h.session(a); s != nil && s.selected == src {
					n = len(s.mirror.msgs)
				}
				if n < k || r.Chance(1, 3) {
					// source messages created one by one or as a batch: both are legitimate origins
					out = append(out, fmt.Sprintf("C BULK %ds %s %d %s", bulkID, src, k, Pick(r, []string{"-", "-", `\Flagged`})))
				}
			}
			return append(out, "X BARRIER", fmt.Sprintf("S%d CMD NOOP NOOP", a))
		},
		func(r *Rng) []string {
			var out []string
			if op != "BULK" {
				n := len(h.sess[a].mirror.msgs)
				if n < 2 {
					return nil
				}
				k = min(k, n)
				first = r.Range(1, n-k+1)
				last = first + k - 1
				if r.Chance(1, 2) {
					// identical flags for sure
					out = append(out, fmt.Sprintf("S%d CMD STORE STORE %d:%d FLAGS.SILENT (%s)", a, first, last, Pick(r, []string{"", `\Flagged`, `\Answered`, `\Draft`})))
				}
			}
			switch op {
			case "COPYSAME", "COPY":
				out = append(out, fmt.Sprintf("S%d CMD COPY COPY %d:%d %s", a, first, last, dest))
			case "MOVE":
				out = append(out, fmt.Sprintf("S%d CMD MOVE MOVE %d:%d %s", a, first, last, dest))
			case "BULK":
				out = append(out, fmt.Sprintf("C BULK %d %s %d %s", bulkID, dest, k, Pick(r, []string{"-", "-", `\Flagged`, `\Seen`})))
			}
			out = append(out, "X BARRIER")
			// who looks at the new messages now (the others keep the EXISTS pending)
			var readers []int
			for _, j := range watchers {
				if j == a && dest == src || r.Chance(1, 2) {
					readers = append(readers, j)
				}
			}
			if len(readers) == 0 && len(watchers) > 0 {
				readers = append(readers, Pick(r, watchers))
			}
			watchers = readers
			for _, j := range readers {
				out = append(out, fmt.Sprintf("S%d CMD NOOP NOOP", j))
			}
			return out
		},
		func(r *Rng) []string {
			var out []string
			for x, j := range watchers {
				s := h.session(j)
				if s == nil || s.selected != dest || s.idle {
					continue
				}
				n := len(s.mirror.msgs)
				if n < k || k < 2 {
					continue
				}
				// one of the k new messages (the last k of the view), a different one per session, never all of them
				seq := n - k + 1 + (x+r.Intn(k))%k
				if x >= k-1 {
					seq = n - k + 1
				}
				switch r.Intn(8) {
				case 0:
					out = append(out, fmt.Sprintf("S%d CMD STORE STORE %d +FLAGS (%s)", j, seq, Pick(r, []string{`\Answered`, `\Seen`, `\Deleted`})))
				case 1:
					out = append(out, fmt.Sprintf("S%d CMD FETCH FETCH %d (RFC822)", j, seq))
				case 2:
					out = append(out, fmt.Sprintf("S%d CMD FETCH FETCH %d (UID BODY[TEXT])", j, seq))
				default:
					out = append(out, fmt.Sprintf("S%d CMD FETCH FETCH %d (BODY[])", j, seq))
				}
			}
			return append(out, "X BARRIER", "X CONVERGE")
		},
	)
}

// c02StalePattern: the directed form of GenStep's stale-view STORE pattern (guaranteed to occur in histories with the
// profile token `stale`): two sessions look at the same message, both views are brought up to date, one of them changes
// the message (mostly its \Deleted state), the change is delivered to the other session but not yet flushed into its
// view, and that session's next command is a STORE on the same message decided from the stale view (every STORE form,
// with and without \Deleted): what ends up in the index must not depend on the stale view.
func (h *HistRunner) c02StalePattern(r *Rng, nsess int) func(r *Rng) string {
	total := max(nsess, 2)
	i := r.Intn(total)
	j := (i + 1 + r.Intn(total-1)) % total
	mb := "INBOX"
	if s := h.session(i); s != nil && s.selected != "" && r.Chance(2, 3) {
		mb = s.selected
	}
	h.markerN++
	bulkID := h.markerN
	return c02Seq(
		func(r *Rng) []string {
			out := append(h.c02Ready(i, mb, true), h.c02Ready(j, mb, true)...)
			if s := h.session(i); s == nil || s.selected != mb || len(s.mirror.msgs) < 2 || r.Chance(1, 4) {
				out = append(out, fmt.Sprintf("C BULK %ds %s %d %s", bulkID, mb, r.Range(1, 3), Pick(r, []string{"-", "-", `\Seen`, `\Flagged`})))
			}
			return append(out, "X BARRIER", fmt.Sprintf("S%d CMD NOOP NOOP", i), fmt.Sprintf("S%d CMD NOOP NOOP", j))
		},
		func(r *Rng) []string {
			n := min(len(h.sess[i].mirror.msgs), len(h.sess[j].mirror.msgs))
			if n < 1 {
				return nil
			}
			k := r.Range(1, n)
			fop := Pick(r, []string{"+FLAGS", "+FLAGS", "-FLAGS", "+FLAGS.SILENT", "-FLAGS.SILENT", "FLAGS"})
			ffl := Pick(r, []string{`\Deleted`, `\Deleted`, `\Seen`, `\Flagged \Deleted`})
			op := Pick(r, []string{"+FLAGS", "-FLAGS", "FLAGS", "FLAGS", "+FLAGS.SILENT", "-FLAGS.SILENT", "FLAGS.SILENT", "FLAGS.SILENT"})
			fl := Pick(r, []string{`\Seen`, `\Flagged`, `\Deleted`, `\Answered`, `\Draft`, `\Seen \Deleted`, `\Flagged \Draft`})
			out := []string{}
			if r.Chance(1, 3) {
				// the message is \Deleted in both views to begin with
				out = append(out, fmt.Sprintf("S%d CMD STORE STORE %d +FLAGS (\\Deleted)", i, k), "X BARRIER", fmt.Sprintf("S%d CMD NOOP NOOP", j))
			}
			return append(out,
				fmt.Sprintf("S%d CMD STORE STORE %d %s (%s)", j, k, fop, ffl), "X BARRIER",
				fmt.Sprintf("S%d CMD STORE STORE %d %s (%s)", i, k, op, fl),
				"X BARRIER", fmt.Sprintf("S%d PROBE", i), fmt.Sprintf("S%d PROBE", j), "X CONVERGE")
		},
	)
}

func boolInt(b bool) int {
	if b {
		return 1
	}
	return 0
}
