package main

// Oracle `c16sets` (property C16): message sets on the wire.
//
// A whole server; views of size {0,1,2,5,40} built by APPEND or by connector MessagesCreated, some
// with UID gaps (extra messages expunged); one session selected on the view runs
// FETCH / UID FETCH / STORE / UID STORE / COPY / UID COPY / MOVE / UID MOVE / SEARCH <set> /
// SEARCH UID <set> / UID SEARCH <set> / UID SEARCH UID <set> / UID EXPUNGE with a generated set.
// What the command acted on is read off the wire (answered FETCH lines, flags found by a following
// FETCH 1:* (UID FLAGS), COPYUID source set, destination content identified by RFC822.SIZE, messages
// that disappeared, SEARCH result) and handed, together with the view and the text of the set, to the
// Lean judge `judge-c16-sets` (Driver/DJudgeSets.lean over Spec/SetSelect.lean): Lean decides.
//
// Replay file:
//   oracle c16sets
//   view <n> drop=<positions|-> via=<append|conn>
//   case <CMD> <set>
//   ...

import (
	"flag"
	"fmt"
	"math/big"
	"os"
	"path/filepath"
	"regexp"
	"sort"
	"strconv"
	"strings"
	"time"

	"github.com/ProtonMail/gluon/imap"
)

var setsCmds = []struct {
	name string
	uid  bool // the set holds UIDs
}{
	{"FETCH", false}, {"UIDFETCH", true}, {"STORE", false}, {"UIDSTORE", true},
	{"COPY", false}, {"UIDCOPY", true}, {"MOVE", false}, {"UIDMOVE", true},
	{"SEARCH", false}, {"SEARCHUID", true}, {"UIDSEARCH", false}, {"UIDSEARCHUID", true},
	{"UIDEXPUNGE", true},
}

func setsCmdIsUID(name string) (bool, bool) {
	for _, c := range setsCmds {
		if c.name == name {
			return c.uid, true
		}
	}
	return false, false
}

type setsView struct {
	spec  string
	name  string
	uids  []int
	sizes map[int]int // uid -> RFC822.SIZE
}

type setsCase struct {
	viewSpec string
	cmd      string
	set      string
	line     string   // judge line
	tagged   string   // tagged completion text (tag removed)
	history  []string // for an aborted view: everything run on that server so far
	note     string   // harness-side finding that is a violation by itself (connection lost, panic, view changed)
}

type setsRunner struct {
	sys   *Sys
	a, b  *Client
	mboxN int
	msgN  int
	stats map[string]int
	cases []*setsCase
}

var (
	awReSize    = regexp.MustCompile(`RFC822\.SIZE (\d+)`)
	awReSearch  = regexp.MustCompile(`^\* SEARCH(.*)$`)
	awReCopyUID = regexp.MustCompile(`\[COPYUID (\d+) (\S+) (\S+)\]`)
	awReStatusN = regexp.MustCompile(`MESSAGES (\d+)`)
)

func newSetsRunner() (*setsRunner, error) {
	sys, err := NewSys(SysOpts{})
	if err != nil {
		return nil, err
	}
	r := &setsRunner{sys: sys, stats: map[string]int{}}
	for _, n := range []string{"A", "B"} {
		c, err := sys.Dial(n)
		if err != nil {
			sys.Close(true)
			return nil, err
		}
		if rep := c.Login("user"); rep.Status != "OK" {
			sys.Close(true)
			return nil, fmt.Errorf("login: %v %v", rep.Tagged, rep.Err)
		}
		if n == "A" {
			r.a = c
		} else {
			r.b = c
		}
	}
	return r, nil
}

func (r *setsRunner) close() {
	if r.a != nil {
		r.a.Close()
	}
	if r.b != nil {
		r.b.Close()
	}
	r.sys.Close(true)
}

func (r *setsRunner) message() []byte {
	r.msgN++
	return SimpleMessage(fmt.Sprintf("m%d", r.msgN), strings.Repeat("x", r.msgN%4000))
}

func awParseViewSpec(spec string) (n int, drop []int, via string, err error) {
	f := strings.Fields(spec)
	if len(f) != 3 || !strings.HasPrefix(f[1], "drop=") || !strings.HasPrefix(f[2], "via=") {
		return 0, nil, "", fmt.Errorf("bad view spec %q", spec)
	}
	n, err = strconv.Atoi(f[0])
	if err != nil {
		return
	}
	if d := strings.TrimPrefix(f[1], "drop="); d != "-" {
		for _, x := range strings.Split(d, ",") {
			k, e := strconv.Atoi(x)
			if e != nil {
				return 0, nil, "", e
			}
			drop = append(drop, k)
		}
	}
	via = strings.TrimPrefix(f[2], "via=")
	return
}

// fetchView: FETCH 1:* (UID RFC822.SIZE FLAGS) on session a; count from STATUS on session b.
func (r *setsRunner) probe(name string, withSize bool) (uids []int, sizes map[int]int, flagged map[int]bool, err error) {
	st := r.b.Cmd("STATUS " + name + " (MESSAGES)")
	if st.Status != "OK" {
		return nil, nil, nil, fmt.Errorf("STATUS %s: %s %v", name, st.Tagged, st.Err)
	}
	cnt := -1
	for _, u := range st.Untagged {
		if m := awReStatusN.FindStringSubmatch(u); m != nil {
			cnt, _ = strconv.Atoi(m[1])
		}
	}
	sizes = map[int]int{}
	flagged = map[int]bool{}
	if cnt == 0 {
		return nil, sizes, flagged, nil
	}
	items := "(UID FLAGS)"
	if withSize {
		items = "(UID RFC822.SIZE FLAGS)"
	}
	rep := r.a.Cmd("FETCH 1:* " + items)
	if rep.Status != "OK" {
		return nil, nil, nil, fmt.Errorf("probe FETCH 1:*: %s %v (STATUS says %d messages)", rep.Tagged, rep.Err, cnt)
	}
	type row struct{ seq, uid int }
	var rows []row
	for _, u := range rep.Untagged {
		m := reFetchLine.FindStringSubmatch(u)
		if m == nil {
			continue
		}
		seq, _ := strconv.Atoi(m[1])
		uid := -1
		if x := reUID.FindStringSubmatch(m[2]); x != nil {
			uid, _ = strconv.Atoi(x[1])
		}
		if x := awReSize.FindStringSubmatch(m[2]); x != nil {
			sizes[uid], _ = strconv.Atoi(x[1])
		}
		if x := reFlags.FindStringSubmatch(m[2]); x != nil {
			for _, f := range strings.Fields(x[1]) {
				if strings.EqualFold(f, `\Flagged`) {
					flagged[uid] = true
				}
			}
		}
		rows = append(rows, row{seq, uid})
	}
	sort.Slice(rows, func(i, j int) bool { return rows[i].seq < rows[j].seq })
	for i, x := range rows {
		if x.seq != i+1 {
			return nil, nil, nil, fmt.Errorf("probe: sequence numbers not 1..n: %v", rows)
		}
		uids = append(uids, x.uid)
	}
	if len(uids) != cnt {
		return nil, nil, nil, fmt.Errorf("probe: FETCH 1:* answered %d messages, STATUS says %d", len(uids), cnt)
	}
	return uids, sizes, flagged, nil
}

func (r *setsRunner) buildView(spec string) (*setsView, error) {
	n, drop, via, err := awParseViewSpec(spec)
	if err != nil {
		return nil, err
	}
	total := n + len(drop)
	r.mboxN++
	name := fmt.Sprintf("w%d", r.mboxN)
	switch via {
	case "append":
		if rep := r.b.Cmd("CREATE " + name); rep.Status != "OK" {
			return nil, fmt.Errorf("CREATE %s: %s", name, rep.Tagged)
		}
		for i := 0; i < total; i++ {
			if rep := r.b.Append(name, "", r.message()); rep.Status != "OK" {
				return nil, fmt.Errorf("APPEND: %s %v", rep.Tagged, rep.Err)
			}
		}
	case "conn":
		fl := imap.NewFlagSet(imap.FlagSeen, imap.FlagFlagged, imap.FlagDeleted, imap.FlagAnswered, imap.FlagDraft)
		if err := r.sys.Conn.MailboxCreated(imap.Mailbox{ID: imap.MailboxID(name), Name: []string{name}, Flags: fl, PermanentFlags: fl, Attributes: imap.NewFlagSet()}); err != nil {
			return nil, err
		}
		if total > 0 {
			var msgs []imap.Message
			var lits [][]byte
			var mbs [][]imap.MailboxID
			for i := 0; i < total; i++ {
				lit := r.message()
				msgs = append(msgs, imap.Message{ID: imap.MessageID(fmt.Sprintf("%s-%d", name, i)), Flags: imap.NewFlagSet(), Date: time.Unix(1136214245, 0).UTC()})
				lits = append(lits, lit)
				mbs = append(mbs, []imap.MailboxID{imap.MailboxID(name)})
			}
			if err := r.sys.Conn.MessagesCreated(msgs, lits, mbs); err != nil {
				return nil, err
			}
		}
		if err := r.sys.Barrier(); err != nil {
			return nil, err
		}
	default:
		return nil, fmt.Errorf("bad via %q", via)
	}
	if err := awSessionsQuiesce(r.sys); err != nil {
		return nil, err
	}
	if rep := r.a.Cmd("SELECT " + name); rep.Status != "OK" {
		return nil, fmt.Errorf("SELECT %s: %s %v", name, rep.Tagged, rep.Err)
	}
	if len(drop) > 0 {
		var ds []string
		for _, d := range drop {
			if d < 1 || d > total {
				return nil, fmt.Errorf("drop position %d outside 1..%d", d, total)
			}
			ds = append(ds, strconv.Itoa(d))
		}
		if rep := r.a.Cmd("STORE " + strings.Join(ds, ",") + ` +FLAGS.SILENT (\Deleted)`); rep.Status != "OK" {
			return nil, fmt.Errorf("setup STORE: %s", rep.Tagged)
		}
		if rep := r.a.Cmd("EXPUNGE"); rep.Status != "OK" {
			return nil, fmt.Errorf("setup EXPUNGE: %s", rep.Tagged)
		}
	}
	uids, sizes, _, err := r.probe(name, true)
	if err != nil {
		return nil, err
	}
	if len(uids) != n {
		return nil, fmt.Errorf("view %q: built %d messages, wanted %d", spec, len(uids), n)
	}
	r.stats["views.built"]++
	return &setsView{spec: spec, name: name, uids: uids, sizes: sizes}, nil
}

func (r *setsRunner) dropView(v *setsView) {
	_ = r.a.Cmd("CLOSE")
	_ = r.b.Cmd("DELETE " + v.name)
}

func awWireStatus(rep Reply) string {
	switch rep.Status {
	case "OK":
		return "ok"
	case "NO":
		return "no"
	case "BAD":
		return "bad"
	}
	return "other"
}

// awExpandUIDSet expands a COPYUID set (numbers and a:b ranges only).
func awExpandUIDSet(s string) []int {
	var out []int
	for _, it := range strings.Split(s, ",") {
		ab := strings.Split(it, ":")
		a, _ := strconv.Atoi(ab[0])
		b := a
		if len(ab) == 2 {
			b, _ = strconv.Atoi(ab[1])
		}
		if a > b {
			a, b = b, a
		}
		if b-a > 100000 {
			b = a + 100000
		}
		for x := a; x <= b; x++ {
			out = append(out, x)
		}
	}
	return out
}

func awShowPairs(name string, pairs [][2]int) string {
	if len(pairs) == 0 {
		return name + "=-"
	}
	sort.Slice(pairs, func(i, j int) bool {
		if pairs[i][0] != pairs[j][0] {
			return pairs[i][0] < pairs[j][0]
		}
		return pairs[i][1] < pairs[j][1]
	})
	s := make([]string, len(pairs))
	for i, p := range pairs {
		s[i] = fmt.Sprintf("%d:%d", p[0], p[1])
	}
	return name + "=" + strings.Join(s, ",")
}

func awSeqOfUID(uids []int, uid int) int {
	for i, u := range uids {
		if u == uid {
			return i + 1
		}
	}
	return 0
}

func awUidOfSeq(uids []int, seq int) int {
	if seq >= 1 && seq <= len(uids) {
		return uids[seq-1]
	}
	return 0
}

func awShowView(uids []int) string {
	if len(uids) == 0 {
		return "-"
	}
	s := make([]string, len(uids))
	for i, u := range uids {
		s[i] = strconv.Itoa(u)
	}
	return strings.Join(s, ",")
}

// destContent reads the destination mailbox through session b and maps its messages back to source positions by size.
func (r *setsRunner) destContent(v *setsView, dest string) ([][2]int, error) {
	st := r.b.Cmd("STATUS " + dest + " (MESSAGES)")
	cnt := 0
	for _, u := range st.Untagged {
		if m := awReStatusN.FindStringSubmatch(u); m != nil {
			cnt, _ = strconv.Atoi(m[1])
		}
	}
	if st.Status != "OK" {
		return nil, fmt.Errorf("STATUS %s: %s", dest, st.Tagged)
	}
	if cnt == 0 {
		return nil, nil
	}
	if err := awSessionsQuiesce(r.sys); err != nil {
		return nil, err
	}
	if rep := r.b.Cmd("EXAMINE " + dest); rep.Status != "OK" {
		return nil, fmt.Errorf("EXAMINE %s: %s", dest, rep.Tagged)
	}
	rep := r.b.Cmd("FETCH 1:* (UID RFC822.SIZE)")
	_ = r.b.Cmd("CLOSE")
	if rep.Status != "OK" {
		return nil, fmt.Errorf("dest FETCH: %s", rep.Tagged)
	}
	bySize := map[int]int{}
	for uid, sz := range v.sizes {
		bySize[sz] = uid
	}
	var pairs [][2]int
	for _, u := range rep.Untagged {
		if m := reFetchLine.FindStringSubmatch(u); m != nil {
			if x := awReSize.FindStringSubmatch(m[2]); x != nil {
				sz, _ := strconv.Atoi(x[1])
				uid := bySize[sz] // 0 = a message that is not from the source view
				pairs = append(pairs, [2]int{awSeqOfUID(v.uids, uid), uid})
			}
		}
	}
	if len(pairs) != cnt {
		return nil, fmt.Errorf("dest: FETCH answered %d, STATUS %d", len(pairs), cnt)
	}
	return pairs, nil
}

// runCase executes one command on the view; returns whether the view must be rebuilt.
func (r *setsRunner) runCase(v *setsView, cmd, set string) (c *setsCase, dirty bool, fatal error) {
	c = &setsCase{viewSpec: v.spec, cmd: cmd, set: set}
	uidMode, ok := setsCmdIsUID(cmd)
	if !ok {
		return c, false, fmt.Errorf("unknown command kind %q", cmd)
	}
	mode := "s"
	if uidMode {
		mode = "u"
	}
	var obs []string
	var rep Reply
	before := append([]int{}, v.uids...)
	fetchPairs := func(rep Reply) [][2]int {
		var pairs [][2]int
		for _, u := range rep.Untagged {
			if m := reFetchLine.FindStringSubmatch(u); m != nil {
				seq, _ := strconv.Atoi(m[1])
				uid := awUidOfSeq(before, seq)
				if x := reUID.FindStringSubmatch(m[2]); x != nil {
					uid, _ = strconv.Atoi(x[1])
				}
				pairs = append(pairs, [2]int{seq, uid})
			}
		}
		return pairs
	}
	goneObs := func(after []int) [][2]int {
		in := map[int]bool{}
		for _, u := range after {
			in[u] = true
		}
		var pairs [][2]int
		for i, u := range before {
			if !in[u] {
				pairs = append(pairs, [2]int{i + 1, u})
			}
		}
		// a message that was not in the view before
		was := map[int]bool{}
		for _, u := range before {
			was[u] = true
		}
		for _, u := range after {
			if !was[u] {
				pairs = append(pairs, [2]int{0, u})
			}
		}
		return pairs
	}
	switch cmd {
	case "FETCH":
		rep = r.a.Cmd("FETCH " + set + " (UID)")
		obs = append(obs, awShowPairs("answered", fetchPairs(rep)))
	case "UIDFETCH":
		rep = r.a.Cmd("UID FETCH " + set + " (FLAGS)")
		obs = append(obs, awShowPairs("answered", fetchPairs(rep)))
	case "STORE", "UIDSTORE":
		pfx := ""
		if cmd == "UIDSTORE" {
			pfx = "UID "
		}
		rep = r.a.Cmd(pfx + "STORE " + set + ` +FLAGS (\Flagged)`)
		obs = append(obs, awShowPairs("answered", fetchPairs(rep)))
		if rep.Err == nil {
			after, _, flagged, err := r.probe(v.name, false)
			if err != nil {
				return c, true, err
			}
			if awShowView(after) != awShowView(before) {
				c.note = fmt.Sprintf("view changed by STORE: %s -> %s", awShowView(before), awShowView(after))
				dirty = true
			}
			var pairs [][2]int
			for i, u := range after {
				if flagged[u] {
					pairs = append(pairs, [2]int{i + 1, u})
				}
			}
			obs = append(obs, awShowPairs("flagged", pairs))
			if len(pairs) > 0 && !dirty {
				if cl := r.a.Cmd(`STORE 1:* -FLAGS.SILENT (\Flagged)`); cl.Status != "OK" {
					dirty = true
				}
			}
		}
	case "COPY", "UIDCOPY", "MOVE", "UIDMOVE":
		r.mboxN++
		dest := fmt.Sprintf("d%d", r.mboxN)
		if cr := r.b.Cmd("CREATE " + dest); cr.Status != "OK" {
			return c, false, fmt.Errorf("CREATE %s: %s %v", dest, cr.Tagged, cr.Err)
		}
		verb := strings.TrimPrefix(cmd, "UID")
		pfx := ""
		if strings.HasPrefix(cmd, "UID") {
			pfx = "UID "
		}
		rep = r.a.Cmd(pfx + verb + " " + set + " " + dest)
		if rep.Err == nil {
			var cu [][2]int
			texts := append(append([]string{}, rep.Untagged...), rep.Tagged)
			for _, t := range texts {
				if m := awReCopyUID.FindStringSubmatch(t); m != nil {
					for _, u := range awExpandUIDSet(m[2]) {
						cu = append(cu, [2]int{awSeqOfUID(before, u), u})
					}
				}
			}
			obs = append(obs, awShowPairs("copyuid", cu))
			dp, err := r.destContent(v, dest)
			if err != nil {
				return c, true, err
			}
			if len(dp) != len(cu) {
				r.stats["copy.dest-count-differs-from-copyuid"]++
			}
			obs = append(obs, awShowPairs("dest", dp))
			after, _, _, err := r.probe(v.name, false)
			if err != nil {
				return c, true, err
			}
			gone := goneObs(after)
			if verb == "MOVE" {
				obs = append(obs, awShowPairs("gone", gone))
			} else if len(gone) > 0 {
				c.note = fmt.Sprintf("view changed by COPY: %s -> %s", awShowView(before), awShowView(after))
			}
			if len(gone) > 0 {
				dirty = true
			}
		}
		_ = r.b.Cmd("DELETE " + dest)
	case "SEARCH", "SEARCHUID", "UIDSEARCH", "UIDSEARCHUID":
		line := "SEARCH " + set
		switch cmd {
		case "SEARCHUID":
			line = "SEARCH UID " + set
		case "UIDSEARCH":
			line = "UID SEARCH " + set
		case "UIDSEARCHUID":
			line = "UID SEARCH UID " + set
		}
		rep = r.a.Cmd(line)
		var pairs [][2]int
		for _, u := range rep.Untagged {
			if m := awReSearch.FindStringSubmatch(u); m != nil {
				for _, f := range strings.Fields(m[1]) {
					x, _ := strconv.Atoi(f)
					if strings.HasPrefix(cmd, "UIDSEARCH") {
						pairs = append(pairs, [2]int{awSeqOfUID(before, x), x})
					} else {
						pairs = append(pairs, [2]int{x, awUidOfSeq(before, x)})
					}
				}
			}
		}
		obs = append(obs, awShowPairs("result", pairs))
	case "UIDEXPUNGE":
		if len(before) > 0 {
			if pre := r.a.Cmd(`STORE 1:* +FLAGS.SILENT (\Deleted)`); pre.Status != "OK" {
				return c, true, fmt.Errorf("pre-STORE: %s %v", pre.Tagged, pre.Err)
			}
		}
		rep = r.a.Cmd("UID EXPUNGE " + set)
		if rep.Err == nil {
			after, _, _, err := r.probe(v.name, false)
			if err != nil {
				return c, true, err
			}
			gone := goneObs(after)
			obs = append(obs, awShowPairs("gone", gone))
			if len(gone) > 0 {
				dirty = true
			} else if len(before) > 0 {
				if cl := r.a.Cmd(`STORE 1:* -FLAGS.SILENT (\Deleted)`); cl.Status != "OK" {
					dirty = true
				}
			}
		}
	}
	if rep.Err != nil {
		c.note = fmt.Sprintf("no tagged completion (connection lost or timeout): %v", rep.Err)
		fatal = rep.Err
	}
	for _, p := range r.sys.Panics.Take() {
		c.note = "server goroutine panicked: " + p
	}
	c.tagged = awCanonTagged(rep)
	r.stats["cmd."+cmd]++
	r.stats["status."+awWireStatus(rep)]++
	c.line = fmt.Sprintf("judge-c16-sets %s %s %s %s => %s %s", cmd, mode, awShowView(before), set, awWireStatus(rep), strings.Join(obs, " "))
	return c, dirty, fatal
}

// ---- generation --------------------------------------------------------------------------

func awPow2(k uint) *big.Int { return new(big.Int).Lsh(big.NewInt(1), k) }

func (r *setsRunner) genNumber(g *Rng, uidMode bool, uids []int, wantValid bool) string {
	n := len(uids)
	maxU := 0
	for _, u := range uids {
		if u > maxU {
			maxU = u
		}
	}
	if wantValid {
		if uidMode {
			switch {
			case n > 0 && g.Chance(3, 4):
				return strconv.Itoa(Pick(g, uids))
			default:
				r.stats["num.absent-or-near-uid"]++
				return strconv.Itoa(g.Range(1, maxU+3)) // may hit a gap or lie just above the highest UID
			}
		}
		if n == 0 {
			return "1" // there is no valid sequence number on an empty view
		}
		switch g.Intn(4) {
		case 0:
			return "1"
		case 1:
			return strconv.Itoa(n)
		default:
			return strconv.Itoa(g.Range(1, n))
		}
	}
	k := int64(g.Range(1, max(n, 1)))
	base := n
	if uidMode {
		base = maxU
	}
	add := func(b *big.Int, d int64) string { return new(big.Int).Add(b, big.NewInt(d)).String() }
	p30 := new(big.Int).Exp(big.NewInt(10), big.NewInt(30), nil)
	choices := []string{
		strconv.Itoa(base + 1), strconv.Itoa(base + 2), strconv.Itoa(base + g.Range(1, 50)),
		add(awPow2(31), -1), add(awPow2(31), 0), add(awPow2(31), 1),
		add(awPow2(32), -1), add(awPow2(32), 0), add(awPow2(32), 1), add(awPow2(32), k), add(awPow2(32), int64(max(base, 1))),
		add(awPow2(63), -1), add(awPow2(63), 0), add(awPow2(63), 1),
		add(awPow2(64), -1), add(awPow2(64), 0), add(awPow2(64), 1), add(awPow2(64), k),
		p30.String(),
	}
	i := g.Intn(len(choices))
	switch {
	case i < 3:
		r.stats["num.just-beyond"]++
	case i < 6:
		r.stats["num.2^31"]++
	case i < 11:
		r.stats["num.2^32"]++
	case i < 14:
		r.stats["num.2^63"]++
	case i < 18:
		r.stats["num.2^64"]++
	default:
		r.stats["num.10^30"]++
	}
	return choices[i]
}

func (r *setsRunner) genSet(g *Rng, uidMode bool, uids []int) string {
	if g.Chance(1, 50) {
		r.stats["set.zero"]++
		return Pick(g, []string{"0", "0:1", "1:0", "0:*"})
	}
	allValid := g.Chance(11, 20)
	nItems := 1
	if g.Chance(2, 5) {
		nItems = g.Range(2, 4)
	}
	var items []string
	num := func() string {
		if g.Chance(1, 6) {
			r.stats["num.star"]++
			return "*"
		}
		return r.genNumber(g, uidMode, uids, allValid || g.Chance(2, 3))
	}
	for i := 0; i < nItems; i++ {
		if g.Chance(1, 2) {
			items = append(items, num())
			r.stats["item.single"]++
		} else {
			a, b := num(), num()
			// ranges in both orders: the generator does not normalise
			items = append(items, a+":"+b)
			r.stats["item.range"]++
			if a == "*" && b != "*" {
				r.stats["item.range.star-first"]++
			}
		}
	}
	if nItems > 1 {
		r.stats["set.union"]++
	}
	// the case the property excludes: n:* with n above the highest UID
	if uidMode && g.Chance(1, 12) {
		maxU := 0
		for _, u := range uids {
			if u > maxU {
				maxU = u
			}
		}
		it := fmt.Sprintf("%d:*", maxU+g.Range(1, 9))
		if g.Bool() {
			it = fmt.Sprintf("*:%d", maxU+g.Range(1, 9))
		}
		items[g.Intn(len(items))] = it
		r.stats["item.excluded-n-above-highest:*"]++
	}
	return strings.Join(items, ",")
}

func (r *setsRunner) genViewSpec(g *Rng, n int, gaps bool, via string) string {
	drop := "-"
	if gaps {
		total := n + g.Range(1, 3)
		if n == 0 {
			total = g.Range(1, 3)
		}
		k := total - n
		perm := make([]int, total)
		for i := range perm {
			perm[i] = i + 1
		}
		for i := total - 1; i > 0; i-- {
			j := g.Intn(i + 1)
			perm[i], perm[j] = perm[j], perm[i]
		}
		d := append([]int{}, perm[:k]...)
		sort.Ints(d)
		s := make([]string, k)
		for i, x := range d {
			s[i] = strconv.Itoa(x)
		}
		drop = strings.Join(s, ",")
	}
	return fmt.Sprintf("%d drop=%s via=%s", n, drop, via)
}

// ---- driver ------------------------------------------------------------------------------

var awReCause = regexp.MustCompile(`cause=(\S+)`)

func runSetsOracle(args []string) int {
	fs := flag.NewFlagSet("c16sets", flag.ExitOnError)
	seed := fs.Uint64("seed", 1, "")
	out := fs.String("out", "", "")
	replayDir := fs.String("replaydir", ".", "")
	replay := fs.String("replay", "", "")
	perView := fs.Int("cases", 60, "cases per view")
	variants := fs.Int("variants", 2, "view variants per size (1..4: gaps x append/connector)")
	_ = fs.Parse(args)
	res := &OracleResult{Stats: map[string]int{}}
	finish := func(r *setsRunner) int {
		if r != nil {
			// Lean decides
			var lines []string
			for _, c := range r.cases {
				lines = append(lines, c.line)
			}
			var ans []string
			if len(lines) > 0 {
				var err error
				ans, err = leanJudge(lines)
				if err != nil || len(ans) != len(lines) {
					fmt.Fprintln(os.Stderr, "lean judge failed:", err, len(ans), len(lines))
					res.Violations = append(res.Violations, OracleViol{Desc: fmt.Sprintf("C16: Lean judge did not answer (%v)", err)})
					ans = nil
				}
			}
			perCause := map[string]int{}
			distinct := map[string]bool{}
			for i, c := range r.cases {
				res.Evaluations++
				verdict := ""
				if ans != nil {
					verdict = ans[i]
				}
				if c.note != "" {
					verdict = "violation " + c.note + " cause=harness-observation (judge: " + verdict + ")"
				}
				w := strings.Fields(verdict)
				if len(w) >= 2 && w[0] == "ok" {
					r.stats["judge."+w[1]]++
					if strings.HasPrefix(w[1], "nontrivial") {
						distinct[c.viewSpec+"|"+c.cmd+"|"+c.set] = true
					}
					continue
				}
				cause := "unknown"
				if m := awReCause.FindStringSubmatch(verdict); m != nil {
					cause = m[1]
				}
				r.stats["violation.cause="+cause]++
				perCause[cause]++
				if perCause[cause] > 2 {
					continue
				}
				text := fmt.Sprintf("oracle c16sets\nview %s\ncase %s %s\n# property C16: %s\n# observed: %s\n# tagged completion: %s\n# replay: ./check C16 --replay <this file>\n", c.viewSpec, c.cmd, c.set, verdict, c.line, c.tagged)
				if c.history != nil {
					text = fmt.Sprintf("oracle c16sets\n%s\n# property C16: %s\n# replay: ./check C16 --replay <this file>\n", strings.Join(c.history, "\n"), verdict)
				}
				name := fmt.Sprintf("C16-sets-%d-%d.txt", *seed, len(res.Violations))
				path := filepath.Join(*replayDir, name)
				_ = os.MkdirAll(*replayDir, 0o755)
				_ = os.WriteFile(path, []byte(text), 0o644)
				res.Violations = append(res.Violations, OracleViol{Desc: fmt.Sprintf("C16: %s %s on view [%s]: %s", c.cmd, c.set, c.viewSpec, verdict), Replay: path})
			}
			res.DistinctNontrivial = len(distinct)
			for k, v := range r.stats {
				res.Stats[k] += v
			}
			if len(r.cases) > 0 && len(res.Samples) == 0 {
				res.Samples = append(res.Samples, map[string]any{"judge_line": r.cases[0].line})
			}
		}
		if *out != "" {
			writeResult(*out, res)
		}
		for _, k := range sortedKeys(res.Stats) {
			fmt.Fprintf(os.Stderr, "%s=%d ", k, res.Stats[k])
		}
		fmt.Fprintln(os.Stderr)
		for _, v := range res.Violations {
			fmt.Fprintln(os.Stderr, "VIOL", v.Desc, v.Replay)
		}
		return 0
	}
	r, err := newSetsRunner()
	if err != nil {
		fmt.Fprintln(os.Stderr, "setup failed:", err)
		res.Violations = append(res.Violations, OracleViol{Desc: "C16: server setup failed: " + err.Error()})
		return finish(nil)
	}
	defer func() {
		if r != nil {
			r.close()
		}
	}()

	type planned struct{ cmd, set string }
	var history []string // every view and case run on the current server, for the replay file of an aborted view
	runView := func(spec string, next func(v *setsView, k int) (planned, bool)) error {
		history = append(history, "view "+spec)
		v, err := r.buildView(spec)
		if err != nil {
			return err
		}
		for k := 0; ; k++ {
			p, ok := next(v, k)
			if !ok {
				break
			}
			history = append(history, "case "+p.cmd+" "+p.set)
			c, dirty, fatal := r.runCase(v, p.cmd, p.set)
			if c.line != "" || c.note != "" {
				r.cases = append(r.cases, c)
			}
			if fatal != nil {
				return fmt.Errorf("case %s %s on view [%s]: %w", p.cmd, p.set, awShowView(v.uids), fatal)
			}
			if dirty {
				r.dropView(v)
				if v, err = r.buildView(spec); err != nil {
					return err
				}
			}
		}
		r.dropView(v)
		return nil
	}

	replayFile := func(path string) error {
		b, err := os.ReadFile(path)
		if err != nil {
			return err
		}
		var spec string
		var cases []planned
		flush := func() {
			if spec == "" || len(cases) == 0 {
				return
			}
			cs := cases
			cases = nil
			if err := runView(spec, func(v *setsView, k int) (planned, bool) {
				if k >= len(cs) {
					return planned{}, false
				}
				return cs[k], true
			}); err != nil {
				res.Violations = append(res.Violations, OracleViol{Desc: "C16: replay aborted: " + err.Error(), Replay: path})
			}
		}
		for i, l := range strings.Split(string(b), "\n") {
			if i == 0 || l == "" || strings.HasPrefix(l, "#") {
				continue
			}
			f := strings.Fields(l)
			switch {
			case f[0] == "view":
				flush()
				spec = strings.TrimPrefix(l, "view ")
			case f[0] == "case" && len(f) == 3:
				cases = append(cases, planned{f[1], f[2]})
			}
		}
		flush()
		return nil
	}
	if *replay != "" {
		if err := replayFile(*replay); err != nil {
			fmt.Fprintln(os.Stderr, err)
			return 1
		}
		return finish(r)
	}
	// directed cases first (known findings, past failures): $VERIF_CORPUS/*.sets
	if dir := os.Getenv("VERIF_CORPUS"); dir != "" {
		files, _ := filepath.Glob(filepath.Join(dir, "*.sets"))
		sort.Strings(files)
		for _, f := range files {
			if replayFile(f) == nil {
				r.stats["corpus"]++
			}
		}
	}

	g := NewRng(*seed)
	for _, n := range []int{0, 1, 2, 5, 40} {
		// variants: (gaps?, via) — the first two cover both builders and both gap settings
		order := [][2]bool{{false, false}, {true, true}, {true, false}, {false, true}}
		if g.Bool() {
			order = [][2]bool{{false, true}, {true, false}, {true, true}, {false, false}}
		}
		for vi := 0; vi < *variants && vi < len(order); vi++ {
			via := "append"
			if order[vi][1] {
				via = "conn"
			}
			vg := g.Fork()
			spec := r.genViewSpec(vg, n, order[vi][0], via)
			r.stats[fmt.Sprintf("views.size-%d", n)]++
			if order[vi][0] {
				r.stats["views.with-uid-gaps"]++
			}
			r.stats["views.via-"+via]++
			err := runView(spec, func(v *setsView, k int) (planned, bool) {
				if k >= *perView {
					return planned{}, false
				}
				c := setsCmds[(k+vg.Intn(3))%len(setsCmds)]
				if vg.Chance(1, 3) {
					c = Pick(vg, setsCmds[:])
				}
				return planned{c.name, r.genSet(vg, c.uid, v.uids)}, true
			})
			if err != nil {
				fmt.Fprintln(os.Stderr, "view", spec, "aborted:", err)
				r.stats["views.aborted"]++
				r.cases = append(r.cases, &setsCase{viewSpec: spec, cmd: "-", set: "-", line: "judge-c16-sets - s - 1 => other", note: "history aborted: " + err.Error(), history: append([]string{}, history...)})
				history = nil
				// the server may be unusable: start a new one
				r.close()
				stats, cases := r.stats, r.cases
				r, err = newSetsRunner()
				if err != nil {
					res.Violations = append(res.Violations, OracleViol{Desc: "C16: server restart failed: " + err.Error()})
					return finish(nil)
				}
				r.stats, r.cases = stats, cases
			}
		}
	}
	return finish(r)
}

func init() { RegisterOracle(&Oracle{Name: "c16sets", Run: runSetsOracle}) }
