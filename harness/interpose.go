package main

// Interposers for property C07: wrappers around gluon's PUBLIC storage interfaces
//
//	db.ClientInterface / db.Client / db.Transaction / db.ReadOnly   (real: verifhooks.NewSQLiteDB())
//	store.Builder / store.Store                                      (real: &store.OnDiskStoreBuilder{})
//
// installed with gluon.WithDBClient / gluon.WithStoreBuilder. While ARMED (between Arm and Disarm: the
// marked operation) every storage step is recorded, in order:
//
//	rd.begin                 Client.Read entered            rd.<Method>   a db.ReadOnly call inside it
//	tx.begin                 Client.Write entered           tx.<Method>   a db.Transaction call inside it
//	tx.commit                the Write callback returned nil; the real commit follows this point
//	store.Set:<id> store.Get:<id> store.Delete:<id>,.. store.List
//
// and at the step with index Fault.At (0-based, counted from Arm) the configured fault happens INSTEAD
// of the step:
//
//	kill        the process kills itself with SIGKILL (nothing of the step is performed)
//	err         the step returns ErrInjected (tx.begin: Write fails before the callback; tx.commit: the
//	            callback returns the error, so the real transaction is rolled back)
//	killnonce   only at a store.Set: the REAL Set runs with a reader that kills the process on its first
//	            Read, after the file holds exactly header+nonce (what the real code leaves when it dies there)
//	killhalf    only at a store.Set: the reader delivers half of the literal, then kills the process
//	errhalf     only at a store.Set: the reader delivers half of the literal, then fails: the real Set
//	            returns an error and leaves the partial file behind
//
// Fault configuration comes from the environment (so that a parent can drive a child process):
// VH_FAULT_MODE, VH_FAULT_STEP, VH_FAULT_LOG (file that receives the recorded steps when the fault fires).
// Message ids are canonicalised: ids with a row in the database at Arm time are o1,o2,.. (in order of
// first appearance in the trace), all others n1,n2,...

import (
	"context"
	"errors"
	"fmt"
	"io"
	"os"
	"path/filepath"
	"reflect"
	"sort"
	"strconv"
	"strings"
	"sync"
	"syscall"
	"time"

	"github.com/ProtonMail/gluon/db"
	"github.com/ProtonMail/gluon/imap"
	"github.com/ProtonMail/gluon/store"
	"github.com/ProtonMail/gluon/verifhooks"
)

var ErrInjected = errors.New("verif: injected storage fault")

type Fault struct {
	Mode string // "", kill, err, killnonce, killhalf, errhalf
	At   int
	Log  string
	// EarlyArm: record from the creation of the interposer (start-up of the user), every id is "new"
	EarlyArm bool
}

func FaultFromEnv() Fault {
	f := Fault{Mode: os.Getenv("VH_FAULT_MODE"), At: -1, Log: os.Getenv("VH_FAULT_LOG")}
	if s := os.Getenv("VH_FAULT_STEP"); s != "" {
		f.At, _ = strconv.Atoi(s)
	}
	if f.Mode == "none" {
		f.Mode = ""
	}
	return f
}

type Interposer struct {
	mu     sync.Mutex
	armed  bool
	steps  []string
	fault  Fault
	fired  bool
	known  map[imap.InternalMessageID]bool
	names  map[imap.InternalMessageID]string
	nOld   int
	nNew   int
	client db.Client // the real client of the (single) user
	store  store.Store
	// StorePath is the directory of the user's cache files.
	StorePath string
}

func NewInterposer(f Fault) *Interposer {
	return &Interposer{fault: f, armed: f.EarlyArm, known: map[imap.InternalMessageID]bool{}, names: map[imap.InternalMessageID]string{}}
}

// RealRead runs a read on the real client, unrecorded (harness audits).
func (ip *Interposer) RealRead(fn func(context.Context, db.ReadOnly) error) error {
	if ip.client == nil {
		return fmt.Errorf("no client")
	}
	return ip.client.Read(context.Background(), fn)
}

// Arm starts the marked operation: from now on steps are recorded and the fault is live.
func (ip *Interposer) Arm() error {
	ids := map[imap.InternalMessageID]struct{}{}
	if err := ip.RealRead(func(ctx context.Context, rd db.ReadOnly) error {
		var err error
		ids, err = rd.GetAllMessagesIDsAsMap(ctx)
		return err
	}); err != nil {
		return err
	}
	ip.mu.Lock()
	defer ip.mu.Unlock()
	for id := range ids {
		ip.known[id] = true
	}
	ip.steps = nil
	ip.names = map[imap.InternalMessageID]string{}
	ip.nOld, ip.nNew = 0, 0
	ip.armed = true
	return nil
}

// Disarm ends the marked operation and returns the recorded steps.
func (ip *Interposer) Disarm() []string {
	ip.mu.Lock()
	defer ip.mu.Unlock()
	ip.armed = false
	return append([]string{}, ip.steps...)
}

func (ip *Interposer) StepCount() int {
	ip.mu.Lock()
	defer ip.mu.Unlock()
	return len(ip.steps)
}

func (ip *Interposer) Fired() bool {
	ip.mu.Lock()
	defer ip.mu.Unlock()
	return ip.fired
}

func (ip *Interposer) idName(id imap.InternalMessageID) string {
	if n, ok := ip.names[id]; ok {
		return n
	}
	var n string
	if ip.known[id] {
		ip.nOld++
		n = fmt.Sprintf("o%d", ip.nOld)
	} else {
		ip.nNew++
		n = fmt.Sprintf("n%d", ip.nNew)
	}
	ip.names[id] = n
	return n
}

func (ip *Interposer) idNames(ids []imap.InternalMessageID) string {
	if len(ids) == 0 {
		return "-"
	}
	out := make([]string, len(ids))
	for i, id := range ids {
		out[i] = ip.idName(id)
	}
	return strings.Join(out, ",")
}

func (ip *Interposer) die() {
	if ip.fault.Log != "" {
		_ = os.WriteFile(ip.fault.Log, []byte(strings.Join(ip.steps, "\n")+"\n"), 0o644)
	}
	_ = syscall.Kill(os.Getpid(), syscall.SIGKILL)
	select {}
}

// point records a step; returns what the caller has to do: "" (perform it), "err", or a Set sub-mode.
// In kill mode it does not return.
func (ip *Interposer) point(name string) string {
	ip.mu.Lock()
	defer ip.mu.Unlock()
	if !ip.armed {
		return ""
	}
	idx := len(ip.steps)
	ip.steps = append(ip.steps, name)
	if idx != ip.fault.At || ip.fault.Mode == "" {
		return ""
	}
	ip.fired = true
	switch ip.fault.Mode {
	case "kill":
		ip.die()
	case "err":
		if ip.fault.Log != "" {
			_ = os.WriteFile(ip.fault.Log, []byte(strings.Join(ip.steps, "\n")+"\n"), 0o644)
		}
		return "err"
	case "killnonce", "killhalf", "errhalf":
		if strings.HasPrefix(name, "store.Set:") {
			return ip.fault.Mode
		}
		// not a Set: degrade to the plain variant
		if ip.fault.Mode == "errhalf" {
			return "err"
		}
		ip.die()
	}
	return ""
}

func (ip *Interposer) step(name string) error {
	if ip.point(name) == "err" {
		return ErrInjected
	}
	return nil
}

// ---- store ---------------------------------------------------------------------------------

type IPStoreBuilder struct {
	ip   *Interposer
	real store.Builder
}

func NewIPStoreBuilder(ip *Interposer) *IPStoreBuilder {
	return &IPStoreBuilder{ip: ip, real: &store.OnDiskStoreBuilder{}}
}

func (b *IPStoreBuilder) New(dir, userID string, passphrase []byte) (store.Store, error) {
	st, err := b.real.New(dir, userID, passphrase)
	if err != nil {
		return nil, err
	}
	b.ip.store = st
	b.ip.StorePath = filepath.Join(dir, userID)
	return &ipStore{ip: b.ip, st: st}, nil
}

func (b *IPStoreBuilder) Delete(dir, userID string) error { return b.real.Delete(dir, userID) }

type ipStore struct {
	ip *Interposer
	st store.Store
}

func (s *ipStore) name(id imap.InternalMessageID) string {
	s.ip.mu.Lock()
	defer s.ip.mu.Unlock()
	return s.ip.idName(id)
}

func (s *ipStore) Get(id imap.InternalMessageID) ([]byte, error) {
	if err := s.ip.step("store.Get:" + s.name(id)); err != nil {
		return nil, err
	}
	return s.st.Get(id)
}

// killReader delivers `deliver` bytes of the underlying reader and then either kills the process
// (after waiting until the cache file has at least minSize bytes) or fails.
type killReader struct {
	ip      *Interposer
	in      io.Reader
	deliver int
	path    string
	minSize int64
	kill    bool
}

func (k *killReader) Read(p []byte) (int, error) {
	if k.deliver > 0 {
		if len(p) > k.deliver {
			p = p[:k.deliver]
		}
		n, err := k.in.Read(p)
		k.deliver -= n
		if err == nil || n > 0 {
			return n, nil
		}
	}
	// let the writer goroutine put what it has on disk
	for i := 0; i < 400; i++ {
		if st, err := os.Stat(k.path); err == nil && st.Size() >= k.minSize {
			break
		}
		time.Sleep(5 * time.Millisecond)
	}
	time.Sleep(20 * time.Millisecond)
	if k.kill {
		k.ip.mu.Lock()
		k.ip.die()
	}
	return 0, ErrInjected
}

const storeHeaderAndNonce = 15 + 12 // "GLUON-CACHE" + version(4) + GCM nonce(12)

func (s *ipStore) Set(id imap.InternalMessageID, in io.Reader) error {
	switch s.ip.point("store.Set:" + s.name(id)) {
	case "err":
		return ErrInjected
	case "killnonce":
		return s.st.Set(id, &killReader{ip: s.ip, in: in, deliver: 0, path: filepath.Join(s.ip.StorePath, id.String()), minSize: storeHeaderAndNonce, kill: true})
	case "killhalf", "errhalf":
		b, err := io.ReadAll(in)
		if err != nil {
			return err
		}
		return s.st.Set(id, &killReader{ip: s.ip, in: strings.NewReader(string(b)), deliver: len(b) / 2, path: filepath.Join(s.ip.StorePath, id.String()), minSize: storeHeaderAndNonce, kill: s.ip.fault.Mode == "killhalf"})
	}
	return s.st.Set(id, in)
}

func (s *ipStore) Delete(ids ...imap.InternalMessageID) error {
	s.ip.mu.Lock()
	n := s.ip.idNames(ids)
	s.ip.mu.Unlock()
	if err := s.ip.step("store.Delete:" + n); err != nil {
		return err
	}
	return s.st.Delete(ids...)
}

func (s *ipStore) List() ([]imap.InternalMessageID, error) {
	if err := s.ip.step("store.List"); err != nil {
		return nil, err
	}
	return s.st.List()
}

func (s *ipStore) Close() error { return s.st.Close() }

// ---- database ------------------------------------------------------------------------------

type IPDB struct {
	ip   *Interposer
	real db.ClientInterface
}

func NewIPDB(ip *Interposer) *IPDB { return &IPDB{ip: ip, real: verifhooks.NewSQLiteDB()} }

func (d *IPDB) New(path string, userID string) (db.Client, bool, error) {
	c, isNew, err := d.real.New(path, userID)
	if err != nil {
		return nil, false, err
	}
	d.ip.client = c
	return &ipClient{ip: d.ip, c: c}, isNew, nil
}

func (d *IPDB) Delete(path string, userID string) error { return d.real.Delete(path, userID) }

type ipClient struct {
	ip *Interposer
	c  db.Client
}

func (c *ipClient) Init(ctx context.Context, g imap.UIDValidityGenerator) error {
	return c.c.Init(ctx, g)
}
func (c *ipClient) Close() error { return c.c.Close() }

func (c *ipClient) Read(ctx context.Context, op func(context.Context, db.ReadOnly) error) error {
	if err := c.ip.step("rd.begin"); err != nil {
		return err
	}
	return c.c.Read(ctx, func(ctx context.Context, rd db.ReadOnly) error {
		return op(ctx, &ipRO{ReadOnly: rd, ip: c.ip})
	})
}

func (c *ipClient) Write(ctx context.Context, op func(context.Context, db.Transaction) error) error {
	if err := c.ip.step("tx.begin"); err != nil {
		return err
	}
	return c.c.Write(ctx, func(ctx context.Context, tx db.Transaction) error {
		if err := op(ctx, &ipTx{Transaction: tx, ip: c.ip}); err != nil {
			c.ip.note("tx.rollback")
			return err
		}
		// the real commit happens when this callback returns nil
		return c.ip.step("tx.commit")
	})
}

// note records an annotation that is not a fault point (does not consume a step index): it is
// attached to the previous step.
func (ip *Interposer) note(s string) {
	ip.mu.Lock()
	defer ip.mu.Unlock()
	if ip.armed && len(ip.steps) > 0 {
		ip.steps[len(ip.steps)-1] += "!" + s
	}
}

// hand-written Transaction methods that record the message ids they touch

func (w *ipTx) ids(ids []imap.InternalMessageID) string {
	w.ip.mu.Lock()
	defer w.ip.mu.Unlock()
	return w.ip.idNames(ids)
}

func (w *ipTx) CreateMessages(ctx context.Context, reqs ...*db.CreateMessageReq) error {
	var ids []imap.InternalMessageID
	for _, r := range reqs {
		ids = append(ids, r.InternalID)
	}
	if err := w.ip.step("tx.CreateMessages:" + w.ids(ids)); err != nil {
		return err
	}
	return w.Transaction.CreateMessages(ctx, reqs...)
}

func (w *ipTx) CreateMessageAndAddToMailbox(ctx context.Context, mbox imap.InternalMailboxID, req *db.CreateMessageReq) (imap.UID, imap.FlagSet, error) {
	if err := w.ip.step("tx.CreateMessageAndAddToMailbox:" + w.ids([]imap.InternalMessageID{req.InternalID})); err != nil {
		return 0, imap.FlagSet{}, err
	}
	return w.Transaction.CreateMessageAndAddToMailbox(ctx, mbox, req)
}

func (w *ipTx) DeleteMessages(ctx context.Context, ids []imap.InternalMessageID) error {
	if err := w.ip.step("tx.DeleteMessages:" + w.ids(ids)); err != nil {
		return err
	}
	return w.Transaction.DeleteMessages(ctx, ids)
}

func (w *ipTx) MarkMessageAsDeleted(ctx context.Context, id imap.InternalMessageID) error {
	if err := w.ip.step("tx.MarkMessageAsDeleted:" + w.ids([]imap.InternalMessageID{id})); err != nil {
		return err
	}
	return w.Transaction.MarkMessageAsDeleted(ctx, id)
}

func (w *ipTx) MarkMessageAsDeletedAndAssignRandomRemoteID(ctx context.Context, id imap.InternalMessageID) error {
	if err := w.ip.step("tx.MarkMessageAsDeletedAndAssignRandomRemoteID:" + w.ids([]imap.InternalMessageID{id})); err != nil {
		return err
	}
	return w.Transaction.MarkMessageAsDeletedAndAssignRandomRemoteID(ctx, id)
}

var _ db.Transaction = (*ipTx)(nil)
var _ db.ReadOnly = (*ipRO)(nil)

// c07CheckInterfaces: the generated wrappers (interpose_gen.go) must cover exactly the methods gluon's
// db.ReadOnly / db.Transaction have now; otherwise calls of a new method would go unrecorded.
func c07CheckInterfaces() error {
	diff := func(t reflect.Type, have map[string]bool) []string {
		var out []string
		seen := map[string]bool{}
		for i := 0; i < t.NumMethod(); i++ {
			n := t.Method(i).Name
			seen[n] = true
			if !have[n] {
				out = append(out, "+"+n)
			}
		}
		for n := range have {
			if !seen[n] {
				out = append(out, "-"+n)
			}
		}
		sort.Strings(out)
		return out
	}
	txHave := map[string]bool{}
	for _, n := range ipTxMethodNames {
		txHave[n] = true
	}
	d := append(diff(reflect.TypeOf((*db.Transaction)(nil)).Elem(), txHave), diff(reflect.TypeOf((*db.ReadOnly)(nil)).Elem(), ipROMethodNames)...)
	if len(d) > 0 {
		return fmt.Errorf("db interface changed (%s): run tools/c07gen (cd /verif/tools/c07gen && go run . /repo > ../../harness/interpose_gen.go)", strings.Join(d, " "))
	}
	return nil
}
