package main

// Dialects `flush` and `merge` (C01, C05): the real State.flushResponses / response.Merge
// against the Lean model (GluonModel/Model/Responder.lean, Resp.lean).

import (
	"fmt"
	"io"
	"regexp"
	"sort"
	"strconv"
	"strings"

	"github.com/ProtonMail/gluon/verifhooks"
)

func splitNonEmpty(s, sep string) []string {
	if s == "-" || s == "" {
		return nil
	}
	return strings.Split(s, sep)
}

func parseFlags(s string) []string { return splitNonEmpty(s, ",") }

// showFlags: lower-cased, de-duplicated, sorted (canonical form shared with the Lean codec).
func showFlags(f []string) string {
	seen := map[string]bool{}
	var out []string
	for _, x := range f {
		x = strings.ToLower(x)
		if !seen[x] {
			seen[x] = true
			out = append(out, x)
		}
	}
	if len(out) == 0 {
		return "-"
	}
	sort.Strings(out)
	return strings.Join(out, ",")
}

func atoi(s string) int {
	n, err := strconv.Atoi(s)
	if err != nil {
		panic("bad number " + s)
	}
	return n
}

func b2s(b bool) string {
	if b {
		return "1"
	}
	return "0"
}

func parseSnap(s string) []verifhooks.Msg {
	var out []verifhooks.Msg
	for _, it := range splitNonEmpty(s, ";") {
		p := strings.Split(it, ":")
		out = append(out, verifhooks.Msg{ID: uint64(atoi(p[0])), UID: uint32(atoi(p[1])), Flags: parseFlags(p[2])})
	}
	return out
}

func showSnap(ms []verifhooks.Msg) string {
	if len(ms) == 0 {
		return "-"
	}
	var parts []string
	for _, m := range ms {
		parts = append(parts, fmt.Sprintf("%d:%d:%s", m.ID, m.UID, showFlags(m.Flags)))
	}
	return strings.Join(parts, ";")
}

var opNames = []string{"add", "rem", "set"} // FetchFlagOpAdd, FetchFlagOpRem, FetchFlagOpSet

func parseQueue(s string) []verifhooks.Responder {
	var out []verifhooks.Responder
	for _, it := range splitNonEmpty(s, ";") {
		p := strings.Split(it, ":")
		switch p[0] {
		case "X":
			r := verifhooks.Responder{Kind: "X", ID: uint64(atoi(p[1])), UID: uint32(atoi(p[2])), Flags: parseFlags(p[3]), Target: int64(atoi(p[4]))}
			if p[5] != "-" {
				r.OriginSet = true
				r.Origin = int64(atoi(p[5]))
			}
			out = append(out, r)
		case "D":
			out = append(out, verifhooks.Responder{Kind: "D", ID: uint64(atoi(p[1]))})
		case "F":
			op := 2
			for i, n := range opNames {
				if n == p[3] {
					op = i
				}
			}
			out = append(out, verifhooks.Responder{Kind: "F", ID: uint64(atoi(p[1])), Flags: parseFlags(p[2]), Op: op, AsUID: p[4] == "1", Silent: p[5] == "1", Other: p[6] == "1"})
		default:
			panic("bad responder " + it)
		}
	}
	return out
}

func showQueue(q []verifhooks.Responder) string {
	if len(q) == 0 {
		return "-"
	}
	var parts []string
	for _, r := range q {
		switch r.Kind {
		case "X":
			org := "-"
			if r.OriginSet {
				org = strconv.FormatInt(r.Origin, 10)
			}
			parts = append(parts, fmt.Sprintf("X:%d:%d:%s:%d:%s", r.ID, r.UID, showFlags(r.Flags), r.Target, org))
		case "D":
			parts = append(parts, fmt.Sprintf("D:%d", r.ID))
		case "F":
			parts = append(parts, fmt.Sprintf("F:%d:%s:%s:%s:%s:%s", r.ID, showFlags(r.Flags), opNames[r.Op], b2s(r.AsUID), b2s(r.Silent), b2s(r.Other)))
		}
	}
	return strings.Join(parts, ";")
}

var (
	reCount = regexp.MustCompile(`^\* (\d+) (EXISTS|RECENT|EXPUNGE)$`)
	reFetch = regexp.MustCompile(`^\* (\d+) FETCH \((.*)\)$`)
	reFlags = regexp.MustCompile(`FLAGS \(([^)]*)\)`)
	reUID   = regexp.MustCompile(`UID (\d+)`)
)

var reLiteral = regexp.MustCompile(`\{(\d+)\}\r\n`)

// stripLiterals removes IMAP literals ({n}CRLF + n bytes) so that patterns never match message content.
func stripLiterals(s string) string {
	for {
		loc := reLiteral.FindStringSubmatchIndex(s)
		if loc == nil {
			return s
		}
		n, _ := strconv.Atoi(s[loc[2]:loc[3]])
		end := loc[1] + n
		if end > len(s) {
			end = len(s)
		}
		s = s[:loc[0]] + "<literal>" + s[end:]
	}
}

// canonResp renders a wire-format untagged response in the codec's form.
func canonResp(s string) string {
	s = stripLiterals(s)
	if m := reCount.FindStringSubmatch(s); m != nil {
		return map[string]string{"EXISTS": "E", "RECENT": "R", "EXPUNGE": "X"}[m[2]] + m[1]
	}
	if m := reFetch.FindStringSubmatch(s); m != nil {
		fl, uid := "~", "~"
		if f := reFlags.FindStringSubmatch(m[2]); f != nil {
			fl = showFlags(strings.Fields(f[1]))
		}
		if u := reUID.FindStringSubmatch(m[2]); u != nil {
			uid = u[1]
		}
		return fmt.Sprintf("F%s:%s:%s", m[1], fl, uid)
	}
	return "?" + strings.ReplaceAll(s, " ", "_")
}

func showResps(rs []string) string {
	if len(rs) == 0 {
		return "-"
	}
	out := make([]string, len(rs))
	for i, r := range rs {
		out[i] = canonResp(r)
	}
	return strings.Join(out, ";")
}

func implFlush(args []string) string {
	if len(args) != 5 {
		return "bad-op"
	}
	res := verifhooks.Flush(args[0] == "1", args[1] == "1", int64(atoi(args[2])), parseSnap(args[3]), parseQueue(args[4]))
	var head string
	switch {
	case res.Panic != nil:
		ps := fmt.Sprint(res.Panic)
		if strings.Contains(ps, "must be non-decreasing") {
			head = "panic merge"
		} else {
			head = "err panic"
		}
	case res.Err != nil:
		es := res.Err.Error()
		switch {
		case strings.Contains(es, "strictly ascending"):
			head = "err outoforder"
		case strings.Contains(es, "no such message"):
			head = "err nosuchmessage"
		default:
			head = "err other:" + strings.ReplaceAll(es, " ", "_")
		}
	default:
		head = "ok out=" + showResps(res.Out)
	}
	return fmt.Sprintf("%s snap=%s rem=%s issued=%s", head, showSnap(res.Snap), showQueue(res.Rem), b2s(res.Issued))
}

func parseResps(s string) []verifhooks.Resp {
	var out []verifhooks.Resp
	for _, it := range splitNonEmpty(s, ";") {
		switch it[0] {
		case 'E', 'R', 'X':
			out = append(out, verifhooks.Resp{Kind: it[:1], N: uint32(atoi(it[1:]))})
		case 'F':
			p := strings.Split(it[1:], ":")
			r := verifhooks.Resp{Kind: "F", N: uint32(atoi(p[0]))}
			if p[1] != "~" {
				r.HasFlags = true
				r.Flags = parseFlags(p[1])
			}
			if p[2] != "~" {
				r.HasUID = true
				r.UID = uint32(atoi(p[2]))
			}
			out = append(out, r)
		default:
			panic("bad resp " + it)
		}
	}
	return out
}

func implMerge(args []string) string {
	if len(args) != 2 {
		return "bad-op"
	}
	out, p := verifhooks.Merge(parseResps(args[1]))
	if p != nil {
		return "panic"
	}
	return showResps(out)
}

var flagPool = []string{`\Seen`, `\Deleted`, `\Recent`, `\Flagged`, `\Answered`, `custom`, `\seen`, `\DELETED`}

func genFlags(r *Rng) []string {
	var f []string
	n := r.Intn(4)
	for i := 0; i < n; i++ {
		f = append(f, Pick(r, flagPool))
	}
	return f
}

// rawFlags keeps the generated spelling (the codecs canonicalise on both sides).
func rawFlags(f []string) string {
	if len(f) == 0 {
		return "-"
	}
	return strings.Join(f, ",")
}

func genFlush(r *Rng, n int, w io.Writer, st *Stats) {
	for i := 0; i < n; i++ {
		nmsg := Pick(r, []int{0, 0, 1, 2, 3, 5, 8, 12})
		var snap []string
		uid := 0
		var ids []int
		for k := 0; k < nmsg; k++ {
			uid += r.Range(1, 3)
			id := k + 1
			ids = append(ids, id)
			snap = append(snap, fmt.Sprintf("%d:%d:%s", id, uid, rawFlags(genFlags(r))))
		}
		nextID := nmsg + 1
		nextUID := uid + 1
		var gone []int // ids for which an expunge was queued (candidates for re-add)
		qlen := Pick(r, []int{0, 1, 2, 3, 4, 6, 8, 12})
		var q []string
		for k := 0; k < qlen; k++ {
			pickID := func() int {
				if len(ids) > 0 && r.Chance(4, 5) {
					return Pick(r, ids)
				}
				return r.Range(1, nextID+1)
			}
			switch c := r.Intn(10); {
			case c < 3: // exists
				id := nextID
				if len(gone) > 0 && r.Chance(1, 2) {
					id = Pick(r, gone) // re-add of a removed message (same internal id, new UID)
					st.Inc("flush.readd")
				} else if r.Chance(1, 8) {
					id = pickID() // exists for a message already present
				} else {
					nextID++
					ids = append(ids, id)
				}
				u := nextUID
				nextUID += r.Range(1, 2)
				if r.Chance(1, 10) && uid > 1 {
					u = r.Range(1, nextUID) // out-of-order or duplicate UID
					st.Inc("flush.exists.oddUID")
				}
				org := "-"
				if r.Chance(1, 2) {
					org = strconv.Itoa(r.Range(1, 3))
				}
				q = append(q, fmt.Sprintf("X:%d:%d:%s:%d:%s", id, u, rawFlags(genFlags(r)), r.Range(1, 3), org))
			case c < 6: // expunge
				id := pickID()
				gone = append(gone, id)
				q = append(q, fmt.Sprintf("D:%d", id))
			default: // fetch
				q = append(q, fmt.Sprintf("F:%d:%s:%s:%s:%s:%s", pickID(), rawFlags(genFlags(r)), Pick(r, opNames), b2s(r.Bool()), b2s(r.Chance(1, 4)), b2s(r.Chance(1, 4))))
			}
		}
		permit := r.Bool()
		closeCtx := r.Chance(1, 6)
		sn, qs := "-", "-"
		if len(snap) > 0 {
			sn = strings.Join(snap, ";")
		}
		if len(q) > 0 {
			qs = strings.Join(q, ";")
		}
		st.Inc(fmt.Sprintf("flush.permit=%v", permit))
		st.Inc(fmt.Sprintf("flush.close=%v", closeCtx))
		st.Inc(fmt.Sprintf("flush.snaplen=%d", nmsg))
		st.Inc(fmt.Sprintf("flush.qlen=%d", qlen))
		fmt.Fprintf(w, "flush %s %s %d %s %s\n", b2s(permit), b2s(closeCtx), r.Range(1, 3), sn, qs)
	}
}

func genMerge(r *Rng, n int, w io.Writer, st *Stats) {
	for i := 0; i < n; i++ {
		count := r.Intn(6)
		n0 := count
		recent := 0
		length := Pick(r, []int{0, 1, 2, 3, 5, 8, 12, 20})
		garbage := r.Chance(1, 6) // unconstrained stream (may be inexplicable; Merge may panic)
		var rs []string
		for k := 0; k < length; k++ {
			fl := "~"
			if r.Chance(4, 5) {
				fl = rawFlags(genFlags(r))
			}
			uid := "~"
			switch c := r.Intn(10); {
			case c < 3:
				if garbage {
					count = r.Intn(8)
				} else {
					count += r.Intn(3)
				}
				rs = append(rs, fmt.Sprintf("E%d", count))
			case c < 5:
				if garbage {
					recent = r.Intn(5)
				} else {
					recent += r.Intn(2)
				}
				rs = append(rs, fmt.Sprintf("R%d", recent))
			case c < 6 && (count > 0 || garbage):
				seq := r.Range(1, max(count, 1))
				if garbage {
					seq = r.Range(0, 8)
				}
				rs = append(rs, fmt.Sprintf("X%d", seq))
				if count > 0 {
					count--
				}
				recent = 0
			case count > 0 || garbage:
				seq := r.Range(1, max(count, 1))
				if garbage {
					seq = r.Range(0, 8)
				}
				if r.Chance(1, 2) {
					uid = strconv.Itoa(100 + seq) // consistent per position only while no expunge; fine for Merge
				}
				rs = append(rs, fmt.Sprintf("F%d:%s:%s", seq, fl, uid))
			default:
				count++
				rs = append(rs, fmt.Sprintf("E%d", count))
			}
		}
		st.Inc(fmt.Sprintf("merge.len=%d", length))
		st.Inc(fmt.Sprintf("merge.garbage=%v", garbage))
		s := "-"
		if len(rs) > 0 {
			s = strings.Join(rs, ";")
		}
		fmt.Fprintf(w, "merge %d %s\n", n0, s)
	}
}

func init() {
	Register(&Dialect{Name: "flush", Impl: implFlush, Gen: genFlush})
	Register(&Dialect{Name: "merge", Impl: implMerge, Gen: genMerge})
}
