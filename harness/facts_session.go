package main

// Facts/Session.lean (C11, session loop): the constants and statement shapes of
// internal/session/session.go `serve`, internal/session/command.go `startCommandReader`,
// internal/session/handle_starttls.go and imap/command/parser.go `Parse` that the model
// `Model/SessionLoop.lean` is parameterised by (`Model/SessionLoopFacts.lean`).
//
// Everything is read off the syntax tree; a shape the translator does not know is emitted as
// `none` / as the rendered text it found, and the Lean side never maps that to the good case.

import (
	"fmt"
	"go/ast"
	"go/token"
	"strconv"
	"strings"
)

func init() { factGens = append(factGens, factGen{"Session", c11sFactsSession}) }

func c11sFindFunc(files []*ast.File, name string) *ast.FuncDecl {
	for _, f := range files {
		for _, d := range f.Decls {
			if fd, ok := d.(*ast.FuncDecl); ok && fd.Name.Name == name && fd.Body != nil {
				return fd
			}
		}
	}
	return nil
}

// c11sSkeleton renders a statement list as one short text per statement: conditions and simple
// statements in full, bodies reduced to `return` / `continue` / `…`.
func c11sSkeleton(c *factsCtx, list []ast.Stmt) []string {
	var out []string
	body := func(b *ast.BlockStmt) string {
		if b == nil {
			return ""
		}
		var parts []string
		for _, st := range b.List {
			switch x := st.(type) {
			case *ast.ReturnStmt:
				parts = append(parts, strings.TrimSpace("return "+c11sRenderList(c, x.Results)))
			case *ast.BranchStmt:
				parts = append(parts, x.Tok.String())
			case *ast.ExprStmt:
				if call, ok := x.X.(*ast.CallExpr); ok {
					parts = append(parts, "call "+calleeQualified(call))
				} else {
					parts = append(parts, "…")
				}
			default:
				parts = append(parts, "…")
			}
		}
		return "{ " + strings.Join(parts, "; ") + " }"
	}
	for _, st := range list {
		switch x := st.(type) {
		case *ast.IfStmt:
			s := "if "
			if x.Init != nil {
				s += c.render(x.Init) + "; "
			}
			s += c.render(x.Cond) + " " + body(x.Body)
			if x.Else != nil {
				if eb, ok := x.Else.(*ast.BlockStmt); ok {
					s += " else " + body(eb)
				} else {
					s += " else …"
				}
			}
			out = append(out, s)
		case *ast.RangeStmt:
			out = append(out, "range "+c.render(x.X)+" { "+strings.Join(c11sSkeleton(c, x.Body.List), "; ")+" }")
		case *ast.DeclStmt:
			out = append(out, "decl "+c.render(x.Decl))
		case *ast.AssignStmt:
			out = append(out, c.render(x))
		case *ast.ExprStmt:
			if call, ok := x.X.(*ast.CallExpr); ok {
				out = append(out, "call "+c11sCallHead(call))
			} else {
				out = append(out, c.render(x))
			}
		case *ast.ReturnStmt:
			out = append(out, strings.TrimSpace("return "+c11sRenderList(c, x.Results)))
		case *ast.BranchStmt:
			out = append(out, x.Tok.String())
		default:
			out = append(out, fmt.Sprintf("%T", st))
		}
	}
	return out
}

func c11sRenderList(c *factsCtx, l []ast.Expr) string {
	var parts []string
	for _, e := range l {
		parts = append(parts, c.render(e))
	}
	return strings.Join(parts, ", ")
}

// c11sCallHead: the innermost receiver / function of a call chain `a.b(...).c(...).d(...)` → "a.b"
func c11sCallHead(call *ast.CallExpr) string {
	for {
		sel, ok := call.Fun.(*ast.SelectorExpr)
		if !ok {
			return calleeQualified(call)
		}
		inner, ok := sel.X.(*ast.CallExpr)
		if !ok {
			return calleeQualified(call)
		}
		call = inner
	}
}

func c11sFactsSession(c *factsCtx, outdir string) error {
	sess := c.parseDir("internal/session")
	cmdp := c.parseDir("imap/command")

	// ---- const maxSessionError ----------------------------------------------------------
	maxErr := "none"
	for _, f := range sess {
		for _, d := range f.Decls {
			gd, ok := d.(*ast.GenDecl)
			if !ok || gd.Tok != token.CONST {
				continue
			}
			for _, sp := range gd.Specs {
				vs, ok := sp.(*ast.ValueSpec)
				if !ok {
					continue
				}
				for i, n := range vs.Names {
					if n.Name == "maxSessionError" && i < len(vs.Values) {
						if bl, ok := vs.Values[i].(*ast.BasicLit); ok && bl.Kind == token.INT {
							if v, err := strconv.ParseUint(bl.Value, 0, 32); err == nil {
								maxErr = fmt.Sprintf("(some %d)", v)
							}
						}
					}
				}
			}
		}
	}

	// ---- serve: the `if res.err != nil { … } else { … }` ----------------------------------
	badTagExpr, incr, cmpOp, cmpRhs, closeReturns, elseReset := "unknown", "none", "unknown", "unknown", "none", "none"
	var serveErrBranch []string
	if fd := c11sFindFunc(sess, "serve"); fd != nil {
		ast.Inspect(fd.Body, func(n ast.Node) bool {
			ifs, ok := n.(*ast.IfStmt)
			if !ok || c.render(ifs.Cond) != "res.err != nil" || ifs.Init != nil {
				return true
			}
			// only the one directly under `case res, ok := <-cmdCh` (it has an else branch)
			if ifs.Else == nil {
				return true
			}
			serveErrBranch = c11sSkeleton(c, ifs.Body.List)
			for _, st := range ifs.Body.List {
				inner, ok := st.(*ast.IfStmt)
				if !ok {
					continue
				}
				// `if err := response.Bad(X)….Send(s); err != nil { return err }`
				if as, ok := inner.Init.(*ast.AssignStmt); ok && len(as.Rhs) == 1 {
					ast.Inspect(as.Rhs[0], func(m ast.Node) bool {
						if call, ok := m.(*ast.CallExpr); ok && calleeQualified(call) == "response.Bad" {
							if len(call.Args) == 1 {
								badTagExpr = c.render(call.Args[0])
							} else {
								badTagExpr = fmt.Sprintf("%d args", len(call.Args))
							}
						}
						return true
					})
					// `if s.errorCount += 1; s.errorCount >= maxSessionError { …; return nil }`
					if as.Tok == token.ADD_ASSIGN && c.render(as.Lhs[0]) == "s.errorCount" {
						incr = leanOptBool(strconv.FormatBool(c.render(as.Rhs[0]) == "1"))
						if be, ok := inner.Cond.(*ast.BinaryExpr); ok && c.render(be.X) == "s.errorCount" {
							cmpOp, cmpRhs = be.Op.String(), c.render(be.Y)
						}
						closeReturns = "(some false)"
						if k := len(inner.Body.List); k > 0 {
							if rs, ok := inner.Body.List[k-1].(*ast.ReturnStmt); ok && c11sRenderList(c, rs.Results) == "nil" {
								closeReturns = "(some true)"
							}
						}
					}
				}
			}
			if eb, ok := ifs.Else.(*ast.BlockStmt); ok {
				elseReset = "(some false)"
				if len(eb.List) == 1 && c.render(eb.List[0]) == "s.errorCount = 0" {
					elseReset = "(some true)"
				}
			}
			return false
		})
	}

	// ---- startCommandReader: tlsHeaders and the error branch --------------------------------
	tlsHeaders := "none"
	var readerErrBranch []string
	startTLSInReader := "none"
	if fd := c11sFindFunc(sess, "startCommandReader"); fd != nil {
		ast.Inspect(fd.Body, func(n ast.Node) bool {
			switch x := n.(type) {
			case *ast.AssignStmt:
				if len(x.Lhs) == 1 && c.render(x.Lhs[0]) == "tlsHeaders" && len(x.Rhs) == 1 {
					if cl, ok := x.Rhs[0].(*ast.CompositeLit); ok {
						var rows []string
						good := true
						for _, el := range cl.Elts {
							row, ok := el.(*ast.CompositeLit)
							if !ok {
								good = false
								break
							}
							var vals []string
							for _, b := range row.Elts {
								bl, ok := b.(*ast.BasicLit)
								if !ok || bl.Kind != token.INT {
									good = false
									break
								}
								v, err := strconv.ParseUint(bl.Value, 0, 8)
								if err != nil {
									good = false
									break
								}
								vals = append(vals, fmt.Sprint(v))
							}
							rows = append(rows, "["+strings.Join(vals, ", ")+"]")
						}
						if good {
							tlsHeaders = "(some [" + strings.Join(rows, ", ") + "])"
						}
					}
				}
			case *ast.IfStmt:
				if x.Init == nil && c.render(x.Cond) == "err != nil" && x.Else != nil && readerErrBranch == nil {
					readerErrBranch = c11sSkeleton(c, x.Body.List)
				}
			case *ast.TypeSwitchStmt:
				// `case *command.StartTLS: if err = s.handleStartTLS(…); err != nil { …; return } else { continue }`
				for _, cc := range x.Body.List {
					cl, ok := cc.(*ast.CaseClause)
					if !ok || len(cl.List) != 1 || c.render(cl.List[0]) != "*command.StartTLS" {
						continue
					}
					startTLSInReader = "(some false)"
					if len(cl.Body) == 1 {
						if ifs, ok := cl.Body[0].(*ast.IfStmt); ok && strings.Contains(c.render(ifs.Init), "s.handleStartTLS(") {
							sk := c11sSkeleton(c, []ast.Stmt{ifs})
							if len(sk) == 1 && strings.HasSuffix(sk[0], "return } else { continue }") {
								startTLSInReader = "(some true)"
							}
						}
					}
				}
			}
			return true
		})
	}

	// ---- handleStartTLS: the nil-config branch ------------------------------------------------
	startTLSNil := "unknown"
	if fd := c11sFindFunc(sess, "handleStartTLS"); fd != nil && len(fd.Body.List) > 0 {
		if ifs, ok := fd.Body.List[0].(*ast.IfStmt); ok && c.render(ifs.Cond) == "s.tlsConfig == nil" {
			sk := c11sSkeleton(c, ifs.Body.List)
			startTLSNil = strings.Join(sk, "; ")
		}
	}

	// ---- handleIdle: what the waiting loop does with a reader result ---------------------------
	var idleLoop []string
	if fd := c11sFindFunc(sess, "handleIdle"); fd != nil {
		ast.Inspect(fd.Body, func(n ast.Node) bool {
			cc, ok := n.(*ast.CommClause)
			if !ok || cc.Comm == nil || !strings.Contains(c.render(cc.Comm), "<-cmdCh") {
				return true
			}
			idleLoop = c11sSkeleton(c, cc.Body)
			return false
		})
		ast.Inspect(fd.Body, func(n ast.Node) bool {
			ts, ok := n.(*ast.TypeSwitchStmt)
			if !ok {
				return true
			}
			for _, st := range ts.Body.List {
				if cl, ok := st.(*ast.CaseClause); ok {
					name := "default"
					if len(cl.List) == 1 {
						name = c.render(cl.List[0])
					}
					idleLoop = append(idleLoop, "case "+name+": "+strings.Join(c11sSkeleton(c, cl.Body), "; "))
				}
			}
			return false
		})
	}

	// ---- handleIdle: what follows `err := s.state.Idle(...)` (empty when the function is `return s.state.Idle(...)`) ----
	idleTail := []string{"unknown"}
	if fd := c11sFindFunc(sess, "handleIdle"); fd != nil {
		for i, st := range fd.Body.List {
			switch x := st.(type) {
			case *ast.ReturnStmt:
				if len(x.Results) == 1 && strings.HasPrefix(c.render(x.Results[0]), "s.state.Idle(") {
					idleTail = []string{}
				}
			case *ast.AssignStmt:
				if len(x.Lhs) == 1 && c.render(x.Lhs[0]) == "err" && len(x.Rhs) == 1 && strings.HasPrefix(c.render(x.Rhs[0]), "s.state.Idle(") {
					idleTail = c11sSkeleton(c, fd.Body.List[i+1:])
				}
			}
		}
	}

	// ---- command.Parser.Parse: what each return statement returns --------------------------------
	var parseReturns []string
	for _, f := range cmdp {
		for _, d := range f.Decls {
			fd, ok := d.(*ast.FuncDecl)
			if !ok || fd.Name.Name != "Parse" || fd.Recv == nil || fd.Body == nil || funcQualName(fd) != "Parser.Parse" {
				continue
			}
			ast.Inspect(fd.Body, func(n ast.Node) bool {
				if rs, ok := n.(*ast.ReturnStmt); ok && len(rs.Results) == 2 {
					second := c.render(rs.Results[1])
					if strings.HasPrefix(second, "p.parser.MakeError(") {
						second = "MakeError"
					}
					parseReturns = append(parseReturns, c.render(rs.Results[0])+", "+second)
				}
				return true
			})
		}
	}

	// ---- response.Bad / No / Ok: the tag when called with an argument -------------------------------
	var badCtor, noCtor, okCtor []string
	respFiles := c.parseDir("internal/response")
	if fd := c11sFindFunc(respFiles, "Bad"); fd != nil {
		badCtor = c11sSkeleton(c, fd.Body.List)
	}
	if fd := c11sFindFunc(respFiles, "No"); fd != nil {
		noCtor = c11sSkeleton(c, fd.Body.List)
	}
	if fd := c11sFindFunc(respFiles, "Ok"); fd != nil {
		okCtor = c11sSkeleton(c, fd.Body.List)
	}

	var b strings.Builder
	b.WriteString("namespace Gluon.Facts\n\n")
	b.WriteString("/-- `const maxSessionError` (internal/session/session.go) -/\n")
	fmt.Fprintf(&b, "def maxSessionError : Option Nat := %s\n\n", maxErr)
	b.WriteString("/-- `serve`, branch `res.err != nil`: the argument of `response.Bad(…)` -/\n")
	fmt.Fprintf(&b, "def serveBadTagExpr : String := %s\n\n", leanStr(badTagExpr))
	b.WriteString("/-- `serve`: the error counter is incremented by exactly one (`s.errorCount += 1`) before it is compared -/\n")
	fmt.Fprintf(&b, "def serveErrorCountIncrByOne : Option Bool := %s\n\n", incr)
	b.WriteString("/-- `serve`: operator and right-hand side of the comparison `s.errorCount <op> <rhs>` that closes the session -/\n")
	fmt.Fprintf(&b, "def serveErrorCloseCmp : String × String := (%s, %s)\n\n", leanStr(cmpOp), leanStr(cmpRhs))
	b.WriteString("/-- `serve`: that branch ends with `return nil` (the session is closed) -/\n")
	fmt.Fprintf(&b, "def serveErrorCloseReturns : Option Bool := %s\n\n", closeReturns)
	b.WriteString("/-- `serve`: the else branch (command parsed) is exactly `s.errorCount = 0` -/\n")
	fmt.Fprintf(&b, "def serveSuccessResetsErrorCount : Option Bool := %s\n\n", elseReset)
	b.WriteString("/-- `serve`: skeleton of the branch `res.err != nil` -/\n")
	fmt.Fprintf(&b, "def serveErrBranch : List String := %s\n\n", leanStrList(serveErrBranch))
	b.WriteString("/-- `startCommandReader`: the `tlsHeaders` table -/\n")
	fmt.Fprintf(&b, "def readerTLSHeaders : Option (List (List Nat)) := %s\n\n", tlsHeaders)
	b.WriteString("/-- `startCommandReader`: skeleton of the branch `err != nil` after `parser.Parse()` -/\n")
	fmt.Fprintf(&b, "def readerErrBranch : List String := %s\n\n", leanStrList(readerErrBranch))
	b.WriteString("/-- `startCommandReader`: `case *command.StartTLS:` is `if err = s.handleStartTLS(…); err != nil { …; return } else { continue }` -/\n")
	fmt.Fprintf(&b, "def readerStartTLSReturnsOnError : Option Bool := %s\n\n", startTLSInReader)
	b.WriteString("/-- `handleStartTLS`: skeleton of the body of `if s.tlsConfig == nil` -/\n")
	fmt.Fprintf(&b, "def startTLSNilConfigBranch : String := %s\n\n", leanStr(startTLSNil))
	b.WriteString("/-- `handleIdle`: skeleton of `case res, ok := <-cmdCh:` and of the type switch on the payload -/\n")
	fmt.Fprintf(&b, "def idleLoopShape : List String := %s\n\n", leanStrList(idleLoop))
	b.WriteString("/-- `handleIdle`: skeleton of the statements after `err := s.state.Idle(…)`; empty when the function ends with `return s.state.Idle(…)` -/\n")
	fmt.Fprintf(&b, "def idleTail : List String := %s\n\n", leanStrList(idleTail))
	b.WriteString("/-- `command.Parser.Parse`: the results of its return statements, in source order -/\n")
	fmt.Fprintf(&b, "def parseReturns : List String := %s\n\n", leanStrList(parseReturns))
	b.WriteString("/-- `response.Bad`: skeleton of the constructor -/\n")
	fmt.Fprintf(&b, "def responseBadCtor : List String := %s\n\n", leanStrList(badCtor))
	b.WriteString("/-- `response.No`: skeleton of the constructor -/\n")
	fmt.Fprintf(&b, "def responseNoCtor : List String := %s\n\n", leanStrList(noCtor))
	b.WriteString("/-- `response.Ok`: skeleton of the constructor -/\n")
	fmt.Fprintf(&b, "def responseOkCtor : List String := %s\n\nend Gluon.Facts\n", leanStrList(okCtor))
	return writeLean(outdir, "Session.lean", b.String())
}
