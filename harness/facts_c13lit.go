package main

// Facts/LitCache.lean (C13, storage states): the functions of internal/state that download a message from the
// connector (they call `GetMessageLiteral`) and what they write back into the cache.  For every such function:
//
//	every call `<store>.Set(id, X)` / `SetUnchecked(id, X)` in it, with the variable X stands for (`v` or
//	`bytes.NewReader(v)`), and whether v is, at that point, the result of rfc822.SetHeaderValue /
//	SetHeaderValueNoMemCopy: the LAST assignment to v in front of the write (source order) is
//	`v, … := rfc822.SetHeaderValue*(…, key, …)`; the key expression of that call.
//
// Model/LitCache.lean `getLiteral` writes `literalWithHeader` (the spliced bytes) back; theorem
// `restore_writes_spliced_literal` (Theorems/C13.lean) is `by decide` over this table.

import (
	"fmt"
	"go/ast"
	"go/token"
	"sort"
	"strings"
)

func factsC13Lit(c *factsCtx, outdir string) error {
	type site struct {
		file    string
		fn      string
		call    string
		arg     string
		spliced bool
		key     string
	}
	var sites []site
	var downloaders []string
	for _, f := range c.parseDir("internal/state") {
		for _, d := range f.Decls {
			fd, ok := d.(*ast.FuncDecl)
			if !ok || fd.Body == nil {
				continue
			}
			downloads := false
			ast.Inspect(fd.Body, func(n ast.Node) bool {
				if call, ok := n.(*ast.CallExpr); ok && calleeName(call) == "GetMessageLiteral" {
					downloads = true
				}
				return true
			})
			if !downloads {
				continue
			}
			downloaders = append(downloaders, funcQualName(fd))
			// assignments, in source order: variable -> (position, is a splice result, key)
			type asg struct {
				pos    token.Pos
				splice bool
				key    string
			}
			assigns := map[string][]asg{}
			ast.Inspect(fd.Body, func(n ast.Node) bool {
				as, ok := n.(*ast.AssignStmt)
				if !ok {
					return true
				}
				splice, key := false, ""
				if len(as.Rhs) == 1 {
					if call, ok := as.Rhs[0].(*ast.CallExpr); ok {
						q := calleeQualified(call)
						if (q == "rfc822.SetHeaderValue" || q == "rfc822.SetHeaderValueNoMemCopy") && len(call.Args) == 3 {
							splice = true
							key = "unknown"
							if se, ok := call.Args[1].(*ast.SelectorExpr); ok {
								key = identLit(se.X) + "." + se.Sel.Name
							}
						}
					}
				}
				for i, l := range as.Lhs {
					if name := identLit(l); name != "" && name != "_" {
						// only the first result of the splice call is the literal
						assigns[name] = append(assigns[name], asg{as.End(), splice && i == 0, key})
					}
				}
				return true
			})
			ast.Inspect(fd.Body, func(n ast.Node) bool {
				call, ok := n.(*ast.CallExpr)
				if !ok || len(call.Args) != 2 {
					return true
				}
				name := calleeName(call)
				if name != "Set" && name != "SetUnchecked" {
					return true
				}
				arg := call.Args[1]
				if inner, ok := arg.(*ast.CallExpr); ok && calleeQualified(inner) == "bytes.NewReader" && len(inner.Args) == 1 {
					arg = inner.Args[0]
				}
				v := identLit(arg)
				s := site{fn: funcQualName(fd), call: name, arg: v}
				s.file, _ = c.pos(call.Pos())
				var last *asg
				for i := range assigns[v] {
					a := &assigns[v][i]
					if a.pos <= call.Pos() && (last == nil || a.pos > last.pos) {
						last = a
					}
				}
				if last != nil && last.splice {
					s.spliced, s.key = true, last.key
				}
				sites = append(sites, s)
				return true
			})
		}
	}
	sort.Strings(downloaders)
	sort.Slice(sites, func(i, j int) bool {
		if sites[i].fn != sites[j].fn {
			return sites[i].fn < sites[j].fn
		}
		return sites[i].arg < sites[j].arg
	})
	var b strings.Builder
	b.WriteString("namespace Gluon.Facts\n\n")
	b.WriteString("structure RestoreWrite where\n  file : String\n  func : String\n  call : String\n  arg : String\n  spliced : Bool\n  key : String\nderiving DecidableEq, Repr\n\n")
	b.WriteString("/-- the functions of internal/state that call GetMessageLiteral -/\n")
	var qs []string
	for _, d := range downloaders {
		qs = append(qs, leanStr(d))
	}
	fmt.Fprintf(&b, "def literalDownloaders : List String := [%s]\n\n", strings.Join(qs, ", "))
	b.WriteString("/-- every cache write in those functions: the variable written and whether its last assignment in front of\n    the write is the result of rfc822.SetHeaderValue* (and with which key) -/\n")
	b.WriteString("def restoreWrites : List RestoreWrite := [\n")
	for i, s := range sites {
		sep := ","
		if i == len(sites)-1 {
			sep = ""
		}
		fmt.Fprintf(&b, "  { file := %s, func := %s, call := %s, arg := %s, spliced := %v, key := %s }%s\n", leanStr(s.file), leanStr(s.fn), leanStr(s.call), leanStr(s.arg), s.spliced, leanStr(s.key), sep)
	}
	b.WriteString("]\n\nend Gluon.Facts\n")
	return writeLean(outdir, "LitCache.lean", b.String())
}

func init() {
	factGens = append(factGens, factGen{"LitCache", factsC13Lit})
}
