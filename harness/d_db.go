package main

// Dialect `db` (C08): the real SQLite index (verifhooks.NewSQLiteDB -> db.Client) against the Lean
// relational model (GluonModel/Model/DB.lean).  One op line = one session on a fresh database in
// a temporary directory; protocol documented in lean/GluonModel/Driver/DDbCodec.lean.
//
// Implementation side: every token is executed on the real db.Client, results are canonicalised
// (unordered SQL results sorted, flag sets lower-cased, message UUIDs replaced by the harness'
// numbering, errors mapped to a small enum); `dump` reads every table through a second, read-only
// database/sql connection, independent of the code under test.
//
// Generator: builds sessions transaction by transaction while executing them on a scratch database,
// so that arguments refer to what really exists (plus a share of arguments that do not); counts the
// calls per method of db.ReadOnly / db.Transaction (reflection over the interface types) and fails
// when a method was never called.

import (
	"context"
	"database/sql"
	"errors"
	"fmt"
	"io"
	"os"
	"path/filepath"
	"reflect"
	"sort"
	"strconv"
	"strings"
	"time"

	"github.com/ProtonMail/gluon/db"
	"github.com/ProtonMail/gluon/imap"
	"github.com/mattn/go-sqlite3"
	"github.com/sirupsen/logrus"
)

func init() {
	Register(&Dialect{Name: "db", Impl: dbxImpl, Gen: dbxGen})
}

// ---- canonical text -------------------------------------------------------------------------------

func dbxStr(s string) string {
	if s == "~" {
		return ""
	}
	return s
}

func dbxShowStr(s string) string {
	if s == "" {
		return "~"
	}
	return s
}

func dbxList(s string) []string {
	if s == "-" || s == "" {
		return nil
	}
	return strings.Split(s, ",")
}

func dbxShowList(l []string) string {
	if len(l) == 0 {
		return "-"
	}
	return strings.Join(l, ",")
}

func dbxShowSet(l []string) string {
	l = append([]string{}, l...)
	sort.Strings(l)
	return dbxShowList(l)
}

func dbxShowFlags(l []string) string {
	seen := map[string]bool{}
	var out []string
	for _, x := range l {
		x = strings.ToLower(x)
		if !seen[x] {
			seen[x] = true
			out = append(out, x)
		}
	}
	if len(out) == 0 {
		return "~"
	}
	sort.Strings(out)
	return strings.Join(out, "+")
}

func dbxFlagSet(fs imap.FlagSet) string { return dbxShowFlags(fs.ToSliceUnsorted()) }

func dbxConcatFlags(s string) string {
	if s == "" {
		return "~"
	}
	return dbxShowFlags(strings.Split(s, ","))
}

func dbxFlags(s string) []string {
	if s == "~" || s == "" {
		return nil
	}
	return strings.Split(s, "+")
}

func dbxNat(s string) int {
	n, err := strconv.Atoi(s)
	if err != nil || n < 0 {
		return 0
	}
	return n
}

func dbxSpan(s string) (int, int, bool) {
	p := strings.Split(s, "..")
	switch len(p) {
	case 1:
		n, err := strconv.Atoi(p[0])
		return n, n, err == nil && n >= 0
	case 2:
		a, e1 := strconv.Atoi(p[0])
		b, e2 := strconv.Atoi(p[1])
		return a, b, e1 == nil && e2 == nil && a >= 0 && b >= 0
	}
	return 0, 0, false
}

func dbxIDs(s string) []int {
	var out []int
	for _, it := range dbxList(s) {
		if lo, hi, ok := dbxSpan(it); ok {
			for i := lo; i <= hi; i++ {
				out = append(out, i)
			}
		}
	}
	return out
}

type dbxPair struct {
	id  int
	rid string
}

func dbxPairs(s string) []dbxPair {
	var out []dbxPair
	for _, it := range dbxList(s) {
		if p := strings.Split(it, "="); len(p) == 2 {
			out = append(out, dbxPair{dbxNat(p[0]), dbxStr(p[1])})
		} else if lo, hi, ok := dbxSpan(it); ok {
			for i := lo; i <= hi; i++ {
				out = append(out, dbxPair{i, fmt.Sprintf("x%d", i)})
			}
		}
	}
	return out
}

func dbxRids(s string) []string {
	var out []string
	for _, it := range dbxList(s) {
		if p := strings.Split(it, ".."); len(p) == 2 {
			a, e1 := strconv.Atoi(p[0])
			b, e2 := strconv.Atoi(p[1])
			if e1 == nil && e2 == nil && a >= 0 && b >= 0 {
				for i := a; i <= b; i++ {
					out = append(out, fmt.Sprintf("r%d", i))
				}
				continue
			}
		}
		out = append(out, dbxStr(it))
	}
	return out
}

type dbxReq struct {
	id         int
	rid        string
	size, date int
	flags      []string
}

func dbxReqs(s string) []dbxReq {
	var out []dbxReq
	for _, it := range dbxList(s) {
		p := strings.Split(it, "=")
		switch len(p) {
		case 5:
			out = append(out, dbxReq{dbxNat(p[0]), dbxStr(p[1]), dbxNat(p[2]), dbxNat(p[3]), dbxFlags(p[4])})
		case 2:
			if lo, hi, ok := dbxSpan(p[0]); ok {
				for i := lo; i <= hi; i++ {
					out = append(out, dbxReq{i, fmt.Sprintf("x%d", i), i%97 + 1, 1000 + i, dbxFlags(p[1])})
				}
			}
		}
	}
	return out
}

func dbxFnv(s string) uint64 {
	h := uint64(14695981039346656037)
	for i := 0; i < len(s); i++ {
		h ^= uint64(s[i])
		h *= 1099511628211
	}
	return h
}

func dbxDigest(full bool, w string) string {
	if full || len(w) <= 160 {
		return w
	}
	return fmt.Sprintf("#%d:%016x", len(w), dbxFnv(w))
}

// ---- message ids -----------------------------------------------------------------------------------

// the harness numbers messages; number i is the UUID below (first group scrambled so that the
// order of the UUIDs is not the order of the numbers)
func dbxUUID(i int) imap.InternalMessageID {
	id, err := imap.InternalMessageIDFromString(fmt.Sprintf("%08x-0000-4000-8000-%012x", uint32(uint64(i)*2654435761), i))
	if err != nil {
		panic(err)
	}
	return id
}

func dbxMsgNum(s string) string {
	if len(s) == 36 {
		if n, err := strconv.ParseInt(s[24:], 16, 64); err == nil {
			return strconv.FormatInt(n, 10)
		}
	}
	return "?" + s
}

func dbxMsgNumOf(id imap.InternalMessageID) string { return dbxMsgNum(id.String()) }

func dbxUUIDs(ids []int) []imap.InternalMessageID {
	out := make([]imap.InternalMessageID, 0, len(ids))
	for _, i := range ids {
		out = append(out, dbxUUID(i))
	}
	return out
}

// ---- session ---------------------------------------------------------------------------------------

type dbxUIDGen struct{}

func (dbxUIDGen) Generate() (imap.UID, error) { return 1, nil }

type dbxSession struct {
	dir     string
	client  db.Client
	raw     *sql.DB
	full    bool
	pos     int
	randIDs map[string]string // DELETED-<uuid> -> DELETED-<token position>
	counts  map[string]int    // calls per method (generator statistics); keys starting with `~` are not methods
	variant string            // client variant (d_db_client.go); "" = plain
}

var dbxAbort = errors.New("dbx: closure returns an error")

func dbxNewSession(full bool) (*dbxSession, error) {
	logrus.SetOutput(io.Discard)
	dbxcLogSetup()
	dir, err := os.MkdirTemp("", "vh-c08-")
	if err != nil {
		return nil, err
	}
	s := &dbxSession{dir: dir, full: full, randIDs: map[string]string{}, counts: map[string]int{}}
	if err := s.open(); err != nil {
		s.close()
		return nil, err
	}
	return s, nil
}

func (s *dbxSession) open() error {
	ci, err := dbxcBuilder(s.variant)
	if err != nil {
		return err
	}
	c, _, err := ci.New(s.dir, "user")
	if err != nil {
		return err
	}
	if err := dbxcCheckClient(c, s.variant); err != nil {
		_ = c.Close()
		return err
	}
	if err := c.Init(context.Background(), dbxUIDGen{}); err != nil {
		_ = c.Close()
		return err
	}
	s.client = c
	return nil
}

func (s *dbxSession) close() {
	if s.raw != nil {
		_ = s.raw.Close()
		s.raw = nil
	}
	if s.client != nil {
		_ = s.client.Close()
		s.client = nil
	}
	_ = os.RemoveAll(s.dir)
}

func (s *dbxSession) rawDB() (*sql.DB, error) {
	if s.raw == nil {
		r, err := sql.Open("sqlite3", "file:"+filepath.Join(s.dir, "user.db")+"?mode=ro&_busy_timeout=5000")
		if err != nil {
			return nil, err
		}
		r.SetMaxOpenConns(1)
		s.raw = r
	}
	return s.raw, nil
}

func (s *dbxSession) rid(r string) string {
	if c, ok := s.randIDs[r]; ok {
		return c
	}
	return r
}

func dbxErr(err error) string {
	var se sqlite3.Error
	switch {
	case errors.Is(err, db.ErrNotFound):
		return "err:notfound"
	case errors.As(err, &se):
		switch {
		case se.Code == sqlite3.ErrConstraint && (se.ExtendedCode == sqlite3.ErrConstraintUnique || se.ExtendedCode == sqlite3.ErrConstraintPrimaryKey):
			return "err:unique"
		case se.Code == sqlite3.ErrConstraint && se.ExtendedCode == sqlite3.ErrConstraintForeignKey:
			return "err:fk"
		case se.Code == sqlite3.ErrConstraint && se.ExtendedCode == sqlite3.ErrConstraintNotNull:
			return "err:notnull"
		case se.Code == sqlite3.ErrError:
			return "err:sql"
		}
		return "err:other"
	case err.Error() == "no values changed":
		return "err:nochange"
	case strings.HasPrefix(err.Error(), "not enough args to execute query"):
		return "err:args"
	}
	return "err:other"
}

func (s *dbxSession) showMbox(m *db.Mailbox) string {
	return fmt.Sprintf("%d/%s/%s/%d/%s", m.ID, dbxShowStr(string(m.RemoteID)), dbxShowStr(m.Name), m.UIDValidity, b2sDbx(m.Subscribed))
}

func b2sDbx(b bool) string {
	if b {
		return "1"
	}
	return "0"
}

func (s *dbxSession) showMsg(m *db.Message) string {
	return fmt.Sprintf("%s/%s/%d/%d/%s/%s/%s/%s", dbxMsgNumOf(m.ID), dbxShowStr(s.rid(string(m.RemoteID))), m.Date.Unix(), m.Size,
		dbxShowStr(m.Body), dbxShowStr(m.BodyStructure), dbxShowStr(m.Envelope), b2sDbx(m.Deleted))
}

func (s *dbxSession) showSnap(id imap.InternalMessageID, rid imap.MessageID, uid imap.UID, recent, deleted bool, flags string) string {
	return fmt.Sprintf("%s/%s/%d/%s/%s/%s", dbxMsgNumOf(id), dbxShowStr(s.rid(string(rid))), uid, b2sDbx(recent), b2sDbx(deleted), dbxConcatFlags(flags))
}

func dbxMakeReq(q dbxReq) *db.CreateMessageReq {
	return &db.CreateMessageReq{
		Message:     imap.Message{ID: imap.MessageID(q.rid), Flags: imap.NewFlagSet(q.flags...), Date: time.Unix(int64(q.date), 0).UTC()},
		InternalID:  dbxUUID(q.id),
		LiteralSize: q.size,
		Body:        fmt.Sprintf("B%d", q.size),
		Structure:   fmt.Sprintf("S%d", q.size),
		Envelope:    fmt.Sprintf("E%d", q.size),
	}
}

func dbxB(b bool) string {
	if b {
		return "b1"
	}
	return "b0"
}

func dbxNums[T ~uint64 | ~int](l []T) string {
	var out []string
	for _, x := range l {
		out = append(out, strconv.FormatUint(uint64(x), 10))
	}
	return dbxShowSet(out)
}

func dbxMsgNums(l []imap.InternalMessageID) string {
	var out []string
	for _, x := range l {
		out = append(out, dbxMsgNumOf(x))
	}
	return dbxShowSet(out)
}

// readCall executes one db.ReadOnly method; handled=false if the name is not one.
func (s *dbxSession) readCall(ctx context.Context, r db.ReadOnly, name string, a []string) (out string, err error, handled bool) {
	arg := func(i int) string {
		if i < len(a) {
			return a[i]
		}
		return ""
	}
	mb := func(i int) imap.InternalMailboxID { return imap.InternalMailboxID(dbxNat(arg(i))) }
	msg := func(i int) imap.InternalMessageID { return dbxUUID(dbxNat(arg(i))) }
	handled = true
	switch name {
	case "MailboxExistsWithID":
		v, e := r.MailboxExistsWithID(ctx, mb(0))
		return dbxB(v), e, true
	case "MailboxExistsWithRemoteID":
		v, e := r.MailboxExistsWithRemoteID(ctx, imap.MailboxID(dbxStr(arg(0))))
		return dbxB(v), e, true
	case "MailboxExistsWithName":
		v, e := r.MailboxExistsWithName(ctx, dbxStr(arg(0)))
		return dbxB(v), e, true
	case "GetMailboxIDFromRemoteID":
		v, e := r.GetMailboxIDFromRemoteID(ctx, imap.MailboxID(dbxStr(arg(0))))
		return fmt.Sprintf("n%d", v), e, true
	case "GetMailboxName":
		v, e := r.GetMailboxName(ctx, mb(0))
		return "s" + v, e, true
	case "GetMailboxNameWithRemoteID":
		v, e := r.GetMailboxNameWithRemoteID(ctx, imap.MailboxID(dbxStr(arg(0))))
		return "s" + v, e, true
	case "GetMailboxMessageIDPairs":
		v, e := r.GetMailboxMessageIDPairs(ctx, mb(0))
		var l []string
		for _, p := range v {
			l = append(l, dbxMsgNumOf(p.InternalID)+"="+dbxShowStr(s.rid(string(p.RemoteID))))
		}
		return dbxShowSet(l), e, true
	case "GetAllMailboxesWithAttr":
		v, e := r.GetAllMailboxesWithAttr(ctx)
		var l []string
		for _, m := range v {
			l = append(l, s.showMbox(&m.Mailbox)+"/"+dbxFlagSet(m.Attributes))
		}
		return dbxShowSet(l), e, true
	case "GetAllMailboxesAsRemoteIDs":
		v, e := r.GetAllMailboxesAsRemoteIDs(ctx)
		var l []string
		for _, x := range v {
			l = append(l, dbxShowStr(string(x)))
		}
		return dbxShowSet(l), e, true
	case "GetMailboxByName":
		v, e := r.GetMailboxByName(ctx, dbxStr(arg(0)))
		if e != nil {
			return "", e, true
		}
		return s.showMbox(v), nil, true
	case "GetMailboxByID":
		v, e := r.GetMailboxByID(ctx, mb(0))
		if e != nil {
			return "", e, true
		}
		return s.showMbox(v), nil, true
	case "GetMailboxByRemoteID":
		v, e := r.GetMailboxByRemoteID(ctx, imap.MailboxID(dbxStr(arg(0))))
		if e != nil {
			return "", e, true
		}
		return s.showMbox(v), nil, true
	case "GetMailboxRecentCount":
		v, e := r.GetMailboxRecentCount(ctx, mb(0))
		return fmt.Sprintf("n%d", v), e, true
	case "GetMailboxMessageCount":
		v, e := r.GetMailboxMessageCount(ctx, mb(0))
		return fmt.Sprintf("n%d", v), e, true
	case "GetMailboxMessageCountWithRemoteID":
		v, e := r.GetMailboxMessageCountWithRemoteID(ctx, imap.MailboxID(dbxStr(arg(0))))
		return fmt.Sprintf("n%d", v), e, true
	case "GetMailboxFlags":
		v, e := r.GetMailboxFlags(ctx, mb(0))
		return dbxFlagSet(v), e, true
	case "GetMailboxPermanentFlags":
		v, e := r.GetMailboxPermanentFlags(ctx, mb(0))
		return dbxFlagSet(v), e, true
	case "GetMailboxAttributes":
		v, e := r.GetMailboxAttributes(ctx, mb(0))
		return dbxFlagSet(v), e, true
	case "GetMailboxUID":
		v, e := r.GetMailboxUID(ctx, mb(0))
		return fmt.Sprintf("n%d", v), e, true
	case "GetMailboxMessageCountAndUID":
		c, u, e := r.GetMailboxMessageCountAndUID(ctx, mb(0))
		return fmt.Sprintf("%d/%d", c, u), e, true
	case "GetMailboxMessageForNewSnapshot":
		v, e := r.GetMailboxMessageForNewSnapshot(ctx, mb(0))
		var l []string
		for _, x := range v {
			l = append(l, s.showSnap(x.InternalID, x.RemoteID, x.UID, x.Recent, x.Deleted, x.Flags))
		}
		return dbxShowList(l), e, true
	case "MailboxTranslateRemoteIDs":
		var in []imap.MailboxID
		for _, x := range dbxRids(arg(0)) {
			in = append(in, imap.MailboxID(x))
		}
		v, e := r.MailboxTranslateRemoteIDs(ctx, in)
		return dbxNums(v), e, true
	case "MailboxFilterContains":
		var in []db.MessageIDPair
		for _, p := range dbxPairs(arg(1)) {
			in = append(in, db.MessageIDPair{InternalID: dbxUUID(p.id), RemoteID: imap.MessageID(p.rid)})
		}
		v, e := r.MailboxFilterContains(ctx, mb(0), in)
		return dbxMsgNums(v), e, true
	case "GetMailboxCount":
		v, e := r.GetMailboxCount(ctx)
		return fmt.Sprintf("n%d", v), e, true
	case "GetAllMailboxesNameAndRemoteID":
		v, e := r.GetAllMailboxesNameAndRemoteID(ctx)
		var l []string
		for _, x := range v {
			l = append(l, dbxShowStr(x.Name)+"="+dbxShowStr(string(x.RemoteID)))
		}
		return dbxShowSet(l), e, true
	case "MessageExists":
		v, e := r.MessageExists(ctx, msg(0))
		return dbxB(v), e, true
	case "MessageExistsWithRemoteID":
		v, e := r.MessageExistsWithRemoteID(ctx, imap.MessageID(dbxStr(arg(0))))
		return dbxB(v), e, true
	case "GetMessageNoEdges":
		v, e := r.GetMessageNoEdges(ctx, msg(0))
		if e != nil {
			return "", e, true
		}
		return s.showMsg(v), nil, true
	case "GetTotalMessageCount":
		v, e := r.GetTotalMessageCount(ctx)
		return fmt.Sprintf("n%d", v), e, true
	case "GetMessageRemoteID":
		v, e := r.GetMessageRemoteID(ctx, msg(0))
		return "s" + s.rid(string(v)), e, true
	case "GetImportedMessageData":
		v, e := r.GetImportedMessageData(ctx, msg(0))
		if e != nil {
			return "", e, true
		}
		return s.showMsg(&v.Message) + "/" + dbxFlagSet(v.Flags), nil, true
	case "GetMessageDateAndSize":
		d, sz, e := r.GetMessageDateAndSize(ctx, msg(0))
		return fmt.Sprintf("%d/%d", d.Unix(), sz), e, true
	case "GetMessageMailboxIDs":
		v, e := r.GetMessageMailboxIDs(ctx, msg(0))
		return dbxNums(v), e, true
	case "GetMessagesFlags":
		v, e := r.GetMessagesFlags(ctx, dbxUUIDs(dbxIDs(arg(0))))
		var l []string
		for _, x := range v {
			l = append(l, dbxMsgNumOf(x.ID)+"/"+dbxShowStr(s.rid(string(x.RemoteID)))+"/"+dbxFlagSet(x.FlagSet))
		}
		return dbxShowSet(l), e, true
	case "GetMessageIDsMarkedAsDelete":
		v, e := r.GetMessageIDsMarkedAsDelete(ctx)
		return dbxMsgNums(v), e, true
	case "GetMessageIDFromRemoteID":
		v, e := r.GetMessageIDFromRemoteID(ctx, imap.MessageID(dbxStr(arg(0))))
		return "n" + dbxMsgNumOf(v), e, true
	case "GetMessageDeletedFlag":
		v, e := r.GetMessageDeletedFlag(ctx, msg(0))
		return dbxB(v), e, true
	case "GetAllMessagesIDsAsMap":
		v, e := r.GetAllMessagesIDsAsMap(ctx)
		var l []imap.InternalMessageID
		for k := range v {
			l = append(l, k)
		}
		return dbxMsgNums(l), e, true
	case "GetDeletedSubscriptionSet":
		v, e := r.GetDeletedSubscriptionSet(ctx)
		var l []string
		for _, x := range v {
			l = append(l, dbxShowStr(string(x.RemoteID))+"="+dbxShowStr(x.Name))
		}
		return dbxShowSet(l), e, true
	case "GetConnectorSettings":
		v, has, e := r.GetConnectorSettings(ctx)
		return dbxShowStr(v) + "/" + b2sDbx(has), e, true
	}
	return "", nil, false
}

func dbxStrs(s string) []string {
	var out []string
	for _, x := range dbxList(s) {
		out = append(out, dbxStr(x))
	}
	return out
}

// writeCall executes one method that only db.Transaction has.
func (s *dbxSession) writeCall(ctx context.Context, tx db.Transaction, name string, a []string) (out string, err error, handled bool) {
	arg := func(i int) string {
		if i < len(a) {
			return a[i]
		}
		return ""
	}
	mb := func(i int) imap.InternalMailboxID { return imap.InternalMailboxID(dbxNat(arg(i))) }
	msg := func(i int) imap.InternalMessageID { return dbxUUID(dbxNat(arg(i))) }
	fs := func(i int) imap.FlagSet { return imap.NewFlagSet(dbxFlags(arg(i))...) }
	handled = true
	switch name {
	case "CreateMailbox", "GetOrCreateMailbox":
		var v *db.Mailbox
		var e error
		if name == "CreateMailbox" {
			v, e = tx.CreateMailbox(ctx, imap.MailboxID(dbxStr(arg(0))), dbxStr(arg(1)), fs(2), fs(3), fs(4), imap.UID(dbxNat(arg(5))))
		} else {
			v, e = tx.GetOrCreateMailbox(ctx, imap.MailboxID(dbxStr(arg(0))), dbxStr(arg(1)), fs(2), fs(3), fs(4), imap.UID(dbxNat(arg(5))))
		}
		if e != nil {
			return "", e, true
		}
		return s.showMbox(v), nil, true
	case "GetOrCreateMailboxAlt", "CreateMailboxIfNotExists":
		m := imap.Mailbox{ID: imap.MailboxID(dbxStr(arg(0))), Name: dbxStrs(arg(1)), Flags: fs(3), PermanentFlags: fs(4), Attributes: fs(5)}
		if name == "CreateMailboxIfNotExists" {
			return "ok", tx.CreateMailboxIfNotExists(ctx, m, dbxStr(arg(2)), imap.UID(dbxNat(arg(6)))), true
		}
		v, e := tx.GetOrCreateMailboxAlt(ctx, m, dbxStr(arg(2)), imap.UID(dbxNat(arg(6))))
		if e != nil {
			return "", e, true
		}
		return s.showMbox(v), nil, true
	case "RenameMailboxWithRemoteID":
		return "ok", tx.RenameMailboxWithRemoteID(ctx, imap.MailboxID(dbxStr(arg(0))), dbxStr(arg(1))), true
	case "DeleteMailboxWithRemoteID":
		return "ok", tx.DeleteMailboxWithRemoteID(ctx, imap.MailboxID(dbxStr(arg(0)))), true
	case "AddMessagesToMailbox":
		var in []db.MessageIDPair
		for _, p := range dbxPairs(arg(1)) {
			in = append(in, db.MessageIDPair{InternalID: dbxUUID(p.id), RemoteID: imap.MessageID(p.rid)})
		}
		v, e := tx.AddMessagesToMailbox(ctx, mb(0), in)
		var l []string
		for _, x := range v {
			l = append(l, s.showSnap(x.InternalID, x.RemoteID, x.UID, x.Recent, x.Deleted, x.Flags))
		}
		return dbxShowList(l), e, true
	case "RemoveMessagesFromMailbox":
		return "ok", tx.RemoveMessagesFromMailbox(ctx, mb(0), dbxUUIDs(dbxIDs(arg(1)))), true
	case "ClearRecentFlagInMailboxOnMessage":
		return "ok", tx.ClearRecentFlagInMailboxOnMessage(ctx, mb(0), msg(1)), true
	case "ClearRecentFlagsInMailbox":
		return "ok", tx.ClearRecentFlagsInMailbox(ctx, mb(0)), true
	case "SetMailboxMessagesDeletedFlag":
		return "ok", tx.SetMailboxMessagesDeletedFlag(ctx, mb(0), dbxUUIDs(dbxIDs(arg(1))), arg(2) == "1"), true
	case "SetMailboxSubscribed":
		return "ok", tx.SetMailboxSubscribed(ctx, mb(0), arg(1) == "1"), true
	case "UpdateRemoteMailboxID":
		return "ok", tx.UpdateRemoteMailboxID(ctx, mb(0), imap.MailboxID(dbxStr(arg(1)))), true
	case "SetMailboxUIDValidity":
		return "ok", tx.SetMailboxUIDValidity(ctx, mb(0), imap.UID(dbxNat(arg(1)))), true
	case "AddFlagsToAllMailboxes":
		return "ok", tx.AddFlagsToAllMailboxes(ctx, dbxStrs(arg(0))...), true
	case "AddPermFlagsToAllMailboxes":
		return "ok", tx.AddPermFlagsToAllMailboxes(ctx, dbxStrs(arg(0))...), true
	case "CreateMessages":
		var reqs []*db.CreateMessageReq
		for _, q := range dbxReqs(arg(0)) {
			reqs = append(reqs, dbxMakeReq(q))
		}
		return "ok", tx.CreateMessages(ctx, reqs...), true
	case "CreateMessageAndAddToMailbox":
		qs := dbxReqs(arg(1))
		if len(qs) != 1 {
			return "", nil, false
		}
		uid, fl, e := tx.CreateMessageAndAddToMailbox(ctx, mb(0), dbxMakeReq(qs[0]))
		return fmt.Sprintf("%d/%s", uid, dbxFlagSet(fl)), e, true
	case "MarkMessageAsDeleted":
		return "ok", tx.MarkMessageAsDeleted(ctx, msg(0)), true
	case "MarkMessageAsDeletedAndAssignRandomRemoteID":
		e := tx.MarkMessageAsDeletedAndAssignRandomRemoteID(ctx, msg(0))
		if e == nil {
			// learn the made-up remote id (not counted as a call of the session)
			if r, e2 := tx.GetMessageRemoteID(ctx, msg(0)); e2 == nil && strings.HasPrefix(string(r), "DELETED-") {
				if _, known := s.randIDs[string(r)]; !known {
					s.randIDs[string(r)] = fmt.Sprintf("DELETED-%d", s.pos)
				}
			}
		}
		return "ok", e, true
	case "MarkMessageAsDeletedWithRemoteID":
		return "ok", tx.MarkMessageAsDeletedWithRemoteID(ctx, imap.MessageID(dbxStr(arg(0)))), true
	case "DeleteMessages":
		return "ok", tx.DeleteMessages(ctx, dbxUUIDs(dbxIDs(arg(0)))), true
	case "UpdateRemoteMessageID":
		return "ok", tx.UpdateRemoteMessageID(ctx, msg(0), imap.MessageID(dbxStr(arg(1)))), true
	case "AddFlagToMessages":
		return "ok", tx.AddFlagToMessages(ctx, dbxUUIDs(dbxIDs(arg(0))), dbxStr(arg(1))), true
	case "RemoveFlagFromMessages":
		return "ok", tx.RemoveFlagFromMessages(ctx, dbxUUIDs(dbxIDs(arg(0))), dbxStr(arg(1))), true
	case "SetFlagsOnMessages":
		return "ok", tx.SetFlagsOnMessages(ctx, dbxUUIDs(dbxIDs(arg(0))), fs(1)), true
	case "AddDeletedSubscription":
		return "ok", tx.AddDeletedSubscription(ctx, dbxStr(arg(0)), imap.MailboxID(dbxStr(arg(1)))), true
	case "RemoveDeletedSubscriptionWithName":
		n, e := tx.RemoveDeletedSubscriptionWithName(ctx, dbxStr(arg(0)))
		return fmt.Sprintf("n%d", n), e, true
	case "StoreConnectorSettings":
		return "ok", tx.StoreConnectorSettings(ctx, dbxStr(arg(0))), true
	}
	return "", nil, false
}

// runTx executes the call tokens of one transaction; toks excludes the brackets. Returns one word per
// call token plus the word for the closing bracket.
func (s *dbxSession) runTx(write bool, toks []string, commit bool) []string {
	ctx := context.Background()
	out := make([]string, len(toks))
	failed := false
	base := s.pos
	body := func(r db.ReadOnly, tx db.Transaction) error {
		for i, tok := range toks {
			s.pos = base + i
			if failed {
				out[i] = "skip"
				continue
			}
			p := strings.Split(tok, ":")
			name, args := p[0], p[1:]
			res, err, handled := s.readCall(ctx, r, name, args)
			if !handled && tx != nil {
				res, err, handled = s.writeCall(ctx, tx, name, args)
			}
			if handled {
				s.counts[name]++
			}
			switch {
			case !handled:
				out[i] = "bad"
			case err != nil:
				out[i] = dbxErr(err)
				failed = true
				for j := i + 1; j < len(toks); j++ {
					out[j] = "skip"
				}
				return err
			default:
				out[i] = dbxDigest(s.full, res)
			}
		}
		if !commit {
			return dbxAbort
		}
		return nil
	}
	var err error
	func() {
		defer func() {
			if p := recover(); p != nil {
				// a Go panic inside the operation (wrapTx rolls back and re-panics)
				for i := range out {
					if out[i] == "" {
						if !failed {
							out[i] = "panic"
							failed = true
						} else {
							out[i] = "skip"
						}
					}
				}
				err = fmt.Errorf("panic: %v", p)
			}
		}()
		if write {
			err = s.client.Write(ctx, func(ctx context.Context, tx db.Transaction) error { return body(tx, tx) })
		} else {
			err = s.client.Read(ctx, func(ctx context.Context, r db.ReadOnly) error { return body(r, nil) })
		}
	}()
	s.pos = base + len(toks)
	end := "end"
	if write {
		switch {
		case err == nil:
			end = "committed"
		case failed || errors.Is(err, dbxAbort):
			end = "rolledback"
		default:
			end = "err:commit"
		}
	}
	return append(out, end)
}

func (s *dbxSession) reopen() string {
	if s.raw != nil {
		_ = s.raw.Close()
		s.raw = nil
	}
	if err := s.client.Close(); err != nil {
		return "err:close"
	}
	s.client = nil
	if err := s.open(); err != nil {
		return "err:open"
	}
	return "ok"
}

// run executes a token list (whole transactions and the tokens between them).
func (s *dbxSession) run(toks []string) []string {
	var out []string
	for i := 0; i < len(toks); {
		tok := toks[i]
		switch tok {
		case "R[", "W[":
			j := i + 1
			for j < len(toks) && toks[j] != "]c" && toks[j] != "]a" {
				j++
			}
			out = append(out, ".")
			s.pos++
			if j == len(toks) {
				// unterminated transaction: run and abort
				res := s.runTx(tok == "W[", toks[i+1:j], false)
				out = append(out, res[:len(res)-1]...)
				i = j
				continue
			}
			out = append(out, s.runTx(tok == "W[", toks[i+1:j], toks[j] == "]c")...)
			s.pos++
			i = j + 1
		case "dump":
			out = append(out, s.dump())
			s.pos++
			i++
		case "reopen":
			out = append(out, s.reopen())
			s.pos++
			i++
		default:
			switch {
			case dbxcIsGrow(tok):
				out = append(out, s.dbxcGrow(dbxcTokArg(tok)))
			case dbxcIsClient(tok):
				out = append(out, s.dbxcSetClient(dbxcTokArg(tok)))
			default:
				out = append(out, "bad")
			}
			s.pos++
			i++
		}
	}
	return out
}

// ---- raw dump ----------------------------------------------------------------------------------------

func (s *dbxSession) query(q string, n int, row func(v []any)) error {
	raw, err := s.rawDB()
	if err != nil {
		return err
	}
	rows, err := raw.Query(q)
	if err != nil {
		return err
	}
	defer rows.Close()
	for rows.Next() {
		v := make([]any, n)
		p := make([]any, n)
		for i := range v {
			p[i] = &v[i]
		}
		if err := rows.Scan(p...); err != nil {
			return err
		}
		row(v)
	}
	return rows.Err()
}

func dbxVal(v any) string {
	switch x := v.(type) {
	case nil:
		return "NULL"
	case []byte:
		return string(x)
	case time.Time:
		return strconv.FormatInt(x.Unix(), 10)
	case bool:
		return b2sDbx(x)
	}
	return fmt.Sprint(v)
}

func dbxBoolVal(v any) string {
	switch dbxVal(v) {
	case "0", "false":
		return "0"
	case "1", "true":
		return "1"
	}
	return "?" + dbxVal(v)
}

func (s *dbxSession) dump() string {
	var secs []string
	fail := func(err error) string { return "dump:err:" + strings.ReplaceAll(err.Error(), " ", "_") }
	sec := func(name, body string) { secs = append(secs, name+"="+dbxDigest(s.full, body)) }
	var l []string
	if err := s.query("SELECT id, remote_id, name, uid_validity, subscribed FROM mailboxes_v2", 5, func(v []any) {
		l = append(l, fmt.Sprintf("%s/%s/%s/%s/%s", dbxVal(v[0]), dbxShowStr(dbxVal(v[1])), dbxShowStr(dbxVal(v[2])), dbxVal(v[3]), dbxBoolVal(v[4])))
	}); err != nil {
		return fail(err)
	}
	sec("mb", dbxShowSet(l))
	for _, t := range [][2]string{{"mf", "mailbox_flags_v2"}, {"mp", "mailbox_perm_flags_v2"}, {"ma", "mailbox_attrs_v2"}} {
		l = nil
		if err := s.query("SELECT mailbox_id, value FROM "+t[1], 2, func(v []any) {
			l = append(l, dbxVal(v[0])+"="+dbxShowStr(dbxVal(v[1])))
		}); err != nil {
			return fail(err)
		}
		sec(t[0], dbxShowSet(l))
	}
	l = nil
	if err := s.query("SELECT name, seq FROM sqlite_sequence", 2, func(v []any) {
		n := dbxVal(v[0])
		switch {
		case n == "mailboxes_v2":
			l = append(l, "mailboxes="+dbxVal(v[1]))
		case strings.HasPrefix(n, "mailbox_message_"):
			l = append(l, "mm"+strings.TrimPrefix(n, "mailbox_message_")+"="+dbxVal(v[1]))
		}
	}); err != nil {
		return fail(err)
	}
	sec("seq", dbxShowSet(l))
	var tables []string
	if err := s.query("SELECT name FROM sqlite_master WHERE type = 'table' AND name LIKE 'mailbox\\_message\\_%' ESCAPE '\\'", 1, func(v []any) {
		tables = append(tables, dbxVal(v[0]))
	}); err != nil {
		return fail(err)
	}
	l = nil
	for _, t := range tables {
		var rows []string
		if err := s.query("SELECT uid, deleted, recent, message_id, message_remote_id FROM `"+t+"` ORDER BY uid", 5, func(v []any) {
			rows = append(rows, fmt.Sprintf("%s/%s/%s/%s/%s", dbxVal(v[0]), dbxBoolVal(v[1]), dbxBoolVal(v[2]), dbxMsgNum(dbxVal(v[3])), dbxShowStr(s.rid(dbxVal(v[4])))))
		}); err != nil {
			return fail(err)
		}
		l = append(l, strings.TrimPrefix(t, "mailbox_message_")+"["+strings.Join(rows, ";")+"]")
	}
	sec("tb", dbxShowSet(l))
	l = nil
	if err := s.query("SELECT id, remote_id, date, size, body, body_structure, envelope, deleted FROM messages_v2", 8, func(v []any) {
		l = append(l, fmt.Sprintf("%s/%s/%s/%s/%s/%s/%s/%s", dbxMsgNum(dbxVal(v[0])), dbxShowStr(s.rid(dbxVal(v[1]))), dbxVal(v[2]), dbxVal(v[3]),
			dbxShowStr(dbxVal(v[4])), dbxShowStr(dbxVal(v[5])), dbxShowStr(dbxVal(v[6])), dbxBoolVal(v[7])))
	}); err != nil {
		return fail(err)
	}
	sec("ms", dbxShowSet(l))
	l = nil
	if err := s.query("SELECT message_id, value FROM message_flags_v2", 2, func(v []any) {
		l = append(l, dbxMsgNum(dbxVal(v[0]))+"="+dbxShowStr(dbxVal(v[1])))
	}); err != nil {
		return fail(err)
	}
	sec("fl", dbxShowSet(l))
	l = nil
	if err := s.query("SELECT message_id, mailbox_id FROM message_to_mailbox", 2, func(v []any) {
		l = append(l, dbxMsgNum(dbxVal(v[0]))+"="+dbxVal(v[1]))
	}); err != nil {
		return fail(err)
	}
	sec("mm", dbxShowSet(l))
	l = nil
	if err := s.query("SELECT name, remote_id FROM deleted_subscriptions", 2, func(v []any) {
		l = append(l, dbxShowStr(dbxVal(v[0]))+"="+dbxShowStr(dbxVal(v[1])))
	}); err != nil {
		return fail(err)
	}
	sec("ds", dbxShowSet(l))
	cs := "?"
	if err := s.query("SELECT value FROM connector_settings WHERE id = 0", 1, func(v []any) {
		if v[0] == nil {
			cs = "~"
		} else {
			cs = "s" + dbxVal(v[0])
		}
	}); err != nil {
		return fail(err)
	}
	sec("cs", cs)
	return "dump:" + strings.Join(secs, ";;")
}

// ---- Impl ------------------------------------------------------------------------------------------------

func dbxImpl(args []string) string {
	if len(args) < 1 {
		return "bad-op"
	}
	s, err := dbxNewSession(args[0] == "f")
	if err != nil {
		return "harness-error " + strings.ReplaceAll(err.Error(), " ", "_")
	}
	defer s.close()
	return strings.Join(s.run(args[1:]), " ")
}

// ---- generator -------------------------------------------------------------------------------------------

func dbxMethods() []string {
	var out []string
	t := reflect.TypeOf((*db.Transaction)(nil)).Elem()
	for i := 0; i < t.NumMethod(); i++ {
		out = append(out, t.Method(i).Name)
	}
	sort.Strings(out)
	return out
}

func dbxReadMethods() map[string]bool {
	out := map[string]bool{}
	t := reflect.TypeOf((*db.ReadOnly)(nil)).Elem()
	for i := 0; i < t.NumMethod(); i++ {
		out[t.Method(i).Name] = true
	}
	return out
}

type dbxMirMbox struct {
	id        int
	rid, name string
}

// what the generator knows about the scratch database (refreshed after every transaction)
type dbxMirror struct {
	mboxes  []dbxMirMbox
	msgs    []int
	msgRids []string
	member  map[int][]int
	dsubs   []string
}

type dbxGenState struct {
	r       *Rng
	s       *dbxSession
	m       dbxMirror
	nextMsg int
	nextRid int
	toks    []string
	st      *Stats
	reads   map[string]bool
	all     []string
	bulkLen int
	dumpAll bool // a dump after every transaction (tours through the client variants)
}

var dbxFlagPool = []string{`\Seen`, `\seen`, `\Flagged`, `\Answered`, `\Draft`, `\Deleted`, "custom", "Custom", "$Forwarded", "x.y"}
var dbxNamePool = []string{"INBOX", "Sent", "Archive", "Folder.a", "Folder.b", "Trash", "inbox"}

// dbxCaseVariant: the flag as it is, lower-cased, upper-cased, or with the case of one letter flipped
func dbxCaseVariant(r *Rng, f string) string {
	switch r.Intn(5) {
	case 0:
		return strings.ToLower(f)
	case 1:
		return strings.ToUpper(f)
	case 2:
		b := []byte(f)
		i := r.Intn(len(b))
		switch {
		case b[i] >= 'a' && b[i] <= 'z':
			b[i] -= 32
		case b[i] >= 'A' && b[i] <= 'Z':
			b[i] += 32
		}
		return string(b)
	}
	return f
}

func (g *dbxGenState) refresh() {
	m := dbxMirror{member: map[int][]int{}}
	_ = g.s.query("SELECT id, remote_id, name FROM mailboxes_v2 ORDER BY id", 3, func(v []any) {
		id, _ := strconv.Atoi(dbxVal(v[0]))
		m.mboxes = append(m.mboxes, dbxMirMbox{id, dbxVal(v[1]), dbxVal(v[2])})
	})
	_ = g.s.query("SELECT id, remote_id FROM messages_v2", 2, func(v []any) {
		if n, err := strconv.Atoi(dbxMsgNum(dbxVal(v[0]))); err == nil {
			m.msgs = append(m.msgs, n)
			if rid := dbxVal(v[1]); !strings.HasPrefix(rid, "DELETED-") { // made-up remote ids (random UUIDs) differ from run to run
				m.msgRids = append(m.msgRids, rid)
			}
		}
	})
	sort.Ints(m.msgs)
	sort.Strings(m.msgRids)
	for _, mb := range m.mboxes {
		_ = g.s.query(fmt.Sprintf("SELECT message_id FROM mailbox_message_%d ORDER BY uid", mb.id), 1, func(v []any) {
			if n, err := strconv.Atoi(dbxMsgNum(dbxVal(v[0]))); err == nil {
				m.member[mb.id] = append(m.member[mb.id], n)
			}
		})
	}
	_ = g.s.query("SELECT name FROM deleted_subscriptions ORDER BY name", 1, func(v []any) { m.dsubs = append(m.dsubs, dbxVal(v[0])) })
	g.m = m
}

func (g *dbxGenState) mbox() string {
	if len(g.m.mboxes) == 0 || g.r.Chance(1, 14) {
		return strconv.Itoa(g.r.Range(0, 9))
	}
	return strconv.Itoa(Pick(g.r, g.m.mboxes).id)
}

func (g *dbxGenState) mboxRid() string {
	if len(g.m.mboxes) == 0 || g.r.Chance(1, 14) {
		return fmt.Sprintf("r%d", g.r.Range(0, 30))
	}
	return Pick(g.r, g.m.mboxes).rid
}

func (g *dbxGenState) freshRid() string {
	g.nextRid++
	return fmt.Sprintf("r%d", g.nextRid)
}

func (g *dbxGenState) mboxName(fresh bool) string {
	if !fresh && len(g.m.mboxes) > 0 && !g.r.Chance(1, 6) {
		return Pick(g.r, g.m.mboxes).name
	}
	if g.r.Chance(1, 2) {
		return Pick(g.r, dbxNamePool)
	}
	return fmt.Sprintf("N%d", g.r.Range(0, 40))
}

func (g *dbxGenState) msg() string {
	if len(g.m.msgs) == 0 || g.r.Chance(1, 14) {
		return strconv.Itoa(g.r.Range(0, g.nextMsg+3))
	}
	return strconv.Itoa(Pick(g.r, g.m.msgs))
}

func (g *dbxGenState) msgRid() string {
	if len(g.m.msgRids) == 0 || g.r.Chance(1, 6) {
		return fmt.Sprintf("x%d", g.r.Range(0, g.nextMsg+3))
	}
	return Pick(g.r, g.m.msgRids)
}

// a list of k message ids: mostly from `from` (members of a mailbox, or all messages), some that do not exist
func (g *dbxGenState) msgList(from []int, k int) string {
	var out []string
	for i := 0; i < k; i++ {
		if len(from) == 0 || g.r.Chance(1, 25) {
			out = append(out, strconv.Itoa(g.r.Range(0, g.nextMsg+3)))
		} else {
			out = append(out, strconv.Itoa(Pick(g.r, from)))
		}
	}
	return dbxShowList(out)
}

func (g *dbxGenState) smallLen() int {
	switch g.r.Intn(10) {
	case 0:
		return 0
	case 1, 2, 3:
		return 1
	case 4, 5, 6:
		return 2
	}
	return g.r.Range(3, 7)
}

func (g *dbxGenState) flagSet(allowEmpty bool) string {
	n := g.r.Range(0, 3)
	if n == 0 && !allowEmpty {
		n = 1
	}
	seen := map[string]bool{}
	var out []string
	for len(out) < n {
		f := Pick(g.r, dbxFlagPool)
		if !seen[strings.ToLower(f)] {
			seen[strings.ToLower(f)] = true
			out = append(out, f)
		}
	}
	if len(out) == 0 {
		return "~"
	}
	return strings.Join(out, "+")
}

func (g *dbxGenState) req() string {
	id := g.nextMsg + 1
	rid := fmt.Sprintf("x%d", id)
	switch g.r.Intn(12) {
	case 0: // an id that exists already
		if len(g.m.msgs) > 0 {
			id = Pick(g.r, g.m.msgs)
		}
	case 1: // a remote id that exists already
		if len(g.m.msgRids) > 0 {
			rid = Pick(g.r, g.m.msgRids)
		}
		g.nextMsg++
	case 2:
		rid = fmt.Sprintf("y%d", id)
		g.nextMsg++
	default:
		g.nextMsg++
	}
	return fmt.Sprintf("%d=%s=%d=%d=%s", id, rid, g.r.Range(0, 5000), g.r.Range(0, 2000000000), g.flagSet(true))
}

func (g *dbxGenState) membersOf(mb string) []int {
	id, _ := strconv.Atoi(mb)
	return g.m.member[id]
}

// one call token of the named method
func (g *dbxGenState) callTok(name string) string {
	r := g.r
	switch name {
	case "MailboxExistsWithID", "GetMailboxName", "GetMailboxMessageIDPairs", "GetMailboxByID", "GetMailboxRecentCount", "GetMailboxMessageCount",
		"GetMailboxFlags", "GetMailboxPermanentFlags", "GetMailboxAttributes", "GetMailboxUID", "GetMailboxMessageCountAndUID",
		"GetMailboxMessageForNewSnapshot", "ClearRecentFlagsInMailbox":
		return name + ":" + g.mbox()
	case "MailboxExistsWithRemoteID", "GetMailboxIDFromRemoteID", "GetMailboxNameWithRemoteID", "GetMailboxByRemoteID",
		"GetMailboxMessageCountWithRemoteID", "DeleteMailboxWithRemoteID":
		return name + ":" + g.mboxRid()
	case "MailboxExistsWithName", "GetMailboxByName":
		return name + ":" + g.mboxName(false)
	case "GetAllMailboxesWithAttr", "GetAllMailboxesAsRemoteIDs", "GetMailboxCount", "GetAllMailboxesNameAndRemoteID", "GetTotalMessageCount",
		"GetMessageIDsMarkedAsDelete", "GetAllMessagesIDsAsMap", "GetDeletedSubscriptionSet", "GetConnectorSettings":
		return name
	case "MailboxTranslateRemoteIDs":
		var l []string
		for i, k := 0, g.smallLen(); i < k; i++ {
			l = append(l, g.mboxRid())
		}
		return name + ":" + dbxShowList(l)
	case "MailboxFilterContains":
		mb := g.mbox()
		from := g.membersOf(mb)
		if r.Chance(1, 3) {
			from = g.m.msgs
		}
		return name + ":" + mb + ":" + g.msgList(from, g.smallLen())
	case "MessageExists", "GetMessageNoEdges", "GetMessageRemoteID", "GetImportedMessageData", "GetMessageDateAndSize", "GetMessageMailboxIDs",
		"GetMessageDeletedFlag", "MarkMessageAsDeleted", "MarkMessageAsDeletedAndAssignRandomRemoteID":
		return name + ":" + g.msg()
	case "MessageExistsWithRemoteID", "GetMessageIDFromRemoteID", "MarkMessageAsDeletedWithRemoteID":
		return name + ":" + g.msgRid()
	case "GetMessagesFlags", "DeleteMessages":
		from := g.m.msgs
		if name == "DeleteMessages" && r.Chance(2, 3) {
			// prefer messages that are in no mailbox (deleting a member fails with NOT NULL)
			in := map[int]bool{}
			for _, l := range g.m.member {
				for _, x := range l {
					in[x] = true
				}
			}
			var free []int
			for _, x := range g.m.msgs {
				if !in[x] {
					free = append(free, x)
				}
			}
			if len(free) > 0 {
				from = free
			}
		}
		return name + ":" + g.msgList(from, g.smallLen())
	case "CreateMailbox", "GetOrCreateMailbox":
		rid := g.freshRid()
		if r.Chance(1, 5) {
			rid = g.mboxRid()
		}
		return fmt.Sprintf("%s:%s:%s:%s:%s:%s:%d", name, rid, g.mboxName(!r.Chance(1, 6)), g.flagSet(true), g.flagSet(true), g.flagSet(true), r.Range(1, 1000000))
	case "GetOrCreateMailboxAlt", "CreateMailboxIfNotExists":
		rid := g.freshRid()
		if r.Chance(1, 4) {
			rid = g.mboxRid()
		}
		path := []string{fmt.Sprintf("P%d", r.Range(0, 20))}
		if r.Chance(1, 2) {
			path = append(path, fmt.Sprintf("c%d", r.Range(0, 5)))
		}
		return fmt.Sprintf("%s:%s:%s:%s:%s:%s:%s:%d", name, rid, strings.Join(path, ","), Pick(r, []string{".", "_", "~"}), g.flagSet(true), g.flagSet(true), g.flagSet(true), r.Range(1, 1000000))
	case "RenameMailboxWithRemoteID":
		return name + ":" + g.mboxRid() + ":" + g.mboxName(!r.Chance(1, 4))
	case "AddMessagesToMailbox":
		mb := g.mbox()
		in := map[int]bool{}
		for _, x := range g.membersOf(mb) {
			in[x] = true
		}
		var free []int
		for _, x := range g.m.msgs {
			if !in[x] {
				free = append(free, x)
			}
		}
		if r.Chance(1, 8) {
			free = g.m.msgs
		}
		// distinct ids (a duplicate inside the list is a plain UNIQUE error; keep it rare)
		k := g.smallLen()
		seen := map[string]bool{}
		var l []string
		for i := 0; i < k; i++ {
			var it string
			if len(free) == 0 || r.Chance(1, 12) {
				it = strconv.Itoa(r.Range(0, g.nextMsg+3))
			} else {
				it = strconv.Itoa(Pick(r, free))
			}
			if seen[it] && !r.Chance(1, 10) {
				continue
			}
			seen[it] = true
			if r.Chance(1, 15) {
				it += "=" + g.msgRid()
			}
			l = append(l, it)
		}
		return name + ":" + mb + ":" + dbxShowList(l)
	case "RemoveMessagesFromMailbox":
		mb := g.mbox()
		return name + ":" + mb + ":" + g.msgList(g.membersOf(mb), g.smallLen())
	case "ClearRecentFlagInMailboxOnMessage":
		mb := g.mbox()
		l := g.membersOf(mb)
		if len(l) > 0 && !r.Chance(1, 6) {
			return name + ":" + mb + ":" + strconv.Itoa(Pick(r, l))
		}
		return name + ":" + mb + ":" + g.msg()
	case "SetMailboxMessagesDeletedFlag":
		mb := g.mbox()
		return name + ":" + mb + ":" + g.msgList(g.membersOf(mb), g.smallLen()) + ":" + b2sDbx(r.Bool())
	case "SetMailboxSubscribed":
		return name + ":" + g.mbox() + ":" + b2sDbx(r.Bool())
	case "UpdateRemoteMailboxID":
		rid := g.freshRid()
		if r.Chance(1, 4) {
			rid = g.mboxRid()
		}
		return name + ":" + g.mbox() + ":" + rid
	case "SetMailboxUIDValidity":
		return name + ":" + g.mbox() + ":" + strconv.Itoa(r.Range(1, 1000000))
	case "AddFlagsToAllMailboxes", "AddPermFlagsToAllMailboxes":
		var l []string
		for i, k := 0, r.Range(1, 3); i < k; i++ {
			l = append(l, Pick(r, dbxFlagPool))
		}
		return name + ":" + strings.Join(l, ",")
	case "CreateMessages":
		var l []string
		for i, k := 0, g.smallLen(); i < k; i++ {
			l = append(l, g.req())
		}
		return name + ":" + dbxShowList(l)
	case "CreateMessageAndAddToMailbox":
		return name + ":" + g.mbox() + ":" + g.req()
	case "UpdateRemoteMessageID":
		return name + ":" + g.msg() + ":" + fmt.Sprintf("z%d", r.Range(0, 50))
	case "AddFlagToMessages", "RemoveFlagFromMessages":
		// several spellings of one flag: the INSERT is case-sensitive, the DELETE is COLLATE NOCASE
		return name + ":" + g.msgList(g.m.msgs, g.smallLen()) + ":" + dbxCaseVariant(r, Pick(r, dbxFlagPool))
	case "SetFlagsOnMessages":
		return name + ":" + g.msgList(g.m.msgs, g.smallLen()) + ":" + g.flagSet(false)
	case "AddDeletedSubscription":
		n := g.mboxName(false)
		if len(g.m.dsubs) > 0 && r.Chance(1, 3) {
			n = Pick(r, g.m.dsubs)
		}
		return name + ":" + n + ":" + g.mboxRid()
	case "RemoveDeletedSubscriptionWithName":
		if len(g.m.dsubs) > 0 && !r.Chance(1, 4) {
			return name + ":" + Pick(r, g.m.dsubs)
		}
		return name + ":" + g.mboxName(false)
	case "StoreConnectorSettings":
		return name + ":" + Pick(r, []string{"~", "cfg1", "cfg2", "a.b"})
	}
	return name // unknown to the generator: the implementation answers `bad`, the run fails on coverage
}

// emit one transaction, execute it on the scratch database, refresh the mirror
func (g *dbxGenState) tx(write bool, calls []string, commit bool) {
	open, end := "R[", "]c"
	if write {
		open = "W["
	}
	if !commit {
		end = "]a"
	}
	toks := append(append([]string{open}, calls...), end)
	g.toks = append(g.toks, toks...)
	res := g.s.run(toks)
	for i, t := range calls {
		name := strings.SplitN(t, ":", 2)[0]
		g.st.Inc("call." + name)
		if i+1 < len(res) {
			w := res[i+1]
			switch {
			case strings.HasPrefix(w, "err:"), w == "panic":
				g.st.Inc("outcome." + w)
			case w == "skip":
				g.st.Inc("outcome.skip")
			default:
				g.st.Inc("outcome.ok")
			}
		}
	}
	if write {
		g.st.Inc("tx.write." + res[len(res)-1])
	} else {
		g.st.Inc("tx.read")
	}
	g.refresh()
}

func (g *dbxGenState) between() {
	if g.dumpAll || g.r.Chance(2, 5) {
		g.toks = append(g.toks, "dump")
		g.st.Inc("dump")
	}
	if g.r.Chance(1, 25) {
		if g.r.Bool() {
			g.toks = append(g.toks, "reopen")
			g.s.run([]string{"reopen"})
			g.st.Inc("reopen")
		} else {
			// the same database behind another client variant
			g.control(dbxcClientTok(Pick(g.r, dbxcVariants)))
		}
	}
	if g.r.Chance(1, 6) {
		// overlapping readers in the middle of the session: the pool grows, what follows runs on another connection
		g.control(dbxcGrowTok(Pick(g.r, []int{2, 3, 8})))
	}
}

// control emits a token that is not a transaction (`client:<variant>`, `grow:<k>`) and executes it on the scratch database.
func (g *dbxGenState) control(tok string) {
	g.toks = append(g.toks, tok)
	res := g.s.run([]string{tok})
	switch {
	case dbxcIsClient(tok):
		g.st.Inc("client." + dbxcTokArg(tok))
	case dbxcIsGrow(tok):
		g.st.Inc("grow.k" + dbxcTokArg(tok))
	}
	if len(res) != 1 || res[0] != "ok" {
		g.st.Inc("control.not-ok")
	}
}

func (g *dbxGenState) setup() {
	var calls []string
	for i, k := 0, g.r.Range(1, 3); i < k; i++ {
		calls = append(calls, g.callTok("CreateMailbox"))
	}
	g.tx(true, calls, true)
	calls = nil
	for i, k := 0, g.r.Range(1, 3); i < k; i++ {
		calls = append(calls, g.callTok("CreateMessages"))
	}
	g.tx(true, calls, true)
	calls = nil
	for i, k := 0, g.r.Range(1, 3); i < k; i++ {
		calls = append(calls, g.callTok("AddMessagesToMailbox"))
	}
	g.tx(true, calls, true)
}

// a random session: a few set-up transactions, then a random mix
func (g *dbxGenState) randomSession(tour bool) {
	g.setup()
	var writes []string
	for _, m := range g.all {
		if !g.reads[m] {
			writes = append(writes, m)
		}
	}
	var reads []string
	for m := range g.reads {
		reads = append(reads, m)
	}
	sort.Strings(reads)
	if tour {
		// every method once, in shuffled order, one per transaction (a failed call would skip the rest)
		order := append([]string{}, g.all...)
		for i := len(order) - 1; i > 0; i-- {
			j := g.r.Intn(i + 1)
			order[i], order[j] = order[j], order[i]
		}
		for len(order) > 0 {
			k := 1
			var calls []string
			write := false
			for _, m := range order[:k] {
				calls = append(calls, g.callTok(m))
				write = write || !g.reads[m]
			}
			order = order[k:]
			g.tx(write, calls, true)
			g.between()
		}
	}
	for i, n := 0, g.r.Range(5, 12); i < n; i++ {
		write := g.r.Chance(7, 10)
		var calls []string
		for j, k := 0, g.r.Range(1, 5); j < k; j++ {
			if write && g.r.Chance(2, 3) {
				calls = append(calls, g.callTok(Pick(g.r, writes)))
			} else {
				calls = append(calls, g.callTok(Pick(g.r, reads)))
			}
		}
		g.tx(write, calls, !g.r.Chance(1, 5))
		g.between()
	}
	g.toks = append(g.toks, "dump")
}

func dbxRange(lo, hi int) string {
	if hi < lo {
		return "-"
	}
	return fmt.Sprintf("%d..%d", lo, hi)
}

// a session whose bulk arguments have length L (around the chunk limits)
func (g *dbxGenState) bulkSession(L int) {
	r := g.r
	g.st.Inc(fmt.Sprintf("bulk.len.%d", L))
	all := dbxRange(1, L)
	g.tx(true, []string{"CreateMailbox:r1:A:\\Seen+custom:\\Seen:~:7", "CreateMailbox:r2:B:~:~:\\Noselect:8"}, true)
	g.nextRid = 2
	g.tx(true, []string{"CreateMessages:" + map[bool]string{true: "-", false: all + "=" + g.flagSet(true)}[L == 0], "GetTotalMessageCount"}, true)
	g.nextMsg = L
	g.tx(true, []string{"AddMessagesToMailbox:1:" + all, "GetMailboxMessageCountAndUID:1"}, !r.Chance(1, 6))
	g.toks = append(g.toks, "dump")
	if len(g.m.member[1]) == 0 && L > 0 {
		g.tx(true, []string{"AddMessagesToMailbox:1:" + all}, true)
	}
	g.tx(false, []string{
		"MailboxFilterContains:1:" + dbxRange(1, L+2),
		"GetMessagesFlags:" + all,
		"MailboxTranslateRemoteIDs:" + dbxRange(1, L),
		"GetMailboxMessageForNewSnapshot:1",
	}, true)
	g.tx(true, []string{
		"SetMailboxMessagesDeletedFlag:1:" + all + ":1",
		"AddFlagToMessages:" + all + ":" + dbxCaseVariant(r, Pick(r, dbxFlagPool)),
		"RemoveFlagFromMessages:" + dbxRange(min(2, L), L) + ":" + dbxCaseVariant(r, Pick(r, dbxFlagPool)),
		"GetMailboxRecentCount:1",
	}, true)
	g.toks = append(g.toks, "dump")
	g.tx(true, []string{"SetFlagsOnMessages:" + all + ":" + g.flagSet(false), "GetMessagesFlags:" + all}, !r.Chance(1, 6))
	g.toks = append(g.toks, "dump")
	g.tx(true, []string{"AddMessagesToMailbox:2:" + dbxRange(1, L), "SetMailboxMessagesDeletedFlag:2:" + dbxRange(1, L/2) + ":1"}, true)
	if r.Bool() {
		g.control(dbxcGrowTok(Pick(r, []int{2, 8})))
	}
	g.tx(true, []string{"RemoveMessagesFromMailbox:1:" + all, "GetMailboxMessageCount:1", "GetMessageMailboxIDs:1"}, true)
	g.toks = append(g.toks, "dump")
	g.tx(true, []string{"RemoveMessagesFromMailbox:2:" + all, "GetMailboxMessageCount:2"}, true)
	g.control(dbxcGrowTok(Pick(r, []int{2, 8})))
	g.tx(true, []string{"DeleteMessages:" + all, "GetTotalMessageCount"}, true)
	g.toks = append(g.toks, "dump")
	g.tx(true, []string{"DeleteMailboxWithRemoteID:r2", "DeleteMessages:" + all, "GetTotalMessageCount"}, true)
	g.toks = append(g.toks, "dump")
}

// a session about the referential actions of the schema (ON DELETE CASCADE, SET NULL into NOT NULL, reference checks):
// mailboxes with flags / permanent flags / attributes, messages with flags, memberships; then - after `grow:k`
// overlapping readers, i.e. on whatever connection the pool hands out next - mailboxes and messages are deleted,
// unknown ids are referenced, and every lookup that goes through the dependent rows is asked; a dump after every step.
func (g *dbxGenState) refSession(k int) {
	r := g.r
	g.st.Inc(fmt.Sprintf("ref.grow.k%d", k))
	step := func(write bool, calls ...string) {
		g.tx(write, calls, true)
		g.toks = append(g.toks, "dump")
	}
	n := r.Range(4, 9)
	step(true,
		"CreateMailbox:r1:A:"+g.flagSet(false)+":"+g.flagSet(false)+":\\Noinferiors:7",
		"CreateMailbox:r2:B:"+g.flagSet(false)+":"+g.flagSet(true)+":~:8",
		"CreateMailbox:r3:C:~:"+g.flagSet(false)+":\\Marked:9",
		"SetMailboxSubscribed:2:"+b2sDbx(r.Bool()))
	g.nextRid = 3
	step(true, "CreateMessages:"+dbxRange(1, n)+"="+g.flagSet(false), "AddFlagToMessages:"+dbxRange(1, n/2)+":"+Pick(r, dbxFlagPool))
	g.nextMsg = n
	step(true, "AddMessagesToMailbox:1:"+dbxRange(1, n), "AddMessagesToMailbox:2:"+dbxRange(2, n), "AddMessagesToMailbox:3:"+dbxRange(1, 1))
	if k > 0 {
		g.control(dbxcGrowTok(k))
	}
	// references to rows that do not exist
	g.tx(true, []string{"AddMessagesToMailbox:2:" + strconv.Itoa(n+5)}, true)
	g.tx(true, []string{"AddFlagToMessages:" + strconv.Itoa(n+6) + ":custom"}, true)
	g.tx(true, []string{"AddMessagesToMailbox:77:1"}, true)
	g.toks = append(g.toks, "dump")
	// a mailbox goes: its flags, permanent flags, attributes, memberships go with it
	step(true, "DeleteMailboxWithRemoteID:r2", "GetMessageMailboxIDs:2", "GetMessageMailboxIDs:1", "GetMailboxFlags:2", "GetMailboxPermanentFlags:2",
		"GetMailboxAttributes:2", "GetDeletedSubscriptionSet")
	step(false, "GetMessageMailboxIDs:"+strconv.Itoa(n), "GetAllMailboxesWithAttr", "GetMailboxMessageCount:1", "MailboxFilterContains:1:"+dbxRange(1, n))
	if k > 0 && r.Bool() {
		g.control(dbxcGrowTok(k))
	}
	// a message that is still a member cannot go; after it left the mailbox tables it goes with its flags and memberships
	g.tx(true, []string{"DeleteMessages:" + dbxRange(1, 2)}, true)
	g.toks = append(g.toks, "dump")
	step(true, "RemoveMessagesFromMailbox:1:"+dbxRange(2, 3), "DeleteMessages:"+dbxRange(2, 3), "GetMessagesFlags:"+dbxRange(1, n), "GetTotalMessageCount")
	step(true, "CreateMessages:"+strconv.Itoa(n+1)+"=y1=10=20="+g.flagSet(false), "DeleteMessages:"+strconv.Itoa(n+1), "GetMessagesFlags:"+strconv.Itoa(n+1))
	g.nextMsg = n + 1
	step(true, "DeleteMailboxWithRemoteID:r1", "GetMessageMailboxIDs:1", "GetMessageMailboxIDs:4", "DeleteMailboxWithRemoteID:r3", "GetMessageMailboxIDs:1",
		"DeleteMessages:"+dbxRange(1, n), "GetTotalMessageCount")
}

var dbxBoundary = []int{499, 500, 501, 999, 1000, 1001, 1999, 2000, 2001}

func dbxGen(r *Rng, n int, w io.Writer, st *Stats) {
	// NewRng(seed) and NewRng(seed+1) are the same splitmix stream shifted by one draw; start an
	// independent stream from the first (finalised) output so that seeds give unrelated runs
	r = NewRng(r.U64())
	all := dbxMethods()
	reads := dbxReadMethods()
	thorough := n >= 2000
	// bulk lengths of this run
	var bulk []int
	if thorough {
		for rep := 0; rep < 2; rep++ {
			bulk = append(bulk, 0, 1, 2)
			bulk = append(bulk, dbxBoundary...)
			bulk = append(bulk, 2500)
		}
	} else {
		// quick: one tiny list, one length around ChunkLimit/2 or ChunkLimit, one beyond ChunkLimit
		bulk = []int{Pick(r, []int{0, 1, 2}), Pick(r, []int{499, 500, 501, 999, 1000}), Pick(r, []int{1001, 1999, 2000, 2001})}
	}
	total := map[string]int{}
	// the client variant (d_db_client.go) rotates from session to session, starting at a point the seed chooses; the first
	// sessions are one tour through every method per variant
	voff := r.Intn(len(dbxcVariants))
	tours := len(dbxcVariants)
	refs := []int{0, 2, 8}
	logBefore := map[logrus.Level]int{}
	for line := 0; line < n; line++ {
		s, err := dbxNewSession(false)
		if err != nil {
			fmt.Fprintln(os.Stderr, "db generator: cannot open scratch database:", err)
			os.Exit(1)
		}
		g := &dbxGenState{r: r.Fork(), s: s, st: st, reads: reads, all: all, m: dbxMirror{member: map[int][]int{}}}
		variant := dbxcVariants[(line+voff)%len(dbxcVariants)]
		st.Inc("variant." + variant)
		for _, l := range []logrus.Level{logrus.DebugLevel, logrus.TraceLevel} {
			logBefore[l] = dbxcLog.count(l)
		}
		if variant != "plain" {
			g.control(dbxcClientTok(variant))
			if g.s.client == nil {
				fmt.Fprintln(os.Stderr, "db generator: cannot open the", variant, "client")
				os.Exit(1)
			}
		}
		// overlapping readers before the session proper: 0, 2 or 8 of them
		if k := Pick(g.r, []int{0, 2, 8}); k > 0 && line >= tours {
			g.control(dbxcGrowTok(k))
		}
		line := line - (tours - 1)
		switch {
		case line <= 0:
			st.Inc("session.tour")
			g.dumpAll = variant != "plain"
			g.randomSession(true)
		case line <= len(bulk):
			st.Inc("session.bulk")
			g.bulkSession(bulk[line-1])
		case line <= len(bulk)+2:
			// every identifier-introducing method: change, look up, abort (or commit), look up again (d_db_probe.go)
			st.Inc("session.probe-directed")
			g.dbxpDirected(line == len(bulk)+2)
		case line <= len(bulk)+2+len(refs):
			// referential actions, sequentially and after overlapping readers
			st.Inc("session.ref")
			g.refSession(refs[line-len(bulk)-3])
		case line%4 == 1:
			// change, look up, abort, look up again (d_db_probe.go)
			st.Inc("session.probe")
			g.dbxpSession(g.r.Range(2, 4))
		default:
			st.Inc("session.random")
			g.randomSession(false)
		}
		for k, v := range s.counts {
			total[k] += v
		}
		s.close()
		// what the client wrote to the log during the session: SQL texts (Debug) and call names (Trace) - only the variants that
		// are switched on may write them, and they must
		dbg, trc := dbxcLog.count(logrus.DebugLevel)-logBefore[logrus.DebugLevel], dbxcLog.count(logrus.TraceLevel)-logBefore[logrus.TraceLevel]
		st.Add("variant."+variant+".log-lines.debug", dbg)
		st.Add("variant."+variant+".log-lines.trace", trc)
		fmt.Fprintln(w, "db d "+strings.Join(g.toks, " "))
	}
	var extra []string
	for k := range total {
		if strings.HasPrefix(k, "~") {
			extra = append(extra, k)
		}
	}
	sort.Strings(extra)
	for _, k := range extra {
		st.Add("pool."+k[1:], total[k])
	}
	// every method of db.ReadOnly / db.Transaction must have been called (a token the harness cannot execute answers `bad` and does not count)
	var missing []string
	for _, m := range all {
		st.Add("method."+m, total[m])
		if total[m] == 0 {
			missing = append(missing, m)
		}
	}
	st.Add("methods.total", len(all))
	st.Add("methods.unreached", len(missing))
	if len(missing) > 0 {
		fmt.Fprintln(os.Stderr, "db generator: methods of db.Transaction never called:", strings.Join(missing, ", "))
		os.Exit(3)
	}
}
