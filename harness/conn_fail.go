package main

// C20 — a connector (and a message store) whose calls fail on a script.
//
// c20FailConn embeds *connector.Dummy and overrides the four calls the APPEND/COPY/MOVE actions make
// (CreateMessage, AddMessagesToMailbox, RemoveMessagesFromMailbox, MoveMessages).  Every call
// consumes the next outcome of its own kind from the script (an exhausted script means success),
// so that the same script can be handed to the Lean model (Model/Append.lean `Script`).
//
// Outcomes: 'o' success (delegates to the Dummy), 'e' generic error, 's'
// connector.ErrMessageSizeExceedsLimits (wrapped), and for CreateMessage 'd': answer with the
// message the remote created earlier from the very same literal (same remote ID again: the
// "duplicate messages can return the same remote ID" path of actionCreateMessage); 'd' without
// such a message acts as 'o'.
// A failing call has no effect on the remote side.
//
// Close is a no-op so that the same remote state survives a server restart (Dummy.Close closes its
// channels).  c20NewSysConn is a copy of NewSys that takes the connector as interface; restarts do
// not call Sync (the remote pushes nothing on its own; see C20.py assumptions).

import (
	"bytes"
	"context"
	"errors"
	"fmt"
	"io"
	"net"
	"os"
	"path/filepath"
	"sync"
	"time"

	"github.com/ProtonMail/gluon"
	"github.com/ProtonMail/gluon/connector"
	"github.com/ProtonMail/gluon/imap"
	"github.com/ProtonMail/gluon/store"
)

type c20FailScript struct {
	Create, Add, Remove, Move, Store string // one letter per call
}

func (s c20FailScript) String() string {
	f := func(x string) string {
		if x == "" {
			return "-"
		}
		return x
	}
	return f(s.Create) + "," + f(s.Add) + "," + f(s.Remove) + "," + f(s.Move) + "," + f(s.Store)
}

func c20ParseFailScript(w string) (c20FailScript, error) {
	p := c20SplitKeep(w, ',')
	if len(p) != 5 {
		return c20FailScript{}, fmt.Errorf("bad script %q", w)
	}
	g := func(x string) string {
		if x == "-" {
			return ""
		}
		return x
	}
	return c20FailScript{g(p[0]), g(p[1]), g(p[2]), g(p[3]), g(p[4])}, nil
}

func c20SplitKeep(s string, sep byte) []string {
	var out []string
	cur := ""
	for i := 0; i < len(s); i++ {
		if s[i] == sep {
			out = append(out, cur)
			cur = ""
		} else {
			cur += string(s[i])
		}
	}
	return append(out, cur)
}

var c20ErrScripted = errors.New("scripted remote failure")

type c20ScriptCursor struct {
	mu      sync.Mutex
	script  [5]string
	pos     [5]int
	Calls   []string
	planned bool
}

const (
	c20KCreate = iota
	c20KAdd
	c20KRemove
	c20KMove
	c20KStore
)

var c20KindNames = [5]string{"create", "add", "remove", "move", "store"}

func (c *c20ScriptCursor) next(kind int) byte {
	c.mu.Lock()
	defer c.mu.Unlock()
	o := byte('o')
	if c.pos[kind] < len(c.script[kind]) {
		o = c.script[kind][c.pos[kind]]
	}
	c.pos[kind]++
	c.Calls = append(c.Calls, c20KindNames[kind]+":"+string(o))
	return o
}

// plan fixes the outcomes of the NEXT calls of one kind now (directed scenarios decide them step by
// step, knowing the observed state): letters planned earlier and not consumed are dropped, calls
// made beyond the script so far were successes ('o').  The script that results (current) replays
// the same run.
func (c *c20ScriptCursor) plan(kind int, letters string) {
	c.mu.Lock()
	defer c.mu.Unlock()
	s := c.script[kind]
	if len(s) > c.pos[kind] {
		s = s[:c.pos[kind]]
	}
	for len(s) < c.pos[kind] {
		s += "o"
	}
	c.script[kind] = s + letters
	c.planned = true
}

// current: the script as it stands (after plan: cut at what was consumed).
func (c *c20ScriptCursor) current() c20FailScript {
	c.mu.Lock()
	defer c.mu.Unlock()
	sc := c.script
	if c.planned {
		for k := range sc {
			if len(sc[k]) > c.pos[k] {
				sc[k] = sc[k][:c.pos[k]]
			}
		}
	}
	return c20FailScript{sc[0], sc[1], sc[2], sc[3], sc[4]}
}

func (c *c20ScriptCursor) positions() [5]int {
	c.mu.Lock()
	defer c.mu.Unlock()
	return c.pos
}

// consumedSince: the outcomes played since `from`, per kind
func (c *c20ScriptCursor) consumedSince(from [5]int) [5]string {
	c.mu.Lock()
	defer c.mu.Unlock()
	var out [5]string
	for k := range out {
		for i := from[k]; i < c.pos[k]; i++ {
			if i < len(c.script[k]) {
				out[k] += string(c.script[k][i])
			} else {
				out[k] += "o"
			}
		}
	}
	return out
}

func (c *c20ScriptCursor) TakeCalls() []string {
	c.mu.Lock()
	defer c.mu.Unlock()
	out := c.Calls
	c.Calls = nil
	return out
}

type c20FailConn struct {
	*connector.Dummy
	cur *c20ScriptCursor

	lmu     sync.Mutex
	created []c20CreatedMsg // newest first
}

type c20CreatedMsg struct {
	msg imap.Message
	lit []byte
}

func c20NewScriptCursor(s c20FailScript) *c20ScriptCursor {
	return &c20ScriptCursor{script: [5]string{s.Create, s.Add, s.Remove, s.Move, s.Store}}
}

func c20NewFailConn(d *connector.Dummy, cur *c20ScriptCursor) *c20FailConn {
	return &c20FailConn{Dummy: d, cur: cur}
}

func c20ScriptedErr(o byte) error {
	switch o {
	case 'e':
		return c20ErrScripted
	case 's':
		return fmt.Errorf("scripted: %w", connector.ErrMessageSizeExceedsLimits)
	}
	return nil
}

func (c *c20FailConn) CreateMessage(ctx context.Context, w connector.IMAPStateWrite, mboxID imap.MailboxID, literal []byte, flags imap.FlagSet, date time.Time) (imap.Message, []byte, error) {
	o := c.cur.next(c20KCreate)
	if err := c20ScriptedErr(o); err != nil {
		return imap.Message{}, nil, err
	}
	if o == 'd' {
		c.lmu.Lock()
		for _, cm := range c.created {
			if bytes.Equal(cm.lit, literal) {
				c.lmu.Unlock()
				return cm.msg, cm.lit, nil
			}
		}
		c.lmu.Unlock()
	}
	m, l, err := c.Dummy.CreateMessage(ctx, w, mboxID, literal, flags, date)
	if err == nil {
		c.lmu.Lock()
		c.created = append([]c20CreatedMsg{{m, append([]byte{}, literal...)}}, c.created...)
		c.lmu.Unlock()
	}
	return m, l, err
}

func (c *c20FailConn) AddMessagesToMailbox(ctx context.Context, w connector.IMAPStateWrite, ids []imap.MessageID, mboxID imap.MailboxID) error {
	if err := c20ScriptedErr(c.cur.next(c20KAdd)); err != nil {
		return err
	}
	return c.Dummy.AddMessagesToMailbox(ctx, w, ids, mboxID)
}

func (c *c20FailConn) RemoveMessagesFromMailbox(ctx context.Context, w connector.IMAPStateWrite, ids []imap.MessageID, mboxID imap.MailboxID) error {
	if err := c20ScriptedErr(c.cur.next(c20KRemove)); err != nil {
		return err
	}
	return c.Dummy.RemoveMessagesFromMailbox(ctx, w, ids, mboxID)
}

func (c *c20FailConn) MoveMessages(ctx context.Context, w connector.IMAPStateWrite, ids []imap.MessageID, from, to imap.MailboxID) (bool, error) {
	if err := c20ScriptedErr(c.cur.next(c20KMove)); err != nil {
		return false, err
	}
	return c.Dummy.MoveMessages(ctx, w, ids, from, to)
}

// Close: keep the Dummy (the remote) alive across server restarts.
func (c *c20FailConn) Close(ctx context.Context) error { return nil }

// ---- failing store --------------------------------------------------------------------------

type c20FailStoreBuilder struct {
	inner store.Builder
	cur   *c20ScriptCursor
}

type c20FailStore struct {
	store.Store
	cur *c20ScriptCursor
}

func (b *c20FailStoreBuilder) New(dir, userID string, passphrase []byte) (store.Store, error) {
	s, err := b.inner.New(dir, userID, passphrase)
	if err != nil {
		return nil, err
	}
	return &c20FailStore{Store: s, cur: b.cur}, nil
}

func (b *c20FailStoreBuilder) Delete(dir, userID string) error { return b.inner.Delete(dir, userID) }

func (s *c20FailStore) Set(id imap.InternalMessageID, r io.Reader) error {
	if o := s.cur.next(c20KStore); o != 'o' {
		_, _ = io.Copy(io.Discard, r)
		return errors.New("scripted store failure")
	}
	return s.Store.Set(id, r)
}

// ---- constructor ----------------------------------------------------------------------------

func c20NewSysDummy(users []string) *connector.Dummy {
	fl := imap.NewFlagSet(imap.FlagSeen, imap.FlagFlagged, imap.FlagDeleted, imap.FlagAnswered, imap.FlagDraft)
	d := connector.NewDummy(users, []byte(sysPassword), time.Hour, fl, fl, imap.NewFlagSet())
	d.SetUpdatesAllowedToFail(true)
	return d
}

// c20NewSysConn is NewSys with the connector given as connector.Connector (o.Conn is the Dummy behind
// it, used for Sync/Flush).  A restart (o.UserID != "") loads the user and does not Sync.
func c20NewSysConn(o SysOpts, conn connector.Connector) (*Sys, error) {
	if o.Delimiter == "" {
		o.Delimiter = "/"
	}
	dir := o.Dir
	if dir == "" {
		d, err := os.MkdirTemp("", "vh-sys-")
		if err != nil {
			return nil, err
		}
		dir = d
	}
	rec := &panicRecorder{}
	opts := []gluon.Option{
		gluon.WithDataDir(filepath.Join(dir, "store")),
		gluon.WithDatabaseDir(filepath.Join(dir, "db")),
		gluon.WithDelimiter(o.Delimiter),
		gluon.WithIdleBulkTime(o.IdleBulk),
		gluon.WithPanicHandler(rec),
	}
	if o.Limits != nil {
		opts = append(opts, gluon.WithIMAPLimits(*o.Limits))
	}
	if o.DB != nil {
		opts = append(opts, gluon.WithDBClient(o.DB))
	}
	if o.StoreBuilder != nil {
		opts = append(opts, gluon.WithStoreBuilder(o.StoreBuilder))
	}
	if o.UIDValidity != nil {
		opts = append(opts, gluon.WithUIDValidityGenerator(o.UIDValidity))
	}
	srv, err := gluon.New(opts...)
	if err != nil {
		return nil, err
	}
	ctx, cancel := context.WithCancel(context.Background())
	userID := o.UserID
	if userID == "" {
		userID, err = srv.AddUser(ctx, conn, []byte("passphrase"))
		if err == nil {
			err = o.Conn.Sync(ctx)
		}
	} else {
		_, err = srv.LoadUser(ctx, conn, userID, []byte("passphrase"))
	}
	if err != nil {
		cancel()
		return nil, err
	}
	ln, err := net.Listen("tcp", "127.0.0.1:0")
	if err != nil {
		cancel()
		return nil, err
	}
	if err := srv.Serve(ctx, ln); err != nil {
		cancel()
		return nil, err
	}
	go func() {
		for range srv.GetErrorCh() {
		}
	}()
	return &Sys{Server: srv, Conn: o.Conn, UserID: userID, Addr: ln.Addr().String(), Dir: dir, cancel: cancel, ln: ln, opts: o, Panics: rec}, nil
}
