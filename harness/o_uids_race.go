package main

// Oracle c04uids, part 2: SCHEDULE CONTROL INSIDE ONE COMMAND.
//
// The generated histories of o_uids.go run one command at a time. A command of gluon is, however, a
// sequence of separate database calls (db.Client.Read / db.Client.Write; the SQLite client takes its
// lock per call), and another session or the connector can commit between any two of them. The step
//
//	S<i> RACE <p> <command> // <second party's step>
//
// runs <command> (SELECT|EXAMINE|STATUS <mb>, APPEND <mb> <marker>, COPY|UIDCOPY|MOVE|UIDMOVE <set> <mb>) in session
// i and, when exactly <p> top-level database calls of the server have completed since the command was sent
// (p = 0: before the first one; no database lock is held at these points), stops the server goroutine that is
// about to make the next call (or has just finished the last one), runs the second party's step to its end
// (another session's APPEND / COPY, or `C NEW`, a connector MessageCreated, flushed), and lets the command
// continue. <p> = `rec` only records the database calls of the command (r.lastTrace); the scenarios below
// use that to enumerate EVERY boundary of the command, the way the C07 crash oracle enumerates its steps.
// The wrapper is c04Client (o_uids.go) around the real client, installed with gluon.WithDBClient.
//
// What is logged (judged by Lean, Spec/UidHistory.lean):
//
//	W:<mb>:<uidv>:<exists>:<uidnext>:<uid=marker,..|->:<injected uids|->    a raced SELECT/EXAMINE: its own response
//	      (EXISTS, UIDNEXT) and the view it opened (FETCH 1:* in the same session right after, no NOOP)
//	T:<mb>:<uidv>:<messages>:<uidnext>:<uid=marker,..|->:<injected uids|->  a raced STATUS: its own response and
//	      the listing a fresh observer takes right after
//	A / P / V  of the raced APPEND/COPY/MOVE and of the second party, in the order of the UIDs they
//	      received (a connector addition, which has no response, is logged as a one-message view V)
//
// Scenarios (jobs `race:<command>`): for every command, session state (nothing selected / another mailbox
// selected / the target itself selected), and second party kind, first a recording run, then one run per
// boundary.

import (
	"fmt"
	"sort"
	"strconv"
	"strings"
	"sync"
	"time"
)

// ---- the scheduler ------------------------------------------------------------------------------

type c04Sched struct {
	mu    sync.Mutex
	armed bool
	depth int // database calls in progress that were entered while armed
	done  int // top-level database calls completed since arm
	at    int // the hook runs when done == at; -1: record only
	fired bool
	hook  func()
	trace []string
}

func (s *c04Sched) arm(at int, hook func()) {
	s.mu.Lock()
	defer s.mu.Unlock()
	s.armed, s.depth, s.done, s.at, s.fired, s.hook, s.trace = true, 0, 0, at, false, hook, nil
}

func (s *c04Sched) disarm() (trace []string, fired bool) {
	s.mu.Lock()
	defer s.mu.Unlock()
	s.armed = false
	return append([]string{}, s.trace...), s.fired
}

// fireLocked runs the hook (once) with the scheduler paused: the second party's own database calls are neither
// counted nor intercepted.
func (s *c04Sched) fireLocked() {
	if s.fired || s.hook == nil || s.at < 0 || s.done != s.at || s.depth != 0 {
		return
	}
	s.fired = true
	s.armed = false
	h := s.hook
	s.mu.Unlock()
	h()
	s.mu.Lock()
	s.armed = true
}

// enter is called before a database call; it returns whether the call is being counted.
func (s *c04Sched) enter(kind string) bool {
	if s == nil {
		return false
	}
	s.mu.Lock()
	defer s.mu.Unlock()
	if !s.armed {
		return false
	}
	s.fireLocked() // (p = 0, or a boundary whose exit-side chance was missed)
	if s.depth == 0 {
		s.trace = append(s.trace, kind)
	}
	s.depth++
	return true
}

func (s *c04Sched) exit(counted bool) {
	if s == nil || !counted {
		return
	}
	s.mu.Lock()
	defer s.mu.Unlock()
	if s.depth > 0 {
		s.depth--
	}
	if s.depth == 0 {
		s.done++
		if s.armed {
			s.fireLocked()
		}
	}
}

// ---- the RACE step ------------------------------------------------------------------------------

func c04EvUids(ev string) (mb string, uids []int) {
	f := strings.Split(ev, ":")
	switch {
	case f[0] == "A" && len(f) == 5:
		u, _ := strconv.Atoi(f[3])
		return f[1], []int{u}
	case f[0] == "P" && len(f) == 7:
		for _, x := range strings.Split(f[6], ",") {
			if u, err := strconv.Atoi(x); err == nil {
				uids = append(uids, u)
			}
		}
		return f[3], uids
	case f[0] == "V" && len(f) == 4:
		for _, p := range strings.Split(f[3], ",") {
			if a, _, ok := strings.Cut(p, "="); ok {
				if u, err := strconv.Atoi(a); err == nil {
					uids = append(uids, u)
				}
			}
		}
		return f[1], uids
	}
	return "", nil
}

func c04MinInt(xs []int) int {
	m := int(^uint(0) >> 1)
	for _, x := range xs {
		if x < m {
			m = x
		}
	}
	return m
}

// race: see the head of the file. cmd = words of the raced command, party = the second party's step.
func (r *c04Run) race(i int, pos int, cmd []string, party string) (touched []string, err error) {
	s := r.session(i)
	if s == nil || len(cmd) < 2 {
		r.stats["step.skipped-no-session"]++
		return nil, nil
	}
	c := s.c
	verb := cmd[0]
	arg := func(k int) string {
		if k < len(cmd) {
			return cmd[k]
		}
		return ""
	}
	var target string
	switch verb {
	case "SELECT", "EXAMINE", "STATUS", "APPEND":
		target = arg(1)
	case "COPY", "UIDCOPY", "MOVE", "UIDMOVE":
		if s.sel == "" {
			return nil, nil
		}
		target = arg(2)
	default:
		return nil, fmt.Errorf("RACE: unknown command %q", verb)
	}
	send := func() Reply {
		switch verb {
		case "SELECT", "EXAMINE":
			return c.Cmd(verb + " " + c04Q(target))
		case "STATUS":
			return c.Cmd("STATUS " + c04Q(target) + " (MESSAGES UIDNEXT UIDVALIDITY)")
		case "APPEND":
			return c.Append(c04Q(target), "", c04Literal(arg(2)))
		}
		v := map[string]string{"COPY": "COPY", "UIDCOPY": "UID COPY", "MOVE": "MOVE", "UIDMOVE": "UID MOVE"}[verb]
		return c.Cmd(v + " " + arg(1) + " " + c04Q(target))
	}

	// the command runs in its own goroutine; the hook (a server goroutine) hands control to this one
	atHook, resume, done := make(chan struct{}), make(chan struct{}), make(chan Reply, 1)
	r.dbw.sched.arm(pos, func() {
		atHook <- struct{}{}
		<-resume
	})
	ev0 := len(r.ev)
	var partyEv, partyTouched []string
	var partyMarkers []string // markers of messages the connector (which answers nothing) was told to create
	go func() { done <- send() }()
	var rep Reply
	select {
	case rep = <-done:
	case <-atHook:
		if party != "" && party != "-" {
			pf := strings.Fields(party)
			if len(pf) >= 3 && pf[0] == "C" && (pf[1] == "NEW" || pf[1] == "BATCH") {
				partyMarkers = strings.Split(pf[2], ",")
			}
			pt, _, perr := r.exec1(party)
			if perr != nil {
				close(resume)
				<-done
				r.dbw.sched.disarm()
				return nil, fmt.Errorf("second party %q: %w", party, perr)
			}
			if pf[0] == "C" {
				r.sys.Conn.Flush() // the update has been applied (committed) when this returns
			}
			partyTouched = pt
			partyEv = append(partyEv, r.ev[ev0:]...)
			r.ev = r.ev[:ev0]
		}
		close(resume)
		rep = <-done
	case <-time.After(60 * time.Second):
		r.dbw.sched.disarm()
		return nil, fmt.Errorf("RACE: the command neither finished nor reached a database call")
	}
	trace, fired := r.dbw.sched.disarm()
	r.lastTrace = trace
	r.stats["race.cmd."+strings.ToLower(verb)+"."+c04St(rep)]++
	if pos >= 0 {
		if fired {
			r.stats["race.fired"]++
		} else {
			r.stats["race.not-fired"]++
		}
	} else {
		r.stats["race.recorded"]++
		r.stats["race.recorded-dbcalls"] += len(trace)
	}
	touched = append(touched, partyTouched...)
	if r.lostSession(i, rep) {
		r.ev = append(r.ev, partyEv...)
		return append(touched, target), nil
	}

	// UIDs the second party put into the target mailbox
	var injected []int
	for _, e := range partyEv {
		if mb, us := c04EvUids(e); mb == c04EvName(target) {
			injected = append(injected, us...)
		}
	}
	var freshInf c04SelInfo
	var fresh []c04Msg
	freshOK := false
	needFresh := verb == "STATUS" || len(partyMarkers) > 0
	if needFresh {
		freshInf, fresh, freshOK, err = r.listFresh(target)
		if err != nil {
			return nil, err
		}
		if freshOK && len(partyMarkers) > 0 {
			var got []c04Msg
			for _, m := range fresh {
				for _, pm := range partyMarkers {
					if m.marker == pm {
						injected = append(injected, m.uid)
						got = append(got, m)
					}
				}
			}
			if len(got) > 0 {
				partyEv = append(partyEv, fmt.Sprintf("V:%s:%d:%s", c04EvName(target), freshInf.uidv, c04Pairs(got)))
			}
		}
	}
	injS := "-"
	if len(injected) > 0 {
		sort.Ints(injected)
		injS = c04JoinInts(injected)
	}

	switch verb {
	case "SELECT", "EXAMINE":
		if rep.Status != "OK" {
			s.sel = ""
			r.ev = append(r.ev, partyEv...)
			return append(touched, target), nil
		}
		inf := c04ParseSelect(rep)
		s.sel, s.uidv, s.ro = target, inf.uidv, verb == "EXAMINE"
		r.noteUidv(target, inf.uidv)
		// the view this very response opened: no NOOP in between
		view, verr := c04FetchMarkers(c, 1)
		if verr != nil {
			view = nil // an empty mailbox answers NO/BAD to 1:*
		}
		r.emit("W:%s:%d:%d:%d:%s:%s", c04EvName(target), inf.uidv, inf.exists, inf.uidnext, c04Pairs(view), injS)
		r.stats["obs.race-select"]++
		r.ev = append(r.ev, partyEv...)
	case "STATUS":
		got := false
		for _, u := range rep.Untagged {
			if m := c04ReStatus.FindStringSubmatch(u); m != nil && freshOK {
				f := strings.Fields(m[1])
				vals := map[string]int{}
				for k := 0; k+1 < len(f); k += 2 {
					vals[strings.ToUpper(f[k])], _ = strconv.Atoi(f[k+1])
				}
				r.emit("T:%s:%d:%d:%d:%s:%s", c04EvName(target), vals["UIDVALIDITY"], vals["MESSAGES"], vals["UIDNEXT"], c04Pairs(fresh), injS)
				r.noteUidv(target, vals["UIDVALIDITY"])
				r.stats["obs.race-status"]++
				got = true
			}
		}
		_ = got
		r.ev = append(r.ev, partyEv...)
	default: // APPEND, COPY, MOVE: both parties' announcements in the order of the UIDs they received
		var own []string
		if rep.Status == "OK" {
			if verb == "APPEND" {
				if m := c04ReAppend.FindStringSubmatch(rep.Tagged); m != nil {
					own = append(own, fmt.Sprintf("A:%s:%s:%s:%s", c04EvName(target), m[1], m[2], arg(2)))
					r.stats["obs.appenduid"]++
				}
			} else {
				for _, u := range append(append([]string{}, rep.Untagged...), rep.Tagged) {
					if m := c04ReCopy.FindStringSubmatch(u); m != nil {
						ss, ds := c04ExpandSet(m[2]), c04ExpandSet(m[3])
						own = append(own, fmt.Sprintf("P:%s:%d:%s:%s:%s:%s", c04EvName(s.sel), s.uidv, c04EvName(target), m[1], c04JoinInts(ss), c04JoinInts(ds)))
						r.stats["obs.copyuid"]++
					}
				}
			}
		}
		all := append(append([]string{}, own...), partyEv...)
		key := func(e string) int {
			if mb, us := c04EvUids(e); mb == c04EvName(target) && len(us) > 0 {
				return c04MinInt(us)
			}
			return -1 // (other mailboxes: keep them first, in their own order)
		}
		sort.SliceStable(all, func(a, b int) bool { return key(all[a]) < key(all[b]) })
		r.ev = append(r.ev, all...)
		r.stats["obs.race-write"]++
		if verb != "APPEND" {
			touched = append(touched, s.sel)
		}
	}
	return append(touched, target, s.sel), nil
}

// ---- scenarios ----------------------------------------------------------------------------------

type c04RaceVariant struct {
	cmd    string // raced command (%s = target mailbox, %m = fresh marker)
	state  string // none | other | same : what session 0 has selected when the command starts
	target string // "" | deltop | delall : the target's highest UID / every message is expunged first (UIDNEXT above max+1)
}

var c04RaceCommands = map[string][]c04RaceVariant{
	"select":  {{"SELECT %s", "none", ""}, {"SELECT %s", "other", "deltop"}, {"SELECT %s", "same", ""}, {"SELECT %s", "none", "delall"}},
	"examine": {{"EXAMINE %s", "none", "deltop"}, {"EXAMINE %s", "other", ""}, {"EXAMINE %s", "same", ""}},
	"status":  {{"STATUS %s", "none", ""}, {"STATUS %s", "other", "deltop"}, {"STATUS %s", "same", ""}, {"STATUS %s", "none", "delall"}},
	"append":  {{"APPEND %s %m", "none", ""}, {"APPEND %s %m", "same", "deltop"}, {"APPEND %s %m", "other", "delall"}},
	"copy":    {{"UIDCOPY 1:* %s", "other", ""}, {"COPY 1 %s", "other", "deltop"}},
	"move":    {{"UIDMOVE 1:* %s", "other", "deltop"}, {"MOVE 1 %s", "other", ""}},
}

var c04RaceOrder = []string{"select", "examine", "status", "append", "copy", "move"}

// c04RaceScript runs the boundary enumeration for one command kind. parties: which second-party kinds are
// tried at every boundary (all three in the thorough tier; in the quick tier every boundary gets one, rotating,
// and the boundaries of the read commands get all).
func c04RaceScript(kind string, g *Rng, allParties bool) func(r *c04Run) error {
	return func(r *c04Run) error {
		run := func(steps ...string) error {
			for _, st := range steps {
				if err := r.exec(st); err != nil {
					return fmt.Errorf("step %q: %w", st, err)
				}
			}
			return nil
		}
		const tgt, other, psrc = "rt", "ro", "rp"
		if err := run("S0 LOGIN", "S1 LOGIN", "C MBCREATE "+tgt, "S0 CREATE "+other, "S0 CREATE "+psrc,
			fmt.Sprintf("S0 APPEND %s %s", tgt, r.newMarker()), fmt.Sprintf("S0 APPEND %s %s", other, r.newMarker()),
			fmt.Sprintf("S0 APPEND %s %s", other, r.newMarker()), fmt.Sprintf("S1 APPEND %s %s", psrc, r.newMarker()),
			"S1 SELECT "+psrc); err != nil {
			return err
		}
		prep := func(state string) error {
			switch state {
			case "none":
				if s := r.session(0); s != nil && s.sel != "" {
					return run("S0 CLOSE")
				}
				return nil
			case "other":
				return run("S0 SELECT " + other)
			default:
				return run("S0 SELECT " + tgt)
			}
		}
		partyKinds := []string{"append", "conn", "copy", "batch"}
		mkParty := func(k string) string {
			switch k {
			case "append":
				return fmt.Sprintf("S1 APPEND %s %s", tgt, r.newMarker())
			case "conn":
				return fmt.Sprintf("C NEW %s %s", r.newMarker(), tgt)
			case "batch":
				return fmt.Sprintf("C BATCH %s,%s %s", r.newMarker(), r.newMarker(), tgt)
			}
			// (a message that is not in the target yet: copying one that is would REMOVE its older UID there)
			return "S1 UIDCOPY * " + tgt
		}
		preParty := func(k string) []string {
			if k == "copy" {
				return []string{fmt.Sprintf("S1 APPEND %s %s", psrc, r.newMarker())}
			}
			return nil
		}
		mkCmd := func(v c04RaceVariant) string {
			c := strings.ReplaceAll(v.cmd, "%s", tgt)
			if strings.Contains(c, "%m") {
				c = strings.ReplaceAll(c, "%m", r.newMarker())
			}
			return c
		}
		rot := g.Intn(len(partyKinds))
		for vi, v := range c04RaceCommands[kind] {
			switch v.target {
			case "deltop":
				if err := run("S0 SELECT "+tgt, "S0 DELTOP"); err != nil {
					return err
				}
			case "delall":
				if err := run("S0 SELECT "+tgt, "S0 DELALL"); err != nil {
					return err
				}
			}
			if kind == "move" { // something to move
				if err := run(fmt.Sprintf("S0 APPEND %s %s", other, r.newMarker())); err != nil {
					return err
				}
			}
			if err := prep(v.state); err != nil {
				return err
			}
			if err := run("S0 RACE rec " + mkCmd(v) + " // -"); err != nil {
				return err
			}
			n := len(r.lastTrace)
			r.stats["race.boundaries"] += n + 1
			for p := 0; p <= n; p++ {
				kinds := []string{partyKinds[(rot+p+vi)%len(partyKinds)]}
				if allParties {
					kinds = partyKinds
				}
				for _, pk := range kinds {
					if kind == "move" {
						if err := run(fmt.Sprintf("S0 APPEND %s %s", other, r.newMarker())); err != nil {
							return err
						}
					}
					if err := run(preParty(pk)...); err != nil {
						return err
					}
					if err := prep(v.state); err != nil {
						return err
					}
					if err := run(fmt.Sprintf("S0 RACE %d %s // %s", p, mkCmd(v), mkParty(pk))); err != nil {
						return err
					}
				}
			}
			// keep the mailboxes small
			if len(r.content[tgt]) > 12 {
				if err := run("S0 SELECT "+tgt, "S0 DELALL", fmt.Sprintf("S0 APPEND %s %s", tgt, r.newMarker())); err != nil {
					return err
				}
			}
		}
		return run("X CHECK")
	}
}
