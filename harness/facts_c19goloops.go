package main

// Facts/GoLoops.lean (C19): the long-lived goroutines of internal/backend (the update injector's forwarder, the
// user's update goroutine - every `go` / `async.Go*` / `.Go(` start of the package) and, for each of them, EVERY
// blocking channel operation reachable from the goroutine's body - in the body itself and in the functions /
// methods of the package it calls (followed by name, to depth 4, function literals not entered) - with the
// answer to: does the operation sit in a `select` that also has a case `<-x.f: ...return` on a QUIT channel,
// i.e. a field `f` that a method named Close / close of the package closes (`close(x.f)`)?
//
//	watched = true    the select has such a case (the quit receive itself included)
//	watched = false   a bare send / receive, or a select without a quit case: `<-ctx.Done()` does not count, the
//	                  goroutines are started with context.Background()
//
// A select with a `default` clause does not block and is left out. `for range ch` cannot be told from a range
// over a slice without types: a range whose operand's name ends in `Ch` / `ch` is listed as unwatched.
// Spawns whose body is not a function literal are listed in `backendLoopsUnknown` (the theorem demands []).
// The model's teardown argument (Model/ConcCmd.lean, section 3: user.close stops the reader of updatesCh BEFORE
// it closes the injector) needs exactly this: theorem forwarder_close_returns.

import (
	"fmt"
	"go/ast"
	"go/token"
	"path/filepath"
	"sort"
	"strings"
)

func init() { factGens = append(factGens, factGen{"GoLoops", c19FactsGoLoops}) }

type c19LoopOp struct {
	loop, quit, op string
	watched        bool
}

// c19QuitFields: field names f with `close(x.f)` inside a function named Close / close.
func c19QuitFields(files []*ast.File) map[string]bool {
	q := map[string]bool{}
	for _, f := range files {
		for _, d := range f.Decls {
			fd, ok := d.(*ast.FuncDecl)
			if !ok || fd.Body == nil || strings.ToLower(fd.Name.Name) != "close" {
				continue
			}
			ast.Inspect(fd.Body, func(x ast.Node) bool {
				if _, ok := x.(*ast.FuncLit); ok {
					return false
				}
				if call, ok := x.(*ast.CallExpr); ok {
					if id, ok := call.Fun.(*ast.Ident); ok && id.Name == "close" && len(call.Args) == 1 {
						if se, ok := call.Args[0].(*ast.SelectorExpr); ok {
							q[se.Sel.Name] = true
						}
					}
				}
				return true
			})
		}
	}
	return q
}

// c19RecvOf: the channel expression of a receive used as a select comm (`<-ch`, `x := <-ch`, `x, ok = <-ch`).
func c19RecvOf(st ast.Stmt) ast.Expr {
	var e ast.Expr
	switch y := st.(type) {
	case *ast.ExprStmt:
		e = y.X
	case *ast.AssignStmt:
		if len(y.Rhs) == 1 {
			e = y.Rhs[0]
		}
	}
	if ue, ok := e.(*ast.UnaryExpr); ok && ue.Op == token.ARROW {
		return ue.X
	}
	return nil
}

func c19FactsGoLoops(c *factsCtx, outdir string) error {
	const dir = "internal/backend"
	files := c.parseDir(dir)
	quit := c19QuitFields(files)
	decls := map[string][]*ast.FuncDecl{}
	for _, f := range files {
		for _, d := range f.Decls {
			if fd, ok := d.(*ast.FuncDecl); ok && fd.Body != nil {
				decls[fd.Name.Name] = append(decls[fd.Name.Name], fd)
			}
		}
	}
	var ops []c19LoopOp
	var loops, unknown []string

	var walk func(loop, where string, n ast.Node, depth int, seen map[string]bool)
	walk = func(loop, where string, n ast.Node, depth int, seen map[string]bool) {
		add := func(q, text string, w bool) {
			ops = append(ops, c19LoopOp{loop: loop, quit: q, op: where + ": " + text, watched: w})
		}
		ast.Inspect(n, func(x ast.Node) bool {
			switch y := x.(type) {
			case *ast.FuncLit:
				return false
			case *ast.SelectStmt:
				q, hasDefault := "-", false
				for _, cc := range y.Body.List {
					cl := cc.(*ast.CommClause)
					if cl.Comm == nil {
						hasDefault = true
						continue
					}
					if ch := c19RecvOf(cl.Comm); ch != nil {
						if se, ok := ch.(*ast.SelectorExpr); ok && quit[se.Sel.Name] && len(cl.Body) > 0 {
							if _, ok := cl.Body[len(cl.Body)-1].(*ast.ReturnStmt); ok {
								q = se.Sel.Name
							}
						}
					}
				}
				for _, cc := range y.Body.List {
					cl := cc.(*ast.CommClause)
					if cl.Comm != nil && !hasDefault {
						add(q, "select case "+c.render(cl.Comm), q != "-")
					}
					for _, st := range cl.Body {
						walk(loop, where, st, depth, seen)
					}
				}
				return false
			case *ast.SendStmt:
				add("-", "bare "+c.render(y), false)
			case *ast.UnaryExpr:
				if y.Op == token.ARROW {
					add("-", "bare "+c.render(y), false)
				}
			case *ast.RangeStmt:
				if r := c.render(y.X); strings.HasSuffix(r, "Ch") || strings.HasSuffix(r, "ch") {
					add("-", "range "+r, false)
				}
			case *ast.CallExpr:
				name := ""
				switch f := y.Fun.(type) {
				case *ast.Ident:
					name = f.Name
				case *ast.SelectorExpr:
					if _, ok := f.X.(*ast.Ident); ok {
						name = f.Sel.Name
					}
				}
				if ds := decls[name]; len(ds) == 1 && depth < 4 && !seen[name] {
					seen[name] = true
					walk(loop, name, ds[0].Body, depth+1, seen)
				}
			}
			return true
		})
	}

	for _, f := range files {
		file := filepath.Base(c.fset.Position(f.Pos()).Filename)
		for _, d := range f.Decls {
			fd, ok := d.(*ast.FuncDecl)
			if !ok || fd.Body == nil {
				continue
			}
			ast.Inspect(fd.Body, func(x ast.Node) bool {
				var args []ast.Expr
				how := ""
				switch y := x.(type) {
				case *ast.GoStmt:
					how = "go"
					args = []ast.Expr{y.Call.Fun}
				case *ast.CallExpr:
					fun := c.render(y.Fun)
					if strings.HasPrefix(fun, "async.Go") || strings.HasSuffix(fun, ".Go") {
						how = fun
						args = y.Args
					}
				}
				if how == "" {
					return true
				}
				loop := fmt.Sprintf("%s/%s:%s:%s", dir, file, fd.Name.Name, how)
				var body *ast.FuncLit
				for _, a := range args {
					if fl, ok := a.(*ast.FuncLit); ok {
						body = fl
					}
				}
				if body == nil {
					unknown = append(unknown, loop)
					return true
				}
				loops = append(loops, loop)
				walk(loop, "literal", body.Body, 0, map[string]bool{})
				return false
			})
		}
	}
	sort.Strings(loops)
	sort.Strings(unknown)
	sort.SliceStable(ops, func(i, j int) bool { return ops[i].loop < ops[j].loop })
	var qs []string
	for k := range quit {
		qs = append(qs, k)
	}
	sort.Strings(qs)
	var b strings.Builder
	b.WriteString("namespace Gluon.Facts\n\n")
	b.WriteString("/-- every goroutine start of internal/backend whose body is a function literal -/\n")
	fmt.Fprintf(&b, "def backendLoops : List String := %s\n\n", leanStrList(loops))
	b.WriteString("/-- goroutine starts of internal/backend whose body could not be read (must be []) -/\n")
	fmt.Fprintf(&b, "def backendLoopsUnknown : List String := %s\n\n", leanStrList(unknown))
	b.WriteString("/-- fields closed by a Close / close method of internal/backend: the quit channels -/\n")
	fmt.Fprintf(&b, "def backendQuitChannels : List String := %s\n\n", leanStrList(qs))
	b.WriteString("/-- (goroutine, quit channel watched by the enclosing select or \"-\", blocking channel operation, watched) -/\n")
	b.WriteString("def backendLoopOps : List (String × String × String × Bool) := [\n")
	for i, o := range ops {
		sep := ","
		if i == len(ops)-1 {
			sep = ""
		}
		fmt.Fprintf(&b, "  (%s, %s, %s, %v)%s\n", leanStr(o.loop), leanStr(o.quit), leanStr(o.op), o.watched, sep)
	}
	b.WriteString("]\n\nend Gluon.Facts\n")
	return writeLean(outdir, "GoLoops.lean", b.String())
}
