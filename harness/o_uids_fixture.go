package main

// Oracle c04uids, part 3: UPGRADE FIXTURES.
//
// A restart in the generated histories reopens the database with the code that wrote it: a schema migration
// never runs (a database created by the tree under test starts at its newest schema version). Fixtures are small
// database + message-store directories written ONCE by the /repo HEAD of the day they were made and committed
// under /verif/corpus/C04/fixtures/<name>/ :
//
//	db/<user>.db          the SQLite database (WAL folded in, no -wal/-shm files)
//	store/<user>/...      the encrypted message files
//	expect.txt            who wrote it (schema version read from the database's gluon_version table, the way
//	                      RunMigrations does; commit), user id, passphrase, the recipe (steps), the complete
//	                      observation log of the history that produced the state, and the final table:
//	                      per mailbox name remote id, UIDVALIDITY, UIDNEXT, uid=marker pairs
//
// `vh oracle c04uids -mkfixture DIR` writes them (recipes below: highest UID expunged in several mailboxes, a
// mailbox emptied completely, messages moved away from the top, renamed mailboxes, deleted and re-created names,
// UIDVALIDITY bumped, messages in several mailboxes, connector-created mailboxes and messages).
//
// The step `X FIXTURE <name>` (first step of a history) copies the fixture to a scratch directory, opens it with
// the code under test (whatever migrations that tree has run now), and continues the recorded history: the
// observation log starts with the recorded one followed by `R`, so the Lean judge checks everything the opened
// server shows (UIDNEXT, UIDVALIDITY, uid -> marker) against what the writer showed, and every UID assigned from
// now on against every UID assigned then. The connector is a new one (the remote's memory is not part of the
// fixture): it is told the remote ids of the mailboxes, and operations on messages it has never seen are
// accepted (c04Conn.foreign).

import (
	"context"
	"database/sql"
	"fmt"
	"io"
	"os"
	"os/exec"
	"path/filepath"
	"sort"
	"strconv"
	"strings"
	"time"

	"github.com/ProtonMail/gluon/connector"
	"github.com/ProtonMail/gluon/imap"
	"github.com/ProtonMail/gluon/verifhooks"
)

const (
	c04FixtureUser       = "c04-fixture-user"
	c04FixturePassphrase = "passphrase" // what c04NewSys hands to AddUser/LoadUser
)

var c04FixtureRecipes = map[string][]string{
	// highest UID expunged (INBOX, fa), everything expunged (fb), top moved away (fc -> fa), untouched (fd),
	// connector-created mailbox with connector-created messages whose top is expunged (fe)
	"top-expunged": {
		"S0 LOGIN",
		"S0 CREATE fa", "S0 CREATE fb", "S0 CREATE fc", "S0 CREATE fd", "C MBCREATE fe",
		"S0 APPEND INBOX i1", "S0 APPEND INBOX i2", "S0 APPEND INBOX i3",
		"S0 APPEND fa a1", "S0 APPEND fa a2", "S0 APPEND fa a3", "S0 APPEND fa a4",
		"S0 APPEND fb b1", "S0 APPEND fb b2", "S0 APPEND fb b3",
		"S0 APPEND fc c1", "S0 APPEND fc c2", "S0 APPEND fc c3",
		"S0 APPEND fd d1", "S0 APPEND fd d2",
		"C BATCH e1,e2,e3 fe",
		"S0 SELECT INBOX", "S0 DELTOP",
		"S0 SELECT fa", "S0 DELTOP", "S0 DELTOP",
		"S0 SELECT fb", "S0 DELALL",
		"S0 SELECT fc", "S0 UIDMOVE 3 fa", "S0 UIDCOPY 1 fd",
		"S0 SELECT fe", "S0 DELTOP",
		"S0 CLOSE",
		"X CHECK",
	},
	// renamed mailboxes (with and without their top expunged), deleted + re-created names, INBOX renamed away
	"renamed-recreated": {
		"S0 LOGIN",
		"S0 CREATE ga", "S0 CREATE gb", "S0 CREATE gc",
		"S0 APPEND ga a1", "S0 APPEND ga a2", "S0 APPEND ga a3",
		"S0 APPEND gb b1", "S0 APPEND gb b2",
		"S0 APPEND gc c1", "S0 APPEND gc c2", "S0 APPEND gc c3",
		"S0 APPEND INBOX i1", "S0 APPEND INBOX i2",
		"S0 SELECT ga", "S0 DELTOP", "S0 CLOSE",
		"S0 RENAME ga gr",
		"S0 RENAME gb gs",
		"S0 DELETE gc", "S0 CREATE gc", "S0 APPEND gc c4", "S0 APPEND gc c5",
		"S0 SELECT gc", "S0 DELTOP", "S0 CLOSE",
		"S0 RENAME INBOX gi",
		"S0 APPEND INBOX i3",
		"S0 SELECT gi", "S0 DELTOP", "S0 CLOSE",
		"S0 CREATE ga", "S0 APPEND ga a4",
		"X CHECK",
	},
	// UIDVALIDITY bumped after some history, then more history; a restart in the middle
	"bumped": {
		"S0 LOGIN",
		"S0 CREATE ha", "C MBCREATE hb",
		"S0 APPEND ha a1", "S0 APPEND ha a2", "S0 APPEND ha a3",
		"C NEW b1 hb", "C NEW b2 hb,ha",
		"S0 SELECT ha", "S0 DELTOP", "S0 CLOSE",
		"C BUMP",
		"S0 LOGIN",
		"S0 APPEND ha a5", "S0 APPEND hb b3",
		"X RESTART",
		"S0 LOGIN",
		"S0 APPEND hb b4", "S0 APPEND INBOX i1", "S0 APPEND INBOX i2",
		"S0 SELECT hb", "S0 DELTOP",
		"S0 SELECT INBOX", "S0 DELALL", "S0 CLOSE",
		"X CHECK",
	},
}

func c04CopyTree(src, dst string) error {
	return filepath.Walk(src, func(p string, info os.FileInfo, err error) error {
		if err != nil {
			return err
		}
		rel, _ := filepath.Rel(src, p)
		t := filepath.Join(dst, rel)
		if info.IsDir() {
			return os.MkdirAll(t, 0o755)
		}
		if !info.Mode().IsRegular() {
			return nil
		}
		in, err := os.Open(p)
		if err != nil {
			return err
		}
		defer in.Close()
		out, err := os.OpenFile(t, os.O_CREATE|os.O_TRUNC|os.O_WRONLY, 0o644)
		if err != nil {
			return err
		}
		if _, err := io.Copy(out, in); err != nil {
			out.Close()
			return err
		}
		return out.Close()
	})
}

// c04SchemaVersion reads the schema version the way internal/db_impl/sqlite3/migrations.go getDatabaseVersion
// does (table gluon_version, row id 0; -1 when there is no such table), after folding the WAL into the file.
func c04SchemaVersion(dbFile string, fold bool) (int, error) {
	h, err := sql.Open("sqlite3", "file:"+dbFile)
	if err != nil {
		return 0, err
	}
	defer h.Close()
	if fold {
		if _, err := h.Exec("PRAGMA wal_checkpoint(TRUNCATE)"); err != nil {
			return 0, err
		}
	}
	var name string
	err = h.QueryRow("SELECT `name` FROM sqlite_master WHERE `type` = 'table' AND `name` = 'gluon_version'").Scan(&name)
	if err == sql.ErrNoRows {
		return -1, nil
	}
	if err != nil {
		return 0, err
	}
	var v int
	if err := h.QueryRow("SELECT `version` FROM gluon_version WHERE `id` = 0").Scan(&v); err != nil {
		return 0, err
	}
	return v, nil
}

func c04DBFile(dir, userID string) string { return filepath.Join(dir, "db", userID+".db") }

// c04MakeFixtures: `vh oracle c04uids -mkfixture DIR`.
func c04MakeFixtures(dir string) int {
	var names []string
	for n := range c04FixtureRecipes {
		names = append(names, n)
	}
	sort.Strings(names)
	repo := os.Getenv("VERIF_REPO")
	if repo == "" {
		repo = "/repo"
	}
	head := "unknown"
	if out, err := exec.Command("git", "-C", repo, "rev-parse", "--short", "HEAD").Output(); err == nil {
		head = strings.TrimSpace(string(out))
	}
	for _, name := range names {
		r, err := c04NewRunAt("", c04FixtureUser, nil)
		if err != nil {
			fmt.Fprintln(os.Stderr, "mkfixture:", err)
			return 2
		}
		for _, st := range c04FixtureRecipes[name] {
			if err := r.exec(st); err != nil {
				fmt.Fprintf(os.Stderr, "mkfixture %s: step %q: %v\n", name, st, err)
				r.close()
				return 2
			}
		}
		// the writer's own history must be one the property allows
		if v, err := leanJudge([]string{"judge-c04-uids " + strings.Join(r.ev, " ")}); err != nil || len(v) != 1 || !strings.HasPrefix(v[0], "ok") {
			fmt.Fprintf(os.Stderr, "mkfixture %s: the writer's own history is not accepted by the judge: %v %v\n", name, v, err)
			r.close()
			return 2
		}
		for _, s := range r.sess {
			if s != nil {
				_ = s.c.Cmd("LOGOUT")
				s.c.Close()
			}
		}
		r.sess = nil
		if r.obs != nil {
			_ = r.obs.Cmd("LOGOUT")
			r.obs.Close()
			r.obs = nil
		}
		src := r.sys.Dir
		r.sys.Close(false)
		r.sys = nil
		schema, err := c04SchemaVersion(c04DBFile(src, c04FixtureUser), true)
		if err != nil {
			fmt.Fprintf(os.Stderr, "mkfixture %s: schema version: %v\n", name, err)
			return 2
		}
		dst := filepath.Join(dir, name)
		_ = os.RemoveAll(dst)
		if err := c04CopyTree(src, dst); err != nil {
			fmt.Fprintln(os.Stderr, "mkfixture:", err)
			return 2
		}
		for _, sfx := range []string{"-wal", "-shm"} {
			_ = os.Remove(c04DBFile(dst, c04FixtureUser) + sfx)
		}
		_ = os.RemoveAll(src)
		var b strings.Builder
		fmt.Fprintf(&b, "c04-fixture 1\n# written by `vh oracle c04uids -mkfixture`; data, committed under /verif; never regenerate it to make a check pass\n")
		fmt.Fprintf(&b, "name %s\nschema %d\nwritten-by %s\nuser %s\npassphrase %s\nclock %d\n", name, schema, head, c04FixtureUser, c04FixturePassphrase, c04Clock())
		for _, st := range r.steps {
			fmt.Fprintf(&b, "step %s\n", st)
		}
		for _, e := range r.ev {
			fmt.Fprintf(&b, "ev %s\n", e)
		}
		var mbs []string
		for n := range r.exists {
			mbs = append(mbs, n)
		}
		sort.Strings(mbs)
		for _, n := range mbs {
			id, _ := r.conn.mboxID(n)
			fmt.Fprintf(&b, "mbox %s|%s|%d|%d|%s\n", n, id, r.uidv[n], r.uidnext[n], c04Pairs(r.content[n]))
		}
		if err := os.WriteFile(filepath.Join(dst, "expect.txt"), []byte(b.String()), 0o644); err != nil {
			fmt.Fprintln(os.Stderr, "mkfixture:", err)
			return 2
		}
		_ = r.conn.Dummy.Close(context.Background())
		fmt.Fprintf(os.Stderr, "fixture %s: schema %d, %d mailboxes, %d events\n", dst, schema, len(mbs), len(r.ev))
	}
	return 0
}

type c04Expect struct {
	name, user, passphrase string
	schema                 int
	steps, events          []string
	mboxes                 []c04ExpectMbox
}

type c04ExpectMbox struct {
	name, remoteID string
	uidv, uidnext  int
	msgs           []c04Msg
}

func c04ReadExpect(path string) (*c04Expect, error) {
	b, err := os.ReadFile(path)
	if err != nil {
		return nil, err
	}
	e := &c04Expect{schema: -2}
	for _, l := range strings.Split(string(b), "\n") {
		k, v, _ := strings.Cut(strings.TrimRight(l, "\r"), " ")
		switch k {
		case "name":
			e.name = v
		case "user":
			e.user = v
		case "passphrase":
			e.passphrase = v
		case "schema":
			e.schema, _ = strconv.Atoi(v)
		case "step":
			e.steps = append(e.steps, v)
		case "ev":
			e.events = append(e.events, v)
		case "mbox":
			f := strings.Split(v, "|")
			if len(f) != 5 {
				return nil, fmt.Errorf("bad mbox line %q", l)
			}
			m := c04ExpectMbox{name: f[0], remoteID: f[1]}
			m.uidv, _ = strconv.Atoi(f[2])
			m.uidnext, _ = strconv.Atoi(f[3])
			if f[4] != "-" {
				for _, p := range strings.Split(f[4], ",") {
					u, mk, _ := strings.Cut(p, "=")
					n, _ := strconv.Atoi(u)
					m.msgs = append(m.msgs, c04Msg{n, mk})
				}
			}
			e.mboxes = append(e.mboxes, m)
		}
	}
	if e.user == "" || e.passphrase != c04FixturePassphrase || len(e.events) == 0 {
		return nil, fmt.Errorf("%s: incomplete expectations (user, passphrase %q, events)", path, c04FixturePassphrase)
	}
	return e, nil
}

func c04FixtureDir(name string) string {
	return filepath.Join(os.Getenv("VERIF_CORPUS"), "fixtures", name)
}

func c04FixtureNames() []string {
	ents, _ := os.ReadDir(filepath.Join(os.Getenv("VERIF_CORPUS"), "fixtures"))
	var out []string
	for _, e := range ents {
		if e.IsDir() {
			if _, err := os.Stat(filepath.Join(c04FixtureDir(e.Name()), "expect.txt")); err == nil {
				out = append(out, e.Name())
			}
		}
	}
	sort.Strings(out)
	return out
}

// c04NewRunFromFixture: a run whose server is opened on a scratch copy of the fixture.
func c04NewRunFromFixture(name string) (*c04Run, error) {
	fdir := c04FixtureDir(name)
	exp, err := c04ReadExpect(filepath.Join(fdir, "expect.txt"))
	if err != nil {
		return nil, fmt.Errorf("cause=fixture-unreadable %w", err)
	}
	dir, err := os.MkdirTemp("", "vh-c04fx-")
	if err != nil {
		return nil, err
	}
	if err := c04CopyTree(fdir, dir); err != nil {
		_ = os.RemoveAll(dir)
		return nil, err
	}
	r, err := c04NewRunAt(dir, exp.user, exp)
	if err != nil {
		_ = os.RemoveAll(dir)
		return nil, fmt.Errorf("cause=fixture-open-failed fixture %s (schema %d) cannot be opened by the tree under test: %w", name, exp.schema, err)
	}
	if now, err := c04SchemaVersion(c04DBFile(dir, exp.user), false); err == nil {
		r.stats[fmt.Sprintf("fixture.schema.%d-to-%d", exp.schema, now)]++
		if now != exp.schema {
			r.stats["fixture.upgraded"]++
		}
	}
	return r, nil
}

// c04NewRunAt: dir == "": fresh temp dir. userID == "": the server picks one (AddUser). exp != nil: the
// directories hold a fixture; the run starts with its recorded knowledge.
func c04NewRunAt(dir, userID string, exp *c04Expect) (*c04Run, error) {
	var err error
	if dir == "" {
		if dir, err = os.MkdirTemp("", "vh-c04-"); err != nil {
			return nil, err
		}
	}
	dummy := connector.NewDummy([]string{"user"}, []byte(sysPassword), time.Hour, c04Flags, c04Flags, imap.NewFlagSet())
	dummy.SetUpdatesAllowedToFail(true)
	conn := &c04Conn{Dummy: dummy, mboxIDs: map[string]imap.MailboxID{}, msgIDs: map[string]imap.MessageID{}, failNext: map[string]int{}}
	var fail int32
	dbw := &c04DB{real: verifhooks.NewSQLiteDB(), fail: &fail, sched: &c04Sched{}}
	if exp != nil {
		conn.foreign = true
		for _, m := range exp.mboxes {
			if m.remoteID == "" || m.remoteID == "0" {
				continue
			}
			conn.mboxIDs[m.name] = imap.MailboxID(m.remoteID)
			// (the server finds the mailbox in its database and ignores the update; the remote now knows the mailbox)
			_ = dummy.MailboxCreated(imap.Mailbox{ID: imap.MailboxID(m.remoteID), Name: strings.Split(m.name, "/"), Flags: c04Flags, PermanentFlags: c04Flags, Attributes: imap.NewFlagSet()})
		}
	}
	sys, err := c04NewSys(dir, userID, conn, dbw, exp == nil)
	if err != nil {
		_ = dummy.Close(context.Background())
		return nil, err
	}
	r := &c04Run{sys: sys, conn: conn, dbw: dbw, stats: map[string]int{}, exists: map[string]bool{"INBOX": true},
		content: map[string][]c04Msg{}, uidv: map[string]int{}, uidnext: map[string]int{}, hiUidv: map[string]int{}, connMade: map[string]bool{}}
	if exp != nil {
		delete(r.exists, "INBOX")
		r.ev = append(append([]string{}, exp.events...), "R")
		r.restarts, r.behind, r.markerN = 1, true, 1000
		for _, e := range exp.events { // the greatest UIDVALIDITY every name ever showed
			f := strings.Split(e, ":")
			if len(f) >= 3 && strings.Contains("ANFVWT", f[0]) && len(f[0]) == 1 {
				if v, err := strconv.Atoi(f[2]); err == nil {
					if v > r.hiUidv[f[1]] {
						r.hiUidv[f[1]] = v
					}
					if v > r.maxUidv {
						r.maxUidv = v
					}
				}
			}
		}
		for _, m := range exp.mboxes {
			r.exists[m.name] = true
			r.content[m.name] = m.msgs
			r.uidv[m.name] = m.uidv
		}
	}
	return r, nil
}
