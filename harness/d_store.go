package main

// Dialects `store` and `store-size` (C09): the real store.NewOnDiskStore (behind
// store.NewWriteControlledStore) in a temporary directory against the Lean model
// (GluonModel/Model/Store.lean, driver GluonModel/Driver/DStore.lean).
//
// Beyond one call at a time, the `store` runner looks at TIME:
//   - every slice a Get returned is kept (with a private copy) and compared again after each later op of the scenario;
//     a difference is appended to that op's result as `!changed:<op index of the Get>` (the model never says that:
//     C09.get_result_stable; the judge calls it cause=returned-bytes-changed-later);
//   - ops B<id>=<content>@<k> / E<id> / A<id> hold a Set in progress (its reader delivers k bytes and waits), so that the
//     following ops (List above all) run WHILE that Set is in progress, then let it complete (E) or make its reader
//     fail (A: interrupted Set). List renders ids the harness never made as `foreign-<uuid>`.

import (
	"bytes"
	"errors"
	"fmt"
	"io"
	"io/fs"
	"os"
	"path/filepath"
	"sort"
	"strconv"
	"strings"
	"sync"
	"time"

	"github.com/ProtonMail/gluon/imap"
	"github.com/ProtonMail/gluon/store"
	"github.com/pierrec/lz4/v4"
)

const (
	storeHeaderLen = 15 // len("GLUON-CACHE") + 4; cross-checked against the file by the oracle
	storeNonceLen  = 12 // gcm.NonceSize()
	storeOverhead  = 16 // gcm.Overhead()
	storeBlockSize = 64 * 4096
)

func storeID(n int) imap.InternalMessageID {
	id, err := imap.InternalMessageIDFromString(fmt.Sprintf("00000000-0000-4000-8000-%012d", n))
	if err != nil {
		panic(err)
	}
	return id
}

func storeIDNum(id imap.InternalMessageID) int {
	s := id.String()
	n, _ := strconv.Atoi(strings.TrimLeft(s[len(s)-12:], "0"))
	return n
}

func storePass(k int) []byte { return []byte(fmt.Sprintf("verif-passphrase-%d", k)) }

// storeRandBytes mirrors randBytes of DStore.lean: its own splitmix64 (independent of the harness
// Rng's seeding, which other dialects may change), one draw per byte.
func storeRandBytes(seed uint64, n int) []byte {
	s := seed*0x9E3779B97F4A7C15 + 0x1234567
	out := make([]byte, n)
	for i := range out {
		s += 0x9E3779B97F4A7C15
		z := s
		z = (z ^ (z >> 30)) * 0xBF58476D1CE4E5B9
		z = (z ^ (z >> 27)) * 0x94D049BB133111EB
		z ^= z >> 31
		out[i] = byte(z >> 33)
	}
	return out
}

var storeTextPhrase = []byte("The quick brown fox jumps over the lazy dog.\r\n")

func storeTextBytes(n int) []byte {
	out := make([]byte, n)
	for i := range out {
		out[i] = storeTextPhrase[i%len(storeTextPhrase)]
	}
	return out
}

func storeContent(spec string) ([]byte, bool) {
	if spec == "" {
		return nil, false
	}
	switch spec[0] {
	case 'z':
		return make([]byte, atoi(spec[1:])), true
	case 't':
		return storeTextBytes(atoi(spec[1:])), true
	case 'r':
		p := strings.Split(spec[1:], ".")
		if len(p) != 2 {
			return nil, false
		}
		seed, _ := strconv.ParseUint(p[1], 10, 64)
		return storeRandBytes(seed, atoi(p[0])), true
	case 'c': // composite: c<part>+<part>+…, parts z<n> | t<n> | r<n>.<seed>
		var out []byte
		for _, ps := range strings.Split(spec[1:], "+") {
			if ps == "" || !strings.ContainsRune("ztr", rune(ps[0])) {
				return nil, false
			}
			b, ok := storeContent(ps)
			if !ok {
				return nil, false
			}
			out = append(out, b...)
		}
		return out, true
	case 'x':
		out := make([]byte, len(spec[1:])/2)
		for i := range out {
			v, _ := strconv.ParseUint(spec[1+2*i:3+2*i], 16, 8)
			out[i] = byte(v)
		}
		return out, true
	}
	return nil, false
}

func c09Fnv1a64(b []byte) uint64 {
	h := uint64(14695981039346656037)
	for _, x := range b {
		h ^= uint64(x)
		h *= 1099511628211
	}
	return h
}

func storeDigest(b []byte) string { return fmt.Sprintf("%d:%016x", len(b), c09Fnv1a64(b)) }

// storeErrClass maps the errors of the store API to the model's enum.
func storeErrClass(err error) string {
	es := err.Error()
	switch {
	case errors.Is(err, c09ErrReaderFailed):
		return "reader"
	case errors.Is(err, fs.ErrNotExist):
		return "notfound"
	case strings.Contains(es, "failed to read from fallback"):
		return "fallback"
	case strings.Contains(es, "not a valid store file"):
		return "notvalid"
	case strings.Contains(es, "failed to read nonce"):
		return "nonce"
	case err == io.EOF || err == io.ErrUnexpectedEOF:
		// io.ReadFull of the header on a file shorter than the header; storeGetErrClass separates this
		// from an LZ4 reader hitting the end of its stream (same error values, file at least header + nonce long)
		return "short"
	default:
		return "corrupt" // "failed to decrypt block …" or an lz4 error
	}
}

// storeGetErrClass classifies an error of Get(id) for the file at `path`.
func storeGetErrClass(err error, path string) string {
	c := storeErrClass(err)
	if c == "short" {
		if fi, serr := os.Stat(path); serr == nil && fi.Size() >= storeHeaderLen+storeNonceLen {
			return "corrupt"
		}
	}
	return c
}

func c09Lz4Frame(b []byte) []byte {
	var out bytes.Buffer
	w := lz4.NewWriter(&out)
	if err := w.Apply(lz4.BlockSizeOption(lz4.Block64Kb), lz4.ChecksumOption(false)); err != nil {
		panic(err)
	}
	if _, err := w.ReadFrom(bytes.NewReader(b)); err != nil {
		panic(err)
	}
	if err := w.Close(); err != nil {
		panic(err)
	}
	return out.Bytes()
}

func openVerifStore(dir string, key int) store.Store {
	st, err := store.NewOnDiskStore(dir, storePass(key))
	if err != nil {
		panic(err)
	}
	return store.NewWriteControlledStore(st)
}

func storeAlter(f []byte, kind string) ([]byte, bool) {
	hl, ns := storeHeaderLen, storeNonceLen
	body := len(f) - (hl + ns)
	flip := func(i int) []byte {
		g := append([]byte{}, f...)
		if i >= 0 && i < len(g) {
			g[i] ^= 1
		}
		return g
	}
	take := func(n int) []byte {
		if n > len(f) {
			n = len(f)
		}
		if n < 0 {
			n = 0
		}
		return append([]byte{}, f[:n]...)
	}
	// the last sealed block of the file (pieces of blockSize + overhead; sizes as the oracle has them from the source)
	enc := c09Fmt().blockSize + c09Fmt().overhead
	lastLen := 0
	if body > 0 {
		lastLen = (body-1)%enc + 1
	}
	switch {
	case kind == "bt":
		if lastLen == 0 {
			return append([]byte{}, f...), true
		}
		return flip(len(f) - lastLen), true
	case kind == "cm":
		return take(len(f) - lastLen/2), true
	case kind == "bf":
		return flip(hl + ns), true
	case kind == "bm":
		return flip(hl + ns + body/2), true
	case kind == "bl":
		return flip(len(f) - 1), true
	case kind == "ca":
		return take(hl + ns), true
	case strings.HasPrefix(kind, "ch"):
		return take(atoi(kind[2:])), true
	case strings.HasPrefix(kind, "cn"):
		return take(hl + atoi(kind[2:])), true
	case strings.HasPrefix(kind, "ct"):
		return take(len(f) - atoi(kind[2:])), true
	case strings.HasPrefix(kind, "ap"):
		return append(append([]byte{}, f...), bytes.Repeat([]byte{170}, atoi(kind[2:]))...), true
	case strings.HasPrefix(kind, "h"):
		return flip(atoi(kind[1:])), true
	case strings.HasPrefix(kind, "n"):
		return flip(hl + atoi(kind[1:])), true
	}
	return nil, false
}

// c09ErrReaderFailed is what the reader of an interrupted Set returns (ops A of the `store` dialect, oracle cases).
var c09ErrReaderFailed = errors.New("c09: the reader handed to Set failed")

// c09HeldReader delivers the first k bytes of data and then waits (inside Read) for resume(): a Set reading from it
// is deterministically "in progress" once `reached` is closed. resume(true) delivers the rest and io.EOF,
// resume(false) makes the pending and every later Read fail with c09ErrReaderFailed.
type c09HeldReader struct {
	data    []byte
	pos, k  int
	mode    int // 0 first part, 1 rest, 2 fail
	reached chan struct{}
	cmd     chan int
	once    sync.Once
}

func newC09HeldReader(data []byte, k int) *c09HeldReader {
	if k > len(data) {
		k = len(data)
	}
	if k < 0 {
		k = 0
	}
	return &c09HeldReader{data: data, k: k, reached: make(chan struct{}), cmd: make(chan int, 1)}
}

func (h *c09HeldReader) Read(p []byte) (int, error) {
	if h.mode == 0 && h.pos >= h.k {
		h.once.Do(func() { close(h.reached) })
		h.mode = <-h.cmd
	}
	if h.mode == 2 {
		return 0, c09ErrReaderFailed
	}
	limit := len(h.data)
	if h.mode == 0 {
		limit = h.k
	}
	if h.pos >= limit {
		return 0, io.EOF
	}
	n := copy(p, h.data[h.pos:limit])
	h.pos += n
	return n, nil
}

func (h *c09HeldReader) resume(deliverRest bool) {
	if deliverRest {
		h.cmd <- 1
	} else {
		h.cmd <- 2
	}
}

// c09Flight is a Set in progress.
type c09Flight struct {
	r    *c09HeldReader
	done chan error
}

// c09BeginSet starts set(r) in a goroutine and waits until the reader has delivered its first part and is asked for
// more (the Set is then in progress), or until the Set returned (early = true).
func c09BeginSet(set func(io.Reader) error, data []byte, k int) (fl *c09Flight, early bool, err error) {
	fl = &c09Flight{r: newC09HeldReader(data, k), done: make(chan error, 1)}
	go func() { fl.done <- set(fl.r) }()
	select {
	case <-fl.r.reached:
		return fl, false, nil
	case err = <-fl.done:
		return fl, true, err
	case <-time.After(30 * time.Second):
		return fl, true, errors.New("harness: Set neither read its input nor returned within 30 s")
	}
}

func (fl *c09Flight) end(deliverRest bool) error {
	fl.r.resume(deliverRest)
	select {
	case err := <-fl.done:
		return err
	case <-time.After(60 * time.Second):
		return errors.New("harness: Set did not return within 60 s after its reader ended")
	}
}

// c09ListItem renders an id List returned: the number of a harness id, or the id itself if the harness never made it.
func c09ListItem(id imap.InternalMessageID) (int, string) {
	s := id.String()
	const prefix = "00000000-0000-4000-8000-"
	if strings.HasPrefix(s, prefix) && len(s) == len(prefix)+12 {
		if n, err := strconv.Atoi(strings.TrimLeft(s[len(prefix):], "0")); err == nil && storeID(n).String() == s {
			return n, ""
		}
	}
	return 0, "foreign-" + s
}

func c09RenderList(ids []imap.InternalMessageID) string {
	var ns []int
	var foreign []string
	for _, id := range ids {
		if n, f := c09ListItem(id); f != "" {
			foreign = append(foreign, f)
		} else {
			ns = append(ns, n)
		}
	}
	sort.Ints(ns)
	sort.Strings(foreign)
	var ss []string
	for _, n := range ns {
		ss = append(ss, strconv.Itoa(n))
	}
	ss = append(ss, foreign...)
	if len(ss) == 0 {
		return "ids:-"
	}
	return "ids:" + strings.Join(ss, ",")
}

// c09OpIDs: the ids an op of the `store` dialect works on (guard for ids whose Set is in progress).
func c09OpIDs(op string) []int {
	if op == "" {
		return nil
	}
	switch op[0] {
	case 'S', 'B':
		return []int{atoi(strings.SplitN(op[1:], "=", 2)[0])}
	case 'G':
		return []int{atoi(op[1:])}
	case 'D':
		var out []int
		for _, s := range strings.Split(op[1:], ",") {
			out = append(out, atoi(s))
		}
		return out
	case 'X':
		return []int{atoi(strings.SplitN(op[1:], ":", 2)[0])}
	}
	return nil
}

// c09Kept is the slice a Get returned, kept by the runner, and a private copy of what it held at that moment.
type c09Kept struct {
	op        int
	got, want []byte
}

func implStore(args []string) string {
	if len(args) != 1 {
		return "bad-op"
	}
	dir, err := os.MkdirTemp("", "vh-c09-store-")
	if err != nil {
		return "harness-error " + err.Error()
	}
	defer os.RemoveAll(dir)
	st := openVerifStore(dir, 0)
	var out []string
	flights := map[int]*c09Flight{}
	defer func() {
		for _, fl := range flights {
			_ = fl.end(false)
		}
	}()
	var kept []*c09Kept
	for opIndex, op := range strings.Split(args[0], ";") {
		res := "bad-op"
		guarded := strings.HasPrefix(op, "K") && len(flights) > 0
		for _, id := range c09OpIDs(op) {
			if flights[id] != nil {
				guarded = true
			}
		}
		switch {
		case guarded:
			// through WriteControlledStore the operation would wait for the Set in progress
		case op == "L":
			ids, err := st.List()
			if err != nil {
				res = "err:" + storeErrClass(err)
				break
			}
			res = c09RenderList(ids)
		case strings.HasPrefix(op, "B"):
			p := strings.SplitN(op[1:], "=", 2)
			if len(p) != 2 {
				break
			}
			ck := strings.SplitN(p[1], "@", 2)
			if len(ck) != 2 {
				break
			}
			b, ok := storeContent(ck[0])
			if !ok {
				break
			}
			id := atoi(p[0])
			fl, early, err := c09BeginSet(func(r io.Reader) error { return st.Set(storeID(id), r) }, b, atoi(ck[1]))
			switch {
			case !early:
				flights[id] = fl
				res = "ok"
			case err != nil:
				res = "err:" + storeErrClass(err)
			default:
				res = "ok-early"
			}
		case strings.HasPrefix(op, "E"), strings.HasPrefix(op, "A"):
			id := atoi(op[1:])
			fl := flights[id]
			if fl == nil {
				break
			}
			delete(flights, id)
			if err := fl.end(op[0] == 'E'); err != nil {
				res = "err:" + storeErrClass(err)
			} else {
				res = "ok"
			}
		case strings.HasPrefix(op, "S"):
			p := strings.SplitN(op[1:], "=", 2)
			if len(p) != 2 {
				break
			}
			b, ok := storeContent(p[1])
			if !ok {
				break
			}
			if err := st.Set(storeID(atoi(p[0])), bytes.NewReader(b)); err != nil {
				res = "err:" + storeErrClass(err)
			} else {
				res = "ok"
			}
		case strings.HasPrefix(op, "G"):
			gid := storeID(atoi(op[1:]))
			b, err := st.Get(gid)
			if err != nil {
				res = "err:" + storeGetErrClass(err, filepath.Join(dir, gid.String()))
			} else {
				res = "ok:" + storeDigest(b)
				kept = append(kept, &c09Kept{op: opIndex + 1, got: b, want: append([]byte(nil), b...)})
			}
		case strings.HasPrefix(op, "D"):
			var ids []imap.InternalMessageID
			for _, s := range strings.Split(op[1:], ",") {
				ids = append(ids, storeID(atoi(s)))
			}
			if err := st.Delete(ids...); err != nil {
				res = "err:" + storeErrClass(err)
			} else {
				res = "ok"
			}
		case strings.HasPrefix(op, "K"):
			_ = st.Close()
			st = openVerifStore(dir, atoi(op[1:]))
			res = "ok"
		case strings.HasPrefix(op, "X"):
			p := strings.SplitN(op[1:], ":", 2)
			if len(p) != 2 {
				break
			}
			path := filepath.Join(dir, storeID(atoi(p[0])).String())
			f, err := os.ReadFile(path)
			if err != nil {
				res = "err:" + storeErrClass(err)
				break
			}
			g, ok := storeAlter(f, p[1])
			if !ok {
				break
			}
			if err := os.WriteFile(path, g, 0o600); err != nil {
				res = "harness-error"
				break
			}
			res = "ok"
		}
		// result lifetime: what earlier Gets returned must still be what it was (C09.get_result_stable)
		for i, h := range kept {
			if h != nil && !bytes.Equal(h.got, h.want) {
				res += fmt.Sprintf("!changed:%d", h.op)
				kept[i] = nil
				break
			}
		}
		out = append(out, res)
	}
	return fmt.Sprintf("r%d %s", len(out), strings.Join(out, ";"))
}

func implStoreSize(args []string) string {
	if len(args) != 2 {
		return "bad-op"
	}
	b, ok := storeContent(args[0])
	if !ok {
		return "bad-op"
	}
	if got := len(c09Lz4Frame(b)); got != atoi(args[1]) {
		return fmt.Sprintf("clen-mismatch %d", got)
	}
	dir, err := os.MkdirTemp("", "vh-c09-size-")
	if err != nil {
		return "harness-error " + err.Error()
	}
	defer os.RemoveAll(dir)
	st := openVerifStore(dir, 0)
	id := storeID(1)
	if err := st.Set(id, bytes.NewReader(b)); err != nil {
		return "err:" + storeErrClass(err)
	}
	fi, err := os.Stat(filepath.Join(dir, id.String()))
	if err != nil {
		return "err:" + storeErrClass(err)
	}
	return fmt.Sprintf("size %d", fi.Size())
}

func genStoreContent(r *Rng, st *Stats) string {
	kind := Pick(r, []string{"z", "t", "r", "r", "x"})
	var n int
	switch c := r.Intn(100); {
	case c < 3:
		n = Pick(r, []int{262133, 262144, 300000, 530000, 700000}) // multi-block for incompressible content
		kind = Pick(r, []string{"r", "r", "t"})
		st.Inc("store.content.big")
	case c < 25:
		n = Pick(r, []int{0, 1, 15, 16, 17, 255, 256})
	default:
		n = r.Intn(3000)
	}
	st.Inc("store.content." + kind)
	switch kind {
	case "r":
		return fmt.Sprintf("r%d.%d", n, r.Intn(1000))
	case "x":
		n = n % 40
		b := storeRandBytes(r.U64(), n)
		return "x" + fmt.Sprintf("%x", b)
	}
	return fmt.Sprintf("%s%d", kind, n)
}

// c09GenLifetimeLine: result lifetime. Two large messages and a small one, sizes on both sides of plausible buffer
// pooling / reuse thresholds (LZ4 block 64 KiB, store block 256 KiB, 1 MiB, 4 MiB); Gets in a row of the same id, of
// other ids of smaller / equal / larger size, then Set, overwrite, Delete. The runner keeps every returned slice and
// compares it again after each later op (suffix !changed:<op>), the model's results are values.
func c09GenLifetimeLine(r *Rng, st *Stats, t int) string {
	size := func(t int) (int, string) {
		d := Pick(r, []int{-1, 0, 1, t / 2, 4097})
		return t + d, fmt.Sprintf("store.lifetime.size~%dKiB", t/1024)
	}
	content := func(n int) string {
		switch r.Intn(4) {
		case 0:
			return fmt.Sprintf("t%d", n)
		case 1:
			return fmt.Sprintf("cr%d.%d+t%d", n/2, r.Intn(1000), n-n/2)
		default:
			return fmt.Sprintf("r%d.%d", n, r.Intn(1000))
		}
	}
	na, ka := size(t)
	tb := t
	if t > 1048576 {
		tb = 1048576 // one very large message per line is enough (model time)
	} else if r.Chance(1, 3) {
		tb = Pick(r, []int{65536, 262144, 1048576})
	}
	nb, kb := size(tb)
	if tb == t && r.Chance(1, 2) {
		nb = na // equal size
	}
	st.Inc(ka)
	st.Inc(kb)
	st.Inc("store.lifetime.lines")
	ops := []string{
		fmt.Sprintf("S1=%s", content(na)), fmt.Sprintf("S2=%s", content(nb)), fmt.Sprintf("S3=%s", genStoreContent(r, st)),
		"G1", Pick(r, []string{"G3", "G2", "G1"}), Pick(r, []string{"G2", "G3"}), "G1",
	}
	if t > 1048576 {
		// very large: a short line (the oracle's lifetime case does the long histories at this size)
		ops = []string{ops[0], ops[1], ops[2], "G1", Pick(r, []string{"G3", "G2"}), "G1", "L"}
		return "store " + strings.Join(ops, ";")
	}
	for k, extra := 0, r.Range(2, 5); k < extra; k++ {
		switch r.Intn(7) {
		case 0:
			ops = append(ops, fmt.Sprintf("S4=%s", genStoreContent(r, st)), "G4")
		case 1:
			ops = append(ops, fmt.Sprintf("S1=%s", content(Pick(r, []int{100, na, na / 2}))), "G1") // overwrite while the old result is kept
		case 2:
			ops = append(ops, fmt.Sprintf("D%d", r.Range(1, 3)))
		case 3:
			ops = append(ops, "L")
		default:
			ops = append(ops, fmt.Sprintf("G%d", r.Range(1, 3)))
		}
	}
	ops = append(ops, "G3", "L")
	return "store " + strings.Join(ops, ";")
}

// c09GenInFlightLine: List (and operations on other ids) while a Set is in progress, then the Set completes (E) or
// its reader fails (A: interrupted Set) after k bytes, k around the LZ4 piece and the store block boundaries.
func c09GenInFlightLine(r *Rng, st *Stats) string {
	var ops []string
	stored := map[int]bool{}
	for id := 1; id <= 3; id++ {
		if r.Chance(2, 3) {
			ops = append(ops, fmt.Sprintf("S%d=%s", id, genStoreContent(r, st)))
			stored[id] = true
		}
	}
	begin := func(id int) {
		var c string
		var k int
		if r.Chance(1, 4) {
			// incompressible and long enough for whole sealed blocks to be on disk when the reader stops
			n := Pick(r, []int{70000, 262144, 262145 + r.Intn(3), 300000, 530000, 600000})
			c = fmt.Sprintf("r%d.%d", n, r.Intn(1000))
			k = Pick(r, []int{0, 65535, 65536, 65537, 131072, 262143, 262144, 262145, 4 * 65536, 4*65536 + 70000, n - 1, n})
			st.Inc("store.inflight.content.big")
		} else {
			c = genStoreContent(r, st)
			b, _ := storeContent(c)
			k = Pick(r, []int{0, 0, 1, len(b) / 2, len(b), len(b) + 1})
		}
		ops = append(ops, fmt.Sprintf("B%d=%s@%d", id, c, k))
		if stored[id] {
			st.Inc("store.inflight.begin.overwrite")
		} else {
			st.Inc("store.inflight.begin.new-id")
		}
	}
	fid := r.Range(1, 4)
	begin(fid)
	flying := []int{fid}
	if r.Chance(1, 5) {
		g := r.Range(1, 4)
		if g != fid {
			begin(g)
			flying = append(flying, g)
		}
	}
	other := func() int {
		for {
			id := r.Range(1, 5)
			free := true
			for _, f := range flying {
				if f == id {
					free = false
				}
			}
			if free {
				return id
			}
		}
	}
	ops = append(ops, "L")
	for k, m := 0, r.Intn(4); k < m; k++ {
		switch r.Intn(5) {
		case 0:
			ops = append(ops, fmt.Sprintf("S%d=%s", other(), genStoreContent(r, st)))
		case 1:
			ops = append(ops, fmt.Sprintf("D%d", other()))
		case 2:
			ops = append(ops, "L")
		default:
			ops = append(ops, fmt.Sprintf("G%d", other()))
		}
	}
	if r.Chance(1, 2) {
		ops = append(ops, "L")
	}
	for _, f := range flying {
		if r.Chance(1, 2) {
			ops = append(ops, fmt.Sprintf("E%d", f))
			st.Inc("store.inflight.end.complete")
		} else {
			ops = append(ops, fmt.Sprintf("A%d", f))
			st.Inc("store.inflight.end.reader-failed")
		}
		ops = append(ops, "L", fmt.Sprintf("G%d", f))
	}
	if r.Chance(1, 2) {
		ops = append(ops, fmt.Sprintf("S%d=%s", fid, genStoreContent(r, st)), fmt.Sprintf("G%d", fid), "L")
	} else if r.Chance(1, 2) {
		ops = append(ops, fmt.Sprintf("D%d", fid), "L")
	}
	st.Inc("store.inflight.lines")
	return "store " + strings.Join(ops, ";")
}

// thresholds of the lifetime lines, in turn: LZ4 piece, store block, 1 MiB, once 4 MiB
var c09LifetimeSchedule = []int{65536, 1048576, 262144, 1048576, 65536, 1048576, 262144, 4194304, 1048576, 65536, 1048576, 262144}

func genStore(r *Rng, n int, w io.Writer, st *Stats) {
	lifetimeLines := 0
	for i := 0; i < n; i++ {
		if (i < 2000 && i%100 == 37) || (i >= 2000 && i%400 == 37) { // large lines (1-8 s each on the model side): fixed positions and a fixed size schedule keep the cost even across seeds
			fmt.Fprintln(w, c09GenLifetimeLine(r, st, c09LifetimeSchedule[lifetimeLines%len(c09LifetimeSchedule)]))
			lifetimeLines++
			continue
		}
		if (i < 2000 && r.Chance(1, 25)) || (i >= 2000 && r.Chance(1, 40)) {
			fmt.Fprintln(w, c09GenInFlightLine(r, st))
			continue
		}
		if (i < 2000 && r.Chance(1, 50)) || (i >= 2000 && r.Chance(1, 300)) { // these lines are large (0.5 s each on the model side)
			// a content whose sealed block `good` starts exactly where an LZ4 data block starts (o_store_aligned.go),
			// then damage inside the LAST sealed block (a later block): the model answers err:corrupt
			// (C09.alteration_detected_partial); a reader that handed the decrypt failure to the LZ4 reader as a
			// plain end of data would answer with a strict prefix
			good := Pick(r, []int{1, 1, 1, 2, 2, 3})
			layout := r.Intn(len(c09AlignedLayouts))
			tail := 70000 + r.Intn(250000)
			if parts, _, _, ok := c09AlignedBuild(uint64(1+r.Intn(1000)), good, layout, tail); ok {
				alt := Pick(r, []string{"bl", "bt", "cm", fmt.Sprintf("ct%d", r.Range(1, 16)), fmt.Sprintf("ap%d", r.Range(1, 20))})
				id := r.Range(1, 4)
				ops := []string{fmt.Sprintf("S%d=%s", id, c09PartsSpec(parts))}
				if r.Chance(1, 3) {
					ops = append(ops, fmt.Sprintf("G%d", id))
				}
				ops = append(ops, fmt.Sprintf("X%d:%s", id, alt), fmt.Sprintf("G%d", id), "L")
				st.Inc(fmt.Sprintf("store.aligned.good=%d", good))
				st.Inc("store.aligned.alter." + strings.TrimRight(alt, "0123456789"))
				fmt.Fprintf(w, "store %s\n", strings.Join(ops, ";"))
				continue
			}
			st.Inc("store.aligned.construction-failed")
		}
		nops := r.Range(3, 12)
		var ops []string
		stored := map[int]bool{}
		altered := map[int]bool{} // one alteration per written file: lengths of real and toy files differ
		pickID := func() int { return r.Range(1, 4) }
		pickStored := func() int {
			var ids []int
			for id := range stored {
				ids = append(ids, id)
			}
			sort.Ints(ids)
			if len(ids) > 0 && r.Chance(5, 6) {
				return Pick(r, ids)
			}
			return pickID()
		}
		for k := 0; k < nops; k++ {
			switch c := r.Intn(100); {
			case c < 30 || k == 0:
				id := pickID()
				stored[id] = true
				altered[id] = false
				ops = append(ops, fmt.Sprintf("S%d=%s", id, genStoreContent(r, st)))
				st.Inc("store.op.set")
			case c < 58:
				ops = append(ops, fmt.Sprintf("G%d", pickStored()))
				st.Inc("store.op.get")
			case c < 66:
				ids := []int{pickStored()}
				if r.Chance(1, 4) {
					ids = append(ids, pickID())
				}
				var ss []string
				for _, id := range ids {
					ss = append(ss, strconv.Itoa(id))
					delete(stored, id) // approximation; the model decides
				}
				ops = append(ops, "D"+strings.Join(ss, ","))
				st.Inc("store.op.delete")
			case c < 74:
				ops = append(ops, "L")
				st.Inc("store.op.list")
			case c < 79:
				ops = append(ops, fmt.Sprintf("K%d", r.Intn(3)))
				st.Inc("store.op.rekey")
			default:
				kind := ""
				switch x := r.Intn(14); x {
				case 12:
					kind = "bt"
				case 13:
					kind = "cm"
				case 0:
					kind = fmt.Sprintf("h%d", r.Intn(storeHeaderLen))
				case 1:
					kind = fmt.Sprintf("n%d", r.Intn(storeNonceLen))
				case 2:
					kind = "bf"
				case 3:
					kind = "bm"
				case 4:
					kind = "bl"
				case 5:
					kind = fmt.Sprintf("ch%d", r.Intn(storeHeaderLen))
				case 6:
					kind = fmt.Sprintf("cn%d", r.Intn(storeNonceLen))
				case 7:
					kind = "ca"
				case 8, 9:
					kind = fmt.Sprintf("ct%d", r.Range(1, 16))
				default:
					kind = fmt.Sprintf("ap%d", r.Range(1, 20))
				}
				id := pickStored()
				if altered[id] {
					ops = append(ops, fmt.Sprintf("G%d", id))
					st.Inc("store.op.get")
					continue
				}
				altered[id] = true
				ops = append(ops, fmt.Sprintf("X%d:%s", id, kind))
				ops = append(ops, fmt.Sprintf("G%d", id))
				st.Inc("store.op.alter." + strings.TrimRight(kind, "0123456789"))
			}
		}
		fmt.Fprintf(w, "store %s\n", strings.Join(ops, ";"))
	}
}

// genStoreSize: contents whose compressed length lies around multiples of blockSize (±0, ±1, ±16),
// plus small and compressible ones. clen is computed with the real compressor.
func genStoreSize(r *Rng, n int, w io.Writer, st *Stats) {
	emit := func(spec string) {
		b, _ := storeContent(spec)
		fmt.Fprintf(w, "store-size %s %d\n", spec, len(c09Lz4Frame(b)))
	}
	for i := 0; i < n; i++ {
		switch c := r.Intn(10); {
		case c < 5:
			// random (incompressible) content tuned so that the frame length hits k*blockSize + delta
			k := r.Range(1, 3)
			delta := Pick(r, []int{0, 1, -1, 16, -16, 15, 17})
			target := k*storeBlockSize + delta
			seed := r.Intn(1000)
			length := target - 11 - 4*((target+65535)/65536)
			for try := 0; try < 6; try++ {
				got := len(c09Lz4Frame(storeRandBytes(uint64(seed), length)))
				if got == target {
					break
				}
				length += target - got
			}
			st.Inc(fmt.Sprintf("store-size.boundary.k=%d", k))
			emit(fmt.Sprintf("r%d.%d", length, seed))
		case c < 7:
			st.Inc("store-size.small")
			emit(fmt.Sprintf("r%d.%d", Pick(r, []int{0, 1, 15, 16, 17, 65535, 65536, 65537}), r.Intn(1000)))
		case c < 9:
			st.Inc("store-size.text")
			emit(fmt.Sprintf("t%d", r.Intn(3000000)))
		default:
			st.Inc("store-size.zeros")
			emit(fmt.Sprintf("z%d", r.Intn(3000000)))
		}
	}
}

func init() {
	Register(&Dialect{Name: "store", Impl: implStore, Gen: genStore})
	Register(&Dialect{Name: "store-size", Impl: implStoreSize, Gen: genStoreSize})
}
