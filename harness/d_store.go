package main

// Dialects `store` and `store-size` (C09): the real store.NewOnDiskStore (behind
// store.NewWriteControlledStore) in a temporary directory against the Lean model
// (GluonModel/Model/Store.lean, driver GluonModel/Driver/DStore.lean).

import (
	"bytes"
	"errors"
	"fmt"
	"io"
	"io/fs"
	"os"
	"path/filepath"
	"sort"
	"strconv"
	"strings"

	"github.com/ProtonMail/gluon/imap"
	"github.com/ProtonMail/gluon/store"
	"github.com/pierrec/lz4/v4"
)

const (
	storeHeaderLen = 15 // len("GLUON-CACHE") + 4; cross-checked against the file by the oracle
	storeNonceLen  = 12 // gcm.NonceSize()
	storeOverhead  = 16 // gcm.Overhead()
	storeBlockSize = 64 * 4096
)

func storeID(n int) imap.InternalMessageID {
	id, err := imap.InternalMessageIDFromString(fmt.Sprintf("00000000-0000-4000-8000-%012d", n))
	if err != nil {
		panic(err)
	}
	return id
}

func storeIDNum(id imap.InternalMessageID) int {
	s := id.String()
	n, _ := strconv.Atoi(strings.TrimLeft(s[len(s)-12:], "0"))
	return n
}

func storePass(k int) []byte { return []byte(fmt.Sprintf("verif-passphrase-%d", k)) }

// storeRandBytes mirrors randBytes of DStore.lean: its own splitmix64 (independent of the harness
// Rng's seeding, which other dialects may change), one draw per byte.
func storeRandBytes(seed uint64, n int) []byte {
	s := seed*0x9E3779B97F4A7C15 + 0x1234567
	out := make([]byte, n)
	for i := range out {
		s += 0x9E3779B97F4A7C15
		z := s
		z = (z ^ (z >> 30)) * 0xBF58476D1CE4E5B9
		z = (z ^ (z >> 27)) * 0x94D049BB133111EB
		z ^= z >> 31
		out[i] = byte(z >> 33)
	}
	return out
}

var storeTextPhrase = []byte("The quick brown fox jumps over the lazy dog.\r\n")

func storeTextBytes(n int) []byte {
	out := make([]byte, n)
	for i := range out {
		out[i] = storeTextPhrase[i%len(storeTextPhrase)]
	}
	return out
}

func storeContent(spec string) ([]byte, bool) {
	if spec == "" {
		return nil, false
	}
	switch spec[0] {
	case 'z':
		return make([]byte, atoi(spec[1:])), true
	case 't':
		return storeTextBytes(atoi(spec[1:])), true
	case 'r':
		p := strings.Split(spec[1:], ".")
		if len(p) != 2 {
			return nil, false
		}
		seed, _ := strconv.ParseUint(p[1], 10, 64)
		return storeRandBytes(seed, atoi(p[0])), true
	case 'c': // composite: c<part>+<part>+…, parts z<n> | t<n> | r<n>.<seed>
		var out []byte
		for _, ps := range strings.Split(spec[1:], "+") {
			if ps == "" || !strings.ContainsRune("ztr", rune(ps[0])) {
				return nil, false
			}
			b, ok := storeContent(ps)
			if !ok {
				return nil, false
			}
			out = append(out, b...)
		}
		return out, true
	case 'x':
		out := make([]byte, len(spec[1:])/2)
		for i := range out {
			v, _ := strconv.ParseUint(spec[1+2*i:3+2*i], 16, 8)
			out[i] = byte(v)
		}
		return out, true
	}
	return nil, false
}

func c09Fnv1a64(b []byte) uint64 {
	h := uint64(14695981039346656037)
	for _, x := range b {
		h ^= uint64(x)
		h *= 1099511628211
	}
	return h
}

func storeDigest(b []byte) string { return fmt.Sprintf("%d:%016x", len(b), c09Fnv1a64(b)) }

// storeErrClass maps the errors of the store API to the model's enum.
func storeErrClass(err error) string {
	es := err.Error()
	switch {
	case errors.Is(err, fs.ErrNotExist):
		return "notfound"
	case strings.Contains(es, "failed to read from fallback"):
		return "fallback"
	case strings.Contains(es, "not a valid store file"):
		return "notvalid"
	case strings.Contains(es, "failed to read nonce"):
		return "nonce"
	case err == io.EOF || err == io.ErrUnexpectedEOF:
		// io.ReadFull of the header on a file shorter than the header; storeGetErrClass separates this
		// from an LZ4 reader hitting the end of its stream (same error values, file at least header + nonce long)
		return "short"
	default:
		return "corrupt" // "failed to decrypt block …" or an lz4 error
	}
}

// storeGetErrClass classifies an error of Get(id) for the file at `path`.
func storeGetErrClass(err error, path string) string {
	c := storeErrClass(err)
	if c == "short" {
		if fi, serr := os.Stat(path); serr == nil && fi.Size() >= storeHeaderLen+storeNonceLen {
			return "corrupt"
		}
	}
	return c
}

func c09Lz4Frame(b []byte) []byte {
	var out bytes.Buffer
	w := lz4.NewWriter(&out)
	if err := w.Apply(lz4.BlockSizeOption(lz4.Block64Kb), lz4.ChecksumOption(false)); err != nil {
		panic(err)
	}
	if _, err := w.ReadFrom(bytes.NewReader(b)); err != nil {
		panic(err)
	}
	if err := w.Close(); err != nil {
		panic(err)
	}
	return out.Bytes()
}

func openVerifStore(dir string, key int) store.Store {
	st, err := store.NewOnDiskStore(dir, storePass(key))
	if err != nil {
		panic(err)
	}
	return store.NewWriteControlledStore(st)
}

func storeAlter(f []byte, kind string) ([]byte, bool) {
	hl, ns := storeHeaderLen, storeNonceLen
	body := len(f) - (hl + ns)
	flip := func(i int) []byte {
		g := append([]byte{}, f...)
		if i >= 0 && i < len(g) {
			g[i] ^= 1
		}
		return g
	}
	take := func(n int) []byte {
		if n > len(f) {
			n = len(f)
		}
		if n < 0 {
			n = 0
		}
		return append([]byte{}, f[:n]...)
	}
	// the last sealed block of the file (pieces of blockSize + overhead; sizes as the oracle has them from the source)
	enc := c09Fmt().blockSize + c09Fmt().overhead
	lastLen := 0
	if body > 0 {
		lastLen = (body-1)%enc + 1
	}
	switch {
	case kind == "bt":
		if lastLen == 0 {
			return append([]byte{}, f...), true
		}
		return flip(len(f) - lastLen), true
	case kind == "cm":
		return take(len(f) - lastLen/2), true
	case kind == "bf":
		return flip(hl + ns), true
	case kind == "bm":
		return flip(hl + ns + body/2), true
	case kind == "bl":
		return flip(len(f) - 1), true
	case kind == "ca":
		return take(hl + ns), true
	case strings.HasPrefix(kind, "ch"):
		return take(atoi(kind[2:])), true
	case strings.HasPrefix(kind, "cn"):
		return take(hl + atoi(kind[2:])), true
	case strings.HasPrefix(kind, "ct"):
		return take(len(f) - atoi(kind[2:])), true
	case strings.HasPrefix(kind, "ap"):
		return append(append([]byte{}, f...), bytes.Repeat([]byte{170}, atoi(kind[2:]))...), true
	case strings.HasPrefix(kind, "h"):
		return flip(atoi(kind[1:])), true
	case strings.HasPrefix(kind, "n"):
		return flip(hl + atoi(kind[1:])), true
	}
	return nil, false
}

func implStore(args []string) string {
	if len(args) != 1 {
		return "bad-op"
	}
	dir, err := os.MkdirTemp("", "vh-c09-store-")
	if err != nil {
		return "harness-error " + err.Error()
	}
	defer os.RemoveAll(dir)
	st := openVerifStore(dir, 0)
	var out []string
	for _, op := range strings.Split(args[0], ";") {
		res := "bad-op"
		switch {
		case op == "L":
			ids, err := st.List()
			if err != nil {
				res = "err:" + storeErrClass(err)
				break
			}
			var ns []int
			for _, id := range ids {
				ns = append(ns, storeIDNum(id))
			}
			sort.Ints(ns)
			var ss []string
			for _, n := range ns {
				ss = append(ss, strconv.Itoa(n))
			}
			if len(ss) == 0 {
				res = "ids:-"
			} else {
				res = "ids:" + strings.Join(ss, ",")
			}
		case strings.HasPrefix(op, "S"):
			p := strings.SplitN(op[1:], "=", 2)
			if len(p) != 2 {
				break
			}
			b, ok := storeContent(p[1])
			if !ok {
				break
			}
			if err := st.Set(storeID(atoi(p[0])), bytes.NewReader(b)); err != nil {
				res = "err:" + storeErrClass(err)
			} else {
				res = "ok"
			}
		case strings.HasPrefix(op, "G"):
			gid := storeID(atoi(op[1:]))
			b, err := st.Get(gid)
			if err != nil {
				res = "err:" + storeGetErrClass(err, filepath.Join(dir, gid.String()))
			} else {
				res = "ok:" + storeDigest(b)
			}
		case strings.HasPrefix(op, "D"):
			var ids []imap.InternalMessageID
			for _, s := range strings.Split(op[1:], ",") {
				ids = append(ids, storeID(atoi(s)))
			}
			if err := st.Delete(ids...); err != nil {
				res = "err:" + storeErrClass(err)
			} else {
				res = "ok"
			}
		case strings.HasPrefix(op, "K"):
			_ = st.Close()
			st = openVerifStore(dir, atoi(op[1:]))
			res = "ok"
		case strings.HasPrefix(op, "X"):
			p := strings.SplitN(op[1:], ":", 2)
			if len(p) != 2 {
				break
			}
			path := filepath.Join(dir, storeID(atoi(p[0])).String())
			f, err := os.ReadFile(path)
			if err != nil {
				res = "err:" + storeErrClass(err)
				break
			}
			g, ok := storeAlter(f, p[1])
			if !ok {
				break
			}
			if err := os.WriteFile(path, g, 0o600); err != nil {
				res = "harness-error"
				break
			}
			res = "ok"
		}
		out = append(out, res)
	}
	return fmt.Sprintf("r%d %s", len(out), strings.Join(out, ";"))
}

func implStoreSize(args []string) string {
	if len(args) != 2 {
		return "bad-op"
	}
	b, ok := storeContent(args[0])
	if !ok {
		return "bad-op"
	}
	if got := len(c09Lz4Frame(b)); got != atoi(args[1]) {
		return fmt.Sprintf("clen-mismatch %d", got)
	}
	dir, err := os.MkdirTemp("", "vh-c09-size-")
	if err != nil {
		return "harness-error " + err.Error()
	}
	defer os.RemoveAll(dir)
	st := openVerifStore(dir, 0)
	id := storeID(1)
	if err := st.Set(id, bytes.NewReader(b)); err != nil {
		return "err:" + storeErrClass(err)
	}
	fi, err := os.Stat(filepath.Join(dir, id.String()))
	if err != nil {
		return "err:" + storeErrClass(err)
	}
	return fmt.Sprintf("size %d", fi.Size())
}

func genStoreContent(r *Rng, st *Stats) string {
	kind := Pick(r, []string{"z", "t", "r", "r", "x"})
	var n int
	switch c := r.Intn(100); {
	case c < 3:
		n = Pick(r, []int{262133, 262144, 300000, 530000, 700000}) // multi-block for incompressible content
		kind = Pick(r, []string{"r", "r", "t"})
		st.Inc("store.content.big")
	case c < 25:
		n = Pick(r, []int{0, 1, 15, 16, 17, 255, 256})
	default:
		n = r.Intn(3000)
	}
	st.Inc("store.content." + kind)
	switch kind {
	case "r":
		return fmt.Sprintf("r%d.%d", n, r.Intn(1000))
	case "x":
		n = n % 40
		b := storeRandBytes(r.U64(), n)
		return "x" + fmt.Sprintf("%x", b)
	}
	return fmt.Sprintf("%s%d", kind, n)
}

func genStore(r *Rng, n int, w io.Writer, st *Stats) {
	for i := 0; i < n; i++ {
		if (i < 2000 && r.Chance(1, 50)) || (i >= 2000 && r.Chance(1, 300)) { // these lines are large (0.5 s each on the model side)
			// a content whose sealed block `good` starts exactly where an LZ4 data block starts (o_store_aligned.go),
			// then damage inside the LAST sealed block (a later block): the model answers err:corrupt
			// (C09.alteration_detected_partial); a reader that handed the decrypt failure to the LZ4 reader as a
			// plain end of data would answer with a strict prefix
			good := Pick(r, []int{1, 1, 1, 2, 2, 3})
			layout := r.Intn(len(c09AlignedLayouts))
			tail := 70000 + r.Intn(250000)
			if parts, _, _, ok := c09AlignedBuild(uint64(1+r.Intn(1000)), good, layout, tail); ok {
				alt := Pick(r, []string{"bl", "bt", "cm", fmt.Sprintf("ct%d", r.Range(1, 16)), fmt.Sprintf("ap%d", r.Range(1, 20))})
				id := r.Range(1, 4)
				ops := []string{fmt.Sprintf("S%d=%s", id, c09PartsSpec(parts))}
				if r.Chance(1, 3) {
					ops = append(ops, fmt.Sprintf("G%d", id))
				}
				ops = append(ops, fmt.Sprintf("X%d:%s", id, alt), fmt.Sprintf("G%d", id), "L")
				st.Inc(fmt.Sprintf("store.aligned.good=%d", good))
				st.Inc("store.aligned.alter." + strings.TrimRight(alt, "0123456789"))
				fmt.Fprintf(w, "store %s\n", strings.Join(ops, ";"))
				continue
			}
			st.Inc("store.aligned.construction-failed")
		}
		nops := r.Range(3, 12)
		var ops []string
		stored := map[int]bool{}
		altered := map[int]bool{} // one alteration per written file: lengths of real and toy files differ
		pickID := func() int { return r.Range(1, 4) }
		pickStored := func() int {
			var ids []int
			for id := range stored {
				ids = append(ids, id)
			}
			sort.Ints(ids)
			if len(ids) > 0 && r.Chance(5, 6) {
				return Pick(r, ids)
			}
			return pickID()
		}
		for k := 0; k < nops; k++ {
			switch c := r.Intn(100); {
			case c < 30 || k == 0:
				id := pickID()
				stored[id] = true
				altered[id] = false
				ops = append(ops, fmt.Sprintf("S%d=%s", id, genStoreContent(r, st)))
				st.Inc("store.op.set")
			case c < 58:
				ops = append(ops, fmt.Sprintf("G%d", pickStored()))
				st.Inc("store.op.get")
			case c < 66:
				ids := []int{pickStored()}
				if r.Chance(1, 4) {
					ids = append(ids, pickID())
				}
				var ss []string
				for _, id := range ids {
					ss = append(ss, strconv.Itoa(id))
					delete(stored, id) // approximation; the model decides
				}
				ops = append(ops, "D"+strings.Join(ss, ","))
				st.Inc("store.op.delete")
			case c < 74:
				ops = append(ops, "L")
				st.Inc("store.op.list")
			case c < 79:
				ops = append(ops, fmt.Sprintf("K%d", r.Intn(3)))
				st.Inc("store.op.rekey")
			default:
				kind := ""
				switch x := r.Intn(14); x {
				case 12:
					kind = "bt"
				case 13:
					kind = "cm"
				case 0:
					kind = fmt.Sprintf("h%d", r.Intn(storeHeaderLen))
				case 1:
					kind = fmt.Sprintf("n%d", r.Intn(storeNonceLen))
				case 2:
					kind = "bf"
				case 3:
					kind = "bm"
				case 4:
					kind = "bl"
				case 5:
					kind = fmt.Sprintf("ch%d", r.Intn(storeHeaderLen))
				case 6:
					kind = fmt.Sprintf("cn%d", r.Intn(storeNonceLen))
				case 7:
					kind = "ca"
				case 8, 9:
					kind = fmt.Sprintf("ct%d", r.Range(1, 16))
				default:
					kind = fmt.Sprintf("ap%d", r.Range(1, 20))
				}
				id := pickStored()
				if altered[id] {
					ops = append(ops, fmt.Sprintf("G%d", id))
					st.Inc("store.op.get")
					continue
				}
				altered[id] = true
				ops = append(ops, fmt.Sprintf("X%d:%s", id, kind))
				ops = append(ops, fmt.Sprintf("G%d", id))
				st.Inc("store.op.alter." + strings.TrimRight(kind, "0123456789"))
			}
		}
		fmt.Fprintf(w, "store %s\n", strings.Join(ops, ";"))
	}
}

// genStoreSize: contents whose compressed length lies around multiples of blockSize (±0, ±1, ±16),
// plus small and compressible ones. clen is computed with the real compressor.
func genStoreSize(r *Rng, n int, w io.Writer, st *Stats) {
	emit := func(spec string) {
		b, _ := storeContent(spec)
		fmt.Fprintf(w, "store-size %s %d\n", spec, len(c09Lz4Frame(b)))
	}
	for i := 0; i < n; i++ {
		switch c := r.Intn(10); {
		case c < 5:
			// random (incompressible) content tuned so that the frame length hits k*blockSize + delta
			k := r.Range(1, 3)
			delta := Pick(r, []int{0, 1, -1, 16, -16, 15, 17})
			target := k*storeBlockSize + delta
			seed := r.Intn(1000)
			length := target - 11 - 4*((target+65535)/65536)
			for try := 0; try < 6; try++ {
				got := len(c09Lz4Frame(storeRandBytes(uint64(seed), length)))
				if got == target {
					break
				}
				length += target - got
			}
			st.Inc(fmt.Sprintf("store-size.boundary.k=%d", k))
			emit(fmt.Sprintf("r%d.%d", length, seed))
		case c < 7:
			st.Inc("store-size.small")
			emit(fmt.Sprintf("r%d.%d", Pick(r, []int{0, 1, 15, 16, 17, 65535, 65536, 65537}), r.Intn(1000)))
		case c < 9:
			st.Inc("store-size.text")
			emit(fmt.Sprintf("t%d", r.Intn(3000000)))
		default:
			st.Inc("store-size.zeros")
			emit(fmt.Sprintf("z%d", r.Intn(3000000)))
		}
	}
}

func init() {
	Register(&Dialect{Name: "store", Impl: implStore, Gen: genStore})
	Register(&Dialect{Name: "store-size", Impl: implStoreSize, Gen: genStoreSize})
}
