package main

// Dialects for C13 (FETCH is byte-exact): the real rfc822 package (public API), the real
// itemBodyLiteral.WithPartial / String and the real fetchAttributeBodySection (verif hooks) against
// the Lean model GluonModel/Model/Rfc822.lean.
//
//	rfc822-hdr    <hdr> <names>                                  NewHeader, Entries, Fields, FieldsNot
//	rfc822-sect   <lit> <path> <cttab> <expect>                  Split, Parse, Part, Header, Body, Children
//	rfc822-splice <lit> <key> <val>                              SetHeaderValue, SetHeaderValueNoMemCopy
//	fetch-partial <section> <data> <begin|~> <count|~>           ItemBodyLiteral + WithPartial + String
//	fetch-sect    <lit> <path> <kind> <names> <b|~> <c|~> <cttab>  fetchAttributeBodySection / fetchRFC822*
//	fetch-rel     <lit> <path> <cttab> <expect>                  the sections of one message part, side by side
//	fetch-partial-raw / fetch-sect-raw: the same two with offsets/counts outside the parser's range (not judged)
//
// Bytes are lower-case hex, `~` = empty byte string; lists are comma separated, `-` = empty list;
// path = `1.2.3` or `-`; <cttab> = `raw:class;...` (class o | r | m:<boundary>) is the
// Content-Type oracle for the model (what the real mime.ParseMediaType answered at generation time;
// the implementation side ignores it); <expect> = the bytes the addressed part has by construction
// (`?` = unknown), only used by the judge.

import (
	"encoding/hex"
	"errors"
	"fmt"
	"io"
	"sort"
	"strconv"
	"strings"

	"github.com/ProtonMail/gluon/rfc822"
	"github.com/ProtonMail/gluon/verifhooks"
	"github.com/sirupsen/logrus"
)

func r8hex(b []byte) string {
	if len(b) == 0 {
		return "~"
	}
	return hex.EncodeToString(b)
}

func r8unhex(s string) []byte {
	if s == "~" {
		return []byte{}
	}
	b, err := hex.DecodeString(s)
	if err != nil {
		panic("bad hex " + s)
	}
	return b
}

func r8hexList(xs [][]byte) string {
	if len(xs) == 0 {
		return "-"
	}
	out := make([]string, len(xs))
	for i, x := range xs {
		out[i] = r8hex(x)
	}
	return strings.Join(out, ",")
}

func r8unhexList(s string) [][]byte {
	if s == "-" {
		return nil
	}
	var out [][]byte
	for _, p := range strings.Split(s, ",") {
		out = append(out, r8unhex(p))
	}
	return out
}

func r8path(s string) []int {
	if s == "-" {
		return nil
	}
	var out []int
	for _, p := range strings.Split(s, ".") {
		n, err := strconv.ParseInt(p, 10, 64)
		if err != nil {
			panic("bad path " + s)
		}
		out = append(out, int(n))
	}
	return out
}

func r8showPath(p []int) string {
	if len(p) == 0 {
		return "-"
	}
	out := make([]string, len(p))
	for i, n := range p {
		out[i] = strconv.Itoa(n)
	}
	return strings.Join(out, ".")
}

// r8err maps the package's errors onto the model's enum.
func r8err(err error) string {
	switch {
	case errors.Is(err, rfc822.ErrNonASCIIHeaderKey):
		return "nonascii"
	case errors.Is(err, rfc822.ErrKeyNotFound):
		return "keynotfound"
	case errors.Is(err, rfc822.ErrParseHeader):
		return "parse"
	case errors.Is(err, io.ErrUnexpectedEOF):
		return "ueof"
	case errors.Is(err, rfc822.ErrNoSuchPart):
		return "nosuchpart"
	case err.Error() == "invalid part index":
		return "invalidindex"
	case err.Error() == `expected \n after \n`:
		return "other"
	}
	return "unknown:" + strings.ReplaceAll(err.Error(), " ", "_")
}

func r8recover(out *string) {
	if p := recover(); p != nil {
		*out = "panic"
	}
}

// ---- rfc822-hdr ------------------------------------------------------------------------------

func r8implHdr(args []string) (out string) {
	if len(args) != 2 {
		return "bad-op"
	}
	defer r8recover(&out)
	data := r8unhex(args[0])
	var names []string
	for _, n := range r8unhexList(args[1]) {
		names = append(names, string(n))
	}
	h, err := rfc822.NewHeader(data)
	if err != nil {
		return "err " + r8err(err)
	}
	var keys [][]byte
	h.Entries(func(k, _ string) { keys = append(keys, []byte(k)) })
	return fmt.Sprintf("ok keys=%s f=%s n=%s", r8hexList(keys), r8hex(h.Fields(names)), r8hex(h.FieldsNot(names)))
}

// ---- rfc822-sect -----------------------------------------------------------------------------

// r8off: offset of a sub-slice within the root literal's backing array (slicing keeps the capacity
// up to the end of the array, so the distance of the starts is the difference of the capacities).
func r8off(root, sub []byte) int { return cap(root) - cap(sub) }

func r8implSect(args []string) (out string) {
	if len(args) != 4 {
		return "bad-op"
	}
	defer r8recover(&out)
	lit := r8unhex(args[0])
	hdr, _ := rfc822.Split(lit)
	root := rfc822.Parse(lit)
	p, err := root.Part(r8path(args[1])...)
	if err != nil {
		return fmt.Sprintf("err %s s=%d", r8err(err), len(hdr))
	}
	h, b := p.Header(), p.Body()
	ho, bo := r8off(lit, h), r8off(lit, b)
	nch := "err"
	if ch, err := p.Children(); err == nil {
		nch = strconv.Itoa(len(ch))
	}
	return fmt.Sprintf("ok s=%d h=%d b=%d e=%d nch=%s H=%s B=%s", len(hdr), ho, bo, bo+len(b), nch, r8hex(h), r8hex(b))
}

// ---- rfc822-splice ---------------------------------------------------------------------------

func r8implSplice(args []string) (out string) {
	if len(args) != 3 {
		return "bad-op"
	}
	defer r8recover(&out)
	lit, key, val := r8unhex(args[0]), string(r8unhex(args[1])), string(r8unhex(args[2]))
	res, err := rfc822.SetHeaderValue(lit, key, val)
	if err != nil {
		return "err " + r8err(err)
	}
	rd, size, err := rfc822.SetHeaderValueNoMemCopy(lit, key, val)
	if err != nil {
		return "err2 " + r8err(err)
	}
	all, err := io.ReadAll(rd)
	if err != nil {
		return "err3 " + r8err(err)
	}
	if string(all) != string(res) {
		return "differ " + r8hex(res) + " " + r8hex(all)
	}
	return fmt.Sprintf("ok %s size=%d", r8hex(res), size)
}

// ---- partial ---------------------------------------------------------------------------------

func r8partialArgs(b, c string) (bool, int64, int64) {
	if b == "~" {
		return false, 0, 0
	}
	bv, err := strconv.ParseInt(b, 10, 64)
	if err != nil {
		panic("bad number " + b)
	}
	cv, err := strconv.ParseInt(c, 10, 64)
	if err != nil {
		panic("bad number " + c)
	}
	return true, bv, cv
}

func r8implPartial(args []string) string {
	if len(args) != 4 {
		return "bad-op"
	}
	has, b, c := r8partialArgs(args[2], args[3])
	res, p := verifhooks.BodyLiteralPartial(string(r8unhex(args[0])), r8unhex(args[1]), has, int(b), int(c))
	if p != nil {
		return "panic"
	}
	return "ok " + r8hex([]byte(res))
}

// ---- fetch-sect / fetch-rel ------------------------------------------------------------------

func r8fetch(lit []byte, path []int, kind string, names []string, has bool, b, c int64) string {
	var (
		res string
		err error
		p   any
	)
	switch kind {
	case "RFC822", "RFC822.HEADER", "RFC822.TEXT":
		res, err, p = verifhooks.FetchRFC822(kind, lit)
	case "-":
		res, err, p = verifhooks.FetchBodySection(lit, path, "", nil, has, b, c)
	default:
		res, err, p = verifhooks.FetchBodySection(lit, path, kind, names, has, b, c)
	}
	switch {
	case p != nil:
		return "panic"
	case err != nil:
		return "err:" + r8err(err)
	}
	return r8hex([]byte(res))
}

func r8implFetchSect(args []string) string {
	if len(args) != 7 {
		return "bad-op"
	}
	var names []string
	for _, n := range r8unhexList(args[3]) {
		names = append(names, string(n))
	}
	has, b, c := r8partialArgs(args[4], args[5])
	lit, path := r8unhex(args[0]), r8path(args[1])
	full := r8fetch(lit, path, args[2], names, false, 0, 0)
	part := full
	if has {
		part = r8fetch(lit, path, args[2], names, true, b, c)
	}
	return "P=" + part + " F=" + full
}

func r8implFetchRel(args []string) string {
	if len(args) != 4 {
		return "bad-op"
	}
	lit, path := r8unhex(args[0]), r8path(args[1])
	get := func(kind string) string { return r8fetch(lit, path, kind, nil, false, 0, 0) }
	out := []string{"A=" + get("-"), "H=" + get("HEADER"), "T=" + get("TEXT")}
	if len(path) > 0 {
		out = append(out, "M="+get("MIME"))
	} else {
		out = append(out, "R="+get("RFC822"), "RH="+get("RFC822.HEADER"), "RT="+get("RFC822.TEXT"))
	}
	return strings.Join(out, " ")
}

// ---- Content-Type oracle table (generation time, real code) -------------------------------------

// r8ctTable walks every section the real code can consult (`load`, `handleEmbeddedParts`) and records
// raw Content-Type value -> classification by the real rfc822.ParseMIMEType (mime.ParseMediaType).
func r8ctTable(lit []byte) string {
	tab := map[string]string{}
	var visit func(s *rfc822.Section, depth int)
	visit = func(s *rfc822.Section, depth int) {
		if depth > 64 {
			return
		}
		h, err := s.ParseHeader()
		if err != nil || !h.Has("Content-Type") {
			return
		}
		class := "o"
		if mt, params, err := rfc822.ParseMIMEType(h.Get("Content-Type")); err == nil {
			if mt == rfc822.MessageRFC822 {
				class = "r"
			} else if mt.IsMultiPart() {
				class = "m:" + r8hex([]byte(params["boundary"]))
			}
		}
		tab[r8hex(h.GetRaw("Content-Type"))] = class
		switch class[0] {
		case 'r':
			visit(rfc822.Parse(s.Body()), depth+1)
		case 'm':
			if ch, err := s.Children(); err == nil {
				for _, c := range ch {
					visit(c, depth+1)
				}
			}
		}
	}
	func() {
		defer func() { _ = recover() }()
		visit(rfc822.Parse(lit), 0)
	}()
	if len(tab) == 0 {
		return "-"
	}
	keys := make([]string, 0, len(tab))
	for k := range tab {
		keys = append(keys, k)
	}
	sort.Strings(keys)
	out := make([]string, len(keys))
	for i, k := range keys {
		out[i] = k + ":" + tab[k]
	}
	return strings.Join(out, ";")
}

// ---- message builder -------------------------------------------------------------------------

type r8node struct {
	kind         int // 0 leaf, 1 multipart, 2 message/rfc822
	hdr          []byte
	body         []byte // leaf only
	children     []*r8node
	embedded     *r8node
	boundary     string
	preamble     []byte
	epilogue     []byte
	nl           string
	closed       bool // closing delimiter present
	nlAfterClose bool
	clean        bool // the part boundaries are unambiguous (expectations can be given)
}

var r8fieldNames = []string{"Subject", "From", "To", "Date", "Message-Id", "Received", "X-Empty", "X-Custom", "subject", "SUBJECT", "X-Mailer", "Cc", "X-Pm-Gluon-Id", "Content-Transfer-Encoding"}

func r8word(r *Rng, eightBit bool) string {
	n := r.Range(1, 8)
	b := make([]byte, n)
	for i := range b {
		switch {
		case eightBit && r.Chance(1, 5):
			b[i] = byte(r.Range(128, 255))
		case r.Chance(1, 12):
			b[i] = Pick(r, []byte{':', ';', '=', '"', '-', '(', ')', '<', '>', '@', '.', ','})
		default:
			b[i] = byte('a' + r.Intn(26))
		}
	}
	return string(b)
}

func r8value(r *Rng, nl string, eightBit bool) string {
	switch c := r.Intn(20); {
	case c == 0:
		return "" // empty value, no space: `Key:\r\n`
	case c == 1:
		return " " // `Key: \r\n`
	case c == 2:
		return nl + " " + r8word(r, eightBit) // empty first line, folded continuation
	case c == 3:
		return " " + r8word(r, eightBit) + nl + "\t" + r8word(r, eightBit) + nl + " " + r8word(r, eightBit)
	case c == 4:
		return " " + r8word(r, eightBit) + nl + " " // fold with blank continuation
	case c == 5:
		w := r8word(r, false) // no space after the colon
		if w[0] == ':' {
			w = "x" + w // `Key::…` is rejected by NewHeader (finding d25); kept to the corpus and the garbage stream
		}
		return w
	case c == 6:
		return " \xc2\xa0" // NBSP only
	case c == 7:
		return "\t" + r8word(r, eightBit) + " " + r8word(r, eightBit)
	}
	n := r.Range(1, 4)
	var ws []string
	for i := 0; i < n; i++ {
		ws = append(ws, r8word(r, eightBit))
	}
	return " " + strings.Join(ws, " ")
}

func r8fieldsGen(r *Rng, nl string, n int, eightBit bool) []byte {
	var b []byte
	for i := 0; i < n; i++ {
		name := r8c13FieldName(r, r8c13Stats) // any RFC 5322 field name, see d_rfc822_names.go
		b = append(b, name...)
		b = append(b, ':')
		b = append(b, r8value(r, nl, eightBit)...)
		b = append(b, nl...)
	}
	return b
}

func r8bodyGen(r *Rng, nl string, eightBit bool) []byte {
	var b []byte
	lines := Pick(r, []int{0, 0, 1, 1, 2, 3, 6})
	for i := 0; i < lines; i++ {
		n := r.Intn(4)
		for k := 0; k < n; k++ {
			if k > 0 {
				b = append(b, ' ')
			}
			b = append(b, r8word(r, eightBit)...)
		}
		if i < lines-1 || r.Chance(3, 4) {
			b = append(b, nl...)
		}
	}
	return b
}

var r8boundarySeq int

// boundary relations (C13-edv1): the boundaries chosen so far in the message under construction and the ones of
// the enclosing multiparts. A new boundary is sometimes an earlier one plus a suffix or a proper prefix of an earlier
// one (enclosing, sibling or cousin multipart); leaf bodies sometimes hold lines that start with an enclosing
// delimiter followed by more characters. None of these lines is a delimiter (RFC 2046 5.1.1).
var r8c13AllBoundaries, r8c13BoundaryStack []string

var r8c13BoundarySuffixes = []string{"-alt", "x", "0", "1", ".a", "=_", "_", "b"}

func r8c13RelatedBoundary(r *Rng, st *Stats, base string) string {
	if len(r8c13AllBoundaries) == 0 || !r.Chance(2, 5) {
		return base
	}
	from := Pick(r, r8c13AllBoundaries)
	if len(r8c13BoundaryStack) > 0 && r.Bool() {
		from = r8c13BoundaryStack[len(r8c13BoundaryStack)-1]
	}
	cand, how := "", ""
	if r.Bool() {
		cand, how = from+Pick(r, r8c13BoundarySuffixes), "extends"
	} else if len(from) > 1 {
		cut := r.Range(1, 3)
		if cut > len(from)-1 {
			cut = len(from) - 1
		}
		cand, how = from[:len(from)-cut], "prefix-of"
	}
	if cand == "" || strings.HasSuffix(cand, " ") || strings.HasSuffix(cand, "--") || cand == "-" {
		return base
	}
	for _, b := range r8c13AllBoundaries {
		if b == cand {
			return base
		}
	}
	if st != nil {
		st.Inc("msg.boundary." + how)
	}
	return cand
}

// r8c13NearDelimiterLines puts lines that start with an enclosing delimiter plus more characters into a leaf body.
func r8c13NearDelimiterLines(r *Rng, st *Stats, body []byte, nl string) []byte {
	if len(r8c13BoundaryStack) == 0 || !r.Chance(1, 5) {
		return body
	}
	b := Pick(r, r8c13BoundaryStack)
	line := "--" + b + Pick(r, r8c13BoundarySuffixes)
	if r.Chance(1, 4) {
		line += "--"
	}
	for _, e := range r8c13BoundaryStack {
		// with related boundaries around, boundary + suffix can be another enclosing delimiter: not wanted here
		if line == "--"+e || line == "--"+e+"--" {
			return body
		}
	}
	if st != nil {
		st.Inc("msg.body.near-delimiter-line")
	}
	switch {
	case len(body) == 0 || r.Chance(1, 3):
		return append([]byte(line+nl), body...)
	case strings.HasSuffix(string(body), nl):
		if r.Bool() {
			return append(body, line+nl...)
		}
		return append(body, line...)
	}
	return append(append(body, nl...), line+nl...)
}

// r8build makes a message (or message part) tree of the given depth budget.
func r8build(r *Rng, depth int, nl string, eightBit bool, top bool) *r8node {
	n := &r8node{nl: nl, clean: true}
	kind := 0
	if depth > 0 {
		kind = Pick(r, []int{0, 0, 1, 1, 1, 2})
	}
	n.kind = kind
	nf := Pick(r, []int{0, 1, 2, 3, 5})
	if top {
		nf = Pick(r, []int{0, 1, 2, 3, 4, 6, 9})
	}
	pre := r8fieldsGen(r, nl, r.Intn(nf+1), eightBit)
	post := r8fieldsGen(r, nl, nf-r.Intn(nf+1), eightBit)
	var ctLine string
	switch kind {
	case 0:
		if r.Chance(1, 2) {
			ctLine = "Content-Type: " + Pick(r, []string{"text/plain", "text/plain; charset=utf-8", "text/html", "application/octet-stream", "TEXT/PLAIN; format=flowed", "garbage;;;", "image/png; name=\"a b.png\""}) + nl
		}
		n.body = r8c13NearDelimiterLines(r, r8c13Stats, r8bodyGen(r, nl, eightBit), nl)
	case 1:
		// unique per message (r8boundarySeq is reset for every message); small numbers so that one
		// boundary can be a proper prefix of another (b1 / b12)
		r8boundarySeq++
		n.boundary = fmt.Sprintf("%s%d", Pick(r, []string{"b", "b", "=_Part_", "----=_NextPart", "x.y", "simple boundary "}), r8boundarySeq)
		n.boundary = r8c13RelatedBoundary(r, r8c13Stats, n.boundary)
		r8c13AllBoundaries = append(r8c13AllBoundaries, n.boundary)
		r8c13BoundaryStack = append(r8c13BoundaryStack, n.boundary)
		quoted := strings.ContainsAny(n.boundary, " =") || r.Bool()
		bparam := n.boundary
		if quoted {
			bparam = `"` + n.boundary + `"`
		}
		sub := Pick(r, []string{"mixed", "alternative", "related", "Mixed", "digest"})
		switch r.Intn(6) {
		case 0:
			ctLine = "Content-Type: multipart/" + sub + ";" + nl + "\tboundary=" + bparam + nl
		case 1:
			ctLine = "content-type:multipart/" + sub + "; boundary=" + bparam + nl
		case 2:
			ctLine = "Content-Type: MULTIPART/" + strings.ToUpper(sub) + "; charset=x; BOUNDARY=" + bparam + nl
		default:
			ctLine = "Content-Type: multipart/" + sub + "; boundary=" + bparam + nl
		}
		nch := Pick(r, []int{0, 1, 2, 2, 3, 4})
		for i := 0; i < nch; i++ {
			n.children = append(n.children, r8build(r, depth-1, nl, eightBit, false))
		}
		r8c13BoundaryStack = r8c13BoundaryStack[:len(r8c13BoundaryStack)-1]
		if r.Chance(1, 3) {
			n.preamble = append(r8bodyGen(r, nl, false), nl...)
		}
		n.closed = !r.Chance(1, 8)
		n.nlAfterClose = r.Chance(3, 4)
		if n.closed && r.Chance(1, 3) {
			n.epilogue = r8bodyGen(r, nl, false)
		}
	case 2:
		ctLine = "Content-Type: " + Pick(r, []string{"message/rfc822", "message/rfc822", "Message/RFC822", "message/rfc822; name=fwd.eml"}) + nl
		n.embedded = r8build(r, depth-1, nl, eightBit, true)
	}
	if ctLine != "" && r.Chance(1, 4) {
		// the field name Content-Type and the parameter name boundary in another letter case
		if k := strings.IndexByte(ctLine, ':'); k > 0 {
			ctLine = r8c13CaseVariant(r, ctLine[:k]) + ctLine[k:]
		}
		if k := strings.Index(ctLine, "boundary="); k > 0 && r.Bool() {
			ctLine = ctLine[:k] + r8c13CaseVariant(r, "boundary") + ctLine[k+len("boundary"):]
		}
	}
	n.hdr = append(append(append([]byte{}, pre...), ctLine...), post...)
	// header / body separator: normally the blank line; sometimes missing (no body at all)
	switch {
	case kind == 0 && len(n.body) == 0 && r.Chance(1, 4):
		// header only, no blank line
	case len(n.hdr) == 0 && r.Chance(1, 3) && kind == 0:
		n.hdr = append(n.hdr, nl...) // no header at all: the part starts with the blank line
	default:
		n.hdr = append(n.hdr, nl...)
	}
	return n
}

func (n *r8node) bodyBytes() []byte {
	switch n.kind {
	case 1:
		var b []byte
		b = append(b, n.preamble...)
		for _, c := range n.children {
			b = append(b, "--"+n.boundary+n.nl...)
			b = append(b, c.render()...)
			b = append(b, n.nl...)
		}
		if n.closed {
			b = append(b, "--"+n.boundary+"--"...)
			if len(n.epilogue) > 0 || n.nlAfterClose {
				b = append(b, n.nl...)
			}
			b = append(b, n.epilogue...)
		}
		return b
	case 2:
		return n.embedded.render()
	}
	return n.body
}

func (n *r8node) render() []byte { return append(append([]byte{}, n.hdr...), n.bodyBytes()...) }

// r8expect registers, for every part path that exists by construction, the bytes of that part.
func (n *r8node) r8expect(path []int, out map[string][]byte, paths *[][]int) {
	switch n.kind {
	case 1:
		for i, c := range n.children {
			p := append(append([]int{}, path...), i+1)
			*paths = append(*paths, p)
			if !n.closed && i == len(n.children)-1 {
				// no delimiter follows: where the part ends depends on the enclosing structure; no expectation
				c.r8paths(p, paths)
				continue
			}
			if n.clean {
				out[r8showPath(p)] = c.render()
			}
			c.r8expect(p, out, paths)
		}
	case 2:
		n.embedded.r8expect(path, out, paths)
	}
}

// r8paths registers the part paths below n without expectations.
func (n *r8node) r8paths(path []int, paths *[][]int) {
	switch n.kind {
	case 1:
		for i, c := range n.children {
			p := append(append([]int{}, path...), i+1)
			*paths = append(*paths, p)
			c.r8paths(p, paths)
		}
	case 2:
		n.embedded.r8paths(path, paths)
	}
}

type r8msg struct {
	lit    []byte
	expect map[string][]byte
	paths  [][]int
}

func r8garbage(r *Rng) []byte {
	n := Pick(r, []int{0, 1, 2, 3, 5, 8, 13, 21, 40, 80})
	alphabet := []byte("ab:: \t\r\r\n\n\n--b-X\xc2\xa0\x85\xe2\x80\x80\x00")
	b := make([]byte, n)
	for i := range b {
		if r.Chance(1, 20) {
			b[i] = byte(r.Intn(256))
		} else {
			b[i] = Pick(r, alphabet)
		}
	}
	return b
}

func r8genMsg(r *Rng, st *Stats, big bool) r8msg {
	m := r8msg{expect: map[string][]byte{}}
	r8c13Cur, r8c13Stats = nil, st
	switch c := r.Intn(10); {
	case c == 0:
		m.lit = r8garbage(r)
		st.Inc("msg.garbage")
	case c == 1:
		// semi-structured garbage: header-ish lines from a small alphabet
		m.lit = append(r8fieldsGen(r, Pick(r, []string{"\r\n", "\n"}), r.Intn(4), true), r8garbage(r)...)
		st.Inc("msg.semigarbage")
	default:
		nl := "\r\n"
		if r.Chance(1, 4) {
			nl = "\n"
		}
		eight := r.Chance(1, 3)
		depth := Pick(r, []int{0, 0, 1, 1, 2, 2, 3})
		r8boundarySeq = r.Intn(3)
		r8c13AllBoundaries, r8c13BoundaryStack = nil, nil
		root := r8build(r, depth, nl, eight, true)
		if big {
			// one large leaf body so that offsets cross 64 KiB / 256 KiB
			size := Pick(r, []int{70_000, 262_144 - 10, 262_144 + 100})
			leaf := root
			for leaf.kind != 0 {
				if leaf.kind == 2 {
					leaf = leaf.embedded
				} else if len(leaf.children) > 0 {
					leaf = leaf.children[len(leaf.children)-1]
				} else {
					break
				}
			}
			if leaf.kind == 0 {
				line := []byte("0123456789abcdefghijklmnopqrstuvwxyzABCDEFGHIJKLMNOPQRSTUVWXYZ0123456789ab" + nl)
				for len(leaf.body) < size {
					leaf.body = append(leaf.body, line...)
				}
			}
			st.Inc("msg.big")
		}
		m.lit = root.render()
		root.r8expect(nil, m.expect, &m.paths)
		m.expect["-"] = m.lit
		st.Inc(fmt.Sprintf("msg.built.depth=%d", depth))
		st.Inc("msg.nl=" + strconv.Quote(nl))
	}
	return m
}

func r8genPath(r *Rng, m r8msg) []int {
	switch c := r.Intn(10); {
	case c < 1 || (len(m.paths) == 0 && c < 5):
		return nil
	case c < 7 && len(m.paths) > 0:
		return Pick(r, m.paths)
	case c == 7 && len(m.paths) > 0:
		// an existing path with one more component / last component off by one
		p := append([]int{}, Pick(r, m.paths)...)
		if r.Bool() {
			p[len(p)-1]++
		} else {
			p = append(p, r.Range(1, 2))
		}
		return p
	}
	n := r.Range(1, 3)
	p := make([]int, n)
	for i := range p {
		p[i] = Pick(r, []int{1, 1, 1, 2, 2, 3, 4, 0, -1, 2147483648, 4294967295})
	}
	return p
}

func r8expectWord(m r8msg, p []int) string {
	if e, ok := m.expect[r8showPath(p)]; ok {
		return r8hex(e)
	}
	return "?"
}

// r8genNames: the field list of a request against the header / message b (see d_rfc822_names.go).
func r8genNames(r *Rng, b []byte, headerOnly bool, st *Stats) [][]byte {
	return r8c13Requested(r, r8c13PresentNames(b, headerOnly), st)
}

// r8boundaryVal draws offsets/counts from the boundary values of a literal of length n. With raw=false the
// values stay in the range the command parser accepts since fix d71238c (ParseNumber: 0..2^32-1); with
// raw=true the whole int64 range including overflowing sums and negative numbers is used (the unexported
// WithPartial outside the parser's range: compared model against code only, not judged).
func r8boundaryVal(r *Rng, n int, raw, allowNeg bool) int64 {
	const maxU32 = int64(1<<32 - 1)
	vals := []int64{0, 1, int64(n) - 1, int64(n), int64(n) + 1, 2, int64(n / 2), 1 << 31, 1<<31 - 1, maxU32, maxU32 - 1, maxU32 - int64(n), maxU32 - int64(n/2)}
	if raw {
		const maxI = int64(1<<63 - 1)
		vals = append(vals, 1<<32, maxI, maxI-1, maxI-int64(n)+1, maxI-int64(n), maxI-int64(n/2))
		if allowNeg {
			vals = append(vals, -1, -maxI-1, -int64(n))
		}
	}
	v := Pick(r, vals)
	if !raw && v < 0 {
		v = 0
	}
	return v
}

func r8genPartial(r *Rng, n int, raw bool) (string, string) {
	if r.Chance(1, 3) {
		return "~", "~"
	}
	b := r8boundaryVal(r, n, raw, r.Chance(1, 8))
	if b < 0 && !r.Chance(1, 2) {
		b = 0
	}
	c := r8boundaryVal(r, n, raw, r.Chance(1, 10))
	if !raw && c < 1 {
		c = 1 // count is an nz-number
	}
	return strconv.FormatInt(b, 10), strconv.FormatInt(c, 10)
}

// ---- generators ------------------------------------------------------------------------------

func r8headerOf(r *Rng, m r8msg) []byte {
	// the header as the real Split sees it, or (sometimes) a raw prefix of the literal
	if r.Chance(1, 8) {
		return m.lit[:r.Intn(len(m.lit)+1)]
	}
	h, _ := rfc822.Split(m.lit)
	return h
}

func r8genHdr(r *Rng, n int, w io.Writer, st *Stats) {
	for i := 0; i < n; i++ {
		if r.Chance(1, 6) {
			h, names := r8c13ClusterHeader(r, Pick(r, []string{"\r\n", "\r\n", "\n"}), st)
			fmt.Fprintf(w, "rfc822-hdr %s %s\n", r8hex(h), r8hexList(names))
			continue
		}
		m := r8genMsg(r, st, false)
		h := r8headerOf(r, m)
		fmt.Fprintf(w, "rfc822-hdr %s %s\n", r8hex(h), r8hexList(r8genNames(r, h, false, st)))
	}
}

func r8genSect(r *Rng, n int, w io.Writer, st *Stats) {
	for i := 0; i < n; i++ {
		m := r8genMsg(r, st, n >= 20000 && i%2000 == 1999)
		p := r8genPath(r, m)
		st.Inc(fmt.Sprintf("sect.pathlen=%d", len(p)))
		fmt.Fprintf(w, "rfc822-sect %s %s %s %s\n", r8hex(m.lit), r8showPath(p), r8ctTable(m.lit), r8expectWord(m, p))
	}
}

func r8genSplice(r *Rng, n int, w io.Writer, st *Stats) {
	keys := []string{"X-Pm-Gluon-Id", "X-Pm-Gluon-Id", "X-Pm-Gluon-Id", "x-pm-gluon-id", "X-PM-GLUON-ID", "a", "", "bad key", "k\xffy", "x--y-", "-a-b", "Über"}
	for i := 0; i < n; i++ {
		m := r8genMsg(r, st, n >= 20000 && i%2000 == 1999)
		val := Pick(r, []string{"0a1b2c3d-0000-4000-8000-00000000002a", "", "v", "x y", "\xff"})
		fmt.Fprintf(w, "rfc822-splice %s %s %s\n", r8hex(m.lit), r8hex([]byte(Pick(r, keys))), r8hex([]byte(val)))
	}
}

func r8genPartialStream(name string, raw bool) func(r *Rng, n int, w io.Writer, st *Stats) {
	return func(r *Rng, n int, w io.Writer, st *Stats) {
		for i := 0; i < n; i++ {
			size := Pick(r, []int{0, 1, 2, 3, 5, 10, 64, 300})
			data := make([]byte, size)
			for k := range data {
				data[k] = byte(r.Intn(256))
			}
			b, c := r8genPartial(r, size, raw)
			sec := Pick(r, []string{"", "TEXT", "1.2.HEADER", "HEADER.FIELDS (A B)"})
			st.Inc(fmt.Sprintf("partial.size=%d", size))
			fmt.Fprintf(w, "%s %s %s %s %s\n", name, r8hex([]byte(sec)), r8hex(data), b, c)
		}
	}
}

var r8kinds = []string{"-", "-", "MIME", "HEADER", "TEXT", "FIELDS", "FIELDS.NOT", "RFC822", "RFC822.HEADER", "RFC822.TEXT"}

func r8genFetchSectStream(name string, raw bool) func(r *Rng, n int, w io.Writer, st *Stats) {
	return func(r *Rng, n int, w io.Writer, st *Stats) {
		for i := 0; i < n; i++ {
			m := r8genMsg(r, st, n >= 20000 && i%2000 == 1999)
			kind := Pick(r, r8kinds)
			p := r8genPath(r, m)
			names := "-"
			if strings.HasPrefix(kind, "FIELDS") && r.Chance(1, 5) {
				// a message whose field names are relatives of one name, asked for at the top level
				h, req := r8c13ClusterHeader(r, "\r\n", st)
				m = r8msg{lit: append(h, r8bodyGen(r, "\r\n", false)...)}
				p = nil
				b, c := r8genPartial(r, len(m.lit), raw)
				st.Inc("fetch.kind=" + kind)
				fmt.Fprintf(w, "%s %s - %s %s %s %s %s\n", name, r8hex(m.lit), kind, r8hexList(req), b, c, r8ctTable(m.lit))
				continue
			}
			if strings.HasPrefix(kind, "FIELDS") && r.Chance(1, 2) {
				p = nil // the top-level header: the one the judge has the reference selection for
			}
			b, c := "~", "~"
			switch {
			case strings.HasPrefix(kind, "RFC822"):
				p = nil
			case kind == "MIME" && len(p) == 0:
				kind = "HEADER" // BODY[MIME] does not parse without a part
			}
			if strings.HasPrefix(kind, "FIELDS") {
				names = r8hexList(r8genNames(r, m.lit, len(p) == 0 && r.Chance(3, 4), st))
			}
			if !strings.HasPrefix(kind, "RFC822") {
				b, c = r8genPartial(r, len(m.lit), raw)
			}
			st.Inc("fetch.kind=" + kind)
			fmt.Fprintf(w, "%s %s %s %s %s %s %s %s\n", name, r8hex(m.lit), r8showPath(p), kind, names, b, c, r8ctTable(m.lit))
		}
	}
}

func r8genFetchRel(r *Rng, n int, w io.Writer, st *Stats) {
	for i := 0; i < n; i++ {
		m := r8genMsg(r, st, n >= 20000 && i%2000 == 1999)
		p := r8genPath(r, m)
		fmt.Fprintf(w, "fetch-rel %s %s %s %s\n", r8hex(m.lit), r8showPath(p), r8ctTable(m.lit), r8expectWord(m, p))
	}
}

func init() {
	logrus.SetLevel(logrus.ErrorLevel) // Section.ContentType warns on every unparsable Content-Type
	Register(&Dialect{Name: "rfc822-hdr", Impl: r8implHdr, Gen: r8genHdr})
	Register(&Dialect{Name: "rfc822-sect", Impl: r8implSect, Gen: r8genSect})
	Register(&Dialect{Name: "rfc822-splice", Impl: r8implSplice, Gen: r8genSplice})
	Register(&Dialect{Name: "fetch-partial", Impl: r8implPartial, Gen: r8genPartialStream("fetch-partial", false)})
	Register(&Dialect{Name: "fetch-sect", Impl: r8implFetchSect, Gen: r8genFetchSectStream("fetch-sect", false)})
	// the same functions outside the parser's number range (int64 overflow, negative begin): model against code only
	Register(&Dialect{Name: "fetch-partial-raw", Impl: r8implPartial, Gen: r8genPartialStream("fetch-partial-raw", true)})
	Register(&Dialect{Name: "fetch-sect-raw", Impl: r8implFetchSect, Gen: r8genFetchSectStream("fetch-sect-raw", true)})
	Register(&Dialect{Name: "fetch-rel", Impl: r8implFetchRel, Gen: r8genFetchRel})
}
