package main

// Generators for the `parse` / `parsebad` dialects (C10, C11).
//
// genParseValid derives commands from the RFC 3501 / 2971 / 4315 / 6851 / 2177 / 3691 grammar subset
// gluon supports. Every production builds, side by side, the wire bytes (random encoding of each
// string argument as atom / quoted / literal where admissible, random letter case of keywords) and
// the canonical text of the abstract command that was written (the same text form the
// implementation runner and the Lean driver render from what was parsed).
//
// genParseBad mutates such commands (truncation, byte flips, oversized numbers, nesting, NUL / 8-bit /
// bare CR / LF, unterminated quoted strings, {0} and oversize literals, ...).

import (
	"bytes"
	"fmt"
	"io"
	"sort"
	"strconv"
	"strings"
	"time"
)

type pgen struct {
	r  *Rng
	st *Stats
	// maximal nesting depth of search keys
	maxDepth int
	// allowZeroLit: emit `{0}` for empty strings now and then
	allowZeroLit bool
	// deep: thorough tier, allow nesting depths in the thousands (#18; far below what overflows the Go stack)
	deep bool
	// allowLBracket: put '[' into atoms now and then (an ATOM-CHAR by RFC 3501, rejected by gluon)
	allowLBracket bool
	// features of the command under construction that are known to hit gluon defects:
	// listlit (list-mailbox as literal), lbr ('[' inside an atom)
	feats map[string]bool
	// knobs of the pipeline dialect (d_c10pipe.go); all off (zero) for parse / parsebad / parsen, whose random
	// streams they leave untouched:
	// litBias = per cent of the string arguments that are forced into the literal encoding;
	// sizes = lengths strVal draws from now and then (buffer-boundary lengths);
	// noListLit = never write a list-mailbox as a literal (known finding K-list-mailbox-literal: it would
	// desynchronise the rest of the stream)
	litBias   int
	sizes     []int
	noListLit bool
	// noLBrAtom = never write a value containing '[' as an atom (known finding K-lbracket-atom, same reason)
	noLBrAtom bool
}

func (g *pgen) feat(f string) {
	if g.feats == nil {
		g.feats = map[string]bool{}
	}
	g.feats[f] = true
}

func (g *pgen) featString() string {
	var out []string
	for f := range g.feats {
		out = append(out, f)
	}
	sort.Strings(out)
	return joinOr("-", out)
}

// noteAtom records that v went on the wire unquoted.
func (g *pgen) noteAtom(v []byte) []byte {
	if bytes.IndexByte(v, '[') >= 0 {
		g.feat("lbr")
	}
	return v
}

// atom characters by RFC 3501: any CHAR except atom-specials ( ) { SP CTL % * " \ ]
const atomAlphabet = "abcdefghijklmnopqrstuvwxyzABCDEFGHIJKLMNOPQRSTUVWXYZ0123456789-_.@=/+!#$&'<>?^|~:;,`}"

func (g *pgen) kw(s string) []byte {
	b := []byte(s)
	mode := g.r.Intn(4)
	for i, c := range b {
		isLetter := (c >= 'a' && c <= 'z') || (c >= 'A' && c <= 'Z')
		if !isLetter {
			continue
		}
		up := false
		switch mode {
		case 0:
			up = true
		case 1:
			up = false
		default:
			up = g.r.Bool()
		}
		if up {
			b[i] = c &^ 0x20
		} else {
			b[i] = c | 0x20
		}
	}
	return b
}

func (g *pgen) atomVal(minLen, maxLen int) []byte {
	n := g.r.Range(minLen, maxLen)
	b := make([]byte, n)
	for i := range b {
		b[i] = atomAlphabet[g.r.Intn(len(atomAlphabet))]
	}
	if g.allowLBracket && n > 0 && g.r.Chance(1, 250) {
		b[g.r.Intn(n)] = '['
	}
	return b
}

// strVal: a string value of a random flavour.
func (g *pgen) strVal() []byte {
	if len(g.sizes) > 0 && g.r.Chance(1, 4) {
		return g.sizedVal(Pick(g.r, g.sizes))
	}
	switch c := g.r.Intn(20); {
	case c < 8:
		return g.atomVal(1, 10)
	case c < 9:
		return nil
	case c < 14: // 7-bit text with spaces and specials
		const text = "abcXYZ019 ()[]{}%*\"\\]/.,-_@"
		n := g.r.Range(1, 16)
		b := make([]byte, n)
		for i := range b {
			b[i] = text[g.r.Intn(len(text))]
		}
		return b
	case c < 16: // 7-bit incl. TAB / DEL / controls but no NUL CR LF
		n := g.r.Range(1, 12)
		b := make([]byte, n)
		for i := range b {
			for {
				b[i] = byte(g.r.Range(1, 127))
				if b[i] != '\r' && b[i] != '\n' {
					break
				}
			}
		}
		return b
	default: // arbitrary bytes
		n := g.r.Range(1, 24)
		if g.r.Chance(1, 10) {
			n = g.r.Range(100, 400)
		}
		b := make([]byte, n)
		for i := range b {
			switch g.r.Intn(6) {
			case 0:
				b[i] = Pick(g.r, []byte{0, '\r', '\n', '"', '\\', '{', '}', 0x7f, 0x80, 0xff})
			default:
				b[i] = byte(g.r.Intn(256))
			}
		}
		return b
	}
}

// sizedVal: a value of exactly n bytes; letters only, 7-bit text, or arbitrary bytes (which must go on the wire as
// a literal). No long runs of one byte: a value that is overwritten or shifted shows.
func (g *pgen) sizedVal(n int) []byte {
	b := make([]byte, n)
	switch g.r.Intn(3) {
	case 0:
		for i := range b {
			b[i] = atomAlphabet[g.r.Intn(len(atomAlphabet))]
		}
	case 1:
		const text = "abcXYZ019 ()[]{}%*\"\\]/.,-_@"
		for i := range b {
			b[i] = text[g.r.Intn(len(text))]
		}
	default:
		for i := range b {
			b[i] = byte(g.r.Intn(256))
		}
	}
	return b
}

func isAtomSafe(v []byte, extra string) bool {
	if len(v) == 0 {
		return false
	}
	for _, c := range v {
		if strings.IndexByte(atomAlphabet, c) < 0 && strings.IndexByte(extra, c) < 0 {
			return false
		}
	}
	return true
}

func isQuotedSafe(v []byte) bool {
	for _, c := range v {
		if c == 0 || c == '\r' || c == '\n' || c >= 0x80 {
			return false
		}
	}
	return true
}

func (g *pgen) quoted(v []byte) []byte {
	out := []byte{'"'}
	for _, c := range v {
		if c == '"' || c == '\\' {
			out = append(out, '\\')
		}
		out = append(out, c)
	}
	g.st.Inc("enc.quoted")
	return append(out, '"')
}

func (g *pgen) literal(v []byte) []byte {
	g.st.Inc("enc.literal")
	if len(v) == 0 {
		g.st.Inc("enc.literal0")
	}
	return append([]byte(fmt.Sprintf("{%d}\r\n", len(v))), v...)
}

// stringEnc: `string = quoted / literal`
func (g *pgen) stringEnc(v []byte) []byte {
	if g.litBias > 0 && g.r.Intn(100) < g.litBias {
		return g.literal(v)
	}
	if len(v) == 0 {
		if g.allowZeroLit && g.r.Chance(1, 4) {
			return g.literal(v)
		}
		return g.quoted(v)
	}
	if isQuotedSafe(v) && g.r.Chance(2, 3) {
		return g.quoted(v)
	}
	return g.literal(v)
}

// astring: `astring = 1*ASTRING-CHAR / string` (ASTRING-CHAR = ATOM-CHAR / "]")
func (g *pgen) astring(v []byte) []byte {
	if g.litBias > 0 && g.r.Intn(100) < g.litBias {
		return g.literal(v)
	}
	extra := "]["
	if g.noLBrAtom {
		extra = "]"
	}
	if isAtomSafe(v, extra) && v[0] != '{' && g.r.Chance(2, 3) {
		g.st.Inc("enc.atom")
		return g.noteAtom(append([]byte(nil), v...))
	}
	return g.stringEnc(v)
}

// mailbox: `mailbox = "INBOX" / astring`; returns wire, canonical value
func (g *pgen) mailbox() ([]byte, []byte) {
	if g.r.Chance(1, 6) {
		w := g.kw("inbox")
		g.st.Inc("mailbox.inbox")
		return g.astring(w), []byte("INBOX")
	}
	v := g.strVal()
	if strings.EqualFold(string(v), "inbox") {
		v = []byte("INBOX")
	}
	return g.astring(v), v
}

// listMailbox: `list-mailbox = 1*list-char / string`
func (g *pgen) listMailbox() ([]byte, []byte) {
	if g.r.Chance(1, 2) {
		const listChars = atomAlphabet + "%*]"
		n := g.r.Range(1, 8)
		b := make([]byte, n)
		for i := range b {
			if g.r.Chance(1, 3) {
				b[i] = Pick(g.r, []byte{'%', '*'})
			} else {
				b[i] = listChars[g.r.Intn(len(listChars))]
			}
		}
		if g.allowLBracket && g.r.Chance(1, 250) {
			b[g.r.Intn(n)] = '['
		}
		return g.noteAtom(b), b
	}
	v := g.strVal()
	if g.noListLit {
		if !isQuotedSafe(v) {
			v = g.atomVal(1, 6)
		}
		return g.quoted(v), v
	}
	// a list-mailbox written as a literal is valid syntax but misparsed by gluon: keep it rare
	if !isQuotedSafe(v) && !g.r.Chance(1, 12) {
		v = g.atomVal(1, 6)
	}
	w := g.stringEnc(v)
	if isQuotedSafe(v) && !g.r.Chance(1, 12) {
		w = g.quoted(v)
	}
	if w[0] == '{' {
		g.feat("listlit")
	}
	return w, v
}

func (g *pgen) tag() []byte {
	const tagChars = "abcdefghijklmnopqrstuvwxyzABCDEFGHIJKLMNOPQRSTUVWXYZ0123456789-_.@=/!#$&'<>?^|~:;,`}]"
	n := g.r.Range(1, 6)
	for {
		b := make([]byte, n)
		for i := range b {
			b[i] = tagChars[g.r.Intn(len(tagChars))]
		}
		if g.allowLBracket && g.r.Chance(1, 300) {
			b[g.r.Intn(n)] = '['
		}
		if !strings.EqualFold(string(b), "done") {
			return g.noteAtom(b)
		}
	}
}

// number (RFC: unsigned 32 bit); returns wire (maybe with leading zeros) and value
func (g *pgen) number(allowLeadingZeros bool) ([]byte, uint64) {
	var v uint64
	switch g.r.Intn(5) {
	case 0:
		v = uint64(g.r.Intn(10))
	case 1:
		v = uint64(g.r.Intn(1000))
	case 2:
		v = uint64(g.r.U64() % (1 << 32))
	case 3:
		v = Pick(g.r, []uint64{0, 1, 9, 10, 4294967295, 4294967294, 2147483647, 2147483648})
	default:
		v = uint64(g.r.Intn(100000))
	}
	s := strconv.FormatUint(v, 10)
	if allowLeadingZeros && g.r.Chance(1, 10) {
		s = strings.Repeat("0", g.r.Range(1, 3)) + s
	}
	return []byte(s), v
}

func (g *pgen) nzNumber() ([]byte, uint64) {
	for {
		w, v := g.number(false)
		if v != 0 {
			return w, v
		}
	}
}

func (g *pgen) seqNum() ([]byte, string) {
	if g.r.Chance(1, 5) {
		return []byte("*"), "*"
	}
	w, v := g.nzNumber()
	return w, strconv.FormatUint(v, 10)
}

func (g *pgen) seqSet() ([]byte, string) {
	n := Pick(g.r, []int{1, 1, 1, 2, 3, 5})
	var w []byte
	var c []string
	for i := 0; i < n; i++ {
		if i > 0 {
			w = append(w, ',')
		}
		bw, bc := g.seqNum()
		w = append(w, bw...)
		if g.r.Chance(1, 2) {
			ew, ec := g.seqNum()
			w = append(w, ':')
			w = append(w, ew...)
			c = append(c, bc+":"+ec)
		} else {
			c = append(c, bc+":"+bc)
		}
	}
	return w, strings.Join(c, ",")
}

var systemFlags = []string{`\Answered`, `\Flagged`, `\Deleted`, `\Seen`, `\Draft`}

func (g *pgen) flag() []byte {
	switch g.r.Intn(4) {
	case 0, 1:
		return g.kw(Pick(g.r, systemFlags))
	case 2:
		return g.noteAtom(g.atomVal(1, 8)) // flag-keyword
	default:
		for {
			a := g.atomVal(1, 8) // flag-extension
			if !strings.EqualFold(string(a), "recent") {
				return append([]byte{'\\'}, g.noteAtom(a)...)
			}
		}
	}
}

func (g *pgen) flags(minN int) ([][]byte, []byte) {
	n := g.r.Range(minN, 4)
	var fl [][]byte
	var w []byte
	for i := 0; i < n; i++ {
		f := g.flag()
		if i > 0 {
			w = append(w, ' ')
		}
		w = append(w, f...)
		fl = append(fl, f)
	}
	return fl, w
}

func showBL(l [][]byte) string {
	var out []string
	for _, b := range l {
		out = append(out, hexB(b))
	}
	return joinOr("-", out)
}

var monthNames = []string{"Jan", "Feb", "Mar", "Apr", "May", "Jun", "Jul", "Aug", "Sep", "Oct", "Nov", "Dec"}

func daysIn(month, year int) int {
	return time.Date(year, time.Month(month)+1, 0, 0, 0, 0, 0, time.UTC).Day()
}

// date: `date = date-text / DQUOTE date-text DQUOTE`, date-day = 1*2DIGIT
func (g *pgen) date() ([]byte, string) {
	year := Pick(g.r, []int{1970, 1999, 2000, 2024, g.r.Range(1000, 9999), g.r.Range(1900, 2100)})
	month := g.r.Range(1, 12)
	day := g.r.Range(1, daysIn(month, year))
	ds := strconv.Itoa(day)
	if day < 10 && g.r.Bool() {
		ds = "0" + ds
	}
	s := fmt.Sprintf("%s-%s-%04d", ds, g.kw(monthNames[month-1]), year)
	if g.r.Bool() {
		s = `"` + s + `"`
	}
	t := time.Date(year, time.Month(month), day, 0, 0, 0, 0, time.UTC)
	return []byte(s), strconv.FormatInt(t.Unix(), 10)
}

// dateTime: DQUOTE date-day-fixed "-" date-month "-" date-year SP time SP zone DQUOTE
func (g *pgen) dateTime() ([]byte, string) {
	year := Pick(g.r, []int{1970, 1999, 2000, 2024, g.r.Range(1000, 9999), g.r.Range(1900, 2100)})
	month := g.r.Range(1, 12)
	day := g.r.Range(1, daysIn(month, year))
	ds := fmt.Sprintf("%2d", day)
	if day < 10 && g.r.Bool() {
		ds = fmt.Sprintf("%02d", day)
	}
	h, m, s := g.r.Intn(24), g.r.Intn(60), g.r.Intn(60)
	zh, zm := g.r.Intn(15), Pick(g.r, []int{0, 0, 30, 45, g.r.Intn(60)})
	sign := 1
	sc := "+"
	if g.r.Bool() {
		sign = -1
		sc = "-"
	}
	off := sign * (zh*3600 + zm*60)
	w := fmt.Sprintf(`"%s-%s-%04d %02d:%02d:%02d %s%02d%02d"`, ds, g.kw(monthNames[month-1]), year, h, m, s, sc, zh, zm)
	t := time.Date(year, time.Month(month), day, h, m, s, 0, time.FixedZone("zone", off))
	return []byte(w), fmt.Sprintf("%dz%d", t.Unix(), off)
}

func (g *pgen) headerList() ([]byte, string) {
	n := g.r.Range(1, 4)
	w := []byte{'('}
	var c []string
	for i := 0; i < n; i++ {
		if i > 0 {
			w = append(w, ' ')
		}
		var v []byte
		if g.r.Chance(3, 4) {
			v = []byte(Pick(g.r, []string{"Subject", "From", "To", "Date", "Message-ID", "X-Custom", "Content-Type"}))
		} else {
			v = g.strVal()
		}
		w = append(w, g.astring(v)...)
		c = append(c, hexB(v))
	}
	return append(w, ')'), strings.Join(c, ",")
}

// sectionText: section-msgtext (and MIME when under a part)
func (g *pgen) sectionText(underPart bool) ([]byte, string) {
	n := 4
	if underPart {
		n = 5
	}
	switch g.r.Intn(n) {
	case 0:
		return g.kw("HEADER"), "header"
	case 1:
		hw, hc := g.headerList()
		return append(append(g.kw("HEADER.FIELDS"), ' '), hw...), "hf(" + hc + ")"
	case 2:
		hw, hc := g.headerList()
		return append(append(g.kw("HEADER.FIELDS.NOT"), ' '), hw...), "hfn(" + hc + ")"
	case 3:
		return g.kw("TEXT"), "text"
	default:
		return g.kw("MIME"), "mime"
	}
}

func (g *pgen) section() ([]byte, string) {
	switch g.r.Intn(3) {
	case 0:
		return nil, ""
	case 1:
		return g.sectionText(false)
	default:
		n := g.r.Range(1, 4)
		var w []byte
		var c []string
		for i := 0; i < n; i++ {
			if i > 0 {
				w = append(w, '.')
			}
			nw, nv := g.nzNumber()
			w = append(w, nw...)
			c = append(c, strconv.FormatUint(nv, 10))
		}
		if g.r.Bool() {
			tw, tc := g.sectionText(true)
			w = append(append(w, '.'), tw...)
			return w, "part(" + strings.Join(c, ".") + "/" + tc + ")"
		}
		return w, "part(" + strings.Join(c, ".") + "/)"
	}
}

func (g *pgen) fetchAtt() ([]byte, string) {
	simple := []string{"ENVELOPE", "FLAGS", "INTERNALDATE", "RFC822", "RFC822.HEADER", "RFC822.SIZE", "RFC822.TEXT", "BODY", "BODYSTRUCTURE", "UID"}
	if g.r.Chance(1, 2) {
		s := Pick(g.r, simple)
		return g.kw(s), strings.ToLower(s)
	}
	w := g.kw("BODY")
	c := "b["
	if g.r.Bool() {
		w = g.kw("BODY.PEEK")
		c = "p["
	}
	sw, sc := g.section()
	w = append(append(append(w, '['), sw...), ']')
	c += sc + "]"
	if g.r.Chance(1, 3) {
		ow, ov := g.number(true)
		cw, cv := g.nzNumber()
		w = append(w, '<')
		w = append(w, ow...)
		w = append(w, '.')
		w = append(w, cw...)
		w = append(w, '>')
		c += fmt.Sprintf("<%d.%d>", ov, cv)
	}
	return w, c
}

var searchSimple = []string{"ALL", "ANSWERED", "DELETED", "FLAGGED", "NEW", "OLD", "RECENT", "SEEN", "UNANSWERED", "UNDELETED", "UNFLAGGED", "UNSEEN", "DRAFT", "UNDRAFT"}
var searchString = []string{"BCC", "BODY", "CC", "FROM", "SUBJECT", "TEXT", "TO"}
var searchDate = []string{"BEFORE", "ON", "SINCE", "SENTBEFORE", "SENTON", "SENTSINCE"}

func (g *pgen) searchKey(depth int) ([]byte, string) {
	c := g.r.Intn(20)
	if depth >= g.maxDepth && c >= 14 {
		c = g.r.Intn(14)
	}
	switch {
	case c < 3:
		s := Pick(g.r, searchSimple)
		return g.kw(s), strings.ToLower(s)
	case c < 7:
		s := Pick(g.r, searchString)
		v := g.strVal()
		return append(append(g.kw(s), ' '), g.astring(v)...), strings.ToLower(s) + "(" + hexB(v) + ")"
	case c < 9:
		s := Pick(g.r, searchDate)
		dw, dc := g.date()
		return append(append(g.kw(s), ' '), dw...), strings.ToLower(s) + "(" + dc + ")"
	case c < 10:
		s := Pick(g.r, []string{"KEYWORD", "UNKEYWORD"})
		v := g.noteAtom(g.atomVal(1, 8))
		return append(append(g.kw(s), ' '), v...), strings.ToLower(s) + "(" + hexB(v) + ")"
	case c < 11:
		f, v := g.strVal(), g.strVal()
		w := append(append(g.kw("HEADER"), ' '), g.astring(f)...)
		w = append(append(w, ' '), g.astring(v)...)
		return w, "header(" + hexB(f) + "," + hexB(v) + ")"
	case c < 12:
		s := Pick(g.r, []string{"LARGER", "SMALLER"})
		nw, nv := g.number(true)
		return append(append(g.kw(s), ' '), nw...), fmt.Sprintf("%s(%d)", strings.ToLower(s), nv)
	case c < 13:
		sw, sc := g.seqSet()
		return append(append(g.kw("UID"), ' '), sw...), "uid(" + sc + ")"
	case c < 14:
		sw, sc := g.seqSet()
		return sw, "seq(" + sc + ")"
	case c < 16:
		kw, kc := g.searchKey(depth + 1)
		return append(append(g.kw("NOT"), ' '), kw...), "not(" + kc + ")"
	case c < 18:
		aw, ac := g.searchKey(depth + 1)
		bw, bc := g.searchKey(depth + 1)
		w := append(append(g.kw("OR"), ' '), aw...)
		w = append(append(w, ' '), bw...)
		return w, "or(" + ac + "," + bc + ")"
	default:
		n := g.r.Range(1, 3)
		w := []byte{'('}
		var cs []string
		for i := 0; i < n; i++ {
			if i > 0 {
				w = append(w, ' ')
			}
			kw, kc := g.searchKey(depth + 1)
			w = append(w, kw...)
			cs = append(cs, kc)
		}
		return append(w, ')'), "list(" + strings.Join(cs, ",") + ")"
	}
}

// command: wire bytes after the tag+SP (without CRLF) and canonical payload
func (g *pgen) command(name string) ([]byte, string) {
	sp := func(parts ...[]byte) []byte { return bytes.Join(parts, []byte{' '}) }
	switch name {
	case "CAPABILITY", "IDLE", "NOOP", "LOGOUT", "CHECK", "CLOSE", "EXPUNGE", "UNSELECT", "STARTTLS":
		return g.kw(name), strings.ToLower(name)
	case "LOGIN":
		u, p := g.strVal(), g.strVal()
		return sp(g.kw(name), g.astring(u), g.astring(p)), "login(" + hexB(u) + "," + hexB(p) + ")"
	case "SELECT", "EXAMINE", "CREATE", "DELETE", "SUBSCRIBE", "UNSUBSCRIBE":
		w, v := g.mailbox()
		return sp(g.kw(name), w), strings.ToLower(name) + "(" + hexB(v) + ")"
	case "RENAME":
		aw, av := g.mailbox()
		bw, bv := g.mailbox()
		return sp(g.kw(name), aw, bw), "rename(" + hexB(av) + "," + hexB(bv) + ")"
	case "LIST", "LSUB":
		mw, mv := g.mailbox()
		lw, lv := g.listMailbox()
		return sp(g.kw(name), mw, lw), strings.ToLower(name) + "(" + hexB(mv) + "," + hexB(lv) + ")"
	case "STATUS":
		mw, mv := g.mailbox()
		atts := []string{"MESSAGES", "RECENT", "UIDNEXT", "UIDVALIDITY", "UNSEEN"}
		n := g.r.Range(1, 5)
		var ws [][]byte
		var cs []string
		for i := 0; i < n; i++ {
			a := Pick(g.r, atts)
			ws = append(ws, g.kw(a))
			cs = append(cs, strings.ToLower(a))
		}
		w := sp(g.kw(name), mw, append(append([]byte{'('}, sp(ws...)...), ')'))
		return w, "status(" + hexB(mv) + ";" + strings.Join(cs, ",") + ")"
	case "STORE":
		sw, sc := g.seqSet()
		act, item := Pick(g.r, []string{"add", "rem", "set"}), ""
		switch act {
		case "add":
			item = "+"
		case "rem":
			item = "-"
		}
		item += "FLAGS"
		silent := g.r.Bool()
		if silent {
			item += ".SILENT"
		}
		var fw []byte
		var fl [][]byte
		if g.r.Bool() {
			fl, fw = g.flags(0)
			fw = append(append([]byte{'('}, fw...), ')')
		} else {
			fl, fw = g.flags(1)
		}
		return sp(g.kw(name), sw, g.kw(item), fw), "store(" + sc + ";" + act + ";" + b2s(silent) + ";" + showBL(fl) + ")"
	case "COPY", "MOVE":
		sw, sc := g.seqSet()
		mw, mv := g.mailbox()
		return sp(g.kw(name), sw, mw), strings.ToLower(name) + "(" + sc + ";" + hexB(mv) + ")"
	case "UID":
		sub := Pick(g.r, []string{"COPY", "MOVE", "FETCH", "STORE", "SEARCH", "EXPUNGE"})
		if sub == "EXPUNGE" {
			sw, sc := g.seqSet()
			return sp(g.kw("UID"), g.kw("EXPUNGE"), sw), "uidexpunge(" + sc + ")"
		}
		w, c := g.command(sub)
		return sp(g.kw("UID"), w), "uid(" + c + ")"
	case "FETCH":
		sw, sc := g.seqSet()
		if g.r.Chance(1, 6) {
			m := Pick(g.r, []string{"ALL", "FULL", "FAST"})
			return sp(g.kw(name), sw, g.kw(m)), "fetch(" + sc + ";" + strings.ToLower(m) + ")"
		}
		if g.r.Chance(1, 3) {
			aw, ac := g.fetchAtt()
			return sp(g.kw(name), sw, aw), "fetch(" + sc + ";" + ac + ")"
		}
		n := g.r.Range(1, 5)
		var ws [][]byte
		var cs []string
		for i := 0; i < n; i++ {
			aw, ac := g.fetchAtt()
			ws = append(ws, aw)
			cs = append(cs, ac)
		}
		return sp(g.kw(name), sw, append(append([]byte{'('}, sp(ws...)...), ')')), "fetch(" + sc + ";" + strings.Join(cs, ",") + ")"
	case "APPEND":
		mw, mv := g.mailbox()
		parts := [][]byte{g.kw(name), mw}
		fc := "-"
		if g.r.Bool() {
			fl, fw := g.flags(0)
			parts = append(parts, append(append([]byte{'('}, fw...), ')'))
			fc = showBL(fl)
		}
		dc := "none"
		if g.r.Bool() {
			dw, dcc := g.dateTime()
			parts = append(parts, dw)
			dc = dcc
		}
		var lit []byte
		for len(lit) == 0 {
			lit = g.strVal()
		}
		if g.r.Chance(1, 3) {
			lit = []byte("Date: Mon, 7 Feb 1994 21:52:25 -0800 (PST)\r\nFrom: Fred Foobar <foobar@example.com>\r\nSubject: x\r\n\r\nHello\r\n")
		}
		if g.allowZeroLit && g.r.Chance(1, 12) {
			lit = nil
		}
		parts = append(parts, g.literal(lit))
		return sp(parts...), "append(" + hexB(mv) + ";" + fc + ";" + dc + ";" + hexB(lit) + ")"
	case "SEARCH":
		parts := [][]byte{g.kw(name)}
		cs := "~"
		if g.r.Chance(1, 4) {
			v := []byte(Pick(g.r, []string{"UTF-8", "US-ASCII", "utf-8", "ISO-8859-1"}))
			if g.r.Chance(1, 4) {
				v = g.strVal()
			}
			parts = append(parts, g.kw("CHARSET"), g.astring(v))
			cs = hexB(v)
		}
		n := g.r.Range(1, 4)
		var kc []string
		for i := 0; i < n; i++ {
			w, c := g.searchKey(0)
			parts = append(parts, w)
			kc = append(kc, c)
		}
		return sp(parts...), "search(" + cs + ";" + strings.Join(kc, ",") + ")"
	case "ID":
		if g.r.Chance(1, 3) {
			return sp(g.kw(name), g.kw("NIL")), "idget"
		}
		n := g.r.Range(0, 4)
		vals := map[string]string{}
		var ws [][]byte
		for i := 0; i < n; i++ {
			k := g.strVal()
			if g.r.Chance(2, 3) {
				k = []byte(Pick(g.r, []string{"name", "version", "os", "vendor", "support-url"}))
			}
			ws = append(ws, g.stringEnc(k))
			if g.r.Chance(1, 4) {
				ws = append(ws, g.kw("NIL"))
				vals[string(k)] = ""
			} else {
				v := g.strVal()
				ws = append(ws, g.stringEnc(v))
				vals[string(k)] = string(v)
			}
		}
		var out []string
		for k, v := range vals {
			out = append(out, hexS(k)+"="+hexS(v))
		}
		sort.Strings(out)
		return sp(g.kw(name), append(append([]byte{'('}, sp(ws...)...), ')')), "idset(" + joinOr("-", out) + ")"
	}
	panic("unknown command " + name)
}

var allCommands = []string{
	"CAPABILITY", "IDLE", "NOOP", "LOGOUT", "CHECK", "CLOSE", "EXPUNGE", "UNSELECT", "STARTTLS",
	"LOGIN", "SELECT", "EXAMINE", "CREATE", "DELETE", "SUBSCRIBE", "UNSUBSCRIBE", "RENAME", "LIST", "LSUB",
	"STATUS", "STORE", "COPY", "MOVE", "UID", "FETCH", "APPEND", "SEARCH", "ID", "DONE",
}

// line: one complete command line (with CRLF) and its canonical AST `tag:payload`
func (g *pgen) line() (string, []byte, string) {
	g.feats = nil
	name := Pick(g.r, allCommands)
	// weight the structured commands
	if g.r.Chance(1, 2) {
		name = Pick(g.r, []string{"FETCH", "SEARCH", "STORE", "APPEND", "UID", "LOGIN", "STATUS", "LIST", "ID", "RENAME"})
	}
	if name == "DONE" {
		return name, append(g.kw("DONE"), '\r', '\n'), "~:done"
	}
	tag := g.tag()
	w, c := g.command(name)
	wire := append(append(append([]byte(nil), tag...), ' '), w...)
	wire = append(wire, '\r', '\n')
	return name, wire, hexB(tag) + ":" + c
}

func genParseValid(r *Rng, n int, w io.Writer, st *Stats) {
	// NewRng(seed+1) is NewRng(seed) shifted by one draw (splitmix64 adds the same constant per step and
	// per seed); Fork() starts from a mixed state, so that different seeds give unrelated streams.
	r = r.Fork()
	g := &pgen{r: r, st: st, maxDepth: 4, allowZeroLit: true, allowLBracket: true}
	if n > 50000 {
		g.maxDepth = 40
	}
	for i := 0; i < n; i++ {
		name, wire, canon := g.line()
		feats := g.featString()
		// a few bytes of the next command may already be in the stream
		if r.Chance(1, 4) {
			_, next, _ := g.line()
			wire = append(wire, next[:r.Intn(len(next)+1)]...)
		}
		st.Inc("cmd." + name)
		if feats != "-" {
			st.Inc("with." + feats)
		}
		fmt.Fprintf(w, "parse %d %s %s %s\n", r.U64()%1000000, hexB(wire), canon, feats)
	}
}

// ---------------------------------------------------------------------------------------------
// malformed streams (C11)

func (g *pgen) mutate(wire []byte) (string, []byte) {
	r := g.r
	cp := func(b []byte) []byte { return append([]byte(nil), b...) }
	insertAt := func(b []byte, pos int, ins []byte) []byte {
		out := append([]byte(nil), b[:pos]...)
		out = append(out, ins...)
		return append(out, b[pos:]...)
	}
	switch c := r.Intn(20); {
	case c < 4: // truncation
		return "truncate", cp(wire[:r.Intn(len(wire)+1)])
	case c < 7: // byte flips
		b := cp(wire)
		for k := r.Range(1, 3); k > 0 && len(b) > 0; k-- {
			b[r.Intn(len(b))] = byte(r.Intn(256))
		}
		return "flip", b
	case c < 10: // insert a special byte
		ins := Pick(r, [][]byte{{0}, {0x80}, {0xff}, {'\r'}, {'\n'}, {'"'}, {'\\'}, {'{'}, {'}'}, {'('}, {')'}, {'['}, {']'}, {' '}, {' ', ' '}, {'\t'}, {0x7f}, {'\r', '\n'}, {'*'}, {'%'}, {'+'}, {'<'}, {'>'}, {'.'}, {':'}, {','}})
		return "insert", insertAt(wire, r.Intn(len(wire)+1), ins)
	case c < 11: // delete a byte
		if len(wire) == 0 {
			return "delete", nil
		}
		p := r.Intn(len(wire))
		return "delete", append(cp(wire[:p]), wire[p+1:]...)
	case c < 13: // oversized number in place of a digit run
		big := Pick(r, []string{"4294967296", "9223372036854775807", "9223372036854775808", "18446744073709551615", "18446744073709551616", "18446744073709551617", "99999999999999999999999999999999", "0", "00000000000000000000000000000001"})
		for i := 0; i < len(wire); i++ {
			if wire[i] >= '0' && wire[i] <= '9' && r.Chance(1, 2) {
				j := i
				for j < len(wire) && wire[j] >= '0' && wire[j] <= '9' {
					j++
				}
				return "bignum", append(append(cp(wire[:i]), big...), wire[j:]...)
			}
		}
		return "bignum", append([]byte("a FETCH "+big+" (UID BODY[]<"+big+"."+big+">)"), '\r', '\n')
	case c < 14: // end of input inside a quoted string / quoted string over CRLF (#7)
		switch r.Intn(4) {
		case 0:
			return "quote-eof", []byte(`a LOGIN "abc`)
		case 1:
			return "quote-eof", []byte("a LOGIN \"foo\r\nb NOOP\r\n")
		case 2:
			return "quote-eof", append(cp(wire[:r.Intn(len(wire)+1)]), '"')
		default:
			return "quote-eof", []byte(`a LOGIN "abc\`)
		}
	case c < 16: // literal corner cases (#17)
		lit := Pick(r, []string{"{0}", "{31457280}", "{31457279}", "{99999999999999999999}", "{9223372036854775808}", "{18446744073709551617}", "{5+}", "{-1}", "{}", "{5", "{5}", "{5}\r", "{5}\rX", "{5}\n", "{1}", "{3}"})
		tail := Pick(r, []string{"\r\n", "\r\nab", "\r\nabcde pass\r\n", "", "\r\n\r\n"})
		pre := Pick(r, []string{"a LOGIN ", "a LOGIN x ", "a APPEND INBOX ", "a SELECT ", "a SEARCH SUBJECT ", "a ID (\"k\" "})
		return "literal", []byte(pre + lit + tail)
	case c < 17: // nesting
		depth := Pick(r, []int{1, 2, 5, 20, 100, 300})
		if g.deep && r.Chance(1, 4) {
			depth = Pick(r, []int{1000, 3000})
		}
		switch r.Intn(4) {
		case 0:
			return "nest", []byte("a SEARCH " + strings.Repeat("(", depth) + "ALL" + strings.Repeat(")", depth) + "\r\n")
		case 1:
			return "nest", []byte("a SEARCH " + strings.Repeat("(", depth))
		case 2:
			return "nest", []byte("a SEARCH " + strings.Repeat("NOT ", depth) + "SEEN\r\n")
		default:
			return "nest", []byte("a SEARCH " + strings.Repeat("OR ", depth) + strings.Repeat("SEEN ", depth) + "SEEN\r\n")
		}
	case c < 18: // garbage
		b := make([]byte, r.Range(0, 40))
		for i := range b {
			b[i] = byte(r.Intn(256))
		}
		if r.Bool() {
			b = append([]byte{0x16, 0x03, 0x01}, b...)
		}
		return "garbage", b
	case c < 19: // line ending variants
		b := bytes.TrimSuffix(wire, []byte("\r\n"))
		return "eol", append(cp(b), Pick(r, []string{"\n", "\r", "\r\r\n", " \r\n", "\r\n\r\n", "\n\r"})...)
	default: // splice two commands
		_, other, _ := g.line()
		return "splice", append(cp(wire[:r.Intn(len(wire)+1)]), other[r.Intn(len(other)+1):]...)
	}
}

func genParseBad(r *Rng, n int, w io.Writer, st *Stats) {
	r = r.Fork() // see genParseValid
	g := &pgen{r: r, st: &Stats{Counts: map[string]int{}}, maxDepth: 3, allowZeroLit: true, deep: n > 50000}
	emit := func(kind string, b []byte) {
		st.Inc("mut." + kind)
		fmt.Fprintf(w, "parsebad %d %s ? %s\n", r.U64()%1000000, hexB(b), kind)
	}
	i := 0
	// the fixed reproducers of the known defects first (#7, #17), then every truncation of a few commands
	for _, s := range []string{"a LOGIN \"abc", "a LOGIN \"foo\r\nb NOOP\r\n", "a LOGIN {0}\r\n", "a LOGIN {31457280}\r\n", "a LOGIN {1}\r\n"} {
		emit("fixed", []byte(s))
		i++
	}
	for k := 0; k < 6 && i < n; k++ {
		_, wire, _ := g.line()
		for cut := 0; cut <= len(wire) && i < n; cut++ {
			emit("truncate-all", wire[:cut])
			i++
		}
	}
	for i < n {
		_, wire, _ := g.line()
		kind, b := g.mutate(wire)
		if r.Chance(1, 8) {
			_, b = g.mutate(b)
			kind += "+"
		}
		emit(kind, b)
		i++
	}
}

// genParseN: streams of several command lines — valid ones and mutated ones mixed — for the reader loop
// (dialect `parsen`).
func genParseN(r *Rng, n int, w io.Writer, st *Stats) {
	r = r.Fork()
	g := &pgen{r: r, st: &Stats{Counts: map[string]int{}}, maxDepth: 3, allowZeroLit: true}
	for i := 0; i < n; i++ {
		k := r.Range(1, 5)
		var stream []byte
		bad := 0
		for j := 0; j < k; j++ {
			_, wire, _ := g.line()
			if r.Chance(1, 3) {
				_, wire = g.mutate(wire)
				bad++
			}
			stream = append(stream, wire...)
		}
		if r.Chance(1, 6) {
			stream = stream[:r.Intn(len(stream)+1)]
		}
		st.Inc(fmt.Sprintf("lines.%d.mutated.%d", k, bad))
		fmt.Fprintf(w, "parsen %d %s\n", r.U64()%1000000, hexB(stream))
	}
}
