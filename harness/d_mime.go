package main

// Dialects `mime-scan`, `mime-split`, `mime-walk` (C12): the real rfc822.ByteScanner / Split /
// Parse+Walk against the Lean model GluonModel/Model/MimeScan.lean (index ranges), plus the
// message generators shared with the `mime-struct` dialect and the c12structure oracle.

import (
	"bytes"
	"encoding/hex"
	"fmt"
	"io"
	"sort"
	"strings"

	"github.com/ProtonMail/gluon/rfc822"
)

func mimeHex(b []byte) string {
	if len(b) == 0 {
		return "-"
	}
	return hex.EncodeToString(b)
}

func mimeUnhex(s string) []byte {
	if s == "-" {
		return []byte{}
	}
	b, err := hex.DecodeString(s)
	if err != nil {
		panic("bad hex " + s)
	}
	return b
}

// ---------------------------------------------------------------------------------------------
// mime-scan / mime-split

func implMimeScan(args []string) (out string) {
	if len(args) != 2 {
		return "bad-op"
	}
	data, bnd := mimeUnhex(args[0]), mimeUnhex(args[1])
	defer func() {
		if p := recover(); p != nil {
			out = "panic"
		}
	}()
	sc, err := rfc822.NewByteScanner(data, bnd)
	if err != nil {
		return "err"
	}
	parts := sc.ScanAll()
	if len(parts) == 0 {
		return "ok -"
	}
	var sb []string
	for _, p := range parts {
		// p.Data is a sub-slice of data: its start is cap(data)-cap(p.Data)
		sb = append(sb, fmt.Sprintf("%d:%d:%d", p.Offset, cap(data)-cap(p.Data), len(p.Data)))
	}
	return "ok " + strings.Join(sb, ";")
}

func implMimeSplit(args []string) (out string) {
	if len(args) != 1 {
		return "bad-op"
	}
	data := mimeUnhex(args[0])
	defer func() {
		if p := recover(); p != nil {
			out = "panic"
		}
	}()
	h, b := rfc822.Split(data)
	return fmt.Sprintf("ok %d %d", len(h), len(b))
}

var mimeScanPieces = []string{"\r\n", "\n", "\r", "-", "--", "x", "ab", " ", "\t", "\r\r\n", "\n\n", "b", ":"}

// mimeGenScanData: soup of line breaks, dashes and boundary-like pieces around `bnd`.
func mimeGenScanData(r *Rng, bnd string) []byte {
	var b bytes.Buffer
	n := Pick(r, []int{0, 1, 2, 3, 5, 8, 13, 21, 34})
	for i := 0; i < n; i++ {
		switch c := r.Intn(12); {
		case c < 3:
			b.WriteString("--" + bnd)
		case c < 4:
			b.WriteString("--" + bnd + "--")
		case c < 5:
			b.WriteString("\r\n--" + bnd + "\r\n")
		case c < 6:
			b.WriteString("\n--" + bnd + "--\n")
		case c < 7 && len(bnd) > 0:
			b.WriteString("--" + bnd[:r.Intn(len(bnd))]) // truncated boundary
		default:
			b.WriteString(Pick(r, mimeScanPieces))
		}
	}
	return b.Bytes()
}

func genMimeScan(r *Rng, n int, w io.Writer, st *Stats) {
	r = r.Fork() // NewRng(seed+1) is NewRng(seed) advanced by one draw: decorrelate the seeds
	mimeQuietLogs()
	bnds := []string{"", "b", "-", "--", "ab", "x-y", "bb", "b\r", "\n"}
	for i := 0; i < n; i++ {
		bnd := Pick(r, bnds)
		var data []byte
		switch c := r.Intn(10); {
		case r.Chance(1, 60): // boundary length / number of parts on the marks of d_mimedeep.go
			sp := c12ScanShape(r)
			t := c12ShapeTree(sp)
			data, bnd = t.renderBody("\r\n"), t.boundary
			st.Inc("mime-scan.shape." + sp.kind)
		case c < 6:
			data = mimeGenScanData(r, bnd)
			st.Inc("mime-scan.soup")
		case c < 8: // rendered multipart body
			m := mimeGenTree(r, 2, true)
			data = m.renderBody(mimeEol(r))
			bnd = m.boundary
			st.Inc("mime-scan.rendered")
		default: // tiny alphabet, exhaustive-ish
			k := r.Intn(10)
			for j := 0; j < k; j++ {
				data = append(data, Pick(r, []byte{'-', 'b', '\r', '\n', 'x'}))
			}
			bnd = Pick(r, []string{"", "b", "-"})
			st.Inc("mime-scan.tiny")
		}
		st.Inc(fmt.Sprintf("mime-scan.bndlen=%d", min(len(bnd), 8)))
		fmt.Fprintf(w, "mime-scan %s %s\n", mimeHex(data), mimeHex([]byte(bnd)))
	}
}

func genMimeSplit(r *Rng, n int, w io.Writer, st *Stats) {
	r = r.Fork() // NewRng(seed+1) is NewRng(seed) advanced by one draw: decorrelate the seeds
	dir := c12SplitDirected()
	for i := 0; i < n; i++ {
		var data []byte
		if i < len(dir) {
			data = dir[i]
			st.Inc("mime-split.shape-directed")
		} else if r.Chance(1, 2) {
			k := Pick(r, []int{0, 1, 2, 3, 5, 8, 13})
			for j := 0; j < k; j++ {
				data = append(data, Pick(r, []string{"\r\n", "\n", "\r", "a: b", " ", "x", "\r\r\n", ":"})...)
			}
			st.Inc("mime-split.soup")
		} else {
			data = mimeGenMessage(r, st, "mime-split")
		}
		fmt.Fprintf(w, "mime-split %s\n", mimeHex(data))
	}
}

// ---------------------------------------------------------------------------------------------
// MIME tree builder

type mimeNode struct {
	typ, sub string
	params   [][2]string // Content-Type parameters (besides boundary), lower-case keys
	boundary string
	hdrs     [][2]string // all other header fields, in order
	body     []byte      // leaf content (no bare CR, does not end in CR)
	kids     []*mimeNode
	emb      *mimeNode // message/rfc822
	preamble string
	epilogue string
	noCT     bool // no Content-Type field at all (=> text/plain)
}

func mimeEol(r *Rng) string {
	if r.Chance(1, 4) {
		return "\n"
	}
	return "\r\n"
}

var mimeWords = []string{"hello", "world", "lorem", "ipsum", "=_x", "-", "--", "a b", "(c)", "\"q\"", "\\", "caf\xc3\xa9", "\xff", "100%", "--=_"}

func mimeGenBody(r *Rng, eol string) []byte {
	var b bytes.Buffer
	n := Pick(r, []int{0, 0, 1, 2, 3, 6})
	for i := 0; i < n; i++ {
		k := r.Intn(4)
		for j := 0; j < k; j++ {
			if j > 0 {
				b.WriteByte(' ')
			}
			b.WriteString(Pick(r, mimeWords))
		}
		if i < n-1 || r.Bool() {
			b.WriteString(eol)
		}
	}
	return b.Bytes()
}

var mimeAddrPool = []string{"a@b.c", "Joe <joe@x.org>", "\"Q, R\" <q@r.s>", "x@y, z@w", "(comment) c@d.e", "grp: m@n.o;", "not an address", "<>", "=?utf-8?q?J=C3=B6rg?= <j@k.l>", "a@b@c", "\xe4@x.y"}

func mimeGenTopHeaders(r *Rng) [][2]string {
	var h [][2]string
	if r.Chance(3, 4) {
		h = append(h, [2]string{"From", Pick(r, mimeAddrPool)})
	}
	if r.Chance(3, 4) {
		h = append(h, [2]string{"To", Pick(r, mimeAddrPool)})
	}
	if r.Chance(1, 4) {
		h = append(h, [2]string{Pick(r, []string{"Cc", "Bcc", "Sender", "Reply-To", "CC", "reply-to"}), Pick(r, mimeAddrPool)})
	}
	if r.Chance(3, 4) {
		h = append(h, [2]string{"Subject", Pick(r, []string{"hi", "Re: \"x\"", "a\\b", "tab\there", "(paren", "caf\xc3\xa9", "\xff\xfe", ""})})
	}
	if r.Chance(1, 2) {
		h = append(h, [2]string{"Date", Pick(r, []string{"Wed, 2 Jun 2021 14:18:56 +0200", "garbage", ""})})
	}
	if r.Chance(1, 3) {
		h = append(h, [2]string{"Message-Id", "<" + Pick(r, mimeWords) + "@x>"})
	}
	if r.Chance(1, 4) {
		h = append(h, [2]string{"In-Reply-To", "<r@x>"})
	}
	return h
}

func mimeGenPartHeaders(r *Rng) [][2]string {
	var h [][2]string
	if r.Chance(1, 3) {
		h = append(h, [2]string{"Content-Transfer-Encoding", Pick(r, []string{"7bit", "base64", "quoted-printable", "8BIT"})})
	}
	if r.Chance(1, 3) {
		h = append(h, [2]string{"Content-Disposition", Pick(r, []string{"attachment; filename=a.txt", "inline", "attachment; filename=\"b c.txt\"; size=3", "bad disp;;", ""})})
	}
	if r.Chance(1, 5) {
		h = append(h, [2]string{"Content-Id", "<id" + Pick(r, mimeWords) + ">"})
	}
	if r.Chance(1, 5) {
		h = append(h, [2]string{"Content-Description", Pick(r, mimeWords)})
	}
	if r.Chance(1, 6) {
		h = append(h, [2]string{"Content-Language", "en"})
	}
	if r.Chance(1, 6) {
		h = append(h, [2]string{"Content-Location", "file:///x"})
	}
	if r.Chance(1, 6) {
		h = append(h, [2]string{"Content-MD5", "Q2hlY2sgSW50ZWdyaXR5IQ=="})
	}
	return h
}

// mimeGenTree builds a random MIME tree; forceMulti makes the root a multipart.
func mimeGenTree(r *Rng, depth int, forceMulti bool) *mimeNode {
	ctr := 0
	return mimeGenTreeC(r, depth, forceMulti, &ctr)
}

// mimeGenTreeC: ctr numbers the boundaries of one tree, so that no boundary is a prefix of another
// one (BoundaryFresh).
func mimeGenTreeC(r *Rng, depth int, forceMulti bool, ctr *int) *mimeNode {
	n := &mimeNode{}
	c := r.Intn(10)
	if forceMulti {
		c = 9
	}
	if depth <= 0 && c >= 6 {
		c = r.Intn(6)
	}
	switch {
	case c < 3:
		n.typ, n.sub = "text", Pick(r, []string{"plain", "html"})
		if r.Chance(1, 2) {
			n.params = append(n.params, [2]string{"charset", Pick(r, []string{"utf-8", "us-ascii", "iso-8859-1"})})
		}
		if r.Chance(1, 6) {
			n.noCT, n.sub, n.params = true, "plain", nil
		}
	case c < 5:
		n.typ, n.sub = Pick(r, []string{"application", "image"}), Pick(r, []string{"octet-stream", "png", "x-y"})
		if r.Chance(1, 3) {
			n.params = append(n.params, [2]string{"name", Pick(r, []string{"a.bin", "b c", "q\"uote"})})
		}
	case c < 6:
		n.typ, n.sub = "message", "rfc822"
		n.emb = mimeGenTreeC(r, depth-1, false, ctr)
		n.emb.hdrs = append(mimeGenTopHeaders(r), n.emb.hdrs...)
	case c < 7:
		n.typ, n.sub = "message", "rfc822"
		n.emb = mimeGenTreeC(r, depth-1, false, ctr)
		n.emb.hdrs = append(mimeGenTopHeaders(r), n.emb.hdrs...)
		if r.Chance(1, 2) {
			n.params = append(n.params, [2]string{"name", "fwd.eml"})
		}
	default:
		n.typ, n.sub = "multipart", Pick(r, []string{"mixed", "alternative", "related", "x"})
		*ctr++
		n.boundary = fmt.Sprintf("=_b%d_%s", *ctr, Pick(r, []string{"", "x", "simple boundary", "--", "a=b"}))
		k := Pick(r, []int{1, 1, 2, 2, 3, 4})
		for i := 0; i < k; i++ {
			n.kids = append(n.kids, mimeGenTreeC(r, depth-1, false, ctr))
		}
		if r.Chance(1, 3) {
			n.preamble = "This is the preamble."
		}
		if r.Chance(1, 3) {
			n.epilogue = "epilogue"
		}
	}
	n.hdrs = mimeGenPartHeaders(r)
	return n
}

func mimeQuoteParam(v string) string {
	need := v == ""
	for _, c := range v {
		if !(c >= 'a' && c <= 'z' || c >= 'A' && c <= 'Z' || c >= '0' && c <= '9' || c == '.' || c == '-' || c == '_') {
			need = true
		}
	}
	if !need {
		return v
	}
	return `"` + strings.ReplaceAll(strings.ReplaceAll(v, `\`, `\\`), `"`, `\"`) + `"`
}

func (n *mimeNode) contentType() string {
	s := n.typ + "/" + n.sub
	for _, p := range n.params {
		s += "; " + p[0] + "=" + mimeQuoteParam(p[1])
	}
	if n.boundary != "" {
		s += "; boundary=" + mimeQuoteParam(n.boundary)
	}
	return s
}

func (n *mimeNode) renderBody(eol string) []byte {
	var b bytes.Buffer
	switch {
	case n.emb != nil:
		b.Write(n.emb.render(eol))
	case n.typ == "multipart":
		if n.preamble != "" {
			b.WriteString(n.preamble + eol)
		}
		for _, k := range n.kids {
			b.WriteString("--" + n.boundary + eol)
			b.Write(k.render(eol))
			b.WriteString(eol)
		}
		b.WriteString("--" + n.boundary + "--" + eol)
		b.WriteString(n.epilogue)
	default:
		b.Write(n.body)
	}
	return b.Bytes()
}

func (n *mimeNode) render(eol string) []byte {
	var b bytes.Buffer
	ctDone := n.noCT
	for i, h := range n.hdrs {
		if !ctDone && i == len(n.hdrs)/2 {
			b.WriteString("Content-Type: " + n.contentType() + eol)
			ctDone = true
		}
		b.WriteString(h[0] + ": " + h[1] + eol)
	}
	if !ctDone {
		b.WriteString("Content-Type: " + n.contentType() + eol)
	}
	b.WriteString(eol)
	b.Write(n.renderBody(eol))
	return b.Bytes()
}

// fill gives every leaf its body (needs the eol of the message).
func (n *mimeNode) fill(r *Rng, eol string) {
	if n.emb != nil {
		n.emb.fill(r, eol)
	}
	for _, k := range n.kids {
		k.fill(r, eol)
	}
	if n.emb == nil && n.typ != "multipart" {
		n.body = mimeGenBody(r, eol)
	}
}

func mimeGenBuilt(r *Rng) (*mimeNode, string, []byte) {
	eol := mimeEol(r)
	t := mimeGenTree(r, 1+r.Intn(3), r.Chance(3, 5))
	t.hdrs = append(mimeGenTopHeaders(r), t.hdrs...)
	t.fill(r, eol)
	return t, eol, t.render(eol)
}

var mimeGarbagePieces = []string{"\r\n", "\n", "\r", ":", " ", "\t", "--", "--b", "--b--", "Content-Type", "content-type: multipart/mixed; boundary=b", "Content-Type: message/rfc822", "Content-Type: text/plain", "multipart/x;boundary=\"\"", "boundary=", "From: ", "To: (", "a@b", "(", ")", "\"", "\\", "\x00", "\xff", "\xc3\xa9", "x", ";", "=", "<", ">", ",", "Content-Disposition: attachment;", "Subject:"}

func mimeGenGarbage(r *Rng) []byte {
	var b bytes.Buffer
	n := Pick(r, []int{0, 1, 2, 4, 8, 16, 32, 48})
	for i := 0; i < n; i++ {
		if r.Chance(1, 8) {
			b.WriteByte(byte(r.Intn(256)))
		} else {
			b.WriteString(Pick(r, mimeGarbagePieces))
		}
	}
	return b.Bytes()
}

func mimeMutate(r *Rng, msg []byte) []byte {
	out := append([]byte{}, msg...)
	k := r.Range(1, 4)
	for i := 0; i < k; i++ {
		if len(out) == 0 {
			return out
		}
		pos := r.Intn(len(out))
		switch r.Intn(7) {
		case 0: // truncate
			out = out[:pos]
		case 1: // flip
			out[pos] = byte(r.Intn(256))
		case 2: // delete a run
			e := min(len(out), pos+r.Range(1, 12))
			out = append(out[:pos], out[e:]...)
		case 3: // duplicate a run
			e := min(len(out), pos+r.Range(1, 40))
			dup := append([]byte{}, out[pos:e]...)
			out = append(out[:e], append(dup, out[e:]...)...)
		case 4: // insert a piece
			pc := []byte(Pick(r, mimeGarbagePieces))
			out = append(out[:pos], append(pc, out[pos:]...)...)
		case 5: // CRLF -> LF at one place
			if j := bytes.Index(out[pos:], []byte("\r\n")); j >= 0 {
				out = append(out[:pos+j], out[pos+j+1:]...)
			}
		default: // drop a closing boundary
			if j := bytes.LastIndex(out, []byte("--\r\n")); j >= 0 {
				out = append(out[:j], out[j+2:]...)
			}
		}
	}
	return out
}

// mimeGenMessage: one message of a random class (built / mutated / garbage).
func mimeGenMessage(r *Rng, st *Stats, pfx string) []byte {
	if r.Chance(1, 100) { // size / depth boundaries (d_mimedeep.go)
		s := c12RandomShape(r)
		_, m := c12ShapeMessage(s)
		st.Inc(pfx + ".shape." + s.kind)
		if r.Chance(1, 4) {
			st.Inc(pfx + ".shape-mutated")
			return mimeMutate(r, m)
		}
		return m
	}
	switch c := r.Intn(10); {
	case c < 4:
		_, _, m := mimeGenBuilt(r)
		st.Inc(pfx + ".built")
		return m
	case c < 7:
		_, _, m := mimeGenBuilt(r)
		st.Inc(pfx + ".mutated")
		return mimeMutate(r, m)
	default:
		st.Inc(pfx + ".garbage")
		return mimeGenGarbage(r)
	}
}

// ---------------------------------------------------------------------------------------------
// mime-walk

type mimeEnvEntry struct {
	ok   bool
	kind byte
	bnd  string
}

// mimeCollectEnv records, for every header block the section machinery looks at, what the real
// NewHeader / ContentType answer (the abstract HdrEnv of the Lean model), via the public API.
func mimeCollectEnv(sec *rfc822.Section, tbl map[string]mimeEnvEntry, visit func(*rfc822.Section), depth int) {
	if depth > 5000 {
		return
	}
	if depth == 0 {
		// first by our own splitting (independent of how far Section.Children() follows the nesting),
		// then through Children() as the code sees it
		c12CollectEnvIndep(sec.Literal(), tbl, visit, 0)
	}
	raw := sec.Literal()
	h, _ := rfc822.Split(raw)
	e := mimeEnvEntry{ok: len(h) == 0 || len(sec.Header()) != 0, kind: 'o'}
	if ct, params, err := sec.ContentType(); err == nil {
		if ct == rfc822.MessageRFC822 {
			e.kind = 'r'
		} else if ct.IsMultiPart() {
			e.kind = 'm'
			e.bnd = params["boundary"]
		}
	}
	if !e.ok {
		e.kind, e.bnd = 'o', ""
	}
	tbl[string(h)] = e
	if visit != nil {
		visit(sec)
	}
	switch e.kind {
	case 'r':
		mimeCollectEnv(rfc822.Parse(sec.Body()), tbl, visit, depth+1)
	case 'm':
		kids, _ := sec.Children()
		for _, k := range kids {
			mimeCollectEnv(k, tbl, visit, depth+1)
		}
	}
}

func mimeShowEnv(tbl map[string]mimeEnvEntry) string {
	if len(tbl) == 0 {
		return "-"
	}
	keys := make([]string, 0, len(tbl))
	for k := range tbl {
		keys = append(keys, k)
	}
	sort.Strings(keys)
	var sb []string
	for _, k := range keys {
		e := tbl[k]
		sb = append(sb, fmt.Sprintf("%s:%s:%c:%s", mimeHex([]byte(k)), b2s(e.ok), e.kind, mimeHex([]byte(e.bnd))))
	}
	return strings.Join(sb, ",")
}

func mimeSafeEnv(msg []byte) (s string, ok bool) {
	defer func() {
		if p := recover(); p != nil {
			s, ok = "-", false
		}
	}()
	tbl := map[string]mimeEnvEntry{}
	mimeCollectEnv(rfc822.Parse(msg), tbl, nil, 0)
	return mimeShowEnv(tbl), true
}

func implMimeWalk(args []string) (out string) {
	mimeQuietLogs()
	if len(args) != 2 {
		return "bad-op"
	}
	msg := mimeUnhex(args[0])
	defer func() {
		if p := recover(); p != nil {
			out = "panic"
		}
	}()
	var sb []string
	err := rfc822.Parse(msg).Walk(func(s *rfc822.Section) error {
		h := cap(msg) - cap(s.Header())
		b := cap(msg) - cap(s.Body())
		sb = append(sb, fmt.Sprintf("%d:%d:%d:%d", len(s.Identifier()), h, b, b+len(s.Body())))
		return nil
	})
	if err != nil {
		return "err"
	}
	return "ok " + strings.Join(sb, ";")
}

func genMimeWalk(r *Rng, n int, w io.Writer, st *Stats) {
	r = r.Fork() // NewRng(seed+1) is NewRng(seed) advanced by one draw: decorrelate the seeds
	mimeQuietLogs()
	dir := c12DirectedMessages(r, n, st, "mime-walk")
	for i := 0; i < n; i++ {
		var msg []byte
		if i < len(dir) {
			msg = dir[i]
		} else {
			msg = mimeGenMessage(r, st, "mime-walk")
		}
		env, _ := mimeSafeEnv(msg)
		fmt.Fprintf(w, "mime-walk %s %s\n", mimeHex(msg), env)
	}
}

func init() {
	Register(&Dialect{Name: "mime-scan", Impl: implMimeScan, Gen: genMimeScan})
	Register(&Dialect{Name: "mime-split", Impl: implMimeSplit, Gen: genMimeSplit})
	Register(&Dialect{Name: "mime-walk", Impl: implMimeWalk, Gen: genMimeWalk})
}
