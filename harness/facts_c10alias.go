package main

// Facts/ParseAlias.lean (C10): where the memory of a parsed command comes from.
//
// The model's commands are values; a Go command.Command is handed by reference from the reader goroutine to
// the session goroutine (internal/session/command.go) while the reader goes on parsing with the same
// rfcparser.Parser. The two agree only if nothing in a returned command shares memory with something the
// parser writes to later. Strings are copies by construction (`string(bytes)`); what is left are payload
// fields of a slice-of-byte type. This pass lists
//
//   - payloadByteFields: every struct field of type []byte in imap/command and every expression assigned to it
//     (traced one step through a local variable), e.g. `Append.Literal = literal <- p.ParseLiteral()`;
//   - literalOrigins / literalResultFresh: for every `return x, nil` of (*Parser).ParseLiteral
//     (rfcparser/parser.go) the expression the returned slice comes from; it is "fresh" iff each of them is a
//     composite literal or a `make(...)` evaluated in that very call (directly, or through a local variable
//     that is assigned exactly once). A field of the parser, a pooled buffer, a sub-slice of a read buffer, a
//     helper call ... are not fresh: the theorem `C10.literal_result_fresh` then no longer checks.

import (
	"fmt"
	"go/ast"
	"sort"
	"strings"
)

func init() { factGens = append(factGens, factGen{"ParseAlias", c10pFactsAlias}) }

// c10pAssignedExprs: the right-hand sides assigned to the local variable `name` anywhere in body
// (`name := e`, `name, err := f()` (the call), `name = e`, `var name = e`); nil entries = assignments it cannot render.
func c10pAssignedExprs(body *ast.BlockStmt, name string) []ast.Expr {
	var out []ast.Expr
	ast.Inspect(body, func(n ast.Node) bool {
		switch s := n.(type) {
		case *ast.AssignStmt:
			for i, l := range s.Lhs {
				if id, ok := l.(*ast.Ident); ok && id.Name == name {
					switch {
					case len(s.Rhs) == len(s.Lhs):
						out = append(out, s.Rhs[i])
					case len(s.Rhs) == 1:
						out = append(out, s.Rhs[0])
					default:
						out = append(out, nil)
					}
				}
			}
		case *ast.ValueSpec:
			for i, id := range s.Names {
				if id.Name == name {
					if i < len(s.Values) {
						out = append(out, s.Values[i])
					} else if len(s.Values) == 1 {
						out = append(out, s.Values[0])
					} else {
						out = append(out, nil) // zero value
					}
				}
			}
		case *ast.RangeStmt:
			for _, l := range []ast.Expr{s.Key, s.Value} {
				if id, ok := l.(*ast.Ident); ok && id.Name == name {
					out = append(out, nil)
				}
			}
		}
		return true
	})
	return out
}

func c10pIsFreshExpr(e ast.Expr) bool {
	switch v := e.(type) {
	case *ast.CompositeLit:
		return true
	case *ast.CallExpr:
		if id, ok := v.Fun.(*ast.Ident); ok && id.Name == "make" {
			return true
		}
	}
	return false
}

func c10pFactsAlias(c *factsCtx, outdir string) error {
	// (1) ParseLiteral
	var origins []string
	fresh := false
	var fd *ast.FuncDecl
	for _, f := range c.parseDir("rfcparser") {
		for _, d := range f.Decls {
			if x, ok := d.(*ast.FuncDecl); ok && x.Body != nil && funcQualName(x) == "Parser.ParseLiteral" {
				fd = x
			}
		}
	}
	if fd == nil {
		origins = append(origins, "Parser.ParseLiteral: not found")
	} else {
		fresh = true
		n := 0
		ast.Inspect(fd.Body, func(node ast.Node) bool {
			if _, ok := node.(*ast.FuncLit); ok {
				return false
			}
			ret, ok := node.(*ast.ReturnStmt)
			if !ok {
				return true
			}
			if len(ret.Results) != 2 {
				fresh = false
				origins = append(origins, "return "+c.render(ret))
				return true
			}
			if id, ok := ret.Results[0].(*ast.Ident); ok && id.Name == "nil" {
				return true // an error return
			}
			n++
			e := ret.Results[0]
			if id, ok := e.(*ast.Ident); ok {
				rhs := c10pAssignedExprs(fd.Body, id.Name)
				if len(rhs) == 1 && rhs[0] != nil {
					origins = append(origins, c.render(rhs[0]))
					if !c10pIsFreshExpr(rhs[0]) {
						fresh = false
					}
				} else {
					fresh = false
					origins = append(origins, fmt.Sprintf("%s (assigned %d times)", id.Name, len(rhs)))
				}
				return true
			}
			origins = append(origins, c.render(e))
			if !c10pIsFreshExpr(e) {
				fresh = false
			}
			return true
		})
		if n == 0 {
			fresh = false
		}
	}

	// (2) []byte fields of the command payloads
	files := c.parseDir("imap/command")
	byteFields := map[string]map[string]bool{} // struct -> field
	for _, f := range files {
		ast.Inspect(f, func(node ast.Node) bool {
			ts, ok := node.(*ast.TypeSpec)
			if !ok {
				return true
			}
			st, ok := ts.Type.(*ast.StructType)
			if !ok {
				return true
			}
			for _, fl := range st.Fields.List {
				if t := c.render(fl.Type); t == "[]byte" || t == "[]uint8" {
					for _, nm := range fl.Names {
						if byteFields[ts.Name.Name] == nil {
							byteFields[ts.Name.Name] = map[string]bool{}
						}
						byteFields[ts.Name.Name][nm.Name] = true
					}
				}
			}
			return true
		})
	}
	allFieldNames := map[string]bool{}
	for _, m := range byteFields {
		for k := range m {
			allFieldNames[k] = true
		}
	}
	var fields []string
	describe := func(body *ast.BlockStmt, v ast.Expr) string {
		s := c.render(v)
		if id, ok := v.(*ast.Ident); ok && body != nil {
			for _, rhs := range c10pAssignedExprs(body, id.Name) {
				if rhs != nil {
					s += " <- " + c.render(rhs)
				}
			}
		}
		return s
	}
	for _, f := range files {
		for _, d := range f.Decls {
			fn, ok := d.(*ast.FuncDecl)
			if !ok || fn.Body == nil {
				continue
			}
			ast.Inspect(fn.Body, func(node ast.Node) bool {
				switch v := node.(type) {
				case *ast.CompositeLit:
					id, ok := v.Type.(*ast.Ident)
					if !ok || byteFields[id.Name] == nil {
						return true
					}
					for _, el := range v.Elts {
						if kv, ok := el.(*ast.KeyValueExpr); ok {
							if k, ok := kv.Key.(*ast.Ident); ok && byteFields[id.Name][k.Name] {
								fields = append(fields, fmt.Sprintf("%s.%s = %s (in %s)", id.Name, k.Name, describe(fn.Body, kv.Value), funcQualName(fn)))
							}
						}
					}
				case *ast.AssignStmt:
					for i, l := range v.Lhs {
						if sel, ok := l.(*ast.SelectorExpr); ok && allFieldNames[sel.Sel.Name] && i < len(v.Rhs) {
							fields = append(fields, fmt.Sprintf("%s = %s (in %s)", c.render(sel), describe(fn.Body, v.Rhs[i]), funcQualName(fn)))
						}
					}
				}
				return true
			})
		}
	}
	var decl []string
	for s, m := range byteFields {
		for k := range m {
			decl = append(decl, s+"."+k)
		}
	}
	sort.Strings(decl)
	sort.Strings(fields)

	var b strings.Builder
	b.WriteString("namespace Gluon.Facts\n\n")
	b.WriteString("/-- for every successful `return x, nil` of `(*Parser).ParseLiteral` (rfcparser/parser.go): the expression the returned slice comes from -/\n")
	fmt.Fprintf(&b, "def literalOrigins : List String := %s\n\n", leanStrList(origins))
	b.WriteString("/-- every one of them is a composite literal or a `make(...)` evaluated in that call: the slice a literal is returned in is not shared with any other call -/\n")
	fmt.Fprintf(&b, "def literalResultFresh : Bool := %v\n\n", fresh)
	b.WriteString("/-- struct fields of type []byte declared in imap/command -/\n")
	fmt.Fprintf(&b, "def payloadByteFieldDecls : List String := %s\n\n", leanStrList(decl))
	b.WriteString("/-- what is assigned to them (traced one step through a local variable); informational -/\n")
	fmt.Fprintf(&b, "def payloadByteFields : List String := %s\n\nend Gluon.Facts\n", leanStrList(fields))
	return writeLean(outdir, "ParseAlias.lean", b.String())
}
