package main

// Oracle `c06updates` (C06): scripted connector updates against a whole server.
//
// A stream is a list of steps (one per line in a replay file):
//
//	U MC <rid> <name>            MailboxCreated            U MD <rid>        MailboxDeleted
//	U MU <rid> <name>            MailboxUpdated            U MI <mref> <rid> MailboxIDChanged
//	U MSC <0|1> <msg>[/<msg>…]   MessagesCreated (flag = IgnoreUnknownMailboxIDs)
//	U MMU <rid> <mbs> <flags>    MessageMailboxesUpdated   U MFU <rid> <flags> MessageFlagsUpdated
//	U MSI <sref> <rid>           MessageIDChanged          U MSD <rid>       MessageDeleted
//	U MSU <0|1> <msg>            MessageUpdated (flag = AllowCreate)
//	U UVB | U NOP | U BAD        UIDValidityBumped | Noop | an update of a type user.apply does not know
//	S<i> LOGIN | SELECT <name> | NOOP | LOGOUT | APPEND <name> <flags> <lit> | STORE <seq> <+|-> <flag>
//	     | COPY <seq> <name> | MOVE <seq> <name> | EXPUNGE | CREATE <name> | DELETE <name>
//	     | SUBSCRIBE <name> | UNSUBSCRIBE <name>     (<seq> may be a sequence set: 1:*)
//	X CHECK                      barrier, fresh session: LIST + EXAMINE/FETCH of every mailbox, logout
//
//	msg   = <rid>:<flags>:<lit>:<mbs>    flags = seen,flagged,… or -    mbs = rid+rid or - (x#1-1000 = x1+…+x1000)
//	        <prefix>#<a>-<b>:<flags>:<lit>:<mbs> = the messages <prefix><a> … <prefix><b>, all with these flags,
//	        literal tag and mailboxes (batches on both sides of db.ChunkLimit stay one short line)
//	flag  = a system flag's lower-case short name (seen = `\Seen` as the imap constants spell it), or the
//	        spelling itself: `\seen`, `\SEEN`, `SeEn` (system flags; a leading backslash may be left out when a
//	        letter is upper-case), `$kw`, `$KW`, `$Kw` (keywords are sent as written). The order of the list and
//	        repeated flags are as written (imap.FlagSet keeps the first spelling of a flag).
//	mref  = @<mailbox rid> (its current internal id) | #<n> (raw internal id)
//	sref  = @<message rid> (its current internal id) | #<n> (an internal id nobody has)
//
//	a mailbox id or a mailbox name `@REC` = the protected recovery mailbox (GLUON-INTERNAL-RECOVERY-MBOX /
//	"Recovered Messages")
//
// After every U step and every mutating S step the runner waits for the acknowledgement, runs a state
// barrier and issues NOOP in every live observer session. One observation word per step is recorded; the
// Lean judge `judge-c06-stream` (Driver/DConnUpd.lean) replays the steps on the model of
// connector_updates.go and compares: acknowledged result, liveness of observers, silence of restating
// updates, EXISTS counts, and at CHECK the wire view and the index itself.
//
// Exactly once: every single acknowledgement is under its own watchdog (-ackwatch, 3s). The observation of a
// U step starts with `ok` / `err:<class>` (one result, waiter closed afterwards), or
//
//	nottaken   the server did not take the update from the connector's channel within the watchdog
//	noack      taken, but no result within the watchdog (Wait() would block for ever)
//	ack2(…)    a second result, a waiter left open, Done counted twice (only countable for `U BAD`)
//	…|panic(…) a server goroutine panicked during the step; a second Done on imap's one-shot waiter is
//	           `send on closed channel` (error result) / `close of closed channel` (success) in the goroutine
//	           that applies the updates - that is how "acknowledged twice" shows for the real update types
//
// After nottaken / noack / a panic the server is ABANDONED: no further step is sent to it (no barrier, no NOOP,
// closing it is itself under a watchdog), the judge reports `class ack : cause=update-never-acknowledged |
// update-acknowledged-twice | update-not-taken | server-panic kind=<kind> target=<what it named>`, the replay
// is cut down to the connector steps up to and including that update, and the oracle goes on with the next
// stream. After -watchbudget abandoned servers no further stream is started, so a server that never
// acknowledges costs a bounded time.
//
// Order of the streams: corpus/C06/*.txt, then cuDirected (one stream per update kind walking through every
// reachable cell of the kind x variant table, every refused update followed by a valid one), then cuDirectedExtra
// (spelling of flags; sizes of batches and of id lists around db.ChunkLimit), then cuDirectedPrepared (every
// cell of kind x client-prepared state: mailboxes unsubscribed / deleted while subscribed / selected / holding
// messages / with inferiors, messages flagged, \Deleted, expunged, copied by clients), then the random
// streams (a share of their steps prepares an object by client commands and then sends a valid update for it). The generator sends a valid, effective update right after every refused one (the pipeline goes on)
// and aims a fifth of its updates at a random cell of the table. Stats: table.<Kind>.<variant>,
// table.cells-reachable, table.cells-zero (must be 0), judge.pipe.valid-after-refused.<Kind>.

import (
	"database/sql"
	"encoding/json"
	"errors"
	"flag"
	"fmt"
	"io"
	"os"
	"path/filepath"
	"sort"
	"strconv"
	"strings"
	"time"

	"github.com/ProtonMail/gluon/db"
	"github.com/ProtonMail/gluon/imap"
	"github.com/ProtonMail/gluon/limits"
)

const cuRecoveryName = "Recovered Messages"
const cuRecoveryRID = "GLUON-INTERNAL-RECOVERY-MBOX"

var cuFlagLongTable = map[string]string{"seen": `\Seen`, "flagged": `\Flagged`, "answered": `\Answered`, "draft": `\Draft`, "deleted": `\Deleted`, "recent": `\Recent`}

// cuFlagLong: the spelling of a flag token of a step as it is sent (see the grammar above). The judge has the
// same function (Driver/DConnUpd.lean spellOf).
func cuFlagLong(s string) string {
	body := strings.TrimPrefix(s, `\`)
	low := strings.ToLower(body)
	if l, ok := cuFlagLongTable[low]; ok {
		if strings.HasPrefix(s, `\`) || body != low {
			return `\` + body
		}
		return l
	}
	return s
}

func cuFlagShort(f string) string {
	l := strings.ToLower(f)
	return strings.TrimPrefix(l, `\`)
}

func cuFlagSet(s string) imap.FlagSet {
	fs := imap.NewFlagSet()
	if s == "-" || s == "" {
		return fs
	}
	for _, f := range strings.Split(s, ",") {
		fs.AddToSelf(cuFlagLong(f))
	}
	return fs
}

func cuShowFlags(fl []string) string {
	var out []string
	for _, f := range fl {
		s := cuFlagShort(f)
		if s == "recent" {
			continue
		}
		out = append(out, s)
	}
	sort.Strings(out)
	if len(out) == 0 {
		return "-"
	}
	return strings.Join(out, "+")
}

func cuMboxIDs(s string) []imap.MailboxID {
	var out []imap.MailboxID
	if s == "-" || s == "" {
		return out
	}
	for _, m := range strings.Split(s, "+") {
		if m == "@REC" {
			m = cuRecoveryRID
		}
		// <prefix>#<a>-<b> = the ids <prefix><a> … <prefix><b> (lists on both sides of db.ChunkLimit)
		if i := strings.Index(m, "#"); i >= 0 {
			if ab := strings.Split(m[i+1:], "-"); len(ab) == 2 {
				a, errA := strconv.Atoi(ab[0])
				b, errB := strconv.Atoi(ab[1])
				if errA == nil && errB == nil && b-a <= 100000 {
					for k := a; k <= b; k++ {
						out = append(out, imap.MailboxID(m[:i]+strconv.Itoa(k)))
					}
					continue
				}
			}
		}
		out = append(out, imap.MailboxID(m))
	}
	return out
}

func cuRID(s string) string {
	if s == "@REC" {
		return cuRecoveryRID
	}
	return s
}

// cuNameParts: a mailbox name of a step as the connector gives it (path components); @REC = "Recovered Messages"
func cuNameParts(n string) []string {
	if n == "@REC" {
		return []string{cuRecoveryName}
	}
	return strings.Split(n, "/")
}

// cuLiteral: the literal behind a tag. It depends on the tag only ("two literals are bytes.Equal iff their tags
// are equal" is what the model assumes): a message whose remote id was changed by MessageIDChanged must still
// compare equal to an update that restates its tag under the new id.
func cuLiteral(_ string, lit string) []byte {
	return SimpleMessage("c06-"+lit, "content "+lit)
}

type cuMsgSpec struct {
	rid, flags, lit, mbs string
}

func parseMsgSpec(s string) (cuMsgSpec, error) {
	p := strings.Split(s, ":")
	if len(p) != 4 {
		return cuMsgSpec{}, fmt.Errorf("bad message spec %q", s)
	}
	return cuMsgSpec{p[0], p[1], p[2], p[3]}, nil
}

// cuExpandSpecs: the message specs of an MSC step; `<prefix>#<a>-<b>:…` stands for the messages <prefix><a> … <prefix><b>.
func cuExpandSpecs(list string) ([]cuMsgSpec, error) {
	var out []cuMsgSpec
	for _, s := range strings.Split(list, "/") {
		spec, err := parseMsgSpec(s)
		if err != nil {
			return nil, err
		}
		i := strings.Index(spec.rid, "#")
		if i < 0 {
			out = append(out, spec)
			continue
		}
		ab := strings.Split(spec.rid[i+1:], "-")
		if len(ab) != 2 {
			return nil, fmt.Errorf("bad message range %q", s)
		}
		a, errA := strconv.Atoi(ab[0])
		b, errB := strconv.Atoi(ab[1])
		if errA != nil || errB != nil || b-a > 100000 {
			return nil, fmt.Errorf("bad message range %q", s)
		}
		for k := a; k <= b; k++ {
			one := spec
			one.rid = spec.rid[:i] + strconv.Itoa(k)
			out = append(out, one)
		}
	}
	return out, nil
}

func (m cuMsgSpec) created() (*imap.MessageCreated, error) {
	lit := cuLiteral(m.rid, m.lit)
	parsed, err := imap.NewParsedMessage(lit)
	if err != nil {
		return nil, err
	}
	return &imap.MessageCreated{
		Message:       imap.Message{ID: imap.MessageID(m.rid), Flags: cuFlagSet(m.flags), Date: time.Unix(1136214245, 0).UTC()},
		Literal:       lit,
		MailboxIDs:    cuMboxIDs(m.mbs),
		ParsedMessage: parsed,
	}, nil
}

type cuObserver struct {
	idx      int
	c        *Client
	alive    bool
	selected string
	exists   int
}

type cuRunner struct {
	sys   *Sys
	conn  *ScriptConn
	obs   []*cuObserver
	steps []string
	out   []string // one observation word per step
	stats map[string]int
	sqldb *sql.DB
	watch time.Duration
	fatal string
	uidv  *imap.IncrementalUIDValidityGenerator
	cov   map[string]int // coverage counters reported by the judge
	// abandon: why this server is given up ("" = it is not): an update was not taken / not acknowledged
	// within the watchdog, or a server goroutine panicked. No further step is sent to it.
	abandon string
}

// cuAckWatch: the watchdog every single acknowledgement is put under (flag -ackwatch).
var cuAckWatch = 3 * time.Second

// cuWatchExpired counts the watchdogs that expired in this process (reported in the stats).
var cuWatchExpired int

// cuLimits: "default" or "mailboxes,messages,uid,uidvalidity"
var cuLimits = "default"

func newCuRunner() (*cuRunner, error) {
	conn := NewScriptConn()
	gen := imap.NewIncrementalUIDValidityGenerator()
	opts := SysOpts{UIDValidity: gen}
	if p := strings.Split(cuLimits, ","); len(p) == 4 {
		l := limits.NewIMAPLimits(uint32(atoi(p[0])), uint32(atoi(p[1])), imap.UID(atoi(p[2])), imap.UID(atoi(p[3])))
		opts.Limits = &l
	}
	sys, err := NewSysScript(conn, opts)
	if err != nil {
		return nil, err
	}
	r := &cuRunner{sys: sys, conn: conn, stats: map[string]int{}, watch: cuAckWatch, uidv: gen, cov: map[string]int{}}
	return r, nil
}

func (r *cuRunner) Close() {
	for _, o := range r.obs {
		if o != nil && o.c != nil {
			o.c.Close()
		}
	}
	if r.sqldb != nil {
		_ = r.sqldb.Close()
	}
	if r.abandon == "" {
		r.sys.Close(true)
		return
	}
	// an abandoned server may never finish closing (user.close waits for the update loop, which may sit in an
	// apply that does not return): give it a few seconds, then leave it behind
	done := make(chan struct{})
	go func() { r.sys.Close(true); close(done) }()
	select {
	case <-done:
	case <-time.After(3 * time.Second):
		r.stats["abandoned-server-did-not-close"]++
		_ = os.RemoveAll(r.sys.Dir)
	}
}

func (r *cuRunner) openDB() (*sql.DB, error) {
	if r.sqldb != nil {
		return r.sqldb, nil
	}
	path := filepath.Join(r.sys.Dir, "db", r.sys.UserID+".db")
	d, err := sql.Open("sqlite3", "file:"+path+"?mode=ro&_journal=WAL&_busy_timeout=5000")
	if err != nil {
		return nil, err
	}
	r.sqldb = d
	return d, nil
}

func (r *cuRunner) mboxInternalID(rid string) (uint64, bool) {
	d, err := r.openDB()
	if err != nil {
		return 0, false
	}
	var id uint64
	if err := d.QueryRow("SELECT id FROM mailboxes_v2 WHERE remote_id = ?", rid).Scan(&id); err != nil {
		return 0, false
	}
	return id, true
}

// mboxNameOf: the name the index has for the mailbox right now ("" = unknown remote id)
func (r *cuRunner) mboxNameOf(rid string) string {
	d, err := r.openDB()
	if err != nil {
		return ""
	}
	var n string
	if err := d.QueryRow("SELECT name FROM mailboxes_v2 WHERE remote_id = ?", rid).Scan(&n); err != nil {
		return ""
	}
	return n
}

// mboxRowRids: the remote ids of the messages of the mailbox with this name, in sequence order.
func (r *cuRunner) mboxRowRids(name string) []string {
	d, err := r.openDB()
	if err != nil {
		return nil
	}
	var id uint64
	if err := d.QueryRow("SELECT id FROM mailboxes_v2 WHERE name = ?", name).Scan(&id); err != nil {
		return nil
	}
	rows, err := d.Query(fmt.Sprintf("SELECT message_remote_id FROM `mailbox_message_%d` ORDER BY uid", id))
	if err != nil {
		return nil
	}
	defer rows.Close()
	var out []string
	for rows.Next() {
		var v string
		if rows.Scan(&v) == nil {
			out = append(out, v)
		}
	}
	return out
}

func (r *cuRunner) msgInternalID(rid string) (imap.InternalMessageID, bool) {
	d, err := r.openDB()
	if err != nil {
		return imap.InternalMessageID{}, false
	}
	var s string
	if err := d.QueryRow("SELECT id FROM messages_v2 WHERE remote_id = ?", rid).Scan(&s); err != nil {
		return imap.InternalMessageID{}, false
	}
	id, err := imap.InternalMessageIDFromString(s)
	if err != nil {
		return imap.InternalMessageID{}, false
	}
	return id, true
}

func cuClassifyErr(err error) string {
	if err == nil {
		return "ok"
	}
	s := err.Error()
	switch {
	case strings.Contains(s, "protected mailbox"):
		return "err:protected"
	case errors.Is(err, db.ErrNotFound):
		return "err:notfound"
	case strings.Contains(s, "no such message"):
		return "err:nosuchmessage"
	case strings.Contains(s, "UNIQUE constraint"):
		return "err:constraint"
	case strings.Contains(s, "no such table"):
		return "err:sql"
	case strings.Contains(s, "no values changed"):
		return "err:nochange"
	case limits.IsIMAPLimitErr(err):
		return "err:limit"
	case strings.Contains(s, "bad update"):
		return "err:badupdate"
	}
	return "err:other(" + cuSanitize(s) + ")"
}

// buildUpdate turns a U step into a real update.
func (r *cuRunner) buildUpdate(f []string) (imap.Update, error) {
	fl := cuScriptFlagSet()
	need := func(n int) error {
		if len(f) != n {
			return fmt.Errorf("bad step %v", f)
		}
		return nil
	}
	switch f[1] {
	case "MC":
		if err := need(4); err != nil {
			return nil, err
		}
		return imap.NewMailboxCreated(imap.Mailbox{ID: imap.MailboxID(cuRID(f[2])), Name: cuNameParts(f[3]), Flags: fl, PermanentFlags: fl, Attributes: imap.NewFlagSet()}), nil
	case "MD":
		if err := need(3); err != nil {
			return nil, err
		}
		return imap.NewMailboxDeleted(imap.MailboxID(cuRID(f[2]))), nil
	case "MU":
		if err := need(4); err != nil {
			return nil, err
		}
		return imap.NewMailboxUpdated(imap.MailboxID(cuRID(f[2])), cuNameParts(f[3])), nil
	case "MI":
		if err := need(4); err != nil {
			return nil, err
		}
		var iid uint64
		if strings.HasPrefix(f[2], "@") {
			id, ok := r.mboxInternalID(cuRID(f[2][1:]))
			if !ok {
				id = 999999 // the reference does not resolve: an id nobody has
			}
			iid = id
		} else {
			iid = uint64(atoi(f[2][1:]))
		}
		return imap.NewMailboxIDChanged(imap.InternalMailboxID(iid), imap.MailboxID(cuRID(f[3]))), nil
	case "MSC":
		if err := need(4); err != nil {
			return nil, err
		}
		var msgs []*imap.MessageCreated
		specs, err := cuExpandSpecs(f[3])
		if err != nil {
			return nil, err
		}
		for _, spec := range specs {
			m, err := spec.created()
			if err != nil {
				return nil, err
			}
			msgs = append(msgs, m)
		}
		return imap.NewMessagesCreated(f[2] == "1", msgs...), nil
	case "MMU":
		if err := need(5); err != nil {
			return nil, err
		}
		return imap.NewMessageMailboxesUpdated(imap.MessageID(f[2]), cuMboxIDs(f[3]), cuFlagSet(f[4])), nil
	case "MFU":
		if err := need(4); err != nil {
			return nil, err
		}
		return imap.NewMessageFlagsUpdated(imap.MessageID(f[2]), cuFlagSet(f[3])), nil
	case "MSI":
		if err := need(4); err != nil {
			return nil, err
		}
		id := imap.NewInternalMessageID()
		if strings.HasPrefix(f[2], "@") {
			if x, ok := r.msgInternalID(f[2][1:]); ok {
				id = x
			}
		}
		return imap.NewMessageIDChanged(id, imap.MessageID(f[3])), nil
	case "MSD":
		if err := need(3); err != nil {
			return nil, err
		}
		return imap.NewMessagesDeleted(imap.MessageID(f[2])), nil
	case "MSU":
		if err := need(4); err != nil {
			return nil, err
		}
		spec, err := parseMsgSpec(f[3])
		if err != nil {
			return nil, err
		}
		m, err := spec.created()
		if err != nil {
			return nil, err
		}
		return imap.NewMessageUpdated(m.Message, m.Literal, m.MailboxIDs, m.ParsedMessage, f[2] == "1"), nil
	case "UVB":
		return imap.NewUIDValidityBumped(), nil
	case "NOP":
		return imap.NewNoop(), nil
	case "BAD":
		return &cuUnknownUpdate{Noop: imap.NewNoop()}, nil
	}
	return nil, fmt.Errorf("bad update step %v", f)
}

func cuSanitize(s string) string {
	return strings.NewReplacer(" ", "_", "^", "_", "~", "_", "|", "_", ";", "_").Replace(s)
}

func cuNoopTokens(untagged []string) string {
	var out []string
	for _, u := range untagged {
		c := canonResp(u)
		switch {
		case strings.HasPrefix(c, "E"), strings.HasPrefix(c, "X"):
			out = append(out, c)
		case strings.HasPrefix(c, "F"):
			out = append(out, strings.SplitN(c, ":", 2)[0])
		}
	}
	if len(out) == 0 {
		return "-"
	}
	return strings.Join(out, ".")
}

func cuWaitEOF(c *Client) {
	_ = c.conn.SetReadDeadline(time.Now().Add(10 * time.Second))
	_, _ = io.Copy(io.Discard, c.r)
	c.Close()
}

// settle: barrier, then NOOP in every live observer; returns "|S0=…|S1=…".
func (r *cuRunner) settle() string {
	if err := r.sys.BarrierStates(); err != nil {
		r.fatal = "barrier: " + err.Error()
		return "|barrier-failed"
	}
	var sb strings.Builder
	for _, o := range r.obs {
		if o == nil || !o.alive {
			continue
		}
		rep := o.c.Cmd("NOOP")
		if rep.Err != nil || rep.Status != "OK" {
			// BYE (invalid state) or connection lost: the session is gone; its removeState has run once EOF is seen
			cuWaitEOF(o.c)
			o.alive = false
			o.selected = ""
			fmt.Fprintf(&sb, "|S%d=dead", o.idx)
			continue
		}
		if o.selected == "" {
			continue
		}
		tok := cuNoopTokens(rep.Untagged)
		for _, t := range strings.Split(tok, ".") {
			if strings.HasPrefix(t, "E") {
				o.exists = atoi(t[1:])
			} else if strings.HasPrefix(t, "X") && o.exists > 0 {
				o.exists--
			}
		}
		fmt.Fprintf(&sb, "|S%d=%s", o.idx, tok)
	}
	return sb.String()
}

// withDump appends the index as it is on disk now.
func (r *cuRunner) withDump(head string) (string, error) {
	d, err := r.dumpDB()
	if err != nil {
		return head + "~dbdump-failed", err
	}
	return head + "~" + d, nil
}

func (r *cuRunner) observer(i int) *cuObserver {
	for len(r.obs) <= i {
		r.obs = append(r.obs, nil)
	}
	return r.obs[i]
}

func cuQuoteName(n string) string {
	if n == "@REC" {
		n = cuRecoveryName
	}
	return `"` + n + `"`
}

func (r *cuRunner) Exec(step string) error {
	r.steps = append(r.steps, step)
	vlog("STEP %s", step)
	o, err := r.exec1(step)
	for _, p := range r.sys.Panics.Take() {
		o = strings.Replace(o, "~", "|panic("+cuSanitize(p)+")~", 1)
		if !strings.Contains(o, "panic(") {
			o += "|panic(" + cuSanitize(p) + ")"
		}
		if r.abandon == "" {
			r.abandon = "panic"
		}
	}
	vlog("  => %s", o)
	r.out = append(r.out, o)
	return err
}

func (r *cuRunner) exec1(step string) (string, error) {
	f := strings.Fields(step)
	if len(f) < 2 {
		return "bad-step", fmt.Errorf("bad step %q", step)
	}
	switch {
	case f[0] == "U":
		u, err := r.buildUpdate(f)
		if err != nil {
			return "bad-step", err
		}
		watch := r.watch
		if mc, ok := u.(*imap.MessagesCreated); ok {
			watch += time.Duration(len(mc.Messages)) * 5 * time.Millisecond // a large batch is given time in proportion
		}
		res := r.conn.Push(u, watch)
		r.stats["update."+f[1]]++
		var word string
		switch {
		case !res.Taken:
			word = "nottaken"
		case !res.Acked:
			word = "noack"
		default:
			word = cuClassifyErr(res.Err)
			if res.Second != "" {
				word = "ack2(" + cuSanitize(res.Second) + ")"
			}
		}
		r.stats["ack."+strings.SplitN(word, "(", 2)[0]]++
		if !res.Taken || !res.Acked {
			// the watchdog expired: this server is abandoned here (no barrier, no NOOPs: they may hang as well);
			// give a panic of the applying goroutine a moment to reach the recorder
			cuWatchExpired++
			r.abandon = word
			time.Sleep(50 * time.Millisecond)
			return r.withDump(word)
		}
		return r.withDump(word + r.settle())
	case f[0] == "X" && f[1] == "CHECK":
		return r.check()
	case strings.HasPrefix(f[0], "S"):
		return r.execSession(atoi(f[0][1:]), f[1:])
	}
	return "bad-step", fmt.Errorf("bad step %q", step)
}

func (r *cuRunner) execSession(i int, f []string) (string, error) {
	o := r.observer(i)
	r.stats["client."+f[0]]++
	if f[0] == "LOGIN" {
		if o != nil && o.alive {
			return "skip", nil
		}
		c, err := r.sys.Dial(fmt.Sprintf("o%dx", i))
		if err != nil {
			return "dial-failed", err
		}
		if rep := c.Login("user"); rep.Status != "OK" {
			return "login-failed", fmt.Errorf("login failed: %v", rep)
		}
		r.obs[i] = &cuObserver{idx: i, c: c, alive: true}
		return "OK", nil
	}
	if o == nil || !o.alive {
		return "skip", nil
	}
	status := func(rep Reply) string {
		if rep.Err != nil || rep.Status == "" || rep.Status == "BYE" {
			cuWaitEOF(o.c)
			o.alive = false
			o.selected = ""
			return "dead"
		}
		return rep.Status
	}
	switch f[0] {
	case "SELECT":
		rep := o.c.Cmd("SELECT " + cuQuoteName(f[1]))
		st := status(rep)
		if st != "OK" {
			// gluon keeps the previously selected mailbox when SELECT fails (State.Select looks the name up
			// before closing the old snapshot; RFC 3501 6.3.1 says no mailbox is selected then) - follow the server
			return r.withDump(st + r.settle())
		}
		n := 0
		for _, u := range rep.Untagged {
			if m := reSelExists.FindStringSubmatch(u); m != nil {
				n, _ = strconv.Atoi(m[1])
			}
		}
		o.selected = f[1]
		o.exists = n
		return r.withDump(fmt.Sprintf("OK:%d", n) + r.settle())
	case "NOOP":
		return r.withDump("OK" + r.settle())
	case "LOGOUT":
		o.c.Cmd("LOGOUT")
		cuWaitEOF(o.c)
		o.alive = false
		o.selected = ""
		return r.withDump("OK")
	case "APPEND":
		fl := ""
		if f[2] != "-" {
			var l []string
			for _, x := range strings.Split(f[2], ",") {
				l = append(l, cuFlagLong(x))
			}
			fl = strings.Join(l, " ")
		}
		r.conn.TakeCalls()
		rep := o.c.Append(cuQuoteName(f[1]), fl, SimpleMessage("app-"+f[3], "appended content "+f[3]))
		st := status(rep)
		rid := "-"
		for _, c := range r.conn.TakeCalls() {
			if w := strings.Fields(c); w[0] == "msg-created" {
				rid = w[1]
			}
		}
		return r.withDump(st + ":" + rid + r.settle())
	case "STORE":
		rep := o.c.Cmd(fmt.Sprintf("STORE %s %sFLAGS (%s)", f[1], f[2], cuFlagLong(f[3])))
		return r.withDump(status(rep) + r.settle())
	case "COPY", "MOVE":
		rep := o.c.Cmd(fmt.Sprintf("%s %s %s", f[0], f[1], cuQuoteName(f[2])))
		return r.withDump(status(rep) + r.settle())
	case "EXPUNGE":
		rep := o.c.Cmd("EXPUNGE")
		return r.withDump(status(rep) + r.settle())
	case "CREATE":
		r.conn.TakeCalls()
		rep := o.c.Cmd("CREATE " + cuQuoteName(f[1]))
		st := status(rep)
		var rids []string
		for _, c := range r.conn.TakeCalls() {
			if w := strings.Fields(c); w[0] == "mbox-created" {
				rids = append(rids, w[1]+"="+w[2])
			}
		}
		if len(rids) == 0 {
			rids = []string{"-"}
		}
		return r.withDump(st + ":" + strings.Join(rids, ",") + r.settle())
	case "DELETE", "SUBSCRIBE", "UNSUBSCRIBE":
		rep := o.c.Cmd(f[0] + " " + cuQuoteName(f[1]))
		st := status(rep)
		if f[0] == "DELETE" && st == "OK" && o.selected == f[1] {
			o.selected = "" // State.Delete closes the snapshot of the session that deleted its own mailbox
		}
		return r.withDump(st + r.settle())
	}
	return "bad-step", fmt.Errorf("bad session step %v", f)
}

func cuEncName(n string) string {
	if n == cuRecoveryName {
		return "@REC"
	}
	return strings.ReplaceAll(n, " ", "_")
}

var cuListName = func() func(string) (string, bool) {
	return func(line string) (string, bool) {
		// * LIST (\Attr) "/" "name"   or   * LIST (...) "/" name
		if !strings.HasPrefix(line, "* LIST ") {
			return "", false
		}
		i := strings.Index(line, `) "`)
		if i < 0 {
			return "", false
		}
		rest := line[i+2:]
		// delimiter
		j := strings.Index(rest[1:], `"`)
		if j < 0 {
			return "", false
		}
		name := strings.TrimSpace(rest[j+2:])
		if strings.HasPrefix(name, `"`) && strings.HasSuffix(name, `"`) && len(name) >= 2 {
			name = name[1 : len(name)-1]
		}
		return name, true
	}
}()

// check: the wire view of a fresh session and the index as it is on disk.
func (r *cuRunner) check() (string, error) {
	settled := r.settle()
	c, err := r.sys.Dial("chk")
	if err != nil {
		return "dial-failed", err
	}
	if rep := c.Login("user"); rep.Status != "OK" {
		return "login-failed", fmt.Errorf("login failed")
	}
	rep := c.Cmd(`LIST "" "*"`)
	var names []string
	for _, u := range rep.Untagged {
		if n, ok := cuListName(u); ok {
			names = append(names, n)
		}
	}
	sort.Slice(names, func(i, j int) bool { return cuEncName(names[i]) < cuEncName(names[j]) })
	var wire []string
	for _, n := range names {
		er := c.Cmd(`EXAMINE "` + n + `"`)
		if er.Status != "OK" {
			continue // a name LIST shows only as the \Noselect parent of an existing mailbox
		}
		uidv := "?"
		for _, u := range er.Untagged {
			if k := strings.Index(u, "[UIDVALIDITY "); k >= 0 {
				uidv = strings.TrimRight(strings.Fields(u[k+13:])[0], "]")
			}
		}
		msgs, _ := c.FetchAll()
		var rows []string
		for _, m := range msgs {
			rows = append(rows, fmt.Sprintf("%d:%s", m.UID, cuShowFlags(m.Flags)))
		}
		rs := "-"
		if len(rows) > 0 {
			rs = strings.Join(rows, ",")
		}
		wire = append(wire, cuEncName(n)+"="+uidv+"="+rs)
	}
	c.Cmd("LOGOUT")
	cuWaitEOF(c)
	r.stats["check"]++
	dump, err := r.dumpDB()
	if err != nil {
		return "dbdump-failed", err
	}
	w := "-"
	if len(wire) > 0 {
		w = strings.Join(wire, "|")
	}
	return "CHK" + settled + "~W:" + w + "~" + dump, nil
}

// dumpDB: M:<iid>,<rid>,<name>,<uidv>,<sub>,<seq>,<uid>.<rowrid>.<msgrid>.<deleted>+…;…~G:<rid>,<flags>,<deleted>;…~DS:<name>,<rid>;…~C:<next mailbox id>,<uidvalidity generator>~SP:<rid>=<flag as spelled>+…;…
func (r *cuRunner) dumpDB() (string, error) {
	d, err := r.openDB()
	if err != nil {
		return "", err
	}
	canonRID := func(s string) string {
		if strings.HasPrefix(s, "DELETED-") {
			return "DELETED"
		}
		if s == cuRecoveryRID {
			return "@REC"
		}
		return s
	}
	type mb struct {
		id        uint64
		rid, name string
		uidv      uint64
		sub       bool
		seq       uint64
		rows      []string
	}
	var mbs []mb
	rows, err := d.Query("SELECT id, remote_id, name, uid_validity, subscribed FROM mailboxes_v2 ORDER BY id")
	if err != nil {
		return "", err
	}
	for rows.Next() {
		var m mb
		if err := rows.Scan(&m.id, &m.rid, &m.name, &m.uidv, &m.sub); err != nil {
			rows.Close()
			return "", err
		}
		mbs = append(mbs, m)
	}
	rows.Close()
	var ms []string
	for _, m := range mbs {
		tbl := fmt.Sprintf("mailbox_message_%d", m.id)
		_ = d.QueryRow("SELECT seq FROM sqlite_sequence WHERE name = ?", tbl).Scan(&m.seq)
		rr, err := d.Query(fmt.Sprintf("SELECT t.uid, t.message_remote_id, COALESCE(g.remote_id,'?'), t.deleted FROM `%s` AS t LEFT JOIN messages_v2 AS g ON g.id = t.message_id ORDER BY t.uid", tbl))
		if err != nil {
			return "", err
		}
		for rr.Next() {
			var uid uint64
			var rrid, grid string
			var del bool
			if err := rr.Scan(&uid, &rrid, &grid, &del); err != nil {
				rr.Close()
				return "", err
			}
			m.rows = append(m.rows, fmt.Sprintf("%d.%s.%s.%s", uid, canonRID(rrid), canonRID(grid), cuB01(del)))
		}
		rr.Close()
		rs := "-"
		if len(m.rows) > 0 {
			rs = strings.Join(m.rows, "+")
		}
		ms = append(ms, fmt.Sprintf("%d,%s,%s,%d,%s,%d,%s", m.id, canonRID(m.rid), cuEncName(m.name), m.uidv, cuB01(m.sub), m.seq, rs))
	}
	var gs []string
	gr, err := d.Query("SELECT m.remote_id, m.deleted, COALESCE((SELECT GROUP_CONCAT(f.value, ' ') FROM message_flags_v2 AS f WHERE f.message_id = m.id), '') FROM messages_v2 AS m")
	if err != nil {
		return "", err
	}
	for gr.Next() {
		var rid, fl string
		var del bool
		if err := gr.Scan(&rid, &del, &fl); err != nil {
			gr.Close()
			return "", err
		}
		gs = append(gs, fmt.Sprintf("%s,%s,%s", canonRID(rid), cuShowFlags(strings.Fields(fl)), cuB01(del)))
	}
	gr.Close()
	sort.Strings(gs)
	var ds []string
	dr, err := d.Query("SELECT name, remote_id FROM deleted_subscriptions")
	if err != nil {
		return "", err
	}
	for dr.Next() {
		var n, rid string
		if err := dr.Scan(&n, &rid); err != nil {
			dr.Close()
			return "", err
		}
		ds = append(ds, cuEncName(n)+","+canonRID(rid))
	}
	dr.Close()
	sort.Strings(ds)
	j := func(l []string) string {
		if len(l) == 0 {
			return "-"
		}
		return strings.Join(l, ";")
	}
	var mseq uint64
	_ = d.QueryRow("SELECT seq FROM sqlite_sequence WHERE name = 'mailboxes_v2'").Scan(&mseq)
	gen := uint64(0)
	if r.uidv != nil {
		gen = uint64(r.uidv.GetValue())
	}
	// SP: the flags as they are spelled in message_flags_v2 (G: has them lower-cased), per live remote id
	spell := map[string][]string{}
	sr, err := d.Query("SELECT m.remote_id, f.value FROM message_flags_v2 AS f JOIN messages_v2 AS m ON m.id = f.message_id")
	if err != nil {
		return "", err
	}
	for sr.Next() {
		var rid, v string
		if err := sr.Scan(&rid, &v); err != nil {
			sr.Close()
			return "", err
		}
		if strings.HasPrefix(rid, "DELETED-") || strings.EqualFold(v, imap.FlagRecent) {
			continue
		}
		spell[rid] = append(spell[rid], cuSanitize(v))
	}
	sr.Close()
	var sp []string
	for rid, l := range spell {
		sort.Strings(l)
		sp = append(sp, rid+"="+strings.Join(l, "+"))
	}
	sort.Strings(sp)
	return fmt.Sprintf("M:%s~G:%s~DS:%s~C:%d,%d~SP:%s", j(ms), j(gs), j(ds), mseq+1, gen, j(sp)), nil
}

// msgSpelledFlags: the flags of the message as message_flags_v2 spells them (sorted).
func (r *cuRunner) msgSpelledFlags(rid string) []string {
	d, err := r.openDB()
	if err != nil {
		return nil
	}
	rows, err := d.Query("SELECT f.value FROM message_flags_v2 AS f JOIN messages_v2 AS m ON m.id = f.message_id WHERE m.remote_id = ?", rid)
	if err != nil {
		return nil
	}
	defer rows.Close()
	var out []string
	for rows.Next() {
		var v string
		if rows.Scan(&v) == nil && !strings.EqualFold(v, imap.FlagRecent) {
			out = append(out, v)
		}
	}
	sort.Strings(out)
	return out
}

// msgMboxRids: the remote ids of the mailboxes the message is in right now ("" = none / unknown message).
func (r *cuRunner) msgMboxRids(rid string) string {
	d, err := r.openDB()
	if err != nil {
		return ""
	}
	rows, err := d.Query("SELECT b.remote_id FROM message_to_mailbox AS t JOIN messages_v2 AS m ON m.id = t.message_id JOIN mailboxes_v2 AS b ON b.id = t.mailbox_id WHERE m.remote_id = ? AND m.deleted = 0", rid)
	if err != nil {
		return ""
	}
	defer rows.Close()
	var out []string
	for rows.Next() {
		var v string
		if rows.Scan(&v) == nil {
			if v == cuRecoveryRID {
				v = "@REC"
			}
			out = append(out, v)
		}
	}
	sort.Strings(out)
	return strings.Join(out, "+")
}

func cuB01(b bool) string {
	if b {
		return "1"
	}
	return "0"
}

// ---- generator (online: knows what the observers were told; everything else comes from pools) ----

type cuGen struct {
	r        *Rng
	nsess    int
	mboxRids []string          // remote ids ever used for mailboxes
	mboxName map[string]string // last name given to the rid
	names    []string
	msgRids  []string
	msgLit   map[string]string
	msgMbs   map[string]string
	msgFlags map[string]string
	nMbox    int
	nMsg     int
	uSteps   []string
	lastEcho []string
	probed   bool     // the step before was the valid update sent after a refused one
	queue    []string // steps to send next (a re-delivery right after the update)
}

func newCuGen(r *Rng, nsess int) *cuGen {
	return &cuGen{r: r, nsess: nsess, mboxName: map[string]string{}, msgLit: map[string]string{}, msgMbs: map[string]string{}, msgFlags: map[string]string{}}
}

var cuFlagPool = []string{"seen", "flagged", "answered", "draft", "$kw"}

// cuMixCase: every second letter upper-case (seen -> sEeN, $kw -> $kW)
func cuMixCase(s string) string {
	b := []byte(strings.ToLower(s))
	n := 0
	for i, c := range b {
		if c >= 'a' && c <= 'z' {
			if n%2 == 1 {
				b[i] = c - 'a' + 'A'
			}
			n++
		}
	}
	return string(b)
}

// cuSpellTokens: the tokens that spell the flag of this token in the ways a connector or a client may spell it:
// as the imap constants do, all lower-case, all upper-case, mixed.
func cuSpellTokens(tok string) []string {
	key := cuFlagShort(cuFlagLong(tok))
	if _, sys := cuFlagLongTable[key]; sys {
		return []string{key, `\` + key, strings.ToUpper(key), cuMixCase(key)}
	}
	return []string{key, strings.ToUpper(key), cuMixCase(key)}
}

// cuFlagToken: the step token that is sent as exactly this spelling.
func cuFlagToken(spelled string) string {
	key := cuFlagShort(spelled)
	if l, sys := cuFlagLongTable[key]; sys {
		if spelled == l {
			return key
		}
		return spelled // `\…`: taken literally
	}
	return spelled
}

// respell: the same flags, every one spelled differently from `stored` (spellings in the index) where it is there.
func (g *cuGen) respell(tokens []string, stored []string) []string {
	have := map[string]string{}
	for _, s := range stored {
		have[cuFlagShort(s)] = s
	}
	out := make([]string, 0, len(tokens))
	for _, t := range tokens {
		var cands []string
		for _, c := range cuSpellTokens(t) {
			if cuFlagLong(c) != have[cuFlagShort(cuFlagLong(t))] {
				cands = append(cands, c)
			}
		}
		out = append(out, Pick(g.r, cands))
	}
	return out
}

// spell: mostly the spelling of the imap constants, sometimes another one
func (g *cuGen) spell(tok string) string {
	if g.r.Chance(2, 3) {
		return tok
	}
	return Pick(g.r, cuSpellTokens(tok))
}

func (g *cuGen) flags() string {
	r := g.r
	switch r.Intn(5) {
	case 0:
		return "-"
	case 1, 2:
		return g.spell(Pick(r, cuFlagPool))
	default:
		a, b := Pick(r, cuFlagPool), Pick(r, cuFlagPool)
		if a == b {
			if r.Chance(1, 3) {
				return g.spell(a) + "," + g.spell(a) // the same flag twice, maybe spelled in two ways
			}
			return g.spell(a)
		}
		if r.Chance(1, 8) {
			return g.spell(a) + "," + g.spell(b) + "," + g.spell(a)
		}
		return g.spell(a) + "," + g.spell(b)
	}
}

func (g *cuGen) mboxRid(validBias bool) string {
	r := g.r
	if len(g.mboxRids) == 0 || (!validBias && r.Chance(1, 2)) || r.Chance(1, 12) {
		return Pick(r, []string{"nomb", "ghost", "@REC", "@REC"})
	}
	return Pick(r, g.mboxRids)
}

func (g *cuGen) mbs() string {
	r := g.r
	n := Pick(r, []int{0, 1, 1, 1, 2, 2, 3})
	var out []string
	for k := 0; k < n; k++ {
		out = append(out, g.mboxRid(true))
	}
	if len(out) == 0 {
		return "-"
	}
	return strings.Join(out, "+")
}

func (g *cuGen) msgRid() string {
	r := g.r
	if len(g.msgRids) == 0 || r.Chance(1, 10) {
		return Pick(r, []string{"nomsg", "ghostmsg"})
	}
	return Pick(r, g.msgRids)
}

func (g *cuGen) newMsgSpec() string {
	g.nMsg++
	rid := fmt.Sprintf("m%d", g.nMsg)
	g.msgRids = append(g.msgRids, rid)
	lit := Pick(g.r, []string{"l1", "l2"})
	g.msgLit[rid] = lit
	mbs := g.mbs()
	fl := g.flags()
	g.msgMbs[rid], g.msgFlags[rid] = mbs, fl
	return fmt.Sprintf("%s:%s:%s:%s", rid, fl, lit, mbs)
}

func (g *cuGen) newName() string {
	r := g.r
	g.nMbox++
	switch r.Intn(8) {
	case 0:
		if len(g.names) > 0 {
			return Pick(r, g.names) // clash
		}
	case 1:
		if len(g.names) > 0 {
			return Pick(r, g.names) + fmt.Sprintf("/sub%d", g.nMbox)
		}
	case 2:
		// (other spellings of INBOX are stored verbatim by MailboxCreated/MailboxUpdated and the mailbox is
		// then unreachable for clients; not part of C06 - see the report)
		return "INBOX"
	}
	n := fmt.Sprintf("box%d", g.nMbox)
	g.names = append(g.names, n)
	return n
}

func (g *cuGen) update() string {
	r := g.r
	switch k := r.Intn(100); {
	case k < 8:
		g.nMbox++
		rid := fmt.Sprintf("mb%d", g.nMbox)
		if r.Chance(1, 8) {
			rid = g.mboxRid(true)
		} else {
			g.mboxRids = append(g.mboxRids, rid)
		}
		n := g.newName()
		g.mboxName[rid] = n
		return fmt.Sprintf("U MC %s %s", rid, n)
	case k < 12:
		return fmt.Sprintf("U MD %s", g.mboxRid(true))
	case k < 17:
		rid := g.mboxRid(true)
		if r.Chance(1, 3) && g.mboxName[rid] != "" {
			return fmt.Sprintf("U MU %s %s", rid, g.mboxName[rid]) // restates
		}
		n := g.newName()
		g.mboxName[rid] = n
		return fmt.Sprintf("U MU %s %s", rid, n)
	case k < 22:
		ref := "@" + g.mboxRid(true)
		if r.Chance(1, 6) {
			ref = Pick(r, []string{"#1", "#77"})
		}
		g.nMbox++
		rid := fmt.Sprintf("mx%d", g.nMbox)
		if r.Chance(1, 4) {
			rid = g.mboxRid(true)
		} else {
			g.mboxRids = append(g.mboxRids, rid)
		}
		return fmt.Sprintf("U MI %s %s", ref, rid)
	case k < 45:
		n := Pick(r, []int{1, 1, 1, 2, 3})
		var specs []string
		for i := 0; i < n; i++ {
			if r.Chance(1, 4) && len(g.msgRids) > 0 {
				rid := Pick(r, g.msgRids) // an existing message (again, or into further mailboxes)
				specs = append(specs, fmt.Sprintf("%s:%s:%s:%s", rid, g.flags(), g.msgLit[rid], g.mbs()))
			} else {
				specs = append(specs, g.newMsgSpec())
			}
		}
		return fmt.Sprintf("U MSC %d %s", r.Intn(2), strings.Join(specs, "/"))
	case k < 57:
		rid := g.msgRid()
		if r.Chance(1, 3) && g.msgMbs[rid] != "" {
			return fmt.Sprintf("U MMU %s %s %s", rid, g.msgMbs[rid], g.msgFlags[rid])
		}
		mbs, fl := g.mbs(), g.flags()
		g.msgMbs[rid], g.msgFlags[rid] = mbs, fl
		return fmt.Sprintf("U MMU %s %s %s", rid, mbs, fl)
	case k < 68:
		rid := g.msgRid()
		if r.Chance(1, 3) && g.msgFlags[rid] != "" {
			return fmt.Sprintf("U MFU %s %s", rid, g.msgFlags[rid])
		}
		fl := g.flags()
		g.msgFlags[rid] = fl
		return fmt.Sprintf("U MFU %s %s", rid, fl)
	case k < 73:
		ref := "@" + g.msgRid()
		if r.Chance(1, 5) {
			ref = "#1"
		}
		g.nMsg++
		return fmt.Sprintf("U MSI %s mi%d", ref, g.nMsg)
	case k < 80:
		return fmt.Sprintf("U MSD %s", g.msgRid())
	case k < 92:
		rid := g.msgRid()
		lit := g.msgLit[rid]
		if lit == "" || r.Chance(1, 3) {
			lit = Pick(r, []string{"l1", "l2", "l3"})
		}
		mbs, fl := g.msgMbs[rid], g.msgFlags[rid]
		if mbs == "" || r.Chance(1, 2) {
			mbs = g.mbs()
		}
		if fl == "" || r.Chance(1, 2) {
			fl = g.flags()
		}
		if !strings.HasPrefix(rid, "no") && !strings.HasPrefix(rid, "ghost") {
			g.msgLit[rid], g.msgMbs[rid], g.msgFlags[rid] = lit, mbs, fl
		}
		return fmt.Sprintf("U MSU %d %s:%s:%s:%s", r.Intn(2), rid, fl, lit, mbs)
	case k < 94:
		return "U UVB"
	case k < 97:
		return "U NOP"
	default:
		return "U BAD"
	}
}

// echo: the remote tells gluon what it believes about a message the client just touched.
func (g *cuGen) echo(run *cuRunner) string {
	conn := run.conn
	conn.mu.Lock()
	defer conn.mu.Unlock()
	var ids []string
	for k := range conn.msgs {
		ids = append(ids, k)
	}
	if len(ids) == 0 {
		return ""
	}
	sort.Strings(ids)
	id := Pick(g.r, ids)
	m := conn.msgs[id]
	var fl, mbs []string
	for f := range m.flags {
		fl = append(fl, f)
	}
	for b := range m.mboxes {
		mbs = append(mbs, b)
	}
	sort.Strings(fl)
	sort.Strings(mbs)
	fs, ms := "-", "-"
	if len(fl) > 0 {
		fs = strings.Join(fl, ",")
	}
	if len(mbs) > 0 {
		ms = strings.Join(mbs, "+")
	}
	switch g.r.Intn(3) {
	case 0:
		return fmt.Sprintf("U MFU %s %s", id, fs)
	case 1:
		return fmt.Sprintf("U MMU %s %s %s", id, ms, fs)
	default:
		return fmt.Sprintf("U MSC 0 %s:%s:app:%s", id, fs, ms)
	}
}

// ---- kind x variant table ----------------------------------------------------------------

// cuKinds in the order of user.apply's type switch; the names are those of the judge (kindName).
var cuKinds = []string{"MailboxCreated", "MailboxDeleted", "MailboxUpdated", "MailboxIDChanged", "MessagesCreated",
	"MessageMailboxesUpdated", "MessageFlagsUpdated", "MessageIDChanged", "MessageDeleted", "MessageUpdated",
	"UIDValidityBumped", "Noop", "Unknown"}

// cuVariants of an update: valid (and effective) | names an id the server does not know | names the protected
// recovery mailbox by id | by name | the same update delivered again right away | restates what the index says.
// restating-other-spelling: restates, and at least one flag is spelled in another letter case than the index has it;
// restating-other-order: restates, and the flag list is not the sorted duplicate-free list (other order, repeats).
var cuVariants = []string{"valid", "unknown-id", "protected-id", "protected-name", "duplicate", "restating",
	"restating-other-spelling", "restating-other-order"}

// cuReachable: the cells of the table that exist at all through the public connector API (the others are "n/a":
// MailboxCreated of an unknown id IS the valid case; kinds that name messages only cannot name a mailbox;
// only MailboxCreated/MailboxUpdated carry a name; UIDValidityBumped never restates; an update of an unknown
// type is never valid and restates nothing).
var cuReachable = map[string]string{
	"MailboxCreated":          "valid protected-id protected-name duplicate restating",
	"MailboxDeleted":          "valid unknown-id protected-id duplicate restating",
	"MailboxUpdated":          "valid unknown-id protected-id protected-name duplicate restating",
	"MailboxIDChanged":        "valid unknown-id protected-id duplicate restating",
	"MessagesCreated":         "valid unknown-id protected-id duplicate restating restating-other-spelling",
	"MessageMailboxesUpdated": "valid unknown-id protected-id duplicate restating restating-other-spelling restating-other-order",
	"MessageFlagsUpdated":     "valid unknown-id duplicate restating restating-other-spelling restating-other-order",
	"MessageIDChanged":        "valid unknown-id duplicate restating",
	"MessageDeleted":          "valid unknown-id duplicate restating",
	"MessageUpdated":          "valid unknown-id protected-id duplicate restating restating-other-spelling restating-other-order",
	"UIDValidityBumped":       "valid duplicate",
	"Noop":                    "valid duplicate restating",
	"Unknown":                 "duplicate",
}

func cuCellReachable(kind, variant string) bool {
	for _, v := range strings.Fields(cuReachable[kind]) {
		if v == variant {
			return true
		}
	}
	return false
}

// cuDirected: one short stream per kind that walks through every reachable variant of that kind; every refused
// update is followed by a valid one (the pipeline goes on). Internal mailbox ids after the setup: recovery 1,
// INBOX 2, mb1 3, mb2 4. They run on every check, whatever the seed (after the corpus files).
var cuDirected = map[string][]string{
	"MailboxCreated": {"S0 LOGIN", "S0 SELECT mb1",
		"U MC d1 dbox1", "U MC d1 dbox1", "U NOP", "U MC mb1 mb1",
		"U MC @REC recbox", "U MC d2 dbox2", "U MC @REC recbox", "U MC @REC recbox", "U MC d3 dbox3",
		"U MC d4 @REC", "U MC d5 dbox5", "U MC d6 dbox1", "U MC d7 dbox7", "X CHECK"},
	"MailboxDeleted": {"S0 LOGIN", "S0 SELECT mb1", "U MC d1 dbox1",
		"U MD mb2", "U MD mb2", "U MD nomb", "U MD @REC", "U MD d1", "U MD @REC", "U MD @REC", "U MC d2 dbox2", "X CHECK"},
	"MailboxUpdated": {"S0 LOGIN", "S0 SELECT mb1",
		"U MU mb1 ren1", "U MU mb1 ren1", "U NOP", "U MU mb1 ren1", "U MU nomb ren2", "U MU nomb ren2",
		"U MU @REC ren3", "U MU mb2 ren4", "U MU @REC ren3", "U MU @REC ren3", "U MU mb2 ren5",
		"U MU mb2 @REC", "U MU mb2 ren6", "U MU mb2 ren1", "U MU mb2 ren7", "X CHECK"},
	"MailboxIDChanged": {"S0 LOGIN", "S0 SELECT mb1",
		"U MI #3 nid1", "U MI #3 nid1", "U NOP", "U MI @nid1 nid1", "U MI #77 nid2", "U MC d1 dbox1",
		"U MI #1 nid3", "U MI #4 nid4", "U MI #1 nid3", "U MI #1 nid3", "U MC d2 dbox2",
		"U MI #4 @REC", "U MI #4 nid5", "U MI #4 nid1", "U MI #4 nid6", "X CHECK"},
	"MessagesCreated": {"S0 LOGIN", "S0 SELECT mb1",
		"U MSC 0 d1:seen:l1:mb1", "U MSC 0 d1:seen:l1:mb1", "U NOP", "U MSC 1 d1:seen:l1:mb1",
		"U MSC 0 d2:-:l1:nomb", "U MSC 0 d3:flagged:l1:mb1+mb2", "U MSC 1 d4:-:l2:nomb+mb2", "U MSC 0 d2:-:l1:nomb+mb1", "U MSC 0 d2:-:l1:mb1",
		"U MSC 0 d5:-:l1:@REC", "U MSC 0 d5:-:l1:@REC", "U MSC 0 d6:-:l1:@REC+mb1/d7:$kw:l1:mb1", "U MSC 0 d8:-:l1:mb2+nomb/d9:-:l1:@REC", "U MSC 0 d8:seen:l1:mb2", "X CHECK"},
	"MessageMailboxesUpdated": {"S0 LOGIN", "S0 SELECT mb1", "U MSC 0 d1:seen:l1:mb1",
		"U MMU d1 mb1+mb2 seen,flagged", "U MMU d1 mb1+mb2 seen,flagged", "U NOP", "U MMU d1 mb2+mb1 flagged,seen",
		"U MMU nomsg mb1 seen", "U MMU d1 mb2 -", "U MMU d1 mb2+nomb -", "U MMU d1 nomb+0 answered",
		"U MMU d1 @REC seen", "U MMU d1 0+mb1 seen", "U MMU d1 mb1+@REC -", "U MMU d1 mb1+@REC -", "U MMU d1 mb1 draft", "X CHECK"},
	"MessageFlagsUpdated": {"S0 LOGIN", "S0 SELECT mb1", "U MSC 0 d1:seen:l1:mb1",
		"U MFU d1 flagged", "U MFU d1 flagged", "U NOP", "U MFU d1 flagged", "U MFU nomsg seen", "U MFU d1 seen,$kw",
		"U MFU nomsg seen", "U MFU nomsg seen", "U MFU d1 -", "X CHECK"},
	"MessageIDChanged": {"S0 LOGIN", "S0 SELECT mb1", "U MSC 0 d1:seen:l1:-",
		"U MSI @d1 e1", "U MSI @e1 e1", "U MSI @e1 e1", "U MSI #1 e2", "U MSI @e1 e3", "U MSI #1 e2", "U MSI #1 e2", "U MFU e3 flagged", "X CHECK"},
	"MessageDeleted": {"S0 LOGIN", "S0 SELECT mb1", "U MSC 0 d1:seen:l1:mb1/d2:-:l1:mb1+mb2",
		"U MSD d1", "U MSD d1", "U NOP", "U MSD d1", "U MSD nomsg", "U MSD nomsg", "U MSD d2", "X CHECK"},
	"MessageUpdated": {"S0 LOGIN", "S0 SELECT mb1", "U MSC 0 d1:seen:l1:mb1",
		"U MSU 0 d1:flagged:l1:mb1+mb2", "U MSU 0 d1:flagged:l1:mb1+mb2", "U NOP", "U MSU 1 d1:flagged:l1:mb2+mb1",
		"U MSU 0 d1:flagged:l2:mb1", "U MSU 0 d1:flagged:l2:mb1",
		"U MSU 0 nomsg:-:l1:mb1", "U MSU 1 d2:-:l1:mb1", "U MSU 0 d1:flagged:l2:nomb", "U MSU 0 d1:seen:l2:mb2",
		"U MSU 1 d3:-:l1:@REC", "U MSU 1 d3:-:l1:@REC", "U MSU 1 d4:-:l1:mb1+nomb", "U MFU d1 draft", "X CHECK"},
	"UIDValidityBumped": {"S0 LOGIN", "S0 SELECT mb1", "U UVB", "U UVB", "S0 LOGIN", "S0 SELECT mb2", "U MC d1 dbox1", "U UVB", "X CHECK"},
	"Noop":              {"S0 LOGIN", "S0 SELECT mb1", "U NOP", "U NOP", "U MC d1 dbox1", "U NOP", "X CHECK"},
	"Unknown":           {"S0 LOGIN", "S0 SELECT mb1", "U BAD", "U MC d1 dbox1", "U BAD", "U BAD", "U MSC 0 d1:seen:l1:mb1", "X CHECK"},
}

// cuNamedStream: a directed stream that is not about one kind of update but about one dimension of the inputs.
type cuNamedStream struct {
	name  string
	steps []string
}

// cuDirectedExtra: run on every check after cuDirected, whatever the seed (the setup is put in front).
//
// spelling: flags of updates and of client commands in every letter case relative to what the index holds (as the
// imap constants spell them, lower, upper, mixed; system flags and keywords), restating updates that differ from the
// index only in spelling, in the order of the list, or by repeating a flag; S0 watches mb1 and must stay silent.
//
// sizes-*: MessagesCreated batches on both sides of db.ChunkLimit (the SQL layer binds at most that many values
// per statement) and of its divisor 2 (two values per row): 1, 2, H-1, H, H+1, L-1, L, L+1, L+H, 2L+1 messages for
// one mailbox, spread over several mailboxes, with and without flags (flag rows are chunked on their own), a batch
// delivered twice; S0 watches the target mailbox: its EXISTS count must be the size of the batch.
func cuDirectedExtra() []cuNamedStream {
	L := db.ChunkLimit
	H := L / 2
	rng := func(prefix string, n int, flags, lit, mbs string) string {
		return fmt.Sprintf("%s#1-%d:%s:%s:%s", prefix, n, flags, lit, mbs)
	}
	one := func(prefix string, n int) string { return "U MSC 0 " + rng(prefix, n, "-", "l1", "mb1") }
	return []cuNamedStream{
		{"spelling", []string{"S0 LOGIN", "S0 SELECT mb1",
			`U MSC 0 s1:\seen,$Kw:l1:mb1/s2:FLAGGED,\flagged,seen:l1:mb1+mb2/s3:$KW,AnSwErEd:l2:mb1`,
			"U MFU s1 seen,$kw", "U MFU s1 $KW,SEEN", `U MFU s1 \seen,$Kw`, `U MFU s1 seen,SEEN,\seen,$kw,$KW`,
			"U MMU s1 mb1 SeEn,$kW", "U MMU s2 mb2+mb1 seen,flagged", `U MMU s2 mb1+mb2 \SEEN,\FLAGGED,\seen`,
			"U MSU 0 s1:SEEN,$KW:l1:mb1", `U MSU 1 s2:\flagged,\SEEN:l1:mb2+mb1`, "U MSU 0 s3:answered,$kw:l2:mb1",
			"U MSC 1 s1:SEEN:l1:mb1", "U MSC 0 s3:ANSWERED,$Kw:l2:mb1/s1:-:l1:mb1",
			"U MFU s1 SEEN,$KW,flagged", `U MFU s1 \FLAGGED`, "U MFU s1 flagged", `U MFU s1 \flagged,Draft`, "U MFU s1 DRAFT,FLAGGED",
			`S0 STORE 1 + \seen`, "U MFU s1 seen,flagged,draft", `S0 STORE 1 - \SEEN`, "U MFU s1 draft,flagged",
			"S0 STORE 2 + ANSWERED", "U MFU s2 flagged,seen,answered", "U MMU s2 mb1+mb2 answered,seen,flagged",
			`S0 APPEND mb1 \seen,FLAGGED x1`, "U MFU a1 seen,flagged", `U MMU a1 mb1 \FLAGGED,\SEEN`, "U MFU a1 flagged,seen,flagged",
			"S0 COPY 1 mb2", "U MMU s1 mb1+mb2 Draft,Flagged", "U MSU 0 s1:draft,flagged,DRAFT:l1:mb2+mb1",
			"X CHECK"}},
		{"sizes-half", []string{"S0 LOGIN", "S0 SELECT mb1",
			one("a", 1), one("b", 2), one("c", H-1), one("d", H), one("e", H+1), one("e", H+1), "X CHECK"}},
		{"sizes-limit", []string{"S0 LOGIN", "S0 SELECT mb1", "S1 LOGIN", "S1 SELECT mb2",
			one("a", L-1), "U MSC 0 " + rng("b", L, "-", "l1", "mb2"), "U MSC 1 " + rng("c", L+1, "-", "l2", "mb1+nomb"),
			// lists of mailbox ids (most of them unknown to the server: dropped) around the limit, the known ones last
			fmt.Sprintf("U MMU a1 x#1-%d+mb2 seen", L), fmt.Sprintf("U MMU a1 mb1+x#1-%d+mb2 seen", L-2),
			fmt.Sprintf("U MMU a1 x#1-%d+mb2+mb1 SEEN", 2*L-1), fmt.Sprintf("U MSC 1 z1:-:l1:x#1-%d+mb2+y#1-%d+mb1", L, L),
			"X CHECK"}},
		{"sizes-above", []string{"S0 LOGIN", "S0 SELECT mb1", "S1 LOGIN", "S1 SELECT mb2",
			one("a", L+H), "U MSC 0 " + rng("b", 2*L+1, "-", "l1", "mb2"), "X CHECK"}},
		{"sizes-spread", []string{"S0 LOGIN", "S0 SELECT mb1", "S1 LOGIN", "S1 SELECT mb2",
			// H+1 each for two mailboxes and H/2 for both (per mailbox: no multiple of H); flag rows: 2 per message
			"U MSC 0 " + rng("p", H+1, "-", "l1", "mb1") + "/" + rng("q", H+1, `seen,\flagged`, "l2", "mb2") + "/" + rng("r", H/2, "$kw", "l1", "mb1+mb2"),
			// more than L messages to create, fewer than H for every mailbox
			"U MSC 0 " + rng("t", L/3+2, "-", "l1", "0") + "/" + rng("u", L/3, "seen", "l1", "mb1") + "/" + rng("v", L/3, "-", "l2", "mb2"),
			// known and new messages mixed: H known (already in mb2), H+1 new
			"U MSC 0 " + rng("q", H, "-", "l2", "mb1") + "/" + rng("w", H+1, "-", "l1", "mb1"),
			"U MFU q1 FLAGGED,seen", "X CHECK"}},
	}
}


// ---- kind x client-prepared state ----------------------------------------------------------
//
// The STATE an update meets is not only what earlier updates made of the index: client commands get there first.
// cuPrepStates: the states of the object an update names that only (or mostly) CLIENT commands produce, judged by
// the judge on the index and the sessions the update met (counted for valid, effective updates only):
//
//	mailbox updates  subscribed | unsubscribed (UNSUBSCRIBE) | deleted-subscription (the mailbox's name is in
//	                 deleted_subscriptions: a client deleted a subscribed mailbox of that name) | selected (by a live
//	                 session) | holding-messages | rows-flagged-deleted (STORE +FLAGS \Deleted) | having-inferiors
//	MailboxCreated / MailboxUpdated  name-deleted-subscription (the NEW name is in deleted_subscriptions) |
//	                 name-client-deleted (a client deleted the mailbox that had the name; MailboxCreated only)
//	message updates  deleted-in-one-mailbox | deleted-in-several-mailboxes (\Deleted set by clients) |
//	                 expunged-still-known (a client expunged its last copy; the message row is still there) |
//	                 flagged-by-client | in-selected-mailbox | in-several-mailboxes
var cuPrepMboxStates = []string{"subscribed", "unsubscribed", "deleted-subscription", "selected", "holding-messages", "rows-flagged-deleted", "having-inferiors"}
var cuPrepMsgStates = []string{"deleted-in-one-mailbox", "deleted-in-several-mailboxes", "expunged-still-known", "flagged-by-client", "in-selected-mailbox", "in-several-mailboxes"}

// cuPrepReachable: the cells of kind x prepared state (all of them can be reached through client commands)
var cuPrepReachable = map[string][]string{
	"MailboxCreated":          {"name-deleted-subscription", "name-client-deleted"},
	"MailboxDeleted":          cuPrepMboxStates,
	"MailboxUpdated":          append(append([]string{}, cuPrepMboxStates...), "name-deleted-subscription"),
	"MailboxIDChanged":        cuPrepMboxStates,
	"MessagesCreated":         cuPrepMsgStates,
	"MessageMailboxesUpdated": cuPrepMsgStates,
	"MessageFlagsUpdated":     cuPrepMsgStates,
	"MessageDeleted":          cuPrepMsgStates,
	"MessageUpdated":          cuPrepMsgStates,
	// (a message that is in a mailbox when its id changes: known finding row-remote-id-copy)
	"MessageIDChanged": {"deleted-in-one-mailbox", "expunged-still-known", "flagged-by-client", "in-selected-mailbox"},
}

// cuDirectedPrepared: the directed streams that walk through every cell of kind x prepared state (run on every
// check after cuDirectedExtra, whatever the seed; the setup is put in front). Every object is prepared by client
// commands, then meets one valid update of each kind; after a MailboxDeleted the name is used again by a
// MailboxCreated (the deletion must really be gone).
func cuDirectedPrepared() []cuNamedStream {
	five := func(prefix, mbs string) string { return fmt.Sprintf("U MSC 0 %s#1-5:-:l1:%s", prefix, mbs) }
	return []cuNamedStream{
		{"prepared-mailbox-deleted", []string{"S0 LOGIN", "S1 LOGIN",
			"U MC p1 pa", "S0 UNSUBSCRIBE pa", "U MD p1", "U MD p1", "U MC p1b pa",
			"U MC p2 pb", "S0 SELECT pb", "U MD p2", "S0 LOGIN", "U MC p2b pb",
			"U MC p3 pc", "S0 APPEND pc - x1", "U MD p3", "U MC p3b pc",
			"U MC p4 pd", "U MC p5 pd/in", "U MD p4", "U MC p4b pd",
			"U MC p6 pe", "S0 DELETE pe", "U MD p6", "U MC p7 pe", "U MD p7", "U MC p7b pe",
			"U MC p8 pf", "S0 APPEND pf - x1", "S0 APPEND pf - x2", "S0 SELECT pf", `S0 STORE 1 + deleted`, "S0 SELECT INBOX", "U MD p8", "U MC p8b pf",
			"U MC p9 pg", "S1 UNSUBSCRIBE pg", "S1 DELETE pg", "U MD p9", "U MC p10 pg", "S1 UNSUBSCRIBE pg", "S1 SUBSCRIBE pg", "U MD p10",
			// unsubscribed AND selected AND holding messages with inferiors
			"U MC p11 ph", "U MC p12 ph/in", "S1 APPEND ph seen x1", "S1 SELECT ph", "S0 UNSUBSCRIBE ph", "U MD p11", "S1 LOGIN", "U MC p11b ph",
			"X CHECK"}},
		{"prepared-mailbox-updated", []string{"S0 LOGIN", "S1 LOGIN",
			"U MC q1 qa", "S0 UNSUBSCRIBE qa", "U MU q1 qa2", "U MU q1 qa2",
			"S0 SELECT qa2", "U MU q1 qa3", "S0 APPEND qa3 - x1", "U MU q1 qa4", `S0 STORE 1 + deleted`, "U MU q1 qa5",
			"U MC q2 qa5/in", "U MU q1 qa6", "S1 SUBSCRIBE qa6", "U MU q1 qa7",
			"U MC q3 qb", "S1 DELETE qb", "U MD q3", "U MU q1 qb", "U MU q1 qb2", "S1 UNSUBSCRIBE qb",
			// the mailbox a client renamed-around: a new mailbox under the name of a deleted subscribed one
			"U MC q4 qc", "S1 DELETE qc", "U MC q5 qc", "U MU q5 qc2", "U MD q4", "U MD q5",
			"X CHECK"}},
		{"prepared-mailbox-id-changed", []string{"S0 LOGIN", "S1 LOGIN",
			"U MC r1 ra", "S1 UNSUBSCRIBE ra", "U MI @r1 r1a", "U MI @r1a r1a",
			"S1 SELECT ra", "U MI @r1a r1b", "S1 APPEND ra - x1", "U MI @r1b r1c", `S1 STORE 1 + deleted`, "U MI @r1c r1d",
			"U MC r2 ra/in", "U MI @r1d r1e", "S0 SUBSCRIBE ra", "U MI @r1e r1f",
			"U MC r3 rb", "S0 DELETE rb", "U MD r3", "U MC r4 rb", "U MI @r4 r4a", "U MD r4a", "U MC r5 rb",
			"U MD r1f", "X CHECK"}},
		{"prepared-messages", []string{"S0 LOGIN", "S1 LOGIN",
			// \Deleted in the one mailbox it is in
			"U MC xa xa", "S0 SELECT xa", five("a", "xa"), `S0 STORE 1:5 + deleted`,
			"U MFU a1 flagged", "U MMU a2 xa+mb2 seen", "U MSD a3", "U MSU 0 a4:seen:l1:xa", "U MSC 0 a5:-:l1:xa+mb2",
			// \Deleted in both mailboxes it is in
			"U MC xb xb", "U MC xc xc", "S0 SELECT xb", "S1 SELECT xc", five("b", "xb+xc"), `S0 STORE 1:5 + deleted`, `S1 STORE 1:5 + deleted`,
			"U MFU b1 flagged", "U MMU b2 xb seen", "U MSD b3", "U MSU 0 b4:seen:l2:xb+xc", "U MSC 1 b5:-:l1:xb+xc+mb1",
			// expunged by the client, the message itself is still known
			"U MC xd xd", "S0 SELECT xd", five("c", "xd"), `S0 STORE 1:5 + deleted`, "S0 EXPUNGE",
			"U MFU c1 flagged", "U MMU c2 xd seen", "U MSD c3", "U MSU 0 c4:seen:l1:xd", "U MSC 0 c5:-:l1:xd",
			// flags set and cleared by clients
			"U MC xe xe", "S0 SELECT xe", five("d", "xe"), `S0 STORE 1:5 + flagged`, `S0 STORE 2:3 + answered`, `S0 STORE 3 - flagged`,
			"U MFU d1 seen", "U MMU d2 xe+mb2 flagged,seen", "U MSD d3", "U MSU 0 d4:flagged,answered:l1:xe", "U MSC 0 d5:-:l1:xe+mb2",
			// copied and moved by clients
			"U MC xf xf", "S0 SELECT xf", five("e", "xf"), "S0 COPY 1:5 mb1", "S0 MOVE 4 mb2",
			"U MFU e1 flagged", "U MMU e2 mb1 seen", "U MSD e3", "U MSU 0 e4:seen:l1:xf", "U MSC 0 e5:-:l1:mb2",
			"X CHECK"}},
		{"prepared-message-id", []string{"S0 LOGIN",
			"U MC xg xg", "S0 SELECT xg", "U MSC 0 g#1-3:-:l1:xg", `S0 STORE 3 + deleted`, "S0 EXPUNGE", `S0 STORE 1 + flagged`, `S0 STORE 2 + deleted`,
			"U MSI @g3 g3x", "U MFU g3x seen", "U MSI @g1 g1x", "U MSD g1x", "U MSI @g2 g2x", "U MSD g2x", "X CHECK"}},
	}
}

func (g *cuGen) fresh(prefix string) string {
	g.nMbox++
	return fmt.Sprintf("%s%d", prefix, g.nMbox)
}

// liveMbox / liveMsg: a remote id the index knows right now ("" = none); the generator asks the index itself,
// so that the variant it aims at is the variant the judge will see.
func (g *cuGen) liveMbox(run *cuRunner) string {
	var l []string
	for _, rid := range g.mboxRids {
		if rid != "@REC" {
			if _, ok := run.mboxInternalID(rid); ok {
				l = append(l, rid)
			}
		}
	}
	if len(l) == 0 {
		return ""
	}
	return Pick(g.r, l)
}

func (g *cuGen) liveMsg(run *cuRunner) string {
	var l []string
	for _, rid := range append(append([]string{}, g.msgRids...), run.conn.remoteMsgs()...) {
		if _, ok := run.msgInternalID(rid); ok {
			l = append(l, rid)
		}
	}
	if len(l) == 0 {
		return ""
	}
	return Pick(g.r, l)
}

// liveFlagged: a live message that has flags in the index, and those flags as the index spells them
// (needLit: the generator knows its literal tag).
func (g *cuGen) liveFlagged(run *cuRunner, needLit bool) (string, []string) {
	var l []string
	for _, rid := range append(append([]string{}, g.msgRids...), run.conn.remoteMsgs()...) {
		if needLit && g.msgLit[rid] == "" {
			continue
		}
		if _, ok := run.msgInternalID(rid); ok && len(run.msgSpelledFlags(rid)) > 0 {
			l = append(l, rid)
		}
	}
	if len(l) == 0 {
		return "", nil
	}
	rid := Pick(g.r, l)
	return rid, run.msgSpelledFlags(rid)
}

func (g *cuGen) liveMbs(run *cuRunner, extra ...string) string {
	out := append([]string{}, extra...)
	for k := g.r.Range(1, 2); k > 0; k-- {
		if b := g.liveMbox(run); b != "" && !cuContainsStr(out, b) {
			out = append(out, b)
		}
	}
	if len(out) == 0 {
		return "-"
	}
	for i := len(out) - 1; i > 0; i-- {
		j := g.r.Intn(i + 1)
		out[i], out[j] = out[j], out[i]
	}
	return strings.Join(out, "+")
}

func cuContainsStr(l []string, x string) bool {
	for _, y := range l {
		if y == x {
			return true
		}
	}
	return false
}

// variant: an update of the kind aimed at the variant ("" = cannot be built in this state).
func (g *cuGen) variant(run *cuRunner, kind, v string) string {
	r := g.r
	if v == "duplicate" {
		// the kinds without arguments: the update, and once more right away
		if st, ok := map[string]string{"Unknown": "U BAD", "UIDValidityBumped": "U UVB", "Noop": "U NOP"}[kind]; ok {
			g.queue = append(g.queue, st)
			return st
		}
		for i := len(run.steps) - 1; i >= 0; i-- {
			if strings.HasPrefix(run.steps[i], "U ") {
				return run.steps[i]
			}
		}
		return ""
	}
	mb, msg := g.liveMbox(run), g.liveMsg(run)
	newMsg := func(mbs string) string {
		g.nMsg++
		rid := fmt.Sprintf("m%d", g.nMsg)
		g.msgRids = append(g.msgRids, rid)
		lit, fl := Pick(r, []string{"l1", "l2"}), g.flags()
		g.msgLit[rid], g.msgMbs[rid], g.msgFlags[rid] = lit, mbs, fl
		return fmt.Sprintf("%s:%s:%s:%s", rid, fl, lit, mbs)
	}
	newName := func() string {
		n := g.fresh("vbox")
		g.names = append(g.names, n)
		return n
	}
	newMboxRid := func() string {
		rid := g.fresh("vb")
		g.mboxRids = append(g.mboxRids, rid)
		return rid
	}
	switch kind + "." + v {
	case "MailboxCreated.valid":
		rid, n := newMboxRid(), newName()
		g.mboxName[rid] = n
		return fmt.Sprintf("U MC %s %s", rid, n)
	case "MailboxCreated.protected-id":
		return "U MC @REC " + g.fresh("recbox")
	case "MailboxCreated.protected-name":
		return "U MC " + g.fresh("vp") + " @REC"
	case "MailboxCreated.restating":
		if mb != "" && g.mboxName[mb] != "" {
			return fmt.Sprintf("U MC %s %s", mb, g.mboxName[mb])
		}
	case "MailboxDeleted.valid":
		if mb != "" && mb != "0" {
			return "U MD " + mb
		}
	case "MailboxDeleted.unknown-id", "MailboxDeleted.restating":
		return "U MD " + Pick(r, []string{"nomb", "ghost"})
	case "MailboxDeleted.protected-id":
		return "U MD @REC"
	case "MailboxUpdated.valid":
		if mb != "" && mb != "0" {
			n := newName()
			g.mboxName[mb] = n
			return fmt.Sprintf("U MU %s %s", mb, n)
		}
	case "MailboxUpdated.unknown-id":
		return "U MU nomb " + g.fresh("vn")
	case "MailboxUpdated.protected-id":
		return "U MU @REC " + g.fresh("vn")
	case "MailboxUpdated.protected-name":
		if mb != "" {
			return fmt.Sprintf("U MU %s @REC", mb)
		}
	case "MailboxUpdated.restating":
		if mb != "" && g.mboxName[mb] != "" {
			return fmt.Sprintf("U MU %s %s", mb, g.mboxName[mb])
		}
	case "MailboxIDChanged.valid":
		if mb != "" {
			rid := newMboxRid()
			g.mboxName[rid] = g.mboxName[mb]
			return fmt.Sprintf("U MI @%s %s", mb, rid)
		}
	case "MailboxIDChanged.unknown-id":
		return "U MI " + Pick(r, []string{"#77", "@nomb"}) + " " + g.fresh("vx")
	case "MailboxIDChanged.protected-id":
		if mb != "" && r.Chance(1, 2) {
			return fmt.Sprintf("U MI @%s @REC", mb)
		}
		return "U MI " + Pick(r, []string{"#1", "@@REC"}) + " " + g.fresh("vx")
	case "MailboxIDChanged.restating":
		if mb != "" {
			return fmt.Sprintf("U MI @%s %s", mb, mb)
		}
	case "MessagesCreated.valid":
		if mb != "" {
			return fmt.Sprintf("U MSC %d %s", r.Intn(2), newMsg(g.liveMbs(run, mb)))
		}
	case "MessagesCreated.unknown-id":
		return fmt.Sprintf("U MSC %d %s", r.Intn(2), newMsg(g.liveMbs(run, "nomb")))
	case "MessagesCreated.protected-id":
		if r.Chance(1, 2) {
			return fmt.Sprintf("U MSC %d %s", r.Intn(2), newMsg("@REC"))
		}
		return fmt.Sprintf("U MSC %d %s/%s", r.Intn(2), newMsg(g.liveMbs(run, "@REC")), newMsg(g.liveMbs(run)))
	case "MessagesCreated.restating":
		if msg != "" && g.msgMbs[msg] != "" {
			return fmt.Sprintf("U MSC 1 %s:%s:%s:%s", msg, g.flags(), g.msgLit[msg], g.msgMbs[msg])
		}
	case "MessageMailboxesUpdated.valid":
		if msg != "" && mb != "" {
			mbs, fl := g.liveMbs(run, mb), g.flags()
			g.msgMbs[msg], g.msgFlags[msg] = mbs, fl
			return fmt.Sprintf("U MMU %s %s %s", msg, mbs, fl)
		}
	case "MessageMailboxesUpdated.unknown-id":
		if msg != "" && r.Chance(1, 2) {
			return fmt.Sprintf("U MMU %s %s %s", msg, g.liveMbs(run, "nomb"), g.flags())
		}
		return fmt.Sprintf("U MMU %s %s %s", Pick(r, []string{"nomsg", "ghostmsg"}), g.liveMbs(run), g.flags())
	case "MessageMailboxesUpdated.protected-id":
		if msg != "" {
			return fmt.Sprintf("U MMU %s %s %s", msg, g.liveMbs(run, "@REC"), g.flags())
		}
		return fmt.Sprintf("U MMU nomsg %s -", g.liveMbs(run, "@REC"))
	case "MessageMailboxesUpdated.restating":
		if msg != "" && g.msgMbs[msg] != "" {
			return fmt.Sprintf("U MMU %s %s %s", msg, g.msgMbs[msg], g.msgFlags[msg])
		}
	case "MessageFlagsUpdated.valid":
		if msg != "" {
			fl := g.flags()
			g.msgFlags[msg] = fl
			return fmt.Sprintf("U MFU %s %s", msg, fl)
		}
	case "MessageFlagsUpdated.unknown-id":
		return fmt.Sprintf("U MFU %s %s", Pick(r, []string{"nomsg", "ghostmsg"}), g.flags())
	case "MessageFlagsUpdated.restating":
		if msg != "" && g.msgFlags[msg] != "" {
			return fmt.Sprintf("U MFU %s %s", msg, g.msgFlags[msg])
		}
	case "MessageIDChanged.valid":
		if msg != "" {
			g.nMsg++
			rid := fmt.Sprintf("mi%d", g.nMsg)
			g.msgRids = append(g.msgRids, rid)
			g.msgLit[rid], g.msgMbs[rid], g.msgFlags[rid] = g.msgLit[msg], g.msgMbs[msg], g.msgFlags[msg]
			return fmt.Sprintf("U MSI @%s %s", msg, rid)
		}
	case "MessageIDChanged.unknown-id":
		g.nMsg++
		return fmt.Sprintf("U MSI %s mi%d", Pick(r, []string{"#1", "@nomsg"}), g.nMsg)
	case "MessageIDChanged.restating":
		if msg != "" {
			return fmt.Sprintf("U MSI @%s %s", msg, msg)
		}
	case "MessageDeleted.valid":
		if msg != "" {
			return "U MSD " + msg
		}
	case "MessageDeleted.unknown-id", "MessageDeleted.restating":
		return "U MSD " + Pick(r, []string{"nomsg", "ghostmsg"})
	case "MessageUpdated.valid":
		if msg != "" && mb != "" && g.msgLit[msg] != "" {
			lit, mbs, fl := Pick(r, []string{g.msgLit[msg], "l3"}), g.liveMbs(run, mb), g.flags()
			g.msgLit[msg], g.msgMbs[msg], g.msgFlags[msg] = lit, mbs, fl
			return fmt.Sprintf("U MSU %d %s:%s:%s:%s", r.Intn(2), msg, fl, lit, mbs)
		}
		if mb != "" {
			return "U MSU 1 " + newMsg(g.liveMbs(run, mb))
		}
	case "MessageUpdated.unknown-id":
		if msg != "" && g.msgLit[msg] != "" && r.Chance(1, 2) {
			return fmt.Sprintf("U MSU %d %s:%s:%s:%s", r.Intn(2), msg, g.flags(), g.msgLit[msg], g.liveMbs(run, "nomb"))
		}
		return fmt.Sprintf("U MSU 0 %s:%s:l1:%s", Pick(r, []string{"nomsg", "ghostmsg"}), g.flags(), g.liveMbs(run))
	case "MessageUpdated.protected-id":
		if msg != "" && g.msgLit[msg] != "" && r.Chance(1, 2) {
			return fmt.Sprintf("U MSU %d %s:%s:%s:%s", r.Intn(2), msg, g.flags(), g.msgLit[msg], g.liveMbs(run, "@REC"))
		}
		return fmt.Sprintf("U MSU 1 %s:%s:l1:%s", Pick(r, []string{"nomsg", "ghostmsg"}), g.flags(), g.liveMbs(run, "@REC"))
	case "MessageUpdated.restating":
		if msg != "" && g.msgMbs[msg] != "" && g.msgLit[msg] != "" {
			return fmt.Sprintf("U MSU %d %s:%s:%s:%s", r.Intn(2), msg, g.msgFlags[msg], g.msgLit[msg], g.msgMbs[msg])
		}
	case "MessageFlagsUpdated.restating-other-spelling", "MessageFlagsUpdated.restating-other-order",
		"MessageMailboxesUpdated.restating-other-spelling", "MessageMailboxesUpdated.restating-other-order",
		"MessageUpdated.restating-other-spelling", "MessageUpdated.restating-other-order",
		"MessagesCreated.restating-other-spelling":
		// what the index says about a live message, said again - in other letters / in another order
		rid, stored := g.liveFlagged(run, kind == "MessageUpdated" || kind == "MessagesCreated")
		if rid == "" {
			return ""
		}
		var toks []string
		for _, sp := range stored {
			toks = append(toks, cuFlagToken(sp))
		}
		if strings.HasSuffix(v, "other-spelling") {
			toks = g.respell(toks, stored)
			if r.Chance(1, 3) {
				toks = append(toks, g.respell(toks[:1], stored)...) // and one of them once more
			}
			for i := len(toks) - 1; i > 0; i-- {
				j := r.Intn(i + 1)
				toks[i], toks[j] = toks[j], toks[i]
			}
		} else {
			// descending order of the names the dump sorts by; a single flag is said twice
			sort.Slice(toks, func(i, j int) bool { return cuFlagShort(cuFlagLong(toks[i])) > cuFlagShort(cuFlagLong(toks[j])) })
			if len(toks) == 1 || r.Chance(1, 3) {
				toks = append(toks, toks[0])
			}
		}
		fl := strings.Join(toks, ",")
		mbs := run.msgMboxRids(rid)
		if mbs == "" {
			mbs = "-"
		} else if p := strings.Split(mbs, "+"); len(p) > 1 && r.Chance(1, 2) {
			p[0], p[len(p)-1] = p[len(p)-1], p[0]
			mbs = strings.Join(p, "+")
		}
		switch kind {
		case "MessageFlagsUpdated":
			return fmt.Sprintf("U MFU %s %s", rid, fl)
		case "MessageMailboxesUpdated":
			return fmt.Sprintf("U MMU %s %s %s", rid, mbs, fl)
		case "MessageUpdated":
			return fmt.Sprintf("U MSU %d %s:%s:%s:%s", r.Intn(2), rid, fl, g.msgLit[rid], mbs)
		default:
			return fmt.Sprintf("U MSC %d %s:%s:%s:%s", r.Intn(2), rid, fl, g.msgLit[rid], mbs)
		}
	case "UIDValidityBumped.valid":
		return "U UVB"
	case "Noop.valid", "Noop.restating":
		return "U NOP"
	}
	return ""
}


// mboxUpdateOn: a valid update of one of the kinds that name an existing mailbox, aimed at this one
func (g *cuGen) mboxUpdateOn(rid string) string {
	switch g.r.Intn(3) {
	case 0:
		return "U MD " + rid
	case 1:
		n := g.fresh("pbox")
		g.names = append(g.names, n)
		g.mboxName[rid] = n
		return fmt.Sprintf("U MU %s %s", rid, n)
	default:
		nrid := g.fresh("px")
		g.mboxRids = append(g.mboxRids, nrid)
		return fmt.Sprintf("U MI @%s %s", rid, nrid)
	}
}

// msgUpdateOn: a valid update of one of the kinds that name an existing message, aimed at this one
func (g *cuGen) msgUpdateOn(run *cuRunner, rid string) string {
	lit := g.msgLit[rid]
	if lit == "" {
		lit = Pick(g.r, []string{"l1", "l2", "l3"})
	}
	switch g.r.Intn(6) {
	case 0:
		return fmt.Sprintf("U MFU %s %s", rid, g.flags())
	case 1:
		return fmt.Sprintf("U MMU %s %s %s", rid, g.liveMbs(run), g.flags())
	case 2:
		return "U MSD " + rid
	case 3:
		return fmt.Sprintf("U MSU %d %s:%s:%s:%s", g.r.Intn(2), rid, g.flags(), lit, g.liveMbs(run))
	case 4:
		return fmt.Sprintf("U MSC %d %s:%s:%s:%s", g.r.Intn(2), rid, g.flags(), lit, g.liveMbs(run))
	default:
		g.nMsg++
		return fmt.Sprintf("U MSI @%s mi%d", rid, g.nMsg)
	}
}

// prepared: client commands that put a mailbox / a message into a state only clients produce, followed by a valid
// connector update naming that object (nil = nothing to prepare in this state). The steps are sent one after the other.
func (g *cuGen) prepared(run *cuRunner) []string {
	r := g.r
	i := r.Intn(g.nsess)
	o := run.observer(i)
	if o == nil || !o.alive {
		return nil
	}
	if r.Chance(1, 2) {
		// a mailbox
		rid := g.liveMbox(run)
		if rid == "" || rid == "0" {
			return nil
		}
		name := run.mboxNameOf(rid)
		if name == "" || name == cuRecoveryName || strings.Contains(name, " ") {
			return nil
		}
		var pre []string
		switch r.Intn(8) {
		case 0, 1:
			pre = []string{fmt.Sprintf("S%d UNSUBSCRIBE %s", i, name)}
		case 2:
			// deleted by the client while subscribed; the connector confirms and creates a mailbox of that name again
			nrid := g.fresh("pb")
			g.mboxRids = append(g.mboxRids, nrid)
			g.mboxName[nrid] = name
			return []string{fmt.Sprintf("S%d DELETE %s", i, name), "U MD " + rid, fmt.Sprintf("U MC %s %s", nrid, name), g.mboxUpdateOn(nrid)}
		case 3:
			nrid := g.fresh("pb")
			g.mboxRids = append(g.mboxRids, nrid)
			g.mboxName[nrid] = name
			return []string{fmt.Sprintf("S%d UNSUBSCRIBE %s", i, name), fmt.Sprintf("S%d DELETE %s", i, name), fmt.Sprintf("U MC %s %s", nrid, name)}
		case 4:
			pre = []string{fmt.Sprintf("S%d SELECT %s", i, name)}
		case 5:
			pre = []string{fmt.Sprintf("S%d APPEND %s %s x1", i, name, g.flags()), fmt.Sprintf("S%d SELECT %s", i, name), fmt.Sprintf("S%d STORE 1 + deleted", i)}
		case 6:
			pre = []string{fmt.Sprintf("S%d CREATE %s/in%d", i, name, g.nMbox)}
		default:
			pre = []string{fmt.Sprintf("S%d UNSUBSCRIBE %s", i, name), fmt.Sprintf("S%d SUBSCRIBE %s", i, name)}
		}
		return append(pre, g.mboxUpdateOn(rid))
	}
	// a message of the mailbox the session has selected
	if o.selected == "" {
		return nil
	}
	rids := run.mboxRowRids(cuDecodeStepName(o.selected))
	if len(rids) == 0 {
		return nil
	}
	k := r.Intn(len(rids))
	rid, seq := rids[k], k+1
	other := "INBOX"
	if len(g.names) > 0 {
		other = Pick(r, g.names)
	}
	var pre []string
	switch r.Intn(6) {
	case 0:
		pre = []string{fmt.Sprintf("S%d STORE %d + deleted", i, seq)}
	case 1:
		pre = []string{fmt.Sprintf("S%d COPY %d %s", i, seq, other), fmt.Sprintf("S%d STORE %d + deleted", i, seq)}
	case 2:
		pre = []string{fmt.Sprintf("S%d STORE %d + deleted", i, seq), fmt.Sprintf("S%d EXPUNGE", i)}
	case 3:
		pre = []string{fmt.Sprintf("S%d STORE %d + %s", i, seq, g.spell(Pick(r, []string{"seen", "flagged", "answered", "draft"})))}
	case 4:
		pre = []string{fmt.Sprintf("S%d STORE 1:* + deleted", i)}
	default:
		pre = []string{fmt.Sprintf("S%d MOVE %d %s", i, seq, other)}
	}
	return append(pre, g.msgUpdateOn(run, rid))
}

// cuDecodeStepName: the mailbox name a step token stands for
func cuDecodeStepName(n string) string {
	if n == "@REC" {
		return cuRecoveryName
	}
	return n
}

// probe: a valid, effective update (sent right after every refused one: the pipeline must go on)
func (g *cuGen) probe(run *cuRunner) string {
	for _, k := range []string{Pick(g.r, []string{"MailboxCreated", "MessagesCreated", "MessageFlagsUpdated", "MailboxUpdated", "MessageMailboxesUpdated"}), "MailboxCreated"} {
		if s := g.variant(run, k, "valid"); s != "" {
			return s
		}
	}
	return "U NOP"
}

// cuLastRefused: the last step sent was an update and it was refused (acknowledged with an error)
func cuLastRefused(run *cuRunner) bool {
	n := len(run.steps)
	return n > 0 && n == len(run.out) && strings.HasPrefix(run.steps[n-1], "U ") && strings.HasPrefix(run.out[n-1], "err:")
}

func (g *cuGen) next(run *cuRunner) string {
	r := g.r
	if len(g.queue) > 0 {
		s := g.queue[0]
		g.queue = g.queue[1:]
		return s
	}
	for i := 0; i < g.nsess; i++ {
		o := run.observer(i)
		if o == nil || !o.alive {
			return fmt.Sprintf("S%d LOGIN", i)
		}
		if o.selected == "" && r.Chance(4, 5) {
			n := "INBOX"
			if len(g.names) > 0 && (i > 0 || r.Chance(1, 3)) {
				n = Pick(r, g.names)
			}
			return fmt.Sprintf("S%d SELECT %s", i, n)
		}
	}
	if cuLastRefused(run) && !g.probed {
		// whatever was refused, and why: the next valid update must be applied and acknowledged
		g.probed = true
		s := g.probe(run)
		g.uSteps = append(g.uSteps, s)
		return s
	}
	g.probed = false
	c := r.Intn(100)
	switch {
	case c < 22:
		// aim at one cell of the kind x variant table
		kind := Pick(r, cuKinds)
		vs := strings.Fields(cuReachable[kind])
		if s := g.variant(run, kind, Pick(r, vs)); s != "" {
			g.uSteps = append(g.uSteps, s)
			return s
		}
		fallthrough
	case c < 50:
		s := g.update()
		g.uSteps = append(g.uSteps, s)
		return s
	case c < 65:
		if len(g.uSteps) == 0 {
			return "U NOP"
		}
		if r.Chance(1, 2) {
			return g.uSteps[len(g.uSteps)-1]
		}
		return Pick(r, g.uSteps)
	case c < 72:
		if s := g.echo(run); s != "" {
			g.uSteps = append(g.uSteps, s)
			return s
		}
		return "U NOP"
	case c < 77:
		return "X CHECK"
	case c < 83:
		// an object prepared by client commands meets a valid update
		if st := g.prepared(run); len(st) > 0 {
			for _, x := range st[1:] {
				g.queue = append(g.queue, x)
				if strings.HasPrefix(x, "U ") {
					g.uSteps = append(g.uSteps, x)
				}
			}
			if strings.HasPrefix(st[0], "U ") {
				g.uSteps = append(g.uSteps, st[0])
			}
			return st[0]
		}
	}
	i := r.Intn(g.nsess)
	o := run.observer(i)
	name := "INBOX"
	if len(g.names) > 0 && r.Chance(1, 2) {
		name = Pick(r, g.names)
	}
	seq := "1"
	if o.exists > 0 {
		seq = strconv.Itoa(r.Range(1, o.exists))
	}
	switch k := r.Intn(24); {
	case k >= 20:
		// the commands that touch the subscription tables, and DELETE
		if len(g.names) > 0 {
			name = Pick(r, g.names)
		}
		return fmt.Sprintf("S%d %s %s", i, Pick(r, []string{"UNSUBSCRIBE", "UNSUBSCRIBE", "SUBSCRIBE", "DELETE"}), name)
	case k < 5:
		return fmt.Sprintf("S%d APPEND %s %s %s", i, name, g.flags(), Pick(r, []string{"x1", "x2"}))
	case k < 10:
		return fmt.Sprintf("S%d STORE %s %s %s", i, seq, Pick(r, []string{"+", "-"}), g.spell(Pick(r, []string{"seen", "flagged", "answered", "deleted"})))
	case k < 13:
		return fmt.Sprintf("S%d COPY %s %s", i, seq, name)
	case k < 15:
		return fmt.Sprintf("S%d MOVE %s %s", i, seq, name)
	case k < 16:
		return fmt.Sprintf("S%d EXPUNGE", i)
	case k < 17:
		n := g.newName()
		return fmt.Sprintf("S%d CREATE %s", i, n)
	case k < 18:
		return fmt.Sprintf("S%d SELECT %s", i, name)
	default:
		return fmt.Sprintf("S%d NOOP", i)
	}
}

// ---- running, judging, reporting ----------------------------------------------------------

var cuSetup = []string{"U MC 0 INBOX", "U MC mb1 mb1", "U MC mb2 mb2"}

func runCuStream(rng *Rng, nsteps int, replay []string) (*cuRunner, error) {
	run, err := newCuRunner()
	if err != nil {
		return nil, err
	}
	defer run.Close()
	if replay != nil {
		for _, st := range replay {
			if err := run.Exec(st); err != nil {
				return run, fmt.Errorf("step %q: %w", st, err)
			}
			if run.fatal != "" || run.abandon != "" {
				return run, nil // run.steps = the steps up to and including the one the server failed on
			}
		}
		return run, nil
	}
	g := newCuGen(rng.Fork(), rng.Range(1, 2))
	g.mboxRids = []string{"0", "mb1", "mb2"}
	g.names = []string{"mb1", "mb2"}
	g.mboxName["0"], g.mboxName["mb1"], g.mboxName["mb2"] = "INBOX", "mb1", "mb2"
	for _, st := range cuSetup {
		if err := run.Exec(st); err != nil {
			return run, err
		}
		if run.abandon != "" {
			return run, nil
		}
	}
	for k := 0; k < nsteps && run.fatal == "" && run.abandon == ""; k++ {
		if err := run.Exec(g.next(run)); err != nil {
			return run, err
		}
	}
	if run.fatal == "" && run.abandon == "" {
		if err := run.Exec("X CHECK"); err != nil {
			return run, err
		}
	}
	return run, nil
}

func cuJudgeLine(steps, obs []string) string {
	enc := func(l []string) string {
		out := make([]string, len(l))
		for i, s := range l {
			out[i] = strings.ReplaceAll(s, " ", "|")
		}
		return strings.Join(out, ";")
	}
	return "judge-c06-stream " + cuLimits + " " + enc(steps) + " => " + strings.Join(obs, "^")
}

// cuVerdict asks the Lean judge; "" = ok.
func cuVerdict(run *cuRunner) (string, bool) {
	if run.fatal != "" {
		return "harness: " + run.fatal, false
	}
	if os.Getenv("VERIF_DRIVER") == "" {
		return "", false
	}
	ans, err := leanJudge([]string{cuJudgeLine(run.steps, run.out)})
	if err != nil || len(ans) != 1 {
		return fmt.Sprintf("lean judge failed: %v", err), false
	}
	a := ans[0]
	if i := strings.LastIndex(a, "cov="); i >= 0 {
		for _, c := range strings.Split(strings.TrimSpace(a[i+4:]), ",") {
			if p := strings.Split(c, ":"); len(p) == 2 && run.cov != nil {
				run.cov[p[0]] += atoi(p[1])
			}
		}
		a = strings.TrimSuffix(strings.TrimSpace(a[:i]), "|||")
		a = strings.TrimSpace(a)
	}
	if strings.HasPrefix(a, "ok") {
		return "", strings.HasPrefix(a, "ok nontrivial")
	}
	return a, false
}

func shrinkCu(steps []string, same func(string) bool, budget int) []string {
	fails := func(st []string) bool {
		run, err := runCuStream(nil, 0, st)
		if run == nil || err != nil {
			return false
		}
		v, _ := cuVerdict(run)
		return v != "" && same(v)
	}
	cur := steps
	for chunk := len(cur) / 2; chunk >= 1 && budget > 0; {
		removed := false
		for i := 0; i+chunk <= len(cur) && budget > 0; {
			cand := append(append([]string{}, cur[:i]...), cur[i+chunk:]...)
			budget--
			if fails(cand) {
				cur = cand
				removed = true
			} else {
				i += chunk
			}
		}
		if !removed || chunk > 1 {
			chunk /= 2
		}
	}
	return cur
}

// cuViolationClasses: a verdict lists the first failure of every class, separated by " ||| ".
func cuViolationClasses(v string) map[string]string {
	out := map[string]string{}
	for _, part := range strings.Split(v, " ||| ") {
		f := strings.Fields(part)
		cls := "other"
		for i, w := range f {
			if w == "class" && i+1 < len(f) {
				cls = f[i+1]
				break
			}
		}
		// different causes within one class are different findings
		for _, w := range f {
			if strings.HasPrefix(w, "cause=") {
				cls += "/" + strings.TrimPrefix(w, "cause=")
				break
			}
		}
		// an acknowledgement failure is reported once per kind of update
		if strings.HasPrefix(cls, "ack/") {
			for _, w := range f {
				if strings.HasPrefix(w, "kind=") {
					cls += "/" + strings.TrimPrefix(w, "kind=")
					break
				}
			}
		}
		if _, ok := out[cls]; !ok {
			out[cls] = part
		}
	}
	return out
}

// cuAckMinimise: the shortest of a few candidate prefixes that still shows the acknowledgement failure of the
// last step (every failing candidate costs one watchdog, so this is not the general shrinker): the update
// alone; after the setup; without the client steps; everything up to it.
func cuAckMinimise(steps []string, cls string) (*cuRunner, string) {
	if len(steps) == 0 {
		return nil, ""
	}
	last := steps[len(steps)-1]
	var onlyU []string
	for _, st := range steps {
		if strings.HasPrefix(st, "U ") {
			onlyU = append(onlyU, st)
		}
	}
	cands := [][]string{{last}, append(append([]string{}, cuSetup...), last), onlyU, steps}
	for _, c := range cands {
		if len(c) > len(steps) {
			continue
		}
		run, err := runCuStream(nil, 0, c)
		if run == nil || err != nil {
			continue
		}
		v, _ := cuVerdict(run)
		if part, ok := cuViolationClasses(v)[cls]; ok {
			return run, part
		}
	}
	return nil, ""
}

// cuStepMinimise: the setup, the LOGIN / SELECT steps before step k (the step named by the verdict) and step k;
// returned if it shows the same class of failure.
func cuStepMinimise(steps []string, verdict, cls string) (*cuRunner, string) {
	f := strings.Fields(verdict)
	k := 0
	for i, w := range f {
		if w == "step" && i+1 < len(f) {
			k = atoi(f[i+1])
			break
		}
	}
	if k <= len(cuSetup) || k > len(steps) {
		return nil, ""
	}
	var cand []string
	for i, st := range steps[:k-1] {
		w := strings.Fields(st)
		if i < len(cuSetup) || (strings.HasPrefix(w[0], "S") && len(w) > 1 && (w[1] == "LOGIN" || w[1] == "SELECT")) {
			cand = append(cand, st)
		}
	}
	cand = append(cand, steps[k-1])
	if len(cand) >= len(steps) {
		return nil, ""
	}
	run, err := runCuStream(nil, 0, cand)
	if run == nil || err != nil {
		return nil, ""
	}
	v, _ := cuVerdict(run)
	if part, ok := cuViolationClasses(v)[cls]; ok {
		return run, part
	}
	return nil, ""
}

// cuParseReplay: the steps of a replay file and the limits named in its first line.
func cuParseReplay(text string) ([]string, string) {
	lim := "default"
	var st []string
	for i, l := range strings.Split(text, "\n") {
		l = strings.TrimRight(l, "\r")
		if i == 0 {
			for _, w := range strings.Fields(l) {
				if strings.HasPrefix(w, "limits=") {
					lim = strings.TrimPrefix(w, "limits=")
				}
			}
			continue
		}
		if strings.TrimSpace(l) == "" || strings.HasPrefix(l, "#") {
			continue
		}
		st = append(st, l)
	}
	return st, lim
}

func runCuOracle(args []string) int {
	fs := flag.NewFlagSet("c06updates", flag.ExitOnError)
	seed := fs.Uint64("seed", 1, "")
	out := fs.String("out", "", "")
	replayDir := fs.String("replaydir", ".", "")
	replay := fs.String("replay", "", "")
	n := fs.Int("n", 20, "streams")
	steps := fs.Int("steps", 40, "steps per stream")
	lim := fs.String("limits", "default", "IMAP limits: default or mailboxes,messages,uid,uidvalidity")
	limN := fs.Int("limn", 0, "additional streams under small limits")
	limSmall := fs.String("limsmall", "7,4,9,30", "the small limits")
	ackWatch := fs.Duration("ackwatch", 3*time.Second, "watchdog of every single acknowledgement")
	watchBudget := fs.Int("watchbudget", 10, "abandoned servers (expired watchdog, panic) after which no further stream is started")
	_ = fs.Parse(args)
	cuLimits = *lim
	cuAckWatch = *ackWatch
	res := &OracleResult{Stats: map[string]int{}}
	report := func(st, obs []string, verdict, note string) {
		text := "oracle c06updates limits=" + cuLimits + "\n" + strings.Join(st, "\n") + "\n"
		text += fmt.Sprintf("# property C06: %s\n# %s\n# replay: ./check C06 --replay <this file>\n", verdict, note)
		for i, o := range obs {
			if i < len(st) {
				if len(o) > 1500 {
					o = fmt.Sprintf("%s…(%d bytes)", o[:1500], len(o))
				}
				text += fmt.Sprintf("# observed %-40s => %s\n", st[i], o)
			}
		}
		name := fmt.Sprintf("C06-updates-%d-%d.txt", *seed, len(res.Violations))
		path := filepath.Join(*replayDir, name)
		_ = os.MkdirAll(*replayDir, 0o755)
		_ = os.WriteFile(path, []byte(text), 0o644)
		res.Violations = append(res.Violations, OracleViol{Desc: "C06: " + verdict, Replay: path})
	}
	// the kind x variant table (counted by the judge on what the index really held when the update arrived)
	table := func() {
		zero := 0
		cells := 0
		var holes []string
		for _, k := range cuKinds {
			for _, v := range cuVariants {
				if !cuCellReachable(k, v) {
					continue
				}
				cells++
				c := res.Stats["judge.t."+k+"."+v]
				delete(res.Stats, "judge.t."+k+"."+v)
				res.Stats["table."+k+"."+v] = c
				if c == 0 {
					zero++
					holes = append(holes, k+"."+v)
				}
			}
		}
		// batch sizes of valid MessagesCreated relative to db.ChunkLimit (classes counted by the judge)
		sizeHoles := 0
		for _, c := range []string{"one-mailbox.lt-half", "one-mailbox.eq-half", "one-mailbox.short-last-chunk", "one-mailbox.multiple-of-half", "total.gt-limit", "total.le-limit"} {
			if res.Stats["judge.msc.size."+c] == 0 {
				sizeHoles++
				holes = append(holes, "size:"+c)
			}
		}
		// kind x client-prepared state (counted by the judge for valid, effective updates on the index and the
		// sessions they met)
		prepCells, prepZero := 0, 0
		for _, k := range cuKinds {
			for _, v := range cuPrepReachable[k] {
				prepCells++
				c := res.Stats["judge.p."+k+"."+v]
				delete(res.Stats, "judge.p."+k+"."+v)
				res.Stats["prep."+k+"."+v] = c
				if c == 0 {
					prepZero++
					holes = append(holes, "prepared:"+k+"."+v)
				}
			}
		}
		res.Stats["prep.cells-reachable"] = prepCells
		res.Stats["prep.cells-zero"] = prepZero
		res.Stats["sizes.classes-zero"] = sizeHoles
		res.Stats["table.cells-reachable"] = cells
		res.Stats["table.cells-zero"] = zero
		if zero > 0 || sizeHoles > 0 || prepZero > 0 {
			fmt.Fprintln(os.Stderr, "kind x variant cells / size classes never exercised:", strings.Join(holes, " "))
		}
	}
	finish := func() int {
		if *replay == "" {
			table()
		}
		res.Stats["watchdogs-expired"] = cuWatchExpired
		if *out != "" {
			writeResult(*out, res)
		}
		b, _ := json.Marshal(res.Stats)
		fmt.Fprintln(os.Stderr, string(b))
		for _, v := range res.Violations {
			fmt.Fprintln(os.Stderr, "VIOL", v.Desc, v.Replay)
		}
		return 0
	}
	if *replay != "" {
		b, err := os.ReadFile(*replay)
		if err != nil {
			fmt.Println(err)
			return 1
		}
		st, lim := cuParseReplay(string(b))
		cuLimits = lim
		run, err := runCuStream(nil, 0, st)
		if err != nil {
			fmt.Fprintln(os.Stderr, "replay error:", err)
		}
		res.Evaluations = 1
		res.DistinctNontrivial = 1
		if run != nil {
			if histVerbose {
				fmt.Fprintln(os.Stderr, cuJudgeLine(run.steps, run.out))
			}
			if v, _ := cuVerdict(run); v != "" {
				cl := cuViolationClasses(v)
				var names []string
				for c := range cl {
					names = append(names, c)
				}
				sort.Strings(names)
				for _, c := range names {
					report(run.steps, run.out, cl[c], "replayed")
				}
			}
		}
		return finish()
	}
	rng := NewRng(*seed)
	reported := map[string]int{}
	abandoned := 0 // servers given up (expired watchdog, panic): bounds the run, see budgetLeft
	// judged: a finished (or abandoned) run is judged; every class of failure is reported once, with a replay
	// that is as short as we can make it within the budget. shrink = the general shrinker may be used.
	judged := func(run *cuRunner, origin string, shrink bool) {
		v, nontrivial := cuVerdict(run)
		for _, key := range sortedKeys(run.cov) {
			res.Stats["judge."+key] += run.cov[key]
		}
		if nontrivial {
			res.DistinctNontrivial++
		}
		if run.abandon != "" {
			abandoned++
			res.Stats["streams.abandoned."+strings.SplitN(run.abandon, "(", 2)[0]]++
			if v == "" {
				// must not happen: the judge refuses every stream that ends in a missing acknowledgement or a panic
				v = "violation step " + strconv.Itoa(len(run.steps)) + " class harness : server abandoned (" + run.abandon + ") but the judge saw nothing wrong"
			}
		}
		if v == "" {
			return
		}
		classes := cuViolationClasses(v)
		var names []string
		for c := range classes {
			names = append(names, c)
		}
		sort.Strings(names)
		for _, cls := range names {
			res.Stats["violation."+cls]++
			if reported[cls] >= 1 || len(res.Violations) >= 8 {
				continue
			}
			reported[cls]++
			cls := cls
			vv, obs, st := classes[cls], run.out, run.steps
			note := origin
			switch {
			case strings.HasPrefix(cls, "ack"):
				// the failing update is the last step of the run: a few cheap candidates, each under the watchdog
				before := cuWatchExpired
				rs, part := cuAckMinimise(run.steps, cls)
				if rs == nil && (run.abandon == "noack" || run.abandon == "nottaken") {
					// an expired watchdog that does not show again, not even when the same steps are sent once more
					// with three times the patience, was a stall of this machine, not the server's doing
					cuAckWatch *= 3
					rs, part = cuAckMinimise(run.steps, cls)
					cuAckWatch /= 3
					if rs == nil {
						res.Stats["ack-failure-not-reproduced"]++
						fmt.Fprintf(os.Stderr, "not reproduced (%s): %s\n", origin, vv)
						cuWatchExpired = before
						reported[cls]--
						continue
					}
				}
				res.Stats["watchdogs-expired.while-minimising"] += cuWatchExpired - before
				cuWatchExpired = before // the budget counts the streams, not the minimisation
				if rs != nil {
					vv, obs, st = part, rs.out, rs.steps
					note = fmt.Sprintf("the connector steps up to and including the update in question; cut down from %d steps (%s)", len(run.steps), origin)
				}
			case strings.HasPrefix(origin, "directed stream"):
				// a long directed stream: does the step the judge points at fail by itself (after the setup and the
				// logins / selects before it)? One extra run.
				if rs, part := cuStepMinimise(run.steps, vv, cls); rs != nil {
					vv, obs, st = part, rs.out, rs.steps
					note = fmt.Sprintf("the step in question after the setup; cut down from %d steps (%s)", len(run.steps), origin)
				} else if !strings.Contains(strings.Join(run.steps, " "), "#") {
					// it needs more of the steps before it: the general shrinker (streams of small updates only:
					// every attempt is one server run)
					small := shrinkCu(run.steps, func(x string) bool { _, ok := cuViolationClasses(x)[cls]; return ok }, 40)
					if rs, _ := runCuStream(nil, 0, small); rs != nil && len(small) < len(run.steps) {
						if x, _ := cuVerdict(rs); x != "" {
							if part, ok := cuViolationClasses(x)[cls]; ok {
								vv, obs, st = part, rs.out, rs.steps
								note = fmt.Sprintf("minimised from %d steps (%s)", len(run.steps), origin)
							}
						}
					}
				}
			case shrink:
				small := shrinkCu(run.steps, func(x string) bool { _, ok := cuViolationClasses(x)[cls]; return ok }, 60)
				if rs, _ := runCuStream(nil, 0, small); rs != nil {
					if x, _ := cuVerdict(rs); x != "" {
						if part, ok := cuViolationClasses(x)[cls]; ok {
							vv, obs, st = part, rs.out, rs.steps
						}
					}
				}
				note = fmt.Sprintf("minimised from %d steps (%s)", len(run.steps), origin)
			}
			report(st, obs, vv, note)
		}
	}
	budgetLeft := func() bool {
		if abandoned >= *watchBudget {
			res.Stats["stopped-early.abandoned-servers-budget"] = 1
			return false
		}
		return true
	}
	// past failures and directed scenarios first: every corpus/C06/*.txt replay file
	if dir := os.Getenv("VERIF_CORPUS"); dir != "" {
		ents, _ := os.ReadDir(dir)
		var names []string
		for _, e := range ents {
			if strings.HasSuffix(e.Name(), ".txt") {
				names = append(names, e.Name())
			}
		}
		sort.Strings(names)
		for _, name := range names {
			b, err := os.ReadFile(filepath.Join(dir, name))
			if err != nil || !strings.HasPrefix(string(b), "oracle c06updates") {
				continue
			}
			if !budgetLeft() {
				break
			}
			st, lim := cuParseReplay(string(b))
			cuLimits = lim
			run, err := runCuStream(nil, 0, st)
			if run == nil {
				res.Stats["setup-failed"]++
				continue
			}
			res.Evaluations++
			res.Stats["corpus.streams"]++
			if err != nil {
				report(run.steps, run.out, "corpus "+name+" aborted: "+err.Error(), "corpus file")
				continue
			}
			judged(run, "corpus file "+name, false)
		}
		cuLimits = *lim
	}
	// then, for every kind of update, the stream that walks through its variants
	for _, kind := range cuKinds {
		if !budgetLeft() {
			break
		}
		run, err := runCuStream(nil, 0, append(append([]string{}, cuSetup...), cuDirected[kind]...))
		if run == nil {
			res.Stats["setup-failed"]++
			continue
		}
		res.Evaluations++
		res.Stats["directed.streams"]++
		res.Stats["steps"] += len(run.steps)
		for _, key := range sortedKeys(run.stats) {
			res.Stats[key] += run.stats[key]
		}
		if err != nil {
			report(run.steps, run.out, "directed stream "+kind+" aborted: "+err.Error(), "directed stream")
			continue
		}
		judged(run, "directed stream "+kind, false)
	}
	// then the dimensions that cut across the kinds: spelling of flags, sizes of batches, states prepared by clients
	for _, ds := range append(cuDirectedExtra(), cuDirectedPrepared()...) {
		if !budgetLeft() {
			break
		}
		run, err := runCuStream(nil, 0, append(append([]string{}, cuSetup...), ds.steps...))
		if run == nil {
			res.Stats["setup-failed"]++
			continue
		}
		res.Evaluations++
		res.Stats["directed.streams"]++
		res.Stats["directed."+ds.name]++
		res.Stats["steps"] += len(run.steps)
		for _, key := range sortedKeys(run.stats) {
			res.Stats[key] += run.stats[key]
		}
		if err != nil {
			report(run.steps, run.out, "directed stream "+ds.name+" aborted: "+err.Error(), "directed stream")
			continue
		}
		judged(run, "directed stream "+ds.name, false)
	}
	total := *n + *limN
	for k := 0; k < total && budgetLeft(); k++ {
		// the last limN streams run under small IMAP limits (limit errors, generator consumed by failed creates)
		if k >= *n {
			cuLimits = *limSmall
		}
		sr := rng.Fork()
		run, err := runCuStream(sr, *steps, nil)
		if run == nil {
			fmt.Fprintln(os.Stderr, "stream setup failed:", err)
			res.Stats["setup-failed"]++
			continue
		}
		res.Evaluations++
		if k >= *n {
			res.Stats["streams.small-limits"]++
		}
		res.Stats["steps"] += len(run.steps)
		for _, key := range sortedKeys(run.stats) {
			res.Stats[key] += run.stats[key]
		}
		if len(res.Samples) < 2 {
			res.Samples = append(res.Samples, map[string]any{"stream": run.steps, "observed": run.out})
		}
		if err != nil {
			if reported["abort"] < 2 {
				reported["abort"]++
				report(run.steps, run.out, "stream aborted: "+err.Error(), "server error, dropped connection or timeout")
			}
			continue
		}
		judged(run, fmt.Sprintf("seed %d, stream %d", *seed, k), true)
	}
	return finish()
}

func init() { RegisterOracle(&Oracle{Name: "c06updates", Run: runCuOracle}) }
