package main

// Diagnostic tool (C03): `vh oracle c03raw -script FILE` runs raw IMAP command lines against a fresh server and
// prints the transcript.  Lines: `S<i> <command>` (LOGIN = login as user; `APPEND <mb> <flags|-> <marker>`), `BARRIER`.

import (
	"flag"
	"fmt"
	"os"
	"strings"

	"github.com/ProtonMail/gluon/imap"
)

func runC03Raw(args []string) int {
	fs := flag.NewFlagSet("c03raw", flag.ExitOnError)
	script := fs.String("script", "", "")
	_ = fs.Parse(args)
	b, err := os.ReadFile(*script)
	if err != nil {
		fmt.Println(err)
		return 2
	}
	sys, err := NewSys(SysOpts{})
	if err != nil {
		fmt.Println(err)
		return 2
	}
	defer sys.Close(true)
	for _, m := range c03Mailboxes[1:] {
		fl := imap.NewFlagSet(imap.FlagSeen, imap.FlagFlagged, imap.FlagDeleted, imap.FlagAnswered, imap.FlagDraft)
		_ = sys.Conn.MailboxCreated(imap.Mailbox{ID: imap.MailboxID(m), Name: []string{m}, Flags: fl, PermanentFlags: fl, Attributes: imap.NewFlagSet()})
	}
	_ = sys.Conn.MailboxCreated(imap.Mailbox{ID: imap.MailboxID("par-kid"), Name: []string{"par", "kid"}, Flags: imap.NewFlagSet(), PermanentFlags: imap.NewFlagSet(), Attributes: imap.NewFlagSet()})
	_ = sys.Barrier()
	sess := map[string]*Client{}
	for _, l := range strings.Split(string(b), "\n") {
		l = strings.TrimSpace(l)
		if l == "" || strings.HasPrefix(l, "#") {
			continue
		}
		if l == "BARRIER" {
			sys.Conn.ClearUpdates()
			fmt.Println("-- barrier:", sys.Barrier())
			continue
		}
		f := strings.SplitN(l, " ", 2)
		c := sess[f[0]]
		if c == nil {
			c, err = sys.Dial(f[0])
			if err != nil {
				fmt.Println(err)
				return 2
			}
			sess[f[0]] = c
		}
		var rep Reply
		w := strings.Fields(f[1])
		switch {
		case f[1] == "LOGIN":
			rep = c.Login("user")
		case w[0] == "APPEND" && len(w) == 4:
			fl := ""
			if w[2] != "-" {
				fl = strings.ReplaceAll(w[2], ",", " ")
			}
			rep = c.Append(w[1], fl, c03Message(w[3]))
		default:
			rep = c.Cmd(f[1])
		}
		fmt.Printf("%s> %s\n", f[0], f[1])
		for _, u := range rep.Untagged {
			if len(u) > 160 {
				u = u[:160] + "…"
			}
			fmt.Printf("%s< %s\n", f[0], strings.ReplaceAll(u, "\r\n", "\\r\\n"))
		}
		fmt.Printf("%s< %s %v\n", f[0], rep.Tagged, rep.Err)
	}
	return 0
}

func init() { RegisterOracle(&Oracle{Name: "c03raw", Run: runC03Raw}) }
