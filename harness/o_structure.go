package main

// Oracle `c12structure` (C12): imap.NewParsedMessage / rfc822.Parse(...).Walk /
// rfc5322.ParseAddressList on the real code, in a CHILD PROCESS (a Go stack overflow is fatal, not
// recoverable: it has to be observed, not suffered), on
//   (a) garbage byte strings, (b) mutated valid messages,
//   (c) messages built from a random MIME tree (reported BODYSTRUCTURE compared with the tree:
//       types, parameters, sizes, line counts),
//   (d) deep nesting: multiparts, message/rfc822, header comments `((((…`,
//   (e) size / depth boundaries (case kind `shape`, d_mimedeep.go): chains of multiparts, of embedded
//       messages and alternating ones nested 1..1025 (thorough: 4097) levels deep around the usual caps,
//       multiparts with up to 10000 parts, long boundaries / header lines / parameter lists: reported
//       BODYSTRUCTURE = the tree the message was built from, Walk visits as many sections with as long
//       part paths as the tree has, FETCH BODY[path] of the deepest path (and some prefixes) returns
//       exactly the addressed part's bytes.
// Every produced ENVELOPE / BODY / BODYSTRUCTURE text is checked with the Go s-expression checker
// and, through the `sexp` dialect of the Lean model driver, with the executable Lean reader
// `Gluon.Mime.parseSexp` (the definition the theorem `paramlist_wellformed` is about).
//
//	vh oracle c12structure -seed S -out result.json -replaydir DIR [-n N] [-deep quick|thorough|none] [-driver PATH]
//	vh oracle c12structure -replay FILE -out result.json
//	vh oracle c12structure -worker            (internal: runs cases from stdin)

import (
	"bufio"
	"bytes"
	"crypto/sha1"
	"encoding/hex"
	"encoding/json"
	"flag"
	"fmt"
	"io"
	"os"
	"os/exec"
	"path/filepath"
	"strconv"
	"strings"
	"time"

	"github.com/ProtonMail/gluon/imap"
	"github.com/ProtonMail/gluon/rfc5322"
	"github.com/ProtonMail/gluon/rfc822"
	"github.com/ProtonMail/gluon/verifhooks"
)

// ---------------------------------------------------------------------------------------------
// cases

type c12case struct {
	kind   string // msg | built | addr | deep
	class  string // garbage | mutated | built | addr | deep-<kind>
	data   []byte
	expect string // built: canonical expected structure; `expectFlat`: the same with defect A applied
	flat   string
	deepK  string
	depth  int
	width  int // shape cases: second size
}

func (c *c12case) line() string {
	switch c.kind {
	case "deep":
		return fmt.Sprintf("deep %s %d", c.deepK, c.depth)
	case "shape":
		return fmt.Sprintf("shape %s %d %d", c.deepK, c.depth, c.width)
	case "built":
		return fmt.Sprintf("built %s %s %s", mimeHex(c.data), mimeHex([]byte(c.expect)), mimeHex([]byte(c.flat)))
	default:
		return fmt.Sprintf("%s %s", c.kind, mimeHex(c.data))
	}
}

func c12ParseCaseLine(l string) (*c12case, bool) {
	w := strings.Split(strings.TrimSpace(l), " ")
	switch {
	case len(w) == 3 && w[0] == "deep":
		d, err := strconv.Atoi(w[2])
		if err != nil {
			return nil, false
		}
		return &c12case{kind: "deep", class: "deep-" + w[1], deepK: w[1], depth: d}, true
	case len(w) == 4 && w[0] == "shape":
		d, err1 := strconv.Atoi(w[2])
		wd, err2 := strconv.Atoi(w[3])
		if err1 != nil || err2 != nil || c12ShapeTree(c12ShapeSpec{w[1], 1, 1}) == nil {
			return nil, false
		}
		return &c12case{kind: "shape", class: "shape-" + w[1], deepK: w[1], depth: d, width: wd}, true
	case len(w) == 4 && w[0] == "built":
		return &c12case{kind: "built", class: "built", data: mimeUnhex(w[1]), expect: string(mimeUnhex(w[2])), flat: string(mimeUnhex(w[3]))}, true
	case len(w) == 2 && (w[0] == "msg" || w[0] == "addr"):
		return &c12case{kind: w[0], class: w[0], data: mimeUnhex(w[1])}, true
	}
	return nil, false
}

// c12DeepMessage builds the nesting bombs.
func c12DeepMessage(kind string, d int) []byte {
	switch kind {
	case "comment-open": // unclosed comments in an address header (finding #9)
		return []byte("From: " + strings.Repeat("(", d) + " a@b.c\r\nTo: x@y.z\r\n\r\nbody")
	case "comment-closed":
		return []byte("To: " + strings.Repeat("(", d) + strings.Repeat(")", d) + " a@b.c\r\n\r\nbody")
	case "rfc822":
		return []byte(strings.Repeat("Content-Type: message/rfc822\r\n\r\n", d) + "Subject: leaf\r\n\r\nx")
	case "multipart":
		var sb strings.Builder
		for i := 0; i < d; i++ {
			fmt.Fprintf(&sb, "Content-Type: multipart/mixed; boundary=b%d\r\n\r\n--b%d\r\n", i, i)
		}
		sb.WriteString("\r\nleaf")
		for i := d - 1; i >= 0; i-- {
			fmt.Fprintf(&sb, "\r\n--b%d--", i)
		}
		return []byte(sb.String())
	case "multipart-same": // the same boundary at every level
		var sb strings.Builder
		for i := 0; i < d; i++ {
			sb.WriteString("Content-Type: multipart/mixed; boundary=b\r\n\r\n--b\r\n")
		}
		sb.WriteString("\r\nleaf\r\n--b--")
		return []byte(sb.String())
	case "quote-open": // unterminated quoted string / escapes in a display name
		return []byte("From: \"" + strings.Repeat("\\\"", d) + " <a@b.c>\r\n\r\nbody")
	case "angle": // nested angle brackets / route
		return []byte("From: " + strings.Repeat("<", d) + "a@b.c" + strings.Repeat(">", d) + "\r\n\r\nbody")
	case "group":
		return []byte("To: " + strings.Repeat("g:", d) + "a@b.c" + strings.Repeat(";", d) + "\r\n\r\nbody")
	case "domain-literal":
		return []byte("To: a@" + strings.Repeat("[", d) + "1.2.3.4" + strings.Repeat("]", d) + "\r\n\r\nbody")
	}
	return nil
}

// ---------------------------------------------------------------------------------------------
// expected structure of a built tree, in a canonical text form (and the same form read off a
// reported BODYSTRUCTURE)

func c12QInner(s string) string {
	q := strconv.Quote(s)
	return q[1 : len(q)-1]
}

func c12CanonParams(ps [][2]string) string {
	cp := append([][2]string{}, ps...)
	for i := 1; i < len(cp); i++ { // insertion sort by key
		for j := i; j > 0 && cp[j][0] < cp[j-1][0]; j-- {
			cp[j], cp[j-1] = cp[j-1], cp[j]
		}
	}
	var sb []string
	for _, p := range cp {
		sb = append(sb, c12QInner(p[0])+"="+c12QInner(p[1]))
	}
	return strings.Join(sb, ",")
}

func c12CountLines(b []byte) int {
	n := bytes.Count(b, []byte{'\n'})
	if len(b) > 0 && b[len(b)-1] != '\n' {
		n++
	}
	return n
}

// expectCanon: flat=true applies defect A (message/rfc822 holding a multipart is reported as a
// multipart with subtype "rfc822" and the message part's parameters).
func (n *mimeNode) expectCanon(eol string, flat bool) string {
	switch {
	case n.emb != nil:
		emb := n.emb.render(eol)
		// Section.load hoists the children through a whole chain of embedded messages
		inner := n.emb
		for inner.emb != nil {
			inner = inner.emb
		}
		if flat && inner.typ == "multipart" {
			var kids []string
			for _, k := range inner.kids {
				kids = append(kids, k.expectCanon(eol, flat))
			}
			return fmt.Sprintf("M{%s;%s;[%s]}", "rfc822", c12CanonParams(n.params), strings.Join(kids, " "))
		}
		return fmt.Sprintf("R{%s;%d;%d;%s}", c12CanonParams(n.params), len(emb), c12CountLines(emb), n.emb.expectCanon(eol, flat))
	case n.typ == "multipart":
		var kids []string
		for _, k := range n.kids {
			kids = append(kids, k.expectCanon(eol, flat))
		}
		ps := append([][2]string{{"boundary", n.boundary}}, n.params...)
		return fmt.Sprintf("M{%s;%s;[%s]}", c12QInner(n.sub), c12CanonParams(ps), strings.Join(kids, " "))
	default:
		lines := ""
		if n.typ == "text" {
			lines = strconv.Itoa(c12CountLines(n.body))
		}
		return fmt.Sprintf("L{%s/%s;%s;%d;%s}", c12QInner(n.typ), c12QInner(n.sub), c12CanonParams(n.params), len(n.body), lines)
	}
}

func sxStr(it *sx) string {
	switch it.kind {
	case 's':
		return string(it.raw)
	case 'n':
		return ""
	case '#':
		return string(it.raw)
	}
	return "?"
}

func sxParams(it *sx) string {
	if it.kind != '(' || len(it.items)%2 != 0 {
		return "?"
	}
	var sb []string
	for i := 0; i+1 < len(it.items); i += 2 {
		sb = append(sb, sxStr(it.items[i])+"="+sxStr(it.items[i+1]))
	}
	return strings.Join(sb, ",")
}

// c12ReportedCanon reads the canonical form off a parsed BODYSTRUCTURE item.
func c12ReportedCanon(it *sx) string {
	if it.kind != '(' || len(it.items) == 0 {
		return "?"
	}
	if it.items[0].kind == '(' { // multipart
		k := 0
		var kids []string
		for k < len(it.items) && it.items[k].kind == '(' {
			kids = append(kids, c12ReportedCanon(it.items[k]))
			k++
		}
		if k+1 >= len(it.items) {
			return "?"
		}
		return fmt.Sprintf("M{%s;%s;[%s]}", sxStr(it.items[k]), sxParams(it.items[k+1]), strings.Join(kids, " "))
	}
	if len(it.items) < 7 {
		return "?"
	}
	ty, sub := sxStr(it.items[0]), sxStr(it.items[1])
	if ty == "message" && sub == "rfc822" {
		if len(it.items) < 10 {
			return "?"
		}
		return fmt.Sprintf("R{%s;%s;%s;%s}", sxParams(it.items[2]), sxStr(it.items[6]), sxStr(it.items[9]), c12ReportedCanon(it.items[8]))
	}
	lines := ""
	if ty == "text" {
		if len(it.items) < 8 {
			return "?"
		}
		lines = sxStr(it.items[7])
	}
	return fmt.Sprintf("L{%s/%s;%s;%s;%s}", ty, sub, sxParams(it.items[2]), sxStr(it.items[6]), lines)
}

// ---------------------------------------------------------------------------------------------
// worker (child process): one result line per case line

func c12WorkerRun(l string) (out string) {
	c, ok := c12ParseCaseLine(l)
	if !ok {
		return "bad-case"
	}
	defer func() {
		if p := recover(); p != nil {
			out = "panic " + mimeHex([]byte(fmt.Sprint(p)))
		}
	}()
	switch c.kind {
	case "addr":
		as, err := rfc5322.ParseAddressList(string(c.data))
		if err != nil {
			return "err"
		}
		return fmt.Sprintf("ok %d", len(as))
	case "shape":
		return c12WorkerShape(c)
	case "deep":
		msg := c12DeepMessage(c.deepK, c.depth)
		if msg == nil {
			return "bad-case"
		}
		pm, err := imap.NewParsedMessage(msg)
		if err != nil {
			return "err"
		}
		nsec := 0
		werr := rfc822.Parse(msg).Walk(func(*rfc822.Section) error { nsec++; return nil })
		if werr != nil {
			return "err walk"
		}
		depth := 0
		if items, ok := sxParse([]byte(pm.Structure)); ok && len(items) == 1 {
			depth = sxDepth(items[0])
		}
		// the texts themselves can be tens of MB: check here, report verdicts (and the text
		// when small enough for the Lean reader)
		small := "-"
		if len(pm.Structure) <= 60000 {
			small = mimeHex([]byte(pm.Structure))
		}
		return fmt.Sprintf("okdeep %s %s %s %d %d %s", b2s(sxIsParenList([]byte(pm.Body))), b2s(sxIsParenList([]byte(pm.Structure))),
			b2s(sxIsParenList([]byte(pm.Envelope))), depth, nsec, small)
	default:
		msg := c.data
		pm, err := imap.NewParsedMessage(msg)
		if err != nil {
			return "err"
		}
		var sb []string
		werr := rfc822.Parse(msg).Walk(func(s *rfc822.Section) error {
			h := cap(msg) - cap(s.Header())
			b := cap(msg) - cap(s.Body())
			sb = append(sb, fmt.Sprintf("%d:%d:%d:%d", len(s.Identifier()), h, b, b+len(s.Body())))
			return nil
		})
		if werr != nil {
			return "err walk"
		}
		return fmt.Sprintf("ok %s %s %s %s", mimeHex([]byte(pm.Body)), mimeHex([]byte(pm.Structure)), mimeHex([]byte(pm.Envelope)), strings.Join(sb, ";"))
	}
}

// c12CanonDepth: nesting depth of a canonical structure text (`{` … `}`)
func c12CanonDepth(s string) int {
	d, m := 0, 0
	for i := 0; i < len(s); i++ {
		switch s[i] {
		case '{':
			d++
			m = max(m, d)
		case '}':
			d--
		}
	}
	return m
}

func c12Dotted(path []int) string {
	var sb []string
	for _, p := range path {
		sb = append(sb, strconv.Itoa(p))
	}
	return strings.Join(sb, ".")
}

// c12WorkerShape: a message of a given shape (d_mimedeep.go) through the real code:
//   - NewParsedMessage: the three texts are lists; BODYSTRUCTURE read back = the tree the message was
//     built from (or that tree with the known flattening of message/rfc822-holding-a-multipart),
//   - Parse+Walk: as many sections and as long part paths as the tree has,
//   - FETCH BODY[path] (state.fetchAttributeBodySection) for the deepest path and some of its prefixes:
//     exactly the body bytes of the addressed part.
//
// answer: `okshape <b> <s> <e> <tree|flat|mismatch> <walk ok|bad> <part ok|bad> <listdepth> <hex structure detail>
// <hex walk detail> <hex part detail> <hextext|->`
func c12WorkerShape(c *c12case) string {
	t, msg := c12ShapeMessage(c12ShapeSpec{c.deepK, c.depth, c.width})
	if t == nil {
		return "bad-case"
	}
	pm, err := imap.NewParsedMessage(msg)
	if err != nil {
		return "err"
	}
	var dStruct, dWalk, dPart []string
	// structure
	verdict := "mismatch"
	listDepth := 0
	if items, ok := sxParse([]byte(pm.Structure)); ok && len(items) == 1 {
		listDepth = sxDepth(items[0])
		got := c12ReportedCanon(items[0])
		expect, flat := t.expectCanon("\r\n", false), t.expectCanon("\r\n", true)
		switch {
		case got == expect:
			verdict = "tree"
		case got == flat:
			verdict = "flat"
		default:
			gd, ed := c12CanonDepth(got), c12CanonDepth(flat)
			if gd != ed {
				dStruct = append(dStruct, fmt.Sprintf("tree-depth-differs: BODYSTRUCTURE nests %d parts deep, the MIME tree %d", gd, ed))
			}
			i := 0
			for i < len(got) && i < len(flat) && got[i] == flat[i] {
				i++
			}
			cut := func(s string) string { return s[max(0, i-60):min(len(s), i+160)] }
			dStruct = append(dStruct, fmt.Sprintf("structure differs at offset %d of the canonical text: expected …%s… reported …%s…", i, cut(flat), cut(got)))
		}
	}
	// sections
	wantN, wantD := t.c12SecShape()
	gotN, gotD := 0, 0
	werr := rfc822.Parse(msg).Walk(func(s *rfc822.Section) error {
		gotN++
		gotD = max(gotD, len(s.Identifier()))
		return nil
	})
	walk := "ok"
	switch {
	case werr != nil:
		walk = "bad"
		dWalk = append(dWalk, "Walk returned an error: "+werr.Error())
	case gotD != wantD:
		walk = "bad"
		dWalk = append(dWalk, fmt.Sprintf("tree-depth-differs: Walk's longest part path has %d numbers, the MIME tree's %d (sections %d / %d)", gotD, wantD, gotN, wantN))
	case gotN != wantN:
		walk = "bad"
		dWalk = append(dWalk, fmt.Sprintf("Walk visited %d sections, the MIME tree has %d", gotN, wantN))
	}
	// body sections
	part := "ok"
	path, nodes := t.c12DeepestPath()
	seen := map[int]bool{}
	for _, k := range []int{len(path), len(path) - 1, len(path) / 2, 1} {
		if k < 1 || k > len(path) || seen[k] {
			continue
		}
		seen[k] = true
		want := nodes[k].renderBody("\r\n")
		res, ferr, p := verifhooks.FetchBodySection(msg, path[:k], "", nil, false, 0, 0)
		wantItem := fmt.Sprintf("BODY[%s] {%d}\r\n%s", c12Dotted(path[:k]), len(want), want)
		switch {
		case p != nil:
			part = "bad"
			dPart = append(dPart, fmt.Sprintf("BODY[%s] (path of %d numbers) panicked: %v", c12Dotted(path[:k]), k, p))
		case ferr != nil:
			part = "bad"
			dPart = append(dPart, fmt.Sprintf("BODY[%s] (path of %d numbers) failed: %v", c12Dotted(path[:k]), k, ferr))
		case res != wantItem:
			part = "bad"
			show := func(s string) string {
				if len(s) > 120 {
					s = s[:60] + "…" + s[len(s)-60:]
				}
				return strconv.Quote(s)
			}
			dPart = append(dPart, fmt.Sprintf("BODY[<path of %d numbers>] is not the addressed part: expected %d bytes %s, got %s", k, len(want), show(string(want)), show(res[min(len(res), len(c12Dotted(path[:k]))+6):])))
		}
	}
	small := "-"
	if len(pm.Structure) <= 60000 {
		small = mimeHex([]byte(pm.Structure))
	}
	return fmt.Sprintf("okshape %s %s %s %s %s %s %d %s %s %s %s", b2s(sxIsParenList([]byte(pm.Body))), b2s(sxIsParenList([]byte(pm.Structure))),
		b2s(sxIsParenList([]byte(pm.Envelope))), verdict, walk, part, listDepth, mimeHex([]byte(strings.Join(dStruct, "; "))),
		mimeHex([]byte(strings.Join(dWalk, "; "))), mimeHex([]byte(strings.Join(dPart, "; "))), small)
}

func c12WorkerMain() int {
	mimeQuietLogs()
	in := bufio.NewReaderSize(os.Stdin, 1<<20)
	out := bufio.NewWriterSize(os.Stdout, 1<<20)
	for {
		line, err := in.ReadString('\n')
		line = strings.TrimRight(line, "\r\n")
		if line != "" {
			fmt.Fprintln(out, c12WorkerRun(line))
			out.Flush()
		}
		if err != nil {
			return 0
		}
	}
}

// ---------------------------------------------------------------------------------------------
// parent: drives workers, evaluates

type c12WorkerProc struct {
	cmd    *exec.Cmd
	stdin  io.WriteCloser
	lines  chan string
	stderr *bytes.Buffer
}

func c12StartWorker() (*c12WorkerProc, error) {
	exe, err := os.Executable()
	if err != nil {
		return nil, err
	}
	cmd := exec.Command(exe, "oracle", "c12structure", "-worker")
	stdin, err := cmd.StdinPipe()
	if err != nil {
		return nil, err
	}
	stdout, err := cmd.StdoutPipe()
	if err != nil {
		return nil, err
	}
	w := &c12WorkerProc{cmd: cmd, stdin: stdin, lines: make(chan string, 16), stderr: &bytes.Buffer{}}
	cmd.Stderr = &c12CapWriter{buf: w.stderr, max: 4000}
	if err := cmd.Start(); err != nil {
		return nil, err
	}
	go func() {
		rd := bufio.NewReaderSize(stdout, 1<<20)
		for {
			l, err := rd.ReadString('\n')
			if l != "" && strings.HasSuffix(l, "\n") {
				w.lines <- strings.TrimRight(l, "\r\n")
			}
			if err != nil {
				close(w.lines)
				return
			}
		}
	}()
	return w, nil
}

// c12CapWriter keeps the first max bytes (the head of a Go crash report names the cause).
type c12CapWriter struct {
	buf *bytes.Buffer
	max int
}

func (c *c12CapWriter) Write(p []byte) (int, error) {
	if room := c.max - c.buf.Len(); room > 0 {
		c.buf.Write(p[:min(room, len(p))])
	}
	return len(p), nil
}

func (w *c12WorkerProc) kill() {
	_ = w.stdin.Close()
	_ = w.cmd.Process.Kill()
	_ = w.cmd.Wait()
}

// run one case; status: "" (got a result line), "died", "timeout"
func (w *c12WorkerProc) run(c *c12case, timeout time.Duration) (res string, status string) {
	if _, err := io.WriteString(w.stdin, c.line()+"\n"); err != nil {
		// the worker is already gone
		_ = w.cmd.Wait()
		return "", "died"
	}
	select {
	case l, ok := <-w.lines:
		if !ok {
			_ = w.cmd.Wait()
			return "", "died"
		}
		return l, ""
	case <-time.After(timeout):
		w.kill()
		return "", "timeout"
	}
}

type c12viol struct {
	Desc   string `json:"desc"`
	Replay string `json:"replay"`
}

type c12eval struct {
	replayDir  string
	stats      map[string]int
	viols      []c12viol
	seenClass  map[string]int
	samples    []map[string]string
	texts      map[string]string // hex text -> case line (for the Lean pass)
	textOrder  []string
	evals      int
	nontrivial int
}

func (e *c12eval) violation(class, detail string, c *c12case) {
	e.stats["violation."+class]++
	e.seenClass[class]++
	if e.seenClass[class] > 1 { // one replay per class
		return
	}
	if len(detail) > 900 {
		detail = detail[:900] + "…"
	}
	text := fmt.Sprintf("oracle c12structure\n# %s: %s\n%s\n", class, detail, c.line())
	h := sha1.Sum([]byte(text))
	_ = os.MkdirAll(e.replayDir, 0o755)
	path := filepath.Join(e.replayDir, fmt.Sprintf("C12-c12structure-%s-%s.txt", class, hex.EncodeToString(h[:5])))
	_ = os.WriteFile(path, []byte(text), 0o644)
	show := c.line()
	if len(show) > 300 {
		show = show[:300] + "…"
	}
	e.viols = append(e.viols, c12viol{Desc: fmt.Sprintf("c12structure: %s: %s [case: %s]", class, detail, show), Replay: path})
}

func (e *c12eval) addText(t []byte, c *c12case) {
	if len(t) > 60000 {
		e.stats["texts.too-large-for-lean"]++
		return
	}
	h := mimeHex(t)
	if _, ok := e.texts[h]; !ok {
		e.texts[h] = c.line()
		e.textOrder = append(e.textOrder, h)
	}
}

// c12NonStrict: quoted strings that are not RFC 3501 quoted syntax (finding #20), reported only
func c12NonStrict(items []*sx) int {
	n := 0
	for _, it := range items {
		switch it.kind {
		case '(':
			n += c12NonStrict(it.items)
		case 's':
			bad := false
			for i := 0; i < len(it.raw); i++ {
				c := it.raw[i]
				if c == '\\' {
					if i+1 < len(it.raw) && (it.raw[i+1] == '"' || it.raw[i+1] == '\\') {
						i++
						continue
					}
					bad = true
				} else if c >= 0x7f || c < 0x20 {
					bad = true
				}
			}
			if bad {
				n++
			}
		}
	}
	return n
}

// c12CheckWalk: every section 0 ≤ header ≤ body ≤ end ≤ len, every child inside its parent's body
func c12CheckWalk(walk string, n int) string {
	type rng struct{ d, h, b, e int }
	var stack []rng
	if walk == "" {
		return "empty-walk"
	}
	for _, it := range strings.Split(walk, ";") {
		p := strings.Split(it, ":")
		if len(p) != 4 {
			return "bad-walk-item"
		}
		r := rng{atoi(p[0]), atoi(p[1]), atoi(p[2]), atoi(p[3])}
		if !(0 <= r.h && r.h <= r.b && r.b <= r.e && r.e <= n) {
			return fmt.Sprintf("section-range-disordered %v len=%d", r, n)
		}
		for len(stack) > 0 && stack[len(stack)-1].d >= r.d {
			stack = stack[:len(stack)-1]
		}
		if len(stack) > 0 {
			par := stack[len(stack)-1]
			if !(par.b <= r.h && r.e <= par.e) {
				return fmt.Sprintf("section-outside-parent child=%v parent=%v", r, par)
			}
		} else if r.d != 0 {
			return "orphan-section"
		}
		stack = append(stack, r)
	}
	return ""
}

func (e *c12eval) evaluate(c *c12case, res, status string, stderr string) {
	e.evals++
	e.stats["class."+c.class]++
	if status != "" {
		cause := status
		if strings.Contains(stderr, "stack overflow") || strings.Contains(stderr, "stack exceeds") {
			cause = "stack-overflow"
		}
		head := strings.SplitN(strings.TrimSpace(stderr), "\n", 2)[0]
		e.violation("process-"+cause, fmt.Sprintf("worker process %s while handling the case (%s)", status, head), c)
		return
	}
	w := strings.Split(res, " ")
	e.stats["outcome."+w[0]]++
	switch {
	case w[0] == "panic":
		e.violation("panic", "recovered Go panic: "+string(mimeUnhex(w[1])), c)
	case c.kind == "addr":
		e.stats["addr."+w[0]]++
	case w[0] == "err":
		// an error return is not a crash; counted
		e.stats["parsedmessage-returned-error"]++
	case w[0] == "okshape" && len(w) == 12:
		for i, which := range []string{"body", "bodystructure", "envelope"} {
			if w[1+i] != "1" {
				e.violation("malformed-"+which, "text is not a well-formed parenthesised list (Go checker)", c)
			}
		}
		e.stats[fmt.Sprintf("shape.%s.structure-%s", c.deepK, w[4])]++
		switch w[4] {
		case "tree":
		case "flat":
			e.violation("rfc822-multipart-flattened", "message/rfc822 part holding a multipart message is reported as a multipart with subtype \"rfc822\" (no size, envelope, lines); otherwise the BODYSTRUCTURE is the tree the message was built from", c)
		default:
			e.violation("tree-mismatch", "reported BODYSTRUCTURE differs from the MIME tree the message was built from: "+string(mimeUnhex(w[8])), c)
		}
		if w[5] != "ok" {
			e.violation("tree-sections-differ", "the sections Parse+Walk visits are not the parts of the MIME tree the message was built from: "+string(mimeUnhex(w[9])), c)
		}
		if w[6] != "ok" {
			e.violation("body-section-not-the-part", "a body section does not address the part of the MIME tree its number path names: "+string(mimeUnhex(w[10])), c)
		}
		if w[11] != "-" {
			e.addText(mimeUnhex(w[11]), c)
		}
		e.nontrivial++
	case w[0] == "okdeep" && len(w) == 7:
		for i, which := range []string{"body", "bodystructure", "envelope"} {
			if w[1+i] != "1" {
				e.violation("malformed-"+which, "text is not a well-formed parenthesised list (Go checker)", c)
			}
		}
		e.stats[fmt.Sprintf("deep.%s.depth=%d.listdepth", c.deepK, c.depth)] = atoi(w[4])
		if w[6] != "-" {
			e.addText(mimeUnhex(w[6]), c)
		}
		e.nontrivial++
	case w[0] == "ok" && len(w) == 5:
		texts := [][]byte{mimeUnhex(w[1]), mimeUnhex(w[2]), mimeUnhex(w[3])}
		good := true
		for i, which := range []string{"body", "bodystructure", "envelope"} {
			if !sxIsParenList(texts[i]) {
				good = false
				e.violation("malformed-"+which, "text is not a well-formed parenthesised list (Go checker): "+strconv.Quote(string(texts[i])), c)
			}
			e.addText(texts[i], c)
		}
		if why := c12CheckWalk(w[4], len(c.data)); why != "" {
			e.violation("section-outside-parent", why, c)
		}
		if strings.Count(w[4], ";") > 0 {
			e.nontrivial++
			e.stats["multi-section"]++
		}
		if good {
			items, _ := sxParse(texts[1])
			if c12NonStrict(items) > 0 {
				e.stats["nonstrict-rfc3501-quoting(finding#20)"]++
			}
			if c.kind == "built" {
				got := c12ReportedCanon(items[0])
				switch {
				case got == c.expect:
					e.stats["built.structure-matches-tree"]++
					if c.expect != c.flat { // holds a message/rfc822 part with a multipart message inside (repo fix dd47701)
						e.stats["built.embedded-multipart-matches-tree"]++
					}
				case got == c.flat:
					e.violation("rfc822-multipart-flattened", "message/rfc822 part holding a multipart message is reported as a multipart with subtype \"rfc822\" (no size, envelope, lines): expected "+c.expect+" reported "+got, c)
				default:
					e.violation("tree-mismatch", "reported BODYSTRUCTURE differs from the MIME tree the message was built from: expected "+c.expect+" reported "+got, c)
				}
			}
		}
		if len(e.samples) < 3 && strings.Count(w[4], ";") > 1 {
			e.samples = append(e.samples, map[string]string{"oracle": "c12structure", "class": c.class, "bodystructure": string(texts[1]), "sections": w[4]})
		}
	default:
		e.violation("worker-protocol", "unexpected worker answer "+res, c)
	}
}

// leanPass feeds every collected text to the Lean reader (driver dialect `sexp`) and compares
// with the Go checker; the Lean definition is the oracle.
func (e *c12eval) leanPass(driver string) {
	if driver == "" || len(e.textOrder) == 0 {
		e.stats["lean-reader.skipped"] = 1
		return
	}
	dir, err := os.MkdirTemp("", "c12structure")
	if err != nil {
		e.stats["lean-reader.skipped"] = 1
		return
	}
	defer os.RemoveAll(dir)
	ops := filepath.Join(dir, "texts.ops")
	var sb strings.Builder
	for _, h := range e.textOrder {
		sb.WriteString("sexp " + h + "\n")
	}
	if err := os.WriteFile(ops, []byte(sb.String()), 0o644); err != nil {
		return
	}
	in, _ := os.Open(ops)
	defer in.Close()
	cmd := exec.Command(driver)
	cmd.Stdin = in
	outb, err := cmd.Output()
	if err != nil {
		e.violation("lean-driver", "model driver failed: "+err.Error(), &c12case{kind: "msg", data: nil})
		return
	}
	lines := strings.Split(strings.TrimRight(string(outb), "\n"), "\n")
	if len(lines) != len(e.textOrder) {
		e.violation("lean-driver", fmt.Sprintf("model driver answered %d lines for %d texts", len(lines), len(e.textOrder)), &c12case{kind: "msg"})
		return
	}
	for i, h := range e.textOrder {
		e.stats["lean-reader.texts"]++
		c, _ := c12ParseCaseLine(e.texts[h])
		if c == nil {
			c = &c12case{kind: "msg"}
		}
		goAns := implSexpCheck([]string{h})
		switch {
		case lines[i] != goAns:
			e.violation("lean-go-disagree", "Lean reader and Go checker disagree on "+strconv.Quote(string(mimeUnhex(h)))+": lean="+lines[i]+" go="+goAns, c)
		case !sxIsParenList(mimeUnhex(h)):
			e.violation("malformed-lean", "Lean reader: not one well-formed list "+strconv.Quote(string(mimeUnhex(h)))+": "+lines[i], c)
		default:
			e.stats["lean-reader.accepted"]++
		}
	}
}

var c12AddrPieces = []string{"a@b.c", "<", ">", "(", ")", "\"", "\\", ",", ";", ":", " ", "\t", "\r\n ", "@", ".", "[", "]", "=?utf-8?q?x?=", "Joe", "\xff", "\x00", "grp"}

func c12GenCases(r *Rng, n int, deep string) []*c12case {
	var cs []*c12case
	st := &Stats{Counts: map[string]int{}}
	for i := 0; i < n; i++ {
		switch k := r.Intn(10); {
		case k < 3:
			cs = append(cs, &c12case{kind: "msg", class: "garbage", data: mimeGenGarbage(r)})
		case k < 5:
			_, _, m := mimeGenBuilt(r)
			cs = append(cs, &c12case{kind: "msg", class: "mutated", data: mimeMutate(r, m)})
		case k < 9:
			t, eol, m := mimeGenBuilt(r)
			cs = append(cs, &c12case{kind: "built", class: "built", data: m, expect: t.expectCanon(eol, false), flat: t.expectCanon(eol, true)})
		default:
			var b []byte
			for j, k := 0, r.Intn(12); j < k; j++ {
				b = append(b, Pick(r, c12AddrPieces)...)
			}
			cs = append(cs, &c12case{kind: "addr", class: "addr", data: b})
		}
	}
	_ = st
	type dk struct {
		k string
		d int
	}
	var deeps []dk
	switch deep {
	case "quick":
		deeps = []dk{{"comment-open", 1000}, {"comment-open", 100000}, {"comment-closed", 100000}, {"rfc822", 300}, {"multipart", 300},
			{"multipart-same", 300}, {"quote-open", 10000}, {"angle", 10000}, {"group", 10000}, {"domain-literal", 10000}}
	case "thorough":
		deeps = []dk{{"comment-open", 1000}, {"comment-open", 100000}, {"comment-closed", 100000}, {"comment-closed", 1000000},
			{"rfc822", 300}, {"rfc822", 1500}, {"multipart", 300}, {"multipart", 6000}, {"multipart-same", 3000},
			{"quote-open", 1000000}, {"angle", 1000000}, {"group", 1000000}, {"domain-literal", 1000000},
			// finding #9: 1.2e7 nested comments (a 12 MB header, below the 30 MB literal cap)
			{"comment-open", 12000000}}
	}
	for _, d := range deeps {
		cs = append(cs, &c12case{kind: "deep", class: "deep-" + d.k, deepK: d.k, depth: d.d})
	}
	if deep == "quick" || deep == "thorough" { // size / depth boundaries (d_mimedeep.go)
		shapes := c12DirectedShapes(2, r)
		nrand := 40
		if deep == "thorough" {
			nrand = 400
			for _, d := range []int{2047, 2048, 2049, 4096, 4097} {
				shapes = append(shapes, c12ShapeSpec{"multipart", d, 0})
			}
			for _, d := range []int{1001, 1025} {
				shapes = append(shapes, c12ShapeSpec{"alt", d, 0}, c12ShapeSpec{"alt-r", d, 0}, c12ShapeSpec{"rfc822", d, 0})
			}
			shapes = append(shapes, c12ShapeSpec{"wide", 1, 65537}, c12ShapeSpec{"alt", 2049, 0})
		}
		for i := 0; i < nrand; i++ {
			shapes = append(shapes, c12RandomShape(r))
		}
		for _, s := range shapes {
			cs = append(cs, &c12case{kind: "shape", class: "shape-" + s.kind, deepK: s.kind, depth: s.d, width: s.w})
		}
	}
	return cs
}

func runC12Structure(args []string) int {
	fs := flag.NewFlagSet("c12structure", flag.ExitOnError)
	seed := fs.Uint64("seed", 1, "seed")
	outPath := fs.String("out", "", "result.json")
	replayDir := fs.String("replaydir", "replay", "directory for replay files")
	replay := fs.String("replay", "", "replay file")
	n := fs.Int("n", 2000, "number of generated messages")
	deep := fs.String("deep", "quick", "deep-nesting tier: none|quick|thorough")
	driver := fs.String("driver", "", "path of the Lean model driver (gluon_model_driver)")
	worker := fs.Bool("worker", false, "internal")
	_ = fs.Parse(args)
	if *worker {
		return c12WorkerMain()
	}
	mimeQuietLogs()
	if *driver == "" {
		*driver = os.Getenv("VERIF_DRIVER")
	}
	if *driver == "" { // default: next to the harness binary (<verif>/.build/vh)
		if exe, err := os.Executable(); err == nil {
			p := filepath.Join(filepath.Dir(filepath.Dir(exe)), "lean", ".lake", "build", "bin", "gluon_model_driver")
			if _, err := os.Stat(p); err == nil {
				*driver = p
			}
		}
	}
	e := &c12eval{replayDir: *replayDir, stats: map[string]int{}, seenClass: map[string]int{}, texts: map[string]string{}}
	var cases []*c12case
	if *replay != "" {
		b, err := os.ReadFile(*replay)
		if err != nil {
			fmt.Fprintln(os.Stderr, err)
			return 2
		}
		for _, l := range strings.Split(string(b), "\n") {
			if c, ok := c12ParseCaseLine(l); ok {
				if c.kind == "msg" {
					c.class = "replay"
				}
				cases = append(cases, c)
			}
		}
	} else {
		cases = c12GenCases(NewRng(*seed).Fork(), *n, *deep) // Fork: NewRng(seed+1) is NewRng(seed) shifted by one draw
	}
	var w *c12WorkerProc
	for _, c := range cases {
		if w == nil {
			var err error
			if w, err = c12StartWorker(); err != nil {
				fmt.Fprintln(os.Stderr, "cannot start worker:", err)
				return 2
			}
		}
		timeout := 30 * time.Second
		if c.kind == "deep" || c.kind == "shape" {
			timeout = 240 * time.Second
		}
		res, status := w.run(c, timeout)
		stderr := ""
		if status != "" {
			stderr = w.stderr.String()
			w = nil
		}
		e.evaluate(c, res, status, stderr)
	}
	if w != nil {
		w.kill()
	}
	e.leanPass(*driver)
	out := map[string]any{
		"evaluations":         e.evals,
		"distinct_nontrivial": e.nontrivial,
		"stats":               e.stats,
		"samples":             e.samples,
		"violations":          e.viols,
	}
	if e.viols == nil {
		out["violations"] = []c12viol{}
	}
	if e.samples == nil {
		out["samples"] = []map[string]string{}
	}
	b, _ := json.MarshalIndent(out, "", " ")
	if *outPath == "" {
		fmt.Println(string(b))
	} else if err := os.WriteFile(*outPath, b, 0o644); err != nil {
		fmt.Fprintln(os.Stderr, err)
		return 2
	}
	return 0
}

func init() {
	RegisterOracle(&Oracle{Name: "c12structure", Run: runC12Structure})
}
