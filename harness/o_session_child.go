package main

// `vh oracle c11child`: the server process of oracle `c11session` (property C11).
//
// A whole gluon server (public API, dummy connector, one user `user` / `pass`) with gluon's DEFAULT panic
// handler — so a panic in any server goroutine ends the process exactly as it would in a deployment — on a
// local TCP port. The process limits its own address space (RLIMIT_AS) as a backstop; the parent samples
// its resident set from /proc/<pid>/status and kills it above a cap, so that unbounded growth is observed
// instead of suffered. Protocol with the parent: one line `ADDR <host:port>` on stdout; the process exits
// with status 0 when its stdin is closed.

import (
	"context"
	"flag"
	"fmt"
	"io"
	"net"
	"os"
	"os/signal"
	"path/filepath"
	"runtime"
	"syscall"
	"time"

	"github.com/ProtonMail/gluon"
	"github.com/ProtonMail/gluon/connector"
	"github.com/ProtonMail/gluon/imap"
)

func c11sRunChild(args []string) int {
	fs := flag.NewFlagSet("c11child", flag.ExitOnError)
	dir := fs.String("dir", "", "working directory of the server (created by the parent)")
	asLimit := fs.Uint64("aslimit", 0, "RLIMIT_AS in MiB (0 = none)")
	_ = fs.Parse(args)
	if *asLimit > 0 {
		lim := &syscall.Rlimit{Cur: *asLimit << 20, Max: *asLimit << 20}
		if err := syscall.Setrlimit(syscall.RLIMIT_AS, lim); err != nil {
			fmt.Fprintln(os.Stderr, "c11child: setrlimit:", err)
		}
	}
	// no core files when the runtime aborts (GOTRACEBACK=crash)
	_ = syscall.Setrlimit(syscall.RLIMIT_CORE, &syscall.Rlimit{Cur: 0, Max: 0})
	// SIGUSR1: write the stacks of all goroutines to stderr and carry on (runtime.Stack stops the world, so the
	// goroutines that are running are shown too); the parent asks for it when the watchdog fires
	usr := make(chan os.Signal, 4)
	signal.Notify(usr, syscall.SIGUSR1)
	go func() {
		for range usr {
			buf := make([]byte, 64<<20)
			n := runtime.Stack(buf, true)
			_, _ = os.Stderr.Write(append(append([]byte("\n=== C11S STACKS BEGIN ===\n"), buf[:n]...), []byte("\n=== C11S STACKS END ===\n")...))
		}
	}()
	if *dir == "" {
		fmt.Fprintln(os.Stderr, "c11child: -dir missing")
		return 2
	}
	srv, err := gluon.New(
		gluon.WithDataDir(filepath.Join(*dir, "store")),
		gluon.WithDatabaseDir(filepath.Join(*dir, "db")),
		gluon.WithDelimiter("/"),
		gluon.WithLoginJailTime(time.Millisecond),
	)
	if err != nil {
		fmt.Fprintln(os.Stderr, "c11child: gluon.New:", err)
		return 2
	}
	flags := imap.NewFlagSet(imap.FlagSeen, imap.FlagFlagged, imap.FlagDeleted, imap.FlagAnswered, imap.FlagDraft)
	conn := connector.NewDummy([]string{"user"}, []byte(sysPassword), time.Hour, flags, flags, imap.NewFlagSet())
	conn.SetUpdatesAllowedToFail(true)
	ctx, cancel := context.WithCancel(context.Background())
	defer cancel()
	if _, err := srv.AddUser(ctx, conn, []byte("passphrase")); err != nil {
		fmt.Fprintln(os.Stderr, "c11child: AddUser:", err)
		return 2
	}
	if err := conn.Sync(ctx); err != nil {
		fmt.Fprintln(os.Stderr, "c11child: Sync:", err)
		return 2
	}
	ln, err := net.Listen("tcp", "127.0.0.1:0")
	if err != nil {
		fmt.Fprintln(os.Stderr, "c11child: listen:", err)
		return 2
	}
	if err := srv.Serve(ctx, ln); err != nil {
		fmt.Fprintln(os.Stderr, "c11child: Serve:", err)
		return 2
	}
	go func() {
		for range srv.GetErrorCh() {
		}
	}()
	fmt.Printf("ADDR %s\n", ln.Addr().String())
	_ = os.Stdout.Sync()
	_, _ = io.Copy(io.Discard, os.Stdin)
	// no orderly shutdown: the parent removes the directory; what matters was observed on the wire
	return 0
}

func init() {
	RegisterOracle(&Oracle{Name: "c11child", Run: c11sRunChild})
}
