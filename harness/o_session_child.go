package main

// `vh oracle c11child`: the server process of oracle `c11session` (property C11).
//
// A whole gluon server (public API, dummy connector, one user `user` / `pass`) with gluon's DEFAULT panic
// handler — so a panic in any server goroutine ends the process exactly as it would in a deployment — on a
// local TCP port. The process limits its own address space (RLIMIT_AS) as a backstop; the parent samples
// its resident set from /proc/<pid>/status and kills it above a cap, so that unbounded growth is observed
// instead of suffered. Protocol with the parent: one line `ADDR <host:port>` on stdout; the process exits
// with status 0 when its stdin is closed.
//
// Side channel for the accumulation oracle (`c11accum`, o_session_accum.go), harness only: a line on stdin is a
// request, answered by one line on stdout:
//
//	STATS        -> `STATS heapalloc=<bytes> heapobjects=<n> heapsys=<bytes> goroutines=<n>` measured after two
//	                runtime.GC() and debug.FreeOSMemory(): the LIVE heap, independent of GOGC and allocator slack
//	PROFILE <f>  -> `PROFILE written`: a pprof heap profile in file <f> (env C11A_PROFDIR of the oracle)
//	SITES        -> `SITES <bytes>@<frames>|<bytes>@<frames>|…`: the in-use bytes of the memory profile
//	                (runtime.MemProfile, after GC), summed per allocation site (innermost frames inside gluon first);
//	                meaningful with -memprofrate

import (
	"bufio"
	"context"
	"flag"
	"fmt"
	"io"
	"math"
	"net"
	"os"
	"os/signal"
	"path/filepath"
	"runtime"
	"runtime/debug"
	"runtime/pprof"
	"sort"
	"strings"
	"sync/atomic"
	"syscall"
	"time"

	"github.com/ProtonMail/gluon"
	"github.com/ProtonMail/gluon/connector"
	"github.com/ProtonMail/gluon/imap"
)

func c11sRunChild(args []string) int {
	fs := flag.NewFlagSet("c11child", flag.ExitOnError)
	dir := fs.String("dir", "", "working directory of the server (created by the parent)")
	asLimit := fs.Uint64("aslimit", 0, "RLIMIT_AS in MiB (0 = none)")
	memProfRate := fs.Int("memprofrate", 0, "runtime.MemProfileRate (0 = leave the default)")
	_ = fs.Parse(args)
	if *memProfRate > 0 {
		runtime.MemProfileRate = *memProfRate
	}
	if *asLimit > 0 {
		lim := &syscall.Rlimit{Cur: *asLimit << 20, Max: *asLimit << 20}
		if err := syscall.Setrlimit(syscall.RLIMIT_AS, lim); err != nil {
			fmt.Fprintln(os.Stderr, "c11child: setrlimit:", err)
		}
	}
	// no core files when the runtime aborts (GOTRACEBACK=crash)
	_ = syscall.Setrlimit(syscall.RLIMIT_CORE, &syscall.Rlimit{Cur: 0, Max: 0})
	// SIGUSR1: write the stacks of all goroutines to stderr and carry on (runtime.Stack stops the world, so the
	// goroutines that are running are shown too); the parent asks for it when the watchdog fires
	usr := make(chan os.Signal, 4)
	signal.Notify(usr, syscall.SIGUSR1)
	go func() {
		for range usr {
			buf := make([]byte, 64<<20)
			n := runtime.Stack(buf, true)
			_, _ = os.Stderr.Write(append(append([]byte("\n=== C11S STACKS BEGIN ===\n"), buf[:n]...), []byte("\n=== C11S STACKS END ===\n")...))
		}
	}()
	if *dir == "" {
		fmt.Fprintln(os.Stderr, "c11child: -dir missing")
		return 2
	}
	srv, err := gluon.New(
		gluon.WithDataDir(filepath.Join(*dir, "store")),
		gluon.WithDatabaseDir(filepath.Join(*dir, "db")),
		gluon.WithDelimiter("/"),
		gluon.WithLoginJailTime(time.Millisecond),
	)
	if err != nil {
		fmt.Fprintln(os.Stderr, "c11child: gluon.New:", err)
		return 2
	}
	flags := imap.NewFlagSet(imap.FlagSeen, imap.FlagFlagged, imap.FlagDeleted, imap.FlagAnswered, imap.FlagDraft)
	dummy := connector.NewDummy([]string{"user"}, []byte(sysPassword), time.Hour, flags, flags, imap.NewFlagSet())
	dummy.SetUpdatesAllowedToFail(true)
	conn := &c11sCountingConn{Dummy: dummy}
	ctx, cancel := context.WithCancel(context.Background())
	defer cancel()
	if _, err := srv.AddUser(ctx, conn, []byte("passphrase")); err != nil {
		fmt.Fprintln(os.Stderr, "c11child: AddUser:", err)
		return 2
	}
	if err := conn.Sync(ctx); err != nil {
		fmt.Fprintln(os.Stderr, "c11child: Sync:", err)
		return 2
	}
	ln, err := net.Listen("tcp", "127.0.0.1:0")
	if err != nil {
		fmt.Fprintln(os.Stderr, "c11child: listen:", err)
		return 2
	}
	if err := srv.Serve(ctx, ln); err != nil {
		fmt.Fprintln(os.Stderr, "c11child: Serve:", err)
		return 2
	}
	go func() {
		for range srv.GetErrorCh() {
		}
	}()
	fmt.Printf("ADDR %s\n", ln.Addr().String())
	_ = os.Stdout.Sync()
	c11sChildControl(dummy)
	// no orderly shutdown: the parent removes the directory; what matters was observed on the wire
	return 0
}

// c11sCountingConn: the dummy connector stands in for the remote mail service and keeps every message it was ever
// given (connector/dummy_state.go: createMessage stores literal + parsed form, nothing deletes them, also when the
// message has left its last mailbox). That memory is the remote's, not the server's: the accumulation oracle is told
// how many bytes it is.
type c11sCountingConn struct {
	*connector.Dummy
}

var c11sBackendBytes atomic.Int64

func (c *c11sCountingConn) CreateMessage(ctx context.Context, st connector.IMAPStateWrite, mboxID imap.MailboxID, literal []byte, flags imap.FlagSet, date time.Time) (imap.Message, []byte, error) {
	c11sBackendBytes.Add(int64(cap(literal)))
	return c.Dummy.CreateMessage(ctx, st, mboxID, literal, flags, date)
}

// c11sChildControl answers the requests of the parent (see the head of this file) until stdin is closed.
func c11sChildControl(dummy *connector.Dummy) {
	in := bufio.NewReader(os.Stdin)
	for {
		l, err := in.ReadString('\n')
		switch strings.TrimSpace(l) {
		case "STATS":
			// the dummy connector echoes every change made through IMAP as an update and queues it until its next
			// flush (period: an hour here); that queue is the test double's, not the server's
			dummy.ClearUpdates()
			runtime.GC()
			runtime.GC()
			debug.FreeOSMemory()
			var m runtime.MemStats
			runtime.ReadMemStats(&m)
			fmt.Printf("STATS heapalloc=%d heapobjects=%d heapsys=%d goroutines=%d backend=%d\n", m.HeapAlloc, m.HeapObjects, m.HeapSys, runtime.NumGoroutine(), c11sBackendBytes.Load())
			_ = os.Stdout.Sync()
		case "SITES":
			fmt.Printf("SITES %s\n", c11sChildSites())
			_ = os.Stdout.Sync()
		default:
			// PROFILE <file>: a pprof heap profile (after GC), for `go tool pprof` when a finding is investigated
			if f := strings.Fields(l); len(f) == 2 && f[0] == "PROFILE" {
				runtime.GC()
				runtime.GC()
				msg := "written"
				if fh, err := os.Create(f[1]); err != nil {
					msg = err.Error()
				} else {
					if err := pprof.WriteHeapProfile(fh); err != nil {
						msg = err.Error()
					}
					_ = fh.Close()
				}
				fmt.Printf("PROFILE %s\n", strings.ReplaceAll(msg, "\n", " "))
				_ = os.Stdout.Sync()
			}
		}
		if err != nil {
			_, _ = io.Copy(io.Discard, in)
			return
		}
	}
}

// c11sChildSites: in-use bytes per allocation site, biggest first (at most 40 sites).
func c11sChildSites() string {
	runtime.GC()
	runtime.GC()
	n, _ := runtime.MemProfile(nil, true)
	recs := make([]runtime.MemProfileRecord, n+200)
	n, ok := runtime.MemProfile(recs, true)
	if !ok {
		return "-"
	}
	sum := map[string]int64{}
	for _, r := range recs[:n] {
		if r.InUseBytes() <= 0 {
			continue
		}
		frames := runtime.CallersFrames(r.Stack())
		var inner, gl []string
		for {
			f, more := frames.Next()
			if f.Function != "" {
				fn := strings.TrimPrefix(f.Function, "github.com/ProtonMail/gluon/")
				if strings.HasPrefix(f.Function, "github.com/ProtonMail/gluon") {
					if len(gl) < 3 {
						gl = append(gl, fmt.Sprintf("%s:%d", fn, f.Line))
					}
				} else if len(gl) == 0 && len(inner) < 2 && !strings.HasPrefix(f.Function, "runtime.") {
					inner = append(inner, f.Function)
				}
			}
			if !more {
				break
			}
		}
		key := strings.Join(append(inner, gl...), "<")
		if key == "" {
			key = "(runtime)"
		}
		// the records hold what was SAMPLED (one allocation per MemProfileRate bytes on average); scale as pprof does
		est := float64(r.InUseBytes())
		if rate := float64(runtime.MemProfileRate); rate > 1 && r.InUseObjects() > 0 {
			avg := est / float64(r.InUseObjects())
			est /= 1 - math.Exp(-avg/rate)
		}
		sum[strings.ReplaceAll(strings.ReplaceAll(key, " ", ""), "|", "/")] += int64(est)
	}
	keys := make([]string, 0, len(sum))
	for k := range sum {
		keys = append(keys, k)
	}
	sort.Slice(keys, func(i, j int) bool {
		if sum[keys[i]] != sum[keys[j]] {
			return sum[keys[i]] > sum[keys[j]]
		}
		return keys[i] < keys[j]
	})
	if len(keys) > 40 {
		keys = keys[:40]
	}
	var parts []string
	for _, k := range keys {
		parts = append(parts, fmt.Sprintf("%d@%s", sum[k], k))
	}
	if len(parts) == 0 {
		return "-"
	}
	return strings.Join(parts, "|")
}

func init() {
	RegisterOracle(&Oracle{Name: "c11child", Run: c11sRunChild})
}
