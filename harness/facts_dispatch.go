package main

// Facts/Dispatch.lean (C18): the command dispatch of internal/session (handleCommand's type
// switch -> class, second-level switches, the serve loop / command reader / IDLE special cases),
// the `s.state == nil` guards, State.Selected's guard, how the any-state handlers touch s.state,
// and the shape of the login jail in internal/backend (getUserID) and of handleLogin.
// Anything of a shape this pass does not recognise is emitted as "unknown"/none.

import (
	"fmt"
	"go/ast"
	"go/token"
	"go/types"
	"sort"
	"strconv"
	"strings"
)

func dfFindFunc(files []*ast.File, name string) *ast.FuncDecl {
	for _, f := range files {
		for _, d := range f.Decls {
			if fd, ok := d.(*ast.FuncDecl); ok && fd.Body != nil && lfFuncDeclName(fd) == name {
				return fd
			}
		}
	}
	return nil
}

// dfPayloadTypeName: `*command.X` or `*X` -> X
func dfPayloadTypeName(e ast.Expr) string {
	if s, ok := e.(*ast.StarExpr); ok {
		e = s.X
	}
	switch t := e.(type) {
	case *ast.SelectorExpr:
		return t.Sel.Name
	case *ast.Ident:
		return t.Name
	}
	return "unknown"
}

// firstCallIn returns the name of the first `s.<name>(...)`-style call in the statements.
func dfFirstMethodCall(stmts []ast.Stmt, prefix string) string {
	found := ""
	for _, st := range stmts {
		ast.Inspect(st, func(n ast.Node) bool {
			if found != "" {
				return false
			}
			if call, ok := n.(*ast.CallExpr); ok {
				if sel, ok := call.Fun.(*ast.SelectorExpr); ok && strings.HasPrefix(sel.Sel.Name, prefix) {
					found = sel.Sel.Name
					return false
				}
			}
			return true
		})
		if found != "" {
			break
		}
	}
	return found
}

type dfSwitchCase struct{ ty, handler string }

// dfTypeSwitchCases lists (payload type, first handle* call in the clause) for every case of every
// type switch in fd; the default clause is reported with ty "default".
func dfTypeSwitchCases(fd *ast.FuncDecl) []dfSwitchCase {
	var out []dfSwitchCase
	if fd == nil {
		return out
	}
	ast.Inspect(fd.Body, func(n ast.Node) bool {
		ts, ok := n.(*ast.TypeSwitchStmt)
		if !ok {
			return true
		}
		for _, c := range ts.Body.List {
			cc := c.(*ast.CaseClause)
			h := dfFirstMethodCall(cc.Body, "handle")
			if h == "" {
				h = "-"
			}
			if cc.List == nil {
				out = append(out, dfSwitchCase{"default", h})
			}
			for _, t := range cc.List {
				out = append(out, dfSwitchCase{dfPayloadTypeName(t), h})
			}
		}
		return true
	})
	return out
}

func dfIsTrivialPrologue(st ast.Stmt) bool {
	switch s := st.(type) {
	case *ast.DeferStmt:
		return true
	case *ast.ExprStmt:
		if call, ok := s.X.(*ast.CallExpr); ok {
			q := types.ExprString(call.Fun)
			return strings.HasSuffix(q, ".Lock") || q == "profiling.Start"
		}
	}
	return false
}

// dfFirstGuard classifies the first non-prologue statement of fd; also returns the statements after it.
func dfFirstGuard(fd *ast.FuncDecl) (string, []ast.Stmt) {
	if fd == nil {
		return "unknown", nil
	}
	for i, st := range fd.Body.List {
		if dfIsTrivialPrologue(st) {
			continue
		}
		ifs, ok := st.(*ast.IfStmt)
		if !ok || ifs.Init != nil || ifs.Else != nil || len(ifs.Body.List) != 1 {
			return "none", fd.Body.List[i:]
		}
		ret, ok := ifs.Body.List[0].(*ast.ReturnStmt)
		if !ok {
			return "none", fd.Body.List[i:]
		}
		cond := types.ExprString(ifs.Cond)
		rets := ""
		for _, r := range ret.Results {
			rets += types.ExprString(r) + ";"
		}
		switch {
		case cond == "s.state == nil" && strings.Contains(rets, "ErrNotAuthenticated"):
			return "nil-state", fd.Body.List[i+1:]
		case cond == "s.state != nil" && strings.Contains(rets, "ErrAlreadyAuthenticated"):
			return "already-auth", fd.Body.List[i+1:]
		case cond == "!state.IsSelected()" && strings.Contains(rets, "ErrSessionNotSelected"):
			return "not-selected", fd.Body.List[i+1:]
		}
		return "none", fd.Body.List[i:]
	}
	return "none", nil
}

func dfLeanPairs(ps [][2]string) string {
	var b strings.Builder
	b.WriteString("[\n")
	for i, p := range ps {
		sep := ","
		if i == len(ps)-1 {
			sep = ""
		}
		fmt.Fprintf(&b, "  (%s, %s)%s\n", leanStr(p[0]), leanStr(p[1]), sep)
	}
	b.WriteString("]")
	return b.String()
}

func dfLeanOptNat(v int) string {
	if v < 0 {
		return "none"
	}
	return fmt.Sprintf("(some %d)", v)
}

func factsDispatch(c *factsCtx, outdir string) error {
	sess := c.parseDir("internal/session")
	st := c.parseDir("internal/state")
	back := c.parseDir("internal/backend")
	cmdPkg := c.parseDir("imap/command")

	var b strings.Builder
	b.WriteString("namespace Gluon.Facts\n\n")

	// (a) handleCommand
	classOf := map[string]string{
		"handleAnyCommand":              "any",
		"handleNotAuthenticatedCommand": "notauth",
		"handleAuthenticatedCommand":    "auth",
		"handleSelectedCommand":         "selected",
	}
	var table [][2]string
	defaultRefuses := "unknown"
	hc := dfFindFunc(sess, "Session.handleCommand")
	if hc != nil {
		ast.Inspect(hc.Body, func(n ast.Node) bool {
			ts, ok := n.(*ast.TypeSwitchStmt)
			if !ok {
				return true
			}
			for _, cl := range ts.Body.List {
				cc := cl.(*ast.CaseClause)
				cls := "unknown"
				if len(cc.Body) == 1 {
					if ret, ok := cc.Body[0].(*ast.ReturnStmt); ok && len(ret.Results) == 1 {
						if call, ok := ret.Results[0].(*ast.CallExpr); ok {
							if k, ok := classOf[calleeName(call)]; ok {
								cls = k
							}
							if cc.List == nil && calleeQualified(call) == "fmt.Errorf" {
								defaultRefuses = "true"
							}
						}
					}
				}
				if cc.List == nil {
					if defaultRefuses != "true" {
						defaultRefuses = "false"
					}
					continue
				}
				for _, t := range cc.List {
					table = append(table, [2]string{dfPayloadTypeName(t), cls})
				}
			}
			return false
		})
	}
	b.WriteString("/-- `Session.handleCommand`: payload type → class of the handler its case clause returns through\n    (any / notauth / auth / selected; \"unknown\" = clause of a shape the translator does not know) -/\n")
	b.WriteString("def dispatchTable : List (String × String) := " + dfLeanPairs(table) + "\n\n")
	b.WriteString("/-- the `default:` clause of that switch returns an error (\"bad command\") -/\n")
	b.WriteString("def dispatchDefaultRefuses : Option Bool := " + leanOptBool(defaultRefuses) + "\n\n")

	// (b) second-level switches
	var second [][2]string
	for _, fn := range []string{"Session.handleAnyCommand", "Session.handleNotAuthenticatedCommand", "Session.handleAuthenticatedCommand", "Session.handleWithMailbox"} {
		for _, sc := range dfTypeSwitchCases(dfFindFunc(sess, fn)) {
			if sc.ty != "default" {
				second = append(second, [2]string{strings.TrimPrefix(fn, "Session.") + ":" + sc.ty, sc.handler})
			}
		}
	}
	b.WriteString("/-- second-level type switches: \"<function>:<payload type>\" → handler called -/\n")
	b.WriteString("def dispatchSecond : List (String × String) := " + dfLeanPairs(second) + "\n\n")

	// (c) serve loop, command reader, idle
	emitSwitch := func(name, doc, fn string) {
		var ps [][2]string
		for _, sc := range dfTypeSwitchCases(dfFindFunc(sess, fn)) {
			ps = append(ps, [2]string{sc.ty, sc.handler})
		}
		b.WriteString("/-- " + doc + " -/\n")
		b.WriteString("def " + name + " : List (String × String) := " + dfLeanPairs(ps) + "\n\n")
	}
	emitSwitch("serveSwitch", "`Session.serve`: payload types special-cased before `handleOther` (→ `handleCommand`); \"default\" = everything else", "Session.serve")
	emitSwitch("readerSwitch", "`Session.startCommandReader`: payload types handled in the reader goroutine, never forwarded to `serve`", "Session.startCommandReader")
	emitSwitch("idleSwitch", "`Session.handleIdle`: payload types accepted while idling (\"-\" = no handler call: answered inline)", "Session.handleIdle")

	// payload types of the imap/command package
	ptypes := map[string]bool{}
	for _, f := range cmdPkg {
		for _, d := range f.Decls {
			fd, ok := d.(*ast.FuncDecl)
			if !ok || fd.Body == nil {
				continue
			}
			ast.Inspect(fd.Body, func(n ast.Node) bool {
				switch s := n.(type) {
				case *ast.ReturnStmt:
					if fd.Name.Name == "FromParser" && len(s.Results) == 2 {
						if u, ok := s.Results[0].(*ast.UnaryExpr); ok && u.Op == token.AND {
							if cl, ok := u.X.(*ast.CompositeLit); ok {
								ptypes[dfPayloadTypeName(cl.Type)] = true
							}
						}
					}
				case *ast.AssignStmt:
					if len(s.Lhs) == 1 && len(s.Rhs) == 1 && strings.HasSuffix(types.ExprString(s.Lhs[0]), ".Payload") {
						if u, ok := s.Rhs[0].(*ast.UnaryExpr); ok && u.Op == token.AND {
							if cl, ok := u.X.(*ast.CompositeLit); ok {
								ptypes[dfPayloadTypeName(cl.Type)] = true
							}
						}
					}
				}
				return true
			})
		}
	}
	var pl []string
	for k := range ptypes {
		pl = append(pl, k)
	}
	sort.Strings(pl)
	b.WriteString("/-- every payload type a command parser of imap/command can produce -/\ndef commandPayloadTypes : List String := [")
	for i, p := range pl {
		if i > 0 {
			b.WriteString(", ")
		}
		b.WriteString(leanStr(p))
	}
	b.WriteString("]\n\n")

	// (d) guards
	var guards [][2]string
	for _, fn := range []string{"Session.handleAuthenticatedCommand", "Session.handleSelectedCommand", "Session.handleIdle", "Session.handleLogin"} {
		g, _ := dfFirstGuard(dfFindFunc(sess, fn))
		guards = append(guards, [2]string{strings.TrimPrefix(fn, "Session."), g})
	}
	b.WriteString("/-- first statement after lock/defer/profiling prologue: \"nil-state\" = `if s.state == nil { return ErrNotAuthenticated }`,\n    \"already-auth\" = `if s.state != nil { return …ErrAlreadyAuthenticated }`, \"none\" = something else -/\n")
	b.WriteString("def handlerGuards : List (String × String) := " + dfLeanPairs(guards) + "\n\n")

	// handleSelectedCommand: after the guard only `return s.state.Selected(ctx, func…{… handleWithMailbox …})`
	selVia := "unknown"
	if g, rest := dfFirstGuard(dfFindFunc(sess, "Session.handleSelectedCommand")); g == "nil-state" {
		selVia = "false"
		if len(rest) == 1 {
			if ret, ok := rest[0].(*ast.ReturnStmt); ok && len(ret.Results) == 1 {
				if call, ok := ret.Results[0].(*ast.CallExpr); ok && types.ExprString(call.Fun) == "s.state.Selected" {
					inner := false
					ast.Inspect(call, func(n ast.Node) bool {
						if cc, ok := n.(*ast.CallExpr); ok && calleeName(cc) == "handleWithMailbox" {
							inner = true
						}
						return true
					})
					if inner {
						selVia = "true"
					}
				}
			}
		}
	}
	b.WriteString("/-- `handleSelectedCommand` does nothing but `return s.state.Selected(ctx, func(mailbox) { … handleWithMailbox … })` after its guard -/\n")
	b.WriteString("def selectedViaStateSelected : Option Bool := " + leanOptBool(selVia) + "\n\n")
	sg, _ := dfFirstGuard(dfFindFunc(st, "State.Selected"))
	b.WriteString("/-- first statement of `State.Selected`: \"not-selected\" = `if !state.IsSelected() { return ErrSessionNotSelected }` -/\n")
	b.WriteString("def stateSelectedGuard : String := " + leanStr(sg) + "\n\n")
	isSel := "unknown"
	if fd := dfFindFunc(st, "State.IsSelected"); fd != nil && len(fd.Body.List) == 1 {
		if ret, ok := fd.Body.List[0].(*ast.ReturnStmt); ok && len(ret.Results) == 1 {
			if types.ExprString(ret.Results[0]) == "state.snap != nil" {
				isSel = "true"
			} else {
				isSel = "false"
			}
		}
	}
	b.WriteString("/-- `State.IsSelected` is `return state.snap != nil` -/\ndef isSelectedIsSnapNonNil : Option Bool := " + leanOptBool(isSel) + "\n\n")

	// (e) how the any-state handlers use s.state
	anyFns := map[string]bool{"getCaps": true}
	for _, sc := range dfTypeSwitchCases(dfFindFunc(sess, "Session.handleAnyCommand")) {
		if sc.handler != "-" {
			anyFns[sc.handler] = true
		}
	}
	var anyNames []string
	for k := range anyFns {
		anyNames = append(anyNames, k)
	}
	sort.Strings(anyNames)
	var uses [][2]string
	for _, name := range anyNames {
		fd := dfFindFunc(sess, "Session."+name)
		if fd == nil {
			uses = append(uses, [2]string{name, "unknown"})
			continue
		}
		lfWalkStack(fd, func(n ast.Node, stack []ast.Node) {
			sel, ok := n.(*ast.SelectorExpr)
			if !ok || types.ExprString(sel.X) != "s.state" {
				return
			}
			guarded := "unguarded"
			for i := len(stack) - 1; i >= 0; i-- {
				if ifs, ok := stack[i].(*ast.IfStmt); ok {
					cond := types.ExprString(ifs.Cond)
					inElse := ifs.Else != nil && n.Pos() >= ifs.Else.Pos()
					if !inElse && (strings.HasPrefix(cond, "s.state != nil") || strings.HasPrefix(cond, "(s.state != nil)")) {
						guarded = "guarded"
					}
				}
			}
			uses = append(uses, [2]string{name, guarded})
		})
	}
	b.WriteString("/-- every `s.state.<x>` dereference in the any-state handlers (and getCaps): is it under `if s.state != nil …` -/\n")
	b.WriteString("def anyHandlerStateUses : List (String × String) := " + dfLeanPairs(uses) + "\n\n")

	// (f) login: handleLogin, Backend.GetState, Backend.getUserID
	loginAssignAfterErrCheck := "unknown"
	if fd := dfFindFunc(sess, "Session.handleLogin"); fd != nil {
		stage := 0 // 0: before GetState, 1: after `state, err := …GetState`, 2: after `if err != nil {… return err}`
		loginAssignAfterErrCheck = "false"
		for _, s := range fd.Body.List {
			switch x := s.(type) {
			case *ast.AssignStmt:
				if len(x.Rhs) == 1 {
					if call, ok := x.Rhs[0].(*ast.CallExpr); ok && calleeName(call) == "GetState" && stage == 0 {
						stage = 1
					}
				}
				if len(x.Lhs) == 1 && types.ExprString(x.Lhs[0]) == "s.state" {
					if stage == 2 && types.ExprString(x.Rhs[0]) == "state" {
						loginAssignAfterErrCheck = "true"
					} else {
						loginAssignAfterErrCheck = "false"
						stage = 99
					}
				}
			case *ast.IfStmt:
				if stage == 1 && types.ExprString(x.Cond) == "err != nil" && len(x.Body.List) > 0 {
					if _, ok := x.Body.List[len(x.Body.List)-1].(*ast.ReturnStmt); ok {
						stage = 2
					}
				}
			}
		}
	}
	b.WriteString("/-- `handleLogin` assigns `s.state = state` only after `if err != nil { … return err }` on `backend.GetState`'s error -/\n")
	b.WriteString("def loginSetsStateOnlyOnSuccess : Option Bool := " + leanOptBool(loginAssignAfterErrCheck) + "\n\n")

	getStateOK := "unknown"
	if fd := dfFindFunc(back, "Backend.GetState"); fd != nil {
		getStateOK = "false"
		for i, s := range fd.Body.List {
			as, ok := s.(*ast.AssignStmt)
			if !ok || len(as.Rhs) != 1 {
				continue
			}
			if call, ok := as.Rhs[0].(*ast.CallExpr); ok && calleeName(call) == "getUserID" && i+1 < len(fd.Body.List) {
				if ifs, ok := fd.Body.List[i+1].(*ast.IfStmt); ok && types.ExprString(ifs.Cond) == "err != nil" {
					if ret, ok := ifs.Body.List[len(ifs.Body.List)-1].(*ast.ReturnStmt); ok && len(ret.Results) == 2 && types.ExprString(ret.Results[0]) == "nil" {
						getStateOK = "true"
					}
				}
			}
		}
	}
	b.WriteString("/-- `Backend.GetState` returns `nil, err` when `getUserID` fails -/\n")
	b.WriteString("def getStateFailsWithoutUser : Option Bool := " + leanOptBool(getStateOK) + "\n\n")

	maxAttempts := -1
	for _, f := range back {
		for _, d := range f.Decls {
			gd, ok := d.(*ast.GenDecl)
			if !ok || gd.Tok != token.CONST {
				continue
			}
			for _, sp := range gd.Specs {
				vs := sp.(*ast.ValueSpec)
				for i, n := range vs.Names {
					if n.Name == "maxLoginAttempts" && i < len(vs.Values) {
						if lit, ok := vs.Values[i].(*ast.BasicLit); ok {
							if v, err := strconv.Atoi(lit.Value); err == nil {
								maxAttempts = v
							}
						}
					}
				}
			}
		}
	}
	b.WriteString("/-- `const maxLoginAttempts` (internal/backend/backend.go) -/\ndef loginMaxAttempts : Option Nat := " + dfLeanOptNat(maxAttempts) + "\n\n")

	// getUserID: Wait before the Authorize loop; success stores 0; `count == maxLoginAttempts` arms the timer
	waitFirst, successResets, cmp, armsTimer, timerResets, blockedErr, locked := "unknown", "unknown", "unknown", "unknown", "unknown", "unknown", "unknown"
	if fd := dfFindFunc(back, "Backend.getUserID"); fd != nil {
		waitIdx, loopIdx := -1, -1
		locked = "false"
		for i, s := range fd.Body.List {
			switch x := s.(type) {
			case *ast.ExprStmt:
				switch types.ExprString(x.X) {
				case "b.loginWG.Wait()":
					waitIdx = i
				case "b.loginLock.Lock()":
					if i == 0 {
						locked = "true"
					}
				}
			case *ast.RangeStmt:
				if loopIdx < 0 {
					loopIdx = i
					successResets = "false"
					ast.Inspect(x.Body, func(n ast.Node) bool {
						if ifs, ok := n.(*ast.IfStmt); ok && strings.Contains(types.ExprString(ifs.Cond), ".Authorize(") {
							for _, bs := range ifs.Body.List {
								if es, ok := bs.(*ast.ExprStmt); ok && types.ExprString(es.X) == "atomic.StoreInt32(&b.loginErrorCount, 0)" {
									successResets = "true"
								}
							}
						}
						return true
					})
				}
			case *ast.IfStmt:
				if x.Init != nil && strings.Contains(types.ExprString(x.Cond), "maxLoginAttempts") {
					if be, ok := x.Cond.(*ast.BinaryExpr); ok {
						cmp = be.Op.String()
					}
					if as, ok := x.Init.(*ast.AssignStmt); ok && len(as.Rhs) == 1 && types.ExprString(as.Rhs[0]) != "atomic.AddInt32(&b.loginErrorCount, 1)" {
						cmp = "unknown"
					}
					armsTimer, timerResets, blockedErr = "false", "false", "false"
					added := false
					for _, bs := range x.Body.List {
						switch y := bs.(type) {
						case *ast.ExprStmt:
							if types.ExprString(y.X) == "b.loginWG.Add(1)" {
								added = true
							}
							if call, ok := y.X.(*ast.CallExpr); ok && types.ExprString(call.Fun) == "time.AfterFunc" && len(call.Args) == 2 &&
								types.ExprString(call.Args[0]) == "b.loginJailTime" && added {
								armsTimer = "true"
								if fl, ok := call.Args[1].(*ast.FuncLit); ok {
									done, reset := false, false
									for _, ts := range fl.Body.List {
										switch z := ts.(type) {
										case *ast.DeferStmt:
											if types.ExprString(z.Call) == "b.loginWG.Done()" {
												done = true
											}
										case *ast.ExprStmt:
											if types.ExprString(z.X) == "atomic.StoreInt32(&b.loginErrorCount, 0)" {
												reset = true
											}
										}
									}
									if done && reset {
										timerResets = "true"
									}
								}
							}
						case *ast.ReturnStmt:
							if len(y.Results) == 2 && types.ExprString(y.Results[1]) == "ErrLoginBlocked" {
								blockedErr = "true"
							}
						}
					}
				}
			}
		}
		if waitIdx >= 0 && loopIdx >= 0 {
			if waitIdx < loopIdx {
				waitFirst = "true"
			} else {
				waitFirst = "false"
			}
		}
	}
	b.WriteString("structure LoginShape where\n  /-- `b.loginLock.Lock()` is the first statement (attempts are serialised) -/\n  locked : Option Bool\n  /-- `b.loginWG.Wait()` precedes the `Authorize` loop -/\n  waitsBeforeAuthorize : Option Bool\n  /-- a successful `Authorize` stores 0 into `loginErrorCount` -/\n  successResetsCounter : Option Bool\n  /-- operator comparing `atomic.AddInt32(&b.loginErrorCount, 1)` with `maxLoginAttempts` -/\n  comparison : String\n  /-- that branch does `loginWG.Add(1)` and `time.AfterFunc(b.loginJailTime, …)` -/\n  armsTimer : Option Bool\n  /-- the timer function resets the counter and calls `loginWG.Done()` -/\n  timerResetsAndReleases : Option Bool\n  /-- that branch returns `ErrLoginBlocked` -/\n  returnsBlocked : Option Bool\nderiving DecidableEq, Repr\n\n")
	fmt.Fprintf(&b, "/-- shape of `Backend.getUserID` -/\ndef loginShape : LoginShape :=\n  { locked := %s, waitsBeforeAuthorize := %s, successResetsCounter := %s, comparison := %s,\n    armsTimer := %s, timerResetsAndReleases := %s, returnsBlocked := %s }\n\n",
		leanOptBool(locked), leanOptBool(waitFirst), leanOptBool(successResets), leanStr(cmp), leanOptBool(armsTimer), leanOptBool(timerResets), leanOptBool(blockedErr))

	// (g) where the user of a session comes from (facts_dispatch_login.go)
	b.WriteString(dfLoginSourceFacts(sess, back))

	b.WriteString("end Gluon.Facts\n")
	return writeLean(outdir, "Dispatch.lean", b.String())
}

func init() {
	factGens = append(factGens, factGen{"Dispatch", factsDispatch})
}
