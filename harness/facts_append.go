package main

// Facts/Append.lean (C20): what the APPEND / recovery-mailbox model (GluonModel/Model/Append.lean)
// takes from the source as given:
//   - the recovery mailbox name constants and the X-Pm-Gluon-Id header key (internal/ids),
//   - which header fields rfc822.GetMessageHash reads (Date and Message-Id are not among them),
//   - the order of the calls in actionCreateRecoveredMessage (the hash is inserted before the
//     store and database writes, design finding #19), in actionMoveMessagesOutOfRecoveryMailbox
//     (the hashes are erased before the destination is written) and in
//     actionRemoveMessagesFromMailboxUnchecked,
//   - which functions guard the recovery mailbox name and with which comparison,
//   - which errors Mailbox.Append exempts from the recovery insert,
//   - the control-flow skeleton (conditions of the `if`s, loops, `continue` / `break`, assignments to a
//     parameter) of the functions the recovery path of the model transcribes statement by statement:
//     a swallowed error that is no longer swallowed, a shortcut in an import loop, a name that is
//     rewritten after its guard all show up there.
// Theorems/C20.lean proves (`by decide`) that these facts are the ones the model was written for; a
// change of the source changes the regenerated file and breaks that theorem.

import (
	"fmt"
	"go/ast"
	"go/token"
	"go/types"
	"os"
	"path/filepath"
	"sort"
	"strconv"
	"strings"
)

func c20FaFindFunc(files []*ast.File, name string) *ast.FuncDecl {
	for _, f := range files {
		for _, d := range f.Decls {
			if fd, ok := d.(*ast.FuncDecl); ok && fd.Body != nil && lfFuncDeclName(fd) == name {
				return fd
			}
		}
	}
	return nil
}

// c20FaCalls: the selector names of the calls in fd's body that are in `want`, in source order.
func c20FaCalls(fd *ast.FuncDecl, want map[string]bool) []string {
	type c struct {
		pos  token.Pos
		name string
	}
	var cs []c
	ast.Inspect(fd.Body, func(n ast.Node) bool {
		call, ok := n.(*ast.CallExpr)
		if !ok {
			return true
		}
		name := ""
		switch f := call.Fun.(type) {
		case *ast.SelectorExpr:
			name = f.Sel.Name
		case *ast.Ident:
			name = f.Name
		}
		if want[name] {
			cs = append(cs, c{call.Pos(), name})
		}
		return true
	})
	sort.SliceStable(cs, func(i, j int) bool { return cs[i].pos < cs[j].pos })
	out := make([]string, len(cs))
	for i := range cs {
		out[i] = cs[i].name
	}
	return out
}

// c20FaSkeleton: the control-flow markers of fd's body in source order.
func c20FaSkeleton(fd *ast.FuncDecl) []string {
	params := map[string]bool{}
	if fd.Type.Params != nil {
		for _, f := range fd.Type.Params.List {
			for _, n := range f.Names {
				params[n.Name] = true
			}
		}
	}
	type m struct {
		pos  token.Pos
		text string
	}
	var ms []m
	ast.Inspect(fd.Body, func(n ast.Node) bool {
		switch x := n.(type) {
		case *ast.IfStmt:
			ms = append(ms, m{x.Pos(), "if " + types.ExprString(x.Cond)})
		case *ast.ForStmt:
			ms = append(ms, m{x.Pos(), "for"})
		case *ast.RangeStmt:
			ms = append(ms, m{x.Pos(), "for"})
		case *ast.BranchStmt:
			ms = append(ms, m{x.Pos(), x.Tok.String()})
		case *ast.AssignStmt:
			if x.Tok == token.ASSIGN {
				for _, l := range x.Lhs {
					if id, ok := l.(*ast.Ident); ok && params[id.Name] {
						ms = append(ms, m{x.Pos(), "assign " + id.Name})
					}
				}
			}
		}
		return true
	})
	sort.SliceStable(ms, func(i, j int) bool { return ms[i].pos < ms[j].pos })
	out := make([]string, len(ms))
	for i := range ms {
		out[i] = ms[i].text
	}
	return out
}

func c20FaSet(names ...string) map[string]bool {
	m := map[string]bool{}
	for _, n := range names {
		m[n] = true
	}
	return m
}

func c20FaStrList(xs []string) string {
	q := make([]string, len(xs))
	for i, x := range xs {
		q[i] = strconv.Quote(x)
	}
	return "[" + strings.Join(q, ", ") + "]"
}

func c20FactsAppend(c *factsCtx, outdir string) error {
	// constants of internal/ids
	consts := map[string]string{}
	for _, f := range c.parseDir("internal/ids") {
		for _, d := range f.Decls {
			gd, ok := d.(*ast.GenDecl)
			if !ok || gd.Tok != token.CONST {
				continue
			}
			for _, sp := range gd.Specs {
				vs := sp.(*ast.ValueSpec)
				for i, n := range vs.Names {
					if i >= len(vs.Values) {
						continue
					}
					var lit *ast.BasicLit
					switch v := vs.Values[i].(type) {
					case *ast.BasicLit:
						lit = v
					case *ast.CallExpr: // imap.MailboxID("…")
						if len(v.Args) == 1 {
							lit, _ = v.Args[0].(*ast.BasicLit)
						}
					}
					if lit != nil && lit.Kind == token.STRING {
						if s, err := strconv.Unquote(lit.Value); err == nil {
							consts[n.Name] = s
						}
					}
				}
			}
		}
	}
	for _, k := range []string{"GluonRecoveryMailboxName", "GluonRecoveryMailboxNameLowerCase", "InternalIDKey", "GluonInternalRecoveryMailboxRemoteID"} {
		if _, ok := consts[k]; !ok {
			return fmt.Errorf("constant ids.%s not found", k)
		}
	}

	// header fields GetMessageHash reads
	var hashed []string
	if fd := c20FaFindFunc(c.parseDir("rfc822"), "GetMessageHash"); fd != nil {
		seen := map[string]bool{}
		ast.Inspect(fd.Body, func(n ast.Node) bool {
			call, ok := n.(*ast.CallExpr)
			if !ok || len(call.Args) != 1 {
				return true
			}
			sel, ok := call.Fun.(*ast.SelectorExpr)
			if !ok || sel.Sel.Name != "Get" {
				return true
			}
			if lit, ok := call.Args[0].(*ast.BasicLit); ok && lit.Kind == token.STRING {
				if s, err := strconv.Unquote(lit.Value); err == nil && !seen[s] {
					seen[s] = true
					hashed = append(hashed, s)
				}
			}
			return true
		})
	} else {
		return fmt.Errorf("rfc822.GetMessageHash not found")
	}

	state := c.parseDir("internal/state")
	order := func(fn string, want map[string]bool) ([]string, error) {
		fd := c20FaFindFunc(state, fn)
		if fd == nil {
			return nil, fmt.Errorf("%s not found", fn)
		}
		return c20FaCalls(fd, want), nil
	}
	createRec, err := order("State.actionCreateRecoveredMessage", c20FaSet("NewParsedMessage", "Insert", "SetUnchecked", "CreateMessageAndAddToMailbox"))
	if err != nil {
		return err
	}
	moveOut, err := order("State.actionMoveMessagesOutOfRecoveryMailbox", c20FaSet("actionImportRecoveredMessage", "MarkMessageAsDeleted", "RemoveMessagesFromMailbox", "Erase", "actionAddRecoveredMessagesToMailbox"))
	if err != nil {
		return err
	}
	copyOut, err := order("State.actionCopyMessagesOutOfRecoveryMailbox", c20FaSet("actionImportRecoveredMessage", "MarkMessageAsDeleted", "RemoveMessagesFromMailbox", "Erase", "actionAddRecoveredMessagesToMailbox"))
	if err != nil {
		return err
	}
	removeUnchecked, err := order("State.actionRemoveMessagesFromMailboxUnchecked", c20FaSet("RemoveMessagesFromMailbox", "Erase"))
	if err != nil {
		return err
	}
	createMsg, err := order("State.actionCreateMessage", c20FaSet("CreateMessage", "GetMessageIDFromRemoteID", "actionAddMessagesToMailbox", "NewParsedMessage", "SetUnchecked", "CreateMessageAndAddToMailbox"))
	if err != nil {
		return err
	}

	// control-flow skeletons
	skeletonFns := []string{"State.actionCreateRecoveredMessage", "State.actionImportRecoveredMessage",
		"State.actionCopyMessagesOutOfRecoveryMailbox", "State.actionMoveMessagesOutOfRecoveryMailbox",
		"State.actionAddRecoveredMessagesToMailbox", "State.Delete"}
	skeletons := map[string][]string{}
	for _, fn := range skeletonFns {
		fd := c20FaFindFunc(state, fn)
		if fd == nil {
			return fmt.Errorf("%s not found", fn)
		}
		skeletons[fn] = c20FaSkeleton(fd)
	}

	// guards on the recovery mailbox name
	type guard struct{ fn, kind string }
	var guards []guard
	for _, f := range state {
		for _, d := range f.Decls {
			fd, ok := d.(*ast.FuncDecl)
			if !ok || fd.Body == nil {
				continue
			}
			fn := lfFuncDeclName(fd)
			ast.Inspect(fd.Body, func(n ast.Node) bool {
				call, ok := n.(*ast.CallExpr)
				if !ok {
					return true
				}
				s := types.ExprString(call)
				switch {
				case strings.HasPrefix(s, "strings.EqualFold(") && strings.Contains(s, "ids.GluonRecoveryMailboxName"):
					guards = append(guards, guard{fn, "EqualFold"})
				case strings.HasPrefix(s, "strings.HasPrefix(strings.ToLower(") && strings.Contains(s, "ids.GluonRecoveryMailboxNameLowerCase"):
					guards = append(guards, guard{fn, "HasPrefix-ToLower"})
				}
				return true
			})
		}
	}
	sort.SliceStable(guards, func(i, j int) bool {
		if guards[i].fn != guards[j].fn {
			return guards[i].fn < guards[j].fn
		}
		return guards[i].kind < guards[j].kind
	})

	// errors Mailbox.Append exempts from the recovery insert: errors.Is(err, X) before actionCreateRecoveredMessage
	var exempt []string
	if fd := c20FaFindFunc(state, "Mailbox.Append"); fd != nil {
		var recPos token.Pos
		ast.Inspect(fd.Body, func(n ast.Node) bool {
			if call, ok := n.(*ast.CallExpr); ok {
				if sel, ok := call.Fun.(*ast.SelectorExpr); ok && sel.Sel.Name == "actionCreateRecoveredMessage" && recPos == 0 {
					recPos = call.Pos()
				}
			}
			return true
		})
		ast.Inspect(fd.Body, func(n ast.Node) bool {
			if call, ok := n.(*ast.CallExpr); ok && types.ExprString(call.Fun) == "errors.Is" && len(call.Args) == 2 && call.Pos() < recPos {
				exempt = append(exempt, types.ExprString(call.Args[1]))
			}
			return true
		})
		if recPos == 0 {
			return fmt.Errorf("Mailbox.Append no longer calls actionCreateRecoveredMessage")
		}
	} else {
		return fmt.Errorf("Mailbox.Append not found")
	}

	// connector-side protection (not modelled): functions of internal/backend that test an ID against
	// ids.GluonInternalRecoveryMailboxRemoteID or the user's recoveryMailboxID
	var backendGuards []string
	for _, f := range c.parseDir("internal/backend") {
		for _, d := range f.Decls {
			fd, ok := d.(*ast.FuncDecl)
			if !ok || fd.Body == nil {
				continue
			}
			n := 0
			ast.Inspect(fd.Body, func(x ast.Node) bool {
				if ifs, ok := x.(*ast.IfStmt); ok {
					cond := types.ExprString(ifs.Cond)
					if strings.Contains(cond, "ids.GluonInternalRecoveryMailboxRemoteID") || strings.Contains(cond, "user.recoveryMailboxID") {
						n++
					}
				}
				return true
			})
			for i := 0; i < n; i++ {
				backendGuards = append(backendGuards, lfFuncDeclName(fd))
			}
		}
	}
	sort.Strings(backendGuards)

	var b strings.Builder
	b.WriteString("-- GENERATED by `vh facts` from /repo's source; do not edit.\nnamespace Gluon.Facts.Append\n\n")
	fmt.Fprintf(&b, "/-- ids.GluonRecoveryMailboxName -/\ndef recoveryMailboxName : String := %s\n", strconv.Quote(consts["GluonRecoveryMailboxName"]))
	fmt.Fprintf(&b, "/-- ids.GluonRecoveryMailboxNameLowerCase -/\ndef recoveryMailboxNameLower : String := %s\n", strconv.Quote(consts["GluonRecoveryMailboxNameLowerCase"]))
	fmt.Fprintf(&b, "/-- ids.InternalIDKey -/\ndef internalIDKey : String := %s\n", strconv.Quote(consts["InternalIDKey"]))
	fmt.Fprintf(&b, "/-- ids.GluonInternalRecoveryMailboxRemoteID -/\ndef recoveryMailboxRemoteID : String := %s\n\n", strconv.Quote(consts["GluonInternalRecoveryMailboxRemoteID"]))
	fmt.Fprintf(&b, "/-- header fields rfc822.GetMessageHash reads (`header.Get(\"…\")`), in source order -/\ndef hashedHeaderFields : List String := %s\n\n", c20FaStrList(hashed))
	fmt.Fprintf(&b, "/-- calls of actionCreateRecoveredMessage, in source order -/\ndef createRecoveredCalls : List String := %s\n", c20FaStrList(createRec))
	fmt.Fprintf(&b, "/-- calls of actionCreateMessage, in source order -/\ndef createMessageCalls : List String := %s\n", c20FaStrList(createMsg))
	fmt.Fprintf(&b, "/-- calls of actionMoveMessagesOutOfRecoveryMailbox, in source order -/\ndef moveOutCalls : List String := %s\n", c20FaStrList(moveOut))
	fmt.Fprintf(&b, "/-- calls of actionCopyMessagesOutOfRecoveryMailbox, in source order -/\ndef copyOutCalls : List String := %s\n", c20FaStrList(copyOut))
	fmt.Fprintf(&b, "/-- calls of actionRemoveMessagesFromMailboxUnchecked, in source order -/\ndef removeUncheckedCalls : List String := %s\n\n", c20FaStrList(removeUnchecked))
	b.WriteString("/-- (function, comparison) for every guard on the recovery mailbox name in internal/state -/\ndef recoveryNameGuards : List (String × String) := [\n")
	for i, g := range guards {
		sep := ","
		if i == len(guards)-1 {
			sep = ""
		}
		fmt.Fprintf(&b, "  (%s, %s)%s\n", strconv.Quote(g.fn), strconv.Quote(g.kind), sep)
	}
	b.WriteString("]\n\n")
	fmt.Fprintf(&b, "/-- `errors.Is(err, X)` exemptions of Mailbox.Append before the recovery insert -/\ndef appendExemptErrors : List String := %s\n\n", c20FaStrList(exempt))
	fmt.Fprintf(&b, "/-- functions of internal/backend with an `if` on the recovery mailbox's remote or internal ID (connector-side protection) -/\ndef backendRecoveryGuards : List String := %s\n\n", c20FaStrList(backendGuards))
	b.WriteString("/-- control-flow skeleton (if-conditions, loops, continue/break, assignments to a parameter) of the functions of the recovery path, in source order -/\ndef controlSkeleton : List (String × List String) := [\n")
	for i, fn := range skeletonFns {
		sep := ","
		if i == len(skeletonFns)-1 {
			sep = ""
		}
		fmt.Fprintf(&b, "  (%s, %s)%s\n", strconv.Quote(fn), c20FaStrList(skeletons[fn]), sep)
	}
	b.WriteString("]\n\n")
	b.WriteString("end Gluon.Facts.Append\n")
	return os.WriteFile(filepath.Join(outdir, "Append.lean"), []byte(b.String()), 0o644)
}

func init() { factGens = append(factGens, factGen{"Append", c20FactsAppend}) }
